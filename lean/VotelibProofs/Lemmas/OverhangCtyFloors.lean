/-
  The by-constituency floors (model lowestAllowedCty) cover every tier party's direct seats, summed over the constituencies.
-/
import VotelibProofs.Lemmas.OverhangLR
namespace VL.OH
open VL

/-! ### the by-constituency floors cover the direct seats -/

theorem lowestAllowedCty_eq (cres : List (Cty × Dist)) (prev : CSeats) :
    lowestAllowedCty cres prev =
      cres.foldl (fun all d => addDist all (lowestCtyOne (propParties cres) d.2 (ctyPrev prev d.1))) [] := rfl

/-- `d.get(k, 0)` of a sum of dicts with distinct keys each -/
theorem distGet_foldl_addDist {α : Type} (L : List α) (g : α → Dist) (hnd : ∀ x ∈ L, ((g x).map (·.1)).Nodup)
    (init : Dist) (k : Key) :
    distGet (L.foldl (fun all x => addDist all (g x)) init) k = distGet init k + (L.map (fun x => distGet (g x) k)).sum := by
  induction L generalizing init with
  | nil => simp
  | cons x xs ih =>
    rw [List.foldl_cons, ih (fun y hy => hnd y (List.mem_cons_of_mem _ hy)),
      distGet_addDist_nodup _ _ (hnd x List.mem_cons_self)]
    simp only [List.map_cons, List.sum_cons]
    omega

theorem mem_keys_addDist (d1 d2 : Dist) (x : Key) (h : x ∈ (addDist d1 d2).map (·.1)) :
    x ∈ d1.map (·.1) ∨ x ∈ d2.map (·.1) := by
  induction d2 generalizing d1 with
  | nil => exact Or.inl h
  | cons a as ih =>
    rw [addDist_cons] at h
    rcases ih _ h with h1 | h2
    · rw [mem_keys_setK] at h1
      rcases h1 with h1 | h1
      · exact Or.inl h1
      · exact Or.inr (by rw [h1]; simp)
    · exact Or.inr (by simp only [List.map_cons, List.mem_cons]; exact Or.inr h2)

theorem mem_keys_foldl_addDist {α : Type} (L : List α) (g : α → Dist) (init : Dist) (x : Key)
    (h : x ∈ (L.foldl (fun all y => addDist all (g y)) init).map (·.1)) :
    x ∈ init.map (·.1) ∨ ∃ y ∈ L, x ∈ (g y).map (·.1) := by
  induction L generalizing init with
  | nil => exact Or.inl h
  | cons y ys ih =>
    rw [List.foldl_cons] at h
    rcases ih _ h with h1 | ⟨z, hz, hx⟩
    · rcases mem_keys_addDist _ _ _ h1 with h2 | h2
      · exact Or.inl h2
      · exact Or.inr ⟨y, List.mem_cons_self, h2⟩
    · exact Or.inr ⟨z, List.mem_cons_of_mem _ hz, hx⟩

theorem mem_propParties (cres : List (Cty × Dist)) (k : Key) :
    k ∈ propParties cres ↔ ∃ d ∈ cres, k ∈ d.2.map (·.1) := by
  unfold propParties
  simp only [List.mem_flatMap]

theorem lowestCtyOne_keys (tier : List Key) (res : Dist) (prevc : Seats) (k : Key)
    (h : k ∈ (lowestCtyOne tier res prevc).map (·.1)) : k ∈ res.map (·.1) ∨ k ∈ tier := by
  unfold lowestCtyOne at h
  rw [List.map_append, List.mem_append] at h
  rcases h with h | h
  · left
    rw [List.map_map] at h
    exact h
  · right
    obtain ⟨e, he, rfl⟩ := List.mem_map.mp h
    obtain ⟨q, _, hq⟩ := List.mem_filterMap.mp he
    split at hq
    · rename_i hc
      simp only [Option.some.injEq] at hq
      rw [← hq]
      simp only [Bool.and_eq_true] at hc
      exact List.contains_iff_mem.mp hc.1
    · simp at hq

/-- every key of the summed floors is a party (or tie) of the proportional tier -/
theorem lowestAllowedCty_keys (cres : List (Cty × Dist)) (prev : CSeats) (k : Key)
    (h : k ∈ (lowestAllowedCty cres prev).map (·.1)) : k ∈ propParties cres := by
  rw [lowestAllowedCty_eq] at h
  rcases mem_keys_foldl_addDist cres _ [] k h with h0 | ⟨d, hd, hk⟩
  · simp at h0
  · rcases lowestCtyOne_keys _ _ _ _ hk with h1 | h1
    · exact (mem_propParties cres k).mpr ⟨d, hd, h1⟩
    · exact h1

theorem lowestCtyOne_nodup (tier : List Key) (res : Dist) (prevc : Seats) (hr : (res.map (·.1)).Nodup)
    (hp : (prevc.map (·.1)).Nodup) : ((lowestCtyOne tier res prevc).map (·.1)).Nodup := by
  unfold lowestCtyOne
  rw [List.map_append, List.nodup_append]
  refine ⟨by rw [List.map_map]; exact hr, ?_, ?_⟩
  · -- keys of the extra part: a sublist of the (injectively renamed) keys of prevc
    have hsub : ((prevc.filterMap (fun q =>
        if tier.contains (Key.cand q.1) && !(distHas res (.cand q.1)) then some (Key.cand q.1, max q.2 0) else none)).map (·.1)).Sublist
        ((prevc.map (·.1)).map Key.cand) := by
      clear hp
      induction prevc with
      | nil => simp
      | cons q qs ih =>
        rw [List.filterMap_cons]
        split
        · rename_i hnone
          simp only [List.map_cons]
          exact ih.cons _
        · rename_i b hsome
          split at hsome
          · simp only [Option.some.injEq] at hsome
            rw [← hsome]
            simp only [List.map_cons]
            exact ih.cons_cons _
          · simp at hsome
    exact hsub.nodup (hp.map (fun a b hab => by cases hab; rfl))
  · intro a ha b hb
    rw [List.map_map] at ha
    obtain ⟨e, he, rfl⟩ := List.mem_map.mp hb
    obtain ⟨q, _, hq⟩ := List.mem_filterMap.mp he
    split at hq
    · rename_i hc
      simp only [Option.some.injEq] at hq
      rw [← hq]
      simp only [Bool.and_eq_true, Bool.not_eq_true'] at hc
      intro hab
      have hin : distHas res (Key.cand q.1) = true := by
        rw [distHas_iff]
        have : a = Key.cand q.1 := hab
        rw [← this]; exact ha
      rw [hc.2] at hin
      exact Bool.false_ne_true hin
    · simp at hq

theorem natLookup_of_mem (l : Seats) (hn : (l.map (·.1)).Nodup) (q : Cand × Nat) (hq : q ∈ l) :
    natLookup l q.1 0 = q.2 := by
  induction l with
  | nil => simp at hq
  | cons x xs ih =>
    rw [List.map_cons, List.nodup_cons] at hn
    rw [natLookup_cons]
    rcases List.mem_cons.mp hq with rfl | hq'
    · rw [if_pos rfl]
    · have hne : ¬ x.1 = q.1 := fun e => hn.1 (e ▸ List.mem_map.mpr ⟨q, hq', rfl⟩)
      rw [if_neg hne]
      exact ih hn.2 hq'

/-- in one constituency a tier party's minimum is at least its direct seats there -/
theorem lowestCtyOne_ge (tier : List Key) (res : Dist) (prevc : Seats) (hr : (res.map (·.1)).Nodup)
    (hp : (prevc.map (·.1)).Nodup) (c : Cand) (hc : Key.cand c ∈ tier) :
    natLookup prevc c 0 ≤ distGet (lowestCtyOne tier res prevc) (.cand c) := by
  have hnd := lowestCtyOne_nodup tier res prevc hr hp
  by_cases hin : Key.cand c ∈ res.map (·.1)
  · obtain ⟨e, he, hek⟩ := List.mem_map.mp hin
    have hm : (e.1, max (prevGetKey prevc e.1) e.2) ∈ lowestCtyOne tier res prevc := by
      unfold lowestCtyOne
      exact List.mem_append_left _ (List.mem_map.mpr ⟨e, he, rfl⟩)
    have := distGet_of_mem hnd hm
    simp only at this
    rw [hek] at this
    rw [this]
    simp only [prevGetKey]
    exact le_max_left _ _
  · by_cases hpin : c ∈ prevc.map (·.1)
    · obtain ⟨q, hq, hqc⟩ := List.mem_map.mp hpin
      have hlook : natLookup prevc c 0 = q.2 := by rw [← hqc]; exact natLookup_of_mem prevc hp q hq
      have hm : (Key.cand q.1, max q.2 0) ∈ lowestCtyOne tier res prevc := by
        unfold lowestCtyOne
        apply List.mem_append_right
        refine List.mem_filterMap.mpr ⟨q, hq, ?_⟩
        have h1 : Key.cand q.1 ∈ tier := by rw [hqc]; exact hc
        have h2 : distHas res (Key.cand q.1) = false := by
          rw [hqc]
          cases hd : distHas res (Key.cand c) with
          | false => rfl
          | true => exact absurd ((distHas_iff _ _).mp hd) hin
        simp [h1, h2]
      have := distGet_of_mem hnd hm
      simp only at this
      rw [hqc] at this
      rw [this, hlook]
      exact le_max_left _ _
    · rw [natLookup_zero_of_not_mem prevc c hpin]
      exact Nat.zero_le _

theorem sumSeats_partyPrev (prev : CSeats) (c : Cand) :
    sumSeats (partyPrev prev (.cand c)) = (prev.map (fun d => natLookup d.2 c 0)).sum := by
  unfold sumSeats
  simp only [partyPrev]
  induction prev with
  | nil => rfl
  | cons d ds ih =>
    rw [List.filterMap_cons]
    simp only [List.map_cons, List.sum_cons]
    cases hf : d.2.find? (fun q => q.1 = c) with
    | none =>
      have hl : natLookup d.2 c 0 = 0 := by unfold natLookup; rw [hf]
      simp only [hl]; rw [ih]; omega
    | some q =>
      have hl : natLookup d.2 c 0 = q.2 := by unfold natLookup; rw [hf]
      simp only [List.map_cons, List.sum_cons, hl]; rw [ih]

theorem ctyPrev_of_mem (prev : CSeats) (hn : (prev.map (·.1)).Nodup) (d : Cty × Seats) (hd : d ∈ prev) :
    ctyPrev prev d.1 = d.2 := by
  unfold ctyPrev
  induction prev with
  | nil => simp at hd
  | cons x xs ih =>
    rw [List.map_cons, List.nodup_cons] at hn
    rcases List.mem_cons.mp hd with rfl | hd'
    · simp
    · have hne : ¬ x.1 = d.1 := fun e => hn.1 (e ▸ List.mem_map.mpr ⟨d, hd', rfl⟩)
      rw [List.find?_cons_of_neg (by simpa using hne)]
      exact ih hn.2 hd'

theorem ctyPrev_of_not_mem (prev : CSeats) (k : Cty) (h : k ∉ prev.map (·.1)) : ctyPrev prev k = [] := by
  unfold ctyPrev
  cases hf : prev.find? (fun p => p.1 = k) with
  | none => rfl
  | some p =>
    exfalso
    apply h
    have hm := List.mem_of_find?_eq_some hf
    have hk := List.find?_some hf
    simp only [decide_eq_true_eq] at hk
    exact List.mem_map.mpr ⟨p, hm, hk⟩

/-- **The summed floors cover the direct seats.**  Distinct constituencies on both sides, every constituency with
    direct seats is an evaluated constituency, distinct parties inside every result and every direct-seat map: the floor
    of a tier party is at least the sum of its direct seats over all constituencies. -/
theorem floors_cover_direct (cres : List (Cty × Dist)) (prev : CSeats)
    (hcn : (cres.map (·.1)).Nodup) (hpn : (prev.map (·.1)).Nodup)
    (hsub : ∀ d ∈ prev, d.1 ∈ cres.map (·.1))
    (hrn : ∀ d ∈ cres, (d.2.map (·.1)).Nodup) (hqn : ∀ d ∈ prev, (d.2.map (·.1)).Nodup)
    (c : Cand) (hc : Key.cand c ∈ propParties cres) :
    sumSeats (partyPrev prev (.cand c)) ≤ distGet (lowestAllowedCty cres prev) (.cand c) := by
  have hprevn : ∀ k, ((ctyPrev prev k).map (·.1)).Nodup := by
    intro k
    by_cases hk : k ∈ prev.map (·.1)
    · obtain ⟨d, hd, rfl⟩ := List.mem_map.mp hk
      rw [ctyPrev_of_mem prev hpn d hd]; exact hqn d hd
    · rw [ctyPrev_of_not_mem prev k hk]; simp
  rw [lowestAllowedCty_eq, distGet_foldl_addDist cres _
    (fun d hd => lowestCtyOne_nodup _ _ _ (hrn d hd) (hprevn d.1))]
  have h0 : distGet ([] : Dist) (Key.cand c) = 0 := rfl
  rw [h0, Nat.zero_add, sumSeats_partyPrev]
  -- reindex the direct seats by the evaluated constituencies
  have h1 : (prev.map (fun d => natLookup d.2 c 0)).sum
      = ((prev.map (·.1)).map (fun k => natLookup (ctyPrev prev k) c 0)).sum := by
    rw [List.map_map]
    apply congrArg
    apply List.map_congr_left
    intro d hd
    simp only [Function.comp]
    rw [ctyPrev_of_mem prev hpn d hd]
  have h2 := sum_eq_of_support (cres.map (·.1)) (prev.map (·.1)) hcn hpn
    (fun k hk => by obtain ⟨d, hd, rfl⟩ := List.mem_map.mp hk; exact hsub d hd)
    (fun k => natLookup (ctyPrev prev k) c 0)
    (fun k _ hk => by rw [ctyPrev_of_not_mem prev k hk]; rfl)
  rw [h1, ← h2, List.map_map]
  apply List.sum_le_sum
  intro d hd
  simp only [Function.comp]
  exact lowestCtyOne_ge _ _ _ (hrn d hd) (hprevn d.1) c hc

/-- `nonprop_drop` of the by-constituency variant as a double sum -/
theorem nonpropDropCty_eq (lowest : Dist) (prev : CSeats) :
    nonpropDropCty lowest prev =
      (prev.map (fun d => (d.2.map (fun p => if distHas lowest (.cand p.1) then 0 else p.2)).sum)).sum := by
  unfold nonpropDropCty
  have hin : ∀ (l : Seats) (a : Nat), l.foldl (fun a p => if distHas lowest (.cand p.1) then a else a + p.2) a
      = a + (l.map (fun p => if distHas lowest (.cand p.1) then 0 else p.2)).sum := by
    intro l
    induction l with
    | nil => intro a; simp
    | cons x xs ih =>
      intro a
      simp only [List.foldl_cons, List.map_cons, List.sum_cons]
      rw [ih]
      split <;> omega
  have hout : ∀ (L : CSeats) (a : Nat),
      L.foldl (fun acc d => d.2.foldl (fun a p => if distHas lowest (.cand p.1) then a else a + p.2) acc) a
      = a + (L.map (fun d => (d.2.map (fun p => if distHas lowest (.cand p.1) then 0 else p.2)).sum)).sum := by
    intro L
    induction L with
    | nil => intro a; simp
    | cons d ds ih =>
      intro a
      simp only [List.foldl_cons, List.map_cons, List.sum_cons]
      rw [ih, hin]
      omega
  rw [hout]; omega

/-- without direct seats outside the tier, a party that has no floor has no direct seats at all -/
theorem no_floor_no_direct (lowest : Dist) (prev : CSeats) (h0 : nonpropDropCty lowest prev = 0) (c : Cand)
    (hc : distHas lowest (.cand c) = false) : sumSeats (partyPrev prev (.cand c)) = 0 := by
  rw [sumSeats_partyPrev, List.sum_eq_zero_iff]
  intro x hx
  obtain ⟨d, hd, rfl⟩ := List.mem_map.mp hx
  rw [nonpropDropCty_eq, List.sum_eq_zero_iff] at h0
  have hd0 := h0 _ (List.mem_map.mpr ⟨d, hd, rfl⟩)
  rw [List.sum_eq_zero_iff] at hd0
  unfold natLookup
  cases hf : d.2.find? (fun q => q.1 = c) with
  | none => rfl
  | some q =>
    have hq := List.mem_of_find?_eq_some hf
    have hqc := List.find?_some hf
    simp only [decide_eq_true_eq] at hqc
    have := hd0 _ (List.mem_map.mpr ⟨q, hq, rfl⟩)
    rw [hqc, hc] at this
    simpa using this

end VL.OH
