/-
  Schulze: invariants of the Floyd-Warshall loops of `widest_paths` that suffice for Condorcet
  consistency and for "no candidate is dropped".
-/
import VotelibProofs.Lemmas.Minimax
namespace VL.Condorcet
open VL

theorem foldl_preserves {α β : Type} (P : β → Prop) (f : β → α → β) (l : List α) (init : β)
    (h0 : P init) (hstep : ∀ acc x, x ∈ l → P acc → P (f acc x)) : P (l.foldl f init) := by
  induction l generalizing init with
  | nil => exact h0
  | cons x xs ih =>
    rw [List.foldl_cons]
    apply ih
    · exact hstep init x (by simp) h0
    · intro acc y hy hacc
      exact hstep acc y (List.mem_cons_of_mem _ hy) hacc

def pkeys (p : Pairwise) : List Pair := p.map (·.1)

theorem pget_cons (q : Pair) (y : Rat) (rest : Pairwise) (p : Pair) :
    pget ((q, y) :: rest) p = if q = p then y else pget rest p := by
  by_cases h : q = p
  · simp [pget, List.find?, h]
  · simp [pget, List.find?, h]

theorem pget_pset (m : Pairwise) (q : Pair) (x : Rat) (q' : Pair) :
    pget (pset m q x) q' = if q' = q then x else pget m q' := by
  induction m with
  | nil =>
    by_cases h : q' = q
    · subst h; simp [pset, pget_cons]
    · have : ¬ q = q' := fun h' => h h'.symm
      simp [pset, pget_cons, h, this, pget]
  | cons e es ih =>
    obtain ⟨a, y⟩ := e
    by_cases ha : a = q
    · subst ha
      by_cases h : q' = a
      · subst h; simp [pset, pget_cons]
      · have : ¬ a = q' := fun h' => h h'.symm
        simp [pset, pget_cons, h, this]
    · simp only [pset, ha, if_false, pget_cons, ih]
      by_cases h : q' = q
      · subst h; simp [ha]
      · simp [h]

theorem pkeys_pset (m : Pairwise) (q : Pair) (x : Rat) :
    pkeys (pset m q x) = if q ∈ pkeys m then pkeys m else pkeys m ++ [q] := by
  induction m with
  | nil => simp [pset, pkeys]
  | cons e es ih =>
    obtain ⟨a, y⟩ := e
    by_cases ha : a = q
    · subst ha; simp [pset, pkeys]
    · have hqa : ¬ q = a := fun h => ha h.symm
      simp only [pkeys] at ih
      simp only [pset, ha, if_false, pkeys, List.map_cons, List.mem_cons, hqa, false_or, ih]
      by_cases hc : q ∈ List.map (fun x => x.1) es
      · simp [hc]
      · simp [hc]

theorem nodup_pkeys_pset {m : Pairwise} (h : (pkeys m).Nodup) (q : Pair) (x : Rat) : (pkeys (pset m q x)).Nodup := by
  rw [pkeys_pset]
  split
  · exact h
  · rename_i hc
    rw [List.nodup_append]
    refine ⟨h, by simp, ?_⟩
    intro a ha b hb
    simp only [List.mem_singleton] at hb
    subst hb
    rintro rfl
    exact hc ha

theorem mem_pkeys_pset {m : Pairwise} {q : Pair} {x : Rat} {k : Pair} (hk : k ∈ pkeys (pset m q x)) :
    k ∈ pkeys m ∨ k = q := by
  rw [pkeys_pset] at hk
  split at hk
  · exact Or.inl hk
  · rcases List.mem_append.1 hk with h | h
    · exact Or.inl h
    · exact Or.inr (by simpa using h)

theorem rmin_le_right (a b : Rat) : rmin a b ≤ b := by
  unfold rmin; split
  · exact le_refl _
  · exact not_lt.1 ‹_›

/-- innermost assignment of `widest_paths` (L306-312) -/
def wpStep (c1 c2 : Cand) (p3 : Pairwise) (ca : Cand) : Pairwise :=
  if ca != c1 && ca != c2 then
    pset p3 (c2, ca) (rmax (pget p3 (c2, ca)) (rmin (pget p3 (c2, c1)) (pget p3 (c1, ca))))
  else p3

theorem widestPaths_eq (v : Pairwise) :
    widestPaths v = (candidates v).foldl (fun p1 c1 =>
      (candidates v).foldl (fun p2 c2 =>
        if c1 != c2 then (candidates v).foldl (wpStep c1 c2) p2 else p2) p1)
      (v.filter (fun e => decide (pget v (e.1.2, e.1.1) < e.2))) := rfl

/-- a property of the path dictionary preserved by every assignment is preserved by the whole loop nest -/
theorem widestPaths_preserves (v : Pairwise) (P : Pairwise → Prop)
    (h0 : P (v.filter (fun e => decide (pget v (e.1.2, e.1.1) < e.2))))
    (hstep : ∀ p c1 c2 ca, c1 ∈ candidates v → c2 ∈ candidates v → ca ∈ candidates v → ca ≠ c1 → ca ≠ c2 → P p →
      P (pset p (c2, ca) (rmax (pget p (c2, ca)) (rmin (pget p (c2, c1)) (pget p (c1, ca)))))) :
    P (widestPaths v) := by
  rw [widestPaths_eq]
  apply foldl_preserves P _ _ _ h0
  intro p1 c1 hc1 hp1
  apply foldl_preserves P _ _ _ hp1
  intro p2 c2 hc2 hp2
  split
  · apply foldl_preserves P _ _ _ hp2
    intro p3 ca hca hp3
    unfold wpStep
    split
    · rename_i hcond
      simp only [Bool.and_eq_true, bne_iff_ne, ne_eq] at hcond
      exact hstep p3 c1 c2 ca hc1 hc2 hca hcond.1 hcond.2 hp3
    · exact hp3
  · exact hp2

theorem widestPaths_keys_in (v : Pairwise) :
    ∀ k ∈ pkeys (widestPaths v), k.1 ∈ candidates v ∧ k.2 ∈ candidates v := by
  apply widestPaths_preserves v (fun p => ∀ k ∈ pkeys p, k.1 ∈ candidates v ∧ k.2 ∈ candidates v)
  · intro k hk
    obtain ⟨e, he, rfl⟩ := List.mem_map.1 hk
    have := (List.mem_filter.1 he).1
    exact ⟨fst_mem_candidates this, snd_mem_candidates this⟩
  · intro p c1 c2 ca _ hc2 hca _ _ hp k hk
    rcases mem_pkeys_pset hk with h | rfl
    · exact hp k h
    · exact ⟨hc2, hca⟩

theorem mem_pairwiseWins_key {p : Pairwise} {t : Bool} {k : Pair} (h : k ∈ pairwiseWins p t) : k ∈ pkeys p := by
  unfold pairwiseWins at h
  obtain ⟨e, he, rfl⟩ := List.mem_map.1 h
  exact List.mem_map.2 ⟨e, (List.mem_filter.1 he).1, rfl⟩

theorem keys_incr_of_mem {d : Votes} {a : Cand} (h : a ∈ keys d) (k : Rat) : keys (incr d a k) = keys d := by
  rw [keys_incr, if_pos h]

/-- Schulze's score dictionary has exactly the candidates as keys -/
theorem keys_schulzeScores (v : Pairwise) :
    keys ((pairwiseWins (widestPaths v) false).foldl (fun d w => incr (incr d w.1 1) w.2 0)
      ((candidates v).map (fun c => (c, (0 : Rat))))) = candidates v := by
  have hin := widestPaths_keys_in v
  apply foldl_preserves (fun d => keys d = candidates v)
  · simp [keys, List.map_map, Function.comp_def]
  · intro d w hw hd
    have hk := hin w (mem_pairwiseWins_key hw)
    have h1 : keys (incr d w.1 1) = candidates v := by
      rw [keys_incr_of_mem (by rw [hd]; exact hk.1), hd]
    rw [keys_incr_of_mem (by rw [h1]; exact hk.2), h1]

end VL.Condorcet
