/-
  Schulze: invariants of the Floyd-Warshall loops of `widest_paths` that suffice for Condorcet
  consistency and for "no candidate is dropped".
-/
import VotelibProofs.Lemmas.Minimax
namespace VL.Condorcet
open VL

theorem foldl_preserves {α β : Type} (P : β → Prop) (f : β → α → β) (l : List α) (init : β)
    (h0 : P init) (hstep : ∀ acc x, x ∈ l → P acc → P (f acc x)) : P (l.foldl f init) := by
  induction l generalizing init with
  | nil => exact h0
  | cons x xs ih =>
    rw [List.foldl_cons]
    apply ih
    · exact hstep init x (by simp) h0
    · intro acc y hy hacc
      exact hstep acc y (List.mem_cons_of_mem _ hy) hacc

def pkeys (p : Pairwise) : List Pair := p.map (·.1)

theorem pget_cons (q : Pair) (y : Rat) (rest : Pairwise) (p : Pair) :
    pget ((q, y) :: rest) p = if q = p then y else pget rest p := by
  by_cases h : q = p
  · simp [pget, List.find?, h]
  · simp [pget, List.find?, h]

theorem pget_pset (m : Pairwise) (q : Pair) (x : Rat) (q' : Pair) :
    pget (pset m q x) q' = if q' = q then x else pget m q' := by
  induction m with
  | nil =>
    by_cases h : q' = q
    · subst h; simp [pset, pget_cons]
    · have : ¬ q = q' := fun h' => h h'.symm
      simp [pset, pget_cons, h, this, pget]
  | cons e es ih =>
    obtain ⟨a, y⟩ := e
    by_cases ha : a = q
    · subst ha
      by_cases h : q' = a
      · subst h; simp [pset, pget_cons]
      · have : ¬ a = q' := fun h' => h h'.symm
        simp [pset, pget_cons, h, this]
    · simp only [pset, ha, if_false, pget_cons, ih]
      by_cases h : q' = q
      · subst h; simp [ha]
      · simp [h]

theorem pkeys_pset (m : Pairwise) (q : Pair) (x : Rat) :
    pkeys (pset m q x) = if q ∈ pkeys m then pkeys m else pkeys m ++ [q] := by
  induction m with
  | nil => simp [pset, pkeys]
  | cons e es ih =>
    obtain ⟨a, y⟩ := e
    by_cases ha : a = q
    · subst ha; simp [pset, pkeys]
    · have hqa : ¬ q = a := fun h => ha h.symm
      simp only [pkeys] at ih
      simp only [pset, ha, if_false, pkeys, List.map_cons, List.mem_cons, hqa, false_or, ih]
      by_cases hc : q ∈ List.map (fun x => x.1) es
      · simp [hc]
      · simp [hc]

theorem nodup_pkeys_pset {m : Pairwise} (h : (pkeys m).Nodup) (q : Pair) (x : Rat) : (pkeys (pset m q x)).Nodup := by
  rw [pkeys_pset]
  split
  · exact h
  · rename_i hc
    rw [List.nodup_append]
    refine ⟨h, by simp, ?_⟩
    intro a ha b hb
    simp only [List.mem_singleton] at hb
    subst hb
    rintro rfl
    exact hc ha

theorem mem_pkeys_pset {m : Pairwise} {q : Pair} {x : Rat} {k : Pair} (hk : k ∈ pkeys (pset m q x)) :
    k ∈ pkeys m ∨ k = q := by
  rw [pkeys_pset] at hk
  split at hk
  · exact Or.inl hk
  · rcases List.mem_append.1 hk with h | h
    · exact Or.inl h
    · exact Or.inr (by simpa using h)

theorem rmin_le_right (a b : Rat) : rmin a b ≤ b := by
  unfold rmin; split
  · exact le_refl _
  · exact not_lt.1 ‹_›

/-- innermost assignment of `widest_paths` (L306-312) -/
def wpStep (c1 c2 : Cand) (p3 : Pairwise) (ca : Cand) : Pairwise :=
  if ca != c1 && ca != c2 then
    pset p3 (c2, ca) (rmax (pget p3 (c2, ca)) (rmin (pget p3 (c2, c1)) (pget p3 (c1, ca))))
  else p3

theorem widestPaths_eq (v : Pairwise) :
    widestPaths v = (candidates v).foldl (fun p1 c1 =>
      (candidates v).foldl (fun p2 c2 =>
        if c1 != c2 then (candidates v).foldl (wpStep c1 c2) p2 else p2) p1)
      (v.filter (fun e => decide (pget v (e.1.2, e.1.1) < e.2))) := rfl

/-- a property of the path dictionary preserved by every assignment is preserved by the whole loop nest -/
theorem widestPaths_preserves (v : Pairwise) (P : Pairwise → Prop)
    (h0 : P (v.filter (fun e => decide (pget v (e.1.2, e.1.1) < e.2))))
    (hstep : ∀ p c1 c2 ca, c1 ∈ candidates v → c2 ∈ candidates v → ca ∈ candidates v → ca ≠ c1 → ca ≠ c2 → P p →
      P (pset p (c2, ca) (rmax (pget p (c2, ca)) (rmin (pget p (c2, c1)) (pget p (c1, ca)))))) :
    P (widestPaths v) := by
  rw [widestPaths_eq]
  apply foldl_preserves P _ _ _ h0
  intro p1 c1 hc1 hp1
  apply foldl_preserves P _ _ _ hp1
  intro p2 c2 hc2 hp2
  split
  · apply foldl_preserves P _ _ _ hp2
    intro p3 ca hca hp3
    unfold wpStep
    split
    · rename_i hcond
      simp only [Bool.and_eq_true, bne_iff_ne, ne_eq] at hcond
      exact hstep p3 c1 c2 ca hc1 hc2 hca hcond.1 hcond.2 hp3
    · exact hp3
  · exact hp2

theorem widestPaths_keys_in (v : Pairwise) :
    ∀ k ∈ pkeys (widestPaths v), k.1 ∈ candidates v ∧ k.2 ∈ candidates v := by
  apply widestPaths_preserves v (fun p => ∀ k ∈ pkeys p, k.1 ∈ candidates v ∧ k.2 ∈ candidates v)
  · intro k hk
    obtain ⟨e, he, rfl⟩ := List.mem_map.1 hk
    have := (List.mem_filter.1 he).1
    exact ⟨fst_mem_candidates this, snd_mem_candidates this⟩
  · intro p c1 c2 ca _ hc2 hca _ _ hp k hk
    rcases mem_pkeys_pset hk with h | rfl
    · exact hp k h
    · exact ⟨hc2, hca⟩

theorem mem_pairwiseWins_key {p : Pairwise} {t : Bool} {k : Pair} (h : k ∈ pairwiseWins p t) : k ∈ pkeys p := by
  unfold pairwiseWins at h
  obtain ⟨e, he, rfl⟩ := List.mem_map.1 h
  exact List.mem_map.2 ⟨e, (List.mem_filter.1 he).1, rfl⟩

theorem keys_incr_of_mem {d : Votes} {a : Cand} (h : a ∈ keys d) (k : Rat) : keys (incr d a k) = keys d := by
  rw [keys_incr, if_pos h]

/-- Schulze's score dictionary has exactly the candidates as keys -/
theorem keys_schulzeScores (v : Pairwise) :
    keys ((pairwiseWins (widestPaths v) false).foldl (fun d w => incr (incr d w.1 1) w.2 0)
      ((candidates v).map (fun c => (c, (0 : Rat))))) = candidates v := by
  have hin := widestPaths_keys_in v
  apply foldl_preserves (fun d => keys d = candidates v)
  · simp [keys, List.map_map, Function.comp_def]
  · intro d w hw hd
    have hk := hin w (mem_pairwiseWins_key hw)
    have h1 : keys (incr d w.1 1) = candidates v := by
      rw [keys_incr_of_mem (by rw [hd]; exact hk.1), hd]
    rw [keys_incr_of_mem (by rw [h1]; exact hk.2), h1]

/-! ### Condorcet winner -/

theorem mem_pairwiseWins_of_nodup {p : Pairwise} (hk : (pkeys p).Nodup) {a b : Cand} :
    (a, b) ∈ pairwiseWins p false ↔ (a, b) ∈ pkeys p ∧ pget p (b, a) < pget p (a, b) := by
  simp only [pairwiseWins, Bool.false_and, Bool.or_false, List.mem_map, List.mem_filter, decide_eq_true_eq]
  constructor
  · rintro ⟨e, ⟨he, hlt⟩, hp⟩
    obtain ⟨q, c⟩ := e
    simp only at hp
    subst hp
    have := pget_of_mem hk he
    rw [this]
    exact ⟨List.mem_map.2 ⟨_, he, rfl⟩, hlt⟩
  · rintro ⟨hkey, hlt⟩
    obtain ⟨e, he, hq⟩ := List.mem_map.1 hkey
    obtain ⟨q, c⟩ := e
    simp only at hq
    subst hq
    have := pget_of_mem hk he
    rw [this] at hlt
    exact ⟨((a, b), c), ⟨he, hlt⟩, rfl⟩

theorem nodup_pairwiseWins_of_nodup {p : Pairwise} (hk : (pkeys p).Nodup) (t : Bool) : (pairwiseWins p t).Nodup := by
  unfold pairwiseWins
  exact hk.sublist (List.Sublist.map _ List.filter_sublist)

/-- invariants of the path dictionary when `w` is the Condorcet winner: no path into `w` has positive
    strength, every direct win of `w` keeps a positive strength -/
theorem widestPaths_cw_inv {v : Pairwise} (hwf : WF v) {w : Cand} (hw : IsCW v w) :
    (pkeys (widestPaths v)).Nodup ∧ (∀ x, pget (widestPaths v) (x, w) ≤ 0) ∧
      (∀ x ∈ candidates v, x ≠ w → 0 < pget (widestPaths v) (w, x)) := by
  apply widestPaths_preserves v (fun p => (pkeys p).Nodup ∧ (∀ x, pget p (x, w) ≤ 0) ∧
      (∀ x ∈ candidates v, x ≠ w → 0 < pget p (w, x)))
  · have hnd : (pkeys (v.filter (fun e => decide (pget v (e.1.2, e.1.1) < e.2)))).Nodup :=
      hwf.1.sublist (List.Sublist.map _ List.filter_sublist)
    refine ⟨hnd, ?_, ?_⟩
    · intro x
      rcases pget_mem_or_zero (v.filter (fun e => decide (pget v (e.1.2, e.1.1) < e.2))) (x, w) with h | ⟨_, h⟩
      · exfalso
        obtain ⟨hv, hlt⟩ := List.mem_filter.1 h
        simp only [decide_eq_true_eq] at hlt
        have hx : x ∈ candidates v := fst_mem_candidates hv
        have hne : x ≠ w := hwf.2.1 _ hv
        have hb := hw.2 x hx hne
        have hval := pget_of_mem hwf.1 hv
        rw [← hval] at hlt
        exact lt_asymm hb hlt
      · rw [h]
    · intro x hx hne
      have hb := hw.2 x hx hne
      have hpos : 0 < pget v (w, x) := lt_of_le_of_lt (pget_nonneg hwf _) hb
      have hmem : ((w, x), pget v (w, x)) ∈ v.filter (fun e => decide (pget v (e.1.2, e.1.1) < e.2)) :=
        List.mem_filter.2 ⟨pget_pos_mem hpos, by simpa [Beats] using hb⟩
      rw [pget_of_mem hnd hmem]
      exact hpos
  · rintro p c1 c2 ca _ _ _ _ _ ⟨hnd, hin, hout⟩
    refine ⟨nodup_pkeys_pset hnd _ _, ?_, ?_⟩
    · intro x
      rw [pget_pset]
      split
      · rename_i heq
        simp only [Prod.mk.injEq] at heq
        obtain ⟨rfl, rfl⟩ := heq
        exact rmax_le (hin _) (le_trans (rmin_le_right _ _) (hin _))
      · exact hin x
    · intro x hx hne
      rw [pget_pset]
      split
      · rename_i heq
        simp only [Prod.mk.injEq] at heq
        obtain ⟨rfl, rfl⟩ := heq
        exact lt_of_lt_of_le (hout _ hx hne) (rmax_ge_left _ _)
      · exact hout x hx hne

theorem getD_schulzeFold (wins : List Pair) (d : Votes) (c : Cand) :
    getD (wins.foldl (fun d w => incr (incr d w.1 1) w.2 0) d) c 0 = getD d c 0 + (winsBy wins c : Rat) := by
  induction wins generalizing d with
  | nil => simp [winsBy]
  | cons w ws ih =>
    rw [List.foldl_cons, ih, getD_incr, getD_incr, winsBy_cons]
    have e1 : (c = w.1) ↔ (w.1 = c) := eq_comm
    by_cases h1 : w.1 = c <;> simp [h1, e1] <;> ring

theorem getD_zeroDict (cands : List Cand) (c : Cand) : getD (cands.map (fun c => (c, (0 : Rat)))) c 0 = 0 := by
  unfold getD lookup
  cases hf : (cands.map (fun c => (c, (0 : Rat)))).find? (fun p => p.1 = c) with
  | none => rfl
  | some e =>
    have := List.mem_of_find?_eq_some hf
    obtain ⟨x, _, rfl⟩ := List.mem_map.1 this
    rfl

theorem mem_getD_of_key {d : Votes} (hk : (keys d).Nodup) {p : Cand × Rat} (hp : p ∈ d) : p.2 = getD d p.1 0 := by
  have := (mem_iff_lookup hk (c := p.1) (x := p.2)).1 hp
  simp [getD, this]

/-- the number of wins of `c` in a duplicate-free list of wins whose losers all satisfy `Q` among the
    candidates is at most the number of candidates satisfying `Q` -/
theorem winsBy_le_filter {wins : List Pair} (hnd : wins.Nodup) {cands : List Cand} (c : Cand) (Q : Cand → Bool)
    (h : ∀ x, (c, x) ∈ wins → x ∈ cands ∧ Q x = true) : winsBy wins c ≤ (cands.filter Q).length := by
  have h1 : winsBy wins c = ((wins.filter (fun w => w.1 = c)).map (·.2)).length := by simp [winsBy]
  rw [h1]
  apply List.Subperm.length_le
  apply List.subperm_of_subset
  · apply List.Nodup.map_on
    · rintro ⟨a, b⟩ ha ⟨a', b'⟩ ha' hbb
      simp only [List.mem_filter, decide_eq_true_eq] at ha ha'
      simp only at hbb
      rw [Prod.mk.injEq]
      exact ⟨ha.2.trans ha'.2.symm, hbb⟩
    · exact hnd.filter _
  · intro x hx
    obtain ⟨⟨a, b⟩, hab, rfl⟩ := List.mem_map.1 hx
    simp only [List.mem_filter, decide_eq_true_eq] at hab
    obtain ⟨hw, rfl⟩ := hab
    exact List.mem_filter.2 (h b hw)

theorem winsBy_ge_filter {wins : List Pair} {cands : List Cand} (hc : cands.Nodup) (c : Cand) (Q : Cand → Bool)
    (h : ∀ x ∈ cands, Q x = true → (c, x) ∈ wins) : (cands.filter Q).length ≤ winsBy wins c := by
  have h1 : winsBy wins c = ((wins.filter (fun w => w.1 = c)).map (·.2)).length := by simp [winsBy]
  rw [h1]
  apply List.Subperm.length_le
  apply List.subperm_of_subset (hc.filter _)
  intro x hx
  obtain ⟨hx1, hx2⟩ := List.mem_filter.1 hx
  exact List.mem_map.2 ⟨(c, x), List.mem_filter.2 ⟨h x hx1 hx2, by simp⟩, rfl⟩

theorem schulze_cw {v : Pairwise} (hwf : WF v) {w : Cand} (hw : IsCW v w) : schulze v 1 = [Slot.cand w] := by
  obtain ⟨hnd, hin, hout⟩ := widestPaths_cw_inv hwf hw
  have hkin := widestPaths_keys_in v
  have hwnd := nodup_pairwiseWins_of_nodup hnd false
  have hwin : ∀ x ∈ candidates v, x ≠ w → (w, x) ∈ pairwiseWins (widestPaths v) false := by
    intro x hx hne
    rw [mem_pairwiseWins_of_nodup hnd]
    have hpos := hout x hx hne
    exact ⟨List.mem_map.2 ⟨_, pget_pos_mem hpos, rfl⟩, lt_of_le_of_lt (hin x) hpos⟩
  have hnowin : ∀ x, (x, w) ∉ pairwiseWins (widestPaths v) false := by
    intro x hx
    rw [mem_pairwiseWins_of_nodup hnd] at hx
    obtain ⟨hk, hlt⟩ := hx
    have hxc := (hkin _ hk).1
    by_cases hxw : x = w
    · subst hxw; exact lt_irrefl _ hlt
    · have := hout x hxc hxw
      have := hin x
      linarith
  have hself : ∀ x, (x, x) ∉ pairwiseWins (widestPaths v) false := by
    intro x hx
    rw [mem_pairwiseWins_of_nodup hnd] at hx
    exact lt_irrefl _ hx.2
  unfold schulze
  simp only
  set scores := (pairwiseWins (widestPaths v) false).foldl (fun d w => incr (incr d w.1 1) w.2 0)
    ((candidates v).map (fun c => (c, (0 : Rat)))) with hscores
  have hkeys : keys scores = candidates v := keys_schulzeScores v
  have hknd : (keys scores).Nodup := by rw [hkeys]; exact nodup_candidates v
  have hval : ∀ c, getD scores c 0 = (winsBy (pairwiseWins (widestPaths v) false) c : Rat) := by
    intro c
    rw [hscores, getD_schulzeFold, getD_zeroDict]; ring
  have hm1 : ((candidates v).filter (fun x => decide (x ≠ w))).length + 1 = (candidates v).length :=
    (filter_length_eq_pred (nodup_candidates v) hw.1 (fun x => decide (x ≠ w)) (by simp)).2
      (fun o _ hne => by simpa using hne)
  have hww : (candidates v).length ≤ winsBy (pairwiseWins (widestPaths v) false) w + 1 := by
    have := winsBy_ge_filter (wins := pairwiseWins (widestPaths v) false) (nodup_candidates v) w
      (fun x => decide (x ≠ w)) (fun x hx hq => hwin x hx (by simpa using hq))
    omega
  obtain ⟨ew, hew, hew1⟩ : ∃ e ∈ scores, e.1 = w := by
    have : w ∈ keys scores := by rw [hkeys]; exact hw.1
    obtain ⟨e, he, h⟩ := List.mem_map.1 this
    exact ⟨e, he, h⟩
  refine getNBest_one_of_unique_max (x := getD scores w 0) hknd ?_ ?_
  · have := mem_getD_of_key hknd hew
    rw [hew1] at this
    rw [← this, ← hew1]
    exact hew
  · intro p hp hne
    rw [mem_getD_of_key hknd hp, hval, hval]
    have hpc : p.1 ∈ candidates v := by rw [← hkeys]; exact List.mem_map.2 ⟨p, hp, rfl⟩
    have hle : winsBy (pairwiseWins (widestPaths v) false) p.1 ≤
        ((candidates v).filter (fun x => decide (x ≠ p.1) && decide (x ≠ w))).length := by
      apply winsBy_le_filter hwnd
      intro x hx
      refine ⟨(hkin _ (mem_pairwiseWins_key hx)).2, ?_⟩
      simp only [Bool.and_eq_true, decide_eq_true_eq]
      constructor
      · rintro rfl; exact hself _ hx
      · rintro rfl; exact hnowin _ hx
    have h2 := filter_length_le_of_two (nodup_candidates v) hpc hw.1 hne
      (fun x => decide (x ≠ p.1) && decide (x ≠ w)) (by simp) (by simp)
    have : winsBy (pairwiseWins (widestPaths v) false) p.1 + 1 ≤ winsBy (pairwiseWins (widestPaths v) false) w := by
      omega
    exact_mod_cast Nat.lt_of_succ_le this

end VL.Condorcet
