/-
  Lemmas about the stable descending insertion sort `sortDesc` (model of `util.sorted_votes`).
-/
import VotelibModel.Core
import Mathlib.Data.List.Sort
import Mathlib.Data.List.TakeWhile
import Mathlib.Algebra.Order.Ring.Rat
import Mathlib.Tactic.Linarith
namespace VL

theorem insertDesc_perm (x : Cand × Rat) (l : Votes) : (insertDesc x l).Perm (x :: l) := by
  induction l with
  | nil => simp [insertDesc]
  | cons y ys ih =>
    unfold insertDesc
    split
    · exact (List.Perm.cons y ih).trans (List.Perm.swap x y ys)
    · exact List.Perm.refl _

theorem sortDesc_perm (l : Votes) : (sortDesc l).Perm l := by
  induction l with
  | nil => simp [sortDesc]
  | cons x xs ih =>
    simp only [sortDesc]
    exact (insertDesc_perm x _).trans (List.Perm.cons x ih)

/-- non-increasing in the value -/
def Desc (l : Votes) : Prop := l.Pairwise (fun a b => b.2 ≤ a.2)

theorem insertDesc_desc (x : Cand × Rat) (l : Votes) (h : Desc l) : Desc (insertDesc x l) := by
  induction l with
  | nil => simp [insertDesc, Desc]
  | cons y ys ih =>
    unfold insertDesc
    have hy := List.pairwise_cons.mp h
    split
    · rename_i hlt
      refine List.pairwise_cons.mpr ⟨?_, ih hy.2⟩
      intro z hz
      have := (insertDesc_perm x ys).mem_iff.mp hz
      rcases List.mem_cons.mp this with rfl | hz'
      · exact le_of_lt hlt
      · exact hy.1 z hz'
    · rename_i hnlt
      have hxy : y.2 ≤ x.2 := not_lt.mp hnlt
      refine List.pairwise_cons.mpr ⟨?_, h⟩
      intro z hz
      rcases List.mem_cons.mp hz with rfl | hz'
      · exact hxy
      · exact le_trans (hy.1 z hz') hxy

theorem sortDesc_desc (l : Votes) : Desc (sortDesc l) := by
  induction l with
  | nil => simp [sortDesc, Desc]
  | cons x xs ih => exact insertDesc_desc x _ ih

theorem sortDesc_length (l : Votes) : (sortDesc l).length = l.length := (sortDesc_perm l).length_eq

theorem mem_sortDesc {l : Votes} {p : Cand × Rat} : p ∈ sortDesc l ↔ p ∈ l := (sortDesc_perm l).mem_iff

/-- stability: entries with one and the same value keep their insertion order -/
theorem insertDesc_filter_eq (x : Cand × Rat) (l : Votes) (t : Rat) :
    (insertDesc x l).filter (fun p => p.2 = t) = (x :: l).filter (fun p => p.2 = t) := by
  induction l with
  | nil => simp [insertDesc]
  | cons y ys ih =>
    unfold insertDesc
    split
    · rename_i hlt
      rw [List.filter_cons, ih]
      by_cases hy : y.2 = t <;> by_cases hx : x.2 = t
      · exfalso; rw [hy, hx] at hlt; exact lt_irrefl _ hlt
      · simp [List.filter_cons, hy, hx]
      · simp [List.filter_cons, hy, hx]
      · simp [List.filter_cons, hy, hx]
    · rfl

theorem sortDesc_filter_eq (l : Votes) (t : Rat) :
    (sortDesc l).filter (fun p => p.2 = t) = l.filter (fun p => p.2 = t) := by
  induction l with
  | nil => simp [sortDesc]
  | cons x xs ih =>
    simp only [sortDesc]
    rw [insertDesc_filter_eq]
    simp only [List.filter_cons, ih]

/-- the number of entries satisfying a predicate is that of the input -/
theorem sortDesc_filter_length (l : Votes) (P : Cand × Rat → Bool) :
    ((sortDesc l).filter P).length = (l.filter P).length :=
  ((sortDesc_perm l).filter P).length_eq

/-- in a non-increasing list the entries above `t` form a prefix -/
theorem desc_takeWhile_ne {s : Votes} (h : Desc s) {t : Rat} (hex : ∃ p ∈ s, p.2 = t) :
    s.takeWhile (fun p => p.2 ≠ t) = s.filter (fun p => decide (t < p.2)) := by
  induction s with
  | nil => simp at hex
  | cons x xs ih =>
    have hx := List.pairwise_cons.mp h
    by_cases hxt : x.2 = t
    · have hnil : xs.filter (fun p => decide (t < p.2)) = [] := by
        rw [List.filter_eq_nil_iff]
        intro p hp
        have := hx.1 p hp
        simp only [decide_eq_true_eq, not_lt]
        rw [← hxt]; exact this
      simp [List.filter_cons, hxt, hnil]
    · obtain ⟨p, hp, hpt⟩ := hex
      have hpxs : p ∈ xs := by
        rcases List.mem_cons.mp hp with rfl | h'
        · exact absurd hpt hxt
        · exact h'
      have hge : t ≤ x.2 := by rw [← hpt]; exact hx.1 p hpxs
      have hgt : t < x.2 := lt_of_le_of_ne hge (Ne.symm hxt)
      have := ih hx.2 ⟨p, hpxs, hpt⟩
      rw [List.takeWhile_cons, List.filter_cons]
      simpa [hxt, hgt] using this

theorem desc_take_drop {s : Votes} (h : Desc s) (k : Nat) :
    ∀ a ∈ s.take k, ∀ b ∈ s.drop k, b.2 ≤ a.2 := by
  have h' : Desc (s.take k ++ s.drop k) := by rw [List.take_append_drop]; exact h
  exact (List.pairwise_append.mp h').2.2

end VL
