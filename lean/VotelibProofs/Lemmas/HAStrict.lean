/-
  Strict separation: with strictly decreasing quotient sequences, every waiting quotient is strictly below
  every seated one at every point of the highest-averages loop — equal quotients are never split silently.
-/
import VotelibProofs.Lemmas.HAStep
namespace VL
open HACfg

/-- every party's quotient sequence strictly decreases (positive votes and strictly increasing divisors) -/
def StrictQ (cfg : HACfg) : Prop := ∀ c ∈ keys cfg.votes, ∀ k, cfg.quot c (k+1) < cfg.quot c k

theorem strictQ_of (cfg : HACfg) (hpos : ∀ k, 0 < cfg.div k) (hd : StrictMono cfg.div)
    (hn : (keys cfg.votes).Nodup) (hv : ∀ p ∈ cfg.votes, 0 < p.2) : StrictQ cfg := by
  intro c hc k
  obtain ⟨p, hp, rfl⟩ := List.mem_map.mp hc
  unfold HACfg.quot
  rw [vote_of_mem hn hp]
  exact div_lt_div_of_pos_left (hv p hp) (hpos k) (hd (Nat.lt_succ_self k))

def StrictSep (cfg : HACfg) (s : HAState) : Prop :=
  ∀ c k, cfg.prevOf c ≤ k → k < s.tot c → ∀ p ∈ s.pool, p.2 < cfg.quot c k

/-- what one iteration does -/
theorem haStep_cases (cfg : HACfg) (s : HAState) :
    ((haStep cfg s).tot = s.tot ∧ (haStep cfg s).pool = s.pool ∧ ((haStep cfg s).rem = 0 ∨ s.pool = [])) ∨
    ∃ m, maxQ s.pool = some m ∧
      ((s.pool.filter (fun p => p.2 = m)).map (·.1)).length ≤ s.rem ∧
      (haStep cfg s).tot = bumpAll s.tot ((s.pool.filter (fun p => p.2 = m)).map (·.1)) ∧
      (haStep cfg s).rem = s.rem - ((s.pool.filter (fun p => p.2 = m)).map (·.1)).length ∧
      (haStep cfg s).tie = none ∧
      (haStep cfg s).pool = s.pool.filter (fun p => p.2 ≠ m) ++
        ((s.pool.filter (fun p => p.2 = m)).map (·.1)).filterMap (fun c =>
          if bumpAll s.tot ((s.pool.filter (fun p => p.2 = m)).map (·.1)) c < cfg.capOf c
          then some (c, cfg.quot c (bumpAll s.tot ((s.pool.filter (fun p => p.2 = m)).map (·.1)) c)) else none) := by
  unfold haStep
  cases hm : maxQ s.pool with
  | none => left; exact ⟨rfl, rfl, Or.inr (maxQ_eq_none.mp hm)⟩
  | some m =>
    simp only
    split
    · left; exact ⟨rfl, rfl, Or.inl rfl⟩
    · rename_i hfit
      right
      exact ⟨m, rfl, Nat.le_of_not_gt hfit, rfl, rfl, rfl, rfl⟩

theorem haStep_strict (cfg : HACfg) (h : CfgOK cfg) (hq : StrictQ cfg) (s : HAState) (hi : Inv cfg s)
    (hs : StrictSep cfg s) : StrictSep cfg (haStep cfg s) := by
  rcases haStep_cases cfg s with ⟨ht, hp, _⟩ | ⟨m, hm, hfit, ht, _, _, hp⟩
  · intro c k hk1 hk2 p hpm
    rw [ht] at hk2; rw [hp] at hpm
    exact hs c k hk1 hk2 p hpm
  · generalize hbatch : (s.pool.filter (fun p => p.2 = m)).map (·.1) = batch at hfit ht hp
    have hmax := maxQ_ge s.pool m hm
    have hbmem : ∀ c, c ∈ batch ↔ ∃ p ∈ s.pool, p.2 = m ∧ p.1 = c := by
      intro c
      rw [← hbatch]
      simp only [List.mem_map, List.mem_filter, decide_eq_true_eq]
      constructor
      · rintro ⟨p, ⟨hp, hpm⟩, rfl⟩; exact ⟨p, hp, hpm, rfl⟩
      · rintro ⟨p, hp, hpm, rfl⟩; exact ⟨p, ⟨hp, hpm⟩, rfl⟩
    have hbq : ∀ c ∈ batch, cfg.quot c (s.tot c) = m := by
      intro c hc
      obtain ⟨p, hp, hpm, rfl⟩ := (hbmem c).mp hc
      rw [← hi.pool_q p hp]; exact hpm
    have hbkey : ∀ c ∈ batch, c ∈ keys cfg.votes := by
      intro c hc
      obtain ⟨p, hp, _, rfl⟩ := (hbmem c).mp hc
      exact hi.pool_key p hp
    -- every new pool entry is strictly below m
    have hnew_lt : ∀ p ∈ (haStep cfg s).pool, p.2 < m := by
      intro p hpm
      rw [hp] at hpm
      rcases List.mem_append.mp hpm with h1 | h1
      · have := List.mem_filter.mp h1
        have hne : p.2 ≠ m := by simpa using this.2
        exact lt_of_le_of_ne (hmax p this.1) hne
      · obtain ⟨c, hc, hcond⟩ := List.mem_filterMap.mp h1
        split at hcond
        · simp only [Option.some.injEq] at hcond
          subst hcond
          have hb : bumpAll s.tot batch c = s.tot c + 1 := by unfold bumpAll; rw [if_pos hc]
          show cfg.quot c (bumpAll s.tot batch c) < m
          rw [hb, ← hbq c hc]
          exact hq c (hbkey c hc) _
        · simp at hcond
    intro c k hk1 hk2 p hpm
    have hplt := hnew_lt p hpm
    rw [ht] at hk2
    by_cases hc : c ∈ batch
    · have hb : bumpAll s.tot batch c = s.tot c + 1 := by unfold bumpAll; rw [if_pos hc]
      rw [hb] at hk2
      rcases Nat.lt_or_ge k (s.tot c) with hlt | hge
      · -- an old seat: it was strictly above the batch entry of quotient m
        obtain ⟨p0, hp0, hp0m, _⟩ := (hbmem c).mp hc
        have := hs c k hk1 hlt p0 hp0
        rw [hp0m] at this
        exact lt_trans hplt this
      · have hk : k = s.tot c := by omega
        rw [hk, hbq c hc]; exact hplt
    · have hb : bumpAll s.tot batch c = s.tot c := by unfold bumpAll; rw [if_neg hc]
      rw [hb] at hk2
      -- an old seat of a party outside the batch: strictly above some batch entry (the batch is non-empty)
      obtain ⟨p0, hp0, hp0m⟩ := maxQ_mem s.pool m hm
      have := hs c k hk1 hk2 p0 hp0
      rw [hp0m] at this
      exact lt_trans hplt this

theorem haLoop_strict (cfg : HACfg) (h : CfgOK cfg) (hq : StrictQ cfg) :
    ∀ (fuel : Nat) (s : HAState), Inv cfg s → StrictSep cfg s → StrictSep cfg (haLoop cfg fuel s) := by
  intro fuel
  induction fuel with
  | zero => intro s _ hs; exact hs
  | succ f ih =>
    intro s hi hs
    unfold haLoop
    split
    · exact hs
    · rename_i hc
      have hrem : s.rem ≠ 0 := fun h0 => hc (Or.inl h0)
      exact ih _ (haStep_inv cfg h s hi hrem) (haStep_strict cfg h hq s hi hs)

theorem haRun_strict (cfg : HACfg) (h : CfgOK cfg) (hq : StrictQ cfg) : StrictSep cfg (haRun cfg) := by
  apply haLoop_strict cfg h hq _ _ (haInit_inv cfg h)
  intro c k hk1 hk2
  exact absurd hk2 (by simp only [haInit]; omega)

end VL
