/-
  C17 helper lemmas: the per-ballot effect of `lift` on place-based scores.

  `rankScore f r b k` is the score candidate `k` collects on ballot `b` when the place with index `j` (counted from
  `r`) is worth `f j`; `RankedToPositionalVotes` (with `f` the scorer's list) and the cumulated Bucklin totals
  (with `f` the indicator of the first rounds) are both of this form.
-/
import VotelibModel.Mono
import VotelibProofs.Lemmas.ConvertPositional
namespace VL.Mono
open VL VL.Convert

theorem bc_cons (it : RankItem) (rest : Ballot) : ballotCands (it :: rest) = it.cands ++ ballotCands rest := by
  simp [ballotCands]

/-- score of `k` on the places of `b`, the first of which has index `r` -/
def rankScore (f : Nat → Rat) : Nat → Ballot → Cand → Rat
  | _, [], _ => 0
  | r, it :: rest, k => f r * cnt it.cands k + rankScore f (r + 1) rest k

theorem posFrom_eq_rankScore (scores : List Rat) (r : Nat) (b : Ballot) (k : Cand) :
    posFrom scores r b k = rankScore (fun j => scores.getD j 0) r b k := by
  induction b generalizing r with
  | nil => rfl
  | cons it rest ih => simp only [posFrom, rankScore, ih]

theorem rankScore_append (f : Nat → Rat) (r : Nat) (l₁ l₂ : Ballot) (k : Cand) :
    rankScore f r (l₁ ++ l₂) k = rankScore f r l₁ k + rankScore f (r + l₁.length) l₂ k := by
  induction l₁ generalizing r with
  | nil => simp [rankScore]
  | cons it rest ih =>
    simp only [List.cons_append, rankScore, ih, List.length_cons]
    rw [show r + 1 + rest.length = r + (rest.length + 1) by omega]; ring

theorem rankScore_congr (f g : Nat → Rat) (r : Nat) (l : Ballot) (k : Cand)
    (h : ∀ j, j < l.length → f (r + j) = g (r + j)) : rankScore f r l k = rankScore g r l k := by
  induction l generalizing r with
  | nil => rfl
  | cons it rest ih =>
    simp only [rankScore]
    rw [show f r = g r from by simpa using h 0 (by simp), ih (r + 1) (fun j hj => by
      have := h (j + 1) (by simp; omega)
      rwa [show r + (j + 1) = r + 1 + j by omega] at this)]

theorem rankScore_shift (f : Nat → Rat) (r s : Nat) (l : Ballot) (k : Cand) :
    rankScore f (r + s) l k = rankScore (fun j => f (j + s)) r l k := by
  induction l generalizing r with
  | nil => rfl
  | cons it rest ih =>
    simp only [rankScore]
    rw [show r + s + 1 = (r + 1) + s by omega, ih]

theorem rankScore_eq_zero (f : Nat → Rat) (r : Nat) (l : Ballot) (k : Cand) (h : k ∉ ballotCands l) :
    rankScore f r l k = 0 := by
  induction l generalizing r with
  | nil => rfl
  | cons it rest ih =>
    rw [bc_cons, List.mem_append, not_or] at h
    simp only [rankScore, cnt_eq_zero h.1, ih (r + 1) h.2]; ring

/-- the places `j` of `l` seen through `f` are worth at most those seen through `g`, plus a bonus `c` collected at
    most once (a candidate stands on one place at most) -/
theorem rankScore_le (f g : Nat → Rat) (c : Rat) (hc : 0 ≤ c) (r₁ r₂ : Nat) (l : Ballot) (k : Cand)
    (hnd : (ballotCands l).Nodup) (h : ∀ j, j < l.length → f (r₁ + j) ≤ g (r₂ + j) + c) :
    rankScore f r₁ l k ≤ rankScore g r₂ l k + c := by
  induction l generalizing r₁ r₂ with
  | nil => simpa [rankScore] using hc
  | cons it rest ih =>
    rw [bc_cons, List.nodup_append] at hnd
    obtain ⟨hit, hrest, hdisj⟩ := hnd
    simp only [rankScore]
    by_cases hk : k ∈ it.cands
    · have hkr : k ∉ ballotCands rest := fun h' => hdisj k hk k h' rfl
      rw [rankScore_eq_zero f _ rest k hkr, rankScore_eq_zero g _ rest k hkr, cnt_of_nodup hit, if_pos hk]
      have := h 0 (by simp)
      simp only [Nat.add_zero] at this
      linarith
    · rw [cnt_eq_zero hk]
      have := ih (r₁ + 1) (r₂ + 1) hrest (fun j hj => by
        have := h (j + 1) (by simp; omega)
        rwa [show r₁ + (j + 1) = r₁ + 1 + j by omega, show r₂ + (j + 1) = r₂ + 1 + j by omega] at this)
      linarith

/-- index map of an insertion at `i`: places before `i` keep their index, the others move down by one -/
def skip (g : Nat → Rat) (i : Nat) (j : Nat) : Rat := if j < i then g j else g (j + 1)

theorem rankScore_insert (g : Nat → Rat) (s : Ballot) (i : Nat) (hi : i ≤ s.length) (x : RankItem) (k : Cand) :
    rankScore g 0 (s.take i ++ x :: s.drop i) k = rankScore (skip g i) 0 s k + g i * cnt x.cands k := by
  have hlen : (s.take i).length = i := by simp [List.length_take]; omega
  rw [rankScore_append, hlen]
  simp only [rankScore, Nat.zero_add]
  conv_rhs => rw [← List.take_append_drop i s, rankScore_append, hlen]
  have e1 : rankScore g 0 (s.take i) k = rankScore (skip g i) 0 (s.take i) k := by
    apply rankScore_congr
    intro j hj
    rw [hlen] at hj
    simp [skip, hj]
  have e2 : rankScore g (i + 1) (s.drop i) k = rankScore (skip g i) (0 + i) (s.drop i) k := by
    rw [Nat.zero_add, show i + 1 = i + 1 from rfl, rankScore_shift g i 1, ]
    apply rankScore_congr
    intro j _
    simp [skip]
  rw [e1, e2]; ring

/-! ### taking `w` out of a ballot -/

theorem stripItem_of_not_mem {w : Cand} {it : RankItem} (h : w ∉ it.cands) : stripItem w it = some it := by
  cases it with
  | one c =>
    simp only [RankItem.cands, List.mem_singleton] at h
    have hc : ¬ c = w := fun hc => h hc.symm
    simp [stripItem, hc]
  | shared cs =>
    simp only [RankItem.cands] at h
    simp [stripItem, h]

theorem strip_of_not_mem {w : Cand} {l : Ballot} (h : w ∉ ballotCands l) : strip w l = l := by
  induction l with
  | nil => rfl
  | cons it rest ih =>
    rw [bc_cons, List.mem_append, not_or] at h
    simp only [strip, List.filterMap_cons, stripItem_of_not_mem h.1]
    congr 1
    exact ih h.2

/-- what `stripItem` leaves of the place where `w` stands -/
theorem stripItem_cands {w : Cand} {it : RankItem} :
    ((stripItem w it).map RankItem.cands).getD [] = it.cands.filter (fun c => c ≠ w) := by
  cases it with
  | one c =>
    by_cases hc : c = w
    · simp [stripItem, hc, RankItem.cands]
    · simp [stripItem, hc, RankItem.cands]
  | shared cs =>
    by_cases hw : w ∈ cs
    · simp only [stripItem, hw, ↓reduceIte, RankItem.cands]
      split
      · rename_i h; rw [h]; rfl
      · rename_i c h; rw [h]; rfl
      · rename_i rest h1 h2; rfl
    · simp only [stripItem, hw, ↓reduceIte, RankItem.cands, Option.map_some, Option.getD_some]
      symm
      rw [List.filter_eq_self]
      intro a ha
      simp only [ne_eq, decide_not, Bool.not_eq_eq_eq_not, Bool.not_true, decide_eq_false_iff_not]
      rintro rfl; exact hw ha

theorem cnt_filter_ne {l : List Cand} {w y : Cand} (h : y ≠ w) : cnt (l.filter (fun c => c ≠ w)) y = cnt l y := by
  induction l with
  | nil => rfl
  | cons a t ih =>
    by_cases ha : a = w
    · subst ha
      simp only [ne_eq, not_true_eq_false, decide_false, Bool.false_eq_true, not_false_eq_true, List.filter_cons_of_neg]
      rw [cnt_cons, if_neg (fun h' => h h'.symm), ih]; ring
    · simp only [ne_eq, ha, not_false_eq_true, decide_true, List.filter_cons_of_pos]
      rw [cnt_cons, cnt_cons, ih]

/-- position of `w` on a ballot whose candidates are distinct -/
theorem decompose (w : Cand) (b : Ballot) :
    (w ∉ ballotCands b ∧ posOf w b = none) ∨
    ∃ b₁ it b₂, b = b₁ ++ it :: b₂ ∧ w ∈ it.cands ∧ w ∉ ballotCands b₁ ∧ posOf w b = some b₁.length := by
  induction b with
  | nil => left; simp [ballotCands, posOf]
  | cons it rest ih =>
    by_cases hw : w ∈ it.cands
    · right
      refine ⟨[], it, rest, rfl, hw, by simp [ballotCands], ?_⟩
      simp [posOf, List.findIdx?_cons, hw]
    · rcases ih with ⟨h1, h2⟩ | ⟨b₁, it', b₂, hb, hw', hb1, hp⟩
      · left
        refine ⟨by rw [bc_cons, List.mem_append, not_or]; exact ⟨hw, h1⟩, ?_⟩
        unfold posOf at h2 ⊢
        rw [List.findIdx?_cons, h2]; simp [hw]
      · right
        refine ⟨it :: b₁, it', b₂, by rw [hb]; rfl, hw', ?_, ?_⟩
        · rw [bc_cons, List.mem_append, not_or]; exact ⟨hw, hb1⟩
        · unfold posOf at hp ⊢
          rw [List.findIdx?_cons, hp]; simp [hw]

theorem ballotCands_append (l₁ l₂ : Ballot) : ballotCands (l₁ ++ l₂) = ballotCands l₁ ++ ballotCands l₂ := by
  simp [ballotCands]

theorem strip_decomposed {w : Cand} {b₁ b₂ : Ballot} {it : RankItem}
    (h1 : w ∉ ballotCands b₁) (h2 : w ∉ ballotCands b₂) :
    strip w (b₁ ++ it :: b₂) = b₁ ++ (stripItem w it).toList ++ b₂ := by
  have e1 := strip_of_not_mem h1
  have e2 := strip_of_not_mem h2
  unfold strip at e1 e2 ⊢
  rw [List.filterMap_append, List.filterMap_cons, e1, e2]
  cases stripItem w it <;> simp

/-- the candidates of the stripped ballot -/
theorem ballotCands_strip (w : Cand) (b : Ballot) : ballotCands (strip w b) = (ballotCands b).filter (fun c => c ≠ w) := by
  induction b with
  | nil => rfl
  | cons it rest ih =>
    rw [bc_cons, List.filter_append, ← ih, ← stripItem_cands]
    simp only [strip, List.filterMap_cons]
    cases h : stripItem w it with
    | none => simp
    | some it' => simp [bc_cons]

theorem ballotCands_lift (w : Cand) (i : Nat) (b : Ballot) :
    (ballotCands (lift w i b)).Perm (w :: (ballotCands b).filter (fun c => c ≠ w)) := by
  unfold lift
  rw [ballotCands_append, bc_cons, ← ballotCands_strip]
  simp only [RankItem.cands]
  have : ballotCands (strip w b) = ballotCands (List.take i (strip w b)) ++ ballotCands (List.drop i (strip w b)) := by
    rw [← ballotCands_append, List.take_append_drop]
  rw [this]
  exact List.perm_middle

theorem nodup_lift {w : Cand} {i : Nat} {b : Ballot} (h : (ballotCands b).Nodup) : (ballotCands (lift w i b)).Nodup := by
  rw [(ballotCands_lift w i b).nodup_iff, List.nodup_cons]
  exact ⟨by simp, h.sublist List.filter_sublist⟩

theorem mem_ballotCands_lift {w : Cand} {i : Nat} {b : Ballot} {c : Cand} :
    c ∈ ballotCands (lift w i b) ↔ c = w ∨ c ∈ ballotCands b := by
  rw [(ballotCands_lift w i b).mem_iff]
  simp only [List.mem_cons, List.mem_filter, ne_eq, decide_not, Bool.not_eq_eq_eq_not, Bool.not_true,
    decide_eq_false_iff_not]
  constructor
  · rintro (h | h)
    · exact Or.inl h
    · exact Or.inr h.1
  · rintro (h | h)
    · exact Or.inl h
    · by_cases hc : c = w
      · exact Or.inl hc
      · exact Or.inr ⟨h, hc⟩

/-! ### the effect of a lift on place-based scores -/

theorem anti_le_of {S : Nat → Nat → Rat} (hanti : ∀ n j, j + 1 < n → S n (j + 1) ≤ S n j) {n i r : Nat}
    (hir : i ≤ r) (hr : r < n) : S n r ≤ S n i := by
  induction r with
  | zero => have : i = 0 := by omega
            subst this; exact le_refl _
  | succ r ih =>
    rcases Nat.eq_or_lt_of_le hir with rfl | hlt
    · exact le_refl _
    · exact le_trans (hanti n r hr) (ih (by omega) (by omega))


/-- a family of score sequences (`S n j` = worth of place `j` on a ballot with `n` places) under which lifting a
    candidate never helps anybody else more than the lifted one:
    non-increasing, non-negative, and — when a ballot grows by one place (up to `N` places, the number of
    candidates, beyond which Borda refuses) — nobody gains more than a bonus `c` that the lifted candidate gains
    at least. -/
structure ScorerMono (S : Nat → Nat → Rat) (N : Nat) : Prop where
  anti : ∀ n j, j + 1 < n → S n (j + 1) ≤ S n j
  nonneg : ∀ n j, j < n → 0 ≤ S n j
  grow : ∀ n, n < N → ∃ c, 0 ≤ c ∧ (∀ j, j < n → S (n + 1) j ≤ S n j + c) ∧ (∀ j, j < n → S (n + 1) (j + 1) ≤ S n j) ∧
      (∀ i r, i ≤ r → r < n → S n r + c ≤ S (n + 1) i) ∧ (∀ i, i ≤ n → c ≤ S (n + 1) i)

/-- score of `k` on ballot `b` -/
def bscore (S : Nat → Nat → Rat) (b : Ballot) (k : Cand) : Rat := rankScore (S b.length) 0 b k

theorem ScorerMono.anti_le {S : Nat → Nat → Rat} {N : Nat} (h : ScorerMono S N) {n i r : Nat} (hir : i ≤ r) (hr : r < n) :
    S n r ≤ S n i := by
  induction r with
  | zero => have : i = 0 := by omega
            subst this; exact le_refl _
  | succ r ih =>
    rcases Nat.eq_or_lt_of_le hir with rfl | hlt
    · exact le_refl _
    · exact le_trans (h.anti n r hr) (ih (by omega) (by omega))

theorem lift_length (w : Cand) (i : Nat) (b : Ballot) (hi : i ≤ (strip w b).length) :
    (lift w i b).length = (strip w b).length + 1 := by
  unfold lift
  simp only [List.length_append, List.length_take, List.length_cons, List.length_drop]
  omega

theorem bscore_lift (S : Nat → Nat → Rat) (w : Cand) (i : Nat) (b : Ballot) (hi : i ≤ (strip w b).length) (k : Cand) :
    bscore S (lift w i b) k
      = rankScore (skip (S ((strip w b).length + 1)) i) 0 (strip w b) k + S ((strip w b).length + 1) i * cnt [w] k := by
  unfold bscore
  rw [lift_length w i b hi]
  unfold lift
  exact rankScore_insert _ _ i hi (RankItem.one w) k

theorem rankScore_mid (f : Nat → Rat) (b₁ b₂ : Ballot) (it : RankItem) (k : Cand) :
    rankScore f 0 (b₁ ++ it :: b₂) k
      = rankScore f 0 b₁ k + f b₁.length * cnt it.cands k + rankScore f (b₁.length + 1) b₂ k := by
  rw [rankScore_append]
  simp only [rankScore, Nat.zero_add]; ring

theorem not_mem_strip (w : Cand) (b : Ballot) : w ∉ ballotCands (strip w b) := by
  rw [ballotCands_strip]; simp

theorem nodup_strip {w : Cand} {b : Ballot} (h : (ballotCands b).Nodup) : (ballotCands (strip w b)).Nodup := by
  rw [ballotCands_strip]; exact h.sublist List.filter_sublist

/-- **Per-ballot effect of a lift**, general form: nobody but `w` gains more than a bonus `c'` (which is 0 when
    the ballot keeps its length and `c` when it grows by one place), and `w` gains at least `c'`. -/
theorem lift_delta_gen {S : Nat → Nat → Rat} (hanti : ∀ n j, j + 1 < n → S n (j + 1) ≤ S n j)
    (w : Cand) (i : Nat) (b : Ballot) (hnd : (ballotCands b).Nodup) (hok : liftOK w i b = true)
    (c : Rat) (hc0 : 0 ≤ c)
    (hg : (lift w i b).length = b.length + 1 →
      (∀ j, j < b.length → S (b.length + 1) j ≤ S b.length j + c) ∧
      (∀ j, j < b.length → S (b.length + 1) (j + 1) ≤ S b.length j) ∧
      (∀ i r, i ≤ r → r < b.length → S b.length r + c ≤ S (b.length + 1) i) ∧
      (∀ i, i ≤ b.length → c ≤ S (b.length + 1) i))
    (y : Cand) (hy : y ≠ w) :
    ∃ c', 0 ≤ c' ∧ (c' = 0 ∨ c' = c) ∧ bscore S (lift w i b) y ≤ bscore S b y + c' ∧
      bscore S b w + c' ≤ bscore S (lift w i b) w := by
  have hnds := nodup_strip (w := w) hnd
  have hws := not_mem_strip w b
  have cy : cnt [w] y = 0 := cnt_eq_zero (by simp [hy])
  have cw : cnt [w] w = 1 := by rw [cnt_cons]; simp
  unfold liftOK at hok
  rcases decompose w b with ⟨hwb, hpos⟩ | ⟨b₁, it, b₂, hb, hwit, hwb1, hpos⟩
  · -- w is not ranked on the ballot
    rw [hpos] at hok
    simp only [decide_eq_true_eq] at hok
    have hs : strip w b = b := strip_of_not_mem hwb
    have hi : i ≤ (strip w b).length := by rw [hs]; exact hok
    obtain ⟨hc1, hc2, _, hc4⟩ := hg (by rw [lift_length w i b hi, hs])
    have hbw : bscore S b w = 0 := rankScore_eq_zero _ 0 b w hwb
    have hle : rankScore (skip (S (b.length + 1)) i) 0 b y ≤ rankScore (S b.length) 0 b y + c := by
      apply rankScore_le _ _ c hc0 0 0 b y hnd
      intro j hj
      simp only [Nat.zero_add, skip]
      split
      · exact hc1 j hj
      · have := hc2 j hj; linarith
    have h4 := hc4 i hok
    refine ⟨c, hc0, Or.inr rfl, ?_, ?_⟩
    · rw [bscore_lift S w i b hi y, cy, hs]; unfold bscore; linarith
    · rw [bscore_lift S w i b hi w, cw, hs, rankScore_eq_zero _ 0 b w hwb, hbw]; linarith
  · rw [hpos] at hok
    simp only [decide_eq_true_eq] at hok
    have hwb2 : w ∉ ballotCands b₂ := by
      intro h
      rw [hb, ballotCands_append, bc_cons] at hnd
      have h2 := (List.nodup_append.mp hnd).2.1
      exact (List.nodup_append.mp h2).2.2 w hwit w h rfl
    have hitnd : it.cands.Nodup := by
      rw [hb, ballotCands_append, bc_cons] at hnd
      exact (List.nodup_append.mp (List.nodup_append.mp hnd).2.1).1
    have cwit : cnt it.cands w = 1 := by rw [cnt_of_nodup hitnd, if_pos hwit]
    have hstrip := strip_decomposed (it := it) hwb1 hwb2
    have hR1 : ∀ f : Nat → Rat, rankScore f 0 b₁ w = 0 := fun f => rankScore_eq_zero f 0 b₁ w hwb1
    have hR2 : ∀ (f : Nat → Rat) r, rankScore f r b₂ w = 0 := fun f r => rankScore_eq_zero f r b₂ w hwb2
    have hcands := stripItem_cands (w := w) (it := it)
    cases hsi : stripItem w it with
    | none =>
      -- w stood alone on its place: the ballot keeps its length
      rw [hsi] at hstrip hcands
      simp only [Option.toList_none, List.append_nil] at hstrip
      simp only [Option.map_none, Option.getD_none] at hcands
      have cyit : cnt it.cands y = 0 := by rw [← cnt_filter_ne hy, ← hcands]; rfl
      have hlen : b.length = (b₁ ++ b₂).length + 1 := by rw [hb]; simp; omega
      have hi : i ≤ (strip w b).length := by rw [hb, hstrip]; simp; omega
      have hr : b₁.length < b.length := by rw [hb]; simp
      have hb' : b = (b₁ ++ b₂).take b₁.length ++ it :: (b₁ ++ b₂).drop b₁.length := by
        rw [hb]; simp
      have eby : ∀ k, bscore S b k
          = rankScore (skip (S b.length) b₁.length) 0 (b₁ ++ b₂) k + S b.length b₁.length * cnt it.cands k := by
        intro k
        unfold bscore
        conv_lhs => rw [hb']
        rw [rankScore_insert _ _ _ (by simp) it k]
        rw [← hb']
      have hsb : strip w b = b₁ ++ b₂ := by rw [hb]; exact hstrip
      rw [hsb] at hnds hws
      have hle : rankScore (skip (S b.length) i) 0 (b₁ ++ b₂) y
          ≤ rankScore (skip (S b.length) b₁.length) 0 (b₁ ++ b₂) y + 0 := by
        apply rankScore_le _ _ 0 (le_refl _) 0 0 _ y hnds
        intro j hj
        simp only [Nat.zero_add, skip, add_zero]
        by_cases h1 : j < i
        · rw [if_pos h1, if_pos (by omega)]
        · rw [if_neg h1]
          by_cases h2 : j < b₁.length
          · rw [if_pos h2]; exact hanti _ j (by omega)
          · rw [if_neg h2]
      have h5 := anti_le_of hanti hok hr
      refine ⟨0, le_refl _, Or.inl rfl, ?_, ?_⟩
      · rw [bscore_lift S w i b hi y, cy, eby y, cyit, hsb, ← hlen]; linarith
      · rw [bscore_lift S w i b hi w, cw, eby w, cwit, hsb, ← hlen,
          rankScore_eq_zero _ 0 (b₁ ++ b₂) w hws, rankScore_eq_zero _ 0 (b₁ ++ b₂) w hws]
        linarith
    | some it' =>
      -- w shared its place: the ballot grows by one place
      rw [hsi] at hstrip hcands
      simp only [Option.toList_some] at hstrip
      simp only [Option.map_some, Option.getD_some] at hcands
      have cyit : cnt it'.cands y = cnt it.cands y := by rw [hcands]; exact cnt_filter_ne hy
      have hs : strip w b = b₁ ++ it' :: b₂ := by rw [hb, hstrip]; simp
      have hslen : (strip w b).length = b.length := by rw [hs, hb]; simp
      have hi : i ≤ (strip w b).length := by rw [hs]; simp; omega
      have hr : b₁.length < b.length := by rw [hb]; simp
      obtain ⟨hc1, hc2, hc3, _⟩ := hg (by rw [lift_length w i b hi, hslen])
      have ey : bscore S b y = rankScore (S b.length) 0 (strip w b) y := by
        unfold bscore
        rw [hs]
        generalize S b.length = f
        rw [hb, rankScore_mid, rankScore_mid, cyit]
      have ew : bscore S b w = S b.length b₁.length := by
        unfold bscore
        generalize hf : S b.length = f
        rw [hb, rankScore_mid, hR1, hR2, cwit]; ring
      have hle : rankScore (skip (S (b.length + 1)) i) 0 (strip w b) y
          ≤ rankScore (S b.length) 0 (strip w b) y + c := by
        apply rankScore_le _ _ c hc0 0 0 _ y hnds
        intro j hj
        rw [hslen] at hj
        simp only [Nat.zero_add, skip]
        split
        · exact hc1 j hj
        · have := hc2 j hj; linarith
      have h3 := hc3 i b₁.length hok hr
      refine ⟨c, hc0, Or.inr rfl, ?_, ?_⟩
      · rw [bscore_lift S w i b hi y, cy, ey, hslen]; linarith
      · rw [bscore_lift S w i b hi w, cw, ew, hslen, rankScore_eq_zero _ 0 (strip w b) w hws]; linarith

/-- **Per-ballot effect of a lift.**  On a ballot with distinct candidates, taking `w` out and re-inserting it as a
    rank of its own not below its old place changes nobody's score by more than it changes `w`'s. -/
theorem lift_delta {S : Nat → Nat → Rat} {N : Nat} (hS : ScorerMono S N) (w : Cand) (i : Nat) (b : Ballot)
    (hnd : (ballotCands b).Nodup) (hok : liftOK w i b = true) (hN : (lift w i b).length ≤ N) (y : Cand) (hy : y ≠ w) :
    bscore S (lift w i b) y - bscore S b y ≤ bscore S (lift w i b) w - bscore S b w := by
  by_cases hgrown : (lift w i b).length = b.length + 1
  · obtain ⟨c, hc0, h1, h2, h3, h4⟩ := hS.grow b.length (by omega)
    obtain ⟨c', _, _, hy', hw'⟩ := lift_delta_gen hS.anti w i b hnd hok c hc0 (fun _ => ⟨h1, h2, h3, h4⟩) y hy
    linarith
  · obtain ⟨c', _, _, hy', hw'⟩ := lift_delta_gen hS.anti w i b hnd hok 0 (le_refl _) (fun h => absurd h hgrown) y hy
    linarith

theorem rankScore_zero_fn (r : Nat) (l : Ballot) (k : Cand) : rankScore (fun _ => (0 : Rat)) r l k = 0 := by
  induction l generalizing r with
  | nil => rfl
  | cons a t ih => simp only [rankScore, zero_mul, zero_add]; exact ih (r + 1)

/-- a new ballot with `w` alone at the top gives nobody more than it gives `w` -/
theorem new_ballot_delta {S : Nat → Nat → Rat} {N : Nat} (hS : ScorerMono S N) (w : Cand) (rest : Ballot)
    (hnd : (ballotCands (RankItem.one w :: rest)).Nodup) (y : Cand) :
    bscore S (RankItem.one w :: rest) y ≤ bscore S (RankItem.one w :: rest) w := by
  have hwr : w ∉ ballotCands rest := by
    rw [bc_cons] at hnd
    exact fun h => (List.nodup_append.mp hnd).2.2 w (by simp [RankItem.cands]) w h rfl
  have hrnd : (ballotCands rest).Nodup := by
    rw [bc_cons] at hnd; exact (List.nodup_append.mp hnd).2.1
  unfold bscore
  simp only [rankScore, RankItem.cands, List.length_cons, Nat.zero_add]
  rw [rankScore_eq_zero _ 1 rest w hwr, show cnt [w] w = 1 by rw [cnt_cons]; simp]
  by_cases hy : y = w
  · subst hy; rw [rankScore_eq_zero _ 1 rest y hwr, show cnt [y] y = 1 by rw [cnt_cons]; simp]
  · rw [show cnt [w] y = 0 from cnt_eq_zero (by simp [hy])]
    have h0 : 0 ≤ S (rest.length + 1) 0 := hS.nonneg _ 0 (by omega)
    have hle : rankScore (S (rest.length + 1)) 1 rest y ≤ rankScore (fun _ => 0) 1 rest y + S (rest.length + 1) 0 := by
      apply rankScore_le _ _ _ h0 1 1 rest y hrnd
      intro j hj
      simp only [zero_add]
      exact hS.anti_le (Nat.zero_le _) (by omega)
    have hz : rankScore (fun _ => (0 : Rat)) 1 rest y = 0 := rankScore_zero_fn 1 rest y
    linarith

end VL.Mono
