/-
  A shared first rank divides the weight of the ballot equally among its candidates under Gregory transfer:
  tracking the weight of one ballot per holder through `initial_allocation`.
-/
import VotelibProofs.Lemmas.STVWeights
namespace VL.STV
open VL

/-- weight of the papers of class `P` resting with holder `h` -/
def wP (P : Ballot → Bool) (a : Alloc) (h : Option Cand) : Rat := pileTotalP P (allocPile a h)

theorem allocPile_allocAdd (a : Alloc) (h' : Option Cand) (b : Ballot) (w : Rat) (h : Option Cand) :
    allocPile (allocAdd a h' b w) h = if h' = h then pileAdd (allocPile a h') b w else allocPile a h := by
  induction a with
  | nil =>
    simp only [allocAdd, allocPile_cons]
    split
    · simp [allocPile]
    · rfl
  | cons y ys ih =>
    obtain ⟨k, p⟩ := y
    simp only [allocAdd]
    by_cases hk : k = h'
    · rw [if_pos hk]
      subst hk
      simp only [allocPile_cons, if_true]
      split <;> rfl
    · rw [if_neg hk]
      simp only [allocPile_cons, if_neg hk]
      by_cases hkh : k = h
      · rw [if_pos hkh, if_neg (by rw [← hkh]; exact fun e => hk e.symm), if_pos hkh]
      · rw [if_neg hkh, ih]
        split <;> rfl

theorem wP_allocAdd (P : Ballot → Bool) (a : Alloc) (h' : Option Cand) (b : Ballot) (w : Rat) (h : Option Cand) :
    wP P (allocAdd a h' b w) h = wP P a h + (if h' = h ∧ P b = true then w else 0) := by
  unfold wP
  rw [allocPile_allocAdd]
  by_cases hh : h' = h
  · subst hh
    rw [if_pos rfl, pileTotalP_pileAdd]
    by_cases hp : P b = true <;> simp [hp]
  · rw [if_neg hh]; simp [hh]

theorem wP_foldAdd_false (P : Ballot → Bool) (a : Alloc) (b : Ballot) (hb : P b = false) (r : List (Cand × Rat))
    (h : Option Cand) : wP P (foldAdd a b r) h = wP P a h := by
  induction r generalizing a with
  | nil => rfl
  | cons x xs ih => rw [foldAdd_cons, ih, wP_allocAdd]; simp [hb]

theorem wP_foldAdd_true (P : Ballot → Bool) (a : Alloc) (b : Ballot) (hb : P b = true) (r : List (Cand × Rat))
    (c : Cand) : wP P (foldAdd a b r) (some c) = wP P a (some c) + (r.map (fun x => if x.1 = c then x.2 else 0)).sum := by
  induction r generalizing a with
  | nil => simp [foldAdd_nil]
  | cons x xs ih =>
    rw [foldAdd_cons, ih, wP_allocAdd]
    simp only [hb, and_true, Option.some.injEq, List.map_cons, List.sum_cons]
    ring

/-- a paper outside the class leaves the class weights of every holder alone -/
theorem wP_moveBallot_false {E : Engine} (P : Ballot → Bool) {cont : List Cand} {frm : Option Cand} {a a' : Alloc}
    {b : Ballot} {w : Rat} {ds ds' : List Draw} (hb : P b = false)
    (h : moveBallot E cont frm a b w ds = .ok (a', ds')) (k : Option Cand) : wP P a' k = wP P a k := by
  unfold moveBallot at h
  split at h
  · injection h with h; injection h with h1 h2; subst h1; rw [wP_allocAdd]; simp [hb]
  · injection h with h; injection h with h1 h2; subst h1; rw [wP_allocAdd]; simp [hb]
  · cases hs : E.split (rankedNext b frm cont) w ds with
    | error e => rw [hs] at h; simp [bind, Except.bind] at h
    | ok v =>
      obtain ⟨r, ds1⟩ := v
      rw [hs] at h
      simp only [bind, Except.bind, pure, Except.pure] at h
      injection h with h; injection h with h1 h2
      have hfold : a' = foldAdd a b r := h1.symm
      subst hfold
      exact wP_foldAdd_false P a b hb r k

theorem wP_movePile_false {E : Engine} (P : Ballot → Bool) {cont : List Cand} {frm : Option Cand} {pile : Pile}
    {a a' : Alloc} {ds ds' : List Draw} (hp : ∀ x ∈ pile, P x.1 = false)
    (h : movePile E cont frm pile a ds = .ok (a', ds')) (k : Option Cand) : wP P a' k = wP P a k := by
  induction pile generalizing a ds with
  | nil =>
    simp only [movePile] at h
    injection h with h; injection h with h1 h2; subst h1; rfl
  | cons bw rest ih =>
    obtain ⟨b, w⟩ := bw
    simp only [movePile] at h
    cases hm : moveBallot E cont frm a b w ds with
    | error e => rw [hm] at h; simp [bind, Except.bind] at h
    | ok v =>
      obtain ⟨a1, ds1⟩ := v
      rw [hm] at h
      simp only [bind, Except.bind] at h
      rw [ih (fun x hx => hp x (List.mem_cons_of_mem _ hx)) h,
        wP_moveBallot_false P (hp (b, w) List.mem_cons_self) hm]

/-- Gregory: a paper with at least two next candidates is divided equally among them -/
theorem wP_moveBallot_gregory_split (P : Ballot → Bool) {cont : List Cand} {frm : Option Cand} {a a' : Alloc}
    {b : Ballot} {w : Rat} {ds ds' : List Draw} (hb : P b = true) {ts : List Cand}
    (hts : rankedNext b frm cont = ts) (hnd : ts.Nodup) (hlen : 2 ≤ ts.length)
    (h : moveBallot gregory cont frm a b w ds = .ok (a', ds')) (c : Cand) :
    wP P a' (some c) = wP P a (some c) + (if c ∈ ts then w / (ts.length : Rat) else 0) := by
  unfold moveBallot at h
  rw [hts] at h
  cases ts with
  | nil => simp at hlen
  | cons t1 rest1 =>
    cases rest1 with
    | nil => simp at hlen
    | cons t2 rest2 =>
      simp only [gregory, bind, Except.bind, pure, Except.pure] at h
      injection h with h; injection h with h1 h2
      rw [← h1]
      have := wP_foldAdd_true P a b hb (gregorySplit (t1 :: t2 :: rest2) w) c
      unfold foldAdd at this
      rw [this]
      congr 1
      unfold gregorySplit
      rw [List.map_map]
      by_cases hc : c ∈ t1 :: t2 :: rest2
      · rw [if_pos hc]
        refine Eq.trans ?_ (sum_indicator hnd hc (w / ((t1 :: t2 :: rest2).length : Rat)))
        congr 1
        apply List.map_congr_left
        intro x _
        show (if x = c then w / ((t1 :: t2 :: rest2).length : Rat) else 0) =
          (if c = x then w / ((t1 :: t2 :: rest2).length : Rat) else 0)
        by_cases hx : x = c
        · rw [if_pos hx, if_pos hx.symm]
        · rw [if_neg hx, if_neg (fun (e : c = x) => hx e.symm)]
      · rw [if_neg hc]
        have : (List.map ((fun x : Cand × Rat => if x.1 = c then x.2 else 0) ∘ fun c => (c, w / ((t1 :: t2 :: rest2).length : Rat)))
            (t1 :: t2 :: rest2)) = (t1 :: t2 :: rest2).map (fun _ => (0 : Rat)) := by
          apply List.map_congr_left
          intro x hx
          show (if x = c then w / ((t1 :: t2 :: rest2).length : Rat) else 0) = 0
          rw [if_neg (fun (e : x = c) => hc (e ▸ hx))]
        rw [this]; simp


/-- one paper of the class in the pile: the class weight of a holder changes by what that paper brings -/
theorem wP_movePile_once {E : Engine} {cont : List Cand} {frm : Option Cand} {b0 : Ballot} {w : Rat} {c : Cand}
    {δ : Rat}
    (hmove : ∀ a1 a2 ds1 ds2, moveBallot E cont frm a1 b0 w ds1 = .ok (a2, ds2) →
      wP (fun b => decide (b = b0)) a2 (some c) = wP (fun b => decide (b = b0)) a1 (some c) + δ)
    {pile : Pile} {a a' : Alloc} {ds ds' : List Draw} (hnd : (pile.map (·.1)).Nodup) (hin : (b0, w) ∈ pile)
    (h : movePile E cont frm pile a ds = .ok (a', ds')) :
    wP (fun b => decide (b = b0)) a' (some c) = wP (fun b => decide (b = b0)) a (some c) + δ := by
  induction pile generalizing a ds with
  | nil => cases hin
  | cons bw rest ih =>
    obtain ⟨b', w'⟩ := bw
    have hx := List.nodup_cons.mp hnd
    simp only [movePile] at h
    cases hm : moveBallot E cont frm a b' w' ds with
    | error e => rw [hm] at h; simp [bind, Except.bind] at h
    | ok v =>
      obtain ⟨a1, ds1⟩ := v
      rw [hm] at h
      simp only [bind, Except.bind] at h
      rcases List.mem_cons.mp hin with he | he
      · injection he with he1 he2
        subst he1; subst he2
        have hrest : ∀ x ∈ rest, (fun b => decide (b = b0)) x.1 = false := by
          intro x hxm
          simp only [decide_eq_false_iff_not]
          intro e
          exact hx.1 (List.mem_map.mpr ⟨x, hxm, e⟩)
        rw [wP_movePile_false _ hrest h, hmove _ _ _ _ hm]
      · have hne : b' ≠ b0 := by
          intro e
          exact hx.1 (List.mem_map.mpr ⟨(b0, w), he, e.symm⟩)
        rw [ih hx.2 he h, wP_moveBallot_false _ (by simpa using hne) hm]

/-- **A shared first rank divides the weight equally (Gregory).**  In the initial allocation, a ballot whose
    first rank is shared by the candidates `cs` (at least two) rests with each of them at exactly `w / #cs`,
    and with nobody else. -/
theorem shared_first_split {votes : Profile} (hnd : (votes.map (·.1)).Nodup) {cs : List Cand} {rest : Ballot} {w : Rat}
    (hbw : (RankItem.shared cs :: rest, w) ∈ votes) (hcs : cs.Nodup) (hlen : 2 ≤ cs.length)
    {ds ds' : List Draw} {a0 : Alloc} (h : initialAllocation gregory votes ds = .ok (a0, ds')) (c : Cand) :
    wP (fun b => decide (b = RankItem.shared cs :: rest)) a0 (some c) =
      if c ∈ cs then w / (cs.length : Rat) else 0 := by
  unfold initialAllocation at h
  have hall : ∀ x ∈ cs, x ∈ allRanked votes := by
    intro x hx
    exact mem_allRanked.mpr ⟨_, hbw, by simp [ballotCands, itemCands, hx]⟩
  have hnext : rankedNext (RankItem.shared cs :: rest) none (allRanked votes) = cs := by
    have hfil : cs.filter (fun c => decide (c ∈ allRanked votes)) = cs := by
      rw [List.filter_eq_self]; intro x hx; simpa using hall x hx
    have hne : cs ≠ [] := by intro e; rw [e] at hlen; simp at hlen
    simp only [rankedNext, Option.isNone_none, rankedNextGo, hfil, Bool.true_or, if_true]
    rw [if_pos hne]
  have hfict : (RankItem.shared cs :: rest, w) ∈ fictionalPile votes :=
    List.mem_filter.mpr ⟨hbw, by simp [sharedFirst]⟩
  have hndf : ((fictionalPile votes).map (·.1)).Nodup :=
    List.Nodup.sublist (List.Sublist.map _ List.filter_sublist) hnd
  have h0 : wP (fun b => decide (b = RankItem.shared cs :: rest)) (firstPrefs votes) (some c) = 0 := by
    unfold wP
    apply pileTotalP_zero
    intro x hx
    obtain ⟨hp, hhp, _, hxx⟩ := allocPile_mem hx
    unfold firstPrefs at hhp
    obtain ⟨c', _, rfl⟩ := List.mem_map.mp hhp
    have hfi := (List.mem_filter.mp hxx).2
    simp only [decide_eq_false_iff_not]
    intro e
    rw [firstIs, e] at hfi
    cases hfi
  rw [wP_movePile_once (δ := if c ∈ cs then w / (cs.length : Rat) else 0)
    (fun a1 a2 ds1 ds2 hm => wP_moveBallot_gregory_split _ (by simp) hnext hcs hlen hm c) hndf hfict h, h0, zero_add]

end VL.STV
