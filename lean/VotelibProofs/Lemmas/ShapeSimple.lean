/-
  C08 helper lemmas: a list of distinct candidates as a selection result; the seat-less threshold selectors and the
  open-list evaluator (models of C16).
-/
import VotelibProofs.Lemmas.ShapeDefs
import VotelibProofs.Props.C16
namespace VL.C08
open VL

/-- a list of `n` distinct candidates of `cands` (no tie object) has the selection shape -/
theorem SelShape.of_cands {cands : List Cand} {n : Nat} {r : List Cand} (hlen : r.length = n) (hnd : r.Nodup)
    (hsub : ∀ c ∈ r, c ∈ cands) : SelShape cands n (r.map Slot.cand) := by
  have hnotie : ∀ T, Slot.tie T ∉ r.map Slot.cand := by
    intro T hT; obtain ⟨_, _, he⟩ := List.mem_map.mp hT; cases he
  refine ⟨by simpa using hlen, ?_, fun T hT => absurd hT (hnotie T), by rw [electedOf_map_cand]; exact hnd,
    fun T hT => absurd hT (hnotie T), fun T hT => absurd hT (hnotie T)⟩
  intro c hc
  obtain ⟨d, hd, he⟩ := List.mem_map.mp hc
  injection he with he; subst he; exact hsub _ hd

/-- result shape of a selector called without a number of seats: distinct candidates of the votes -/
structure SeatlessShape (cands : List Cand) (r : List Cand) : Prop where
  nodup : r.Nodup
  cand_ok : ∀ c ∈ r, c ∈ cands

theorem seatless_of_sorted_filter (votes : Votes) (hwf : C09.WF votes) (P : Cand × Rat → Bool) :
    SeatlessShape (keys votes) (((sortDesc votes).filter P).map (·.1)) := by
  have hs : ((sortDesc votes).map (·.1)).Nodup := ((sortDesc_perm votes).map _).nodup_iff.mpr hwf
  refine ⟨List.Nodup.sublist (List.Sublist.map _ List.filter_sublist) hs, ?_⟩
  intro c hc
  obtain ⟨p, hp, rfl⟩ := List.mem_map.mp hc
  exact List.mem_map.mpr ⟨p, mem_sortDesc.mp (List.mem_filter.mp hp).1, rfl⟩

end VL.C08
