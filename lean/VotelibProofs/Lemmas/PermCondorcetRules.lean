/-
  C10: the Condorcet family as called by the family table, `PreConverted(RankedToCondorcetVotes(), evaluator)`, on a ranked
  profile (the LIST of (ballot, weight) pairs in dict insertion order): ballot-order independence, by composing the
  converter's invariance (PermConvert.lean) with the evaluators' invariance on pairwise dictionaries
  (PermCondorcet.lean, PermCopeland2.lean, PermSchulze.lean).
-/
import VotelibProofs.Lemmas.PermConvert
import VotelibProofs.Lemmas.PermCondorcet
import VotelibProofs.Lemmas.PermCopeland2
import VotelibProofs.Lemmas.PermSchulze
import VotelibModel.PreConverted
namespace VL.Perm
open VL VL.Convert VL.C10 VL.PreConv

theorem condorcetDict_nodup (ab : Bool) (p : RProfile) : ((rankedToCondorcet ab p).map (·.1)).Nodup :=
  C13.condorcet_is_dict ab _ p

/-- the converted pairwise dict of duplicate-free ballots with non-negative weights is well formed -/
theorem condorcetDict_wf (ab : Bool) (p : RProfile) (hb : ∀ bw ∈ p, (ballotCands bw.1).Nodup) (hw : ∀ bw ∈ p, 0 ≤ bw.2) :
    Condorcet.WF (rankedToCondorcet ab p) := by
  refine ⟨condorcetDict_nodup ab p, ?_, ?_⟩
  · intro e he heq
    have hk : e.1 ∈ dkeys (rankedToCondorcet ab p) := List.mem_map.2 ⟨e, he, rfl⟩
    unfold rankedToCondorcet at hk
    rw [mem_dkeys_condorcetU] at hk
    obtain ⟨bw, hbw, hmem⟩ := hk
    have hmem' : (e.1.1, e.1.2) ∈ condPairs ab (canonSet (allRankedCandidates p)) bw.1 := hmem
    have h2 : (e.1.2, e.1.1) ∈ condPairs ab (canonSet (allRankedCandidates p)) bw.1 := by
      rw [← heq]; rw [← heq] at hmem'; exact hmem'
    exact condPairs_asymm ab _ (hb bw hbw) hmem' h2
  · intro e he
    have hv : toFun (rankedToCondorcet ab p) e.1 = e.2 := toFun_eq_of_mem (condorcetDict_nodup ab p) (k := e.1) (v := e.2) he
    rw [← hv]
    unfold rankedToCondorcet
    rw [C13.condorcet_sum ab _ p e.1]
    unfold wsum
    apply List.sum_nonneg
    intro x hx
    obtain ⟨bw, hbw, rfl⟩ := List.mem_map.1 hx
    exact mul_nonneg (hw bw hbw) (cnt_nonneg _ _)

/-- **Copeland (first and second order): ballot-order independence** -/
theorem copelandRule_perm (so : Bool) {p₁ p₂ : RProfile} (h : p₁.Perm p₂) (n : Nat) :
    SlotsEquiv (condorcetRule (Condorcet.copeland so) p₁ n) (condorcetRule (Condorcet.copeland so) p₂ n) :=
  copeland_perm (rankedToCondorcet_perm true h) (condorcetDict_nodup true p₁) so n

/-- **Minimax (winning votes, margins, pairwise opposition): ballot-order independence** -/
theorem minimaxRule_perm (sc : Condorcet.Scorer) {p₁ p₂ : RProfile} (h : p₁.Perm p₂) (n : Nat) :
    SlotsEquiv (condorcetRule (Condorcet.minimax sc) p₁ n) (condorcetRule (Condorcet.minimax sc) p₂ n) :=
  minimax_perm (rankedToCondorcet_perm true h) (condorcetDict_nodup true p₁) sc n

/-- **Schulze: ballot-order independence** (duplicate-free ballots, non-negative weights) -/
theorem schulzeRule_perm {p₁ p₂ : RProfile} (h : p₁.Perm p₂) (hb : ∀ bw ∈ p₁, (ballotCands bw.1).Nodup)
    (hw : ∀ bw ∈ p₁, 0 ≤ bw.2) (n : Nat) :
    SlotsEquiv (condorcetRule Condorcet.schulze p₁ n) (condorcetRule Condorcet.schulze p₂ n) :=
  schulze_perm (rankedToCondorcet_perm true h) (condorcetDict_wf true p₁ hb hw) n

/-- **Condorcet winner: ballot-order independence** — the very same answer -/
theorem condorcetWinnerRule_perm {p₁ p₂ : RProfile} (h : p₁.Perm p₂) :
    condorcetSeatless Condorcet.condorcetWinner p₁ = condorcetSeatless Condorcet.condorcetWinner p₂ :=
  condorcetWinner_perm (rankedToCondorcet_perm true h) (condorcetDict_nodup true p₁)

/-- **Smith set: ballot-order independence** — the same set -/
theorem smithRule_perm {p₁ p₂ : RProfile} (h : p₁.Perm p₂) :
    (condorcetSeatless Condorcet.smithSet p₁).Perm (condorcetSeatless Condorcet.smithSet p₂) :=
  smithSet_perm (rankedToCondorcet_perm true h) (condorcetDict_nodup true p₁)

/-- **Schwartz set: ballot-order independence** — the same set -/
theorem schwartzRule_perm {p₁ p₂ : RProfile} (h : p₁.Perm p₂) :
    (condorcetSeatless Condorcet.schwartzSet p₁).Perm (condorcetSeatless Condorcet.schwartzSet p₂) :=
  schwartzSet_perm (rankedToCondorcet_perm true h) (condorcetDict_nodup true p₁)

end VL.Perm
