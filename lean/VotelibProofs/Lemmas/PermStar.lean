/-
  C10, score family, STAR — part 1: the score-side Schulze evaluator (`VL.Score.schulze`, `widestPaths`,
  `schulzeScores` over `PairCounts` with `Int` counts; model VotelibModel/Score.lean, owned by C12) does not depend on
  the insertion order of the pairwise dict.  The only hypothesis is that the dict has distinct keys.

  Technique ("dict as a map"): the model iterates the candidate SET in ascending id order (`sortDedup`), which is the
  same list for both presentations; every step of the Floyd-Warshall loop nest is `d[k] = f(d.get ...)`, hence a function
  of the dict read as a map `key -> Option value` (`score_dget`); so both strength tables are the same map with distinct
  keys, i.e. permutations of each other, and the path-win scores are an accumulation (`accum`) over a permuted list.
  No non-negativity and no max-min characterisation is needed.

  Helper lemmas live in `VL.Perm.Star`; headline theorems in `VL.Perm`.
-/
import VotelibProofs.Lemmas.PermScore
import VotelibProofs.Lemmas.PermApproval
import VotelibProofs.Lemmas.PermCondorcet
import VotelibProofs.Lemmas.C12Star
namespace VL.Perm.Star
open VL VL.Score VL.C10 VL.Appr

/-- a pairwise dict read as a map -/
abbrev PSem := (Cand × Cand) → Option Int

def pkeysS (d : PairCounts) : List (Cand × Cand) := d.map (·.1)

theorem getPair_eq (d : PairCounts) (a b : Cand) : getPair d a b = (score_dget d (a, b)).getD 0 := by
  unfold getPair score_dget
  cases d.find? (fun p => p.1 = (a, b)) <;> rfl

theorem dget_setPair (d : PairCounts) (a b : Cand) (n : Int) (k : Cand × Cand) :
    score_dget (setPair d a b n) k = if k = (a, b) then some n else score_dget d k := by
  induction d with
  | nil =>
    simp only [setPair, score_dget_cons, score_dget_nil]
    by_cases h : k = (a, b)
    · rw [if_pos h.symm, if_pos h]
    · rw [if_neg (fun e => h e.symm), if_neg h]
  | cons p ps ih =>
    obtain ⟨q, v⟩ := p
    unfold setPair
    by_cases hq : q = (a, b)
    · rw [if_pos hq, score_dget_cons, score_dget_cons]
      simp only
      by_cases h : k = (a, b)
      · rw [if_pos (hq.trans h.symm), if_pos h]
      · rw [if_neg h, if_neg (fun e => h (e.symm.trans hq)), if_neg (fun e => h (e.symm.trans hq))]
    · rw [if_neg hq, score_dget_cons, score_dget_cons, ih]
      simp only
      by_cases h : q = k
      · rw [if_pos h, if_pos h, if_neg (fun e => hq (h.trans e))]
      · rw [if_neg h, if_neg h]

theorem mem_pkeys_setPair (d : PairCounts) (a b : Cand) (n : Int) (k : Cand × Cand) :
    k ∈ pkeysS (setPair d a b n) ↔ k ∈ pkeysS d ∨ k = (a, b) := by
  unfold pkeysS
  rw [← score_dget_isSome, ← score_dget_isSome, dget_setPair]
  by_cases h : k = (a, b)
  · simp [h]
  · simp [h]

theorem nodup_setPair {d : PairCounts} (h : (pkeysS d).Nodup) (a b : Cand) (n : Int) : (pkeysS (setPair d a b n)).Nodup := by
  induction d with
  | nil => simp [setPair, pkeysS]
  | cons p ps ih =>
    obtain ⟨q, v⟩ := p
    have hp : q ∉ pkeysS ps ∧ (pkeysS ps).Nodup := List.nodup_cons.mp h
    unfold setPair
    by_cases hq : q = (a, b)
    · rw [if_pos hq]; exact h
    · rw [if_neg hq]
      show (q :: pkeysS (setPair ps a b n)).Nodup
      refine List.nodup_cons.mpr ⟨?_, ih hp.2⟩
      rw [mem_pkeys_setPair]
      rintro (h' | h')
      · exact hp.1 h'
      · exact hq h'

/-! ### folds that are functions of the dict read as a map -/

theorem foldl_sem {α β γ : Type} (sem : β → γ) (step : β → α → β) (stepF : γ → α → γ)
    (h : ∀ d x, sem (step d x) = stepF (sem d) x) (l : List α) : ∀ d : β, sem (l.foldl step d) = l.foldl stepF (sem d) := by
  induction l with
  | nil => intro d; rfl
  | cons x xs ih => intro d; rw [List.foldl_cons, List.foldl_cons, ih, h]

theorem foldl_inv {α β : Type} (P : β → Prop) (step : β → α → β) (h : ∀ d x, P d → P (step d x)) (l : List α) :
    ∀ d : β, P d → P (l.foldl step d) := by
  induction l with
  | nil => intro d hd; exact hd
  | cons x xs ih => intro d hd; exact ih _ (h d x hd)

/-! ### the loop nest of `widest_paths` -/

def gp (F : PSem) (a b : Cand) : Int := (F (a, b)).getD 0

/-- innermost step of the model (condorcet.py L306-312) -/
def step (c1 c2 : Cand) (d : PairCounts) (ca : Cand) : PairCounts :=
  if ca ≠ c1 ∧ ca ≠ c2 then
    let a := getPair d c2 ca
    let m := let x := getPair d c2 c1; let y := getPair d c1 ca; if y < x then y else x
    setPair d c2 ca (if a < m then m else a)
  else d

/-- the same step on maps -/
def stepF (c1 c2 : Cand) (F : PSem) (ca : Cand) : PSem :=
  if ca ≠ c1 ∧ ca ≠ c2 then
    let a := gp F c2 ca
    let m := let x := gp F c2 c1; let y := gp F c1 ca; if y < x then y else x
    Function.update F (c2, ca) (some (if a < m then m else a))
  else F

def nest (allC : List Cand) (d : PairCounts) : PairCounts :=
  allC.foldl (fun d c1 => allC.foldl (fun d c2 => if c1 ≠ c2 then allC.foldl (step c1 c2) d else d) d) d

def nestF (allC : List Cand) (F : PSem) : PSem :=
  allC.foldl (fun F c1 => allC.foldl (fun F c2 => if c1 ≠ c2 then allC.foldl (stepF c1 c2) F else F) F) F

theorem gp_dget (d : PairCounts) : gp (score_dget d) = getPair d := by
  funext a b; unfold gp; rw [getPair_eq]

theorem dget_step (c1 c2 : Cand) (d : PairCounts) (ca : Cand) :
    score_dget (step c1 c2 d ca) = stepF c1 c2 (score_dget d) ca := by
  unfold step stepF
  rw [gp_dget]
  split
  · funext k
    simp only
    rw [dget_setPair, Function.update_apply]
  · rfl

theorem dget_nest (allC : List Cand) (d : PairCounts) : score_dget (nest allC d) = nestF allC (score_dget d) := by
  unfold nest nestF
  apply foldl_sem
  intro d c1
  apply foldl_sem
  intro d c2
  split
  · exact foldl_sem _ _ _ (dget_step c1 c2) _ d
  · rfl

theorem nodup_step (c1 c2 : Cand) (d : PairCounts) (ca : Cand) (h : (pkeysS d).Nodup) : (pkeysS (step c1 c2 d ca)).Nodup := by
  unfold step
  split
  · exact nodup_setPair h _ _ _
  · exact h

theorem nodup_nest (allC : List Cand) (d : PairCounts) (h : (pkeysS d).Nodup) : (pkeysS (nest allC d)).Nodup := by
  unfold nest
  apply foldl_inv (fun d => (pkeysS d).Nodup) _ _ _ _ h
  intro d c1 hd
  apply foldl_inv (fun d => (pkeysS d).Nodup) _ _ _ _ hd
  intro d c2 hd
  split
  · exact foldl_inv (fun d => (pkeysS d).Nodup) _ (fun d ca hd => nodup_step c1 c2 d ca hd) _ _ hd
  · exact hd

/-! ### the initial table (`paths` before the loops, condorcet.py L296-299) -/

def paths0 (counts : PairCounts) : PairCounts :=
  counts.foldl (fun d p => if getPair counts p.1.2 p.1.1 < p.2 then setPair d p.1.1 p.1.2 p.2 else d) []

/-- the initial table on maps: the entries that are pairwise wins -/
def paths0F (F : PSem) : PSem := fun k =>
  match F k with
  | some v => if gp F k.2 k.1 < v then some v else none
  | none => none

theorem dget_winFold (win : (Cand × Cand) → Int → Prop) [∀ k v, Decidable (win k v)] (l : PairCounts) :
    (pkeysS l).Nodup → ∀ (d0 : PairCounts) (k : Cand × Cand),
    score_dget (l.foldl (fun d p => if win p.1 p.2 then setPair d p.1.1 p.1.2 p.2 else d) d0) k =
      match score_dget l k with
      | some v => if win k v then some v else score_dget d0 k
      | none => score_dget d0 k := by
  induction l with
  | nil => intro _ d0 k; rfl
  | cons p ps ih =>
    intro hnd d0 k
    have hp : p.1 ∉ pkeysS ps ∧ (pkeysS ps).Nodup := List.nodup_cons.mp hnd
    rw [List.foldl_cons, ih hp.2, score_dget_cons]
    by_cases hk : p.1 = k
    · have hnone : score_dget ps k = none := score_dget_eq_none.mpr (by rw [← hk]; exact hp.1)
      rw [hnone, if_pos hk]
      simp only
      subst hk
      split
      · rw [dget_setPair, if_pos rfl]
      · rfl
    · rw [if_neg hk]
      have hstep : score_dget (if win p.1 p.2 then setPair d0 p.1.1 p.1.2 p.2 else d0) k = score_dget d0 k := by
        split
        · rw [dget_setPair, if_neg (fun e => hk e.symm)]
        · rfl
      rw [hstep]

theorem dget_paths0 {counts : PairCounts} (h : (pkeysS counts).Nodup) : score_dget (paths0 counts) = paths0F (score_dget counts) := by
  funext k
  unfold paths0 paths0F
  rw [dget_winFold (fun q v => getPair counts q.2 q.1 < v) counts h [] k, gp_dget]
  cases score_dget counts k with
  | none => rfl
  | some v => rfl

theorem nodup_paths0 (counts : PairCounts) : (pkeysS (paths0 counts)).Nodup := by
  unfold paths0
  apply foldl_inv (fun d => (pkeysS d).Nodup) _ _ _ _ (by simp [pkeysS])
  intro d p hd
  split
  · exact nodup_setPair hd _ _ _
  · exact hd

def allCof (counts : PairCounts) : List Cand := sortDedup (counts.flatMap (fun p => [p.1.1, p.1.2]))

theorem widestPaths_eq (counts : PairCounts) : widestPaths counts = (nest (allCof counts) (paths0 counts), allCof counts) := rfl

theorem allCof_perm {d₁ d₂ : PairCounts} (h : d₁.Perm d₂) : allCof d₁ = allCof d₂ :=
  sortDedup_congr (fun _ => (h.flatMap_right _).mem_iff)

/-- **the strength table of `widest_paths` does not depend on the insertion order**: the same map, hence the same items -/
theorem widestPaths_perm {d₁ d₂ : PairCounts} (h : d₁.Perm d₂) (hnd : (pkeysS d₁).Nodup) :
    score_dget (widestPaths d₁).1 = score_dget (widestPaths d₂).1 ∧ ((widestPaths d₁).1).Perm (widestPaths d₂).1 := by
  have hnd2 : (pkeysS d₂).Nodup := (h.map _).nodup_iff.mp hnd
  have hF : score_dget d₁ = score_dget d₂ := funext (fun k => score_dget_perm h hnd k)
  have e : score_dget (widestPaths d₁).1 = score_dget (widestPaths d₂).1 := by
    rw [widestPaths_eq, widestPaths_eq]
    simp only
    rw [dget_nest, dget_nest, dget_paths0 hnd, dget_paths0 hnd2, hF, allCof_perm h]
  refine ⟨e, perm_of_score_dget_eq ?_ ?_ (fun k => congrFun e k)⟩
  · rw [widestPaths_eq]; exact nodup_nest _ _ (nodup_paths0 _)
  · rw [widestPaths_eq]; exact nodup_nest _ _ (nodup_paths0 _)

/-! ### the path-win scores -/

/-- the increments of the two loops of `Schulze.evaluate` L281-288 -/
def seedIncs (counts : PairCounts) : List (Cand × Rat) := counts.flatMap (fun p => [(p.1.1, 0), (p.1.2, 0)])

def winIncs (G : Cand → Cand → Int) (paths : PairCounts) : List (Cand × Rat) :=
  paths.flatMap (fun p => if G p.1.2 p.1.1 < p.2 then [(p.1.1, 1), (p.1.2, 0)] else [])

theorem schulzeScores_eq (counts : PairCounts) :
    schulzeScores counts =
      accum [] (seedIncs counts ++ winIncs (getPair (widestPaths counts).1) (widestPaths counts).1) := by
  unfold schulzeScores accum seedIncs winIncs
  simp only
  rw [List.foldl_append, List.foldl_flatMap, List.foldl_flatMap]
  congr 1
  funext d p
  split <;> rfl

theorem accum_perm {l₁ l₂ : List (Cand × Rat)} (h : l₁.Perm l₂) : (accum [] l₁).Perm (accum [] l₂) := by
  apply votes_perm_of_getD (nodup_keys_accum _ _ (by simp [keys])) (nodup_keys_accum _ _ (by simp [keys]))
  · apply (List.perm_ext_iff_of_nodup (nodup_keys_accum _ _ (by simp [keys])) (nodup_keys_accum _ _ (by simp [keys]))).mpr
    intro c
    rw [mem_keys_accum, mem_keys_accum]
    constructor
    · rintro (hc | ⟨p, hp, hpc⟩)
      · exact Or.inl hc
      · exact Or.inr ⟨p, h.mem_iff.mp hp, hpc⟩
    · rintro (hc | ⟨p, hp, hpc⟩)
      · exact Or.inl hc
      · exact Or.inr ⟨p, h.mem_iff.mpr hp, hpc⟩
  · intro c
    rw [getD_accum, getD_accum, ((h.filter _).map _).sum_eq]

theorem schulzeScores_perm {d₁ d₂ : PairCounts} (h : d₁.Perm d₂) (hnd : (pkeysS d₁).Nodup) :
    (schulzeScores d₁).Perm (schulzeScores d₂) := by
  obtain ⟨hmap, hperm⟩ := widestPaths_perm h hnd
  have hG : getPair (widestPaths d₁).1 = getPair (widestPaths d₂).1 := by
    rw [← gp_dget, ← gp_dget, hmap]
  rw [schulzeScores_eq, schulzeScores_eq, hG]
  apply accum_perm
  exact (h.flatMap_right _).append (hperm.flatMap_right _)

end VL.Perm.Star

namespace VL.Perm
open VL VL.Score VL.C10

/-- **Score-side Schulze (the STAR run-off evaluator): independence of the insertion order of the pairwise dict.**
    Only hypothesis: distinct keys (true of every dict). -/
theorem star_schulze_perm {d₁ d₂ : PairCounts} (h : d₁.Perm d₂) (hnd : (d₁.map (·.1)).Nodup) (n : Nat) :
    SlotsEquiv (Score.schulze d₁ n) (Score.schulze d₂ n) := by
  unfold Score.schulze
  exact getNBest_perm _ _ (Star.schulzeScores_perm h hnd) n

example : ([((0, 1), (3 : Int)), ((1, 0), 2), ((1, 2), 4), ((2, 1), 1), ((0, 2), 1), ((2, 0), 5)] : PairCounts).Perm
      [((2, 0), 5), ((1, 2), 4), ((0, 1), 3), ((2, 1), 1), ((0, 2), 1), ((1, 0), 2)] ∧
    (([((0, 1), (3 : Int)), ((1, 0), 2), ((1, 2), 4), ((2, 1), 1), ((0, 2), 1), ((2, 0), 5)] : PairCounts).map (·.1)).Nodup := by
  decide +kernel

end VL.Perm
