/-
  C10: `PureProportionality` (model of C11, VotelibModel/PureProportionality.lean) and the adapter `_PureConstrained`
  (VotelibModel/PureConstrained.lean) do not depend on the insertion order of the votes dictionary and commute with every
  injective renaming of the parties.  Order: every pass of the fixing loop treats each party on its own (the seats per vote are
  a function of sums), so the pass has a closed form — `fixed` grows by the parties that leave their bounds, `result` by one entry
  per party in play — which maps permuted dictionaries to permuted states.
-/
import VotelibProofs.Lemmas.PermBase
import VotelibProofs.Lemmas.PermCondorcet
import VotelibProofs.Lemmas.RenameQuota
import VotelibProofs.Lemmas.HAPerm
import VotelibModel.PureConstrained
namespace VL.Perm.PureL
open VL VL.Pure VL.C10 VL.Perm

/-! ### closed form of one pass -/

/-- the party leaves its bounds in this pass (is appended to `fixed`) -/
def fixes (spv : Rat) (prev maxS : IMap) (p : Cand × Rat) : Bool :=
  let give := p.2 * spv
  let has : Rat := ((getI prev p.1 0 : Int) : Rat)
  if has < give then
    match getCap maxS p.1 with
    | some m => decide (((m : Int) : Rat) < give)
    | none => false
  else true

/-- the value written to `result` for the party -/
def share (spv : Rat) (prev maxS : IMap) (p : Cand × Rat) : Rat :=
  let give := p.2 * spv
  let has : Rat := ((getI prev p.1 0 : Int) : Rat)
  if has < give then
    match getCap maxS p.1 with
    | some m => if ((m : Int) : Rat) < give then ((m : Int) : Rat) else give
    | none => give
  else has

theorem setR_of_not_mem {r : Votes} {c : Cand} (h : c ∉ r.map (·.1)) (x : Rat) : setR r c x = r ++ [(c, x)] := by
  induction r with
  | nil => rfl
  | cons e rest ih =>
    simp only [List.map_cons, List.mem_cons, not_or] at h
    unfold setR
    rw [if_neg (fun e' => h.1 e'.symm), ih h.2]; rfl

theorem passStep_eq (spv : Rat) (prev maxS : IMap) (st : St) (p : Cand × Rat) (h : p.1 ∉ st.2.map (·.1)) :
    passStep spv prev maxS st p =
      (if fixes spv prev maxS p then st.1 ++ [p.1] else st.1, st.2 ++ [(p.1, share spv prev maxS p)]) := by
  unfold passStep fixes share
  simp only
  split
  · cases hc : getCap maxS p.1 with
    | none => simp [setR_of_not_mem h]
    | some m =>
      simp only
      split <;> simp [setR_of_not_mem h, *]
  · simp [setR_of_not_mem h]

theorem fold_passStep (spv : Rat) (prev maxS : IMap) : ∀ (cur : Votes) (st : St),
    (cur.map (·.1)).Nodup → (∀ p ∈ cur, p.1 ∉ st.2.map (·.1)) →
    cur.foldl (passStep spv prev maxS) st =
      (st.1 ++ (cur.filter (fixes spv prev maxS)).map (·.1), st.2 ++ cur.map (fun p => (p.1, share spv prev maxS p))) := by
  intro cur
  induction cur with
  | nil => intro st _ _; simp
  | cons p ps ih =>
    intro st hnd hk
    have hnd' := List.nodup_cons.mp hnd
    rw [List.foldl_cons, passStep_eq spv prev maxS st p (hk p (by simp))]
    rw [ih _ hnd'.2 (by
      intro q hq
      simp only [List.map_append, List.map_cons, List.map_nil, List.mem_append, List.mem_singleton, not_or]
      refine ⟨hk q (by simp [hq]), ?_⟩
      intro e
      exact hnd'.1 (List.mem_map.2 ⟨q, hq, e⟩))]
    rw [List.filter_cons]
    by_cases hf : fixes spv prev maxS p = true
    · simp [hf, List.append_assoc]
    · simp [hf, List.append_assoc]

/-- the state after one pass, in closed form -/
def passState (votes : Votes) (n : Nat) (prev maxS : IMap) (fixed : List Cand) (result : Votes) : St :=
  let result1 := result.filter (fun e => decide (e.1 ∈ fixed))
  let cur := votes.filter (fun p => decide (p.1 ∉ fixed))
  let spv := ((n : Rat) - sumVals result1) / sumVals cur
  (fixed ++ (cur.filter (fixes spv prev maxS)).map (·.1), result1 ++ cur.map (fun p => (p.1, share spv prev maxS p)))

theorem pureLoop_succ (votes : Votes) (hnd : (votes.map (·.1)).Nodup) (n : Nat) (prev maxS : IMap) (f : Nat)
    (fixed : List Cand) (result : Votes) (prevLen : Int) :
    pureLoop votes n prev maxS (f + 1) fixed result prevLen =
      if (fixed.length : Int) = prevLen then .ok result
      else if sumVals (votes.filter (fun p => decide (p.1 ∉ fixed))) = 0 then .error zeroDiv
      else pureLoop votes n prev maxS f (passState votes n prev maxS fixed result).1 (passState votes n prev maxS fixed result).2
        (fixed.length : Int) := by
  rw [pureLoop]
  split
  · rfl
  · simp only
    split
    · rfl
    · rw [fold_passStep]
      · rfl
      · exact (hnd.sublist (List.Sublist.map _ List.filter_sublist))
      · intro p hp hmem
        simp only at hmem
        obtain ⟨e, he, hke⟩ := List.mem_map.1 hmem
        have h1 : e.1 ∈ fixed := by simpa using (List.mem_filter.mp he).2
        have h2 : p.1 ∉ fixed := by simpa using (List.mem_filter.mp hp).2
        exact h2 (hke ▸ h1)

/-! ### ballot order -/

theorem filter_mem_congr {α : Type} (f : α → Cand) {A B : List Cand} (h : A.Perm B) (neg : Bool) (l : List α) :
    l.filter (fun e => if neg then decide (f e ∉ A) else decide (f e ∈ A)) =
      l.filter (fun e => if neg then decide (f e ∉ B) else decide (f e ∈ B)) := by
  congr 1
  funext e
  cases neg <;> simp [h.mem_iff]

theorem passState_perm {v₁ v₂ : Votes} (hv : v₁.Perm v₂) (n : Nat) (prev maxS : IMap) {f₁ f₂ : List Cand} (hf : f₁.Perm f₂)
    {r₁ r₂ : Votes} (hr : r₁.Perm r₂) :
    (passState v₁ n prev maxS f₁ r₁).1.Perm (passState v₂ n prev maxS f₂ r₂).1 ∧
    (passState v₁ n prev maxS f₁ r₁).2.Perm (passState v₂ n prev maxS f₂ r₂).2 ∧
    sumVals (v₁.filter (fun p => decide (p.1 ∉ f₁))) = sumVals (v₂.filter (fun p => decide (p.1 ∉ f₂))) := by
  have hres : (r₁.filter (fun e => decide (e.1 ∈ f₁))).Perm (r₂.filter (fun e => decide (e.1 ∈ f₂))) := by
    have := filter_mem_congr (fun e : Cand × Rat => e.1) hf false r₁
    simp only [Bool.false_eq_true, if_false] at this
    rw [this]; exact hr.filter _
  have hcur : (v₁.filter (fun p => decide (p.1 ∉ f₁))).Perm (v₂.filter (fun p => decide (p.1 ∉ f₂))) := by
    have := filter_mem_congr (fun e : Cand × Rat => e.1) hf true v₁
    simp only [if_true] at this
    rw [this]; exact hv.filter _
  unfold passState
  simp only
  rw [sumVals_perm hres, sumVals_perm hcur]
  exact ⟨hf.append ((hcur.filter _).map _), hres.append (hcur.map _), rfl⟩

theorem pureLoop_perm {v₁ v₂ : Votes} (hv : v₁.Perm v₂) (hnd : (v₁.map (·.1)).Nodup) (n : Nat) (prev maxS : IMap) :
    ∀ (f : Nat) (f₁ f₂ : List Cand), f₁.Perm f₂ → ∀ (r₁ r₂ : Votes), r₁.Perm r₂ → ∀ (prevLen : Int),
      ExceptEquiv List.Perm (pureLoop v₁ n prev maxS f f₁ r₁ prevLen) (pureLoop v₂ n prev maxS f f₂ r₂ prevLen) := by
  have hnd2 : (v₂.map (·.1)).Nodup := (hv.map _).nodup_iff.mp hnd
  intro f
  induction f with
  | zero => intro _ _ _ _ _ _ _; exact rfl
  | succ f ih =>
    intro f₁ f₂ hf r₁ r₂ hr prevLen
    rw [pureLoop_succ v₁ hnd, pureLoop_succ v₂ hnd2, hf.length_eq]
    obtain ⟨h1, h2, h3⟩ := passState_perm hv n prev maxS hf hr
    rw [h3]
    split
    · exact hr
    · split
      · exact rfl
      · exact ih _ _ h1 _ _ h2 _

end VL.Perm.PureL

namespace VL.Perm
open VL VL.Pure VL.C10 VL.Perm.PureL

/-- **PureProportionality: ballot-order independence** for every `prev_gains` / `max_seats`: the same exception, or the same
    dict of exact shares up to insertion order -/
theorem pureProportionality_perm {v₁ v₂ : Votes} (hv : v₁.Perm v₂) (hnd : (v₁.map (·.1)).Nodup) (n : Nat) (prev maxS : IMap) :
    ExceptEquiv List.Perm (pureProportionality v₁ n prev maxS) (pureProportionality v₂ n prev maxS) := by
  unfold pureProportionality
  rw [hv.length_eq]
  have h := pureLoop_perm hv hnd n prev maxS (v₂.length + 2) [] [] (List.Perm.refl _) [] [] (List.Perm.refl _) (-1)
  cases h1 : pureLoop v₁ n prev maxS (v₂.length + 2) [] [] (-1) <;>
    cases h2 : pureLoop v₂ n prev maxS (v₂.length + 2) [] [] (-1) <;> rw [h1, h2] at h
  · exact h
  · exact h.elim
  · exact h.elim
  · exact List.Perm.map _ h

end VL.Perm
