/-
  C10, family 2: `QuotaDistributor` and `LargestRemainder` (model VotelibModel/QuotaDist.lean, owned by C02) do not depend
  on the insertion order of the votes dictionary.  A non-positive quota is refused before anything is computed; whole quotas are per party; the remainder seats are `getNBest` over the
  remainders, so the statement follows from `getNBest_perm`.  Results are compared as maps key -> seats (`look`); a `Tie`
  key is a set (the model keeps its members sorted).
-/
import VotelibProofs.Lemmas.PermBase
import VotelibProofs.Lemmas.QuotaDist
namespace VL.Perm
open VL VL.QD VL.C10

/-! ### lookups in insertion-ordered dicts with distinct keys -/

theorem find?_perm_of_nodup_keys {α κ : Type} [DecidableEq κ] (f : α → κ) {l₁ l₂ : List α} (h : l₁.Perm l₂)
    (hn : (l₁.map f).Nodup) (k : κ) :
    l₁.find? (fun p => f p = k) = l₂.find? (fun p => f p = k) := by
  induction h with
  | nil => rfl
  | cons x _ ih =>
    have hn' : (List.map f _).Nodup := (List.nodup_cons.mp (by simpa using hn)).2
    simp only [List.find?_cons]
    split
    · rfl
    · exact ih hn'
  | swap x y l =>
    simp only [List.map_cons, List.nodup_cons, List.mem_cons, not_or] at hn
    simp only [List.find?_cons]
    by_cases hx : f x = k <;> by_cases hy : f y = k
    · exact absurd (hy.trans hx.symm) hn.1.1
    · simp [hx, hy]
    · simp [hx, hy]
    · simp [hx, hy]
  | trans h₁ _ ih₁ ih₂ =>
    rw [ih₁ hn, ih₂ ((h₁.map f).nodup_iff.mp hn)]

/-- `d.get(k)` as an option -/
def look (s : Sel) (k : Key) : Option Int := (s.find? (fun p => p.1 = k)).map (·.2)

theorem look_nil (k : Key) : look [] k = none := rfl

theorem look_cons (p : Key × Int) (s : Sel) (k : Key) : look (p :: s) k = if p.1 = k then some p.2 else look s k := by
  unfold look
  rw [List.find?_cons]
  by_cases h : p.1 = k <;> simp [h]

theorem getK_eq_look (s : Sel) (k : Key) (d : Int) : getK s k d = (look s k).getD d := by
  unfold getK look
  cases s.find? (fun p => p.1 = k) <;> rfl

theorem hasK_eq_look (s : Sel) (k : Key) : hasK s k = (look s k).isSome := by
  induction s with
  | nil => rfl
  | cons p ps ih =>
    rw [hasK_cons, look_cons, ih]
    by_cases h : p.1 = k <;> simp [h]

theorem look_setK (s : Sel) (k : Key) (v : Int) (k' : Key) :
    look (setK s k v) k' = if k' = k then some v else look s k' := by
  induction s with
  | nil =>
    simp only [setK, look_cons, look_nil]
    by_cases h : k' = k
    · rw [if_pos h.symm, if_pos h]
    · rw [if_neg (fun e => h e.symm), if_neg h]
  | cons p ps ih =>
    unfold setK
    by_cases hp : p.1 = k
    · rw [if_pos hp, look_cons, look_cons]
      simp only
      by_cases h : k' = k
      · rw [if_pos h.symm, if_pos h]
      · rw [if_neg (fun e => h e.symm), if_neg h, if_neg (fun e => h (e.symm.trans hp))]
    · rw [if_neg hp, look_cons, look_cons, ih]
      by_cases h : p.1 = k'
      · rw [if_pos h, if_pos h, if_neg (fun e => hp (h.trans e))]
      · rw [if_neg h, if_neg h]

theorem look_incK (s : Sel) (k k' : Key) :
    look (incK s k) k' = if k' = k then some ((look s k).getD 0 + 1) else look s k' := by
  unfold incK
  rw [hasK_eq_look]
  cases hl : look s k with
  | none => simp [look_setK]
  | some v => simp [look_setK, getK_eq_look, hl]

theorem look_foldl_incK (ks : List Key) (k : Key) : ∀ s : Sel,
    look (ks.foldl incK s) k = if ks.count k = 0 then look s k else some ((look s k).getD 0 + (ks.count k : Int)) := by
  induction ks with
  | nil => intro s; simp
  | cons x xs ih =>
    intro s
    rw [List.foldl_cons, ih, look_incK]
    by_cases hx : x = k
    · subst hx
      rw [if_pos rfl, List.count_cons_self]
      by_cases h0 : xs.count x = 0
      · simp [h0]
      · simp only [h0, if_false, Option.getD_some, Nat.add_eq_zero_iff, one_ne_zero, and_false]
        congr 1; push_cast; ring
    · have hx' : ¬ k = x := fun e => hx e.symm
      rw [if_neg hx', List.count_cons_of_ne hx]

theorem look_perm {s₁ s₂ : Sel} (h : s₁.Perm s₂) (hn : KNodup s₁) (k : Key) : look s₁ k = look s₂ k := by
  unfold look
  rw [find?_perm_of_nodup_keys (fun p : Key × Int => p.1) h hn k]

theorem sumK_perm {s₁ s₂ : Sel} (h : s₁.Perm s₂) : sumK s₁ = sumK s₂ := by
  rw [sumK_eq, sumK_eq]; exact (h.map _).sum_eq

/-! ### canonical Tie keys -/

theorem insNat_perm (x : Nat) (l : List Nat) : (insNat x l).Perm (x :: l) := by
  induction l with
  | nil => exact List.Perm.refl _
  | cons y ys ih =>
    unfold insNat
    split
    · exact List.Perm.refl _
    · exact (List.Perm.cons y ih).trans (List.Perm.swap x y ys)

theorem sortNat_perm_self (l : List Nat) : (sortNat l).Perm l := by
  induction l with
  | nil => exact List.Perm.refl _
  | cons x xs ih => exact (insNat_perm x _).trans (List.Perm.cons x ih)

theorem insNat_sorted (x : Nat) (l : List Nat) (h : l.Pairwise (· ≤ ·)) : (insNat x l).Pairwise (· ≤ ·) := by
  induction l with
  | nil => simp [insNat]
  | cons y ys ih =>
    have hy := List.pairwise_cons.mp h
    unfold insNat
    split
    · rename_i hle
      refine List.pairwise_cons.mpr ⟨?_, h⟩
      intro z hz
      rcases List.mem_cons.mp hz with rfl | hz'
      · exact hle
      · exact le_trans hle (hy.1 z hz')
    · rename_i hnle
      refine List.pairwise_cons.mpr ⟨?_, ih hy.2⟩
      intro z hz
      rcases List.mem_cons.mp ((insNat_perm x ys).mem_iff.mp hz) with rfl | hz'
      · omega
      · exact hy.1 z hz'

theorem sortNat_sorted (l : List Nat) : (sortNat l).Pairwise (· ≤ ·) := by
  induction l with
  | nil => simp [sortNat]
  | cons x xs ih => exact insNat_sorted x _ ih

/-- a `Tie` is a set: its key does not depend on the order of the members -/
theorem sortNat_eq_of_perm {l₁ l₂ : List Nat} (h : l₁.Perm l₂) : sortNat l₁ = sortNat l₂ :=
  List.Perm.eq_of_pairwise' (r := (· ≤ ·)) (sortNat_sorted l₁) (sortNat_sorted l₂)
    (((sortNat_perm_self l₁).trans h).trans (sortNat_perm_self l₂).symm)

theorem mkTie_perm {T₁ T₂ : List Cand} (h : T₁.Perm T₂) : mkTie T₁ = mkTie T₂ := by
  unfold mkTie; rw [sortNat_eq_of_perm h]

/-- equivalent selections hand the same keys to the seat counter, up to order -/
theorem slotKeys_perm {r₁ r₂ : List Slot} (h : SlotsEquiv r₁ r₂) : (r₁.map slotKey).Perm (r₂.map slotKey) := by
  obtain ⟨e₁, e₂, T₁, T₂, m, h1, h2, he, hT⟩ := h
  subst h1 h2
  simp only [List.map_append, List.map_map, List.map_replicate, slotKey, mkTie_perm hT]
  exact (he.map _).append_right _

/-! ### the whole-quota loop -/

theorem wholeLoop_zero (ae : Bool) (prev maxS : IMap) (votes : Votes) : ∀ sel : Sel,
    wholeLoop 0 ae prev maxS sel votes =
      if votes.any (fun p => fulfills 0 ae p.2) then .error zeroDiv else .ok sel := by
  induction votes with
  | nil => intro sel; rfl
  | cons p ps ih =>
    intro sel
    unfold wholeLoop wholeStep
    simp only [List.any_cons]
    by_cases hf : fulfills 0 ae p.2 = true
    · simp [hf]
    · simp only [hf, Bool.false_eq_true, if_false, Bool.false_or]
      exact ih sel

/-- the dict the whole-quota loop builds (when it does not divide by zero) -/
def qdSel (cfg : Cfg) (votes : Votes) (n : Nat) (prev maxS : IMap) : Sel :=
  if cfg.quota (sumVals votes) n = 0 then []
  else votes.filterMap (awardOf (cfg.quota (sumVals votes) n) cfg.acceptEqual prev maxS)

/-- a non-positive quota is refused before the loop (repair eca6e34) -/
def qdRefused (cfg : Cfg) (votes : Votes) (n : Nat) : Bool := decide (cfg.quota (sumVals votes) n ≤ 0)

theorem quotaDistribute_form (cfg : Cfg) (votes : Votes) (n : Nat) (prev maxS : IMap) (hnd : (votes.map (·.1)).Nodup) :
    quotaDistribute cfg votes n prev maxS =
      if qdRefused cfg votes n then .error .votingSystemError
      else applyPolicy cfg votes n prev (qdSel cfg votes n prev maxS) := by
  unfold qdRefused qdSel
  by_cases hq : cfg.quota (sumVals votes) n ≤ 0
  · rw [quotaDistribute_nonpos cfg votes n prev maxS hq]
    simp [hq]
  · have hpos : 0 < cfg.quota (sumVals votes) n := not_le.mp hq
    rw [quotaDistribute_eq cfg votes n prev maxS hpos hnd]
    simp [hq, ne_of_gt hpos]

theorem keys_filterMap_awardOf (q : Rat) (ae : Bool) (prev maxS : IMap) (votes : Votes) :
    List.Sublist ((votes.filterMap (awardOf q ae prev maxS)).map (·.1)) (votes.map (fun p => Key.cand p.1)) := by
  induction votes with
  | nil => exact List.Sublist.refl _
  | cons p ps ih =>
    rw [List.filterMap_cons]
    cases ha : awardOf q ae prev maxS p with
    | none => exact ih.cons _
    | some e =>
      have : e.1 = Key.cand p.1 := by
        unfold awardOf at ha
        split at ha
        · injection ha with ha; rw [← ha]
        · cases ha
      simp only [List.map_cons, this]
      exact ih.cons_cons _

theorem KNodup_qdSel (cfg : Cfg) (votes : Votes) (n : Nat) (prev maxS : IMap) (hnd : (votes.map (·.1)).Nodup) :
    KNodup (qdSel cfg votes n prev maxS) := by
  unfold qdSel KNodup
  split
  · exact List.nodup_nil
  · refine (keys_filterMap_awardOf _ _ _ _ _).nodup ?_
    have : votes.map (fun p => Key.cand p.1) = (votes.map (·.1)).map Key.cand := by rw [List.map_map]; rfl
    rw [this]
    exact hnd.map (fun a b h => by injection h)

theorem qdSel_perm (cfg : Cfg) {v₁ v₂ : Votes} (h : v₁.Perm v₂) (n : Nat) (prev maxS : IMap) :
    (qdSel cfg v₁ n prev maxS).Perm (qdSel cfg v₂ n prev maxS) := by
  unfold qdSel
  rw [sumVals_perm h]
  split
  · exact List.Perm.refl _
  · exact h.filterMap _

theorem qdRefused_perm (cfg : Cfg) {v₁ v₂ : Votes} (h : v₁.Perm v₂) (n : Nat) : qdRefused cfg v₁ n = qdRefused cfg v₂ n := by
  unfold qdRefused
  rw [sumVals_perm h]

/-- policies `error` and `ignore` only look at the total -/
theorem applyPolicy_perm (cfg : Cfg) (hpol : cfg.onOver ≠ .subtract) (v₁ v₂ : Votes) (n : Nat) (prev : IMap)
    {s₁ s₂ : Sel} (hs : s₁.Perm s₂) :
    ExceptEquiv List.Perm (applyPolicy cfg v₁ n prev s₁) (applyPolicy cfg v₂ n prev s₂) := by
  unfold applyPolicy
  simp only
  rw [sumK_perm hs]
  split
  · cases hp : cfg.onOver with
    | ignore => exact hs
    | error => exact rfl
    | subtract => exact absurd hp hpol
  · exact hs

/-- **QuotaDistributor: ballot-order independence** (policies `error` and `ignore`): the same dict up to insertion
    order, or the same exception -/
theorem quotaDistribute_perm (cfg : Cfg) (hpol : cfg.onOver ≠ .subtract) {v₁ v₂ : Votes} (h : v₁.Perm v₂)
    (hnd : (v₁.map (·.1)).Nodup) (n : Nat) (prev maxS : IMap) :
    ExceptEquiv List.Perm (quotaDistribute cfg v₁ n prev maxS) (quotaDistribute cfg v₂ n prev maxS) := by
  have hnd2 : (v₂.map (·.1)).Nodup := (h.map _).nodup_iff.mp hnd
  rw [quotaDistribute_form cfg v₁ n prev maxS hnd, quotaDistribute_form cfg v₂ n prev maxS hnd2, qdRefused_perm cfg h]
  split
  · exact rfl
  · exact applyPolicy_perm cfg hpol v₁ v₂ n prev (qdSel_perm cfg h n prev maxS)

/-- what a successful run returns, and that its keys are distinct -/
theorem quotaDistribute_ok (cfg : Cfg) (hpol : cfg.onOver ≠ .subtract) (votes : Votes) (hnd : (votes.map (·.1)).Nodup)
    (n : Nat) (prev maxS : IMap) (r : Sel) (hr : quotaDistribute cfg votes n prev maxS = .ok r) :
    r = qdSel cfg votes n prev maxS := by
  rw [quotaDistribute_form cfg votes n prev maxS hnd] at hr
  split at hr
  · cases hr
  · unfold applyPolicy at hr
    simp only at hr
    split at hr
    · cases hp : cfg.onOver with
      | ignore => rw [hp] at hr; injection hr with hr; exact hr.symm
      | error => rw [hp] at hr; cases hr
      | subtract => exact absurd hp hpol
    · injection hr with hr; exact hr.symm

/-! ### the remainder stage -/

theorem lrRemainders_congr (votes : Votes) (q : Rat) (g₁ g₂ : Sel) (maxS : IMap)
    (hg : ∀ c, getK g₁ (.cand c) 0 = getK g₂ (.cand c) 0) :
    lrRemainders votes q g₁ maxS = lrRemainders votes q g₂ maxS := by
  unfold lrRemainders
  apply List.filterMap_congr
  intro p _
  simp only [hg]

theorem lrRemainders_perm {v₁ v₂ : Votes} (h : v₁.Perm v₂) (q : Rat) (g : Sel) (maxS : IMap) :
    (lrRemainders v₁ q g maxS).Perm (lrRemainders v₂ q g maxS) := by
  unfold lrRemainders
  exact h.filterMap _

/-- two distributions that are the same map key -> seats -/
def DistEquiv (r₁ r₂ : Sel) : Prop := ∀ k, look r₁ k = look r₂ k

/-- **LargestRemainder: ballot-order independence** (policies `error` and `ignore`): every party and every reported
    tie (as a set) holds the same number of seats, or both runs raise the same exception -/
theorem largestRemainder_perm (cfg : Cfg) (hpol : cfg.onOver ≠ .subtract) {v₁ v₂ : Votes} (h : v₁.Perm v₂)
    (hnd : (v₁.map (·.1)).Nodup) (n : Nat) (prev maxS : IMap) (hprev : (prev.map (·.1)).Nodup) :
    ExceptEquiv DistEquiv (largestRemainder cfg v₁ n prev maxS) (largestRemainder cfg v₂ n prev maxS) := by
  have hnd2 : (v₂.map (·.1)).Nodup := (h.map _).nodup_iff.mp hnd
  have hqd := quotaDistribute_perm cfg hpol h hnd n prev maxS
  unfold largestRemainder
  cases h1 : quotaDistribute cfg v₁ n prev maxS with
  | error e₁ =>
    cases h2 : quotaDistribute cfg v₂ n prev maxS with
    | error e₂ => rw [h1, h2] at hqd; exact hqd
    | ok _ => rw [h1, h2] at hqd; exact hqd.elim
  | ok qe₁ =>
    cases h2 : quotaDistribute cfg v₂ n prev maxS with
    | error e₂ => rw [h1, h2] at hqd; exact hqd.elim
    | ok qe₂ =>
      rw [h1, h2] at hqd
      have hperm : qe₁.Perm qe₂ := hqd
      have hk1 : KNodup qe₁ := by
        rw [quotaDistribute_ok cfg hpol v₁ hnd n prev maxS qe₁ h1]; exact KNodup_qdSel cfg v₁ n prev maxS hnd
      simp only
      rw [sumVals_perm h]
      -- the remainders
      have hg : ∀ c, getK (addDict qe₁ (prevAsSel prev)) (.cand c) 0 = getK (addDict qe₂ (prevAsSel prev)) (.cand c) 0 := by
        intro c
        rw [getK_addDict_prev prev hprev, getK_addDict_prev prev hprev, getK_eq_look, getK_eq_look, look_perm hperm hk1]
      have hrem : (lrRemainders v₁ (cfg.quota (sumVals v₂) n) (addDict qe₁ (prevAsSel prev)) maxS).Perm
          (lrRemainders v₂ (cfg.quota (sumVals v₂) n) (addDict qe₂ (prevAsSel prev)) maxS) := by
        rw [lrRemainders_congr v₁ _ _ _ maxS hg]
        exact lrRemainders_perm h _ _ _
      have hnil : (lrRemainders v₁ (cfg.quota (sumVals v₂) n) (addDict qe₁ (prevAsSel prev)) maxS ≠ []) ↔
          (lrRemainders v₂ (cfg.quota (sumVals v₂) n) (addDict qe₂ (prevAsSel prev)) maxS ≠ []) := by
        constructor
        · intro hne he; rw [he] at hrem; exact hne hrem.eq_nil
        · intro hne he; rw [he] at hrem; exact hne hrem.symm.eq_nil
      have hsum : sumK (addDict qe₁ (prevAsSel prev)) = sumK (addDict qe₂ (prevAsSel prev)) := by
        rw [sumK_addDict, sumK_addDict, sumK_perm hperm]
      rw [hsum]
      by_cases hz : cfg.quota (sumVals v₂) n = 0 ∧
          lrRemainders v₁ (cfg.quota (sumVals v₂) n) (addDict qe₁ (prevAsSel prev)) maxS ≠ []
      · rw [if_pos hz, if_pos ⟨hz.1, hnil.mp hz.2⟩]; exact rfl
      · rw [if_neg hz, if_neg (fun hh => hz ⟨hh.1, hnil.mpr hh.2⟩)]
        intro k
        have hbest := getNBest_perm _ _ hrem ((n : Int) - sumK (addDict qe₂ (prevAsSel prev))).toNat
        have hfold : ∀ (l : List Slot) (s : Sel),
            l.foldl (fun acc x => incK acc (slotKey x)) s = (l.map slotKey).foldl incK s := by
          intro l s; rw [List.foldl_map]
        rw [hfold, hfold, look_foldl_incK, look_foldl_incK, (slotKeys_perm hbest).count_eq, look_perm hperm hk1]

end VL.Perm
