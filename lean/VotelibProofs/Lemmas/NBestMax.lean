/-
  `get_n_best` facts used by the Condorcet evaluators: a unique maximum takes the single seat; with at
  least as many seats as candidates everybody is listed.
-/
import VotelibProofs.Lemmas.NBest
namespace VL

theorem insertDesc_of_lt (a : Cand × Rat) (c : Cand × Rat) (rest : Votes) (h : a.2 < c.2) :
    insertDesc a (c :: rest) = c :: insertDesc a rest := by
  simp [insertDesc, h]

/-- an entry strictly above all others sorts first -/
theorem sortDesc_max_first (l1 l2 : Votes) (c : Cand × Rat) (h : ∀ p ∈ l1 ++ l2, p.2 < c.2) :
    sortDesc (l1 ++ c :: l2) = c :: sortDesc (l1 ++ l2) := by
  induction l1 with
  | nil =>
    simp only [List.nil_append] at h ⊢
    show insertDesc c (sortDesc l2) = c :: sortDesc l2
    cases hs : sortDesc l2 with
    | nil => rfl
    | cons y ys =>
      have hy : y ∈ l2 := mem_sortDesc.1 (by rw [hs]; simp)
      have := h y hy
      simp [insertDesc, not_lt.2 (le_of_lt this)]
  | cons a l1 ih =>
    have ha : a.2 < c.2 := h a (by simp)
    have ih' := ih (fun p hp => h p (by simp only [List.cons_append, List.mem_cons]; exact Or.inr hp))
    show insertDesc a (sortDesc (l1 ++ c :: l2)) = c :: insertDesc a (sortDesc (l1 ++ l2))
    rw [ih', insertDesc_of_lt a c _ ha]

/-- **a unique maximum takes the single seat** -/
theorem getNBest_one_of_max (l1 l2 : Votes) (c : Cand) (x : Rat) (h : ∀ p ∈ l1 ++ l2, p.2 < x) :
    getNBest (l1 ++ (c, x) :: l2) 1 = [Slot.cand c] := by
  have hs := sortDesc_max_first l1 l2 (c, x) h
  unfold getNBest
  simp only [hs]
  cases hs' : sortDesc (l1 ++ l2) with
  | nil => simp
  | cons y ys =>
    have hy : y ∈ l1 ++ l2 := mem_sortDesc.1 (by rw [hs']; simp)
    have hlt := h y hy
    have hne : ¬ y.2 = x := ne_of_lt hlt
    simp [hne]

/-- the same for a dictionary with distinct keys -/
theorem getNBest_one_of_unique_max {votes : Votes} (hk : (keys votes).Nodup) {c : Cand} {x : Rat}
    (hc : (c, x) ∈ votes) (h : ∀ p ∈ votes, p.1 ≠ c → p.2 < x) : getNBest votes 1 = [Slot.cand c] := by
  obtain ⟨l1, l2, rfl⟩ := List.append_of_mem hc
  apply getNBest_one_of_max
  intro p hp
  apply h p
  · simp only [List.mem_append, List.mem_cons] at hp ⊢
    rcases hp with hp | hp
    · exact Or.inl hp
    · exact Or.inr (Or.inr hp)
  · intro hpc
    simp only [keys, List.map_append, List.map_cons] at hk
    rw [List.nodup_append] at hk
    rcases List.mem_append.1 hp with hp | hp
    · exact hk.2.2 p.1 (List.mem_map.2 ⟨p, hp, rfl⟩) c (by simp) hpc
    · have := (List.nodup_cons.1 hk.2.1).1
      exact this (List.mem_map.2 ⟨p, hp, hpc⟩)

/-- with at least as many seats as entries every key is listed (as a candidate, no tie) -/
theorem mem_getNBest_all {votes : Votes} {n : Nat} (h : votes.length ≤ n) {c : Cand} (hc : c ∈ keys votes) :
    Slot.cand c ∈ getNBest votes n := by
  rw [getNBest_all votes n h]
  obtain ⟨p, hp, rfl⟩ := List.mem_map.1 hc
  exact List.mem_map.2 ⟨p, mem_sortDesc.2 hp, rfl⟩

theorem getNBest_all_noTie {votes : Votes} {n : Nat} (h : votes.length ≤ n) :
    ∀ s ∈ getNBest votes n, ∃ c, s = Slot.cand c := by
  rw [getNBest_all votes n h]
  intro s hs
  obtain ⟨p, _, rfl⟩ := List.mem_map.1 hs
  exact ⟨p.1, rfl⟩

/-- the candidates a place names: itself, or the members of a tie -/
def slotMembers : Slot → List Cand
  | .cand c => [c]
  | .tie cs => cs

/-- **one seat goes to maximal entries only**: whoever is listed for a single seat — alone or in a
    reported tie — has a value no other entry exceeds -/
theorem getNBest_one_max (votes : Votes) :
    ∀ s ∈ getNBest votes 1, ∀ c ∈ slotMembers s, ∃ x, (c, x) ∈ votes ∧ ∀ p ∈ votes, p.2 ≤ x := by
  have hd := sortDesc_desc votes
  have hmem : ∀ p, p ∈ sortDesc votes ↔ p ∈ votes := fun p => mem_sortDesc
  unfold getNBest
  simp only
  cases hs : sortDesc votes with
  | nil => simp
  | cons a rest =>
    rw [hs] at hd hmem
    have hmax : ∀ p ∈ votes, p.2 ≤ a.2 := by
      intro p hp
      rcases List.mem_cons.1 ((hmem p).2 hp) with rfl | h
      · exact le_refl _
      · exact (List.pairwise_cons.1 hd).1 p h
    have ha : a ∈ votes := (hmem a).1 (by simp)
    cases rest with
    | nil =>
      simp only [List.length_cons, List.length_nil, Nat.zero_add, gt_iff_lt, Nat.lt_irrefl, if_false, List.map_cons,
        List.map_nil, List.mem_singleton]
      rintro s rfl c hc
      simp only [slotMembers, List.mem_singleton] at hc
      subst hc
      exact ⟨a.2, ha, hmax⟩
    | cons b rest' =>
      have hlen : (a :: b :: rest').length > 1 := by simp
      rw [if_pos hlen]
      simp only [Nat.sub_self, List.getElem?_cons_zero, List.getElem?_cons_succ]
      by_cases hba : b.2 = a.2
      · rw [if_pos hba]
        have htw : (List.takeWhile (fun p => decide (p.2 ≠ a.2)) (a :: b :: rest')).length = 0 := by
          simp [List.takeWhile]
        rw [htw]
        simp only [List.take_zero, List.map_nil, List.nil_append, Nat.sub_zero, List.replicate_one,
          List.mem_singleton]
        rintro s rfl c hc
        simp only [slotMembers, List.mem_map, List.mem_filter, decide_eq_true_eq] at hc
        obtain ⟨p, ⟨hp, hpv⟩, rfl⟩ := hc
        refine ⟨a.2, ?_, hmax⟩
        rw [← hpv]
        exact (hmem p).1 hp
      · rw [if_neg hba]
        simp only [List.take_succ_cons, List.take_zero, List.map_cons, List.map_nil, List.mem_singleton]
        rintro s rfl c hc
        simp only [slotMembers, List.mem_singleton] at hc
        subst hc
        exact ⟨a.2, ha, hmax⟩

end VL
