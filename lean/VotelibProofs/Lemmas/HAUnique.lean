/-
  Uniqueness of the divisor-method solution: with strictly decreasing quotient sequences and no reported tie, the
  allocation computed by the highest-averages loop is the ONLY allocation that respects the caps, hands out the
  open seats and leaves no unseated claim stronger than a seated one.
-/
import VotelibProofs.Lemmas.HAMono
namespace VL
open HACfg

/-- `a` (seats beyond previous gains) is a divisor-method solution of `cfg` -/
structure IsSolution (cfg : HACfg) (a : Cand → Nat) : Prop where
  only_elig : ∀ c, 0 < a c → Elig0 cfg c
  cap       : ∀ c, cfg.prevOf c + a c ≤ cfg.capOf c ∨ a c = 0
  total     : ((haCands cfg).map a).sum = openSeats cfg
  optimal   : ∀ c', Elig0 cfg c' → cfg.prevOf c' + a c' < cfg.capOf c' →
                ∀ c k, cfg.prevOf c ≤ k → k < cfg.prevOf c + a c → cfg.quot c' (cfg.prevOf c' + a c') ≤ cfg.quot c k

theorem ha_unique (cfg : HACfg) (h : CfgOK cfg) (hq : StrictQ cfg) (hcaps : ∀ e, cfg.prevOf e ≤ cfg.capOf e)
    (hnotie : (haRun cfg).tie = none) (hrem : (haRun cfg).rem = 0)
    (a : Cand → Nat) (ha : IsSolution cfg a) : ∀ c, a c = haSeats cfg c := by
  have hi := haRun_inv cfg h
  have hs := haRun_strict cfg h hq
  have hsumh : ((haCands cfg).map (haSeats cfg)).sum = openSeats cfg := by
    have := hi.count
    unfold awarded tieSeats at this
    rw [hnotie, hrem] at this
    unfold haSeats
    simpa using this
  -- first: nobody has fewer seats under `a` than under the loop
  have hge : ∀ c, haSeats cfg c ≤ a c := by
    intro c
    by_contra hlt
    have hlt : a c < haSeats cfg c := Nat.lt_of_not_ge hlt
    have hckey : c ∈ keys cfg.votes := hi.only_keys c (by unfold haSeats at hlt; omega)
    have hcC : c ∈ haCands cfg := mem_haCands_of_key hckey
    obtain ⟨e, _, hemore⟩ := sum_pigeon (haCands cfg) (haSeats cfg) a (by rw [hsumh, ha.total]) c hcC hlt
    have hec : e ≠ c := by rintro rfl; omega
    have hgec := hi.ge_prev c
    have hgee := hi.ge_prev e
    have htc : (haRun cfg).tot c ≤ cfg.capOf c := hi.le_cap c (hcaps c)
    unfold haSeats at hlt hemore
    -- e holds, under `a`, the seat number tot_h e, and is eligible
    have heElig : Elig0 cfg e := ha.only_elig e (by omega)
    have hecap : cfg.prevOf e + a e ≤ cfg.capOf e := by
      rcases ha.cap e with hh | hh
      · exact hh
      · omega
    -- in the loop's final state e is still waiting (below its cap)
    have hewait : (haRun cfg).tot e < cfg.capOf e := by omega
    obtain ⟨p, hp, hpk⟩ := List.mem_map.mp (hi.pool_all e heElig hewait)
    have ho1 := hs c ((haRun cfg).tot c - 1) (by omega) (by omega) p hp
    rw [hi.pool_q p hp, hpk] at ho1
    -- under `a`, c waits (below its cap) and e's seat tot_h e is seated
    have hcElig : Elig0 cfg c := ⟨hckey, by omega⟩
    have ho2 := ha.optimal c hcElig (by omega) e ((haRun cfg).tot e) hgee (by omega)
    have ho3 : cfg.quot c ((haRun cfg).tot c - 1) ≤ cfg.quot c (cfg.prevOf c + a c) :=
      quot_anti_le h c (by omega)
    linarith
  -- sums agree, so the allocations agree
  intro c
  by_contra hne
  by_cases hc : c ∈ haCands cfg
  · have hlt : haSeats cfg c < a c := lt_of_le_of_ne (hge c) (Ne.symm hne)
    have := List.sum_lt_sum (f := haSeats cfg) (g := a) (fun i _ => hge i) ⟨c, hc, hlt⟩
    rw [hsumh, ha.total] at this
    exact lt_irrefl _ this
  · -- outside the candidate list both are zero
    have h1 : haSeats cfg c = 0 := by
      by_contra h0
      have : c ∈ keys cfg.votes := hi.only_keys c (by unfold haSeats at h0; omega)
      exact hc (mem_haCands_of_key this)
    have h2 : a c = 0 := by
      by_contra h0
      exact hc (mem_haCands_of_key (ha.only_elig c (Nat.pos_of_ne_zero h0)).1)
    omega

/-- the loop's own allocation is a solution (whenever it reports no tie and hands out all open seats) -/
theorem haSeats_isSolution (cfg : HACfg) (h : CfgOK cfg) (hcaps : ∀ e, cfg.prevOf e ≤ cfg.capOf e)
    (hnotie : (haRun cfg).tie = none) (hrem : (haRun cfg).rem = 0) : IsSolution cfg (haSeats cfg) := by
  have hi := haRun_inv cfg h
  refine ⟨?_, ?_, ?_, ?_⟩
  · intro c hc
    have hkey : c ∈ keys cfg.votes := hi.only_keys c (by unfold haSeats at hc; omega)
    have := hi.le_cap c (hcaps c)
    have := hi.ge_prev c
    unfold haSeats at hc
    exact ⟨hkey, by omega⟩
  · intro c; left
    have := hi.le_cap c (hcaps c)
    have := hi.ge_prev c
    unfold haSeats; omega
  · have := hi.count
    unfold awarded tieSeats at this
    rw [hnotie, hrem] at this
    unfold haSeats
    simpa using this
  · intro c' he hroom c k hk1 hk2
    have hg := hi.ge_prev c
    have hg' := hi.ge_prev c'
    unfold haSeats at hroom hk2 ⊢
    obtain ⟨p, hp, hpk⟩ := List.mem_map.mp (hi.pool_all c' he (by omega))
    have := hi.seated c k hk1 (by omega) p hp
    rw [hi.pool_q p hp, hpk] at this
    rw [show cfg.prevOf c' + ((haRun cfg).tot c' - cfg.prevOf c') = (haRun cfg).tot c' by omega]
    exact this

end VL
