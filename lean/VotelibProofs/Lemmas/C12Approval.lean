/-
  Helper lemmas for C12 (approval family): harmonic coefficient cache, committees (`combos`), the arg-max scan.
-/
import VotelibModel.Approval
import VotelibProofs.Lemmas.NBest
import Mathlib.Algebra.Order.Field.Basic
import Mathlib.Data.List.Perm.Subperm
import Mathlib.Tactic.Ring
namespace VL.Appr
open VL

/-- generic: `mapM` in `Except` of a function that never fails -/
theorem mapM_ok {α β : Type} {f : α → Except Err β} {g : α → β} :
    ∀ (l : List α), (∀ x ∈ l, f x = .ok (g x)) → l.mapM f = .ok (l.map g)
  | [], _ => rfl
  | x :: xs, h => by
    rw [List.mapM_cons, h x (List.mem_cons_self), mapM_ok xs (fun y hy => h y (List.mem_cons_of_mem _ hy))]
    rfl

/-- the cache holds harmonic numbers (class invariant of `ProportionalApproval._coefs`) -/
def CoefsOK (coefs : List Rat) : Prop :=
  0 < coefs.length ∧ ∀ k (h : k < coefs.length), coefs[k] = harmonic k

theorem freshCoefs_ok : CoefsOK freshCoefs := by
  refine ⟨by decide, ?_⟩
  intro k h
  have : k = 0 := by simp [freshCoefs] at h; omega
  subst this; rfl

theorem extendCoefs_ok {coefs : List Rat} (h : CoefsOK coefs) (n : Nat) :
    CoefsOK (extendCoefs coefs n) ∧ n + 1 ≤ (extendCoefs coefs n).length := by
  unfold extendCoefs
  split
  · rename_i hlt
    refine ⟨⟨by simp; omega, ?_⟩, by simp; omega⟩
    intro k hk
    by_cases hk' : k < coefs.length
    · rw [List.getElem_append_left hk']; exact h.2 k hk'
    · rw [List.getElem_append_right (by omega)]
      simp only [List.getElem_map, List.getElem_range']
      congr 1; omega
  · rename_i hge
    exact ⟨h, by omega⟩

theorem coefAt_ok {coefs : List Rat} (h : CoefsOK coefs) {k : Nat} (hk : k < coefs.length) :
    coefAt coefs k = .ok (harmonic k) := by
  unfold coefAt
  rw [List.getElem?_eq_getElem hk, h.2 k hk]

/-- a profile of frozensets: every ballot is duplicate-free -/
def WF (votes : Profile) : Prop := ∀ bw ∈ votes, bw.1.Nodup

instance (votes : Profile) : Decidable (WF votes) := by unfold WF; infer_instance

theorem interLen_le {b alt : List Cand} (hb : b.Nodup) : interLen b alt ≤ alt.length := by
  unfold interLen
  have hsub : (b.filter (fun c => alt.contains c)) ⊆ alt := by
    intro x hx
    have := (List.mem_filter.mp hx).2
    simpa using this
  exact (List.subperm_of_subset (hb.filter _) hsub).length_le

/-- `interLen` depends on the committee only through membership -/
theorem interLen_congr {b a a' : List Cand} (h : ∀ x, x ∈ a ↔ x ∈ a') : interLen b a = interLen b a' := by
  unfold interLen
  congr 1
  apply List.filter_congr
  intro x _
  have := h x
  by_cases hx : x ∈ a <;> simp_all

theorem satisfaction_eq {coefs : List Rat} (h : CoefsOK coefs) {votes : Profile} (hwf : WF votes)
    {alt : List Cand} (hlen : alt.length < coefs.length) :
    satisfaction coefs votes alt = .ok (satH votes alt) := by
  unfold satisfaction satH
  rw [mapM_ok (g := fun bw => harmonic (interLen bw.1 alt) * bw.2)]
  · rfl
  · intro bw hbw
    have : interLen bw.1 alt < coefs.length := lt_of_le_of_lt (interLen_le (hwf bw hbw)) hlen
    rw [coefAt_ok h this]; rfl

theorem satH_congr {votes : Profile} {a a' : List Cand} (h : ∀ x, x ∈ a ↔ x ∈ a') : satH votes a = satH votes a' := by
  unfold satH
  congr 1
  apply List.map_congr_left
  intro bw _
  rw [interLen_congr h]

/-! ### committees -/

theorem mem_combos {l : List Cand} {n : Nat} {a : List Cand} :
    a ∈ combos l n ↔ a.Sublist l ∧ a.length = n := by
  induction l generalizing n a with
  | nil =>
    cases n with
    | zero => simp [combos]
    | succ n =>
      simp only [combos, List.not_mem_nil, List.sublist_nil, false_iff, not_and]
      intro h; subst h; simp
  | cons x xs ih =>
    cases n with
    | zero =>
      simp only [combos, List.mem_singleton, List.length_eq_zero_iff]
      constructor
      · intro h; subst h; exact ⟨List.nil_sublist _, rfl⟩
      · exact fun h => h.2
    | succ n =>
      simp only [combos, List.mem_append, List.mem_map]
      constructor
      · rintro (⟨r, hr, rfl⟩ | h)
        · have := ih.mp hr
          exact ⟨List.Sublist.cons_cons x this.1, by simp [this.2]⟩
        · have := ih.mp h
          exact ⟨List.Sublist.cons x this.1, this.2⟩
      · rintro ⟨hs, hl⟩
        rcases List.sublist_cons_iff.mp hs with h | ⟨r, rfl, hr⟩
        · exact Or.inr (ih.mpr ⟨h, hl⟩)
        · exact Or.inl ⟨r, ih.mpr ⟨hr, by simpa using hl⟩, rfl⟩

theorem combos_nodup {l : List Cand} (hl : l.Nodup) (n : Nat) : (combos l n).Nodup := by
  induction l generalizing n with
  | nil => cases n <;> simp [combos]
  | cons x xs ih =>
    cases n with
    | zero => simp [combos]
    | succ n =>
      have hx := List.nodup_cons.mp hl
      simp only [combos]
      rw [List.nodup_append]
      refine ⟨(ih hx.2 n).map (fun a b h => by injection h), ih hx.2 (n + 1), ?_⟩
      intro a ha b hb hab
      obtain ⟨r, _, rfl⟩ := List.mem_map.mp ha
      subst hab
      have := (mem_combos.mp hb).1
      exact hx.1 (this.subset List.mem_cons_self)

/-! ### the arg-max scan of `_get_best_alternatives` -/

/-- the entries whose value no entry exceeds -/
def argmaxes (l : List (List Cand × Rat)) : List (List Cand × Rat) :=
  l.filter (fun p => l.all (fun q => decide (q.2 ≤ p.2)))

/-- invariant of the scan after the prefix `l` -/
def BestInv (l : List (List Cand × Rat)) (acc : List (List Cand) × Option Rat) : Prop :=
  acc.1 = (argmaxes l).map (·.1) ∧
  match acc.2 with
  | none => l = []
  | some m => (∀ q ∈ l, q.2 ≤ m) ∧ ∃ q ∈ l, q.2 = m

theorem argmaxes_of_max {l : List (List Cand × Rat)} {m : Rat} (hle : ∀ q ∈ l, q.2 ≤ m) (hex : ∃ q ∈ l, q.2 = m) :
    argmaxes l = l.filter (fun p => decide (p.2 = m)) := by
  unfold argmaxes
  apply List.filter_congr
  intro p hp
  obtain ⟨q0, hq0, hq0m⟩ := hex
  by_cases hpm : p.2 = m
  · simp only [hpm, decide_true, List.all_eq_true, decide_eq_true_eq]
    exact hle
  · simp only [hpm, decide_false, Bool.eq_false_iff, ne_eq, List.all_eq_true, decide_eq_true_eq, not_forall]
    refine ⟨q0, hq0, ?_⟩
    rw [hq0m]
    exact not_le.mpr (lt_of_le_of_ne (hle p hp) hpm)

theorem bestInv_step {l : List (List Cand × Rat)} {acc : List (List Cand) × Option Rat}
    (h : BestInv l acc) (x : List Cand × Rat) : BestInv (l ++ [x]) (bestStep acc x) := by
  obtain ⟨h1, h2⟩ := h
  unfold bestStep
  cases hacc : acc.2 with
  | none =>
    rw [hacc] at h2
    simp only at h2
    subst h2
    refine ⟨?_, ?_⟩
    · simp [argmaxes]
    · simp
  | some m =>
    rw [hacc] at h2
    simp only at h2
    obtain ⟨hle, hex⟩ := h2
    have hpre := argmaxes_of_max hle hex
    simp only
    by_cases hgt : x.2 > m
    · rw [if_pos hgt]
      have hle' : ∀ q ∈ l ++ [x], q.2 ≤ x.2 := by
        intro q hq
        rcases List.mem_append.mp hq with hq | hq
        · exact le_of_lt (lt_of_le_of_lt (hle q hq) hgt)
        · simp at hq; subst hq; exact le_refl _
      have hex' : ∃ q ∈ l ++ [x], q.2 = x.2 := ⟨x, by simp, rfl⟩
      refine ⟨?_, hle', hex'⟩
      rw [argmaxes_of_max hle' hex', List.filter_append]
      have : l.filter (fun p => decide (p.2 = x.2)) = [] := by
        rw [List.filter_eq_nil_iff]
        intro q hq
        simp only [decide_eq_true_eq]
        exact ne_of_lt (lt_of_le_of_lt (hle q hq) hgt)
      rw [this]; simp
    · rw [if_neg hgt]
      have hxle : x.2 ≤ m := not_lt.mp hgt
      have hle' : ∀ q ∈ l ++ [x], q.2 ≤ m := by
        intro q hq
        rcases List.mem_append.mp hq with hq | hq
        · exact hle q hq
        · simp at hq; subst hq; exact hxle
      have hex' : ∃ q ∈ l ++ [x], q.2 = m := by
        obtain ⟨q, hq, hqm⟩ := hex
        exact ⟨q, List.mem_append_left _ hq, hqm⟩
      by_cases heq : x.2 = m
      · rw [if_pos heq]
        refine ⟨?_, hle', hex'⟩
        rw [argmaxes_of_max hle' hex', List.filter_append, List.map_append, ← hpre, ← h1]
        simp [heq]
      · rw [if_neg heq]
        refine ⟨?_, ?_⟩
        · rw [argmaxes_of_max hle' hex', List.filter_append, ← hpre, h1]
          simp [heq]
        · rw [hacc]; exact ⟨hle', hex'⟩

theorem bestInv_foldl (suf : List (List Cand × Rat)) :
    ∀ (pre : List (List Cand × Rat)) (acc : List (List Cand) × Option Rat), BestInv pre acc →
      BestInv (pre ++ suf) (suf.foldl bestStep acc) := by
  induction suf with
  | nil => intro pre acc h; simpa using h
  | cons x xs ih =>
    intro pre acc h
    have := ih (pre ++ [x]) (bestStep acc x) (bestInv_step h x)
    simpa using this

theorem foldl_bestStep (l : List (List Cand × Rat)) :
    (l.foldl bestStep ([], none)).1 = (argmaxes l).map (·.1) := by
  have h0 : BestInv [] (([] : List (List Cand)), (none : Option Rat)) := ⟨by simp [argmaxes], rfl⟩
  have := bestInv_foldl l [] _ h0
  simpa using this.1

theorem argmaxes_map (f : List Cand → Rat) (C : List (List Cand)) :
    (argmaxes (C.map (fun a => (a, f a)))).map (·.1) = C.filter (fun a => C.all (fun b => decide (f b ≤ f a))) := by
  unfold argmaxes
  rw [List.filter_map, List.map_map]
  simp only [List.all_map, Function.comp_def, List.map_id']

/-- with a valid cache the scan returns the maximisers -/
theorem bestAlts_eq {coefs : List Rat} (h : CoefsOK coefs) {votes : Profile} (hwf : WF votes)
    (cands : List Cand) {n : Nat} (hn : n < coefs.length) :
    bestAlts coefs votes cands n = .ok (maximisers votes cands n) := by
  unfold bestAlts
  rw [mapM_ok (g := fun alt => (alt, satH votes alt))]
  · show Except.ok _ = _
    rw [foldl_bestStep, argmaxes_map]; rfl
  · intro alt halt
    have : alt.length = n := (mem_combos.mp halt).2
    rw [satisfaction_eq h hwf (by omega)]; rfl

theorem dropKeys_eq {coefs : List Rat} (h : CoefsOK coefs) {votes : Profile} (hwf : WF votes)
    {a : List Cand} (hlen : a.length < coefs.length) :
    dropKeys coefs votes a = .ok (a.map (fun c => (c, -(satH votes (a.filter (· != c)))))) := by
  unfold dropKeys
  apply mapM_ok
  intro c _
  have : (a.filter (· != c)).length < coefs.length := lt_of_le_of_lt (List.length_filter_le _ _) hlen
  rw [satisfaction_eq h hwf this]; rfl

theorem orderByScore_eq {coefs : List Rat} (h : CoefsOK coefs) {votes : Profile} (hwf : WF votes)
    {a : List Cand} (hlen : a.length < coefs.length) :
    orderByScore coefs votes a = .ok (pavOrder votes a) := by
  unfold orderByScore
  rw [dropKeys_eq h hwf hlen]; rfl

theorem maximisers_sub {votes : Profile} {cands : List Cand} {n : Nat} {a : List Cand}
    (h : a ∈ maximisers votes cands n) : a ∈ combos cands n := (List.mem_filter.mp h).1

/-! ### sets of candidates in iteration order -/

theorem mem_insertNat {x y : Nat} {l : List Nat} : y ∈ insertNat x l ↔ y = x ∨ y ∈ l := by
  induction l with
  | nil => simp [insertNat]
  | cons z zs ih =>
    unfold insertNat
    split
    · simp
    · split
      · rename_i h; subst h; simp
      · simp only [List.mem_cons, ih]; tauto

theorem insertNat_sorted {x : Nat} {l : List Nat} (h : l.Pairwise (· < ·)) : (insertNat x l).Pairwise (· < ·) := by
  induction l with
  | nil => simp [insertNat]
  | cons z zs ih =>
    have hz := List.pairwise_cons.mp h
    unfold insertNat
    split
    · rename_i hlt
      refine List.pairwise_cons.mpr ⟨?_, h⟩
      intro y hy
      rcases List.mem_cons.mp hy with rfl | hy
      · exact hlt
      · exact lt_trans hlt (hz.1 y hy)
    · split
      · exact h
      · rename_i hnlt hne
        refine List.pairwise_cons.mpr ⟨?_, ih hz.2⟩
        intro y hy
        rcases mem_insertNat.mp hy with rfl | hy
        · omega
        · exact hz.1 y hy

theorem mem_sortDedup {y : Nat} {l : List Nat} : y ∈ sortDedup l ↔ y ∈ l := by
  induction l with
  | nil => simp [sortDedup]
  | cons x xs ih => simp only [sortDedup, mem_insertNat, ih, List.mem_cons]

theorem sortDedup_sorted (l : List Nat) : (sortDedup l).Pairwise (· < ·) := by
  induction l with
  | nil => simp [sortDedup]
  | cons x xs ih => exact insertNat_sorted ih

theorem sortDedup_nodup (l : List Nat) : (sortDedup l).Nodup :=
  (sortDedup_sorted l).imp (fun h => Nat.ne_of_lt h)

theorem mem_allCands {votes : Profile} {c : Cand} : c ∈ allCands votes ↔ ∃ bw ∈ votes, c ∈ bw.1 := by
  unfold allCands
  rw [mem_sortDedup, List.mem_flatMap]

theorem allCands_nodup (votes : Profile) : (allCands votes).Nodup := sortDedup_nodup _

/-! ### the reported order -/

theorem slotCands_map_cand (l : Votes) : slotCands (l.map (fun p => Slot.cand p.1)) = l.map (·.1) := by
  induction l with
  | nil => rfl
  | cons x xs ih => simp [slotCands, ih]

/-- the sort keys PAV orders a committee by -/
def dropsOf (votes : Profile) (a : List Cand) : Votes := a.map (fun c => (c, -(satH votes (a.filter (· != c)))))

theorem pavOrder_eq (votes : Profile) (a : List Cand) :
    pavOrder votes a = (sortDesc (dropsOf votes a)).map (fun p => Slot.cand p.1) := by
  unfold pavOrder
  exact getNBest_all _ _ (by simp)

theorem slotCands_pavOrder_perm (votes : Profile) (a : List Cand) : (slotCands (pavOrder votes a)).Perm a := by
  rw [pavOrder_eq, slotCands_map_cand]
  have := (sortDesc_perm (dropsOf votes a)).map (·.1)
  refine this.trans ?_
  unfold dropsOf
  rw [List.map_map]
  simp [Function.comp_def]

/-- `maximisers = [a]` says that `a` is the unique maximiser -/
theorem maximisers_singleton_iff {votes : Profile} {cands : List Cand} (hc : cands.Nodup) {n : Nat} {a : List Cand} :
    maximisers votes cands n = [a] ↔
      a ∈ combos cands n ∧ ∀ b ∈ combos cands n, b ≠ a → satH votes b < satH votes a := by
  constructor
  · intro h
    have ha : a ∈ maximisers votes cands n := by rw [h]; simp
    have ha' := List.mem_filter.mp ha
    refine ⟨ha'.1, ?_⟩
    intro b hb hne
    have hle : satH votes b ≤ satH votes a := by
      have := List.all_eq_true.mp ha'.2 b hb
      simpa using this
    rcases lt_or_eq_of_le hle with hlt | heq
    · exact hlt
    · exfalso
      have hbm : b ∈ maximisers votes cands n := by
        apply List.mem_filter.mpr
        refine ⟨hb, ?_⟩
        rw [List.all_eq_true]
        intro c hc'
        have := List.all_eq_true.mp ha'.2 c hc'
        simp only [decide_eq_true_eq] at this ⊢
        rw [heq]; exact this
      rw [h] at hbm
      exact hne (List.mem_singleton.mp hbm)
  · rintro ⟨ha, hlt⟩
    have hnd : (maximisers votes cands n).Nodup := (combos_nodup hc n).filter _
    have hall : ∀ b ∈ maximisers votes cands n, b = a := by
      intro b hb
      by_contra hne
      have hb' := List.mem_filter.mp hb
      have h1 := hlt b hb'.1 hne
      have h2 := List.all_eq_true.mp hb'.2 a ha
      simp only [decide_eq_true_eq] at h2
      exact absurd h1 (not_lt.mpr h2)
    have hamem : a ∈ maximisers votes cands n := by
      apply List.mem_filter.mpr
      refine ⟨ha, ?_⟩
      rw [List.all_eq_true]
      intro b hb
      simp only [decide_eq_true_eq]
      by_cases hba : b = a
      · rw [hba]
      · exact le_of_lt (hlt b hb hba)
    rcases hm : maximisers votes cands n with _ | ⟨x, _ | ⟨y, t⟩⟩
    · rw [hm] at hamem; simp at hamem
    · rw [hm] at hall; rw [hall x (by simp)]
    · exfalso
      rw [hm] at hall hnd
      have hx := hall x (by simp)
      have hy := hall y (by simp)
      rw [hx, hy] at hnd
      simp at hnd

end VL.Appr
