/-
  Helper lemmas for ThresholdOpenList / break_by_list (C16).
-/
import VotelibProofs.Lemmas.SortBy
import VotelibModel.OpenList
import Mathlib.Data.List.Perm.Lattice
namespace VL

/-! ### lookup in a well-formed dict -/

theorem lookup_of_mem {votes : Votes} (hwf : (keys votes).Nodup) {c : Cand} {v : Rat} (h : (c, v) ∈ votes) :
    lookup votes c = some v := by
  unfold lookup
  cases hf : votes.find? (fun p => p.1 = c) with
  | none =>
    have := List.find?_eq_none.mp hf (c, v) h
    simp at this
  | some p =>
    have hm := List.mem_of_find?_eq_some hf
    have hk : p.1 = c := by simpa using List.find?_some hf
    have : p = (c, v) := List.inj_on_of_nodup_map hwf hm h hk
    rw [this]

theorem getD_of_mem {votes : Votes} (hwf : (keys votes).Nodup) {c : Cand} {v : Rat} (h : (c, v) ∈ votes) (d : Rat) :
    getD votes c d = v := by
  unfold getD
  rw [lookup_of_mem hwf h]
  rfl

/-! ### first-occurrence order -/

theorem dedupKeep_pairwise_idxOf (l : List Cand) :
    (dedupKeep l).Pairwise (fun a b => l.idxOf a < l.idxOf b) := by
  induction l with
  | nil => simp [dedupKeep]
  | cons x xs ih =>
    simp only [dedupKeep]
    refine List.pairwise_cons.mpr ⟨?_, ?_⟩
    · intro a ha
      have hax : a ≠ x := by
        have := (List.mem_filter.mp ha).2
        simpa using this
      rw [List.idxOf_cons_self, List.idxOf_cons_ne _ (Ne.symm hax)]
      omega
    · have hsub : ((dedupKeep xs).filter (fun y => y != x)).Sublist (dedupKeep xs) := List.filter_sublist
      have hpw := List.Pairwise.sublist hsub ih
      have hmem : ∀ a ∈ (dedupKeep xs).filter (fun y => y != x), a ≠ x := by
        intro a ha
        have := (List.mem_filter.mp ha).2
        simpa using this
      refine (List.Pairwise.and_mem.mp hpw).imp ?_
      rintro a b ⟨ha, hb, hab⟩
      rw [List.idxOf_cons_ne _ (Ne.symm (hmem a ha)), List.idxOf_cons_ne _ (Ne.symm (hmem b hb))]
      omega

/-! ### the fill-up loop -/

/-- closed form of the loop of openlist.py L139-145: the list members not yet elected, each once, in list
    order, as many as there are seats left -/
theorem fillFromList_eq (n : Nat) : ∀ (cs el : List Cand), el.length ≤ n →
    fillFromList n el cs =
      el ++ ((dedupKeep cs).filter (fun c => !el.contains c)).take (n - el.length) := by
  intro cs
  induction cs with
  | nil => intro el _; simp [fillFromList, dedupKeep]
  | cons c cs ih =>
    intro el hle
    unfold fillFromList
    by_cases hfull : el.length = n
    · rw [if_pos hfull]; simp [hfull]
    · rw [if_neg hfull]
      by_cases hc : el.contains c = true
      · rw [if_pos hc, ih el hle]
        congr 2
        simp only [dedupKeep, List.filter_cons, hc, Bool.not_true, Bool.false_eq_true, if_false,
          List.filter_filter]
        apply List.filter_congr
        intro a _
        have hc' : c ∈ el := by simpa using hc
        by_cases ha : a ∈ el
        · simp [ha]
        · have hne : a ≠ c := by
            intro e; rw [e] at ha; exact ha hc'
          simp [ha, hne]
      · rw [if_neg hc]
        have hlt : el.length < n := lt_of_le_of_ne hle hfull
        rw [ih (el ++ [c]) (by simp; omega)]
        have hcf : (!el.contains c) = true := by simpa using hc
        simp only [dedupKeep, List.filter_cons, hcf, if_true, List.filter_filter, List.length_append,
          List.length_singleton, List.append_assoc, List.singleton_append]
        have hk : n - el.length = (n - (el.length + 1)) + 1 := by omega
        rw [hk, List.take_succ_cons]
        congr 3
        apply List.filter_congr
        intro a _
        by_cases hac : a = c
        · subst hac; simp
        · simp [hac]

/-! ### counting -/

/-- removing the members of a duplicate-free sublist `J` (as a set) from a duplicate-free list -/
theorem length_filter_not_mem {l J : List Cand} (hl : l.Nodup) (hJ : J.Nodup) (hsub : ∀ c ∈ J, c ∈ l) :
    (l.filter (fun c => !J.contains c)).length = l.length - J.length := by
  have h1 := List.length_eq_length_filter_add (l := l) (fun c => J.contains c)
  have hperm : (l.filter (fun c => J.contains c)).Perm J := by
    apply (List.perm_ext_iff_of_nodup (hl.filter _) hJ).mpr
    intro a
    simp only [List.mem_filter, List.contains_iff_mem]
    exact ⟨fun h => h.2, fun h => ⟨hsub a h, h⟩⟩
  have := hperm.length_eq
  omega

/-! ### sorting commutes with filtering on the value -/

theorem insertDesc_of_ge (x : Cand × Rat) (s : Votes) (h : ∀ z ∈ s, z.2 ≤ x.2) : insertDesc x s = x :: s := by
  cases s with
  | nil => rfl
  | cons y ys =>
    have : ¬ x.2 < y.2 := not_lt.mpr (h y List.mem_cons_self)
    simp [insertDesc, this]

theorem insertDesc_filter_pos (P : Rat → Bool) (x : Cand × Rat) (hx : P x.2 = true) (s : Votes) (hs : Desc s) :
    (insertDesc x s).filter (fun p => P p.2) = insertDesc x (s.filter (fun p => P p.2)) := by
  induction s with
  | nil => simp [insertDesc, hx]
  | cons y ys ih =>
    have hy' := List.pairwise_cons.mp hs
    by_cases hlt : x.2 < y.2
    · have e1 : insertDesc x (y :: ys) = y :: insertDesc x ys := by simp [insertDesc, hlt]
      rw [e1]
      by_cases hy : P y.2 = true
      · rw [List.filter_cons_of_pos (by simpa using hy), List.filter_cons_of_pos (by simpa using hy), ih hy'.2]
        simp [insertDesc, hlt]
      · rw [List.filter_cons_of_neg (by simpa using hy), List.filter_cons_of_neg (by simpa using hy), ih hy'.2]
    · have e1 : insertDesc x (y :: ys) = x :: y :: ys := by simp [insertDesc, hlt]
      rw [e1, List.filter_cons_of_pos (by simpa using hx)]
      symm
      apply insertDesc_of_ge
      intro z hz
      have hz' := (List.mem_filter.mp hz).1
      have hyx : y.2 ≤ x.2 := not_lt.mp hlt
      rcases List.mem_cons.mp hz' with rfl | hz''
      · exact hyx
      · exact le_trans (hy'.1 z hz'') hyx

theorem insertDesc_filter_neg (P : Rat → Bool) (x : Cand × Rat) (hx : ¬ P x.2 = true) (s : Votes) :
    (insertDesc x s).filter (fun p => P p.2) = s.filter (fun p => P p.2) := by
  induction s with
  | nil => simp [insertDesc, hx]
  | cons y ys ih =>
    by_cases hlt : x.2 < y.2
    · have e1 : insertDesc x (y :: ys) = y :: insertDesc x ys := by simp [insertDesc, hlt]
      rw [e1, List.filter_cons, List.filter_cons, ih]
    · have e1 : insertDesc x (y :: ys) = x :: y :: ys := by simp [insertDesc, hlt]
      rw [e1, List.filter_cons_of_neg (by simpa using hx)]

theorem sortDesc_filter_comm (P : Rat → Bool) (l : Votes) :
    sortDesc (l.filter (fun p => P p.2)) = (sortDesc l).filter (fun p => P p.2) := by
  induction l with
  | nil => rfl
  | cons x xs ih =>
    by_cases hx : P x.2 = true
    · rw [List.filter_cons_of_pos (by simpa using hx)]
      simp only [sortDesc]
      rw [ih, insertDesc_filter_pos P x hx _ (sortDesc_desc xs)]
    · rw [List.filter_cons_of_neg (by simpa using hx)]
      simp only [sortDesc]
      rw [ih, insertDesc_filter_neg P x hx]

end VL
