/-
  Helper lemmas for ThresholdOpenList / break_by_list (C16).
-/
import VotelibProofs.Lemmas.SortBy
import VotelibProofs.Lemmas.NBest
import VotelibModel.OpenList
import Mathlib.Data.List.Perm.Lattice
namespace VL

/-! ### lookup in a well-formed dict -/

theorem lookup_of_mem {votes : Votes} (hwf : (keys votes).Nodup) {c : Cand} {v : Rat} (h : (c, v) ∈ votes) :
    lookup votes c = some v := by
  unfold lookup
  cases hf : votes.find? (fun p => p.1 = c) with
  | none =>
    have := List.find?_eq_none.mp hf (c, v) h
    simp at this
  | some p =>
    have hm := List.mem_of_find?_eq_some hf
    have hk : p.1 = c := by simpa using List.find?_some hf
    have : p = (c, v) := List.inj_on_of_nodup_map hwf hm h hk
    rw [this]

theorem getD_of_mem {votes : Votes} (hwf : (keys votes).Nodup) {c : Cand} {v : Rat} (h : (c, v) ∈ votes) (d : Rat) :
    getD votes c d = v := by
  unfold getD
  rw [lookup_of_mem hwf h]
  rfl

/-! ### first-occurrence order -/

theorem dedupKeep_pairwise_idxOf (l : List Cand) :
    (dedupKeep l).Pairwise (fun a b => l.idxOf a < l.idxOf b) := by
  induction l with
  | nil => simp [dedupKeep]
  | cons x xs ih =>
    simp only [dedupKeep]
    refine List.pairwise_cons.mpr ⟨?_, ?_⟩
    · intro a ha
      have hax : a ≠ x := by
        have := (List.mem_filter.mp ha).2
        simpa using this
      rw [List.idxOf_cons_self, List.idxOf_cons_ne _ (Ne.symm hax)]
      omega
    · have hsub : ((dedupKeep xs).filter (fun y => y != x)).Sublist (dedupKeep xs) := List.filter_sublist
      have hpw := List.Pairwise.sublist hsub ih
      have hmem : ∀ a ∈ (dedupKeep xs).filter (fun y => y != x), a ≠ x := by
        intro a ha
        have := (List.mem_filter.mp ha).2
        simpa using this
      refine (List.Pairwise.and_mem.mp hpw).imp ?_
      rintro a b ⟨ha, hb, hab⟩
      rw [List.idxOf_cons_ne _ (Ne.symm (hmem a ha)), List.idxOf_cons_ne _ (Ne.symm (hmem b hb))]
      omega

/-! ### the fill-up loop -/

/-- closed form of the loop of openlist.py L139-145: the list members not yet elected, each once, in list
    order, as many as there are seats left -/
theorem fillFromList_eq (n : Nat) : ∀ (cs el : List Cand), el.length ≤ n →
    fillFromList n el cs =
      el ++ ((dedupKeep cs).filter (fun c => !el.contains c)).take (n - el.length) := by
  intro cs
  induction cs with
  | nil => intro el _; simp [fillFromList, dedupKeep]
  | cons c cs ih =>
    intro el hle
    unfold fillFromList
    by_cases hfull : el.length = n
    · rw [if_pos hfull]; simp [hfull]
    · rw [if_neg hfull]
      by_cases hc : el.contains c = true
      · rw [if_pos hc, ih el hle]
        congr 2
        simp only [dedupKeep, List.filter_cons, hc, Bool.not_true, Bool.false_eq_true, if_false,
          List.filter_filter]
        apply List.filter_congr
        intro a _
        have hc' : c ∈ el := by simpa using hc
        by_cases ha : a ∈ el
        · simp [ha]
        · have hne : a ≠ c := by
            intro e; rw [e] at ha; exact ha hc'
          simp [ha, hne]
      · rw [if_neg hc]
        have hlt : el.length < n := lt_of_le_of_ne hle hfull
        rw [ih (el ++ [c]) (by simp; omega)]
        have hcf : (!el.contains c) = true := by simpa using hc
        simp only [dedupKeep, List.filter_cons, hcf, if_true, List.filter_filter, List.length_append,
          List.length_singleton, List.append_assoc, List.singleton_append]
        have hk : n - el.length = (n - (el.length + 1)) + 1 := by omega
        rw [hk, List.take_succ_cons]
        congr 3
        apply List.filter_congr
        intro a _
        by_cases hac : a = c
        · subst hac; simp
        · simp [hac]

/-! ### counting -/

/-- removing the members of a duplicate-free sublist `J` (as a set) from a duplicate-free list -/
theorem length_filter_not_mem {l J : List Cand} (hl : l.Nodup) (hJ : J.Nodup) (hsub : ∀ c ∈ J, c ∈ l) :
    (l.filter (fun c => !J.contains c)).length = l.length - J.length := by
  have h1 := List.length_eq_length_filter_add (l := l) (fun c => J.contains c)
  have hperm : (l.filter (fun c => J.contains c)).Perm J := by
    apply (List.perm_ext_iff_of_nodup (hl.filter _) hJ).mpr
    intro a
    simp only [List.mem_filter, List.contains_iff_mem]
    exact ⟨fun h => h.2, fun h => ⟨hsub a h, h⟩⟩
  have := hperm.length_eq
  omega

/-! ### sorting commutes with filtering on the value -/

theorem insertDesc_of_ge (x : Cand × Rat) (s : Votes) (h : ∀ z ∈ s, z.2 ≤ x.2) : insertDesc x s = x :: s := by
  cases s with
  | nil => rfl
  | cons y ys =>
    have : ¬ x.2 < y.2 := not_lt.mpr (h y List.mem_cons_self)
    simp [insertDesc, this]

theorem insertDesc_filter_pos (P : Rat → Bool) (x : Cand × Rat) (hx : P x.2 = true) (s : Votes) (hs : Desc s) :
    (insertDesc x s).filter (fun p => P p.2) = insertDesc x (s.filter (fun p => P p.2)) := by
  induction s with
  | nil => simp [insertDesc, hx]
  | cons y ys ih =>
    have hy' := List.pairwise_cons.mp hs
    by_cases hlt : x.2 < y.2
    · have e1 : insertDesc x (y :: ys) = y :: insertDesc x ys := by simp [insertDesc, hlt]
      rw [e1]
      by_cases hy : P y.2 = true
      · rw [List.filter_cons_of_pos (by simpa using hy), List.filter_cons_of_pos (by simpa using hy), ih hy'.2]
        simp [insertDesc, hlt]
      · rw [List.filter_cons_of_neg (by simpa using hy), List.filter_cons_of_neg (by simpa using hy), ih hy'.2]
    · have e1 : insertDesc x (y :: ys) = x :: y :: ys := by simp [insertDesc, hlt]
      rw [e1, List.filter_cons_of_pos (by simpa using hx)]
      symm
      apply insertDesc_of_ge
      intro z hz
      have hz' := (List.mem_filter.mp hz).1
      have hyx : y.2 ≤ x.2 := not_lt.mp hlt
      rcases List.mem_cons.mp hz' with rfl | hz''
      · exact hyx
      · exact le_trans (hy'.1 z hz'') hyx

theorem insertDesc_filter_neg (P : Rat → Bool) (x : Cand × Rat) (hx : ¬ P x.2 = true) (s : Votes) :
    (insertDesc x s).filter (fun p => P p.2) = s.filter (fun p => P p.2) := by
  induction s with
  | nil => simp [insertDesc, hx]
  | cons y ys ih =>
    by_cases hlt : x.2 < y.2
    · have e1 : insertDesc x (y :: ys) = y :: insertDesc x ys := by simp [insertDesc, hlt]
      rw [e1, List.filter_cons, List.filter_cons, ih]
    · have e1 : insertDesc x (y :: ys) = x :: y :: ys := by simp [insertDesc, hlt]
      rw [e1, List.filter_cons_of_neg (by simpa using hx)]

theorem sortDesc_filter_comm (P : Rat → Bool) (l : Votes) :
    sortDesc (l.filter (fun p => P p.2)) = (sortDesc l).filter (fun p => P p.2) := by
  induction l with
  | nil => rfl
  | cons x xs ih =>
    by_cases hx : P x.2 = true
    · rw [List.filter_cons_of_pos (by simpa using hx)]
      simp only [sortDesc]
      rw [ih, insertDesc_filter_pos P x hx _ (sortDesc_desc xs)]
    · rw [List.filter_cons_of_neg (by simpa using hx)]
      simp only [sortDesc]
      rw [ih, insertDesc_filter_neg P x hx]

/-! ### prefixes and first occurrences -/

theorem idxOf_lt_of_mem_take {l : List Cand} {c : Cand} {k : Nat} (h : c ∈ l.take k) : l.idxOf c < k := by
  induction l generalizing k with
  | nil => simp at h
  | cons x xs ih =>
    cases k with
    | zero => simp at h
    | succ k =>
      rw [List.take_succ_cons] at h
      by_cases hx : x = c
      · subst hx; rw [List.idxOf_cons_self]; omega
      · rw [List.idxOf_cons_ne _ hx]
        rcases List.mem_cons.mp h with h' | h'
        · exact absurd h'.symm hx
        · have := ih h'; omega

theorem mem_take_of_idxOf_lt {l : List Cand} {d : Cand} {k : Nat} (hd : d ∈ l) (h : l.idxOf d < k) :
    d ∈ l.take k := by
  induction l generalizing k with
  | nil => simp at hd
  | cons x xs ih =>
    cases k with
    | zero => omega
    | succ k =>
      rw [List.take_succ_cons]
      by_cases hx : x = d
      · subst hx; exact List.mem_cons_self
      · rw [List.idxOf_cons_ne _ hx] at h
        rcases List.mem_cons.mp hd with h' | h'
        · exact absurd h'.symm hx
        · exact List.mem_cons_of_mem _ (ih h' (by omega))

/-- in a list ordered by a strict relation, an element related to a member of a prefix is in that prefix -/
theorem mem_take_of_pairwise {R : Cand → Cand → Prop} (hasym : ∀ a b, R a b → ¬ R b a)
    {l : List Cand} (hp : l.Pairwise R) {c d : Cand} {k : Nat} (hc : c ∈ l.take k) (hd : d ∈ l)
    (hdc : R d c) : d ∈ l.take k := by
  have hsplit : l = l.take k ++ l.drop k := (List.take_append_drop k l).symm
  rw [hsplit] at hd
  rcases List.mem_append.mp hd with h | h
  · exact h
  · exfalso
    rw [hsplit] at hp
    exact hasym d c hdc ((List.pairwise_append.mp hp).2.2 c hc d h)

/-! ### Tie.break_by_list -/

theorem sameSet_refl (t : List Cand) : sameSet t t = true := by
  simp [sameSet]

theorem sameSet_mem {a b : List Cand} (h : sameSet a b = true) {x : Cand} (hx : x ∈ a) : x ∈ b := by
  unfold sameSet at h
  have h1 := (Bool.and_eq_true _ _).mp h
  have := List.all_eq_true.mp h1.1 x hx
  simpa using this

theorem tsFind_tsSet (ts : TieState) (t rest : List Cand) : tsFind (tsSet ts t rest) t = some rest := by
  simp [tsFind, tsSet, sameSet_refl]

/-- every remaining-members entry of the `ties` dict only lists members of its tie -/
def TsInv (ts : TieState) : Prop := ∀ e ∈ ts, ∀ x ∈ e.2, x ∈ e.1

theorem tsInv_del {ts : TieState} (h : TsInv ts) (t : List Cand) : TsInv (tsDel ts t) :=
  fun e he => h e (List.mem_filter.mp he).1

theorem tsInv_set {ts : TieState} (h : TsInv ts) (t rest : List Cand) (hr : ∀ x ∈ rest, x ∈ t) :
    TsInv (tsSet ts t rest) := by
  intro e he
  rcases List.mem_cons.mp he with rfl | he'
  · exact hr
  · exact tsInv_del h t e he'

theorem tsFind_mem {ts : TieState} (h : TsInv ts) {t rem : List Cand} (hf : tsFind ts t = some rem) :
    ∀ x ∈ rem, x ∈ t := by
  unfold tsFind at hf
  cases hfind : ts.find? (fun e => sameSet e.1 t) with
  | none => rw [hfind] at hf; cases hf
  | some e =>
    rw [hfind] at hf
    have hrem : e.2 = rem := by cases hf; rfl
    have hm := List.mem_of_find?_eq_some hfind
    have hs : sameSet e.1 t = true := List.find?_some (p := fun (e : List Cand × List Cand) => sameSet e.1 t) hfind
    intro x hx
    exact sameSet_mem hs (h e hm x (hrem ▸ hx))

/-- what a place of the result may hold after tie-breaking -/
def Resolves : Slot → Cand → Prop
  | .cand c', c => c = c'
  | .tie t, c => c ∈ t

theorem breakLoop_resolves (breaker : List Cand) :
    ∀ (el : List Slot) (ts : TieState) (r : List Cand), TsInv ts →
      breakLoop breaker el ts = .ok r → List.Forall₂ Resolves el r := by
  intro el
  induction el with
  | nil =>
    intro ts r _ h
    simp only [breakLoop] at h
    cases h
    exact List.Forall₂.nil
  | cons s rest ih =>
    intro ts r hinv h
    cases s with
    | cand c =>
      simp only [breakLoop, bind, Except.bind] at h
      split at h
      · cases h
      · rename_i r' hr'
        cases h
        exact List.Forall₂.cons rfl (ih ts r' hinv hr')
    | tie t =>
      simp only [breakLoop] at h
      split at h
      · rename_i rem hf
        have hmem := tsFind_mem hinv hf
        split at h
        · cases h
        · rename_i x xs
          simp only [bind, Except.bind] at h
          split at h
          · cases h
          · rename_i r' hr'
            cases h
            refine List.Forall₂.cons (hmem x List.mem_cons_self) (ih _ r' ?_ hr')
            split
            · exact tsInv_set hinv t xs (fun y hy => hmem y (List.mem_cons_of_mem _ hy))
            · exact tsInv_del hinv t
      · split at h
        · split at h
          · cases h
          · rename_i x xs hsort
            simp only [bind, Except.bind] at h
            split at h
            · cases h
            · rename_i r' hr'
              cases h
              have hsub : ∀ y ∈ sortByIndex breaker t, y ∈ t := by
                intro y hy
                exact mem_dedupKeep.mp (mem_sortBy.mp hy)
              rw [hsort] at hsub
              exact List.Forall₂.cons (hsub x List.mem_cons_self)
                (ih _ r' (tsInv_set hinv t xs (fun y hy => hsub y (List.mem_cons_of_mem _ hy))) hr')
        · cases h

theorem breakLoop_cands (breaker : List Cand) (pre : List Cand) (rest : List Slot) (ts : TieState) :
    breakLoop breaker (pre.map Slot.cand ++ rest) ts =
      (match breakLoop breaker rest ts with
       | .ok r => .ok (pre ++ r)
       | .error e => .error e) := by
  induction pre with
  | nil => simp only [List.map_nil, List.nil_append]; cases breakLoop breaker rest ts <;> rfl
  | cons c cs ih =>
    simp only [List.map_cons, List.cons_append, breakLoop, ih, bind, Except.bind]
    cases breakLoop breaker rest ts <;> rfl

/-- repeated places of one tie whose remaining members are already recorded: they are handed out in order -/
theorem breakLoop_replicate_found (breaker : List Cand) (t : List Cand) :
    ∀ (k : Nat) (ts : TieState) (rem : List Cand), tsFind ts t = some rem → k ≤ rem.length →
      breakLoop breaker (List.replicate k (Slot.tie t)) ts = .ok (rem.take k) := by
  intro k
  induction k with
  | zero => intro ts rem _ _; simp [breakLoop]
  | succ k ih =>
    intro ts rem hf hk
    cases rem with
    | nil => simp at hk
    | cons x xs =>
      simp only [List.replicate_succ, breakLoop, hf]
      cases k with
      | zero => simp [breakLoop, bind, Except.bind, pure, Except.pure]
      | succ k' =>
        have hlen : (x :: xs).length > 1 := by simp at hk ⊢; omega
        rw [if_pos hlen, ih (tsSet ts t xs) xs (tsFind_tsSet ts t xs) (by simp at hk; omega)]
        simp [bind, Except.bind, pure, Except.pure]

/-- the places of a tie that was not met before: its members by list order, as many as there are places -/
theorem breakLoop_replicate_new (breaker : List Cand) (t : List Cand) (k : Nat) (ts : TieState)
    (hnew : tsFind ts t = none) (hall : ∀ c ∈ t, c ∈ breaker) (hk : k ≤ (sortByIndex breaker t).length) :
    breakLoop breaker (List.replicate k (Slot.tie t)) ts = .ok ((sortByIndex breaker t).take k) := by
  cases k with
  | zero => simp [breakLoop]
  | succ k =>
    have hall' : (t.all fun c => breaker.contains c) = true := by
      simpa [List.all_eq_true] using hall
    cases hs : sortByIndex breaker t with
    | nil => rw [hs] at hk; simp at hk
    | cons x xs =>
      rw [hs] at hk
      simp only [List.replicate_succ, breakLoop, hnew, hall', if_true, hs]
      rw [breakLoop_replicate_found breaker t k (tsSet ts t xs) xs (tsFind_tsSet ts t xs) (by simp at hk; omega)]
      simp [bind, Except.bind, pure, Except.pure]

/-- counting the level set -/
theorem cntGe_eq_cntGt_add_level (votes : Votes) (t : Rat) :
    cntGe votes t = cntGt votes t + (level votes t).length := by
  unfold cntGe cntGt level
  induction votes with
  | nil => simp
  | cons x xs ih =>
    simp only [List.length_map] at ih ⊢
    rcases lt_trichotomy x.2 t with h | h | h
    · have h1 : ¬ t ≤ x.2 := not_le.mpr h
      have h2 : ¬ t < x.2 := fun hh => h1 (le_of_lt hh)
      have h3 : ¬ x.2 = t := ne_of_lt h
      simp [h1, h2, h3, ih]
    · have h1 : t ≤ x.2 := le_of_eq h.symm
      have h2 : ¬ t < x.2 := by rw [h]; exact lt_irrefl _
      simp [h, ih]; omega
    · have h1 : t ≤ x.2 := le_of_lt h
      have h3 : ¬ x.2 = t := ne_of_gt h
      simp [h1, h, h3, ih]; omega

end VL
