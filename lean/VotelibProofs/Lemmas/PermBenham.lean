/-
  C10, Condorcet / instant-runoff hybrids (model VotelibModel/CondorcetRanked.lean, owned by C05): Benham does not depend on
  the order in which the ballots are presented.  Simulation through the loop: the two current profiles are permutations
  of each other; every quantity the loop computes from a profile (`all_ranked_candidates`, the pairwise dictionary, first
  preference totals, the subsetted profile) is the same up to insertion order, the Condorcet winner is literally the same
  (`condorcetWinner_perm`), and the elimination ends in `getNBest` (`getNBest_perm`).
  No well-formedness hypothesis is needed (ballots may repeat, may name a candidate twice, may share ranks).
-/
import VotelibProofs.Lemmas.PermCondorcet
import VotelibProofs.Lemmas.PermConvert
import VotelibProofs.Lemmas.Hybrids
namespace VL.Perm.Hyb
open VL VL.Condorcet VL.C10

/-! ### the two `defaultdict` increments are the generic one of C13 -/

theorem padd_eq (m : Pairwise) (p : Pair) (x : Rat) : padd m p x = Convert.addTo m p x := by
  induction m with
  | nil => rfl
  | cons e es ih => obtain ⟨q, y⟩ := e; simp only [padd, Convert.addTo, ih]

theorem badd_eq (m : Profile) (b : Ballot) (x : Rat) : badd m b x = Convert.addTo m b x := by
  induction m with
  | nil => rfl
  | cons e es ih => obtain ⟨q, y⟩ := e; simp only [badd, Convert.addTo, ih]

/-! ### `all_ranked_candidates` -/

theorem mem_allRanked_iff (p : Profile) (c : Cand) :
    c ∈ allRankedCandidates p ↔ ∃ b ∈ p, c ∈ b.1.flatMap itemCands :=
  ⟨mem_allRanked, fun ⟨_, hb, hc⟩ => item_mem_allRanked hb hc⟩

theorem nodup_allRanked (p : Profile) : (allRankedCandidates p).Nodup := by
  unfold allRankedCandidates; exact nodup_uniq _

theorem allRanked_perm {p₁ p₂ : Profile} (h : p₁.Perm p₂) :
    (allRankedCandidates p₁).Perm (allRankedCandidates p₂) := by
  rw [List.perm_ext_iff_of_nodup (nodup_allRanked _) (nodup_allRanked _)]
  intro c
  rw [mem_allRanked_iff, mem_allRanked_iff]
  constructor
  · rintro ⟨b, hb, hc⟩; exact ⟨b, h.mem_iff.mp hb, hc⟩
  · rintro ⟨b, hb, hc⟩; exact ⟨b, h.mem_iff.mpr hb, hc⟩

/-! ### the pairwise dictionary of a profile -/

theorem ballotPairs_perm (a a' : List Cand) (b : Ballot) {u₁ u₂ : List Cand} (h : u₁.Perm u₂) :
    (ballotPairs a b u₁).Perm (ballotPairs a' b u₂) := by
  induction b with
  | nil => simp [ballotPairs]
  | cons it rest ih =>
    simp only [ballotPairs]
    refine List.Perm.append ?_ ih
    apply List.Perm.flatMap_left
    intro u _
    exact List.Perm.append_left _ (h.map _)

/-- the pairs a ballot contributes when the candidate universe is `A` -/
def emits (A : List Cand) (b : Ballot) : List Pair :=
  ballotPairs A b (A.filter (fun c => !(b.flatMap itemCands).contains c))

theorem emits_perm {A₁ A₂ : List Cand} (h : A₁.Perm A₂) (b : Ballot) : (emits A₁ b).Perm (emits A₂ b) :=
  ballotPairs_perm _ _ b (h.filter _)

/-- `RankedToCondorcetVotes.convert` with the candidate universe as a parameter -/
def r2cWith (A : List Cand) (p : Profile) : Pairwise :=
  p.foldl (fun counts bw => (emits A bw.1).foldl (fun cs pr => Convert.addTo cs pr bw.2) counts) []

theorem r2c_eq (p : Profile) : rankedToCondorcet p = r2cWith (allRankedCandidates p) p := by
  unfold rankedToCondorcet r2cWith emits
  simp only [padd_eq]

theorem toFun_r2cWith (A : List Cand) (p : Profile) (k : Pair) :
    Convert.toFun (r2cWith A p) k = Convert.wsum p (fun b => Convert.cnt (emits A b) k) := by
  unfold r2cWith
  rw [Convert.toFun_foldl_step (κ := Pair) (β := Ballot) _ (fun b k => Convert.cnt (emits A b) k)]
  · simp
  · intro acc bw k
    exact Convert.toFun_foldl_addTo_const _ _ _ _

theorem mem_keys_r2cWith (A : List Cand) (p : Profile) (k : Pair) :
    k ∈ Convert.dkeys (r2cWith A p) ↔ ∃ bw ∈ p, k ∈ emits A bw.1 := by
  unfold r2cWith
  rw [mem_dkeys_foldl_step (κ := Pair) (β := Ballot) _ (emits A)]
  · simp [Convert.dkeys]
  · intro acc bw k
    exact mem_dkeys_foldl_addTo_const _ _ _ _

theorem nodup_keys_r2cWith (A : List Cand) (p : Profile) : (Convert.dkeys (r2cWith A p)).Nodup := by
  unfold r2cWith
  apply Convert.nodup_foldl_step
  · intro acc bw hacc
    exact Convert.nodup_foldl_addTo_const _ _ hacc
  · simp [Convert.dkeys]

theorem nodup_keys_r2c (p : Profile) : ((rankedToCondorcet p).map (·.1)).Nodup := by
  rw [r2c_eq]; exact nodup_keys_r2cWith _ p

/-- the pairwise dictionary of a profile: the same items, whatever the order of the ballots -/
theorem r2c_perm {p₁ p₂ : Profile} (h : p₁.Perm p₂) : (rankedToCondorcet p₁).Perm (rankedToCondorcet p₂) := by
  rw [r2c_eq, r2c_eq]
  have hA := allRanked_perm h
  refine dict_perm_of_toFun_eq (nodup_keys_r2cWith _ _) (nodup_keys_r2cWith _ _) (fun k => ?_) (fun k => ?_)
  · rw [mem_keys_r2cWith, mem_keys_r2cWith]
    constructor
    · rintro ⟨bw, hb, hk⟩; exact ⟨bw, h.mem_iff.mp hb, (emits_perm hA bw.1).mem_iff.mp hk⟩
    · rintro ⟨bw, hb, hk⟩; exact ⟨bw, h.mem_iff.mpr hb, (emits_perm hA bw.1).mem_iff.mpr hk⟩
  · rw [toFun_r2cWith, toFun_r2cWith, Convert.wsum_perm h]
    apply Convert.wsum_congr
    intro bw _
    exact Convert.cnt_perm (emits_perm hA bw.1) k

theorem benhamCW_perm {p₁ p₂ : Profile} (h : p₁.Perm p₂) : benhamCW p₁ = benhamCW p₂ := by
  unfold benhamCW
  rw [condorcetWinner_perm (r2c_perm h) (nodup_keys_r2c p₁)]

/-! ### the subsetted profile -/

theorem subsetBallot_congr {S₁ S₂ : List Cand} (h : ∀ c, c ∈ S₁ ↔ c ∈ S₂) (b : Ballot) :
    subsetBallot S₁ b = subsetBallot S₂ b := by
  have hc : ∀ c, S₁.contains c = S₂.contains c := by
    intro c
    rw [Bool.eq_iff_iff, List.contains_iff_mem, List.contains_iff_mem, h]
  induction b with
  | nil => rfl
  | cons it rest ih =>
    cases it with
    | one c => simp only [subsetBallot, hc, ih]
    | shared cs => simp only [subsetBallot, hc, ih]

/-- `SubsettedVotes.convert` as a fold of the generic increment -/
theorem subsetProfile_eq (p : Profile) (S : List Cand) :
    subsetProfile p S = p.foldl (fun acc bw => Convert.addTo acc (subsetBallot S bw.1) bw.2) [] := by
  unfold subsetProfile
  simp only [badd_eq]

theorem toFun_subsetProfile (p : Profile) (S : List Cand) (k : Ballot) :
    Convert.toFun (subsetProfile p S) k = Convert.wsum p (fun b => if subsetBallot S b = k then 1 else 0) := by
  rw [subsetProfile_eq,
    Convert.toFun_foldl_step (κ := Ballot) (β := Ballot) _ (fun b k => if subsetBallot S b = k then 1 else 0)]
  · simp
  · intro acc bw k
    rw [Convert.toFun_addTo]
    by_cases hk : subsetBallot S bw.1 = k <;> simp [hk]

theorem mem_keys_subsetProfile (p : Profile) (S : List Cand) (k : Ballot) :
    k ∈ Convert.dkeys (subsetProfile p S) ↔ ∃ bw ∈ p, k = subsetBallot S bw.1 := by
  rw [subsetProfile_eq, mem_dkeys_foldl_step (κ := Ballot) (β := Ballot) _ (fun b => [subsetBallot S b])]
  · simp [Convert.dkeys]
  · intro acc bw k
    rw [Convert.mem_dkeys_addTo]
    simp

theorem nodup_keys_subsetProfile (p : Profile) (S : List Cand) : (Convert.dkeys (subsetProfile p S)).Nodup := by
  rw [subsetProfile_eq]
  apply Convert.nodup_foldl_step
  · intro acc bw hacc
    exact Convert.nodup_dkeys_addTo hacc _ _
  · simp [Convert.dkeys]

/-- subsetting permuted profiles by the same candidate set gives permuted profiles -/
theorem subsetProfile_perm {p₁ p₂ : Profile} (h : p₁.Perm p₂) {S₁ S₂ : List Cand} (hS : ∀ c, c ∈ S₁ ↔ c ∈ S₂) :
    (subsetProfile p₁ S₁).Perm (subsetProfile p₂ S₂) := by
  have hb : subsetBallot S₁ = subsetBallot S₂ := funext (subsetBallot_congr hS)
  refine dict_perm_of_toFun_eq (nodup_keys_subsetProfile _ _) (nodup_keys_subsetProfile _ _) (fun k => ?_) (fun k => ?_)
  · rw [mem_keys_subsetProfile, mem_keys_subsetProfile, hb]
    constructor
    · rintro ⟨bw, hbw, hk⟩; exact ⟨bw, h.mem_iff.mp hbw, hk⟩
    · rintro ⟨bw, hbw, hk⟩; exact ⟨bw, h.mem_iff.mpr hbw, hk⟩
  · rw [toFun_subsetProfile, toFun_subsetProfile, hb, Convert.wsum_perm h]

/-! ### first preferences and the elimination -/

/-- what one ballot adds to the first-preference total of `c` -/
def fpc (c : Cand) (bw : Ballot × Rat) : Rat :=
  match bw.1 with
  | [] => 0
  | .one d :: _ => if d = c then bw.2 else 0
  | .shared cs :: _ => if cs.contains c then bw.2 / (cs.length : Rat) else 0

theorem firstPrefTotals_eq (p : Profile) :
    firstPrefTotals p = (allRankedCandidates p).map (fun c => (c, p.foldl (fun acc bw => acc + fpc c bw) 0)) := by
  unfold firstPrefTotals
  apply List.map_congr_left
  intro c _
  congr 1
  congr 1
  funext acc bw
  obtain ⟨b, w⟩ := bw
  cases b with
  | nil => simp [fpc]
  | cons it rest =>
    cases it with
    | one d => by_cases h : d = c <;> simp [fpc, h]
    | shared cs => by_cases h : c ∈ cs <;> simp [fpc, h]

theorem fpFold_perm (c : Cand) {p₁ p₂ : Profile} (h : p₁.Perm p₂) :
    p₁.foldl (fun acc bw => acc + fpc c bw) 0 = p₂.foldl (fun acc bw => acc + fpc c bw) 0 :=
  h.foldl_eq' (fun x _ y _ z => by
    show z + fpc c x + fpc c y = z + fpc c y + fpc c x
    ring) 0

theorem firstPrefTotals_perm {p₁ p₂ : Profile} (h : p₁.Perm p₂) :
    (firstPrefTotals p₁).Perm (firstPrefTotals p₂) := by
  rw [firstPrefTotals_eq, firstPrefTotals_eq]
  have : (fun c => (c, p₁.foldl (fun acc bw => acc + fpc c bw) 0)) =
      (fun c => (c, p₂.foldl (fun acc bw => acc + fpc c bw) 0)) := funext (fun c => by rw [fpFold_perm c h])
  rw [this]
  exact (allRanked_perm h).map _

theorem eliminateOneRaw_perm {p₁ p₂ : Profile} (h : p₁.Perm p₂) :
    ExceptEquiv SlotsEquiv (eliminateOneRaw p₁) (eliminateOneRaw p₂) := by
  have ht := firstPrefTotals_perm h
  unfold eliminateOneRaw
  simp only
  rw [ht.length_eq]
  match (firstPrefTotals p₂).length with
  | 0 => exact rfl
  | 1 => exact ⟨[], [], [], [], 0, rfl, rfl, List.Perm.refl _, List.Perm.refl _⟩
  | m + 2 => exact getNBest_perm _ _ ht (m + 1)

/-! ### what equivalent selections share -/

theorem slotCands_cons_cand (c : Cand) (l : List Slot) : slotCands (Slot.cand c :: l) = c :: slotCands l := rfl
theorem slotCands_cons_tie (T : List Cand) (l : List Slot) : slotCands (Slot.tie T :: l) = slotCands l := rfl

theorem slotCands_shape (e T : List Cand) (m : Nat) :
    slotCands (e.map Slot.cand ++ List.replicate m (Slot.tie T)) = e := by
  induction e with
  | nil =>
    induction m with
    | zero => rfl
    | succ k ih =>
      simp only [List.map_nil, List.nil_append, List.replicate_succ, slotCands_cons_tie] at ih ⊢
      exact ih
  | cons x xs ih => simp only [List.map_cons, List.cons_append, slotCands_cons_cand, ih]

theorem slotCands_equiv {r₁ r₂ : List Slot} (h : SlotsEquiv r₁ r₂) : (slotCands r₁).Perm (slotCands r₂) := by
  obtain ⟨e₁, e₂, T₁, T₂, m, rfl, rfl, he, _⟩ := h
  rw [slotCands_shape, slotCands_shape]
  exact he

theorem length_equiv {r₁ r₂ : List Slot} (h : SlotsEquiv r₁ r₂) : r₁.length = r₂.length := by
  obtain ⟨e₁, e₂, T₁, T₂, m, rfl, rfl, he, _⟩ := h
  simp [he.length_eq]

theorem anyTie_shape (e T : List Cand) (m : Nat) :
    (e.map Slot.cand ++ List.replicate m (Slot.tie T)).any isTie = decide (0 < m) := by
  rw [List.any_append]
  have h1 : (e.map Slot.cand).any isTie = false := by
    rw [List.any_eq_false]; intro s hs; obtain ⟨c, _, rfl⟩ := List.mem_map.1 hs; simp [isTie]
  rw [h1, Bool.false_or]
  cases m with
  | zero => rfl
  | succ k => simp [List.replicate_succ, isTie]

/-- equivalent selections both contain a tie or neither does (the refusal test of fix 30bd79e) -/
theorem anyTie_equiv {r₁ r₂ : List Slot} (h : SlotsEquiv r₁ r₂) : r₁.any isTie = r₂.any isTie := by
  obtain ⟨e₁, e₂, T₁, T₂, m, rfl, rfl, _, _⟩ := h
  rw [anyTie_shape, anyTie_shape]

/-- `eliminate_one` with its refusal of a tied elimination (fix 30bd79e) -/
theorem eliminateOne_perm {p₁ p₂ : Profile} (h : p₁.Perm p₂) :
    ExceptEquiv SlotsEquiv (eliminateOne p₁) (eliminateOne p₂) := by
  have hr := eliminateOneRaw_perm h
  unfold eliminateOne
  cases h1 : eliminateOneRaw p₁ <;> cases h2 : eliminateOneRaw p₂ <;> rw [h1, h2] at hr
  · exact hr
  · exact hr.elim
  · exact hr.elim
  · have hr' : SlotsEquiv _ _ := hr
    simp only
    rw [length_equiv hr', anyTie_equiv hr']
    split
    · exact rfl
    · exact hr'

/-! ### the loop -/

theorem benhamLoop_perm {v₁ v₂ : Profile} (hv : v₁.Perm v₂) : ∀ (f : Nat) (cur₁ cur₂ : Profile), cur₁.Perm cur₂ →
    ExceptEquiv SlotsEquiv (benhamLoop v₁ f cur₁) (benhamLoop v₂ f cur₂) := by
  intro f
  induction f with
  | zero => intro _ _ _; exact rfl
  | succ f ih =>
    intro cur₁ cur₂ hc
    unfold benhamLoop
    rw [benhamCW_perm hc]
    cases benhamCW cur₂ with
    | some c => exact slotsEquiv_cands [c]
    | none =>
      have he := eliminateOne_perm hc
      cases h1 : eliminateOne cur₁ with
      | error e₁ =>
        cases h2 : eliminateOne cur₂ with
        | error e₂ => rw [h1, h2] at he; exact he
        | ok r₂ => rw [h1, h2] at he; exact he.elim
      | ok r₁ =>
        cases h2 : eliminateOne cur₂ with
        | error e₂ => rw [h1, h2] at he; exact he.elim
        | ok r₂ =>
          rw [h1, h2] at he
          have he' : SlotsEquiv r₁ r₂ := he
          simp only
          rw [length_equiv he']
          split
          · exact he'
          · exact ih _ _ (subsetProfile_perm hv (fun c => (slotCands_equiv he').mem_iff))

end VL.Perm.Hyb

namespace VL.Perm
open VL VL.Condorcet VL.C10

/-- **Benham: ballot-order independence** — every profile, no well-formedness assumption: the same exception, or
    equivalent selections (the same winner, or the same tie as a set) -/
theorem benhamCore_perm {p₁ p₂ : Profile} (h : p₁.Perm p₂) : ExceptEquiv SlotsEquiv (benhamCore p₁) (benhamCore p₂) := by
  unfold benhamCore
  rw [(Hyb.allRanked_perm h).length_eq]
  exact Hyb.benhamLoop_perm h _ _ _ h

/-- a permutation of a one-element list is that list: the lone-candidate test of the repaired evaluators (fixes 1230cf6,
    bddde61) gives the same answer for both presentations -/
theorem lone_of_perm {A₁ A₂ : List Cand} (h : A₁.Perm A₂) (c : Cand) : A₁ = [c] ↔ A₂ = [c] :=
  ⟨fun e => List.perm_singleton.mp (e ▸ h).symm, fun e => List.perm_singleton.mp (e ▸ h)⟩

theorem slotsEquiv_single_cand (c : Cand) : SlotsEquiv [Slot.cand c] [Slot.cand c] :=
  ⟨[c], [c], [], [], 0, rfl, rfl, List.Perm.refl _, List.Perm.refl _⟩

theorem benham_perm {p₁ p₂ : Profile} (h : p₁.Perm p₂) : ExceptEquiv SlotsEquiv (benham p₁) (benham p₂) := by
  have hA := Hyb.allRanked_perm h
  by_cases hl : ∃ c, allRankedCandidates p₁ = [c]
  · obtain ⟨c, hc⟩ := hl
    rw [benham_lone hc, benham_lone ((lone_of_perm hA c).mp hc)]
    exact slotsEquiv_single_cand c
  · have h1 : ∀ c, allRankedCandidates p₁ ≠ [c] := fun c e => hl ⟨c, e⟩
    have h2 : ∀ c, allRankedCandidates p₂ ≠ [c] := fun c e => hl ⟨c, (lone_of_perm hA c).mpr e⟩
    rw [benham_of_not_lone h1, benham_of_not_lone h2]
    exact benhamCore_perm h

example : ([([RankItem.one 0, .one 1, .one 2], (2 : Rat)), ([.one 1, .one 2, .one 0], 2), ([.one 2, .one 0, .one 1], 2)] :
    Profile).Perm [([RankItem.one 2, .one 0, .one 1], (2 : Rat)), ([.one 0, .one 1, .one 2], 2), ([.one 1, .one 2, .one 0], 2)] := by
  decide +kernel

end VL.Perm
