/-
  C10, family 3 (renaming): `ApprovalToSimpleVotes` and `RankedToPositionalVotes` commute with every injective renaming of
  the candidates.  A frozenset (approval ballot, shared rank) is kept in canonical form by the models, so the renamed set is
  re-canonicalised (`renSet`); the converted dict of the renamed profile is the renamed dict up to insertion order.
-/
import VotelibProofs.Lemmas.PermConvert
namespace VL.Perm
open VL VL.Convert VL.C10

/-- the renamed frozenset, in canonical form -/
def renSet (σ : Cand → Cand) (b : List Cand) : List Cand := canonSet (b.map σ)
def renAProfile (σ : Cand → Cand) (p : AProfile) : AProfile := p.map (fun bw => (renSet σ bw.1, bw.2))
def renItem (σ : Cand → Cand) : RankItem → RankItem
  | .one c => .one (σ c)
  | .shared cs => .shared (renSet σ cs)
def renBallot (σ : Cand → Cand) (b : Ballot) : Ballot := b.map (renItem σ)
def renRProfile (σ : Cand → Cand) (p : RProfile) : RProfile := p.map (fun bw => (renBallot σ bw.1, bw.2))

theorem wsum_map {β γ : Type} (f : β → γ) (p : Dict β) (g : γ → Rat) :
    wsum (p.map (fun bw => (f bw.1, bw.2))) g = wsum p (fun b => g (f b)) := by
  unfold wsum; rw [List.map_map]; rfl

theorem toFun_renVotes (σ : Cand → Cand) (hσ : Function.Injective σ) (d : Dict Cand) (k : Cand) :
    toFun (renVotes σ d) (σ k) = toFun d k := by
  unfold toFun renVotes
  rw [List.map_map]
  congr 1
  apply List.map_congr_left
  intro e _
  simp only [Function.comp]
  by_cases h : e.1 = k
  · simp [h]
  · have : σ e.1 ≠ σ k := fun hh => h (hσ hh)
    simp [h, this]

/-- a dict whose keys are the images of the keys of `d` and whose values agree is the renamed `d` up to order -/
theorem dict_perm_ren (σ : Cand → Cand) (hσ : Function.Injective σ) {d' d : Dict Cand} (h1 : (dkeys d').Nodup) (h2 : (dkeys d).Nodup)
    (hk : ∀ k', k' ∈ dkeys d' ↔ ∃ k ∈ dkeys d, σ k = k') (hf : ∀ k, toFun d' (σ k) = toFun d k) :
    d'.Perm (renVotes σ d) := by
  have hkeys : dkeys (renVotes σ d) = (dkeys d).map σ := by unfold dkeys renVotes; rw [List.map_map, List.map_map]; rfl
  refine dict_perm_of_toFun_eq h1 (by rw [hkeys]; exact h2.map hσ) (fun k' => ?_) (fun k' => ?_)
  · rw [hk, hkeys, List.mem_map]
  · by_cases hin : k' ∈ dkeys d'
    · obtain ⟨k, _, rfl⟩ := (hk k').mp hin
      rw [hf, toFun_renVotes σ hσ]
    · rw [toFun_eq_zero_of_not_mem hin, toFun_eq_zero_of_not_mem]
      rw [hkeys, List.mem_map]
      exact fun hh => hin ((hk k').mpr hh)

section
variable (σ : Cand → Cand) (hσ : Function.Injective σ)
include hσ

theorem renSet_perm {b : List Cand} (hb : b.Nodup) : (renSet σ b).Perm (b.map σ) := by
  refine (List.perm_ext_iff_of_nodup (nodup_canonSet _) (hb.map hσ)).mpr (fun c => ?_)
  exact mem_canonSet c _

theorem cnt_renSet {b : List Cand} (hb : b.Nodup) (c : Cand) : cnt (renSet σ b) (σ c) = cnt b c := by
  rw [cnt_perm (renSet_perm σ hσ hb)]
  unfold cnt
  rw [List.count_map_of_injective _ _ hσ]

theorem length_renSet {b : List Cand} (hb : b.Nodup) : (renSet σ b).length = b.length := by
  rw [(renSet_perm σ hσ hb).length_eq, List.length_map]

omit hσ in
theorem mem_renSet (b : List Cand) (c' : Cand) : c' ∈ renSet σ b ↔ ∃ c ∈ b, σ c = c' := by
  unfold renSet; rw [mem_canonSet, List.mem_map]

/-! ### ApprovalToSimpleVotes -/

theorem approvalImage_ren (split : Bool) {b : Approval} (hb : b.Nodup) (c : Cand) :
    approvalImage split (renSet σ b) (σ c) = approvalImage split b c := by
  unfold approvalImage
  rw [cnt_renSet σ hσ hb, length_renSet σ hσ hb]

/-- **ApprovalToSimpleVotes: renaming equivariance** (duplicate-free ballots): the same exception, or the renamed totals -/
theorem approvalToSimple_ren (split : Bool) (p : AProfile) (hwf : ∀ bw ∈ p, bw.1.Nodup) :
    ExceptEquiv List.Perm (approvalToSimple split (renAProfile σ p)) ((approvalToSimple split p).map (renVotes σ)) := by
  have hokiff : C13.ApprovalOK split (renAProfile σ p) ↔ C13.ApprovalOK split p := by
    unfold C13.ApprovalOK renAProfile
    constructor
    · intro h hs bw hbw he
      refine h hs (renSet σ bw.1, bw.2) (List.mem_map.2 ⟨bw, hbw, rfl⟩) ?_
      have := length_renSet σ hσ (hwf bw hbw)
      simp only
      apply List.length_eq_zero_iff.mp
      rw [this, he]; rfl
    · intro h hs bw' hbw' he
      obtain ⟨bw, hbw, rfl⟩ := List.mem_map.1 hbw'
      have := length_renSet σ hσ (hwf bw hbw)
      simp only at he
      rw [he] at this
      exact h hs bw hbw (List.length_eq_zero_iff.mp (by simpa using this.symm))
  by_cases hok : C13.ApprovalOK split p
  · have hok' := hokiff.mpr hok
    obtain ⟨d, e1, n1, f1⟩ := C13.approvalToSimple_sum split p hok
    obtain ⟨d', e2, n2, f2⟩ := C13.approvalToSimple_sum split _ hok'
    have k1 := approvalToSimple_eq_ok split p hok
    have k2 := approvalToSimple_eq_ok split _ hok'
    rw [e1, e2]
    simp only [Except.map]
    refine dict_perm_ren σ hσ n2 n1 (fun k' => ?_) (fun k => ?_)
    · rw [k1] at e1; rw [k2] at e2
      injection e1 with e1; injection e2 with e2
      rw [← e1, ← e2, mem_dkeys_approval]
      simp only [mem_dkeys_approval]
      unfold renAProfile
      constructor
      · rintro ⟨bw', hbw', hk⟩
        obtain ⟨bw, hbw, rfl⟩ := List.mem_map.1 hbw'
        obtain ⟨c, hc, rfl⟩ := (mem_renSet σ bw.1 k').mp hk
        exact ⟨c, ⟨bw, hbw, hc⟩, rfl⟩
      · rintro ⟨c, ⟨bw, hbw, hc⟩, rfl⟩
        exact ⟨(renSet σ bw.1, bw.2), List.mem_map.2 ⟨bw, hbw, rfl⟩, (mem_renSet σ bw.1 _).mpr ⟨c, hc, rfl⟩⟩
    · rw [f1, f2]
      unfold renAProfile
      rw [wsum_map]
      exact wsum_congr (fun bw hbw => approvalImage_ren σ hσ split (hwf bw hbw) k)
  · have hok' : ¬ C13.ApprovalOK split (renAProfile σ p) := fun hh => hok (hokiff.mp hh)
    have hs : split = true := by
      cases split with
      | true => rfl
      | false => exact absurd (fun hh => by cases hh) hok
    subst hs
    rw [C13.approvalToSimple_rejects p hok, C13.approvalToSimple_rejects _ hok']
    exact rfl

/-! ### RankedToPositionalVotes -/

/-- shared ranks list each member once -/
def RankedWF (p : RProfile) : Prop := ∀ bw ∈ p, ∀ it ∈ bw.1, it.cands.Nodup

omit hσ in
instance (p : RProfile) : Decidable (RankedWF p) := by unfold RankedWF; infer_instance

theorem cnt_renItem {it : RankItem} (hit : it.cands.Nodup) (k : Cand) :
    cnt (renItem σ it).cands (σ k) = cnt it.cands k := by
  cases it with
  | one c =>
    simp only [renItem, RankItem.cands, cnt]
    rw [show [σ c] = [c].map σ from rfl, List.count_map_of_injective _ _ hσ]
  | shared cs => exact cnt_renSet σ hσ hit k

omit hσ in
theorem mem_renItem (it : RankItem) (c' : Cand) : c' ∈ (renItem σ it).cands ↔ ∃ c ∈ it.cands, σ c = c' := by
  cases it with
  | one c => simp [renItem, RankItem.cands, eq_comm]
  | shared cs => exact mem_renSet σ cs c'

omit hσ in
theorem mem_ballotCands_ren (b : Ballot) (c' : Cand) :
    c' ∈ ballotCands (renBallot σ b) ↔ ∃ c ∈ ballotCands b, σ c = c' := by
  rw [mem_ballotCands]
  unfold renBallot
  constructor
  · rintro ⟨it', hit', hc⟩
    obtain ⟨it, hit, rfl⟩ := List.mem_map.1 hit'
    obtain ⟨c, hc2, rfl⟩ := (mem_renItem σ it c').mp hc
    exact ⟨c, (mem_ballotCands b c).mpr ⟨it, hit, hc2⟩, rfl⟩
  · rintro ⟨c, hc, rfl⟩
    obtain ⟨it, hit, hc2⟩ := (mem_ballotCands b c).mp hc
    exact ⟨renItem σ it, List.mem_map.2 ⟨it, hit, rfl⟩, (mem_renItem σ it _).mpr ⟨c, hc2, rfl⟩⟩

theorem posFrom_ren (scores : List Rat) (r : Nat) (b : Ballot) (hb : ∀ it ∈ b, it.cands.Nodup) (k : Cand) :
    posFrom scores r (renBallot σ b) (σ k) = posFrom scores r b k := by
  induction b generalizing r with
  | nil => rfl
  | cons it rest ih =>
    have : renBallot σ (it :: rest) = renItem σ it :: renBallot σ rest := rfl
    rw [this]
    simp only [posFrom]
    rw [cnt_renItem σ hσ (hb it (by simp)), ih (r + 1) (fun it' h' => hb it' (by simp [h']))]

theorem posImage_ren (sc : Scorer) (n : Nat) (b : Ballot) (hb : ∀ it ∈ b, it.cands.Nodup) (k : Cand) :
    posImage sc n (renBallot σ b) (σ k) = posImage sc n b k := by
  unfold posImage
  have : (renBallot σ b).length = b.length := by unfold renBallot; simp
  rw [this, posFrom_ren σ hσ _ _ b hb]

theorem allRankedCandidates_ren (p : RProfile) :
    (allRankedCandidates (renRProfile σ p)).Perm ((allRankedCandidates p).map σ) := by
  refine (List.perm_ext_iff_of_nodup (nodup_allRankedCandidates _) ((nodup_allRankedCandidates p).map hσ)).mpr (fun c' => ?_)
  rw [mem_allRankedCandidates, List.mem_map]
  unfold renRProfile
  constructor
  · rintro ⟨bw', hbw', hc⟩
    obtain ⟨bw, hbw, rfl⟩ := List.mem_map.1 hbw'
    obtain ⟨c, hc2, rfl⟩ := (mem_ballotCands_ren σ bw.1 c').mp hc
    exact ⟨c, (mem_allRankedCandidates p c).mpr ⟨bw, hbw, hc2⟩, rfl⟩
  · rintro ⟨c, hc, rfl⟩
    obtain ⟨bw, hbw, hc2⟩ := (mem_allRankedCandidates p c).mp hc
    exact ⟨(renBallot σ bw.1, bw.2), List.mem_map.2 ⟨bw, hbw, rfl⟩, (mem_ballotCands_ren σ bw.1 _).mpr ⟨c, hc2, rfl⟩⟩

/-- **RankedToPositionalVotes: renaming equivariance**, for every rank scorer accepting the ballots: both profiles convert, and
    the score dict of the renamed profile is the renamed score dict up to order -/
theorem rankedToPositional_ren (sc : Scorer) (p : RProfile) (hwf : RankedWF p)
    (hs : C13.ScorerOK sc (allRankedCandidates p).length p) :
    ∃ d' d, rankedToPositional sc (renRProfile σ p) = .ok d' ∧ rankedToPositional sc p = .ok d ∧ d'.Perm (renVotes σ d) := by
  have hU := allRankedCandidates_ren σ hσ p
  have hlen : (allRankedCandidates (renRProfile σ p)).length = (allRankedCandidates p).length := by
    rw [hU.length_eq, List.length_map]
  have hs' : C13.ScorerOK sc (allRankedCandidates (renRProfile σ p)).length (renRProfile σ p) := by
    rw [hlen]
    intro bw' hbw'
    obtain ⟨bw, hbw, rfl⟩ := List.mem_map.1 hbw'
    have : (renBallot σ bw.1).length = bw.1.length := by unfold renBallot; simp
    simp only [this]
    exact hs bw hbw
  obtain ⟨d, e1, k1, n1, f1⟩ := C13.positional_sum sc _ p (C13.covers_allRankedCandidates p) hs
  obtain ⟨d', e2, k2, n2, f2⟩ := C13.positional_sum sc _ _ (C13.covers_allRankedCandidates (renRProfile σ p)) hs'
  refine ⟨d', d, e2, e1, dict_perm_ren σ hσ (n2 (nodup_allRankedCandidates _)) (n1 (nodup_allRankedCandidates p))
    (fun k' => ?_) (fun k => ?_)⟩
  · rw [k2, hU.mem_iff, List.mem_map]
    constructor
    · rintro ⟨c, hc, rfl⟩; exact ⟨c, (k1 c).mpr hc, rfl⟩
    · rintro ⟨c, hc, rfl⟩; exact ⟨c, (k1 c).mp hc, rfl⟩
  · rw [f1, f2, hlen]
    unfold renRProfile
    rw [wsum_map]
    exact wsum_congr (fun bw hbw => posImage_ren σ hσ sc _ bw.1 (hwf bw hbw) k)

end

end VL.Perm
