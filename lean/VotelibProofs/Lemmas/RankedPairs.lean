/-
  Ranked pairs with a Condorcet winner `w`: every pair `(w, x)` is locked, no pair `(x, w)` ever is, so
  `w` is the only possible first source of `_build_ranking`.
-/
import VotelibProofs.Lemmas.Kemeny
namespace VL.Condorcet
open VL

/-! ### the stable descending sort -/

theorem insertDescBy_perm (key : Pair → Rat) (x : Pair) (l : List Pair) : (insertDescBy key x l).Perm (x :: l) := by
  induction l with
  | nil => exact List.Perm.refl _
  | cons y ys ih =>
    unfold insertDescBy
    split
    · exact ((List.Perm.cons y ih).trans (List.Perm.swap x y ys))
    · exact List.Perm.refl _

theorem sortDescBy_perm (key : Pair → Rat) (l : List Pair) : (sortDescBy key l).Perm l := by
  induction l with
  | nil => exact List.Perm.refl _
  | cons x xs ih => exact (insertDescBy_perm key x _).trans (List.Perm.cons x ih)

theorem insertDescBy_sorted (key : Pair → Rat) (x : Pair) (l : List Pair)
    (h : l.Pairwise (fun a b => key b ≤ key a)) : (insertDescBy key x l).Pairwise (fun a b => key b ≤ key a) := by
  induction l with
  | nil => simp [insertDescBy]
  | cons y ys ih =>
    unfold insertDescBy
    rw [List.pairwise_cons] at h
    split
    · rename_i hlt
      rw [List.pairwise_cons]
      refine ⟨?_, ih h.2⟩
      intro z hz
      rcases List.mem_cons.1 ((insertDescBy_perm key x ys).subset hz) with rfl | hz'
      · exact le_of_lt hlt
      · exact h.1 z hz'
    · rename_i hnlt
      rw [List.pairwise_cons]
      refine ⟨?_, List.pairwise_cons.2 h⟩
      intro z hz
      rcases List.mem_cons.1 hz with rfl | hz'
      · exact not_lt.1 hnlt
      · exact le_trans (h.1 z hz') (not_lt.1 hnlt)

theorem sortDescBy_sorted (key : Pair → Rat) (l : List Pair) :
    (sortDescBy key l).Pairwise (fun a b => key b ≤ key a) := by
  induction l with
  | nil => simp [sortDescBy]
  | cons x xs ih => exact insertDescBy_sorted key x _ ih

/-- in a list sorted by non-increasing key, an element with a strictly larger key stands before -/
theorem mem_prefix_of_key_gt {key : Pair → Rat} {l pre post : List Pair} {a b : Pair}
    (hs : l.Pairwise (fun a b => key b ≤ key a)) (hl : l = pre ++ b :: post) (ha : a ∈ l) (hk : key b < key a) :
    a ∈ pre := by
  subst hl
  rcases List.mem_append.1 ha with h | h
  · exact h
  · exfalso
    rcases List.mem_cons.1 h with rfl | h'
    · exact lt_irrefl _ hk
    · have := (List.pairwise_append.1 hs).2.1
      have := (List.pairwise_cons.1 this).1 a h'
      exact absurd hk (not_lt.2 this)

/-! ### `_is_path` -/

theorem pathSweep_not_found {pairs : List Pair} {sink : Cand} (h : ∀ e ∈ pairs, e.2 ≠ sink) (visited : List Cand) :
    (pathSweep pairs sink visited).2 = false := by
  unfold pathSweep
  apply foldl_preserves (fun st : List Cand × Bool => st.2 = false)
  · rfl
  · intro st e he hst
    simp only [hst, Bool.false_eq_true, if_false]
    split
    · simp only [beq_eq_false_iff_ne, ne_eq]
      exact h e he
    · exact hst

theorem isPathFuel_false {pairs : List Pair} {sink : Cand} (h : ∀ e ∈ pairs, e.2 ≠ sink) (f : Nat)
    (visited : List Cand) : isPathFuel pairs sink f visited = false := by
  induction f generalizing visited with
  | zero => rfl
  | succ f ih =>
    unfold isPathFuel
    simp only [pathSweep_not_found h visited, Bool.false_eq_true, if_false]
    split
    · rfl
    · exact ih _

/-- no locked pair leads into `sink`: there is no path to it -/
theorem isPath_false {pairs : List Pair} {source sink : Cand} (h : ∀ e ∈ pairs, e.2 ≠ sink) :
    isPath pairs source sink = false := isPathFuel_false h _ _

theorem pathSweep_found {pairs : List Pair} {source sink : Cand} (hne : source ≠ sink)
    (hmem : (source, sink) ∈ pairs) : (pathSweep pairs sink [source]).2 = true := by
  unfold pathSweep
  -- invariant: found, or (source visited and sink not yet visited)
  have key : ∀ (l : List Pair) (st : List Cand × Bool),
      (st.2 = true ∨ (source ∈ st.1 ∧ sink ∉ st.1)) →
      let st' := l.foldl (fun (st : List Cand × Bool) e =>
        if st.2 then st
        else if st.1.contains e.1 && !st.1.contains e.2 then (e.2 :: st.1, e.2 == sink)
        else st) st
      (st'.2 = true ∨ (source ∈ st'.1 ∧ sink ∉ st'.1)) ∧ ((source, sink) ∈ l → st'.2 = true) := by
    intro l
    induction l with
    | nil => intro st h; exact ⟨h, by simp⟩
    | cons e es ih =>
      intro st h
      simp only [List.foldl_cons]
      have hstep : (let st1 := (if st.2 then st
          else if st.1.contains e.1 && !st.1.contains e.2 then (e.2 :: st.1, e.2 == sink) else st);
          (st1.2 = true ∨ (source ∈ st1.1 ∧ sink ∉ st1.1)) ∧ (e = (source, sink) → st1.2 = true)) := by
        simp only
        rcases h with h | ⟨hs, hk⟩
        · simp [h]
        · cases hf : st.2 with
          | true => exact ⟨Or.inl hf, fun _ => hf⟩
          | false =>
            simp only [Bool.false_eq_true, if_false]
            by_cases hc : (st.1.contains e.1 && !st.1.contains e.2) = true
            · rw [if_pos hc]
              simp only [beq_iff_eq, List.mem_cons]
              by_cases hes : e.2 = sink
              · exact ⟨Or.inl hes, fun _ => hes⟩
              · refine ⟨Or.inr ⟨Or.inr hs, ?_⟩, ?_⟩
                · rintro (h' | h')
                  · exact hes h'.symm
                  · exact hk h'
                · rintro rfl; exact absurd rfl hes
            · rw [if_neg hc]
              refine ⟨Or.inr ⟨hs, hk⟩, ?_⟩
              rintro rfl
              exfalso
              apply hc
              simp only [Bool.and_eq_true, List.contains_iff_mem, Bool.not_eq_true', ]
              refine ⟨hs, ?_⟩
              cases hcc : st.1.contains sink with
              | false => rfl
              | true => exact absurd (List.contains_iff_mem.1 hcc) hk
      obtain ⟨h1, h2⟩ := hstep
      obtain ⟨h3, h4⟩ := ih _ h1
      refine ⟨h3, ?_⟩
      intro hm
      rcases List.mem_cons.1 hm with heq | hm'
      · -- found at this step, stays found
        have hfound := h2 heq.symm
        have stay : ∀ (l : List Pair) (st : List Cand × Bool), st.2 = true →
            (l.foldl (fun (st : List Cand × Bool) e =>
              if st.2 then st
              else if st.1.contains e.1 && !st.1.contains e.2 then (e.2 :: st.1, e.2 == sink)
              else st) st).2 = true := by
          intro l
          induction l with
          | nil => intro st h; exact h
          | cons x xs ih2 => intro st h; simp only [List.foldl_cons, h, if_true]; exact ih2 st h
        exact stay es _ hfound
      · exact h4 hm'
  exact (key pairs ([source], false) (Or.inr ⟨by simp, by simpa using fun h : sink = source => hne h.symm⟩)).2 hmem

/-- a locked pair is a path -/
theorem isPath_true {pairs : List Pair} {source sink : Cand} (hne : source ≠ sink)
    (hmem : (source, sink) ∈ pairs) : isPath pairs source sink = true := by
  unfold isPath
  rw [show pairs.length + 2 = (pairs.length + 1) + 1 from rfl]
  unfold isPathFuel
  simp [pathSweep_found hne hmem]

/-! ### `_lock_pairs` with a Condorcet winner -/

theorem lockPairs_cw {pairs : List Pair} {w : Cand} (hself : ∀ p ∈ pairs, p.1 ≠ p.2)
    (hord : ∀ pre post x, pairs = pre ++ (x, w) :: post → (w, x) ∈ pre) :
    (∀ e ∈ lockPairs pairs, e.2 ≠ w) ∧ (∀ x, (w, x) ∈ pairs → (w, x) ∈ lockPairs pairs) := by
  unfold lockPairs
  -- generalise over the processed prefix
  have key : ∀ (rest pre : List Pair) (locked : List Pair), pairs = pre ++ rest →
      (∀ e ∈ locked, e.2 ≠ w) → (∀ x, (w, x) ∈ pre → (w, x) ∈ locked) →
      (∀ e ∈ rest.foldl (fun locked p => if !isPath locked p.2 p.1 then locked ++ [p] else locked) locked, e.2 ≠ w) ∧
      (∀ x, (w, x) ∈ pre ++ rest →
        (w, x) ∈ rest.foldl (fun locked p => if !isPath locked p.2 p.1 then locked ++ [p] else locked) locked) := by
    intro rest
    induction rest with
    | nil => intro pre locked _ h1 h2; simp only [List.foldl_nil, List.append_nil]; exact ⟨h1, h2⟩
    | cons p ps ih =>
      intro pre locked hsplit h1 h2
      simp only [List.foldl_cons]
      have hsplit' : pairs = (pre ++ [p]) ++ ps := by simp [hsplit]
      have hpmem : p ∈ pairs := by rw [hsplit]; simp
      have hres := ih (pre ++ [p]) (if !isPath locked p.2 p.1 then locked ++ [p] else locked) hsplit' ?_ ?_
      · refine ⟨hres.1, ?_⟩
        intro x hx
        apply hres.2 x
        simpa using hx
      · -- no edge into w
        intro e he
        by_cases hpw : p.2 = w
        · -- p = (x, w): (w, x) already locked, so there is a path and p is refused
          obtain ⟨a, b⟩ := p
          simp only at hpw
          subst hpw
          have hwa : (b, a) ∈ pre := hord pre ps a hsplit
          have hlocked := h2 a hwa
          have hne : b ≠ a := fun h => hself (a, b) hpmem h.symm
          rw [isPath_true hne hlocked] at he
          simp only [Bool.not_true, Bool.false_eq_true, if_false] at he
          exact h1 e he
        · split at he
          · rcases List.mem_append.1 he with h | h
            · exact h1 e h
            · simp only [List.mem_singleton] at h; subst h; exact hpw
          · exact h1 e he
      · -- every (w, x) of the prefix is locked
        intro x hx
        rcases List.mem_append.1 hx with h | h
        · have := h2 x h
          split
          · exact List.mem_append_left _ this
          · exact this
        · simp only [List.mem_singleton] at h
          subst h
          simp only
          rw [isPath_false h1]
          simp
  have := key pairs [] [] (by simp) (by simp) (by simp)
  simpa using this

/-! ### `_build_ranking` -/

theorem buildLoop_prefix (f : Nat) (edges : List Pair) (rk r : List Cand) (h : buildLoop f edges rk = .ok r) :
    rk <+: r := by
  induction f generalizing edges rk with
  | zero => simp [buildLoop] at h
  | succ f ih =>
    unfold buildLoop at h
    split at h
    · simp only [Except.ok.injEq] at h; subst h; exact List.prefix_refl _
    · simp only at h
      split at h
      · have := ih _ _ h
        exact (List.prefix_append rk _).trans this
      · simp at h

/-- when `w` has a locked win and no locked defeat, the ranking — if any — starts with `w` -/
theorem buildRanking_head {locked : List Pair} {w : Cand} (hin : ∀ e ∈ locked, e.2 ≠ w)
    {x : Cand} (hout : (w, x) ∈ locked) {r : List Cand} (h : buildRanking locked = .ok r) : r.head? = some w := by
  unfold buildRanking at h
  cases hb : buildLoop (locked.length + 1) locked [] with
  | error e => rw [hb] at h; simp [bind, Except.bind] at h
  | ok ranking =>
    rw [hb] at h
    simp only [bind, Except.bind] at h
    -- first round of the loop
    unfold buildLoop at hb
    have hne : locked.isEmpty = false := by
      cases locked with
      | nil => simp at hout
      | cons _ _ => rfl
    simp only [hne, Bool.false_eq_true, if_false] at hb
    have hw : w ∈ uniq ((locked.map (·.1)).filter (fun c => !(locked.map (·.2)).contains c)) := by
      rw [mem_uniq, List.mem_filter]
      refine ⟨List.mem_map.2 ⟨(w, x), hout, rfl⟩, ?_⟩
      simp only [Bool.not_eq_true', ]
      cases hc : (locked.map (·.2)).contains w with
      | false => rfl
      | true =>
        obtain ⟨e, he, hew⟩ := List.mem_map.1 (List.contains_iff_mem.1 hc)
        exact absurd hew (hin e he)
    split at hb
    · rename_i w' hwin
      rw [hwin] at hw
      simp only [List.mem_singleton] at hw
      subst hw
      have hpre := buildLoop_prefix _ _ _ _ hb
      simp only [List.nil_append] at hpre
      obtain ⟨t, rfl⟩ := hpre
      split at h
      · simp only [Except.ok.injEq] at h; subst h; rfl
      · simp at h
    · simp at hb

/-! ### the sorted keys -/

theorem pget_scorePairs {v : Pairwise} (hk : (v.map (·.1)).Nodup) (sc : Scorer) {p : Pair} (hp : p ∈ v.map (·.1)) :
    pget (scorePairs sc v) p = scoreOf sc v (p, pget v p) := by
  rw [scorePairs_eq]
  have hmem : (p, pget v p) ∈ v := by
    rcases pget_mem_or_zero v p with h | ⟨h, _⟩
    · exact h
    · exact absurd hp h
  apply pget_of_mem
  · simpa [List.map_map, Function.comp_def] using hk
  · exact List.mem_map.2 ⟨(p, pget v p), hmem, rfl⟩

/-- with a Condorcet winner `w`: whenever ranked pairs answers for one seat, it answers `[w]` -/
theorem rankedPairs_cw {v : Pairwise} (hwf : WF v) {w : Cand} (hw : IsCW v w) (sc : Scorer) {r : List Slot}
    (h : rankedPairs sc v 1 = .ok r) : r = [Slot.cand w] := by
  unfold rankedPairs at h
  simp only [bind, Except.bind] at h
  set s2 := sortDescBy (pget (scorePairs sc v)) (sortDescBy (pget v) (v.map (·.1))) with hs2
  have hperm : s2.Perm (v.map (·.1)) := (sortDescBy_perm _ _).trans (sortDescBy_perm _ _)
  have hsorted := sortDescBy_sorted (pget (scorePairs sc v)) (sortDescBy (pget v) (v.map (·.1)))
  rw [← hs2] at hsorted
  have hkey : ∀ p, p ∈ s2 ↔ p ∈ v.map (·.1) := fun p => hperm.mem_iff
  have hself : ∀ p ∈ s2, p.1 ≠ p.2 := by
    intro p hp
    obtain ⟨e, he, rfl⟩ := List.mem_map.1 ((hkey p).1 hp)
    exact hwf.2.1 e he
  have hwin_key : ∀ x ∈ candidates v, x ≠ w → (w, x) ∈ v.map (·.1) := by
    intro x hx hne
    have hb := hw.2 x hx hne
    have hpos : 0 < pget v (w, x) := lt_of_le_of_lt (pget_nonneg hwf _) hb
    exact List.mem_map.2 ⟨_, pget_pos_mem hpos, rfl⟩
  have hord : ∀ pre post x, s2 = pre ++ (x, w) :: post → (w, x) ∈ pre := by
    intro pre post x hsplit
    have hxw : (x, w) ∈ v.map (·.1) := (hkey _).1 (by rw [hsplit]; simp)
    obtain ⟨e, he, hee⟩ := List.mem_map.1 hxw
    have hxc : x ∈ candidates v := by have := fst_mem_candidates he; rw [hee] at this; exact this
    have hne : x ≠ w := by have := hwf.2.1 e he; rw [hee] at this; exact this
    have hb := hw.2 x hxc hne
    have hwx := hwin_key x hxc hne
    apply mem_prefix_of_key_gt hsorted hsplit ((hkey _).2 hwx)
    rw [pget_scorePairs hwf.1 sc hxw, pget_scorePairs hwf.1 sc hwx]
    unfold Beats at hb
    have hnn := pget_nonneg hwf (x, w)
    cases sc with
    | winningVotes =>
      simp only [scoreOf]
      rw [if_neg (not_lt.2 (le_of_lt hb)), if_pos hb]
      linarith
    | margins => simp only [scoreOf]; linarith
    | pairwiseOpposition => simp only [scoreOf]; exact hb
  obtain ⟨hin, hout⟩ := lockPairs_cw hself hord
  obtain ⟨o, ho, hne⟩ := exists_other hwf hw.1
  have hlocked : (w, o) ∈ lockPairs s2 := hout o ((hkey _).2 (hwin_key o ho hne))
  cases hb : buildRanking (lockPairs s2) with
  | error e => rw [hb] at h; simp at h
  | ok ranking =>
    rw [hb] at h
    simp only [Except.ok.injEq] at h
    have hh := buildRanking_head hin hlocked hb
    cases ranking with
    | nil => simp at hh
    | cons a rest =>
      simp only [List.head?_cons, Option.some.injEq] at hh
      subst hh
      rw [← h]; rfl

end VL.Condorcet
