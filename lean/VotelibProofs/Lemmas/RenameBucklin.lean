/-
  C10 — candidate-name independence of `PreferenceAddition` (Bucklin / Oklahoma), n seats.

  `renRProfile σ p` (RenameConvert.lean) renames every candidate and re-canonicalises the shared ranks, so the members
  of a shared rank are visited in another order: the running totals of the renamed run are the renamed totals up to
  insertion order (`VRel`), and the result is the renamed result up to `SlotsEquiv`.
-/
import VotelibProofs.Lemmas.PermBucklin2
import VotelibProofs.Lemmas.RenameConvert
namespace VL.Perm.Buck
open VL VL.Convert VL.ShapeSeq VL.C10 VL.Perm.Stv

variable {σ : Cand → Cand}

def renReq (σ : Cand → Cand) (r : Cand × Rat) : Cand × Rat := (σ r.1, r.2)

theorem renVotes_eq_map (σ : Cand → Cand) (d : Votes) : renVotes σ d = d.map (renReq σ) := rfl

theorem addTo_ren (hσ : Function.Injective σ) (d : Votes) (k : Cand) (v : Rat) :
    addTo (renVotes σ d) (σ k) v = renVotes σ (addTo d k v) := by
  induction d with
  | nil => rfl
  | cons e es ih =>
    obtain ⟨k', v'⟩ := e
    have hc : renVotes σ ((k', v') :: es) = (σ k', v') :: renVotes σ es := rfl
    rw [hc]
    simp only [addTo]
    by_cases h : k' = k
    · rw [if_pos h, if_pos (by rw [h])]; rfl
    · rw [if_neg h, if_neg (fun e => h (hσ e)), ih]; rfl

theorem addAllTo_ren (hσ : Function.Injective σ) (d : Votes) (reqs : List (Cand × Rat)) :
    addAllTo (renVotes σ d) (reqs.map (renReq σ)) = renVotes σ (addAllTo d reqs) := by
  unfold addAllTo
  induction reqs generalizing d with
  | nil => rfl
  | cons r rs ih =>
    simp only [List.map_cons, List.foldl_cons]
    have : addReq (renVotes σ d) (renReq σ r) = renVotes σ (addReq d r) := addTo_ren hσ d r.1 r.2
    rw [this, ih]

theorem filter_renVotes (σ : Cand → Cand) (d : Votes) (q : Cand × Rat → Bool) :
    (renVotes σ d).filter q = renVotes σ (d.filter (fun e => q (σ e.1, e.2))) := by
  unfold renVotes
  rw [List.filter_map]
  rfl

theorem keys_renVotes' (σ : Cand → Cand) (v : Votes) : (renVotes σ v).map (·.1) = (v.map (·.1)).map σ := by
  unfold renVotes; rw [List.map_map, List.map_map]; rfl

/-! ### one round -/

theorem renItem_cands_perm (hσ : Function.Injective σ) {it : RankItem} (hit : it.cands.Nodup) :
    (renItem σ it).cands.Perm (it.cands.map σ) := by
  cases it with
  | one c => exact List.Perm.refl _
  | shared cs => exact renSet_perm σ hσ hit

/-- the additions of one round of the first profile are the renamed additions of the second one, in some order -/
def ReqAgree (σ : Cand → Cand) (p' p : RProfile) : Prop :=
  ∀ (c : Rat) (i : Nat) (e' e : List Slot), (∀ x, Slot.cand (σ x) ∈ e' ↔ Slot.cand x ∈ e) →
    (roundReqs c p' i e').Perm ((roundReqs c p i e).map (renReq σ))

theorem reqAgree_ren (hσ : Function.Injective σ) {p : RProfile} (hwf : RankedWF p) : ReqAgree σ (renRProfile σ p) p := by
  intro w i e' e he
  unfold roundReqs renRProfile
  rw [List.flatMap_map, List.map_flatMap]
  apply List.Perm.flatMap_left
  intro bw hbw
  simp only [renBallot, List.getElem?_map]
  cases hget : bw.1[i]? with
  | none => exact List.Perm.refl _
  | some it =>
    have hit : it.cands.Nodup := hwf bw hbw it (List.mem_of_getElem? hget)
    simp only [Option.map_some, List.map_map]
    have h1 : ((renItem σ it).cands.filter (fun c => decide (Slot.cand c ∉ e'))).Perm
        ((it.cands.map σ).filter (fun c => decide (Slot.cand c ∉ e'))) := (renItem_cands_perm hσ hit).filter _
    rw [List.filter_map] at h1
    have hq : ((fun c => decide (Slot.cand c ∉ e')) ∘ σ) = (fun c => decide (Slot.cand c ∉ e)) := by
      funext x
      exact decide_eq_decide.mpr (not_congr (he x))
    rw [hq] at h1
    have h2 := h1.map (fun c => (c, bw.2 * w))
    rw [List.map_map] at h2
    exact h2

theorem reqAgree_of_perm {p'' p' p : RProfile} (hp : p''.Perm p') (h : ReqAgree σ p' p) : ReqAgree σ p'' p := by
  intro c i e' e he
  exact (roundReqs_perm c hp i (fun _ => Iff.rfl)).trans (h c i e' e he)

/-! ### the loop -/

theorem map_cand_renSlot (σ : Cand → Cand) (l : List Cand) : (l.map Slot.cand).map (renSlot σ) = (l.map σ).map Slot.cand := by
  rw [List.map_map, List.map_map]; rfl

theorem paLoop_ren (hσ : Function.Injective σ) (coef : Nat → Rat) {p' p : RProfile} (H : ReqAgree σ p' p)
    (quota : Rat) (n : Nat) :
    ∀ (f i : Nat) (t' t : Votes) (l' l : List Cand), VRel t' (renVotes σ t) → l'.Perm (l.map σ) →
      SlotsEquiv (paLoop coef p' quota n f i t' (l'.map Slot.cand))
        ((paLoop coef p quota n f i t (l.map Slot.cand)).map (renSlot σ)) := by
  intro f
  induction f with
  | zero =>
    intro i t' t l' l _ hl
    unfold paLoop
    rw [map_cand_renSlot]
    exact slotsEquiv_cands hl
  | succ f ih =>
    intro i t' t l' l ht hl
    have hmem : ∀ x, Slot.cand (σ x) ∈ l'.map Slot.cand ↔ Slot.cand x ∈ l.map Slot.cand := fun x => by
      rw [C08.mem_map_cand, C08.mem_map_cand, hl.mem_iff]
      exact List.mem_map_of_injective hσ
    have ht' : VRel (addRound (coef i) p' i (l'.map Slot.cand) t')
        (renVotes σ (addRound (coef i) p i (l.map Slot.cand) t)) := by
      rw [addRound_eq, addRound_eq, ← addAllTo_ren hσ]
      exact addAllTo_perm (H (coef i) i _ _ hmem) ht
    unfold paLoop
    simp only [List.length_map, List.length_append]
    generalize addRound (coef i) p' i (l'.map Slot.cand) t' = s' at ht'
    generalize addRound (coef i) p i (l.map Slot.cand) t = s at ht'
    have hmaj : ((sortDesc s').filter (fun e => decide (quota < e.2))).Perm
        (renVotes σ ((sortDesc s).filter (fun e => decide (quota < e.2)))) := by
      have := (sortDesc_perm_of_perm (DRel.perm ht')).filter (fun e => decide (quota < e.2))
      rw [sortDesc_ren, filter_renVotes] at this
      exact this
    generalize (sortDesc s').filter (fun e => decide (quota < e.2)) = m' at hmaj
    generalize (sortDesc s).filter (fun e => decide (quota < e.2)) = m at hmaj
    have hll : l'.length = l.length := by rw [hl.length_eq, List.length_map]
    rw [hll]
    have hbest : SlotsEquiv (getNBest m' (n - l.length)) ((getNBest m (n - l.length)).map (renSlot σ)) := by
      have := getNBest_perm m' (renVotes σ m) hmaj (n - l.length)
      rw [getNBest_rename] at this
      exact this
    have hlen : (getNBest m' (n - l.length)).length = (getNBest m (n - l.length)).length := by
      rw [slotsEquiv_length hbest, List.length_map]
    by_cases hstop : l.length + (getNBest m (n - l.length)).length = n
    · rw [if_pos hstop, if_pos (hlen ▸ hstop), List.map_append, map_cand_renSlot]
      exact slotsEquiv_prepend_cands hl hbest
    · rw [if_neg hstop, if_neg (hlen ▸ hstop)]
      have hex : ∃ b' b : List Cand, getNBest m' (n - l.length) = b'.map Slot.cand ∧
          getNBest m (n - l.length) = b.map Slot.cand ∧ b'.Perm (b.map σ) := by
        rcases Nat.eq_zero_or_pos (n - l.length) with h0 | h1
        · rw [h0, getNBest_zero, getNBest_zero]
          exact ⟨[], [], rfl, rfl, List.Perm.refl _⟩
        · have hk₁ : (getNBest m' (n - l.length)).length ≠ n - l.length := by omega
          have hk₂ : (getNBest m (n - l.length)).length ≠ n - l.length := by omega
          refine ⟨_, _, best_cands m' _ hk₁, best_cands m _ hk₂, ?_⟩
          have := (sortDesc_perm_of_perm hmaj).map (·.1)
          rw [sortDesc_ren, keys_renVotes'] at this
          exact this
      obtain ⟨b', b, e₁, e₂, hb⟩ := hex
      rw [e₁, e₂, ← List.map_append, ← List.map_append]
      have hfil : VRel (s'.filter (fun e => (fun c => decide (Slot.cand c ∉ b'.map Slot.cand)) e.1))
          (renVotes σ (s.filter (fun e => decide (Slot.cand e.1 ∉ b.map Slot.cand)))) := by
        have h1 := DRel.filter ht' (fun c => decide (Slot.cand c ∉ b'.map Slot.cand))
        rw [filter_renVotes] at h1
        have hq : (fun e : Cand × Rat => (fun p : Cand × Rat => (fun c => decide (Slot.cand c ∉ b'.map Slot.cand)) p.1) (σ e.1, e.2)) =
            (fun e : Cand × Rat => decide (Slot.cand e.1 ∉ b.map Slot.cand)) := by
          funext e
          apply decide_eq_decide.mpr
          rw [C08.mem_map_cand, C08.mem_map_cand, hb.mem_iff]
          exact not_congr (List.mem_map_of_injective hσ)
        rw [hq] at h1
        exact h1
      have hl' : (l' ++ b').Perm ((l ++ b).map σ) := by rw [List.map_append]; exact hl.append hb
      exact ih (i + 1) _ _ _ _ hfil hl'

/-! ### `Tie.reconcile` commutes with the renaming -/

theorem tieReqs_ren (σ : Cand → Cand) (r : List Slot) : tieReqs (r.map (renSlot σ)) = (tieReqs r).map (renReq σ) := by
  unfold tieReqs
  rw [List.flatMap_map, List.map_flatMap]
  congr 1
  funext s
  cases s with
  | cand c => rfl
  | tie T => simp only [renSlot, List.length_map, List.map_map]; rfl

theorem emptyTie_ren (σ : Cand → Cand) (r : List Slot) :
    (r.map (renSlot σ)).any (fun s => s == Slot.tie []) = r.any (fun s => s == Slot.tie []) := by
  rw [List.any_map]
  congr 1
  funext s
  cases s with
  | cand c => simp [renSlot]
  | tie T => cases T <;> simp [renSlot]

theorem reconcile_ren (hσ : Function.Injective σ) (r : List Slot) :
    reconcile (r.map (renSlot σ)) = (reconcile r).map (List.map (renSlot σ)) := by
  unfold reconcile
  rw [emptyTie_ren, nPlaces_eq, nPlaces_eq, tieReqs_ren]
  have := addAllTo_ren hσ [] (tieReqs r)
  rw [show renVotes σ [] = ([] : Votes) from rfl] at this
  rw [this, renVotes_eq_map, List.any_map]
  have hf : ((fun e : Cand × Rat => decide (1 ≤ e.2)) ∘ renReq σ) = (fun e => decide (1 ≤ e.2)) := rfl
  rw [hf]
  split
  · rfl
  · split <;> rfl

/-! ### profile reads -/

theorem sumValues_ren (σ : Cand → Cand) (p : RProfile) : sumValues (renRProfile σ p) = sumValues p := by
  unfold sumValues renRProfile
  rw [List.foldl_map]

theorem maxLen_ren (σ : Cand → Cand) (p : RProfile) : maxLen (renRProfile σ p) = maxLen p := by
  unfold maxLen renRProfile
  rw [List.foldl_map]
  congr 1
  funext m bw
  simp [renBallot]

theorem isEmpty_ren (σ : Cand → Cand) (p : RProfile) : (renRProfile σ p).isEmpty = p.isEmpty := by
  cases p <;> rfl

/-- the renamed result up to `SlotsEquiv` -/
abbrev RenEquiv (σ : Cand → Cand) (r' r : List Slot) : Prop := SlotsEquiv r' (r.map (renSlot σ))

/-- the evaluation after the optional decoupling: `v'` plays the renamed `v` -/
theorem paCore_ren (hσ : Function.Injective σ) (coef : Nat → Rat) {v' v : RProfile} (H : ReqAgree σ v' v)
    (hE : v'.isEmpty = v.isEmpty) (hS : sumValues v' = sumValues v) (hM : maxLen v' = maxLen v) (n : Nat) :
    ExceptEquiv (RenEquiv σ)
      (if v'.isEmpty then .error .valueError
        else reconcile (paLoop coef v' (sumValues v' / 2) n (maxLen v') 0 [] []))
      (if v.isEmpty then .error .valueError
        else reconcile (paLoop coef v (sumValues v / 2) n (maxLen v) 0 [] [])) := by
  rw [hE, hS, hM]
  split
  · exact rfl
  · have hloop := paLoop_ren hσ coef H (sumValues v / 2) n (maxLen v) 0 [] [] [] [] vRel_nil (List.Perm.refl _)
    have hrec := reconcile_equiv hloop
    rw [reconcile_ren hσ] at hrec
    simp only [List.map_nil] at hrec
    cases h1 : reconcile (paLoop coef v' (sumValues v / 2) n (maxLen v) 0 [] []) with
    | error e =>
      cases h2 : reconcile (paLoop coef v (sumValues v / 2) n (maxLen v) 0 [] []) with
      | error e' => rw [h1, h2] at hrec; exact hrec
      | ok r => rw [h1, h2] at hrec; exact hrec
    | ok r' =>
      cases h2 : reconcile (paLoop coef v (sumValues v / 2) n (maxLen v) 0 [] []) with
      | error e' => rw [h1, h2] at hrec; exact hrec
      | ok r => rw [h1, h2] at hrec; exact hrec

end VL.Perm.Buck

namespace VL.Perm
open VL VL.Convert VL.ShapeSeq VL.C10 VL.Perm.Buck

/-- **Candidate-name independence of `PreferenceAddition` without decoupling** (`split_equal_rankings=False`): for every
    injective renaming, every coefficient function and number of seats, and every ranked profile whose shared ranks list
    each member once, the run on the renamed profile gives the same exception or the renamed result up to `SlotsEquiv`
    (the renamed shared ranks are iterated in another order, which can permute the members of a Tie). -/
theorem preferenceAddition_nosplit_rename {σ : Cand → Cand} (hσ : Function.Injective σ) (coef : Nat → Rat)
    {p : RProfile} (hwf : RankedWF p) (n : Nat) :
    ExceptEquiv (fun r' r => SlotsEquiv r' (r.map (renSlot σ)))
      (preferenceAddition coef false (renRProfile σ p) n) (preferenceAddition coef false p n) := by
  unfold preferenceAddition
  exact paCore_ren hσ coef (reqAgree_ren hσ hwf) (isEmpty_ren σ p) (sumValues_ren σ p) (maxLen_ren σ p) n

end VL.Perm
