/-
  C08 — the auxiliary selectors whose order comes from outside the votes (model VotelibModel/ShapeAux.lean): whatever the
  draws are, the answer lists exactly `n` distinct candidates of the votes; the only error outcomes are those of ill-formed
  draw sequences (which the real generator cannot produce) and the `ValueError` of `randrange` on exhausted weight.
-/
import VotelibProofs.Lemmas.ShapeSimple
import VotelibProofs.Lemmas.SortBy
import VotelibModel.ShapeAux
namespace VL.C08
open VL VL.ShapeAux

theorem pop_perm {α : Type} : ∀ {l : List α} {i : Nat} {c : α}, l[i]? = some c → l.Perm (c :: l.eraseIdx i)
  | [], i, c, h => by simp at h
  | x :: xs, 0, c, h => by simp at h; subst h; simp
  | x :: xs, i + 1, c, h => by
    simp only [List.getElem?_cons_succ] at h
    simp only [List.eraseIdx_cons_succ]
    exact ((pop_perm h).cons x).trans (List.Perm.swap c x _)

theorem pop_step_perm {chosen cands : List Cand} {i : Nat} {c : Cand} (h : cands[i]? = some c) :
    ((chosen ++ [c]) ++ cands.eraseIdx i).Perm (chosen ++ cands) := by
  rw [List.append_assoc]
  exact List.Perm.append_left _ (pop_perm h).symm

/-- what a loop that pops `k` candidates one by one returns -/
structure Popped (chosen cands : List Cand) (k : Nat) (r : List Cand) : Prop where
  nodup : r.Nodup
  sub : ∀ c ∈ r, c ∈ chosen ++ cands
  length : r.length = chosen.length + k

theorem Popped.step {chosen cands : List Cand} {i k : Nat} {c : Cand} {r : List Cand} (hc : cands[i]? = some c)
    (h : Popped (chosen ++ [c]) (cands.eraseIdx i) k r) : Popped chosen cands (k + 1) r :=
  ⟨h.nodup, fun x hx => (pop_step_perm hc).subset (h.sub x hx), by
    have := h.length
    simp only [List.length_append, List.length_singleton] at this
    omega⟩

theorem selectLoop_popped : ∀ (k : Nat) (cands : List Cand) (cum draws : List Rat) (chosen r : List Cand),
    (chosen ++ cands).Nodup → selectLoop k cands cum draws chosen = .ok r → Popped chosen cands k r := by
  intro k
  induction k with
  | zero =>
    intro cands cum draws chosen r hnd h
    simp only [selectLoop, Except.ok.injEq] at h
    subst h
    exact ⟨(List.nodup_append.mp hnd).1, fun c hc => List.mem_append_left _ hc, rfl⟩
  | succ k ih =>
    intro cands cum draws chosen r hnd h
    unfold selectLoop at h
    split at h
    · cases h
    · split at h
      · cases h
      · split at h
        · cases h
        · split at h
          · cases h
          · simp only at h
            split at h
            · rename_i c ci hc _
              exact Popped.step hc (ih _ _ _ _ r ((pop_step_perm hc).nodup_iff.mpr hnd) h)
            · cases h

theorem rfcLoop_popped : ∀ (k : Nat) (cands : List Cand) (draws : List Nat) (sel r : List Cand),
    (sel ++ cands).Nodup → rfcLoop k cands draws sel = .ok r → Popped sel cands k r := by
  intro k
  induction k with
  | zero =>
    intro cands draws sel r hnd h
    simp only [rfcLoop, Except.ok.injEq] at h
    subst h
    exact ⟨(List.nodup_append.mp hnd).1, fun c hc => List.mem_append_left _ hc, rfl⟩
  | succ k ih =>
    intro cands draws sel r hnd h
    unfold rfcLoop at h
    split at h
    · cases h
    · split at h
      · cases h
      · simp only at h
        split at h
        · rename_i c hc
          exact Popped.step hc (ih _ _ _ r ((pop_step_perm hc).nodup_iff.mpr hnd) h)
        · cases h

/-! ### errors -/

theorem bisectLeft_lt {cum : List Rat} {r total : Rat} (hl : cum.getLast? = some total) (hr : ¬ total < r) :
    bisectLeft cum r < cum.length := by
  unfold bisectLeft
  by_contra hge
  have hle := (List.takeWhile_sublist (l := cum) (fun w => decide (w < r))).length_le
  have heq : (cum.takeWhile (fun w => decide (w < r))).length = cum.length := by omega
  have hall : cum.takeWhile (fun w => decide (w < r)) = cum :=
    List.Sublist.eq_of_length (List.takeWhile_sublist _) heq
  have hmem : total ∈ cum := List.mem_of_getLast? hl
  rw [← hall] at hmem
  have := List.mem_takeWhile_imp hmem
  simp only [decide_eq_true_eq] at this
  exact hr this

/-- the errors of the selection loop when the lists are aligned and enough candidates are left: exhausted weight
    (`randrange(1, 1)`: ValueError) or an ill-formed draw sequence — never an IndexError -/
theorem selectLoop_error : ∀ (k : Nat) (cands : List Cand) (cum draws : List Rat) (chosen : List Cand) (e : Err),
    cum.length = cands.length → k ≤ cands.length → selectLoop k cands cum draws chosen = .error e →
    e = .valueError ∨ e = noDraw ∨ e = badDraw := by
  intro k
  induction k with
  | zero => intro cands cum draws chosen e _ _ h; simp [selectLoop] at h
  | succ k ih =>
    intro cands cum draws chosen e hlen hk h
    unfold selectLoop at h
    split at h
    · rename_i hnone
      have : cum = [] := List.getLast?_eq_none_iff.mp hnone
      rw [this] at hlen
      simp only [List.length_nil] at hlen
      omega
    · rename_i total hl
      split at h
      · injection h with h; exact Or.inl h.symm
      · split at h
        · injection h with h; exact Or.inr (Or.inl h.symm)
        · rename_i r rest
          split at h
          · injection h with h; exact Or.inr (Or.inr h.symm)
          · rename_i hok
            simp only [not_or] at hok
            have hi := bisectLeft_lt hl hok.2.1
            simp only at h
            split at h
            · refine ih _ _ _ _ e ?_ ?_ h
              · simp only [List.length_append, List.length_take, List.length_map, List.length_drop, List.length_eraseIdx]
                rw [if_pos (by omega)]
                omega
              · rw [List.length_eraseIdx, if_pos (by omega)]; omega
            · rename_i hno
              exfalso
              have h1 : cands[bisectLeft cum r]? = some (cands[bisectLeft cum r]'(by omega)) :=
                List.getElem?_eq_getElem (by omega)
              have h2 : cum[bisectLeft cum r]? = some (cum[bisectLeft cum r]'hi) := List.getElem?_eq_getElem hi
              exact hno _ _ h1 h2

theorem rfcLoop_error : ∀ (k : Nat) (cands : List Cand) (draws : List Nat) (sel : List Cand) (e : Err),
    k ≤ cands.length → rfcLoop k cands draws sel = .error e → e = noDraw ∧ draws.length < k := by
  intro k
  induction k with
  | zero => intro cands draws sel e _ h; simp [rfcLoop] at h
  | succ k ih =>
    intro cands draws sel e hk h
    unfold rfcLoop at h
    split at h
    · injection h with h; exact ⟨h.symm, by simp⟩
    · rename_i r rest
      split at h
      · omega
      · rename_i hne
        have hi : r % cands.length < cands.length := Nat.mod_lt _ (by omega)
        simp only at h
        split at h
        · obtain ⟨h1, h2⟩ := ih _ _ _ e (by rw [List.length_eraseIdx, if_pos hi]; omega) h
          exact ⟨h1, by simp only [List.length_cons]; omega⟩
        · rename_i hno
          exact absurd (List.getElem?_eq_getElem hi) (by rw [hno]; simp)

theorem length_accumulate : ∀ (acc : Rat) (ws : List Rat), (accumulate acc ws).length = ws.length
  | _, [] => rfl
  | acc, w :: ws => by simp [accumulate, length_accumulate]

end VL.C08

namespace VL.C08
open VL VL.ShapeAux

/-! ### the loop keeps the cumulative weights of the remaining candidates -/

theorem accumulate_map_sub (w : Rat) : ∀ (a : Rat) (ws : List Rat),
    (accumulate a ws).map (fun x => x - w) = accumulate (a - w) ws
  | _, [] => rfl
  | a, v :: vs => by
    simp only [accumulate, List.map_cons]
    rw [accumulate_map_sub w (a + v) vs]
    congr 1 <;> ring_nf

theorem accumulate_pop : ∀ (a : Rat) (ws : List Rat) (i : Nat) (hi : i < ws.length),
    (accumulate a ws).take i ++ ((accumulate a ws).drop (i + 1)).map (fun x => x - ws[i]) = accumulate a (ws.eraseIdx i)
  | a, v :: vs, 0, _ => by
    simp only [accumulate, List.take_zero, List.nil_append, List.drop_succ_cons, List.drop_zero, List.getElem_cons_zero,
      List.eraseIdx_cons_zero]
    rw [accumulate_map_sub]
    congr 1; ring
  | a, v :: vs, i + 1, hi => by
    simp only [accumulate, List.take_succ_cons, List.drop_succ_cons, List.getElem_cons_succ, List.eraseIdx_cons_succ,
      List.cons_append]
    rw [accumulate_pop (a + v) vs i (by simpa using hi)]

theorem accumulate_getElem : ∀ (a : Rat) (ws : List Rat) (i : Nat) (hi : i < ws.length),
    (accumulate a ws)[i]? = some ((if i ≠ 0 then (accumulate a ws).getD (i - 1) 0 else a) + ws[i])
  | a, v :: vs, 0, _ => by simp [accumulate]
  | a, v :: vs, i + 1, hi => by
    have hi' : i < vs.length := by simpa using hi
    have ih := accumulate_getElem (a + v) vs i hi'
    simp only [accumulate, List.getElem?_cons_succ, List.getElem_cons_succ, ih]
    cases i with
    | zero => simp [accumulate]
    | succ j => simp [accumulate, List.getD_cons_succ]

theorem accumulate_getLast (a : Rat) (ws : List Rat) (h : ws ≠ []) :
    (accumulate a ws).getLast? = some (a + ws.sum) := by
  induction ws generalizing a with
  | nil => exact absurd rfl h
  | cons v vs ih =>
    cases vs with
    | nil => simp [accumulate]
    | cons u us =>
      have := ih (a + v) (by simp)
      simp only [accumulate, List.sum_cons] at this ⊢
      rw [List.getLast?_cons_cons, this]
      congr 1; ring

/-- with unit weights (Sortitor) the loop never meets an exhausted weight: its only errors are ill-formed draws -/
theorem selectLoop_error_ones : ∀ (k : Nat) (cands : List Cand) (ws draws : List Rat) (chosen : List Cand) (e : Err),
    ws.length = cands.length → (∀ w ∈ ws, w = 1) → k ≤ cands.length →
    selectLoop k cands (accumulate 0 ws) draws chosen = .error e → e = noDraw ∨ e = badDraw := by
  intro k
  induction k with
  | zero => intro cands ws draws chosen e _ _ _ h; simp [selectLoop] at h
  | succ k ih =>
    intro cands ws draws chosen e hlen hones hk h
    have hne : ws ≠ [] := by
      intro h0; rw [h0] at hlen; simp only [List.length_nil] at hlen; omega
    have hsum : ws.sum = ws.length := by
      clear hlen hne h
      induction ws with
      | nil => simp
      | cons v vs ih' =>
        rw [List.sum_cons, hones v List.mem_cons_self, ih' (fun w hw => hones w (List.mem_cons_of_mem _ hw)),
          List.length_cons]
        push_cast; ring
    have hlast := accumulate_getLast 0 ws hne
    unfold selectLoop at h
    rw [hlast] at h
    simp only at h
    split at h
    · rename_i hlt
      rw [hsum, zero_add] at hlt
      have : (1 : Rat) ≤ (ws.length : Rat) := by
        have : 0 < ws.length := List.length_pos_iff.mpr hne
        exact_mod_cast this
      exact absurd hlt (not_lt.mpr this)
    · split at h
      · injection h with h; exact Or.inl h.symm
      · rename_i r rest
        split at h
        · injection h with h; exact Or.inr h.symm
        · rename_i hok
          simp only [not_or] at hok
          have hi : bisectLeft (accumulate 0 ws) r < ws.length := by
            have := bisectLeft_lt hlast hok.2.1
            rwa [length_accumulate] at this
          generalize hidx : bisectLeft (accumulate 0 ws) r = i at h hi
          have hc : cands[i]? = some (cands[i]'(by omega)) := List.getElem?_eq_getElem (by omega)
          have hci := accumulate_getElem 0 ws i hi
          rw [hc, hci] at h
          simp only at h
          have hw : (if i ≠ 0 then (if i ≠ 0 then (accumulate 0 ws).getD (i - 1) 0 else 0) + ws[i] -
              (accumulate 0 ws).getD (i - 1) 0 else (if i ≠ 0 then (accumulate 0 ws).getD (i - 1) 0 else 0) + ws[i]) = ws[i] := by
            by_cases h0 : i = 0
            · simp [h0]
            · simp [h0]
          rw [hw, accumulate_pop 0 ws i hi] at h
          refine ih _ _ _ _ e ?_ ?_ ?_ h
          · rw [List.length_eraseIdx, List.length_eraseIdx, if_pos hi, if_pos (by omega)]; omega
          · intro w hw'; exact hones w (List.mem_of_mem_eraseIdx hw')
          · rw [List.length_eraseIdx, if_pos (by omega)]; omega

end VL.C08
