/-
  Mutual majority for a single seat: a coalition solidly supported by more than half of the votes (by ballots
  without shared ranks) keeps a continuing member until one of its members wins.
-/
import VotelibProofs.Lemmas.STVItem
namespace VL.STV
open VL

/-- on a ballot solid for `S`, the highest continuing candidate belongs to `S` as long as a member continues -/
theorem solid_top_in {b : Ballot} {S cont : List Cand} (hs : solidFor b S = true) {s : Cand} (hsS : s ∈ S)
    (hsc : s ∈ cont) : ∃ t, topCont b cont = some t ∧ t ∈ S := by
  unfold solidFor at hs
  rw [List.any_eq_true] at hs
  obtain ⟨j, _, hsame⟩ := hs
  have hset := sameSet_iff.mp hsame
  unfold prefixCands at hset
  have hsplit : ballotCands b = ballotCands (b.take j) ++ ballotCands (b.drop j) := by
    rw [← ballotCands_append, List.take_append_drop]
  unfold topCont
  rw [hsplit, List.find?_append]
  have hspre : s ∈ ballotCands (b.take j) := (hset s).mpr hsS
  cases hf : (ballotCands (b.take j)).find? (fun c => decide (c ∈ cont)) with
  | none =>
    exfalso
    rw [List.find?_eq_none] at hf
    exact hf s hspre (by simpa using hsc)
  | some t =>
    refine ⟨t, by simp, ?_⟩
    exact (hset t).mp (List.mem_of_find?_eq_some hf)

theorem solidFor_nil_false {S : List Cand} (hS : S ≠ []) : solidFor [] S = false := by
  unfold solidFor
  rw [Bool.eq_false_iff]
  intro h
  rw [List.any_eq_true] at h
  obtain ⟨j, _, hsame⟩ := h
  have hset := sameSet_iff.mp hsame
  cases S with
  | nil => exact hS rfl
  | cons x xs =>
    have := (hset x).mpr List.mem_cons_self
    simp [prefixCands, ballotCands] at this

theorem support_eq_heldP_init {E : Engine} (hE : EngineOK E) {votes : Profile} {S : List Cand} (hS : S ≠ [])
    {ds ds' : List Draw} {a0 : Alloc} (h : initialAllocation E votes ds = .ok (a0, ds')) :
    heldP (fun b => solidFor b S) a0 = support votes S := by
  have := heldP_init hE (fun b => solidFor b S) h
  have he : emptyWeight (votes.filter (fun bw => solidFor bw.1 S)) = 0 := by
    unfold emptyWeight
    have : (votes.filter (fun bw => solidFor bw.1 S)).filter (fun bw => decide (bw.1 = [])) = [] := by
      rw [List.filter_eq_nil_iff]
      intro x hx
      simp only [decide_eq_true_eq]
      intro hnil
      have := (List.mem_filter.mp hx).2
      rw [hnil, solidFor_nil_false hS] at this
      cases this
    rw [this]; simp
  rw [he, add_zero] at this
  rw [this]
  rfl

/-- the invariant of a single-seat run with a majority coalition `S` -/
def MutInv (votes : Profile) (S : List Cand) (st : St) : Prop :=
  (st.seats = [] ∧ st.final = false ∧ st.byQuota = 0 ∧
      heldP (fun b => solidFor b S) st.alloc = support votes S ∧ ∃ s ∈ S, s ∈ continuing st.alloc) ∨
  ∃ c ∈ S, st.seats = [(c, 1)]

structure MutHyp (cfg : Cfg) (votes : Profile) (S : List Cand) : Prop where
  wf : WFVotes votes
  maj : totalVotes votes / 2 < support votes S
  step : cfg.step = some (-1)
  quota : ∀ q, computeQuota cfg (totalVotes votes) 1 = some q → totalVotes votes / 2 ≤ q

section
variable {cfg : Cfg} {votes : Profile} {S : List Cand}

/-- every solid paper rests with a member of `S` while a member continues -/
theorem solid_rests_in {st : St} (hpre : RestsItem st.alloc) {s : Cand} (hsS : s ∈ S)
    (hsc : s ∈ continuing st.alloc) {hp : Option Cand × Pile} (hhp : hp ∈ st.alloc) {x : Ballot × Rat}
    (hx : x ∈ hp.2) (hsol : solidFor x.1 S = true) : ∃ t ∈ S, hp.1 = some t := by
  obtain ⟨it, hit, hsub⟩ := solid_top_item hsol hsS hsc
  have := hpre hp hhp x hx
  rw [hit] at this
  obtain ⟨t, ht, hti⟩ := this
  exact ⟨t, hsub t hti, ht⟩

/-- a candidate outside `S` holds less than half while a member of `S` continues -/
theorem outsider_below_half (hh : MutHyp cfg votes S) {st : St} (hi : StInv cfg (selectorInput votes 1) st)
    (hpre : RestsItem st.alloc) (hf : st.final = false) (hb : st.byQuota = 0)
    (hheld : heldP (fun b => solidFor b S) st.alloc = support votes S)
    {s : Cand} (hsS : s ∈ S) (hsc : s ∈ continuing st.alloc) {y : Cand} (hy : y ∉ S) :
    totalOf st.alloc y < totalVotes votes / 2 := by
  have hn := hi.nonneg hh.wf hf
  have hno : ∀ x ∈ allocPile st.alloc (some y), (fun b => solidFor b S) x.1 = false := by
    intro x hx
    obtain ⟨hp, hhp, hk, hxx⟩ := allocPile_mem hx
    by_contra hc
    have hsol : solidFor x.1 S = true := by simpa using hc
    obtain ⟨t, htS, hte⟩ := solid_rests_in hpre hsS hsc hhp hxx hsol
    rw [hk] at hte
    injection hte with hte
    exact hy (hte ▸ htS)
  have h1 := total_add_heldP_le (P := fun b => solidFor b S) hn hno
  have hcons := hi.cons hf
  simp only [selectorInput, hb, Nat.cast_zero, mul_zero, add_zero] at hcons
  have he := emptyWeight_nonneg hh.wf
  have hm := hh.maj
  unfold totalOf
  rw [hheld] at h1
  linarith

/-- the last continuing member of `S` holds more than half -/
theorem last_member_above_half (hh : MutHyp cfg votes S) {st : St} (hi : StInv cfg (selectorInput votes 1) st)
    (hpre : RestsItem st.alloc) (hf : st.final = false) (hheld : heldP (fun b => solidFor b S) st.alloc = support votes S)
    {s : Cand} (hsS : s ∈ S) (hsc : s ∈ continuing st.alloc)
    (honly : ∀ s' ∈ S, s' ∈ continuing st.alloc → s' = s) : totalVotes votes / 2 < totalOf st.alloc s := by
  have hn := hi.nonneg hh.wf hf
  have hk := hi.keys hf
  have hall : ∀ hp ∈ st.alloc, hp.1 ≠ some s → ∀ y ∈ hp.2, (fun b => solidFor b S) y.1 = false := by
    intro hp hhp hne y hy
    by_contra hc
    have hsol : solidFor y.1 S = true := by simpa using hc
    obtain ⟨t, htS, hte⟩ := solid_rests_in hpre hsS hsc hhp hy hsol
    have htc : t ∈ continuing st.alloc := mem_continuing.mpr (by rw [← hte]; exact List.mem_map_of_mem (f := (·.1)) hhp)
    exact hne (by rw [hte, honly t htS htc])
  have := heldP_le_total (P := fun b => solidFor b S) hk hn hall
  rw [hheld] at this
  unfold totalOf
  exact lt_of_lt_of_le hh.maj this


theorem mut_step {E : Engine} (hE : EngineOK E) (hh : MutHyp cfg votes S) {st st' : St}
    (hi : StInv cfg (selectorInput votes 1) st) (hpre' : st.final = false → RestsItem st.alloc) (hm : MutInv votes S st)
    (h : countStep E cfg (selectorInput votes 1) st = .ok (some st')) : MutInv votes S st' := by
  obtain ⟨hne, out, ds', hnext, _, hadv⟩ := countStep_inv h
  rcases hm with ⟨hs0, hf, hb, hheld, s, hsS, hsc⟩ | ⟨c, _, hs1⟩
  swap
  · exfalso; apply hne; rw [hs1]; simp [selectorInput, sumSeats]
  subst hadv
  have hpre := hpre' hf
  have hk := hi.keys hf
  have hnn := hi.nonneg hh.wf hf
  have hsub := hi.cont_sub
  have hcnd : (continuing st.alloc).Nodup := continuing_nodup hk
  obtain ⟨hle, hcase⟩ := nextCount_cases hnext
  simp only [selectorInput] at hnext hcase hle hsub
  rw [hs0] at hcase
  cases hcase with
  | shortcut hs he =>
    right
    obtain ⟨_, _, _, _, hel, _⟩ := electAll_spec he
    have hfill := shortcut_fills hs he (by simp [sumSeats])
    simp only [sumSeats_nil, zero_add] at hfill
    have havail : out.elected = ((sortDesc (totalsInPlay st.alloc)).map (·.1)).map (fun x => (x, 1)) := by
      rw [hel]
      simp only [availSeats, List.map_map]
      apply List.map_congr_left
      intro x hx
      have hxc : x.1 ∈ continuing st.alloc := by
        rw [← keys_totalsInPlay]
        exact List.mem_map.mpr ⟨x, mem_sortDesc.mp hx, rfl⟩
      simp [Function.comp_def, maxGet_selector (hsub _ hxc), seatsGet]
    have hlen : ((sortDesc (totalsInPlay st.alloc)).map (·.1)).length = 1 := by
      have : sumSeats out.elected = ((sortDesc (totalsInPlay st.alloc)).map (·.1)).length := by
        rw [havail, sumSeats_of_ones (by intro p hp; obtain ⟨x, _, rfl⟩ := List.mem_map.mp hp; rfl), List.length_map]
      omega
    have hcm : s ∈ (sortDesc (totalsInPlay st.alloc)).map (·.1) := by
      have : s ∈ (totalsInPlay st.alloc).map (·.1) := by rw [keys_totalsInPlay]; exact hsc
      exact ((sortDesc_perm _).map (·.1)).mem_iff.mpr this
    obtain ⟨y, hy⟩ := List.length_eq_one_iff.mp hlen
    rw [hy] at hcm havail
    simp only [List.mem_singleton] at hcm
    refine ⟨s, hsS, ?_⟩
    simp only [advance, hs0, havail, hcm, List.map_cons, List.map_nil, seatsAdd, List.foldl_cons, List.foldl_nil,
      seatsAdd1, Nat.zero_add]
  | election qv hqv hpos el hel hnel hout =>
    right
    obtain ⟨_, _, _, _, he1, _, _⟩ := afterElection_inv hout
    obtain ⟨hnd, hfacts⟩ := election_facts hk hpos hel
    have hqge := hh.quota qv hqv
    have hone : ∀ ck ∈ el, ck.2 = 1 := by
      intro ck hck
      obtain ⟨hcont, h1, _, hmax⟩ := hfacts ck hck
      have := hmax 1 (maxGet_selector (hsub _ hcont))
      simp [seatsGet] at this
      omega
    have hinS : ∀ ck ∈ el, ck.1 ∈ S := by
      intro ck hck
      by_contra hx
      obtain ⟨_, _, hqle, _⟩ := hfacts ck hck
      have := outsider_below_half hh hi hpre hf hb hheld hsS hsc hx
      rw [hone ck hck] at hqle
      simp only [Nat.cast_one, one_mul] at hqle
      linarith
    -- at most one seat is awarded
    have hlen : el.length ≤ 1 := by
      have hqm1 : ∀ x ∈ quotaMultiples cfg.acceptEqual qv [] ((allRanked votes).map (fun c => (c, 1)))
          (totalsInPlay st.alloc), x.2.1 = 1 := by
        intro x hx
        obtain ⟨t, ht, h1, _, hmax⟩ := mem_quotaMultiples hpos hx
        have hxc : x.1 ∈ continuing st.alloc := by
          rw [← keys_totalsInPlay]; exact List.mem_map.mpr ⟨(x.1, t), ht, rfl⟩
        have := hmax 1 (maxGet_selector (hsub _ hxc))
        simp [seatsGet] at this
        omega
      have hqmnd : ((quotaMultiples cfg.acceptEqual qv [] ((allRanked votes).map (fun c => (c, 1)))
          (totalsInPlay st.alloc)).map (·.1)).Nodup :=
        List.Nodup.sublist (quotaMultiples_keys_sublist _ _ _ _ _)
          (keys_nodup_of_sortDesc (by rw [keys_totalsInPlay]; exact hcnd))
      have := electByQuota_sum_le hel hqm1 hqmnd (by simp [sumSeats])
      rw [sumSeats_of_ones hone] at this
      simpa [sumSeats] using this
    cases el with
    | nil => exact absurd rfl hnel
    | cons x xs =>
      cases xs with
      | cons y ys => simp at hlen
      | nil =>
        refine ⟨x.1, hinS x List.mem_cons_self, ?_⟩
        have hx1 := hone x List.mem_cons_self
        simp only [advance, hs0, he1, seatsAdd, List.foldl_cons, List.foldl_nil, seatsAdd1, Nat.zero_add, hx1]
  | elimination _ hout =>
    left
    obtain ⟨retained, hsel, he, htr, he1, he2⟩ := afterElimination_inv hout
    rw [hh.step] at hsel
    have hes := elim_spec (by norm_num : (-1 : Int) < 0) hsel
    rw [← he] at hes
    have hm' := transferIf_moved hE htr
    have hnd : ((totalsInPlay st.alloc).map (·.1)).Nodup := by rw [keys_totalsInPlay]; exact hcnd
    have hlenT : (totalsInPlay st.alloc).length = (continuing st.alloc).length := by
      rw [← keys_totalsInPlay, List.length_map]
    have hcount := hes.count hnd
    have hrc := retainedCount_neg (by norm_num : (-1 : Int) < 0) (totalsInPlay st.alloc).length
    have hposm : 0 < (continuing st.alloc).length := List.length_pos_of_mem hsc
    have hel1 : out.eliminated.length ≤ 1 := by omega
    have hlt : out.eliminated.length < ((totalsInPlay st.alloc).map (·.1)).length := by
      rw [List.length_map]; omega
    -- a member of S survives
    have hsurv : ∃ s' ∈ S, s' ∈ continuing st.alloc ∧ s' ∉ out.eliminated := by
      by_cases hse : s ∈ out.eliminated
      · by_cases hother : ∃ s' ∈ S, s' ∈ continuing st.alloc ∧ s' ≠ s
        · obtain ⟨s', hs'S, hs'c, hne'⟩ := hother
          refine ⟨s', hs'S, hs'c, ?_⟩
          intro hs'e
          -- two distinct eliminated candidates, but at most one is eliminated
          have hndE : out.eliminated.Nodup := by rw [he]; exact hnd.filter _
          have : 2 ≤ out.eliminated.length := by
            have hsub2 : ∀ z ∈ [s, s'], z ∈ out.eliminated := by
              intro z hz; simp at hz; rcases hz with rfl | rfl <;> assumption
            have hnd2 : [s, s'].Nodup := by simp [Ne.symm hne']
            exact (List.subperm_of_subset hnd2 hsub2).length_le
          omega
        · exfalso
          have honly : ∀ s' ∈ S, s' ∈ continuing st.alloc → s' = s := by
            intro s' h1 h2
            by_contra h3
            exact hother ⟨s', h1, h2, h3⟩
          have habove := last_member_above_half hh hi hpre hf hheld hsS hsc honly
          -- somebody is retained, and s is strictly below them
          have : ∃ y ∈ (totalsInPlay st.alloc).map (·.1), y ∉ out.eliminated := by
            by_contra hall
            have hall' : ∀ y ∈ (totalsInPlay st.alloc).map (·.1), y ∈ out.eliminated := by
              intro y hy; by_contra hyn; exact hall ⟨y, hy, hyn⟩
            have := (List.subperm_of_subset hnd hall').length_le
            omega
          obtain ⟨y, hy, hyn⟩ := this
          have hskeys : s ∈ (totalsInPlay st.alloc).map (·.1) := by rw [keys_totalsInPlay]; exact hsc
          obtain ⟨ps, hps, hpse⟩ := List.mem_map.mp hskeys
          obtain ⟨py, hpy, hpye⟩ := List.mem_map.mp hy
          have hlow := hes.lowest hnd s hse y hy hyn ps.2 py.2 (by rw [← hpse]; exact hps) (by rw [← hpye]; exact hpy)
          have h1 := totalsInPlay_total hk hps
          have h2 := totalsInPlay_total hk hpy
          have hyc : y ∈ continuing st.alloc := by rw [← keys_totalsInPlay]; exact hy
          have hyS : y ∉ S := by
            intro hyS
            have := honly y hyS hyc
            exact hyn (this ▸ hse)
          have hbelow := outsider_below_half hh hi hpre hf hb hheld hsS hsc hyS
          unfold totalOf at hbelow habove
          rw [hpse] at h1; rw [hpye] at h2
          rw [← h1] at habove; rw [← h2] at hbelow
          linarith
      · exact ⟨s, hsS, hsc, hse⟩
    obtain ⟨s', hs'S, hs'c, hs'e⟩ := hsurv
    refine ⟨?_, ?_, ?_, ?_, s', hs'S, ?_⟩
    · simp only [advance, hs0, he1, seatsAdd, List.foldl_nil]
    · simp only [advance, he2]
    · simp only [advance, hb, he2, Bool.false_eq_true, if_false, he1, sumSeats_nil]
    · simp only [advance]
      rw [heldP_transferIf hE _ hk htr]; exact hheld
    · simp only [advance]
      rw [hm'.cont_eq]
      exact List.mem_filter.mpr ⟨hs'c, by simpa using hs'e⟩

theorem mut_reach {E : Engine} (hE : EngineOK E) (hh : MutHyp cfg votes S) (hS : S ≠ [])
    {ds : List Draw} {st : St} (hr : Reach E cfg (selectorInput votes 1) ds st) : MutInv votes S st := by
  induction hr with
  | init h =>
    obtain ⟨_, hf, hs, hb⟩ := initState_inv (cfg := cfg) hE h
    unfold initState at h
    split at h
    · cases h
    · rename_i a ds' hinit
      injection h with h; subst h
      have hi := init_inv hE hinit
      left
      refine ⟨rfl, rfl, rfl, support_eq_heldP_init hE hS hinit, ?_⟩
      -- some ballot is solid for S (the support is positive), so the members of S are candidates
      have hpos : 0 < support votes S := lt_of_le_of_lt (by have := totalVotes_nonneg hh.wf; linarith) hh.maj
      have hex : ∃ bw ∈ votes, solidFor bw.1 S = true := by
        by_contra hno
        have : ∀ bw ∈ votes, solidFor bw.1 S = false := by
          intro bw hbw; by_contra hc; exact hno ⟨bw, hbw, by simpa using hc⟩
        rw [support_zero_of_none this] at hpos
        exact lt_irrefl _ hpos
      obtain ⟨bw, hbw, hsol⟩ := hex
      cases S with
      | nil => exact absurd rfl hS
      | cons x xs =>
        refine ⟨x, List.mem_cons_self, ?_⟩
        simp only
        rw [hi.cont_eq]
        unfold solidFor at hsol
        rw [List.any_eq_true] at hsol
        obtain ⟨j, _, hsame⟩ := hsol
        have hx : x ∈ prefixCands bw.1 j := ((sameSet_iff.mp hsame) x).mpr List.mem_cons_self
        apply mem_allRanked.mpr
        refine ⟨bw, hbw, ?_⟩
        unfold prefixCands at hx
        have hsplit : ballotCands bw.1 = ballotCands (bw.1.take j) ++ ballotCands (bw.1.drop j) := by
          rw [← ballotCands_append, List.take_append_drop]
        rw [hsplit]
        exact List.mem_append_left _ hx
  | step hr' h ih => exact mut_step hE hh (reach_inv hE hr') (reach_restsItem hE hr') ih h

end

end VL.STV
