/-
  C10, score family, majority judgment: `MajorityJudgment.evaluate` (model VotelibModel/Score.lean, owned by C12) does not
  depend on the insertion order of the profile dict — up to `SlotsEquiv`, for both tie-breaking rules, every setting.

  The ranking stage is `get_n_best` of the median aggregates (`PermScore`).  The tie-breakers work on the table of the
  tied candidates, which the model lists in the iteration order of the `Tie` SET (ascending ids) — the same order for
  both runs — so the two tables agree position by position up to the insertion order of each count dict
  (`List.Forall₂ EntryEquiv`), and every step of both tie-breakers is a function of that (proved: EQUAL results).
-/
import VotelibProofs.Lemmas.PermScore
import VotelibProofs.Lemmas.PermApproval
namespace VL.Perm
open VL VL.Score VL.C10

/-! ### tables that agree position by position up to the insertion order of each count dict -/

theorem mj_except_forall₂_eq {α : Type} {x y : Except Err (List α)} (h : ExceptEquiv (List.Forall₂ (· = ·)) x y) :
    x = y := by
  cases x with
  | error e =>
    cases y with
    | error e' => exact congrArg _ h
    | ok b => exact h.elim
  | ok a =>
    cases y with
    | error e' => exact h.elim
    | ok b =>
      have : List.Forall₂ (· = ·) a b := h
      rw [List.forall₂_eq_eq_eq] at this
      rw [this]

theorem mj_map_eq {β : Type} (f : Cand × CScores → β) {t₁ t₂ : ScoreTable} (h : List.Forall₂ EntryEquiv t₁ t₂)
    (hf : ∀ a b, EntryEquiv a b → f a = f b) : t₁.map f = t₂.map f := by
  induction h with
  | nil => rfl
  | cons hab _ ih => rw [List.map_cons, List.map_cons, hf _ _ hab, ih]

theorem mj_foldl_eq {β : Type} (g : β → Cand × CScores → β) {t₁ t₂ : ScoreTable} (h : List.Forall₂ EntryEquiv t₁ t₂)
    (hg : ∀ acc a b, EntryEquiv a b → g acc a = g acc b) (acc : β) : t₁.foldl g acc = t₂.foldl g acc := by
  induction h generalizing acc with
  | nil => rfl
  | cons hab _ ih => rw [List.foldl_cons, List.foldl_cons, hg _ _ _ hab, ih]

theorem mj_filter_rel (pr : Cand → Bool) {t₁ t₂ : ScoreTable} (h : List.Forall₂ EntryEquiv t₁ t₂) :
    List.Forall₂ EntryEquiv (t₁.filter (fun p => pr p.1)) (t₂.filter (fun p => pr p.1)) := by
  induction h with
  | nil => exact List.Forall₂.nil
  | cons hab _ ih =>
    rename_i a b l₁ l₂ _
    rw [List.filter_cons, List.filter_cons, hab.1]
    split
    · exact List.Forall₂.cons hab ih
    · exact ih

theorem mj_map_rel (f : Cand × CScores → Cand × CScores) {t₁ t₂ : ScoreTable} (h : List.Forall₂ EntryEquiv t₁ t₂)
    (hf : ∀ a b, EntryEquiv a b → EntryEquiv (f a) (f b)) : List.Forall₂ EntryEquiv (t₁.map f) (t₂.map f) := by
  induction h with
  | nil => exact List.Forall₂.nil
  | cons hab _ ih => exact List.Forall₂.cons (hf _ _ hab) ih

theorem countGe_perm {a b : CScores} (h : a.Perm b) (thr : Rat) : countGe a thr = countGe b thr := by
  unfold countGe; exact ((h.filter _).map _).sum_eq

theorem countGt_perm {a b : CScores} (h : a.Perm b) (thr : Rat) : countGt a thr = countGt b thr := by
  unfold countGt; exact ((h.filter _).map _).sum_eq

theorem aggregate_rel (fn : Agg) {t₁ t₂ : ScoreTable} (h : List.Forall₂ EntryEquiv t₁ t₂) :
    aggregate fn t₁ = aggregate fn t₂ := by
  have e : ∀ t, aggregate fn t = t.mapM (aggEntry fn) := fun _ => rfl
  rw [e, e]
  exact mj_except_forall₂_eq (score_mapM_forall₂ (aggEntry fn) (aggEntry fn) (aggEntry_equiv fn) h)

theorem closestChange_rel {t₁ t₂ : ScoreTable} (h : List.Forall₂ EntryEquiv t₁ t₂) (medians : Votes) :
    closestChange t₁ medians = closestChange t₂ medians := by
  unfold closestChange
  apply mj_foldl_eq _ h
  intro acc a b hab
  simp only [hab.1, totalCount_perm hab.2.1, countGe_perm hab.2.1, countGt_perm hab.2.1]

theorem tableFuel_rel {t₁ t₂ : ScoreTable} (h : List.Forall₂ EntryEquiv t₁ t₂) : tableFuel t₁ = tableFuel t₂ := by
  unfold tableFuel
  rw [mj_map_eq (fun p => (totalCount p.2).toNat) h (fun a b hab => by simp only [totalCount_perm hab.2.1]), h.length_eq]

/-- `_tiebreak_plus` on position-wise equivalent tables: equal results -/
theorem tiebreakPlus_rel {t₁ t₂ : ScoreTable} (h : List.Forall₂ EntryEquiv t₁ t₂) (n : Nat) :
    tiebreakPlus t₁ n = tiebreakPlus t₂ n := by
  cases h with
  | nil => rfl
  | cons hab htl =>
    rename_i a b l₁ l₂
    have hall : List.Forall₂ EntryEquiv (a :: l₁) (b :: l₂) := List.Forall₂.cons hab htl
    unfold tiebreakPlus
    simp only
    rw [aggregateOne_cequiv .medianLow hab.2]
    cases aggregateOne .medianLow b.2 with
    | error e => rfl
    | ok m =>
      simp only [bind, Except.bind, pure, Except.pure]
      rw [mj_map_eq (fun q => (q.1, ((countGe q.2 m : Int) : Rat))) hall
        (fun x y hxy => by simp only [hxy.1, countGe_perm hxy.2.1])]

/-- `_tiebreak_default` on position-wise equivalent tables: equal results -/
theorem tiebreakDefault_rel : ∀ (fuel : Nat) {t₁ t₂ : ScoreTable}, List.Forall₂ EntryEquiv t₁ t₂ → ∀ n : Nat,
    tiebreakDefault fuel t₁ n = tiebreakDefault fuel t₂ n := by
  intro fuel
  induction fuel with
  | zero => intro t₁ t₂ _ n; rfl
  | succ fuel ih =>
    intro t₁ t₂ h n
    cases h with
    | nil => rfl
    | cons hab htl =>
      rename_i a b l₁ l₂
      have hall : List.Forall₂ EntryEquiv (a :: l₁) (b :: l₂) := List.Forall₂.cons hab htl
      unfold tiebreakDefault
      simp only
      rw [mj_map_eq (fun p => totalCount p.2) hall (fun x y hxy => by simp only [totalCount_perm hxy.2.1]),
        totalCount_perm hab.2.1]
      split
      · rfl
      · rw [aggregate_rel .medianLow hall]
        cases aggregate .medianLow (b :: l₂) with
        | error e => rfl
        | ok medians =>
          simp only [bind, Except.bind, pure, Except.pure]
          cases firstTie (getNBest medians n) with
          | none => rfl
          | some j =>
            cases j with
            | zero =>
              simp only
              rw [closestChange_rel hall]
              apply ih
              apply mj_map_rel _ hall
              intro x y hxy
              refine ⟨hxy.1, ?_⟩
              simp only [hxy.1, hxy.2.getCount_eq]
              exact hxy.2.setCount _ _
            | succ i =>
              simp only
              rw [ih (mj_filter_rel (fun c => !((Appr.slotCands ((getNBest medians n).take (i + 1))).contains c)) hall)]

/-! ### the shape of selections -/

/-- individually elected candidates, then copies of one tie object -/
def Shaped (r : List Slot) : Prop :=
  ∃ (e T : List Cand) (m : Nat), r = e.map Slot.cand ++ List.replicate m (Slot.tie T)

theorem getNBest_shaped (v : Votes) (n : Nat) : Shaped (getNBest v n) := by
  obtain ⟨e₁, _, T₁, _, m, h, _⟩ := getNBest_perm v v (List.Perm.refl _) n
  exact ⟨e₁, T₁, m, h⟩

theorem shaped_cands_append (w : List Cand) {r : List Slot} (h : Shaped r) : Shaped (w.map Slot.cand ++ r) := by
  obtain ⟨e, T, m, rfl⟩ := h
  exact ⟨w ++ e, T, m, by rw [List.map_append, List.append_assoc]⟩

theorem slotsEquiv_prepend {e₁ e₂ : List Cand} (he : e₁.Perm e₂) {b : List Slot} (hb : Shaped b) :
    SlotsEquiv (e₁.map Slot.cand ++ b) (e₂.map Slot.cand ++ b) := by
  obtain ⟨e, T, m, rfl⟩ := hb
  exact ⟨e₁ ++ e, e₂ ++ e, T, T, m, by rw [List.map_append, List.append_assoc],
    by rw [List.map_append, List.append_assoc], he.append_right e, List.Perm.refl _⟩

/-- the places before the first tie object are individually elected candidates -/
theorem firstTie_take : ∀ {l : List Slot} {j : Nat}, firstTie l = some j →
    l.take j = (Appr.slotCands (l.take j)).map Slot.cand := by
  intro l
  induction l with
  | nil => intro j h; cases h
  | cons s rest ih =>
    intro j h
    cases s with
    | tie T =>
      simp only [firstTie] at h
      injection h with h; subst h; rfl
    | cand c =>
      simp only [firstTie] at h
      cases hr : firstTie rest with
      | none => rw [hr] at h; cases h
      | some i =>
        rw [hr] at h
        simp only [Option.map_some] at h
        injection h with h; subst h
        rw [List.take_succ_cons]
        simp only [Appr.slotCands, List.map_cons]
        rw [← ih hr]

theorem tiebreakDefault_shaped : ∀ (fuel : Nat) (t : ScoreTable) (n : Nat) (r : List Slot),
    tiebreakDefault fuel t n = .ok r → Shaped r := by
  intro fuel
  induction fuel with
  | zero => intro t n r h; cases h
  | succ fuel ih =>
    intro t n r h
    unfold tiebreakDefault at h
    cases t with
    | nil => cases h
    | cons p0 ps =>
      simp only at h
      split at h
      · cases h
      · cases ha : aggregate .medianLow (p0 :: ps) with
        | error e => rw [ha] at h; cases h
        | ok medians =>
          rw [ha] at h
          simp only [bind, Except.bind, pure, Except.pure] at h
          cases hft : firstTie (getNBest medians n) with
          | none =>
            rw [hft] at h
            injection h with h; subst h
            exact getNBest_shaped _ _
          | some j =>
            rw [hft] at h
            cases j with
            | zero => exact ih _ _ _ h
            | succ i =>
              simp only at h
              cases hrec : tiebreakDefault fuel ((p0 :: ps).filter
                  (fun p => !((Appr.slotCands ((getNBest medians n).take (i + 1))).contains p.1))) (n - (i + 1)) with
              | error e => rw [hrec] at h; cases h
              | ok rest =>
                rw [hrec] at h
                injection h with h; subst h
                rw [firstTie_take hft]
                exact shaped_cands_append _ (ih _ _ _ hrec)

theorem tiebreakPlus_shaped (t : ScoreTable) (n : Nat) (r : List Slot) (h : tiebreakPlus t n = .ok r) : Shaped r := by
  unfold tiebreakPlus at h
  cases t with
  | nil => cases h
  | cons p ps =>
    simp only at h
    cases hm : aggregateOne .medianLow p.2 with
    | error e => rw [hm] at h; cases h
    | ok m =>
      rw [hm] at h
      simp only [bind, Except.bind, pure, Except.pure] at h
      injection h with h; subst h
      exact getNBest_shaped _ _

/-! ### the table of the tied candidates -/

/-- the table handed to the tie-breakers (cardinal.py L155-157): the tied candidates in the iteration order of the
    `Tie` set, each with its corrected count dict -/
def tiedOf (corrected : ScoreTable) (T : List Cand) : ScoreTable :=
  (Appr.sortDedup T).filterMap (fun c => (tableGet corrected c).map (fun cs => (c, cs)))

def OptCEquiv : Option CScores → Option CScores → Prop
  | none, none => True
  | some a, some b => CEquiv a b
  | _, _ => False

theorem score_dget_rel {t₁ t₂ : ScoreTable} (h : List.Forall₂ EntryEquiv t₁ t₂) (c : Cand) :
    OptCEquiv (score_dget t₁ c) (score_dget t₂ c) := by
  induction h with
  | nil => exact True.intro
  | cons hab _ ih =>
    rw [score_dget_cons, score_dget_cons, hab.1]
    split
    · exact hab.2
    · exact ih

theorem tableGet_equiv {c₁ c₂ : ScoreTable} (h : TableEquiv c₁ c₂) (hnd : (scoreTKeys c₁).Nodup) (c : Cand) :
    OptCEquiv (tableGet c₁ c) (tableGet c₂ c) := by
  obtain ⟨t', hp, hf⟩ := h
  rw [tableGet_eq_score_dget, tableGet_eq_score_dget, score_dget_perm hp hnd]
  exact score_dget_rel hf c

theorem tiedOf_rel {c₁ c₂ : ScoreTable} (h : TableEquiv c₁ c₂) (hnd : (scoreTKeys c₁).Nodup) {T₁ T₂ : List Cand}
    (hT : T₁.Perm T₂) : List.Forall₂ EntryEquiv (tiedOf c₁ T₁) (tiedOf c₂ T₂) := by
  unfold tiedOf
  rw [sortDedup_congr (fun x => hT.mem_iff)]
  induction Appr.sortDedup T₂ with
  | nil => exact List.Forall₂.nil
  | cons c cs ih =>
    rw [List.filterMap_cons, List.filterMap_cons]
    have := tableGet_equiv h hnd c
    cases h1 : tableGet c₁ c with
    | none =>
      cases h2 : tableGet c₂ c with
      | none => exact ih
      | some b => rw [h1, h2] at this; exact this.elim
    | some a =>
      cases h2 : tableGet c₂ c with
      | none => rw [h1, h2] at this; exact this.elim
      | some b =>
        rw [h1, h2] at this
        exact List.Forall₂.cons ⟨rfl, this⟩ ih

theorem mj_mapM_keys {f : Cand × CScores → Except Err (Cand × CScores)} (hf : ∀ x y, f x = .ok y → y.1 = x.1) :
    ∀ (l r : ScoreTable), l.mapM f = .ok r → r.map (·.1) = l.map (·.1) := by
  intro l
  induction l with
  | nil => intro r h; simp only [List.mapM_nil] at h; injection h with h; subst h; rfl
  | cons x xs ih =>
    intro r h
    rw [score_mapM_cons_ok] at h
    cases hx : f x with
    | error e => rw [hx] at h; cases h
    | ok y =>
      rw [hx] at h
      cases hxs : xs.mapM f with
      | error e => rw [hxs] at h; cases h
      | ok ys =>
        rw [hxs] at h
        injection h with h; subst h
        rw [List.map_cons, List.map_cons, hf x y hx, ih ys hxs]

theorem correctedScores_keys_nodup {cfg : Cfg} {votes : SProfile} {t : ScoreTable}
    (h : correctedScores cfg votes = .ok t) : (scoreTKeys t).Nodup := by
  have e : correctedScores cfg votes = (rawScores votes).mapM (correctEntry cfg (totalVotes votes)) := rfl
  rw [e] at h
  have hk := mj_mapM_keys (f := correctEntry cfg (totalVotes votes)) (by
    intro x y hxy
    unfold correctEntry at hxy
    cases hc : correctOne cfg x.2 (totalVotes votes) with
    | error e => rw [hc] at hxy; cases hxy
    | ok cs => rw [hc] at hxy; injection hxy with hxy; rw [← hxy]) _ _ h
  unfold scoreTKeys
  rw [hk]
  exact (ScoreTWF_rawScores votes).1

/-! ### `MajorityJudgment.evaluate` -/

/-- what `evaluate` does after ranking (cardinal.py L150-162) -/
def mjTail (tb : TieBreaking) (corrected : ScoreTable) (order : List Slot) : Except Err (List Slot) :=
  match order.getLast? with
  | none => .error (.other "IndexError")
  | some (Slot.cand _) => pure order
  | some (Slot.tie T) =>
    let k := order.count (Slot.tie T)
    let tied : ScoreTable := (Appr.sortDedup T).filterMap (fun c => (tableGet corrected c).map (fun cs => (c, cs)))
    do
    let broken ← match tb with
      | .default => tiebreakDefault (tableFuel tied) tied k
      | .plus => tiebreakPlus tied k
    pure (order.take (order.length - k) ++ broken)

theorem majorityJudgment_eq (tb : TieBreaking) (cfg : Cfg) (votes : SProfile) (n : Nat) :
    majorityJudgment tb cfg votes n =
      (correctedScores { cfg with fn := .medianLow } votes >>= fun corrected =>
        aggregate .medianLow corrected >>= fun agg => mjTail tb corrected (getNBest agg n)) := rfl

/-- the tie-breaking call -/
def mjBreak (tb : TieBreaking) (tied : ScoreTable) (k : Nat) : Except Err (List Slot) :=
  match tb with
  | .default => tiebreakDefault (tableFuel tied) tied k
  | .plus => tiebreakPlus tied k

theorem mj_count_tie (e T : List Cand) (m : Nat) :
    (e.map Slot.cand ++ List.replicate m (Slot.tie T)).count (Slot.tie T) = m := by
  rw [List.count_append, List.count_replicate_self]
  have : (e.map Slot.cand).count (Slot.tie T) = 0 := by
    rw [List.count_eq_zero]
    intro h
    obtain ⟨c, _, hc⟩ := List.mem_map.mp h
    cases hc
  rw [this, Nat.zero_add]

theorem mjTail_tie (tb : TieBreaking) (corrected : ScoreTable) (e T : List Cand) (m : Nat) :
    mjTail tb corrected (e.map Slot.cand ++ List.replicate (m + 1) (Slot.tie T)) =
      match mjBreak tb (tiedOf corrected T) (m + 1) with
      | .error err => .error err
      | .ok broken => .ok (e.map Slot.cand ++ broken) := by
  have hl : (e.map Slot.cand ++ List.replicate (m + 1) (Slot.tie T)).getLast? = some (Slot.tie T) := by
    rw [List.getLast?_append, List.getLast?_replicate]; simp
  unfold mjTail
  rw [hl]
  simp only [mj_count_tie]
  have ht : (e.map Slot.cand ++ List.replicate (m + 1) (Slot.tie T)).take
      ((e.map Slot.cand ++ List.replicate (m + 1) (Slot.tie T)).length - (m + 1)) = e.map Slot.cand := by
    have : (e.map Slot.cand ++ List.replicate (m + 1) (Slot.tie T)).length - (m + 1) = (e.map Slot.cand).length := by
      rw [List.length_append, List.length_replicate]; omega
    rw [this, List.take_left']
    rfl
  rw [ht]
  unfold mjBreak tiedOf
  cases tb with
  | default =>
    simp only
    cases tiebreakDefault _ _ (m + 1) <;> rfl
  | plus =>
    simp only
    cases tiebreakPlus _ (m + 1) <;> rfl

theorem mjTail_cands (tb : TieBreaking) (corrected : ScoreTable) (e : List Cand) (he : e ≠ []) :
    mjTail tb corrected (e.map Slot.cand) = .ok (e.map Slot.cand) := by
  unfold mjTail
  rw [List.getLast?_map, List.getLast?_eq_some_getLast he]
  rfl

theorem mjBreak_shaped (tb : TieBreaking) (tied : ScoreTable) (k : Nat) (r : List Slot) (h : mjBreak tb tied k = .ok r) :
    Shaped r := by
  unfold mjBreak at h
  cases tb with
  | default => exact tiebreakDefault_shaped _ _ _ _ h
  | plus => exact tiebreakPlus_shaped _ _ _ h

theorem mjBreak_rel (tb : TieBreaking) {t₁ t₂ : ScoreTable} (h : List.Forall₂ EntryEquiv t₁ t₂) (k : Nat) :
    mjBreak tb t₁ k = mjBreak tb t₂ k := by
  unfold mjBreak
  cases tb with
  | default => simp only; rw [tableFuel_rel h]; exact tiebreakDefault_rel _ h k
  | plus => exact tiebreakPlus_rel h k

theorem mjTail_equiv (tb : TieBreaking) {c₁ c₂ : ScoreTable} (hc : TableEquiv c₁ c₂) (hnd : (scoreTKeys c₁).Nodup)
    {o₁ o₂ : List Slot} (ho : SlotsEquiv o₁ o₂) : ExceptEquiv SlotsEquiv (mjTail tb c₁ o₁) (mjTail tb c₂ o₂) := by
  obtain ⟨e₁, e₂, T₁, T₂, m, rfl, rfl, he, hT⟩ := ho
  cases m with
  | zero =>
    simp only [List.replicate_zero, List.append_nil]
    by_cases h1 : e₁ = []
    · subst h1
      have h2 : e₂ = [] := he.nil_eq.symm
      subst h2
      exact rfl
    · have h2 : e₂ ≠ [] := fun h => h1 (by rw [h] at he; exact he.eq_nil)
      rw [mjTail_cands tb c₁ e₁ h1, mjTail_cands tb c₂ e₂ h2]
      exact ⟨e₁, e₂, [], [], 0, by simp, by simp, he, List.Perm.refl _⟩
  | succ m =>
    rw [mjTail_tie, mjTail_tie, mjBreak_rel tb (tiedOf_rel hc hnd hT)]
    cases hb : mjBreak tb (tiedOf c₂ T₂) (m + 1) with
    | error err => exact rfl
    | ok broken => exact slotsEquiv_prepend he (mjBreak_shaped tb _ _ _ hb)

/-- **`MajorityJudgment.evaluate`: ballot-order independence**, both tie-breaking rules, every setting; no hypothesis on
    the profile.  `SameBallots` forgets the order of the ballots and the order in which each ballot lists its
    candidates: the same exception, or `SlotsEquiv` selections. -/
theorem majorityJudgment_same (tb : TieBreaking) (cfg : Cfg) {p₁ p₂ : SProfile} (h : SameBallots p₁ p₂) (n : Nat) :
    ExceptEquiv SlotsEquiv (majorityJudgment tb cfg p₁ n) (majorityJudgment tb cfg p₂ n) := by
  rw [majorityJudgment_eq, majorityJudgment_eq]
  have hc := correctedScores_same { cfg with fn := .medianLow } h
  cases h1 : correctedScores { cfg with fn := .medianLow } p₁ with
  | error e =>
    cases h2 : correctedScores { cfg with fn := .medianLow } p₂ with
    | error e' => rw [h1, h2] at hc; exact hc
    | ok y => rw [h1, h2] at hc; exact hc.elim
  | ok x =>
    cases h2 : correctedScores { cfg with fn := .medianLow } p₂ with
    | error e' => rw [h1, h2] at hc; exact hc.elim
    | ok y =>
      rw [h1, h2] at hc
      have ha := aggregate_equiv .medianLow hc
      show ExceptEquiv SlotsEquiv (aggregate .medianLow x >>= fun agg => mjTail tb x (getNBest agg n))
        (aggregate .medianLow y >>= fun agg => mjTail tb y (getNBest agg n))
      cases h3 : aggregate .medianLow x with
      | error e =>
        cases h4 : aggregate .medianLow y with
        | error e' => rw [h3, h4] at ha; exact ha
        | ok b => rw [h3, h4] at ha; exact ha.elim
      | ok a =>
        cases h4 : aggregate .medianLow y with
        | error e' => rw [h3, h4] at ha; exact ha.elim
        | ok b =>
          rw [h3, h4] at ha
          exact mjTail_equiv tb hc (correctedScores_keys_nodup h1) (getNBest_perm a b ha n)

/-- **`MajorityJudgment.evaluate`: ballot-order independence** (the profile dict in another insertion order) -/
theorem majorityJudgment_perm (tb : TieBreaking) (cfg : Cfg) {p₁ p₂ : SProfile} (h : p₁.Perm p₂) (n : Nat) :
    ExceptEquiv SlotsEquiv (majorityJudgment tb cfg p₁ n) (majorityJudgment tb cfg p₂ n) :=
  majorityJudgment_same tb cfg (sameBallots_of_perm h) n

/-- non-vacuity: a boundary tie broken by the default rule, the ballots in two orders (and one ballot re-listed) -/
example : SameBallots [([(1, (1 : Rat)), (2, 2), (3, 1)], (6 : Int)), ([(3, 2)], 3)]
    [([(3, 2)], 3), ([(3, 1), (1, 1), (2, 2)], 6)] := by decide +kernel
example : majorityJudgment .default { fn := .medianLow, unscored := .none, minCount := 0, trunc := .off, bottom := 0 }
    [([(1, 1), (2, 2), (3, 1)], 6), ([(3, 2)], 3)] 2 = .ok [Slot.cand 2, Slot.cand 3] := by decide +kernel
example : majorityJudgment .default { fn := .medianLow, unscored := .none, minCount := 0, trunc := .off, bottom := 0 }
    [([(3, 2)], 3), ([(1, 1), (2, 2), (3, 1)], 6)] 2 = .ok [Slot.cand 2, Slot.cand 3] := by decide +kernel

end VL.Perm
