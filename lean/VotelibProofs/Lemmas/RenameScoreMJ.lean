/-
  C10, score family, majority judgment: candidate names do not matter — for STRICTLY MONOTONE renamings as an equality.
  (A monotone renaming keeps the iteration order of candidate sets, which the tie-breakers' table is built in; together
  with `majorityJudgment_same` — independence of the ballot order and of the listing order inside a ballot — this covers
  what a renaming does to the input.  For a renaming that is not monotone the table of the tied candidates is handed to
  the tie-breakers in another order; that case is NOT proved here.)
-/
import VotelibProofs.Lemmas.RenameScore
import VotelibProofs.Lemmas.PermScoreMJ
import Mathlib.Order.Monotone.Basic
namespace VL.Perm
open VL VL.Score VL.C10

section
variable {σ : Cand → Cand}

theorem mjr_renSlot_injective (hσ : Function.Injective σ) : Function.Injective (renSlot σ) := by
  intro a b h
  cases a with
  | cand x =>
    cases b with
    | cand y => simp only [renSlot, Slot.cand.injEq] at h; rw [hσ h]
    | tie T => cases h
  | tie S =>
    cases b with
    | cand y => cases h
    | tie T => simp only [renSlot, Slot.tie.injEq] at h; rw [List.map_injective_iff.mpr hσ h]

theorem mjr_firstTie (l : List Slot) : firstTie (l.map (renSlot σ)) = firstTie l := by
  induction l with
  | nil => rfl
  | cons s rest ih =>
    cases s with
    | cand c => simp only [List.map_cons, renSlot, firstTie, ih]
    | tie T => rfl

theorem mjr_slotCands (l : List Slot) : Appr.slotCands (l.map (renSlot σ)) = (Appr.slotCands l).map σ := by
  induction l with
  | nil => rfl
  | cons s rest ih =>
    cases s with
    | cand c => simp only [List.map_cons, renSlot, Appr.slotCands, ih]
    | tie T => simp only [List.map_cons, renSlot, Appr.slotCands, ih]

theorem mjr_tableGet (hσ : Function.Injective σ) (t : ScoreTable) (c : Cand) :
    tableGet (renScoreTable σ t) (σ c) = tableGet t c := by
  unfold tableGet renScoreTable
  induction t with
  | nil => rfl
  | cons x xs ih =>
    simp only [List.map_cons, List.find?_cons]
    by_cases hx : x.1 = c
    · simp [hx]
    · have : σ x.1 ≠ σ c := fun h => hx (hσ h)
      simp only [hx, this, decide_false]
      exact ih

theorem mjr_sortDedup (hmono : StrictMono σ) (T : List Cand) :
    Appr.sortDedup (T.map σ) = (Appr.sortDedup T).map σ := by
  apply appr_sorted_ext (Appr.sortDedup_sorted _)
  · exact (List.pairwise_map.mpr ((Appr.sortDedup_sorted T).imp (fun h => hmono h)))
  · intro x
    rw [Appr.mem_sortDedup, List.mem_map, List.mem_map]
    constructor
    · rintro ⟨c, hc, rfl⟩; exact ⟨c, Appr.mem_sortDedup.mpr hc, rfl⟩
    · rintro ⟨c, hc, rfl⟩; exact ⟨c, Appr.mem_sortDedup.mp hc, rfl⟩

theorem mjr_tiedOf (hmono : StrictMono σ) (corrected : ScoreTable) (T : List Cand) :
    tiedOf (renScoreTable σ corrected) (T.map σ) = renScoreTable σ (tiedOf corrected T) := by
  unfold tiedOf
  rw [mjr_sortDedup hmono]
  induction Appr.sortDedup T with
  | nil => rfl
  | cons c cs ih =>
    rw [List.map_cons, List.filterMap_cons, List.filterMap_cons, mjr_tableGet hmono.injective, ih]
    cases tableGet corrected c <;> rfl

theorem mjr_getD (hσ : Function.Injective σ) (m : Votes) (c : Cand) : getD (renVotes σ m) (σ c) 0 = getD m c 0 := by
  unfold getD; rw [lookup_ren σ hσ]

theorem mjr_closestChange (hσ : Function.Injective σ) (t : ScoreTable) (medians : Votes) :
    closestChange (renScoreTable σ t) (renVotes σ medians) = closestChange t medians := by
  unfold closestChange renScoreTable
  rw [List.foldl_map]
  simp only [mjr_getD hσ]

theorem mjr_shift (hσ : Function.Injective σ) (t : ScoreTable) (medians : Votes) (cc : Int) :
    (renScoreTable σ t).map (fun q =>
        (q.1, setCount q.2 (getD (renVotes σ medians) q.1 0) (getCount q.2 (getD (renVotes σ medians) q.1 0) - cc))) =
      renScoreTable σ (t.map (fun q =>
        (q.1, setCount q.2 (getD medians q.1 0) (getCount q.2 (getD medians q.1 0) - cc)))) := by
  unfold renScoreTable
  rw [List.map_map, List.map_map]
  apply List.map_congr_left
  intro q _
  simp only [Function.comp_def, mjr_getD hσ]

theorem mjr_tableFuel (t : ScoreTable) : tableFuel (renScoreTable σ t) = tableFuel t := by
  unfold tableFuel renScoreTable
  rw [List.map_map, List.length_map]; rfl

theorem mjr_tiebreakPlus (t : ScoreTable) (n : Nat) :
    tiebreakPlus (renScoreTable σ t) n = (tiebreakPlus t n).map (List.map (renSlot σ)) := by
  cases t with
  | nil => rfl
  | cons p ps =>
    show tiebreakPlus ((σ p.1, p.2) :: renScoreTable σ ps) n = _
    unfold tiebreakPlus
    simp only
    cases aggregateOne .medianLow p.2 with
    | error e => rfl
    | ok m =>
      simp only [bind, Except.bind, pure, Except.pure, Except.map]
      rw [← getNBest_rename]
      congr 2
      show List.map _ (renScoreTable σ (p :: ps)) = _
      unfold renVotes renScoreTable
      rw [List.map_map, List.map_map]
      rfl

theorem mjr_tiebreakDefault (hσ : Function.Injective σ) : ∀ (fuel : Nat) (t : ScoreTable) (n : Nat),
    tiebreakDefault fuel (renScoreTable σ t) n = (tiebreakDefault fuel t n).map (List.map (renSlot σ)) := by
  intro fuel
  induction fuel with
  | zero => intro t n; rfl
  | succ fuel ih =>
    intro t n
    cases t with
    | nil => rfl
    | cons p ps =>
      have hcons : renScoreTable σ (p :: ps) = (σ p.1, p.2) :: renScoreTable σ ps := rfl
      have hmap : (renScoreTable σ (p :: ps)).map (fun q => totalCount q.2) = (p :: ps).map (fun q => totalCount q.2) := by
        unfold renScoreTable; rw [List.map_map]; rfl
      unfold tiebreakDefault
      rw [hcons]
      simp only
      rw [← hcons, hmap]
      split
      · rfl
      · rw [aggregate_ren]
        cases aggregate .medianLow (p :: ps) with
        | error e => rfl
        | ok medians =>
          simp only [bind, Except.bind, pure, Except.pure, Except.map]
          rw [getNBest_rename, mjr_firstTie]
          cases firstTie (getNBest medians n) with
          | none => rfl
          | some j =>
            cases j with
            | zero =>
              simp only
              rw [mjr_closestChange hσ]
              rw [mjr_shift hσ, ih]
              rfl
            | succ i =>
              simp only
              have : (renScoreTable σ (p :: ps)).filter (fun q =>
                    !((Appr.slotCands (((getNBest medians n).map (renSlot σ)).take (i + 1))).contains q.1)) =
                  renScoreTable σ ((p :: ps).filter (fun q =>
                    !((Appr.slotCands ((getNBest medians n).take (i + 1))).contains q.1))) := by
                unfold renScoreTable
                rw [List.filter_map]
                congr 1
                apply List.filter_congr
                intro q _
                simp only [Function.comp_def, ← List.map_take, mjr_slotCands]
                rw [List.contains_eq_mem, List.contains_eq_mem, decide_eq_decide.mpr (List.mem_map_of_injective hσ)]
              rw [this, ih]
              cases tiebreakDefault fuel _ (n - (i + 1)) with
              | error e => rfl
              | ok rest => simp only [List.map_append, List.map_take]; rfl

theorem mjTail_unfold (tb : TieBreaking) (c : ScoreTable) (o : List Slot) :
    mjTail tb c o =
      match o.getLast? with
      | none => .error (.other "IndexError")
      | some (Slot.cand _) => .ok o
      | some (Slot.tie T) =>
        match mjBreak tb (tiedOf c T) (o.count (Slot.tie T)) with
        | .error e => .error e
        | .ok broken => .ok (o.take (o.length - o.count (Slot.tie T)) ++ broken) := by
  unfold mjTail mjBreak tiedOf
  cases o.getLast? with
  | none => rfl
  | some s =>
    cases s with
    | cand x => rfl
    | tie T =>
      cases tb with
      | default =>
        simp only
        cases tiebreakDefault _ _ (o.count (Slot.tie T)) <;> rfl
      | plus =>
        simp only
        cases tiebreakPlus _ (o.count (Slot.tie T)) <;> rfl

theorem mjr_mjBreak (hmono : StrictMono σ) (tb : TieBreaking) (c : ScoreTable) (T : List Cand) (k : Nat) :
    mjBreak tb (tiedOf (renScoreTable σ c) (T.map σ)) k = (mjBreak tb (tiedOf c T) k).map (List.map (renSlot σ)) := by
  rw [mjr_tiedOf hmono]
  unfold mjBreak
  cases tb with
  | default => simp only; rw [mjr_tableFuel, mjr_tiebreakDefault hmono.injective]
  | plus => exact mjr_tiebreakPlus _ _

theorem mjr_mjTail (hmono : StrictMono σ) (tb : TieBreaking) (c : ScoreTable) (o : List Slot) :
    mjTail tb (renScoreTable σ c) (o.map (renSlot σ)) = (mjTail tb c o).map (List.map (renSlot σ)) := by
  rw [mjTail_unfold, mjTail_unfold, List.getLast?_map]
  cases o.getLast? with
  | none => rfl
  | some s =>
    cases s with
    | cand x => rfl
    | tie T =>
      have hcount : (o.map (renSlot σ)).count (Slot.tie (T.map σ)) = o.count (Slot.tie T) :=
        List.count_map_of_injective o (renSlot σ) (mjr_renSlot_injective hmono.injective) (Slot.tie T)
      simp only [Option.map_some, renSlot, hcount, List.length_map]
      rw [mjr_mjBreak hmono]
      cases mjBreak tb (tiedOf c T) (o.count (Slot.tie T)) with
      | error e => rfl
      | ok broken =>
        simp only [Except.map, ← List.map_take, List.map_append]

/-- **`MajorityJudgment.evaluate` commutes with every strictly monotone renaming**: the same exception, or the renamed
    selection (equality; both tie-breaking rules, every setting; ballots list the renamed candidates in the old order —
    combine with `majorityJudgment_same` for re-listed ballots) -/
theorem majorityJudgment_rename_mono (hmono : StrictMono σ) (tb : TieBreaking) (cfg : Cfg) (p : SProfile) (n : Nat) :
    majorityJudgment tb cfg (renScore σ p) n = (majorityJudgment tb cfg p n).map (List.map (renSlot σ)) := by
  rw [majorityJudgment_eq, majorityJudgment_eq, correctedScores_ren hmono.injective]
  cases correctedScores { cfg with fn := .medianLow } p with
  | error e => rfl
  | ok t =>
    show (aggregate .medianLow (renScoreTable σ t) >>= fun agg => mjTail tb (renScoreTable σ t) (getNBest agg n)) =
      (aggregate .medianLow t >>= fun agg => mjTail tb t (getNBest agg n)).map (List.map (renSlot σ))
    rw [aggregate_ren]
    cases aggregate .medianLow t with
    | error e => rfl
    | ok agg =>
      show mjTail tb (renScoreTable σ t) (getNBest (renVotes σ agg) n) = (mjTail tb t (getNBest agg n)).map _
      rw [getNBest_rename, mjr_mjTail hmono]

end

/-- non-vacuity: a strictly monotone renaming, a boundary tie broken by the default rule -/
example : majorityJudgment .default { fn := .medianLow, unscored := .none, minCount := 0, trunc := .off, bottom := 0 }
    (renScore (fun c => 2 * c + 5) [([(1, 1), (2, 2), (3, 1)], 6), ([(3, 2)], 3)]) 2 = .ok [Slot.cand 9, Slot.cand 11] := by
  decide +kernel
example : StrictMono (fun c : Nat => 2 * c + 5) := fun a b h => by simp only; omega

end VL.Perm
