/-
  C08 helper lemmas for `QuotaDistributor` / `LargestRemainder` (model VL.QD, owned by C02): the dict operations
  keep "positive awards, keys are candidates of the votes or ties of them".
-/
import VotelibProofs.Lemmas.ShapeDefs
import VotelibProofs.Props.C02
namespace VL.C08
open VL VL.QD

/-- invariant of a result dict under construction -/
def GoodSel (cands : List Cand) (s : Sel) : Prop := (∀ p ∈ s, 0 < p.2) ∧ (∀ p ∈ s, KeyOK cands p.1)

theorem goodSel_nil (cands : List Cand) : GoodSel cands [] := ⟨by simp, by simp⟩

theorem mem_setK {s : Sel} {k : Key} {v : Int} {p : Key × Int} (h : p ∈ setK s k v) : p = (k, v) ∨ p ∈ s := by
  induction s with
  | nil => simp only [setK, List.mem_singleton] at h; exact Or.inl h
  | cons x xs ih =>
    unfold setK at h
    split at h
    · rcases List.mem_cons.mp h with h | h
      · exact Or.inl h
      · exact Or.inr (List.mem_cons_of_mem _ h)
    · rcases List.mem_cons.mp h with h | h
      · exact Or.inr (h ▸ List.mem_cons_self)
      · rcases ih h with h | h
        · exact Or.inl h
        · exact Or.inr (List.mem_cons_of_mem _ h)

theorem goodSel_setK {cands : List Cand} {s : Sel} (h : GoodSel cands s) {k : Key} {v : Int} (hv : 0 < v)
    (hk : KeyOK cands k) : GoodSel cands (setK s k v) := by
  constructor
  · intro p hp
    rcases mem_setK hp with rfl | hp
    · exact hv
    · exact h.1 p hp
  · intro p hp
    rcases mem_setK hp with rfl | hp
    · exact hk
    · exact h.2 p hp

theorem getK_mem_of_hasK {s : Sel} {k : Key} (h : hasK s k = true) : (k, getK s k 0) ∈ s := by
  induction s with
  | nil => simp [hasK] at h
  | cons x xs ih =>
    rw [getK_cons]
    by_cases hx : x.1 = k
    · rw [if_pos hx]; rw [← hx]; exact List.mem_cons_self
    · rw [if_neg hx]
      rw [hasK_cons] at h
      have : hasK xs k = true := by simpa [hx] using h
      exact List.mem_cons_of_mem _ (ih this)

theorem goodSel_incK {cands : List Cand} {s : Sel} (h : GoodSel cands s) {k : Key} (hk : KeyOK cands k) :
    GoodSel cands (incK s k) := by
  unfold incK
  split
  · rename_i hh
    have := h.1 _ (getK_mem_of_hasK hh)
    exact goodSel_setK h (by simp only at this; omega) hk
  · exact goodSel_setK h (by decide) hk

theorem goodSel_wholeSel (q : Rat) (ae : Bool) (prev maxS : IMap) (votes : Votes) :
    GoodSel (keys votes) (wholeSel q ae prev maxS votes) := by
  constructor
  · intro p hp
    unfold wholeSel at hp
    obtain ⟨x, _, hx⟩ := List.mem_filterMap.mp hp
    split at hx
    · rename_i hpos; injection hx with hx; subst hx; exact hpos
    · cases hx
  · intro p hp
    obtain ⟨x, hx, he⟩ := mem_keys_wholeSel (List.mem_map.mpr ⟨p, hp, rfl⟩)
    rw [he]
    exact List.mem_map.mpr ⟨x, hx, rfl⟩

theorem mem_insNat {x y : Nat} {l : List Nat} : y ∈ insNat x l ↔ y = x ∨ y ∈ l := by
  induction l with
  | nil => simp [insNat]
  | cons z zs ih =>
    unfold insNat
    split
    · simp
    · simp only [List.mem_cons, ih]; tauto

theorem mem_sortNat {y : Nat} {l : List Nat} : y ∈ sortNat l ↔ y ∈ l := by
  induction l with
  | nil => simp [sortNat]
  | cons z zs ih => simp only [sortNat, mem_insNat, ih, List.mem_cons]

theorem keyOK_mkTie {cands : List Cand} {T : List Cand} (h : ∀ c ∈ T, c ∈ cands) : KeyOK cands (mkTie T) := by
  intro c hc
  exact h c (mem_sortNat.mp hc)

theorem mem_level_keys {votes : Votes} {t : Rat} {c : Cand} (hc : c ∈ level votes t) : c ∈ keys votes := by
  simp only [level, List.mem_map, List.mem_filter] at hc
  obtain ⟨p, ⟨hp, _⟩, rfl⟩ := hc
  exact List.mem_map.mpr ⟨p, hp, rfl⟩

/-- every place of `get_n_best` names candidates of the table -/
theorem keyOK_slotKey_getNBest (table : Votes) (n : Nat) (s : Slot) (hs : s ∈ getNBest table n) :
    KeyOK (keys table) (slotKey s) := by
  cases s with
  | cand c =>
    obtain ⟨p, hp, rfl⟩ := cand_mem_getNBest table n c hs
    exact List.mem_map.mpr ⟨p, hp, rfl⟩
  | tie T =>
    obtain ⟨t, _, _, hT, _⟩ := tie_mem_getNBest table n T hs
    subst hT
    exact keyOK_mkTie (fun c hc => mem_level_keys hc)

theorem KeyOK.mono {cands cands' : List Cand} {k : Key} (h : KeyOK cands k) (hsub : ∀ c ∈ cands, c ∈ cands') :
    KeyOK cands' k := by
  cases k with
  | cand c => exact hsub c h
  | tie T => exact fun c hc => hsub c (h c hc)

theorem goodSel_foldl_incK {cands : List Cand} (l : List Slot) (hl : ∀ s ∈ l, KeyOK cands (slotKey s)) :
    ∀ s : Sel, GoodSel cands s → GoodSel cands (l.foldl (fun acc x => incK acc (slotKey x)) s) := by
  induction l with
  | nil => intro s hs; exact hs
  | cons x xs ih =>
    intro s hs
    simp only [List.foldl_cons]
    exact ih (fun y hy => hl y (List.mem_cons_of_mem _ hy)) _ (goodSel_incK hs (hl x List.mem_cons_self))

theorem KNodup_incK {s : Sel} (h : KNodup s) (k : Key) : KNodup (incK s k) := by
  unfold incK; split <;> exact KNodup_setK h _ _

theorem KNodup_foldl_incK (l : List Slot) : ∀ s : Sel, KNodup s →
    KNodup (l.foldl (fun acc x => incK acc (slotKey x)) s) := by
  induction l with
  | nil => intro s hs; exact hs
  | cons x xs ih => intro s hs; simp only [List.foldl_cons]; exact ih _ (KNodup_incK hs _)

theorem keys_lrRems_subset (q : Rat) (ae : Bool) (prev maxS : IMap) (votes : Votes) :
    ∀ c ∈ keys (lrRems q ae prev maxS votes), c ∈ keys votes :=
  fun _ hc => (keys_lrRems_sublist q ae prev maxS votes).subset hc

end VL.C08
