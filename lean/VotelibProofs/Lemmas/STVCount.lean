/-
  Lemmas about one count of the transferable-vote model: election by quota, elimination, the initial
  allocation; used by Props/C03.lean and Props/C04.lean.
-/
import VotelibProofs.Lemmas.STV
namespace VL.STV
open VL

/-! ### util -/

theorem dedupFirst_go (l out : List Cand) (hout : out.Nodup) :
    (l.foldl (fun out c => if c ∈ out then out else out ++ [c]) out).Nodup ∧
    ∀ x, x ∈ l.foldl (fun out c => if c ∈ out then out else out ++ [c]) out ↔ x ∈ out ∨ x ∈ l := by
  induction l generalizing out with
  | nil => exact ⟨hout, by simp⟩
  | cons c cs ih =>
    simp only [List.foldl_cons]
    by_cases hc : c ∈ out
    · rw [if_pos hc]
      obtain ⟨h1, h2⟩ := ih out hout
      refine ⟨h1, fun x => ?_⟩
      rw [h2, List.mem_cons]
      constructor
      · rintro (h | h); exact Or.inl h; exact Or.inr (Or.inr h)
      · rintro (h | h | h); exact Or.inl h; exact Or.inl (h ▸ hc); exact Or.inr h
    · rw [if_neg hc]
      have hn : (out ++ [c]).Nodup := by
        refine List.nodup_append.mpr ⟨hout, List.nodup_singleton _, ?_⟩
        intro x hx y hy; simp at hy; subst hy; intro he; subst he; exact hc hx
      obtain ⟨h1, h2⟩ := ih _ hn
      refine ⟨h1, fun x => ?_⟩
      rw [h2, List.mem_append, List.mem_singleton, List.mem_cons]
      tauto

theorem dedupFirst_nodup (l : List Cand) : (dedupFirst l).Nodup := (dedupFirst_go l [] List.nodup_nil).1

theorem mem_dedupFirst {l : List Cand} {x : Cand} : x ∈ dedupFirst l ↔ x ∈ l := by
  have := (dedupFirst_go l [] List.nodup_nil).2 x
  simpa [dedupFirst] using this

theorem allRanked_nodup (votes : Profile) : (allRanked votes).Nodup := dedupFirst_nodup _

theorem le_maxRanks_go (votes : Profile) (m : Nat) :
    m ≤ votes.foldl (fun m p => max m p.1.length) m ∧
    ∀ p ∈ votes, p.1.length ≤ votes.foldl (fun m p => max m p.1.length) m := by
  induction votes generalizing m with
  | nil => simp
  | cons q qs ih =>
    simp only [List.foldl_cons]
    obtain ⟨h1, h2⟩ := ih (max m q.1.length)
    refine ⟨le_trans (le_max_left _ _) h1, ?_⟩
    intro p hp
    rcases List.mem_cons.mp hp with h | h
    · rw [h]; exact le_trans (le_max_right _ _) h1
    · exact h2 p h

theorem length_le_maxRanks {votes : Profile} {p : Ballot × Rat} (hp : p ∈ votes) : p.1.length ≤ maxRanks votes :=
  (le_maxRanks_go votes 0).2 p hp

/-- every candidate named on a ballot is among `all_ranked_candidates` -/
theorem mem_allRanked {votes : Profile} {c : Cand} :
    c ∈ allRanked votes ↔ ∃ p ∈ votes, c ∈ ballotCands p.1 := by
  unfold allRanked
  rw [mem_dedupFirst]
  simp only [List.mem_flatMap, List.mem_range, rankRow, ballotCands]
  constructor
  · rintro ⟨i, _, p, hp, hc⟩
    refine ⟨p, hp, ?_⟩
    cases hi : p.1[i]? with
    | none => rw [hi] at hc; cases hc
    | some it =>
      rw [hi] at hc
      exact ⟨it, List.mem_of_getElem? hi, hc⟩
  · rintro ⟨p, hp, it, hit, hc⟩
    obtain ⟨i, hi, rfl⟩ := List.mem_iff_getElem.mp hit
    refine ⟨i, lt_of_lt_of_le hi (length_le_maxRanks hp), p, hp, ?_⟩
    rw [List.getElem?_eq_getElem hi]
    exact hc


/-! ### totals -/

theorem mem_totalsInPlay {a : Alloc} {ct : Cand × Rat} :
    ct ∈ totalsInPlay a ↔ ∃ p, (some ct.1, p) ∈ a ∧ ct.2 = pileTotal p := by
  unfold totalsInPlay
  rw [List.mem_filterMap]
  constructor
  · rintro ⟨hp, hhp, he⟩
    obtain ⟨h, p⟩ := hp
    cases h with
    | none => simp at he
    | some c => simp only [Option.some.injEq] at he; subst he; exact ⟨p, hhp, rfl⟩
  · rintro ⟨p, hp, he⟩
    exact ⟨(some ct.1, p), hp, by simp only [← he]⟩

theorem keys_totalsInPlay (a : Alloc) : (totalsInPlay a).map (·.1) = continuing a := by
  induction a with
  | nil => rfl
  | cons y ys ih =>
    obtain ⟨h, p⟩ := y
    cases h with
    | none => simpa [totalsInPlay, continuing] using ih
    | some c =>
      simp only [totalsInPlay, continuing, List.filterMap_cons, List.map_cons] at ih ⊢
      rw [ih]

theorem allocPile_of_mem {a : Alloc} (hk : KeysNodup a) {h : Option Cand} {p : Pile} (hm : (h, p) ∈ a) :
    allocPile a h = p := by
  induction a with
  | nil => cases hm
  | cons y ys ih =>
    obtain ⟨h', p'⟩ := y
    have hnot : h' ∉ allocKeys ys := (List.nodup_cons.mp hk).1
    rcases List.mem_cons.mp hm with he | he
    · injection he with h1 h2; subst h1; subst h2; simp [allocPile]
    · have hne : h' ≠ h := fun e => hnot (e ▸ List.mem_map_of_mem (f := (·.1)) he)
      have : allocPile ((h', p') :: ys) h = allocPile ys h := by simp [allocPile, hne]
      rw [this]; exact ih (List.nodup_cons.mp hk).2 he

theorem totalsInPlay_total {a : Alloc} (hk : KeysNodup a) {ct : Cand × Rat} (h : ct ∈ totalsInPlay a) :
    ct.2 = pileTotal (allocPile a (some ct.1)) := by
  obtain ⟨p, hp, he⟩ := mem_totalsInPlay.mp h
  rw [allocPile_of_mem hk hp]; exact he

/-- the total a continuing candidate holds -/
def totalOf (a : Alloc) (c : Cand) : Rat := pileTotal (allocPile a (some c))

theorem continuing_nodup {a : Alloc} (hk : KeysNodup a) : (continuing a).Nodup := by
  rw [continuing_eq]
  exact List.Nodup.filterMap (fun x y z hx hy => by simp at hx hy; rw [hx, hy]) hk

/-! ### election by quota -/

theorem capOf_le (maxS : Seats) (c : Cand) (m : Int) : capOf maxS c m ≤ m := by
  unfold capOf; split
  · exact min_le_left _ _
  · exact le_refl _

theorem capOf_le_max {maxS : Seats} {c : Cand} {k : Nat} (h : maxGet maxS c = some k) (m : Int) :
    capOf maxS c m ≤ k := by
  unfold capOf; rw [h]; exact min_le_right _ _

theorem quotaEntry_some {eq : Bool} {q : Rat} {prev maxS : Seats} {ct : Cand × Rat} {x : Cand × Nat × Rat}
    (h : quotaEntry eq q prev maxS ct = some x) :
    x.1 = ct.1 ∧ 0 < capOf maxS ct.1 (ct.2 / q).floor - (seatsGet prev ct.1 : Int) ∧
    x.2.1 = (capOf maxS ct.1 (ct.2 / q).floor - (seatsGet prev ct.1 : Int)).toNat ∧
    x.2.2 = ct.2 - ((ct.2 / q).floor : Rat) * q := by
  unfold quotaEntry at h
  simp only at h
  split at h
  · split at h
    · rename_i hpos
      injection h with h; subst h
      exact ⟨rfl, hpos, rfl, rfl⟩
    · cases h
  · cases h

theorem mem_quotaMultiples {eq : Bool} {q : Rat} (hq : 0 < q) {prev maxS : Seats} {tp : Votes}
    {x : Cand × Nat × Rat} (hx : x ∈ quotaMultiples eq q prev maxS tp) :
    ∃ t, (x.1, t) ∈ tp ∧ 1 ≤ x.2.1 ∧ (x.2.1 : Rat) * q ≤ t ∧
      ∀ k, maxGet maxS x.1 = some k → seatsGet prev x.1 + x.2.1 ≤ k := by
  unfold quotaMultiples at hx
  rw [List.mem_filterMap] at hx
  obtain ⟨ct, hct, he⟩ := hx
  obtain ⟨h1, hpos, h2, _⟩ := quotaEntry_some he
  have hcap := capOf_le maxS ct.1 (ct.2 / q).floor
  refine ⟨ct.2, by rw [h1]; exact mem_sortDesc.mp hct, by omega, ?_, ?_⟩
  · have hz : ((x.2.1 : Nat) : Int) ≤ (ct.2 / q).floor := by
      rw [h2, Int.toNat_of_nonneg (le_of_lt hpos)]
      have : (0 : Int) ≤ (seatsGet prev ct.1 : Int) := Int.natCast_nonneg _
      omega
    have h3 : ((x.2.1 : Nat) : Rat) ≤ ct.2 / q := by
      have := Rat.le_floor_iff.mp hz
      simpa using this
    calc _ ≤ ct.2 / q * q := mul_le_mul_of_nonneg_right h3 (le_of_lt hq)
      _ = ct.2 := by field_simp
  · intro k hk
    rw [h1] at hk
    have := capOf_le_max hk (ct.2 / q).floor
    rw [h1]
    omega

theorem quotaMultiples_keys_sublist (eq : Bool) (q : Rat) (prev maxS : Seats) (tp : Votes) :
    List.Sublist ((quotaMultiples eq q prev maxS tp).map (·.1)) ((sortDesc tp).map (·.1)) := by
  unfold quotaMultiples
  induction sortDesc tp with
  | nil => simp
  | cons y ys ih =>
    rw [List.filterMap_cons]
    split
    · exact List.Sublist.trans ih (by simp)
    · rename_i z hz
      have : z.1 = y.1 := (quotaEntry_some hz).1
      simp only [List.map_cons, this]
      exact List.Sublist.cons_cons _ ih

theorem keys_nodup_of_sortDesc {tp : Votes} (h : (tp.map (·.1)).Nodup) : ((sortDesc tp).map (·.1)).Nodup :=
  ((sortDesc_perm tp).map (·.1)).nodup_iff.mpr h

theorem mem_slotCands {l : List Slot} {c : Cand} : c ∈ slotCands l ↔ Slot.cand c ∈ l := by
  unfold slotCands
  rw [List.mem_filterMap]
  constructor
  · rintro ⟨s, hs, he⟩
    cases s with
    | cand d => simp at he; subst he; exact hs
    | tie _ => simp at he
  · intro h; exact ⟨_, h, rfl⟩

theorem filterMap_keys_sublist {α β γ : Type} (f : α → Option β) (g : β → γ) (k : α → γ)
    (hf : ∀ x y, f x = some y → g y = k x) (l : List α) :
    List.Sublist ((l.filterMap f).map g) (l.map k) := by
  induction l with
  | nil => simp
  | cons y ys ih =>
    rw [List.filterMap_cons]
    split
    · exact List.Sublist.trans ih (by simp)
    · rename_i z hz
      simp only [List.map_cons, hf y z hz]
      exact List.Sublist.cons_cons _ ih

theorem correctOvercount_spec {awarded : List (Cand × Nat × Rat)} {nRem : Nat} {el : Seats}
    (h : correctOvercount awarded nRem = .ok el) :
    (∀ ck ∈ el, ∃ x ∈ awarded, x.1 = ck.1 ∧ (1 ≤ x.2.1 → 1 ≤ ck.2) ∧ ck.2 ≤ x.2.1) ∧
    List.Sublist (el.map (·.1)) (awarded.map (·.1)) := by
  unfold correctOvercount at h
  simp only at h
  split at h
  · cases h
  · injection h with h
    subst h
    constructor
    · intro ck hck
      rw [List.mem_filterMap] at hck
      obtain ⟨x, hx, he⟩ := hck
      split at he
      · injection he with he; subst he
        exact ⟨x, hx, rfl, id, le_refl _⟩
      · split at he
        · injection he with he; subst he
          exact ⟨x, hx, rfl, by intro _; simp only; omega, by simp only; omega⟩
        · cases he
    · apply filterMap_keys_sublist
      intro x y hxy
      split at hxy
      · injection hxy with hxy; rw [← hxy]
      · split at hxy
        · injection hxy with hxy; rw [← hxy]
        · cases hxy

/-- what `_elect_by_quota` returns: candidates of the allocation holding their seats' worth of quotas -/
theorem electByQuota_spec {eq : Bool} {q : Rat} (hq : 0 < q) {nRem : Nat} {prev maxS : Seats} {tp : Votes}
    {el : Seats} (h : electByQuota eq q nRem prev maxS tp = .ok el) :
    (∀ ck ∈ el, ∃ t, (ck.1, t) ∈ tp ∧ 1 ≤ ck.2 ∧ (ck.2 : Rat) * q ≤ t ∧
      ∀ k, maxGet maxS ck.1 = some k → seatsGet prev ck.1 + ck.2 ≤ k) ∧
    List.Sublist (el.map (·.1)) ((sortDesc tp).map (·.1)) := by
  unfold electByQuota at h
  simp only at h
  split at h
  · obtain ⟨h1, h2⟩ := correctOvercount_spec h
    refine ⟨?_, h2.trans (quotaMultiples_keys_sublist _ _ _ _ _)⟩
    intro ck hck
    obtain ⟨x, hx, he, hone, hle⟩ := h1 ck hck
    obtain ⟨t, ht, h1', h2', h3'⟩ := mem_quotaMultiples hq hx
    refine ⟨t, he ▸ ht, hone h1', ?_, ?_⟩
    · have : (ck.2 : Rat) ≤ (x.2.1 : Rat) := by exact_mod_cast hle
      exact le_trans (mul_le_mul_of_nonneg_right this (le_of_lt hq)) h2'
    · intro k hk
      have := h3' k (he ▸ hk)
      rw [← he]; omega
  · injection h with h
    subst h
    refine ⟨?_, ?_⟩
    · intro ck hck
      obtain ⟨x, hx, rfl⟩ := List.mem_map.mp hck
      exact mem_quotaMultiples hq hx
    · simpa [List.map_map, Function.comp_def] using quotaMultiples_keys_sublist eq q prev maxS tp


/-! ### elimination -/

theorem hasTie_replicate {n : Nat} (hn : 0 < n) (l : List Slot) (cs : List Cand) :
    hasTie (l ++ List.replicate n (Slot.tie cs)) = true := by
  unfold hasTie
  rw [List.any_eq_true]
  exact ⟨Slot.tie cs, List.mem_append_right _ (List.mem_replicate.mpr ⟨by omega, rfl⟩), rfl⟩

theorem slotCands_map_cand (l : Votes) : slotCands (l.map (fun p => Slot.cand p.1)) = l.map (·.1) := by
  induction l with
  | nil => rfl
  | cons x xs ih => simp only [List.map_cons, slotCands, List.filterMap_cons] at ih ⊢; rw [ih]

/-- `get_n_best` without a tie: the first `n` of the stable descending order, strictly above the rest -/
theorem getNBest_noTie {votes : Votes} {n : Nat} (h1 : 1 ≤ n) (ht : hasTie (getNBest votes n) = false) :
    slotCands (getNBest votes n) = ((sortDesc votes).take n).map (·.1) ∧
    ∀ x ∈ (sortDesc votes).take n, ∀ y ∈ (sortDesc votes).drop n, y.2 < x.2 := by
  rcases Nat.lt_or_ge n votes.length with hlt | hge
  · obtain ⟨hn1, hn, hex⟩ := getNBest_explicit votes n h1 hlt
    rw [hex] at ht ⊢
    have hd := sortDesc_desc votes
    by_cases heq : ((sortDesc votes)[n]).2 = ((sortDesc votes)[n-1]).2
    · rw [if_pos heq] at ht
      have hcnt := desc_cntGt_le hd hn1
      rw [hasTie_replicate (by omega)] at ht
      cases ht
    · rw [if_neg heq]
      refine ⟨slotCands_map_cand _, ?_⟩
      intro x hx y hy
      have h2 : y.2 ≤ ((sortDesc votes)[n]).2 := desc_drop_le hd hn y hy
      have h3 : ((sortDesc votes)[n-1]).2 ≤ x.2 :=
        desc_take_ge hd hn1 x (by rwa [show n - 1 + 1 = n by omega])
      have h4 : ((sortDesc votes)[n]).2 ≤ ((sortDesc votes)[n-1]).2 := by
        have hmem : (sortDesc votes)[n] ∈ (sortDesc votes).drop (n-1) := by
          rw [List.mem_drop_iff_getElem]
          exact ⟨1, by omega, by congr 1; omega⟩
        exact desc_drop_le hd hn1 _ hmem
      exact lt_of_le_of_lt h2 (lt_of_lt_of_le (lt_of_le_of_ne h4 heq) h3)
  · rw [getNBest_all votes n hge]
    have hlen : (sortDesc votes).length ≤ n := by rw [sortDesc_length]; exact hge
    rw [List.take_of_length_le hlen, List.drop_of_length_le hlen]
    exact ⟨slotCands_map_cand _, fun x _ y hy => by cases hy⟩

theorem retainedCount_pos {st : Int} (hst : st < 0) (len : Nat) : 1 ≤ retainedCount st len := by
  unfold retainedCount
  rw [if_pos hst]
  have : (1 : Int) ≤ max ((len : Int) + st) 1 := le_max_right _ _
  omega

theorem retainedCount_neg {st : Int} (hst : st < 0) (len : Nat) :
    (retainedCount st len : Int) = max ((len : Int) + st) 1 := by
  unfold retainedCount
  rw [if_pos hst]
  have : (1 : Int) ≤ max ((len : Int) + st) 1 := le_max_right _ _
  omega

structure ElimSpec (tp : Votes) (n : Nat) (eliminated : List Cand) : Prop where
  sub : ∀ x ∈ eliminated, x ∈ tp.map (·.1)
  count : (tp.map (·.1)).Nodup → eliminated.length = tp.length - n
  lowest : (tp.map (·.1)).Nodup → ∀ x ∈ eliminated, ∀ y ∈ tp.map (·.1), y ∉ eliminated →
    ∀ tx ty, (x, tx) ∈ tp → (y, ty) ∈ tp → tx < ty

theorem elim_spec {tp : Votes} {st : Int} (hst : st < 0) {retained : List Cand}
    (h : selectRetained (some st) tp = .ok retained) :
    ElimSpec tp (retainedCount st tp.length) ((tp.map (·.1)).filter (fun c => decide (c ∉ retained))) := by
  unfold selectRetained at h
  simp only at h
  split at h
  · cases h
  · rename_i hnt
    injection h with h
    have hnt' : hasTie (getNBest tp (retainedCount st tp.length)) = false := by simpa using hnt
    obtain ⟨hret, hsep⟩ := getNBest_noTie (retainedCount_pos hst _) hnt'
    rw [hret] at h
    subst h
    set n := retainedCount st tp.length with hn
    set s := sortDesc tp with hs
    have hsplit : s.map (·.1) = (s.take n).map (·.1) ++ (s.drop n).map (·.1) := by
      rw [← List.map_append, List.take_append_drop]
    have hperm : (s.map (·.1)).Perm (tp.map (·.1)) := (sortDesc_perm tp).map _
    refine ⟨fun x hx => (List.mem_filter.mp hx).1, ?_, ?_⟩
    · intro hnd
      have hnd' : (s.map (·.1)).Nodup := hperm.nodup_iff.mpr hnd
      rw [← (hperm.filter _).length_eq, hsplit, List.filter_append]
      rw [hsplit] at hnd'
      have hdis := (List.nodup_append.mp hnd').2.2
      have e1 : ((s.take n).map (·.1)).filter (fun c => decide (c ∉ (s.take n).map (·.1))) = [] := by
        rw [List.filter_eq_nil_iff]; intro x hx; simpa using hx
      have e2 : ((s.drop n).map (·.1)).filter (fun c => decide (c ∉ (s.take n).map (·.1))) = (s.drop n).map (·.1) := by
        rw [List.filter_eq_self]
        intro x hx
        simp only [decide_not, Bool.not_eq_eq_eq_not, Bool.not_true, decide_eq_false_iff_not]
        intro hx'
        exact hdis x hx' x hx rfl
      rw [e1, e2]
      simp [hs, sortDesc_length]
    · intro hnd x hx y hy hyn tx ty hxt hyt
      have hx' := List.mem_filter.mp hx
      have hxnr : x ∉ (s.take n).map (·.1) := by simpa using hx'.2
      have hyr : y ∈ (s.take n).map (·.1) := by
        by_contra hc
        exact hyn (List.mem_filter.mpr ⟨hy, by simpa using hc⟩)
      -- entries with a given key are unique
      have huniq : ∀ (c : Cand) (t t' : Rat), (c, t) ∈ tp → (c, t') ∈ tp → t = t' := by
        intro c t t' h1 h2
        have := List.inj_on_of_nodup_map hnd h1 h2 rfl
        injection this
      have hxs : (x, tx) ∈ s := mem_sortDesc.mpr hxt
      rw [← List.take_append_drop n s] at hxs
      rcases List.mem_append.mp hxs with h1 | h1
      · exact absurd (List.mem_map.mpr ⟨(x, tx), h1, rfl⟩) hxnr
      · obtain ⟨p, hp, hpe⟩ := List.mem_map.mp hyr
        have hpt : (y, p.2) ∈ tp := by
          have := mem_sortDesc.mp (List.mem_of_mem_take hp)
          rw [← hpe]; exact this
        have : p.2 = ty := huniq y _ _ hpt hyt
        have := hsep p hp (x, tx) h1
        simp only at this
        linarith


/-- every paper of the allocation is a paper of one of the listed ballots -/
def BallotsFrom (bs : List Ballot) (a : Alloc) : Prop := ∀ hp ∈ a, ∀ x ∈ hp.2, x.1 ∈ bs

/-! ### resting with the top continuing candidate -/

/-- every paper without shared ranks rests with the highest-ranked continuing candidate on it, or is
    exhausted when none remains -/
def RestsOK (a : Alloc) : Prop :=
  ∀ hp ∈ a, ∀ x ∈ hp.2, noShared x.1 = true → hp.1 = topCont x.1 (continuing a)

theorem topCont_congr (b : Ballot) {l l' : List Cand} (h : ∀ x, x ∈ l ↔ x ∈ l') : topCont b l = topCont b l' := by
  unfold topCont
  congr 1
  funext c
  simp [h c]

theorem RestsOK.of_transfer {cont rs : List Cand} {a a' : Alloc} (hs : TransferSpec cont rs a a')
    (hcont : ∀ t, t ∈ cont ↔ t ∈ continuing a ∧ t ∉ rs) (hr : RestsOK a) : RestsOK a' := by
  intro hp hhp x hx hns
  have hc' : ∀ t, t ∈ continuing a' ↔ t ∈ cont := by
    intro t; rw [hs.cont_eq, hcont]; simp [List.mem_filter]
  rw [topCont_congr x.1 hc']
  have hsub : ∀ t ∈ cont, t ∈ continuing a := fun t ht => ((hcont t).mp ht).1
  obtain ⟨hp0, hm0, ⟨w, hw⟩, hrel⟩ := hs.entry hp hhp x hx
  have h0 := hr hp0 hm0 (x.1, w) hw hns
  simp only at h0
  rcases hrel with ⟨h1, h2⟩ | ⟨c, hc, h1, h2⟩
  · rw [← h1, h0]
    cases htop : topCont x.1 (continuing a) with
    | none => exact ((topCont_mono hsub).2 htop).symm
    | some t =>
      have ht : t ∈ cont := (hcont t).mpr ⟨topCont_mem htop, fun hin => h2 t hin (by rw [← h1, h0, htop])⟩
      exact ((topCont_mono hsub).1 t htop ht).symm
  · have hcn : c ∉ cont := fun hin => ((hcont c).mp hin).2 hc
    have hrn := rankedNext_some_noShared x.1 hns (by rw [← h0, h1]) hsub hcn
    rcases h2 with ⟨h3, h4⟩ | ⟨t, h3, h4⟩
    · rw [h3]
      rw [hrn] at h4
      cases htop : topCont x.1 cont with
      | none => rfl
      | some t => rw [htop] at h4; simp at h4
    · rw [h3]
      rw [hrn] at h4
      cases htop : topCont x.1 cont with
      | none => rw [htop] at h4; simp at h4
      | some t' => rw [htop] at h4; simp at h4; rw [h4]

theorem RestsOK.of_subtract {el : List (Cand × Rat)} {a a' : Alloc} (hs : SubSpec el a a') (hr : RestsOK a) :
    RestsOK a' := by
  intro hp hhp x hx hns
  obtain ⟨hp0, hm0, hk0, w, hw⟩ := hs.entry hp hhp x hx
  have hc : continuing a' = continuing a := by rw [continuing_eq, continuing_eq, hs.keys_eq]
  rw [hc, ← hk0]
  exact hr hp0 hm0 (x.1, w) hw hns

theorem transferIf_eq (E : Engine) (a : Alloc) (elim : List Cand) (ds : List Draw) :
    transferIf E a elim ds = transfer E a elim ds := by
  unfold transferIf
  split
  · rename_i h; subst h
    simp [transfer, transferGo]
  · rfl

/-- everything a `transfer` keeps invariant, in one statement -/
structure Moved (elim : List Cand) (a a' : Alloc) : Prop where
  held_eq : KeysNodup a → held a' = held a
  cont_eq : continuing a' = (continuing a).filter (fun c => decide (c ∉ elim))
  keys : KeysNodup a → KeysNodup a'
  nonneg : NonNeg a → NonNeg a'
  keep_none : none ∈ allocKeys a → none ∈ allocKeys a'
  grow : NonNeg a → ∀ c, c ∉ elim → totalOf a c ≤ totalOf a' c
  ballots : ∀ bs, BallotsFrom bs a → BallotsFrom bs a'
  rests : RestsOK a → RestsOK a'

theorem transferIf_moved {E : Engine} (hE : EngineOK E) {a a' : Alloc} {elim : List Cand} {ds ds' : List Draw}
    (h : transferIf E a elim ds = .ok (a', ds')) : Moved elim a a' := by
  rw [transferIf_eq] at h
  have hs := transfer_spec hE h
  refine ⟨hs.held_eq, transfer_continuing hE h, hs.keys, hs.nonneg, hs.keep_none, ?_, ?_, ?_⟩

  · intro hn c hc
    apply hs.grow hn (some c)
    intro d hd he
    injection he with he
    subst he
    have := (List.mem_filter.mp hd).2
    simp at this
    exact hc this
  · intro bs hb hp hhp x hx
    obtain ⟨hp0, hm0, ⟨w, hw⟩, _⟩ := hs.entry hp hhp x hx
    exact hb hp0 hm0 (x.1, w) hw
  apply RestsOK.of_transfer hs
  intro t
  simp only [List.mem_filter, decide_eq_true_eq, decide_not, Bool.not_eq_eq_eq_not, Bool.not_true,
    decide_eq_false_iff_not]
  tauto

/-! ### inversion of `next_count` -/

theorem afterElection_inv {E : Engine} {a : Alloc} {el : Seats} {qv : Rat} {prev maxS : Seats}
    {ds ds' : List Draw} {out : CountOut} (h : afterElection E a el qv prev maxS ds = .ok (out, ds')) :
    ∃ a1 ds1, subtract E (el.map (fun ck => (ck.1, (ck.2 : Rat) * qv))) a ds = .ok (a1, ds1) ∧
      transferIf E a1 (fullyElected el prev maxS) ds1 = .ok (out.alloc, ds') ∧
      out.elected = el ∧ out.eliminated = fullyElected el prev maxS ∧ out.shortcut = false := by
  unfold afterElection at h
  split at h
  · cases h
  · rename_i a1 ds1 hsub
    simp only at h
    split at h
    · cases h
    · rename_i a2 ds2 htr
      injection h with h; injection h with h1 h2; subst h1; subst h2
      exact ⟨a1, ds1, hsub, htr, rfl, rfl, rfl⟩

theorem afterElimination_inv {E : Engine} {a : Alloc} {step : Option Int} {ds ds' : List Draw} {out : CountOut}
    (h : afterElimination E a step ds = .ok (out, ds')) :
    ∃ retained, selectRetained step (totalsInPlay a) = .ok retained ∧
      out.eliminated = ((totalsInPlay a).map (·.1)).filter (fun c => decide (c ∉ retained)) ∧
      transferIf E a out.eliminated ds = .ok (out.alloc, ds') ∧ out.elected = [] ∧ out.shortcut = false := by
  unfold afterElimination at h
  simp only at h
  split at h
  · cases h
  · rename_i retained hsel
    split at h
    · cases h
    · rename_i a2 ds2 htr
      injection h with h; injection h with h1 h2; subst h1; subst h2
      exact ⟨retained, hsel, rfl, htr, rfl, rfl⟩

/-- the three ways a count can go -/
inductive CountCase (E : Engine) (cfg : Cfg) (a : Alloc) (nSeats : Nat) (total : Rat) (prev maxS : Seats)
    (ds ds' : List Draw) (out : CountOut) : Prop
  | shortcut (hs : shortcutCond cfg a nSeats prev maxS = true) (he : electAll a prev maxS ds = .ok (out, ds'))
  | election (qv : Rat) (hq : computeQuota cfg total nSeats = some qv) (hpos : 0 < qv) (el : Seats)
      (hel : electByQuota cfg.acceptEqual qv (nSeats - sumSeats prev) prev maxS (totalsInPlay a) = .ok el)
      (hne : el ≠ []) (hout : afterElection E a el qv prev maxS ds = .ok (out, ds'))
  | elimination
      (hnoq : ∀ qv, computeQuota cfg total nSeats = some qv → 0 < qv ∧
        electByQuota cfg.acceptEqual qv (nSeats - sumSeats prev) prev maxS (totalsInPlay a) = .ok [])
      (hout : afterElimination E a cfg.step ds = .ok (out, ds'))

theorem nextCount_cases {E : Engine} {cfg : Cfg} {a : Alloc} {nSeats : Nat} {total : Rat} {prev maxS : Seats}
    {ds ds' : List Draw} {out : CountOut}
    (h : nextCount E cfg a nSeats total prev maxS ds = .ok (out, ds')) :
    sumSeats prev ≤ nSeats ∧ CountCase E cfg a nSeats total prev maxS ds ds' out := by
  unfold nextCount at h
  split at h
  · cases h
  · rename_i hle
    refine ⟨by omega, ?_⟩
    split at h
    · rename_i hs
      exact .shortcut hs h
    · unfold countProper at h
      split at h
      · rename_i hq
        exact .elimination (fun qv hqv => by rw [hq] at hqv; cases hqv) h
      · rename_i qv hq
        split at h
        · cases h
        · rename_i hpos
          split at h
          · cases h
          · rename_i el hel
            split at h
            · rename_i hel0
              refine .elimination (fun qv' hqv' => ?_) h
              rw [hq] at hqv'
              injection hqv' with hqv'
              subst hqv'
              exact ⟨not_le.mp hpos, hel0 ▸ hel⟩
            · rename_i hne
              exact .election qv hq (not_le.mp hpos) el hel hne h


/-! ### one count preserves the invariants -/

/-- the quota value of the run (0 stands for "no finite quota": then nobody is elected by quota) -/
def quotaValue (cfg : Cfg) (total : Rat) (nSeats : Nat) : Rat := (computeQuota cfg total nSeats).getD 0

theorem sum_quota_map (el : Seats) (q : Rat) :
    ((el.map (fun ck => (ck.1, (ck.2 : Rat) * q))).map (·.2)).sum = q * (sumSeats el : Rat) := by
  induction el with
  | nil => simp [sumSeats]
  | cons x xs ih =>
    simp only [List.map_cons, List.sum_cons, sumSeats] at ih ⊢
    rw [ih]; push_cast; ring

structure CountInv (a : Alloc) (q : Rat) (out : CountOut) : Prop where
  held_eq : held out.alloc + q * (sumSeats out.elected : Rat) = held a
  keys : KeysNodup out.alloc
  nonneg : NonNeg a → NonNeg out.alloc
  rests : RestsOK a → RestsOK out.alloc
  keep_none : none ∈ allocKeys a → none ∈ allocKeys out.alloc
  ballots : ∀ bs, BallotsFrom bs a → BallotsFrom bs out.alloc
  cont_eq : continuing out.alloc = (continuing a).filter (fun c => decide (c ∉ out.eliminated))

theorem election_facts {a : Alloc} (hk : KeysNodup a) {eq : Bool} {qv : Rat} (hpos : 0 < qv) {nRem : Nat}
    {prev maxS : Seats} {el : Seats} (hel : electByQuota eq qv nRem prev maxS (totalsInPlay a) = .ok el) :
    (el.map (·.1)).Nodup ∧ ∀ ck ∈ el, ck.1 ∈ continuing a ∧ 1 ≤ ck.2 ∧ (ck.2 : Rat) * qv ≤ totalOf a ck.1 ∧
      ∀ k, maxGet maxS ck.1 = some k → seatsGet prev ck.1 + ck.2 ≤ k := by
  obtain ⟨h1, h2⟩ := electByQuota_spec hpos hel
  have hnd : ((totalsInPlay a).map (·.1)).Nodup := by rw [keys_totalsInPlay]; exact continuing_nodup hk
  refine ⟨List.Nodup.sublist h2 (keys_nodup_of_sortDesc hnd), ?_⟩
  intro ck hck
  obtain ⟨t, ht, h3, h4, h5⟩ := h1 ck hck
  refine ⟨?_, h3, ?_, h5⟩
  · rw [← keys_totalsInPlay]; exact List.mem_map.mpr ⟨(ck.1, t), ht, rfl⟩
  · have := totalsInPlay_total hk ht
    simp only at this
    unfold totalOf
    rw [← this]; exact h4

theorem count_inv {E : Engine} (hE : EngineOK E) {cfg : Cfg} {a : Alloc} (hk : KeysNodup a) {nSeats : Nat}
    {total : Rat} {prev maxS : Seats} {ds ds' : List Draw} {out : CountOut}
    (h : nextCount E cfg a nSeats total prev maxS ds = .ok (out, ds')) (hns : out.shortcut = false) :
    CountInv a (quotaValue cfg total nSeats) out := by
  obtain ⟨_, hcase⟩ := nextCount_cases h
  cases hcase with
  | shortcut hs he =>
    unfold electAll at he
    simp only at he
    split at he
    · cases he
    · injection he with he; injection he with he1 he2
      rw [← he1] at hns; cases hns
  | election qv hq hpos el hel hne hout =>
    obtain ⟨a1, ds1, hsub, htr, he1, he2, _⟩ := afterElection_inv hout
    have hs := subtract_spec hE hsub
    have hk1 : KeysNodup a1 := by unfold KeysNodup; rw [hs.keys_eq]; exact hk
    have hm := transferIf_moved hE htr
    obtain ⟨hnd, hfacts⟩ := election_facts hk hpos hel
    have hq' : quotaValue cfg total nSeats = qv := by simp [quotaValue, hq]
    refine ⟨?_, hm.keys hk1, fun hn => hm.nonneg (hs.nonneg hn), fun hr => hm.rests (RestsOK.of_subtract hs hr),
      fun hn => hm.keep_none (by rw [hs.keys_eq]; exact hn),
      fun bs hb => hm.ballots bs (fun hp hhp x hx => by
        obtain ⟨hp0, hm0, _, w, hw⟩ := hs.entry hp hhp x hx
        exact hb hp0 hm0 (x.1, w) hw), ?_⟩
    · rw [hm.held_eq hk1, hs.held_eq hk (by simpa [List.map_map, Function.comp_def] using hnd)
        (by
          intro x hx
          obtain ⟨ck, hck, rfl⟩ := List.mem_map.mp hx
          exact mem_continuing.mp (hfacts ck hck).1)
        (by
          intro x hx
          obtain ⟨ck, hck, rfl⟩ := List.mem_map.mp hx
          exact (hfacts ck hck).2.2.1),
        sum_quota_map, he1, hq']
      ring
    · rw [hm.cont_eq, he2]
      have : continuing a1 = continuing a := by rw [continuing_eq, continuing_eq, hs.keys_eq]
      rw [this]
  | elimination _ hout =>
    obtain ⟨retained, _, _, htr, he1, _⟩ := afterElimination_inv hout
    have hm := transferIf_moved hE htr
    refine ⟨?_, hm.keys hk, hm.nonneg, hm.rests, hm.keep_none, hm.ballots, hm.cont_eq⟩
    rw [hm.held_eq hk, he1]; simp [sumSeats]

end VL.STV
