/-
  Lemmas about the generic stable insertion sort `sortBy`, `dedupKeep`, and `List.mapM` in `Except`
  (helpers of C16).
-/
import VotelibModel.Threshold
import VotelibProofs.Lemmas.Sort
namespace VL

section SortBy
variable {α : Type}

theorem insertBy_perm (lt : α → α → Bool) (x : α) (l : List α) : (insertBy lt x l).Perm (x :: l) := by
  induction l with
  | nil => simp [insertBy]
  | cons y ys ih =>
    unfold insertBy
    split
    · exact (List.Perm.cons y ih).trans (List.Perm.swap x y ys)
    · exact List.Perm.refl _

theorem sortBy_perm (lt : α → α → Bool) (l : List α) : (sortBy lt l).Perm l := by
  induction l with
  | nil => simp [sortBy]
  | cons x xs ih =>
    simp only [sortBy]
    exact (insertBy_perm lt x _).trans (List.Perm.cons x ih)

theorem mem_sortBy {lt : α → α → Bool} {l : List α} {a : α} : a ∈ sortBy lt l ↔ a ∈ l :=
  (sortBy_perm lt l).mem_iff

theorem sortBy_length (lt : α → α → Bool) (l : List α) : (sortBy lt l).length = l.length :=
  (sortBy_perm lt l).length_eq

theorem sortBy_nodup {lt : α → α → Bool} {l : List α} (h : l.Nodup) : (sortBy lt l).Nodup :=
  (sortBy_perm lt l).nodup_iff.mpr h

/-- sortedness w.r.t. a key: the comparison is `key a < key b` -/
theorem insertBy_sorted {κ : Type} [LinearOrder κ] (key : α → κ) (lt : α → α → Bool)
    (hlt : ∀ a b, lt a b = true ↔ key a < key b) (x : α) (l : List α)
    (h : l.Pairwise (fun a b => key a ≤ key b)) : (insertBy lt x l).Pairwise (fun a b => key a ≤ key b) := by
  induction l with
  | nil => simp [insertBy]
  | cons y ys ih =>
    unfold insertBy
    have hy := List.pairwise_cons.mp h
    split
    · rename_i hyx
      have hyx' : key y < key x := (hlt y x).mp hyx
      refine List.pairwise_cons.mpr ⟨?_, ih hy.2⟩
      intro z hz
      rcases List.mem_cons.mp ((insertBy_perm lt x ys).mem_iff.mp hz) with rfl | hz'
      · exact le_of_lt hyx'
      · exact hy.1 z hz'
    · rename_i hyx
      have hxy : key x ≤ key y := by
        by_contra hc
        exact hyx ((hlt y x).mpr (not_le.mp hc))
      refine List.pairwise_cons.mpr ⟨?_, h⟩
      intro z hz
      rcases List.mem_cons.mp hz with rfl | hz'
      · exact hxy
      · exact le_trans hxy (hy.1 z hz')

theorem sortBy_sorted {κ : Type} [LinearOrder κ] (key : α → κ) (lt : α → α → Bool)
    (hlt : ∀ a b, lt a b = true ↔ key a < key b) (l : List α) :
    (sortBy lt l).Pairwise (fun a b => key a ≤ key b) := by
  induction l with
  | nil => simp [sortBy]
  | cons x xs ih => exact insertBy_sorted key lt hlt x _ ih

/-- stability: the elements of one key class keep their order -/
theorem insertBy_filter {κ : Type} [LinearOrder κ] (key : α → κ) (lt : α → α → Bool)
    (hlt : ∀ a b, lt a b = true ↔ key a < key b) (x : α) (l : List α) (k : κ) :
    (insertBy lt x l).filter (fun a => decide (key a = k)) = (x :: l).filter (fun a => decide (key a = k)) := by
  induction l with
  | nil => simp [insertBy]
  | cons y ys ih =>
    unfold insertBy
    split
    · rename_i hyx
      have hyx' : key y < key x := (hlt y x).mp hyx
      rw [List.filter_cons, ih]
      by_cases hy : key y = k <;> by_cases hx : key x = k
      · exfalso; rw [hy, hx] at hyx'; exact lt_irrefl _ hyx'
      · simp [hy, hx]
      · simp [hy, hx]
      · simp [hy, hx]
    · rfl

theorem sortBy_filter {κ : Type} [LinearOrder κ] (key : α → κ) (lt : α → α → Bool)
    (hlt : ∀ a b, lt a b = true ↔ key a < key b) (l : List α) (k : κ) :
    (sortBy lt l).filter (fun a => decide (key a = k)) = l.filter (fun a => decide (key a = k)) := by
  induction l with
  | nil => simp [sortBy]
  | cons x xs ih =>
    simp only [sortBy]
    rw [insertBy_filter key lt hlt]
    simp only [List.filter_cons, ih]

/-- stability in relational form: a relation `S` that held between every earlier and later element of the input
    still holds between elements of equal key in the output -/
theorem insertBy_stable {κ : Type} [LinearOrder κ] (key : α → κ) (lt : α → α → Bool)
    (hlt : ∀ a b, lt a b = true ↔ key a < key b) (S : α → α → Prop) (x : α) (l : List α)
    (h : l.Pairwise (fun a b => key a ≤ key b ∧ (key a = key b → S a b))) (hx : ∀ y ∈ l, S x y) :
    (insertBy lt x l).Pairwise (fun a b => key a ≤ key b ∧ (key a = key b → S a b)) := by
  induction l with
  | nil => simp [insertBy]
  | cons y ys ih =>
    unfold insertBy
    have hy := List.pairwise_cons.mp h
    split
    · rename_i hyx
      have hyx' : key y < key x := (hlt y x).mp hyx
      refine List.pairwise_cons.mpr ⟨?_, ih hy.2 (fun z hz => hx z (List.mem_cons_of_mem _ hz))⟩
      intro z hz
      rcases List.mem_cons.mp ((insertBy_perm lt x ys).mem_iff.mp hz) with rfl | hz'
      · exact ⟨le_of_lt hyx', fun e => absurd e (ne_of_lt hyx')⟩
      · exact hy.1 z hz'
    · rename_i hyx
      have hxy : key x ≤ key y := by
        by_contra hc
        exact hyx ((hlt y x).mpr (not_le.mp hc))
      refine List.pairwise_cons.mpr ⟨?_, h⟩
      intro z hz
      refine ⟨?_, fun _ => hx z hz⟩
      rcases List.mem_cons.mp hz with rfl | hz'
      · exact hxy
      · exact le_trans hxy (hy.1 z hz').1

theorem sortBy_stable {κ : Type} [LinearOrder κ] (key : α → κ) (lt : α → α → Bool)
    (hlt : ∀ a b, lt a b = true ↔ key a < key b) (S : α → α → Prop) (l : List α) (h : l.Pairwise S) :
    (sortBy lt l).Pairwise (fun a b => key a ≤ key b ∧ (key a = key b → S a b)) := by
  induction l with
  | nil => simp [sortBy]
  | cons x xs ih =>
    have hx := List.pairwise_cons.mp h
    exact insertBy_stable key lt hlt S x _ (ih hx.2) (fun y hy => hx.1 y (mem_sortBy.mp hy))

end SortBy

/-! ### dedupKeep -/

theorem mem_dedupKeep {l : List Cand} {c : Cand} : c ∈ dedupKeep l ↔ c ∈ l := by
  induction l with
  | nil => simp [dedupKeep]
  | cons x xs ih =>
    simp only [dedupKeep, List.mem_cons, List.mem_filter, ih]
    constructor
    · rintro (h | ⟨h, _⟩)
      · exact Or.inl h
      · exact Or.inr h
    · rintro (h | h)
      · exact Or.inl h
      · by_cases hc : c = x
        · exact Or.inl hc
        · exact Or.inr ⟨h, by simpa using hc⟩

theorem dedupKeep_nodup (l : List Cand) : (dedupKeep l).Nodup := by
  induction l with
  | nil => simp [dedupKeep]
  | cons x xs ih =>
    simp only [dedupKeep]
    refine List.nodup_cons.mpr ⟨?_, ih.filter _⟩
    simp [List.mem_filter]

theorem dedupKeep_of_nodup {l : List Cand} (h : l.Nodup) : dedupKeep l = l := by
  induction l with
  | nil => rfl
  | cons x xs ih =>
    have hx := List.nodup_cons.mp h
    simp only [dedupKeep, ih hx.2]
    congr 1
    rw [List.filter_eq_self]
    intro a ha
    have : a ≠ x := fun e => hx.1 (e ▸ ha)
    simpa using this

/-! ### mapM in Except -/

theorem mapM_except_ok {α β ε : Type} (f : α → Except ε β) (l : List α) (rs : List β) :
    l.mapM f = .ok rs ↔ List.Forall₂ (fun a r => f a = .ok r) l rs := by
  induction l generalizing rs with
  | nil =>
    simp only [List.mapM_nil]
    constructor
    · intro h; cases h; exact List.Forall₂.nil
    · intro h; cases h; rfl
  | cons x xs ih =>
    rw [List.mapM_cons]
    cases hx : f x with
    | error e =>
      constructor
      · intro h; cases h
      · intro h; cases h with | cons h1 _ => rw [hx] at h1; cases h1
    | ok r =>
      cases hxs : xs.mapM f with
      | error e =>
        constructor
        · intro h; cases h
        · intro h
          cases h with
          | cons h1 h2 =>
            have := (ih _).mpr h2
            rw [hxs] at this; cases this
      | ok rs' =>
        have h2 := (ih rs').mp hxs
        constructor
        · intro h
          have : rs = r :: rs' := by cases h; rfl
          rw [this]
          exact List.Forall₂.cons hx h2
        · intro h
          cases h with
          | cons h1 h3 =>
            rw [hx] at h1; cases h1
            have := (ih _).mpr h3
            rw [hxs] at this; cases this
            rfl

/-- `mapM` fails iff some element fails -/
theorem mapM_except_error {α β ε : Type} (f : α → Except ε β) (l : List α) :
    (∃ e, l.mapM f = .error e) ↔ ∃ a ∈ l, ∃ e, f a = .error e := by
  induction l with
  | nil => simp [List.mapM_nil, pure, Except.pure]
  | cons x xs ih =>
    rw [List.mapM_cons]
    cases hx : f x with
    | error e =>
      constructor
      · intro _; exact ⟨x, List.mem_cons_self, e, hx⟩
      · intro _; exact ⟨e, rfl⟩
    | ok r =>
      cases hxs : xs.mapM f with
      | error e =>
        have := ih.mp ⟨e, hxs⟩
        obtain ⟨a, ha, e', he'⟩ := this
        constructor
        · intro _; exact ⟨a, List.mem_cons_of_mem _ ha, e', he'⟩
        · intro _; exact ⟨e, rfl⟩
      | ok rs' =>
        constructor
        · rintro ⟨e, h⟩; cases h
        · rintro ⟨a, ha, e, he⟩
          rcases List.mem_cons.mp ha with rfl | ha'
          · rw [hx] at he; cases he
          · have := ih.mpr ⟨a, ha', e, he⟩
            obtain ⟨e', he'⟩ := this
            rw [hxs] at he'; cases he'

end VL
