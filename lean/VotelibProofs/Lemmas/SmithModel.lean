/-
  `_smith_schwartz_set`: membership of the model output in terms of reachability.
-/
import VotelibProofs.Lemmas.Pairwise
import VotelibProofs.Lemmas.Closure
import VotelibProofs.Lemmas.SmithGraph
namespace VL.Condorcet
open VL Relation

theorem mem_reach0 {cands : List Cand} {wins : List Pair} {ties : Bool} {a b : Cand} :
    (a, b) ∈ reach0 cands wins ties ↔
      a ∈ cands ∧ b ∈ cands ∧ a ≠ b ∧ ((a, b) ∈ wins ∨ (ties = true ∧ (b, a) ∉ wins)) := by
  simp only [reach0, List.mem_filter, List.mem_flatMap, List.mem_map, Prod.mk.injEq, Bool.and_eq_true,
    bne_iff_ne, ne_eq, Bool.or_eq_true, contains_pair, Bool.not_eq_true', Bool.not_eq_eq_eq_not, Bool.not_true]
  constructor
  · rintro ⟨⟨u, hu, l, hl, rfl, rfl⟩, hne, h⟩
    refine ⟨hu, hl, hne, ?_⟩
    rcases h with h | ⟨h1, h2⟩
    · exact Or.inl h
    · refine Or.inr ⟨h1, ?_⟩
      intro hc
      rw [← contains_pair, h2] at hc
      exact Bool.false_ne_true hc
  · rintro ⟨ha, hb, hne, h⟩
    refine ⟨⟨a, ha, b, hb, rfl, rfl⟩, hne, ?_⟩
    rcases h with h | ⟨h1, h2⟩
    · exact Or.inl h
    · refine Or.inr ⟨h1, ?_⟩
      cases hc : wins.contains (b, a) with
      | false => rfl
      | true => exact absurd (contains_pair.1 hc) h2

/-- the Copeland ordering lists every candidate exactly once -/
theorem ordering_perm (v : Pairwise) (raw : Votes) :
    ((sortDesc (seededScores v raw)).map (·.1)).Perm (candidates v) := by
  have h1 : ((sortDesc (seededScores v raw)).map (·.1)).Perm ((seededScores v raw).map (·.1)) :=
    (sortDesc_perm _).map _
  have h2 : (seededScores v raw).map (·.1) = candidates v := by
    simp [seededScores, List.map_map, Function.comp_def]
  rw [h2] at h1
  exact h1

theorem mem_closure_reach0 {v : Pairwise} {ties : Bool} (a b : Cand) :
    (a, b) ∈ closure (candidates v) (reach0 (candidates v) (pairwiseWins v false) ties) ↔
      a ≠ b ∧ TransGen (fun x y => (x, y) ∈ reach0 (candidates v) (pairwiseWins v false) ties) a b := by
  apply mem_closure
  · rintro ⟨x, y⟩ hp; exact (mem_reach0.1 hp).2.2.1
  · rintro ⟨x, y⟩ hp; exact ⟨(mem_reach0.1 hp).1, (mem_reach0.1 hp).2.1⟩

theorem reach0_smith {v : Pairwise} (hwf : WF v) (x y : Cand) :
    (x, y) ∈ reach0 (candidates v) (pairwiseWins v false) true ↔ Graph.NB (candidates v) (Beats v) x y := by
  rw [mem_reach0, Graph.NB, mem_pairwiseWins hwf, mem_pairwiseWins hwf]
  constructor
  · rintro ⟨h1, h2, h3, h | ⟨_, h⟩⟩
    · exact ⟨h1, h2, h3, h.asymm⟩
    · exact ⟨h1, h2, h3, h⟩
  · rintro ⟨h1, h2, h3, h⟩
    exact ⟨h1, h2, h3, Or.inr ⟨rfl, h⟩⟩

theorem reach0_schwartz {v : Pairwise} (hwf : WF v) (x y : Cand) :
    (x, y) ∈ reach0 (candidates v) (pairwiseWins v false) false ↔ Graph.BB (candidates v) (Beats v) x y := by
  rw [mem_reach0, Graph.BB, mem_pairwiseWins hwf]
  constructor
  · rintro ⟨h1, h2, h3, h | ⟨h, _⟩⟩
    · exact ⟨h1, h2, h3, h⟩
    · exact absurd h (by simp)
  · rintro ⟨h1, h2, h3, h⟩
    exact ⟨h1, h2, h3, Or.inl h⟩

theorem mem_smithSet {v : Pairwise} (hwf : WF v) (c : Cand) :
    c ∈ smithSet v ↔ Graph.SmithReach (candidates v) (Beats v) c := by
  unfold smithSet smithSchwartz
  simp only [if_true, List.mem_filter, (ordering_perm v _).mem_iff, List.all_eq_true, Bool.or_eq_true,
    beq_iff_eq, contains_pair, mem_closure_reach0]
  have hrel : (fun x y => (x, y) ∈ reach0 (candidates v) (pairwiseWins v false) true) =
      Graph.NB (candidates v) (Beats v) := by
    funext x y; exact propext (reach0_smith hwf x y)
  rw [hrel, Graph.SmithReach]
  constructor
  · rintro ⟨hc, h⟩
    refine ⟨hc, fun o ho hoc => ?_⟩
    rcases h o ho with h1 | h1
    · exact absurd h1 hoc
    · exact h1.2
  · rintro ⟨hc, h⟩
    refine ⟨hc, fun o ho => ?_⟩
    by_cases hoc : o = c
    · exact Or.inl hoc
    · exact Or.inr ⟨fun e => hoc e.symm, h o ho hoc⟩

theorem mem_schwartzSet {v : Pairwise} (hwf : WF v) (c : Cand) :
    c ∈ schwartzSet v ↔ Graph.SchwartzReach (candidates v) (Beats v) c := by
  unfold schwartzSet smithSchwartz
  simp only [Bool.false_eq_true, if_false, List.mem_filter, (ordering_perm v _).mem_iff, List.all_eq_true,
    Bool.or_eq_true, Bool.not_eq_true', contains_pair, mem_closure_reach0]
  have hrel : (fun x y => (x, y) ∈ reach0 (candidates v) (pairwiseWins v false) false) =
      Graph.BB (candidates v) (Beats v) := by
    funext x y; exact propext (reach0_schwartz hwf x y)
  rw [hrel, Graph.SchwartzReach]
  constructor
  · rintro ⟨hc, h⟩
    refine ⟨hc, fun o ho hoc hreach => ?_⟩
    rcases h o ho with h1 | h1
    · have : (o, c) ∈ closure (candidates v) (reach0 (candidates v) (pairwiseWins v false) false) := by
        rw [mem_closure_reach0, hrel]; exact ⟨hoc, hreach⟩
      rw [← contains_pair, h1] at this
      exact absurd this Bool.false_ne_true
    · exact h1.2
  · rintro ⟨hc, h⟩
    refine ⟨hc, fun o ho => ?_⟩
    by_cases hoc : o = c
    · left
      subst hoc
      cases hcon : (closure (candidates v) (reach0 (candidates v) (pairwiseWins v false) false)).contains (o, o) with
      | false => rfl
      | true =>
        have := contains_pair.1 hcon
        rw [mem_closure_reach0] at this
        exact absurd rfl this.1
    · cases hcon : (closure (candidates v) (reach0 (candidates v) (pairwiseWins v false) false)).contains (o, c) with
      | false => exact Or.inl rfl
      | true =>
        right
        have := contains_pair.1 hcon
        rw [mem_closure_reach0, hrel] at this
        exact ⟨fun e => hoc e.symm, h o ho hoc this.2⟩

theorem nodup_smithSchwartz (v : Pairwise) (ties : Bool) : (smithSchwartz v ties).Nodup := by
  have hn : ((sortDesc (seededScores v (copelandScoresRaw (pairwiseWins v false)))).map (·.1)).Nodup :=
    (ordering_perm v _).nodup_iff.2 (nodup_candidates v)
  unfold smithSchwartz
  simp only
  split
  · exact hn.filter _
  · exact hn.filter _

end VL.Condorcet
