/-
  Helper lemmas for C12 (score truncation): `_subtract_lowest` on the count dict drops entries of the sorted grade list.
-/
import VotelibProofs.Lemmas.C12Score
import Mathlib.Algebra.BigOperators.Group.List.Basic
namespace VL.Score
open VL

set_option linter.unusedSimpArgs false

/-! ### dict primitives -/

theorem getCount_nil (k : Rat) : getCount [] k = 0 := rfl

theorem getCount_cons (p : Rat × Int) (d : CScores) (k : Rat) :
    getCount (p :: d) k = if p.1 = k then p.2 else getCount d k := by
  unfold getCount
  by_cases h : p.1 = k <;> simp [List.find?_cons, h]

theorem getCount_setCount (d : CScores) (s : Rat) (n : Int) (k : Rat) :
    getCount (setCount d s n) k = if k = s then n else getCount d k := by
  induction d with
  | nil =>
    simp only [setCount, getCount_cons, getCount_nil]
    by_cases h : k = s
    · subst h; simp
    · have : ¬ s = k := fun h' => h h'.symm
      simp [h, this]
  | cons p rest ih =>
    obtain ⟨q, v⟩ := p
    unfold setCount
    by_cases hq : q = s
    · subst hq
      rw [if_pos rfl]
      by_cases h : k = q
      · subst h; simp [getCount_cons]
      · have : ¬ q = k := fun h' => h h'.symm
        simp [getCount_cons, h, this]
    · rw [if_neg hq]
      rw [getCount_cons, getCount_cons, ih]
      by_cases hqk : q = k
      · subst hqk
        simp [hq]
      · simp [hqk]

theorem getCount_delKey (d : CScores) (s : Rat) (k : Rat) :
    getCount (delKey d s) k = if k = s then 0 else getCount d k := by
  induction d with
  | nil => simp [delKey, getCount_nil]
  | cons p rest ih =>
    unfold delKey at ih ⊢
    by_cases hps : p.1 = s
    · have : List.filter (fun q : Rat × Int => decide (q.1 ≠ s)) (p :: rest) = List.filter (fun q => decide (q.1 ≠ s)) rest := by
        simp [List.filter_cons, hps]
      rw [this, ih, getCount_cons]
      by_cases hk : k = s
      · simp [hk]
      · have : ¬ p.1 = k := by rw [hps]; exact fun h => hk h.symm
        simp [hk, this]
    · have : List.filter (fun q : Rat × Int => decide (q.1 ≠ s)) (p :: rest) = p :: List.filter (fun q => decide (q.1 ≠ s)) rest := by
        simp [List.filter_cons, hps]
      rw [this, getCount_cons, getCount_cons, ih]
      by_cases hpk : p.1 = k
      · have : ¬ k = s := by rw [← hpk]; exact hps
        simp [hpk, this]
      · simp [hpk]

/-- keys of the dict -/
def ckeys (d : CScores) : List Rat := d.map (·.1)

theorem ckeys_setCount_nodup {d : CScores} (h : (ckeys d).Nodup) (s : Rat) (n : Int) : (ckeys (setCount d s n)).Nodup := by
  induction d with
  | nil => simp [setCount, ckeys]
  | cons p rest ih =>
    obtain ⟨q, v⟩ := p
    have hp := List.nodup_cons.mp h
    unfold setCount
    by_cases hq : q = s
    · rw [if_pos hq]; exact h
    · rw [if_neg hq]
      simp only [ckeys, List.map_cons] at hp ⊢
      refine List.nodup_cons.mpr ⟨?_, ih hp.2⟩
      intro hmem
      obtain ⟨e, he, hek⟩ := List.mem_map.mp hmem
      -- an entry of `setCount rest s n` with key q: either from rest or the new key s
      have : getCount (setCount rest s n) q = getCount rest q := by
        rw [getCount_setCount]; simp [hq]
      -- membership of keys: show q ∈ keys rest
      have hkeys : ∀ (d : CScores) (k : Rat), k ∈ (setCount d s n).map (·.1) → k = s ∨ k ∈ d.map (·.1) := by
        intro d
        induction d with
        | nil => intro k hk; simp [setCount] at hk; exact Or.inl hk
        | cons p' r' ih' =>
          intro k hk
          obtain ⟨q', v'⟩ := p'
          unfold setCount at hk
          by_cases hq' : q' = s
          · rw [if_pos hq'] at hk
            right; simpa using hk
          · rw [if_neg hq'] at hk
            simp only [List.map_cons, List.mem_cons] at hk ⊢
            rcases hk with hk | hk
            · exact Or.inr (Or.inl hk)
            · rcases ih' k hk with h1 | h1
              · exact Or.inl h1
              · exact Or.inr (Or.inr h1)
      rcases hkeys rest q hmem with h1 | h1
      · exact hq h1
      · exact hp.1 h1

theorem ckeys_delKey_nodup {d : CScores} (h : (ckeys d).Nodup) (s : Rat) : (ckeys (delKey d s)).Nodup := by
  unfold ckeys delKey
  exact ((List.filter_sublist).map _).nodup h

/-- with distinct keys `getCount` is the count stored with the key -/
theorem count_expand {d : CScores} (h : (ckeys d).Nodup) (v : Rat) :
    (expand d).count v = (getCount d v).toNat := by
  induction d with
  | nil => simp [expand, getCount_nil]
  | cons p rest ih =>
    have hp := List.nodup_cons.mp h
    have ih' := ih hp.2
    have hexp : expand (p :: rest) = List.replicate p.2.toNat p.1 ++ expand rest := by
      simp [expand, List.flatMap_cons]
    rw [hexp, List.count_append, List.count_replicate, getCount_cons, ih']
    by_cases hpv : p.1 = v
    · have hnot : v ∉ ckeys rest := by rw [← hpv]; exact hp.1
      have : getCount rest v = 0 := by
        unfold getCount
        have : rest.find? (fun q => decide (q.1 = v)) = none := by
          rw [List.find?_eq_none]
          intro q hq
          simp only [decide_eq_true_eq]
          intro hqv
          exact hnot (List.mem_map.mpr ⟨q, hq, hqv⟩)
        rw [this]
      simp [hpv, this]
    · simp [hpv]

/-! ### the sorted grade list as blocks -/

/-- the grades of `cs` listed key by key along `ks` -/
def blocks (cs : CScores) (ks : List Rat) : List Rat := ks.flatMap (fun k => List.replicate (getCount cs k).toNat k)

theorem blocks_cons (cs : CScores) (k : Rat) (ks : List Rat) :
    blocks cs (k :: ks) = List.replicate (getCount cs k).toNat k ++ blocks cs ks := by
  simp [blocks, List.flatMap_cons]

theorem blocks_congr {a b : CScores} {ks : List Rat} (h : ∀ k ∈ ks, getCount a k = getCount b k) :
    blocks a ks = blocks b ks := by
  unfold blocks
  apply List.flatMap_congr
  intro k hk
  rw [h k hk]

theorem blocks_reverse (cs : CScores) (ks : List Rat) : blocks cs ks.reverse = (blocks cs ks).reverse := by
  unfold blocks
  rw [List.reverse_flatMap]
  apply List.flatMap_congr
  intro k _
  simp

theorem count_blocks {cs : CScores} {ks : List Rat} (hnd : ks.Nodup) (v : Rat) :
    (blocks cs ks).count v = if v ∈ ks then (getCount cs v).toNat else 0 := by
  induction ks with
  | nil => simp [blocks]
  | cons k rest ih =>
    have hk := List.nodup_cons.mp hnd
    rw [blocks_cons, List.count_append, List.count_replicate, ih hk.2]
    by_cases hkv : k = v
    · subst hkv
      simp [hk.1]
    · have : ¬ v = k := fun h => hkv h.symm
      simp [hkv, this]

theorem blocks_asc {cs : CScores} {ks : List Rat} (hs : ks.Pairwise (· < ·)) : Asc (blocks cs ks) := by
  induction ks with
  | nil => simp [blocks, Asc]
  | cons k rest ih =>
    have hk := List.pairwise_cons.mp hs
    rw [blocks_cons]
    unfold Asc
    rw [List.pairwise_append]
    refine ⟨?_, ih hk.2, ?_⟩
    · rw [List.pairwise_replicate]
      right; exact le_refl _
    · intro a ha b hb
      have ha' := (List.mem_replicate.mp ha).2
      subst ha'
      unfold blocks at hb
      obtain ⟨k', hk', hb'⟩ := List.mem_flatMap.mp hb
      have := (List.mem_replicate.mp hb').2
      subst this
      exact le_of_lt (hk.1 _ hk')

/-- the sorted expansion of a dict with distinct keys, all of which (with a count) occur in the sorted key list -/
theorem sortR_expand_eq_blocks {cs : CScores} (hnd : (ckeys cs).Nodup) {ks : List Rat} (hs : ks.Pairwise (· < ·))
    (hcover : ∀ k, k ∉ ks → getCount cs k = 0) : sortR (expand cs) = blocks cs ks := by
  have hksnd : ks.Nodup := hs.imp (fun h => ne_of_lt h)
  apply List.Perm.eq_of_pairwise' (r := (· ≤ ·)) (sortR_asc _) (blocks_asc hs)
  refine (sortR_perm _).trans ?_
  rw [List.perm_iff_count]
  intro v
  rw [count_expand hnd, count_blocks hksnd]
  by_cases hv : v ∈ ks
  · simp [hv]
  · simp [hv, hcover v hv]

end VL.Score

namespace VL.Score
open VL

set_option linter.unusedSimpArgs false

/-- what one pass of `_subtract_lowest` along the (duplicate-free) key list `ks` does: it drops `cutoff - cut` entries
    from the front of the block list, touches no other key, keeps counts non-negative and keys distinct -/
theorem subtractLowest_go (cutoff : Int) : ∀ (ks : List Rat) (cs : CScores) (cut : Int),
    ks.Nodup → cut ≤ cutoff → (∀ k, 0 ≤ getCount cs k) → (ckeys cs).Nodup →
      blocks (subtractLowest.go cutoff cs ks cut) ks = (blocks cs ks).drop (cutoff - cut).toNat ∧
      (∀ k, k ∉ ks → getCount (subtractLowest.go cutoff cs ks cut) k = getCount cs k) ∧
      (∀ k, 0 ≤ getCount (subtractLowest.go cutoff cs ks cut) k) ∧
      (ckeys (subtractLowest.go cutoff cs ks cut)).Nodup := by
  intro ks
  induction ks with
  | nil =>
    intro cs cut _ _ hpos hnd
    simp [subtractLowest.go, blocks, hpos, hnd]
  | cons s rest ih =>
    intro cs cut hks hcut hpos hnd
    have hs := List.nodup_cons.mp hks
    unfold subtractLowest.go
    by_cases hle : getCount cs s ≤ cutoff - cut
    · rw [if_pos hle]
      have hpos' : ∀ k, 0 ≤ getCount (delKey cs s) k := by
        intro k; rw [getCount_delKey]; split
        · exact le_refl _
        · exact hpos k
      obtain ⟨h1, h2, h3, h4⟩ := ih (delKey cs s) (cut + getCount cs s) hs.2 (by omega) hpos' (ckeys_delKey_nodup hnd s)
      refine ⟨?_, ?_, h3, h4⟩
      · rw [blocks_cons, h2 s hs.1, getCount_delKey, if_pos rfl, blocks_cons, h1]
        have hb : blocks (delKey cs s) rest = blocks cs rest := by
          apply blocks_congr
          intro k hk
          rw [getCount_delKey, if_neg (fun (h : k = s) => hs.1 (h ▸ hk))]
        rw [hb, List.drop_append, List.drop_replicate, List.length_replicate]
        have h0 := hpos s
        have e1 : (getCount cs s).toNat - (cutoff - cut).toNat = 0 := by omega
        have e2 : (cutoff - cut).toNat - (getCount cs s).toNat = (cutoff - (cut + getCount cs s)).toNat := by omega
        rw [e1, e2]
        simp
      · intro k hk
        have hk1 : k ≠ s := fun h => hk (h ▸ List.mem_cons_self)
        have hk2 : k ∉ rest := fun h => hk (List.mem_cons_of_mem _ h)
        rw [h2 k hk2, getCount_delKey, if_neg hk1]
    · rw [if_neg hle]
      have hlt : cutoff - cut < getCount cs s := not_le.mp hle
      refine ⟨?_, ?_, ?_, ckeys_setCount_nodup hnd _ _⟩
      · rw [blocks_cons, getCount_setCount, if_pos rfl, blocks_cons]
        have hb : blocks (setCount cs s (getCount cs s - (cutoff - cut))) rest = blocks cs rest := by
          apply blocks_congr
          intro k hk
          rw [getCount_setCount, if_neg (fun (h : k = s) => hs.1 (h ▸ hk))]
        rw [hb, List.drop_append_of_le_length (by rw [List.length_replicate]; omega), List.drop_replicate]
        congr 2
        omega
      · intro k hk
        have hk1 : k ≠ s := fun h => hk (h ▸ List.mem_cons_self)
        rw [getCount_setCount, if_neg hk1]
      · intro k
        rw [getCount_setCount]
        split
        · omega
        · exact hpos k

theorem sortR_strict {l : List Rat} (h : l.Nodup) : (sortR l).Pairwise (· < ·) := by
  have hasc := sortR_asc l
  have hnd : (sortR l).Nodup := (sortR_perm l).nodup_iff.mpr h
  unfold Asc at hasc
  have := List.Pairwise.and hasc hnd
  exact this.imp (fun h => lt_of_le_of_ne h.1 h.2)

/-- a missing key reads as 0 -/
theorem getCount_of_not_mem {cs : CScores} {k : Rat} (h : k ∉ ckeys cs) : getCount cs k = 0 := by
  unfold getCount
  have : cs.find? (fun q => decide (q.1 = k)) = none := by
    rw [List.find?_eq_none]
    intro q hq
    simp only [decide_eq_true_eq]
    intro hqk
    exact h (List.mem_map.mpr ⟨q, hq, hqk⟩)
  rw [this]

/-- **Truncation, on the sorted grade list.**  For a grade dict with distinct keys and non-negative counts and a cutoff
    `c ≥ 0`, the two passes of `_subtract_lowest` (lowest grades first, then highest grades first) leave exactly the
    sorted grade list without its `c` lowest and its `c` highest entries. -/
theorem truncation_spec (cs : CScores) (hnd : (ckeys cs).Nodup) (hpos : ∀ p ∈ cs, 0 ≤ p.2) (c : Nat) :
    let ks := sortR (cs.map (·.1))
    sortR (expand (subtractLowest (subtractLowest cs ks c) ks.reverse c)) =
      (((sortR (expand cs)).drop c).reverse.drop c).reverse := by
  intro ks
  have hks : ks.Pairwise (· < ·) := sortR_strict hnd
  have hksnd : ks.Nodup := hks.imp (fun h => ne_of_lt h)
  have hmemks : ∀ k, k ∈ ks ↔ k ∈ ckeys cs := fun k => (sortR_perm _).mem_iff
  have hpos' : ∀ k, 0 ≤ getCount cs k := by
    intro k
    unfold getCount
    cases hf : cs.find? (fun p => decide (p.1 = k)) with
    | none => exact le_refl _
    | some p => exact hpos p (List.mem_of_find?_eq_some hf)
  have hcover : ∀ k, k ∉ ks → getCount cs k = 0 := fun k hk => getCount_of_not_mem (fun h => hk ((hmemks k).mpr h))
  unfold subtractLowest
  obtain ⟨a1, a2, a3, a4⟩ := subtractLowest_go (c : Int) ks cs 0 hksnd (by omega) hpos' hnd
  set cs1 := subtractLowest.go (c : Int) cs ks 0 with hcs1
  have hrevnd : ks.reverse.Nodup := List.nodup_reverse.mpr hksnd
  obtain ⟨b1, b2, b3, b4⟩ := subtractLowest_go (c : Int) ks.reverse cs1 0 hrevnd (by omega) a3 a4
  set cs2 := subtractLowest.go (c : Int) cs1 ks.reverse 0 with hcs2
  have hcover2 : ∀ k, k ∉ ks → getCount cs2 k = 0 := by
    intro k hk
    rw [b2 k (fun h => hk (List.mem_reverse.mp h)), a2 k hk, hcover k hk]
  rw [sortR_expand_eq_blocks b4 hks hcover2, sortR_expand_eq_blocks hnd hks hcover]
  have e : ((c : Int) - 0).toNat = c := by omega
  rw [e] at a1 b1
  rw [blocks_reverse, blocks_reverse, a1] at b1
  rw [← b1, List.reverse_reverse]

end VL.Score

namespace VL.Score
open VL

theorem sortR_eq_of_perm {l l' : List Rat} (h : l.Perm l') : sortR l = sortR l' :=
  List.Perm.eq_of_pairwise' (r := (· ≤ ·)) (sortR_asc l) (sortR_asc l') ((sortR_perm l).trans (h.trans (sortR_perm l').symm))

/-- the aggregation functions see the grade list only as a multiset -/
theorem aggFn_perm (fn : Agg) {l l' : List Rat} (h : l.Perm l') : aggFn fn l = aggFn fn l' := by
  cases fn with
  | mean => simp only [aggFn, exactMean, h.length_eq, h.sum_eq]
  | sum => simp only [aggFn, h.sum_eq]
  | medianLow => simp only [aggFn, medianLow, sortR_eq_of_perm h]

end VL.Score
