/-
  C10, Condorcet / instant-runoff hybrids: Tideman alternative (Smith or Schwartz set selector, one seat) does not depend on
  the order in which the ballots are presented.  Same simulation as for Benham (PermBenham.lean): permuted current
  profiles give the same Smith/Schwartz set (`smithSchwartz_perm`), permuted subsetted profiles and equivalent
  eliminations.  The final answer is a single candidate or an exception, hence literally equal.
-/
import VotelibProofs.Lemmas.PermBenham
namespace VL.Perm.Hyb
open VL VL.Condorcet VL.C10

/-- two one-place selections that are equivalent: the same candidate, or the same tie as a set -/
theorem slotsEquiv_singleton {s₁ s₂ : Slot} (h : SlotsEquiv [s₁] [s₂]) :
    (∃ c, s₁ = Slot.cand c ∧ s₂ = Slot.cand c) ∨ (∃ T₁ T₂, s₁ = Slot.tie T₁ ∧ s₂ = Slot.tie T₂ ∧ T₁.Perm T₂) := by
  obtain ⟨e₁, e₂, T₁, T₂, m, h1, h2, he, hT⟩ := h
  cases e₁ with
  | nil =>
    have := he.nil_eq
    subst this
    simp only [List.map_nil, List.nil_append] at h1 h2
    have hm : m = 1 := by simpa using (congrArg List.length h1).symm
    subst hm
    simp only [List.replicate_one, List.cons.injEq, and_true] at h1 h2
    exact Or.inr ⟨T₁, T₂, h1, h2, hT⟩
  | cons c t =>
    simp only [List.map_cons, List.cons_append, List.cons.injEq] at h1
    obtain ⟨hs, hrest⟩ := h1
    have hlen := congrArg List.length hrest
    simp only [List.length_nil, List.length_append, List.length_map, List.length_replicate] at hlen
    have ht : t = [] := List.eq_nil_of_length_eq_zero (by omega)
    have hm : m = 0 := by omega
    subst ht hm
    have he2 : e₂ = [c] := List.perm_singleton.mp he.symm
    subst he2
    simp only [List.map_cons, List.map_nil, List.replicate_zero, List.append_nil, List.cons.injEq, and_true] at h2
    exact Or.inl ⟨c, hs, h2⟩

/-- what a tier does after the set selector returned `S` with other than one member (L676-685) -/
def tierCont (smith : Bool) (f : Nat) (rv : Profile) (S : List Cand) : Except Err Slot :=
  match eliminateOne (subsetProfile rv S) with
  | .error e => .error e
  | .ok [Slot.tie _] => .error .notImplemented
  | .ok [s] => .ok s
  | .ok rem => tidemanTier smith f (subsetProfile (subsetProfile rv S) (slotCands rem))

/-- the set a tier works with: the Smith / Schwartz set, or everybody when there is no pairwise contest (fix 30bd79e) -/
def tierSet (smith : Bool) (rv : Profile) : List Cand :=
  if (smithSchwartz (rankedToCondorcet rv) smith).isEmpty then allRankedCandidates rv
  else smithSchwartz (rankedToCondorcet rv) smith

def tierSel (smith : Bool) (f : Nat) (rv : Profile) (S : List Cand) : Except Err Slot :=
  match S with
  | [c] => .ok (Slot.cand c)
  | _ => tierCont smith f rv S

theorem tier_unfold (smith : Bool) (f : Nat) (rv : Profile) :
    tidemanTier smith (f + 1) rv =
      if rv.isEmpty then .error .notImplemented
      else tierSel smith f rv (tierSet smith rv) := by
  unfold tidemanTier tierSel tierCont tierSet
  rfl

theorem tierCont_perm (smith : Bool) (f : Nat)
    (ih : ∀ rv₁ rv₂ : Profile, rv₁.Perm rv₂ →
      ExceptEquiv (fun s₁ s₂ => SlotsEquiv [s₁] [s₂]) (tidemanTier smith f rv₁) (tidemanTier smith f rv₂))
    {rv₁ rv₂ : Profile} (hr : rv₁.Perm rv₂) {S₁ S₂ : List Cand} (hS : ∀ c, c ∈ S₁ ↔ c ∈ S₂) :
    ExceptEquiv (fun s₁ s₂ => SlotsEquiv [s₁] [s₂]) (tierCont smith f rv₁ S₁) (tierCont smith f rv₂ S₂) := by
  unfold tierCont
  have h2 := subsetProfile_perm hr hS
  have he := eliminateOne_perm h2
  cases h1 : eliminateOne (subsetProfile rv₁ S₁) with
  | error e₁ =>
    cases h2' : eliminateOne (subsetProfile rv₂ S₂) with
    | error e₂ => rw [h1, h2'] at he; exact he
    | ok r₂ => rw [h1, h2'] at he; exact he.elim
  | ok r₁ =>
    cases h2' : eliminateOne (subsetProfile rv₂ S₂) with
    | error e₂ => rw [h1, h2'] at he; exact he.elim
    | ok r₂ =>
      rw [h1, h2'] at he
      have he' : SlotsEquiv r₁ r₂ := he
      have hl := length_equiv he'
      have hrec : ∀ r₁ r₂ : List Slot, SlotsEquiv r₁ r₂ →
          ExceptEquiv (fun s₁ s₂ => SlotsEquiv [s₁] [s₂])
            (tidemanTier smith f (subsetProfile (subsetProfile rv₁ S₁) (slotCands r₁)))
            (tidemanTier smith f (subsetProfile (subsetProfile rv₂ S₂) (slotCands r₂))) :=
        fun r₁ r₂ hrr => ih _ _ (subsetProfile_perm h2 (fun c => (slotCands_equiv hrr).mem_iff))
      match r₁, r₂, he', hl with
      | [], [], he', _ => exact hrec _ _ he'
      | [s₁], [s₂], he', _ =>
        rcases slotsEquiv_singleton he' with ⟨c, rfl, rfl⟩ | ⟨T₁, T₂, rfl, rfl, _⟩
        · exact he'
        · exact rfl
      | a :: b :: t, c :: d :: t', he', _ => cases a <;> cases c <;> exact hrec _ _ he'
      | [], _ :: _, _, hl => simp at hl
      | [_], [], _, hl => simp at hl
      | [_], _ :: _ :: _, _, hl => simp at hl
      | _ :: _ :: _, [], _, hl => simp at hl
      | _ :: _ :: _, [_], _, hl => simp at hl

theorem tierSel_perm (smith : Bool) (f : Nat)
    (ih : ∀ rv₁ rv₂ : Profile, rv₁.Perm rv₂ →
      ExceptEquiv (fun s₁ s₂ => SlotsEquiv [s₁] [s₂]) (tidemanTier smith f rv₁) (tidemanTier smith f rv₂))
    {rv₁ rv₂ : Profile} (hr : rv₁.Perm rv₂) {S₁ S₂ : List Cand} (hS : S₁.Perm S₂) :
    ExceptEquiv (fun s₁ s₂ => SlotsEquiv [s₁] [s₂]) (tierSel smith f rv₁ S₁) (tierSel smith f rv₂ S₂) := by
  have hcont := tierCont_perm smith f ih hr (fun c => hS.mem_iff)
  have hl := hS.length_eq
  match S₁, S₂, hS, hl, hcont with
  | [], [], _, _, hcont => exact hcont
  | [c], [d], hS, _, _ =>
    have : [c] = [d] := List.perm_singleton.mp hS
    injection this with hcd _
    subst hcd
    exact slotsEquiv_cands [c]
  | a :: b :: t, c :: d :: t', _, _, hcont => exact hcont
  | [], _ :: _, _, hl, _ => simp at hl
  | [_], [], _, hl, _ => simp at hl
  | [_], _ :: _ :: _, _, hl, _ => simp at hl
  | _ :: _ :: _, [], _, hl, _ => simp at hl
  | _ :: _ :: _, [_], _, hl, _ => simp at hl

theorem tidemanTier_perm (smith : Bool) : ∀ (f : Nat) (rv₁ rv₂ : Profile), rv₁.Perm rv₂ →
    ExceptEquiv (fun s₁ s₂ => SlotsEquiv [s₁] [s₂]) (tidemanTier smith f rv₁) (tidemanTier smith f rv₂) := by
  intro f
  induction f with
  | zero => intro _ _ _; exact rfl
  | succ f ih =>
    intro rv₁ rv₂ hr
    rw [tier_unfold, tier_unfold]
    have hemp : rv₁.isEmpty = rv₂.isEmpty := by
      cases rv₁ with
      | nil => have := hr.nil_eq; subst this; rfl
      | cons a l =>
        cases rv₂ with
        | nil => exact absurd hr.eq_nil (by simp)
        | cons b l' => rfl
    rw [hemp]
    by_cases hE : rv₂.isEmpty = true
    · rw [if_pos hE, if_pos hE]; exact rfl
    · rw [if_neg hE, if_neg hE]
      have hS := smithSchwartz_perm (r2c_perm hr) (nodup_keys_r2c rv₁) smith
      have hSe : (smithSchwartz (rankedToCondorcet rv₁) smith).isEmpty = (smithSchwartz (rankedToCondorcet rv₂) smith).isEmpty := by
        cases h3 : smithSchwartz (rankedToCondorcet rv₁) smith with
        | nil => rw [h3] at hS; rw [hS.nil_eq]
        | cons a l =>
          cases h4 : smithSchwartz (rankedToCondorcet rv₂) smith with
          | nil => rw [h3, h4] at hS; exact absurd hS.eq_nil (by simp)
          | cons b l' => rfl
      have hset : (tierSet smith rv₁).Perm (tierSet smith rv₂) := by
        unfold tierSet
        rw [hSe]
        split
        · exact allRanked_perm hr
        · exact hS
      exact tierSel_perm smith f ih hr hset

/-- `run_tier` as a whole (with the lone-candidate shortcut of fix bddde61) -/
theorem tidemanRunTier_perm (smith : Bool) (f : Nat) (rv₁ rv₂ : Profile) (hr : rv₁.Perm rv₂) :
    ExceptEquiv (fun s₁ s₂ => SlotsEquiv [s₁] [s₂]) (tidemanRunTier smith f rv₁) (tidemanRunTier smith f rv₂) := by
  have hA := allRanked_perm hr
  by_cases hl : ∃ c, allRankedCandidates rv₁ = [c]
  · obtain ⟨c, hc⟩ := hl
    have hc2 := (lone_of_perm hA c).mp hc
    unfold tidemanRunTier
    rw [hc, hc2]
    exact slotsEquiv_single_cand c
  · have h1 : ∀ c, allRankedCandidates rv₁ ≠ [c] := fun c e => hl ⟨c, e⟩
    have h2 : ∀ c, allRankedCandidates rv₂ ≠ [c] := fun c e => hl ⟨c, (lone_of_perm hA c).mpr e⟩
    rw [tidemanRunTier_of_not_lone h1, tidemanRunTier_of_not_lone h2]
    exact tidemanTier_perm smith f rv₁ rv₂ hr

theorem eraseCand_eq_erase (l : List Cand) (c : Cand) : eraseCand l c = l.erase c := by
  induction l with
  | nil => rfl
  | cons x xs ih =>
    unfold eraseCand
    rw [List.erase_cons]
    by_cases h : x = c
    · simp [h]
    · have : (x == c) = false := by simpa using h
      rw [if_neg h, this, ih]; rfl

/-- the seat loop of the multi-seat evaluator: tier profiles and eligible lists permuted, everything else equal -/
theorem tidemanLoop_perm (smith : Bool) (tf : Nat) : ∀ (f : Nat) (t₁ t₂ : Profile), t₁.Perm t₂ →
    ∀ (el₁ el₂ : List Cand), el₁.Perm el₂ → ∀ (acc : List Slot) (n : Nat),
      tidemanLoop smith tf f t₁ el₁ acc n = tidemanLoop smith tf f t₂ el₂ acc n := by
  intro f
  induction f with
  | zero => intro _ _ _ _ _ _ _ _; rfl
  | succ f ih =>
    intro t₁ t₂ ht el₁ el₂ hel acc n
    unfold tidemanLoop
    have hr := tidemanRunTier_perm smith tf t₁ t₂ ht
    cases h1 : tidemanRunTier smith tf t₁ with
    | error e₁ =>
      cases h2 : tidemanRunTier smith tf t₂ with
      | error e₂ => rw [h1, h2] at hr; have : e₁ = e₂ := hr; rw [this]
      | ok s₂ => rw [h1, h2] at hr; exact hr.elim
    | ok s₁ =>
      cases h2 : tidemanRunTier smith tf t₂ with
      | error e₂ => rw [h1, h2] at hr; exact hr.elim
      | ok s₂ =>
        rw [h1, h2] at hr
        rcases slotsEquiv_singleton hr with ⟨c, rfl, rfl⟩ | ⟨T₁, T₂, rfl, rfl, _⟩
        · simp only
          have hcont : el₁.contains c = el₂.contains c := by
            rw [Bool.eq_iff_iff, List.contains_iff_mem, List.contains_iff_mem, hel.mem_iff]
          have her : (eraseCand el₁ c).Perm (eraseCand el₂ c) := by
            rw [eraseCand_eq_erase, eraseCand_eq_erase]; exact hel.erase c
          have hemp : (eraseCand el₁ c).isEmpty = (eraseCand el₂ c).isEmpty := by
            cases h3 : eraseCand el₁ c with
            | nil => rw [h3] at her; rw [her.nil_eq]
            | cons a l =>
              cases h4 : eraseCand el₂ c with
              | nil => rw [h3, h4] at her; exact absurd her.eq_nil (by simp)
              | cons b l' => rfl
          rw [hcont, hemp]
          split
          · rfl
          · split
            · rfl
            · exact ih _ _ (subsetProfile_perm ht (fun x => her.mem_iff)) _ _ her _ _
        · rfl

end VL.Perm.Hyb

namespace VL.Perm
open VL VL.Condorcet VL.C10

/-- **Tideman alternative (Smith or Schwartz): ballot-order independence** — every profile, no well-formedness
    assumption: literally the same result (one candidate) or the same exception -/
theorem tideman_perm (smith : Bool) {p₁ p₂ : Profile} (h : p₁.Perm p₂) : tideman smith p₁ = tideman smith p₂ := by
  unfold tideman
  rw [(Hyb.allRanked_perm h).length_eq]
  have ht := Hyb.tidemanRunTier_perm smith ((allRankedCandidates p₂).length + 3) p₁ p₂ h
  have hcont : ∀ c, (allRankedCandidates p₁).contains c = (allRankedCandidates p₂).contains c := by
    intro c
    rw [Bool.eq_iff_iff, List.contains_iff_mem, List.contains_iff_mem, (Hyb.allRanked_perm h).mem_iff]
  cases h1 : tidemanRunTier smith ((allRankedCandidates p₂).length + 3) p₁ with
  | error e₁ =>
    cases h2 : tidemanRunTier smith ((allRankedCandidates p₂).length + 3) p₂ with
    | error e₂ =>
      rw [h1, h2] at ht
      have : e₁ = e₂ := ht
      rw [this]
    | ok s₂ => rw [h1, h2] at ht; exact ht.elim
  | ok s₁ =>
    cases h2 : tidemanRunTier smith ((allRankedCandidates p₂).length + 3) p₂ with
    | error e₂ => rw [h1, h2] at ht; exact ht.elim
    | ok s₂ =>
      rw [h1, h2] at ht
      rcases Hyb.slotsEquiv_singleton ht with ⟨c, rfl, rfl⟩ | ⟨T₁, T₂, rfl, rfl, _⟩
      · simp only [hcont]
      · rfl

/-- the same statement in the shared vocabulary of C10 -/
theorem tideman_perm_equiv (smith : Bool) {p₁ p₂ : Profile} (h : p₁.Perm p₂) :
    ExceptEquiv SlotsEquiv (tideman smith p₁) (tideman smith p₂) := by
  apply exceptEquiv_of_eq_cands (tideman_perm smith h)
  intro r hr
  unfold tideman at hr
  split at hr
  · cases hr
  · split at hr
    · injection hr with hr; subst hr; rename_i c _ _; exact ⟨[c], rfl⟩
    · cases hr
  · cases hr

/-- **Tideman alternative, any number of seats (`tidemanN`, fix 33df8fe): ballot-order independence** — literally the same
    result or the same exception, every profile -/
theorem tidemanN_perm (smith : Bool) {p₁ p₂ : Profile} (h : p₁.Perm p₂) (n : Nat) : tidemanN smith p₁ n = tidemanN smith p₂ n := by
  unfold tidemanN
  simp only
  rw [(Hyb.allRanked_perm h).length_eq]
  exact Hyb.tidemanLoop_perm smith _ _ p₁ p₂ h _ _ (Hyb.allRanked_perm h) _ _

end VL.Perm
