/-
  C10: the rules `PreConverted(converter, Plurality())` of the family table — positional rules (Borda, Dowdall, …) and
  approval voting (AV, SAV) — do not depend on the order of the ballots and commute with renamings.
-/
import VotelibProofs.Lemmas.RenameConvert
import VotelibModel.PreConverted
namespace VL.Perm
open VL VL.Convert VL.C10 VL.PreConv

/-- **Positional rules: ballot-order independence** -/
theorem positionalRule_perm (sc : Scorer) {p₁ p₂ : RProfile} (h : p₁.Perm p₂)
    (hs : C13.ScorerOK sc (allRankedCandidates p₁).length p₁) (n : Nat) :
    ExceptEquiv SlotsEquiv (positionalRule sc p₁ n) (positionalRule sc p₂ n) := by
  obtain ⟨d₁, d₂, e1, e2, hp⟩ := rankedToPositional_perm sc h hs
  unfold positionalRule
  rw [e1, e2]
  exact getNBest_perm d₁ d₂ hp n

/-- **Positional rules: renaming equivariance** (injective renaming; shared ranks list each member once) -/
theorem positionalRule_ren (σ : Cand → Cand) (hσ : Function.Injective σ) (sc : Scorer) (p : RProfile) (hwf : RankedWF p)
    (hs : C13.ScorerOK sc (allRankedCandidates p).length p) (n : Nat) :
    ExceptEquiv SlotsEquiv (positionalRule sc (renRProfile σ p) n) ((positionalRule sc p n).map (List.map (renSlot σ))) := by
  obtain ⟨d', d, e1, e2, hp⟩ := rankedToPositional_ren σ hσ sc p hwf hs
  unfold positionalRule
  rw [e1, e2]
  simp only [Except.map]
  rw [← getNBest_rename]
  exact getNBest_perm d' _ hp n

/-- **Approval voting (AV, SAV): ballot-order independence** -/
theorem approvalRule_perm (split : Bool) {p₁ p₂ : AProfile} (h : p₁.Perm p₂) (n : Nat) :
    ExceptEquiv SlotsEquiv (approvalRule split p₁ n) (approvalRule split p₂ n) := by
  have := approvalToSimple_perm split h
  unfold approvalRule
  cases h1 : approvalToSimple split p₁ <;> cases h2 : approvalToSimple split p₂ <;> rw [h1, h2] at this
  · exact this
  · exact this.elim
  · exact this.elim
  · exact getNBest_perm _ _ this n

/-- **Approval voting (AV, SAV): renaming equivariance** (injective renaming; duplicate-free ballots) -/
theorem approvalRule_ren (σ : Cand → Cand) (hσ : Function.Injective σ) (split : Bool) (p : AProfile)
    (hwf : ∀ bw ∈ p, bw.1.Nodup) (n : Nat) :
    ExceptEquiv SlotsEquiv (approvalRule split (renAProfile σ p) n) ((approvalRule split p n).map (List.map (renSlot σ))) := by
  have := approvalToSimple_ren σ hσ split p hwf
  unfold approvalRule
  cases h1 : approvalToSimple split (renAProfile σ p) <;> cases h2 : approvalToSimple split p <;> rw [h1, h2] at this
  · exact this
  · exact this.elim
  · exact this.elim
  · simp only [Except.map] at this ⊢
    rw [← getNBest_rename]
    exact getNBest_perm _ _ this n

end VL.Perm
