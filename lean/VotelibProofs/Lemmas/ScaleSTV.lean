/-
  C11: transferable vote with the Gregory transferer and a homogeneous quota (Hare) is scale invariant, by the
  simulation relation  state₂ = k • state₁  on allocations (every pile weight multiplied by `k`): first-preference
  piles, Gregory splits of shared ranks, totals, the quota, surpluses and transfer values all scale by `k`; the numbers
  of whole quotas `floor(kv/(kq))`, the retention factors `(cur − n)/cur` and every comparison are unchanged.
  `rankedNext` (which reads no weight) is treated opaquely.
-/
import VotelibProofs.Lemmas.ScaleCondorcet
import VotelibModel.STV
namespace VL.Scale
open VL VL.STV

def scalePile (k : Rat) (p : Pile) : Pile := p.map (fun bw => (bw.1, k * bw.2))
def scaleAlloc (k : Rat) (a : Alloc) : Alloc := a.map (fun hp => (hp.1, scalePile k hp.2))
/-- what travels through the transfer functions: the allocation scaled, the (unused) draw stream untouched -/
def scaleAD (k : Rat) (x : Alloc × List Draw) : Alloc × List Draw := (scaleAlloc k x.1, x.2)

theorem rat_sum_map_mul (k : Rat) (l : List Rat) : (l.map (fun x => k * x)).sum = k * l.sum := by
  induction l with
  | nil => simp
  | cons x xs ih => simp only [List.map_cons, List.sum_cons, ih, mul_add]

theorem pileTotal_scale (k : Rat) (p : Pile) : pileTotal (scalePile k p) = k * pileTotal p := by
  unfold pileTotal scalePile
  rw [List.map_map, ← rat_sum_map_mul, List.map_map]; rfl

theorem pileAdd_scale (k : Rat) (p : Pile) (b : Ballot) (w : Rat) :
    pileAdd (scalePile k p) b (k * w) = scalePile k (pileAdd p b w) := by
  unfold scalePile
  induction p with
  | nil => simp [pileAdd]
  | cons e t ih =>
    obtain ⟨b', w'⟩ := e
    simp only [List.map_cons, pileAdd]
    by_cases hb : b' = b
    · simp only [hb, if_true, List.map_cons, mul_add]
    · simp only [hb, if_false, List.map_cons, ih]

theorem allocAdd_scale (k : Rat) (a : Alloc) (h : Option Cand) (b : Ballot) (w : Rat) :
    allocAdd (scaleAlloc k a) h b (k * w) = scaleAlloc k (allocAdd a h b w) := by
  unfold scaleAlloc
  induction a with
  | nil =>
    have := pileAdd_scale k [] b w
    simp only [allocAdd, List.map_cons, List.map_nil]
    rw [← this]; rfl
  | cons e t ih =>
    obtain ⟨h', p⟩ := e
    simp only [List.map_cons, allocAdd]
    by_cases hh : h' = h
    · simp only [hh, if_true, List.map_cons, pileAdd_scale]
    · simp only [hh, if_false, List.map_cons, ih]

theorem continuing_scale (k : Rat) (a : Alloc) : continuing (scaleAlloc k a) = continuing a := by
  unfold continuing scaleAlloc; rw [List.filterMap_map]; rfl

theorem allocPile_scale (k : Rat) (a : Alloc) (h : Option Cand) :
    allocPile (scaleAlloc k a) h = scalePile k (allocPile a h) := by
  unfold allocPile scaleAlloc
  induction a with
  | nil => rfl
  | cons e t ih =>
    simp only [List.map_cons, List.find?_cons]
    by_cases he : e.1 = h
    · simp [he]
    · simp only [he, decide_false]; exact ih

theorem allocErase_scale (k : Rat) (a : Alloc) (h : Option Cand) :
    allocErase (scaleAlloc k a) h = scaleAlloc k (allocErase a h) := by
  unfold allocErase scaleAlloc; rw [List.filter_map]; rfl

theorem totalsInPlay_scale (k : Rat) (a : Alloc) : totalsInPlay (scaleAlloc k a) = scaleVotes k (totalsInPlay a) := by
  unfold totalsInPlay scaleAlloc scaleVotes
  rw [List.filterMap_map, List.map_filterMap]
  apply List.filterMap_congr
  intro hp _
  simp only [Function.comp]
  cases hp.1 with
  | none => rfl
  | some c => simp only [pileTotal_scale, Option.map]

theorem allocTotals_scale (k : Rat) (a : Alloc) :
    allocTotals (scaleAlloc k a) = (allocTotals a).map (fun p => (p.1, k * p.2)) := by
  unfold allocTotals scaleAlloc
  rw [List.map_map, List.map_map]
  apply List.map_congr_left
  intro hp _
  simp only [Function.comp, pileTotal_scale]

theorem scaleAlloc_eq_nil (k : Rat) (a : Alloc) : scaleAlloc k a = [] ↔ a = [] := by
  cases a <;> simp [scaleAlloc]

/-! ### Gregory -/

theorem gregorySubtract_scale (k : Rat) (hk : 0 < k) (p : Pile) (n : Rat) :
    gregorySubtract (scalePile k p) (k * n) = (gregorySubtract p n).map (scalePile k) := by
  have hk0 : k ≠ 0 := ne_of_gt hk
  unfold gregorySubtract
  simp only [pileTotal_scale, mul_eq_zero, hk0, false_or, ge_iff_le, mul_le_mul_iff_right₀ hk]
  by_cases h0 : pileTotal p = 0
  · simp only [h0, if_true]; rfl
  · simp only [h0, if_false]
    by_cases hge : pileTotal p ≤ n
    · simp only [hge, if_true]; rfl
    · simp only [hge, if_false]
      show Except.ok _ = Except.ok _
      congr 1
      unfold scalePile
      rw [List.map_map, List.map_map]
      apply List.map_congr_left
      intro bw _
      simp only [Function.comp, ← mul_sub, mul_div_mul_left _ _ hk0, mul_assoc]

theorem gregorySplit_scale (k : Rat) (ts : List Cand) (w : Rat) :
    gregorySplit ts (k * w) = (gregorySplit ts w).map (fun cn => (cn.1, k * cn.2)) := by
  unfold gregorySplit
  rw [List.map_map]
  apply List.map_congr_left
  intro c _
  simp only [Function.comp, mul_div_assoc]

theorem moveBallot_scale (k : Rat) (cont : List Cand) (frm : Option Cand) (a : Alloc) (b : Ballot) (w : Rat)
    (ds : List Draw) :
    moveBallot gregory cont frm (scaleAlloc k a) b (k * w) ds = (moveBallot gregory cont frm a b w ds).map (scaleAD k) := by
  unfold moveBallot
  cases hrn : rankedNext b frm cont with
  | nil => simp only [allocAdd_scale]; rfl
  | cons t rest =>
    cases rest with
    | nil => simp only [allocAdd_scale]; rfl
    | cons t2 rest2 =>
      simp only
      show Except.ok ((gregorySplit (t :: t2 :: rest2) (k * w)).foldl (fun a' tn => allocAdd a' (some tn.1) b tn.2) (scaleAlloc k a), ds)
        = Except.ok (scaleAlloc k ((gregorySplit (t :: t2 :: rest2) w).foldl (fun a' tn => allocAdd a' (some tn.1) b tn.2) a), ds)
      rw [gregorySplit_scale]
      have := foldl_simMap (scaleAlloc k) (fun a' (tn : Cand × Rat) => allocAdd a' (some tn.1) b tn.2)
        (fun a' (tn : Cand × Rat) => allocAdd a' (some tn.1) b tn.2) (fun cn => (cn.1, k * cn.2))
        (fun s tn => allocAdd_scale k s (some tn.1) b tn.2) (gregorySplit (t :: t2 :: rest2) w) a
      rw [this]

theorem movePile_scale (k : Rat) (cont : List Cand) (frm : Option Cand) : ∀ (p : Pile) (a : Alloc) (ds : List Draw),
    movePile gregory cont frm (scalePile k p) (scaleAlloc k a) ds = (movePile gregory cont frm p a ds).map (scaleAD k) := by
  intro p
  induction p with
  | nil => intro a ds; rfl
  | cons e rest ih =>
    intro a ds
    obtain ⟨b, w⟩ := e
    show movePile gregory cont frm ((b, k * w) :: scalePile k rest) (scaleAlloc k a) ds = _
    simp only [movePile]
    rw [moveBallot_scale]
    cases moveBallot gregory cont frm a b w ds with
    | error e => rfl
    | ok r =>
      obtain ⟨a', ds'⟩ := r
      exact ih a' ds'

theorem transferGo_scale (k : Rat) (cont : List Cand) : ∀ (cs : List Cand) (a : Alloc) (ds : List Draw),
    transferGo gregory cont cs (scaleAlloc k a) ds = (transferGo gregory cont cs a ds).map (scaleAD k) := by
  intro cs
  induction cs with
  | nil => intro a ds; rfl
  | cons c rest ih =>
    intro a ds
    simp only [transferGo]
    rw [allocPile_scale, allocErase_scale, movePile_scale]
    cases movePile gregory cont (some c) (allocPile a (some c)) (allocErase a (some c)) ds with
    | error e => rfl
    | ok r =>
      obtain ⟨a', ds'⟩ := r
      exact ih a' ds'

theorem transfer_scale (k : Rat) (a : Alloc) (cands : List Cand) (ds : List Draw) :
    transfer gregory (scaleAlloc k a) cands ds = (transfer gregory a cands ds).map (scaleAD k) := by
  unfold transfer
  simp only [continuing_scale]
  exact transferGo_scale k _ _ a ds

theorem transferIf_scale (k : Rat) (a : Alloc) (el : List Cand) (ds : List Draw) :
    transferIf gregory (scaleAlloc k a) el ds = (transferIf gregory a el ds).map (scaleAD k) := by
  unfold transferIf
  split
  · rfl
  · exact transfer_scale k a el ds

theorem allocSetPile_scale (k : Rat) (a : Alloc) (h : Option Cand) (p : Pile) :
    allocSetPile (scaleAlloc k a) h (scalePile k p) = scaleAlloc k (allocSetPile a h p) := by
  unfold scaleAlloc
  induction a with
  | nil => rfl
  | cons e t ih =>
    obtain ⟨h', p'⟩ := e
    simp only [List.map_cons, allocSetPile]
    by_cases hh : h' = h
    · simp only [hh, if_true, List.map_cons]
    · simp only [hh, if_false, List.map_cons, ih]

theorem subtract_cons (c : Cand) (n : Rat) (rest : List (Cand × Rat)) (a : Alloc) (ds : List Draw) :
    subtract gregory ((c, n) :: rest) a ds = (match gregorySubtract (allocPile a (some c)) n with
      | .ok p' => subtract gregory rest (allocSetPile a (some c) p') ds
      | .error e => .error e) := by
  simp only [subtract, gregory]
  cases gregorySubtract (allocPile a (some c)) n <;> rfl

theorem subtract_scale (k : Rat) (hk : 0 < k) : ∀ (el : List (Cand × Rat)) (a : Alloc) (ds : List Draw),
    subtract gregory (el.map (fun cn => (cn.1, k * cn.2))) (scaleAlloc k a) ds
      = (subtract gregory el a ds).map (scaleAD k) := by
  intro el
  induction el with
  | nil => intro a ds; rfl
  | cons e rest ih =>
    intro a ds
    obtain ⟨c, n⟩ := e
    rw [List.map_cons, subtract_cons, subtract_cons, allocPile_scale, gregorySubtract_scale k hk]
    cases gregorySubtract (allocPile a (some c)) n with
    | error e => rfl
    | ok p' =>
      show subtract gregory (rest.map (fun cn => (cn.1, k * cn.2))) (allocSetPile (scaleAlloc k a) (some c) (scalePile k p')) ds = _
      rw [allocSetPile_scale]
      exact ih _ ds

/-! ### initial allocation -/

/-- a profile (dict ballot -> votes) scaled; the same function as `scalePile` -/
abbrev scaleProf (k : Rat) (votes : Profile) : Profile := scalePile k votes

theorem allRanked_scale (k : Rat) (votes : Profile) : allRanked (scaleProf k votes) = allRanked votes := by
  unfold allRanked maxRanks rankRow scaleProf scalePile
  simp only [List.foldl_map, List.flatMap_map]

theorem filter_key_scalePile (k : Rat) (P : Ballot × Rat → Bool) (hP : ∀ bw : Ballot × Rat, P (bw.1, k * bw.2) = P bw) (p : Pile) :
    (scalePile k p).filter P = scalePile k (p.filter P) := by
  unfold scalePile
  rw [List.filter_map]
  congr 1
  apply List.filter_congr
  intro bw _
  exact hP bw

theorem firstPrefs_scale (k : Rat) (votes : Profile) : firstPrefs (scaleProf k votes) = scaleAlloc k (firstPrefs votes) := by
  unfold firstPrefs
  rw [allRanked_scale]
  unfold scaleAlloc
  rw [List.map_map]
  apply List.map_congr_left
  intro c _
  simp only [Function.comp, Prod.mk.injEq, true_and]
  exact filter_key_scalePile k (firstIs c) (fun bw => rfl) votes

theorem fictionalPile_scale (k : Rat) (votes : Profile) : fictionalPile (scaleProf k votes) = scalePile k (fictionalPile votes) :=
  filter_key_scalePile k sharedFirst (fun bw => rfl) votes

theorem initialAllocation_scale (k : Rat) (votes : Profile) (ds : List Draw) :
    initialAllocation gregory (scaleProf k votes) ds = (initialAllocation gregory votes ds).map (scaleAD k) := by
  unfold initialAllocation
  rw [allRanked_scale, fictionalPile_scale, firstPrefs_scale, movePile_scale]

theorem totalVotes_scaleP (k : Rat) (votes : Profile) : totalVotes (scaleProf k votes) = k * totalVotes votes :=
  pileTotal_scale k votes

/-! ### election by quota -/

/-- homogeneous quota function of the configuration (Hare, Hagenbach-Bischoff, Imperiali), or none at all -/
def HomogeneousCfg (cfg : Cfg) : Prop :=
  ∀ f, cfg.quota = some f → ∀ (k V : Rat) (n : Nat), f (k * V) n = k * f V n

theorem computeQuota_scale (cfg : Cfg) (hq : HomogeneousCfg cfg) (k : Rat) (hk : 0 < k) (total : Rat) (n : Nat) :
    computeQuota cfg (k * total) n = (computeQuota cfg total n).map (fun q => k * q) := by
  unfold computeQuota
  cases hf : cfg.quota with
  | none => rfl
  | some f =>
    simp only [mul_ne_zero_iff, ne_eq, ne_of_gt hk, not_false_eq_true, true_and]
    split
    · simp only [Option.map, hq f hf]
    · rfl

theorem quotaEntry_scale (k : Rat) (hk : 0 < k) (ae : Bool) (q : Rat) (prev maxS : Seats) (ct : Cand × Rat) :
    quotaEntry ae (k * q) prev maxS (ct.1, k * ct.2)
      = (quotaEntry ae q prev maxS ct).map (fun x => (x.1, x.2.1, k * x.2.2)) := by
  have hk0 : k ≠ 0 := ne_of_gt hk
  unfold quotaEntry
  simp only [mul_div_mul_left _ _ hk0]
  have hover : k * ct.2 - ((ct.2 / q).floor : Rat) * (k * q) = k * (ct.2 - ((ct.2 / q).floor : Rat) * q) := by ring
  rw [hover]
  have hne : (k * (ct.2 - ((ct.2 / q).floor : Rat) * q) ≠ 0) ↔ (ct.2 - ((ct.2 / q).floor : Rat) * q ≠ 0) := by
    simp only [ne_eq, mul_eq_zero, hk0, false_or]
  simp only [hne]
  split
  · split <;> rfl
  · rfl

theorem quotaMultiples_scale (k : Rat) (hk : 0 < k) (ae : Bool) (q : Rat) (prev maxS : Seats) (tp : Votes) :
    quotaMultiples ae (k * q) prev maxS (scaleVotes k tp)
      = (quotaMultiples ae q prev maxS tp).map (fun x => (x.1, x.2.1, k * x.2.2)) := by
  unfold quotaMultiples
  rw [sortDesc_scale k hk]
  unfold scaleVotes
  rw [List.filterMap_map, List.map_filterMap]
  apply List.filterMap_congr
  intro ct _
  exact quotaEntry_scale k hk ae q prev maxS ct

theorem correctOvercount_scale (k : Rat) (hk : 0 < k) (aw : List (Cand × Nat × Rat)) (nRem : Nat) :
    correctOvercount (aw.map (fun x => (x.1, x.2.1, k * x.2.2))) nRem = correctOvercount aw nRem := by
  unfold correctOvercount
  have h1 : (aw.map (fun x => (x.1, x.2.1, k * x.2.2))).map (fun x => (x.1, x.2.2))
      = scaleVotes k (aw.map (fun x => (x.1, x.2.2))) := by
    unfold scaleVotes; simp [List.map_map, Function.comp_def]
  rw [h1, getNBest_scaleC k hk]
  simp only [List.filterMap_map, Function.comp_def]

theorem electByQuota_scale (k : Rat) (hk : 0 < k) (ae : Bool) (qv : Rat) (nRem : Nat) (prev maxS : Seats) (tp : Votes) :
    electByQuota ae (k * qv) nRem prev maxS (scaleVotes k tp) = electByQuota ae qv nRem prev maxS tp := by
  unfold electByQuota
  rw [quotaMultiples_scale k hk]
  simp only [List.map_map, Function.comp_def, correctOvercount_scale k hk]

theorem selectRetained_scale (k : Rat) (hk : 0 < k) (step : Option Int) (tp : Votes) :
    selectRetained step (scaleVotes k tp) = selectRetained step tp := by
  unfold selectRetained
  cases step with
  | none => rfl
  | some st => simp only [getNBest_scaleC k hk, scaleVotes_length]

theorem sortDesc_keys_scale (k : Rat) (hk : 0 < k) (v : Votes) :
    (sortDesc (scaleVotes k v)).map (·.1) = (sortDesc v).map (·.1) := by
  rw [sortDesc_scale k hk]; unfold scaleVotes; simp [List.map_map, Function.comp_def]

theorem availSeats_scale (k : Rat) (hk : 0 < k) (a : Alloc) (prev maxS : Seats) :
    availSeats (scaleAlloc k a) prev maxS = availSeats a prev maxS := by
  unfold availSeats; rw [totalsInPlay_scale, sortDesc_keys_scale k hk]

theorem shortcutCond_scale (k : Rat) (hk : 0 < k) (cfg : Cfg) (a : Alloc) (n : Nat) (prev maxS : Seats) :
    shortcutCond cfg (scaleAlloc k a) n prev maxS = shortcutCond cfg a n prev maxS := by
  unfold shortcutCond; rw [availSeats_scale k hk]

/-! ### one count -/

def scaleOut (k : Rat) (o : CountOut) : CountOut := { o with alloc := scaleAlloc k o.alloc }
def scaleOD (k : Rat) (x : CountOut × List Draw) : CountOut × List Draw := (scaleOut k x.1, x.2)

theorem electAll_scale (k : Rat) (hk : 0 < k) (a : Alloc) (prev maxS : Seats) (ds : List Draw) :
    electAll (scaleAlloc k a) prev maxS ds = (electAll a prev maxS ds).map (scaleOD k) := by
  unfold electAll
  rw [availSeats_scale k hk]
  dsimp only
  split <;> rfl

theorem afterElimination_scale (k : Rat) (hk : 0 < k) (a : Alloc) (step : Option Int) (ds : List Draw) :
    afterElimination gregory (scaleAlloc k a) step ds = (afterElimination gregory a step ds).map (scaleOD k) := by
  unfold afterElimination
  simp only [totalsInPlay_scale, selectRetained_scale k hk]
  cases selectRetained step (totalsInPlay a) with
  | error e => rfl
  | ok retained =>
    have hkeys : (scaleVotes k (totalsInPlay a)).map (·.1) = (totalsInPlay a).map (·.1) := by
      unfold scaleVotes; simp [List.map_map, Function.comp_def]
    simp only [hkeys, transferIf_scale]
    cases transferIf gregory a (((totalsInPlay a).map (·.1)).filter (fun c => decide (c ∉ retained))) ds with
    | error e => rfl
    | ok r => rfl

theorem afterElection_scale (k : Rat) (hk : 0 < k) (a : Alloc) (elected : Seats) (qv : Rat) (prev maxS : Seats)
    (ds : List Draw) :
    afterElection gregory (scaleAlloc k a) elected (k * qv) prev maxS ds
      = (afterElection gregory a elected qv prev maxS ds).map (scaleOD k) := by
  unfold afterElection
  have hel : elected.map (fun ck => (ck.1, (ck.2 : Rat) * (k * qv)))
      = (elected.map (fun ck => (ck.1, (ck.2 : Rat) * qv))).map (fun cn => (cn.1, k * cn.2)) := by
    rw [List.map_map]
    apply List.map_congr_left
    intro ck _
    simp only [Function.comp, mul_left_comm]
  rw [hel, subtract_scale k hk]
  cases subtract gregory (elected.map (fun ck => (ck.1, (ck.2 : Rat) * qv))) a ds with
  | error e => rfl
  | ok r =>
    obtain ⟨a1, ds1⟩ := r
    simp only [Except.map, scaleAD, transferIf_scale]
    cases transferIf gregory a1 (fullyElected elected prev maxS) ds1 with
    | error e => rfl
    | ok r2 => rfl

theorem countProper_scale (k : Rat) (hk : 0 < k) (cfg : Cfg) (hq : HomogeneousCfg cfg) (a : Alloc) (n : Nat)
    (total : Rat) (prev maxS : Seats) (ds : List Draw) :
    countProper gregory cfg (scaleAlloc k a) n (k * total) prev maxS ds
      = (countProper gregory cfg a n total prev maxS ds).map (scaleOD k) := by
  unfold countProper
  rw [computeQuota_scale cfg hq k hk]
  cases computeQuota cfg total n with
  | none => exact afterElimination_scale k hk a cfg.step ds
  | some qv =>
    simp only [Option.map]
    have hle : (k * qv ≤ 0) ↔ (qv ≤ 0) := by
      constructor
      · intro h; by_contra hn; exact absurd h (not_le.mpr (mul_pos hk (not_le.mp hn)))
      · intro h; exact mul_nonpos_of_nonneg_of_nonpos (le_of_lt hk) h
    by_cases hqv : qv ≤ 0
    · rw [if_pos (hle.mpr hqv), if_pos hqv]; rfl
    · rw [if_neg (fun h => hqv (hle.mp h)), if_neg hqv, totalsInPlay_scale, electByQuota_scale k hk]
      cases electByQuota cfg.acceptEqual qv (n - sumSeats prev) prev maxS (totalsInPlay a) with
      | error e => rfl
      | ok elected =>
        simp only
        split
        · exact afterElimination_scale k hk a cfg.step ds
        · exact afterElection_scale k hk a elected qv prev maxS ds

theorem nextCount_scale (k : Rat) (hk : 0 < k) (cfg : Cfg) (hq : HomogeneousCfg cfg) (a : Alloc) (n : Nat)
    (total : Rat) (prev maxS : Seats) (ds : List Draw) :
    nextCount gregory cfg (scaleAlloc k a) n (k * total) prev maxS ds
      = (nextCount gregory cfg a n total prev maxS ds).map (scaleOD k) := by
  unfold nextCount
  rw [shortcutCond_scale k hk]
  split
  · rfl
  · split
    · exact electAll_scale k hk a prev maxS ds
    · exact countProper_scale k hk cfg hq a n total prev maxS ds

/-! ### the loop -/

def scaleSt (k : Rat) (st : St) : St := { st with alloc := scaleAlloc k st.alloc, shown := scaleAlloc k st.shown }
def scaleInput (k : Rat) (inp : Input) : Input := { inp with votes := scaleProf k inp.votes }

theorem noProgress_scale (k : Rat) (st : St) (out : CountOut) :
    noProgress (scaleSt k st) (scaleOut k out) = noProgress st out := by
  unfold noProgress scaleSt scaleOut
  simp only [scaleAlloc_eq_nil]

theorem countStep_scale (k : Rat) (hk : 0 < k) (cfg : Cfg) (hq : HomogeneousCfg cfg) (inp : Input) (st : St) :
    countStep gregory cfg (scaleInput k inp) (scaleSt k st) = (countStep gregory cfg inp st).map (Option.map (scaleSt k)) := by
  unfold countStep
  have h1 : (scaleSt k st).seats = st.seats := rfl
  have h2 : (scaleInput k inp).nSeats = inp.nSeats := rfl
  have h3 : (scaleInput k inp).maxS = inp.maxS := rfl
  have h4 : (scaleSt k st).draws = st.draws := rfl
  have h5 : (scaleSt k st).alloc = scaleAlloc k st.alloc := rfl
  have h6 : (scaleInput k inp).votes = scaleProf k inp.votes := rfl
  simp only [h1, h2, h3, h4, h5, h6, totalVotes_scaleP]
  split
  · rfl
  · rw [nextCount_scale k hk cfg hq]
    cases nextCount gregory cfg st.alloc inp.nSeats (totalVotes inp.votes) st.seats inp.maxS st.draws with
    | error e => rfl
    | ok r =>
      obtain ⟨out, ds'⟩ := r
      simp only [Except.map, scaleOD, noProgress_scale]
      by_cases hnp : noProgress st out = true
      · simp only [hnp, if_true]
      · simp only [hnp]; rfl

theorem runCounts_scale (k : Rat) (hk : 0 < k) (cfg : Cfg) (hq : HomogeneousCfg cfg) (inp : Input) : ∀ (f : Nat) (st : St),
    runCounts gregory cfg (scaleInput k inp) f (scaleSt k st) = (runCounts gregory cfg inp f st).map (scaleSt k) := by
  intro f
  induction f with
  | zero => intro st; rfl
  | succ f ih =>
    intro st
    simp only [runCounts, countStep_scale k hk cfg hq]
    cases countStep gregory cfg inp st with
    | error e => rfl
    | ok o =>
      cases o with
      | none => rfl
      | some st' => exact ih st'

theorem initState_scale (k : Rat) (inp : Input) (ds : List Draw) :
    initState gregory (scaleInput k inp) ds = (initState gregory inp ds).map (scaleSt k) := by
  unfold initState
  have h6 : (scaleInput k inp).votes = scaleProf k inp.votes := rfl
  rw [h6, initialAllocation_scale]
  cases initialAllocation gregory inp.votes ds with
  | error e => rfl
  | ok r => rfl

theorem evalFuel_scale (k : Rat) (inp : Input) : evalFuel (scaleInput k inp) = evalFuel inp := by
  unfold evalFuel
  have h6 : (scaleInput k inp).votes = scaleProf k inp.votes := rfl
  rw [h6, allRanked_scale]; rfl

/-- **TransferableVoteDistributor with the Gregory transferer and a homogeneous quota** (any prev_gains / max_seats) -/
theorem distributorEvaluate_scale (k : Rat) (hk : 0 < k) (cfg : Cfg) (hq : HomogeneousCfg cfg) (inp : Input) (ds : List Draw) :
    distributorEvaluate gregory cfg (scaleInput k inp) ds = distributorEvaluate gregory cfg inp ds := by
  unfold distributorEvaluate
  rw [initState_scale, evalFuel_scale]
  cases initState gregory inp ds with
  | error e => rfl
  | ok st0 =>
    show (runCounts gregory cfg (scaleInput k inp) (evalFuel inp) (scaleSt k st0)).bind _ = (runCounts gregory cfg inp (evalFuel inp) st0).bind _
    rw [runCounts_scale k hk cfg hq]
    cases runCounts gregory cfg inp (evalFuel inp) st0 with
    | error e => rfl
    | ok st => rfl

theorem selectorInput_scale (k : Rat) (votes : Profile) (n : Nat) :
    selectorInput (scaleProf k votes) n = scaleInput k (selectorInput votes n) := by
  unfold selectorInput scaleInput
  rw [allRanked_scale]

/-- **TransferableVoteSelector(transferer='Gregory', quota_function='hare')** -/
theorem selectorEvaluate_scale (k : Rat) (hk : 0 < k) (cfg : Cfg) (hq : HomogeneousCfg cfg) (votes : Profile) (n : Nat)
    (ds : List Draw) :
    selectorEvaluate gregory cfg (scaleProf k votes) n ds = selectorEvaluate gregory cfg votes n ds := by
  unfold selectorEvaluate
  rw [selectorInput_scale, distributorEvaluate_scale k hk cfg hq]

end VL.Scale
