/-
  C17 helper lemmas: Schulze under `Raised`.
  `VotelibProofs/Lemmas/WidestPaths.lean` (C05) proves that `widestPaths v` holds, for two distinct candidates, the
  maximum over all chains of the minimal win weight (`widestPaths_maxmin`).  Strongest chains out of `w` can be cut at
  the last visit of `w`, strongest chains into `w` at the first arrival at `w`; the remaining chains use no edge whose
  win weight moved against `w`.
-/
import VotelibProofs.Lemmas.WidestPaths
import VotelibProofs.Lemmas.Schulze
import VotelibProofs.Lemmas.MonoCopeland
namespace VL.Mono
open VL VL.Condorcet VL.Convert

/-! ### win weights under `Raised` -/

theorem winWeight_from_w {v v' : Pairwise} (hwf : WF v) (hwf' : WF v') {w : Cand} (h : Raised v v' w) (y : Cand) :
    winWeight v (w, y) ≤ winWeight v' (w, y) := by
  rw [winWeight_eq hwf, winWeight_eq hwf']
  have h1 := h.up y
  have h2 := h.down y
  have h3 := pget_nonneg hwf' (w, y)
  split <;> split <;> linarith

theorem winWeight_to_w {v v' : Pairwise} (hwf : WF v) (hwf' : WF v') {w : Cand} (h : Raised v v' w) (x : Cand) :
    winWeight v' (x, w) ≤ winWeight v (x, w) := by
  rw [winWeight_eq hwf, winWeight_eq hwf']
  have h1 := h.up x
  have h2 := h.down x
  have h3 := pget_nonneg hwf (x, w)
  split <;> split <;> linarith

theorem winWeight_same {v v' : Pairwise} (hwf : WF v) (hwf' : WF v') {w : Cand} (h : Raised v v' w) {x y : Cand}
    (hx : x ≠ w) (hy : y ≠ w) : winWeight v' (x, y) = winWeight v (x, y) := by
  rw [winWeight_eq hwf, winWeight_eq hwf', h.same x y hx hy, h.same y x hy hx]

/-! ### chains -/

/-- a chain ending outside `w`: cut at the last visit of `w`, it is at least as strong in the raised matrix -/
theorem chain_from_w {v v' : Pairwise} (hwf : WF v) (hwf' : WF v') {w : Cand} (h : Raised v v' w)
    {x y : Cand} {s : Rat} (hp : PathStr (winWeight v) x y s) (hy : y ≠ w) :
    (∃ t, s ≤ t ∧ PathStr (winWeight v') w y t) ∨ (x ≠ w ∧ ∃ t, s ≤ t ∧ PathStr (winWeight v') x y t) := by
  induction hp with
  | single x y =>
    by_cases hx : x = w
    · subst hx
      exact Or.inl ⟨_, winWeight_from_w hwf hwf' h y, PathStr.single _ _⟩
    · exact Or.inr ⟨hx, _, le_of_eq (winWeight_same hwf hwf' h hx hy).symm, PathStr.single _ _⟩
  | cons x m y s' _ ih =>
    rcases ih hy with ⟨t, ht, hpt⟩ | ⟨hm, t, ht, hpt⟩
    · exact Or.inl ⟨t, le_trans (min_le_right _ _) ht, hpt⟩
    · by_cases hx : x = w
      · subst hx
        exact Or.inl ⟨_, min_le_min (winWeight_from_w hwf hwf' h m) ht, PathStr.cons _ m y t hpt⟩
      · refine Or.inr ⟨hx, _, ?_, PathStr.cons x m y t hpt⟩
        rw [winWeight_same hwf hwf' h hx hm]
        exact min_le_min (le_refl _) ht

/-- a chain of the raised matrix into `w` from elsewhere: cut at the first arrival at `w`, it is at least as strong
    in the base matrix -/
theorem chain_to_w {v v' : Pairwise} (hwf : WF v) (hwf' : WF v') {w : Cand} (h : Raised v v' w)
    {x z : Cand} {s : Rat} (hp : PathStr (winWeight v') x z s) (hz : z = w) (hx : x ≠ w) :
    ∃ t, s ≤ t ∧ PathStr (winWeight v) x w t := by
  induction hp with
  | single x z =>
    subst hz
    exact ⟨_, winWeight_to_w hwf hwf' h x, PathStr.single _ _⟩
  | cons x m z s' _ ih =>
    by_cases hm : m = w
    · subst hm
      exact ⟨_, le_trans (min_le_left _ _) (winWeight_to_w hwf hwf' h x), PathStr.single _ _⟩
    · obtain ⟨t, ht, hpt⟩ := ih hz hm
      refine ⟨_, ?_, PathStr.cons x m w t hpt⟩
      rw [← winWeight_same hwf hwf' h hx hm]
      exact min_le_min (le_refl _) ht

/-- strongest paths out of `w` do not weaken, strongest paths into `w` do not strengthen -/
theorem widest_raised {v v' : Pairwise} (hwf : WF v) (hwf' : WF v') {w : Cand} (h : Raised v v' w)
    (hc : ∀ c, c ∈ candidates v' ↔ c ∈ candidates v) (hw : w ∈ candidates v) {y : Cand} (hy : y ∈ candidates v) (hyw : y ≠ w) :
    pget (widestPaths v) (w, y) ≤ pget (widestPaths v') (w, y) ∧
    pget (widestPaths v') (y, w) ≤ pget (widestPaths v) (y, w) := by
  constructor
  · obtain ⟨hatt, _⟩ := widestPaths_maxmin hwf hy (Ne.symm hyw)
    obtain ⟨_, hmax'⟩ := widestPaths_maxmin hwf' ((hc y).mpr hy) (Ne.symm hyw)
    rcases chain_from_w hwf hwf' h hatt hyw with ⟨t, ht, hpt⟩ | ⟨hne, _⟩
    · exact le_trans ht (hmax' t hpt)
    · exact absurd rfl hne
  · obtain ⟨hatt', _⟩ := widestPaths_maxmin hwf' ((hc w).mpr hw) hyw
    obtain ⟨_, hmax⟩ := widestPaths_maxmin hwf hw hyw
    obtain ⟨t, ht, hpt⟩ := chain_to_w hwf hwf' h hatt' rfl hyw
    exact le_trans ht (hmax t hpt)

/-! ### the Schulze result when `w` beats everybody on strongest paths -/

theorem nodup_pkeys_widestPaths {v : Pairwise} (hwf : WF v) : (pkeys (widestPaths v)).Nodup := by
  apply widestPaths_preserves v (fun p => (pkeys p).Nodup)
  · exact hwf.1.sublist (List.Sublist.map _ List.filter_sublist)
  · intro p c1 c2 ca _ _ _ _ _ hp
    exact nodup_pkeys_pset hp _ _

/-- `w` wins the strongest-path comparison against every other candidate -/
def BeatsAll (v : Pairwise) (w : Cand) : Prop :=
  w ∈ candidates v ∧ ∀ x ∈ candidates v, x ≠ w → pget (widestPaths v) (x, w) < pget (widestPaths v) (w, x)

instance (v : Pairwise) (w : Cand) : Decidable (BeatsAll v w) := by unfold BeatsAll; infer_instance

theorem widest_nonneg {v : Pairwise} (hwf : WF v) {a b : Cand} (hb : b ∈ candidates v) (hab : a ≠ b) :
    0 ≤ pget (widestPaths v) (a, b) :=
  le_trans (winWeight_nonneg hwf (a, b)) ((widestPaths_maxmin hwf hb hab).2 _ (PathStr.single a b))

/-- a candidate who beats everybody on strongest paths is the sole Schulze winner -/
theorem schulze_of_beatsAll {v : Pairwise} (hwf : WF v) {w : Cand} (hb : BeatsAll v w) : schulze v 1 = [Slot.cand w] := by
  obtain ⟨hwc, hbeat⟩ := hb
  have hnd := nodup_pkeys_widestPaths hwf
  have hkin := widestPaths_keys_in v
  have hwnd := nodup_pairwiseWins_of_nodup hnd false
  have hwin : ∀ x ∈ candidates v, x ≠ w → (w, x) ∈ pairwiseWins (widestPaths v) false := by
    intro x hx hne
    rw [mem_pairwiseWins_of_nodup hnd]
    have hlt := hbeat x hx hne
    have hpos : 0 < pget (widestPaths v) (w, x) := lt_of_le_of_lt (widest_nonneg hwf hwc hne) hlt
    exact ⟨List.mem_map.2 ⟨_, pget_pos_mem hpos, rfl⟩, hlt⟩
  have hnowin : ∀ x, (x, w) ∉ pairwiseWins (widestPaths v) false := by
    intro x hx
    rw [mem_pairwiseWins_of_nodup hnd] at hx
    obtain ⟨hk, hlt⟩ := hx
    have hxc := (hkin _ hk).1
    by_cases hxw : x = w
    · subst hxw; exact lt_irrefl _ hlt
    · have := hbeat x hxc hxw
      linarith
  have hself : ∀ x, (x, x) ∉ pairwiseWins (widestPaths v) false := by
    intro x hx
    rw [mem_pairwiseWins_of_nodup hnd] at hx
    exact lt_irrefl _ hx.2
  unfold schulze
  simp only
  set scores := (pairwiseWins (widestPaths v) false).foldl (fun d w => incr (incr d w.1 1) w.2 0)
    ((candidates v).map (fun c => (c, (0 : Rat)))) with hscores
  have hkeys : keys scores = candidates v := keys_schulzeScores v
  have hknd : (keys scores).Nodup := by rw [hkeys]; exact nodup_candidates v
  have hval : ∀ c, getD scores c 0 = (winsBy (pairwiseWins (widestPaths v) false) c : Rat) := by
    intro c
    rw [hscores, getD_schulzeFold, getD_zeroDict]; ring
  have hm1 : ((candidates v).filter (fun x => decide (x ≠ w))).length + 1 = (candidates v).length :=
    (filter_length_eq_pred (nodup_candidates v) hwc (fun x => decide (x ≠ w)) (by simp)).2
      (fun o _ hne => by simpa using hne)
  have hww : (candidates v).length ≤ winsBy (pairwiseWins (widestPaths v) false) w + 1 := by
    have := winsBy_ge_filter (wins := pairwiseWins (widestPaths v) false) (nodup_candidates v) w
      (fun x => decide (x ≠ w)) (fun x hx hq => hwin x hx (by simpa using hq))
    omega
  obtain ⟨ew, hew, hew1⟩ : ∃ e ∈ scores, e.1 = w := by
    have : w ∈ keys scores := by rw [hkeys]; exact hwc
    obtain ⟨e, he, h⟩ := List.mem_map.1 this
    exact ⟨e, he, h⟩
  refine getNBest_one_of_unique_max (x := getD scores w 0) hknd ?_ ?_
  · have := mem_getD_of_key hknd hew
    rw [hew1] at this
    rw [← this, ← hew1]
    exact hew
  · intro p hp hne
    rw [mem_getD_of_key hknd hp, hval, hval]
    have hpc : p.1 ∈ candidates v := by rw [← hkeys]; exact List.mem_map.2 ⟨p, hp, rfl⟩
    have hle : winsBy (pairwiseWins (widestPaths v) false) p.1 ≤
        ((candidates v).filter (fun x => decide (x ≠ p.1) && decide (x ≠ w))).length := by
      apply winsBy_le_filter hwnd
      intro x hx
      refine ⟨(hkin _ (mem_pairwiseWins_key hx)).2, ?_⟩
      simp only [Bool.and_eq_true, decide_eq_true_eq]
      constructor
      · rintro rfl; exact hself _ hx
      · rintro rfl; exact hnowin _ hx
    have h2 := filter_length_le_of_two (nodup_candidates v) hpc hwc hne
      (fun x => decide (x ≠ p.1) && decide (x ≠ w)) (by simp) (by simp)
    have : winsBy (pairwiseWins (widestPaths v) false) p.1 + 1 ≤ winsBy (pairwiseWins (widestPaths v) false) w := by
      omega
    exact_mod_cast Nat.lt_of_succ_le this

/-- beating everybody on strongest paths survives a `Raised` change of the matrix -/
theorem beatsAll_raised {v v' : Pairwise} (hwf : WF v) (hwf' : WF v') {w : Cand} (h : Raised v v' w)
    (hc : ∀ c, c ∈ candidates v' ↔ c ∈ candidates v) (hb : BeatsAll v w) : BeatsAll v' w := by
  refine ⟨(hc w).mpr hb.1, fun x hx hxw => ?_⟩
  have hxv := (hc x).mp hx
  obtain ⟨h1, h2⟩ := widest_raised hwf hwf' h hc hb.1 hxv hxw
  have := hb.2 x hxv hxw
  linarith

end VL.Mono
