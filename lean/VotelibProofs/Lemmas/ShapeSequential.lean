/-
  C08 — result shape and refusals of the multi-seat models of `Baldwin` and `PreferenceAddition`
  (VotelibModel/ShapeSequential.lean, namespace VL.ShapeSeq; driver VotelibDriver/C08Seq.lean, ops `baldwin`,
  `preference_addition`).
-/
import VotelibProofs.Lemmas.ShapeDefs
import VotelibProofs.Lemmas.ShapeConvert
import VotelibProofs.Lemmas.ConvertMisc
import VotelibModel.ShapeSequential
import Mathlib.Data.List.Perm.Subperm
namespace VL.C08
open VL VL.Convert VL.ShapeSeq

/-! ### `get_n_best(votes, 1)[0]` -/

/-- the single place of `get_n_best(votes, 1)` over a non-empty dict: a key, or a Tie of at least two distinct keys -/
theorem getNBest_one_cases (votes : Votes) (hnd : (keys votes).Nodup) (hne : votes ≠ []) :
    (∃ c, getNBest votes 1 = [Slot.cand c] ∧ c ∈ keys votes) ∨
    (∃ T, getNBest votes 1 = [Slot.tie T] ∧ T.Nodup ∧ (∀ c ∈ T, c ∈ keys votes) ∧ 2 ≤ T.length) := by
  have hperm := sortDesc_perm votes
  have hks : ((sortDesc votes).map (·.1)).Nodup := (hperm.map _).nodup_iff.mpr hnd
  have hmem : ∀ e ∈ sortDesc votes, e.1 ∈ keys votes := fun e he =>
    List.mem_map.mpr ⟨e, mem_sortDesc.mp he, rfl⟩
  unfold getNBest
  simp only
  generalize hs : sortDesc votes = s at hks hmem
  match s, hs with
  | [], hs =>
    have := congrArg List.length hs
    rw [sortDesc_length] at this
    exact absurd (List.length_eq_zero_iff.mp this) hne
  | [a], _ =>
    left
    exact ⟨a.1, by simp, hmem a (by simp)⟩
  | a :: b :: t, _ =>
    by_cases hab : b.2 = a.2
    · right
      refine ⟨((a :: b :: t).filter (fun p => p.2 = a.2)).map (·.1), ?_, ?_, ?_, ?_⟩
      · simp [hab]
      · exact List.Nodup.sublist (List.Sublist.map _ List.filter_sublist) hks
      · intro c hc
        obtain ⟨e, he, rfl⟩ := List.mem_map.mp hc
        exact hmem e (List.mem_filter.mp he).1
      · simp [hab]
    · left
      exact ⟨a.1, by simp [hab], hmem a (by simp)⟩

/-! ### Baldwin: `RANKED_SUBSETTER.convert` and `_compute_negative_scores` -/

theorem mem_rankedSubset {p : RProfile} {S : List Cand} {bw : Ballot × Rat} (h : bw ∈ rankedSubset p S) :
    ∃ bw0 ∈ p, bw.1 = subsetRankedOne S bw0.1 := by
  have hk : bw.1 ∈ dkeys (accumOne (subsetRanked S) p) := List.mem_map.mpr ⟨bw, h, rfl⟩
  obtain ⟨bw0, hbw0, he⟩ := (mem_dkeys_accumOne (subsetRanked S) p bw.1).mp hk
  refine ⟨bw0, hbw0, ?_⟩
  simp only [subsetRanked, Option.some.injEq] at he
  exact he.symm

/-- subsetting keeps ballots well-formed -/
theorem rankedWF_rankedSubset {p : RProfile} (h : RankedWF p) (S : List Cand) : RankedWF (rankedSubset p S) := by
  intro bw hbw
  obtain ⟨bw0, hbw0, he⟩ := mem_rankedSubset hbw
  rw [he]
  refine ⟨?_, subsetRankedOne_items S bw0.1⟩
  rw [ballotCands_subsetRankedOne]
  exact (h bw0 hbw0).1.filter _

/-- the candidates left after subsetting: those of the subset -/
theorem mem_cands_rankedSubset (p : RProfile) (S : List Cand) (c : Cand) :
    c ∈ allRankedCandidates (rankedSubset p S) ↔ c ∈ allRankedCandidates p ∧ c ∈ S := by
  rw [mem_allRankedCandidates, mem_allRankedCandidates]
  constructor
  · rintro ⟨bw, hbw, hc⟩
    obtain ⟨bw0, hbw0, he⟩ := mem_rankedSubset hbw
    rw [he, ballotCands_subsetRankedOne, List.mem_filter] at hc
    exact ⟨⟨bw0, hbw0, hc.1⟩, by simpa using hc.2⟩
  · rintro ⟨⟨bw0, hbw0, hc⟩, hS⟩
    have hk : subsetRankedOne S bw0.1 ∈ dkeys (accumOne (subsetRanked S) p) :=
      (mem_dkeys_accumOne (subsetRanked S) p _).mpr ⟨bw0, hbw0, rfl⟩
    obtain ⟨bw, hbw, he⟩ := List.mem_map.mp hk
    refine ⟨bw, hbw, ?_⟩
    rw [he, ballotCands_subsetRankedOne, List.mem_filter]
    exact ⟨hc, by simpa using hS⟩

/-- on a well-formed profile the negative Borda scores exist and their keys are the candidates, each once -/
theorem negScores_ok {p : RProfile} (h : RankedWF p) :
    ∃ neg, negScores p = .ok neg ∧ (keys neg).Nodup ∧ ∀ k, k ∈ keys neg ↔ k ∈ allRankedCandidates p := by
  obtain ⟨d, hd, hmem, hnd, _⟩ := C13.positional_sum (.borda 0) _ p (C13.covers_allRankedCandidates p)
    (scorerOK_of_wf (.borda 0) (by decide) p h)
  have hk : keys (d.map (fun e => (e.1, -e.2))) = dkeys d := by
    simp [keys, dkeys, List.map_map, Function.comp_def]
  refine ⟨d.map (fun e => (e.1, -e.2)), ?_, ?_, ?_⟩
  · unfold negScores rankedToPositional
    rw [hd]
  · rw [hk]; exact hnd (nodup_allRankedCandidates p)
  · intro k; rw [hk]; exact hmem k

/-- the loop invariant of `Baldwin.evaluate`: the current ballots are well-formed and `neg_scores` is a dict over
    exactly their candidates -/
structure BaldwinInv (cur : RProfile) (neg : Votes) : Prop where
  wf : RankedWF cur
  nodup : (keys neg).Nodup
  mem : ∀ k, k ∈ keys neg ↔ k ∈ allRankedCandidates cur

/-- one elimination (L771-773 / L750, L772-773): the new score dict is keyed by exactly the remaining candidates -/
theorem baldwin_step {cur : RProfile} {neg : Votes} (hI : BaldwinInv cur neg) (q : Cand → Bool) :
    ∃ neg', negScores (rankedSubset cur ((keys neg).filter q)) = .ok neg' ∧
      BaldwinInv (rankedSubset cur ((keys neg).filter q)) neg' ∧ (keys neg').Perm ((keys neg).filter q) := by
  have hwf' := rankedWF_rankedSubset hI.wf ((keys neg).filter q)
  obtain ⟨neg', h1, h2, h3⟩ := negScores_ok hwf'
  refine ⟨neg', h1, ⟨hwf', h2, h3⟩, ?_⟩
  rw [List.perm_ext_iff_of_nodup h2 (hI.nodup.filter _)]
  intro k
  rw [h3, mem_cands_rankedSubset]
  constructor
  · exact fun h => h.2
  · intro h
    exact ⟨(hI.mem k).mp (List.mem_filter.mp h).1, h⟩

theorem keys_length (v : Votes) : (keys v).length = v.length := by simp [keys]

/-- how many keys survive the removal of a duplicate-free sublist of them -/
theorem length_filter_not_mem {l T : List Cand} (hl : l.Nodup) (hT : T.Nodup) (hsub : ∀ c ∈ T, c ∈ l) :
    (l.filter (fun c => decide (c ∉ T))).length = l.length - T.length := by
  have hperm : (l.filter (fun c => decide (c ∈ T))).Perm T := by
    rw [List.perm_ext_iff_of_nodup (hl.filter _) hT]
    intro c
    simp only [List.mem_filter, decide_eq_true_eq]
    exact ⟨fun h => h.2, fun h => ⟨hsub c h, h⟩⟩
  have hsplit := List.length_eq_length_filter_add (l := l) (fun c => decide (c ∈ T))
  have hnot : (l.filter (fun c => decide (c ∉ T))) = l.filter (fun c => !decide (c ∈ T)) := by
    congr 1; funext c; simp
  rw [hnot]
  have := hperm.length_eq
  omega

/-- the result of the tied-losers return (L759-764): everybody left, then the Tie once per missing seat -/
theorem baldwin_tie_result_shape {cands : List Cand} {n nRem nTies : Nat} {rs : Votes} {T rem : List Cand}
    (hrs : (keys rs).Nodup) (hperm : (keys rs).Perm rem) (hrem : ∀ c ∈ rem, c ∈ cands ∧ c ∉ T)
    (hT : ∀ c ∈ T, c ∈ cands) (hlen : rem.length = nRem) (hsum : nRem + nTies = n) (hbig : nTies < T.length) :
    SelShape cands n (getNBest rs nRem ++ List.replicate nTies (Slot.tie T)) := by
  have hl : rs.length = nRem := by rw [← keys_length, hperm.length_eq, hlen]
  rw [getNBest_all rs nRem (by omega)]
  have hform : (sortDesc rs).map (fun p => Slot.cand p.1) = ((sortDesc rs).map (·.1)).map Slot.cand := by
    rw [List.map_map]; rfl
  have hsk : ∀ c, c ∈ (sortDesc rs).map (·.1) ↔ c ∈ rem := by
    intro c
    rw [((sortDesc_perm rs).map _).mem_iff]
    exact hperm.mem_iff
  have hcand : ∀ c, Slot.cand c ∈ (sortDesc rs).map (fun p => Slot.cand p.1) ++ List.replicate nTies (Slot.tie T) →
      c ∈ rem := by
    intro c hc
    rcases List.mem_append.mp hc with h | h
    · rw [hform] at h
      obtain ⟨d, hd, he⟩ := List.mem_map.mp h
      injection he with he; subst he
      exact (hsk d).mp hd
    · have := (List.mem_replicate.mp h).2; cases this
  have htie : ∀ T', Slot.tie T' ∈ (sortDesc rs).map (fun p => Slot.cand p.1) ++ List.replicate nTies (Slot.tie T) →
      T' = T := by
    intro T' hT'
    rcases List.mem_append.mp hT' with h | h
    · obtain ⟨d, _, he⟩ := List.mem_map.mp h; cases he
    · have := (List.mem_replicate.mp h).2; injection this
  refine ⟨?_, ?_, ?_, ?_, ?_, ?_⟩
  · rw [List.length_append, List.length_map, sortDesc_length, List.length_replicate]; omega
  · intro c hc; exact (hrem c (hcand c hc)).1
  · intro T' hT' c hc; rw [htie T' hT'] at hc; exact hT c hc
  · rw [electedOf_append, electedOf_replicate_tie, List.append_nil, hform, electedOf_map_cand]
    exact ((sortDesc_perm rs).map _).nodup_iff.mpr hrs
  · intro T' hT'
    rw [htie T' hT', List.count_append, List.count_replicate_self]
    have hz : List.count (Slot.tie T) ((sortDesc rs).map (fun p => Slot.cand p.1)) = 0 := by
      rw [List.count_eq_zero]
      intro hmem
      obtain ⟨d, _, he⟩ := List.mem_map.mp hmem; cases he
    rw [hz]; omega
  · intro T' hT' c hc hcand'
    rw [htie T' hT'] at hc
    exact (hrem c (hcand c hcand')).2 hc

/-- **the loop of `Baldwin.evaluate`** answers, with the selection shape, and never uses up its fuel -/
theorem baldwinLoop_shape (cands : List Cand) (n : Nat) (h1 : 1 ≤ n) : ∀ (f : Nat) (cur : RProfile) (neg : Votes),
    BaldwinInv cur neg → (∀ c ∈ keys neg, c ∈ cands) → neg.length < f → n ≤ neg.length →
    ∃ r, baldwinLoop n f cur neg = .ok r ∧ SelShape cands n r := by
  intro f
  induction f with
  | zero => intro cur neg _ _ hf; omega
  | succ f ih =>
    intro cur neg hI hsub hf hn
    unfold baldwinLoop
    by_cases hgt : neg.length > n
    · rw [if_pos hgt]
      have hne : neg ≠ [] := by rintro rfl; simp at hgt
      rcases getNBest_one_cases neg hI.nodup hne with ⟨c, hc, hck⟩ | ⟨T, hT, hTnd, hTsub, hT2⟩
      · -- a single loser is eliminated
        rw [hc]
        simp only
        obtain ⟨neg', hneg', hI', hperm⟩ := baldwin_step hI (fun x => decide (x ≠ c))
        rw [hneg']
        simp only
        have hlen' : neg'.length = ((keys neg).filter (fun x => decide (x ≠ c))).length := by
          rw [← keys_length, hperm.length_eq]
        have hcnt : ((keys neg).filter (fun x => decide (x ≠ c))).length = neg.length - 1 := by
          have := length_filter_not_mem (l := keys neg) (T := [c]) hI.nodup (by simp) (by simpa using hck)
          rw [keys_length] at this
          simpa using this
        apply ih _ _ hI'
        · intro x hx
          exact hsub x (List.mem_filter.mp (hperm.mem_iff.mp hx)).1
        · omega
        · omega
      · rw [hT]
        simp only
        have hcnt := length_filter_not_mem hI.nodup hTnd hTsub
        rw [keys_length] at hcnt
        obtain ⟨neg', hneg', hI', hperm⟩ := baldwin_step hI (fun c => decide (c ∉ T))
        have hTle : T.length ≤ neg.length := by
          rw [← keys_length]
          exact (List.subperm_of_subset hTnd hTsub).length_le
        by_cases hrem : neg.length - T.length < n
        · -- too few would be left: everybody else is elected, the tied losers share the remaining seats
          rw [if_pos hrem, hneg']
          simp only
          refine ⟨_, rfl, ?_⟩
          have hnn : n - (n - (neg.length - T.length)) = neg.length - T.length := by omega
          rw [hnn]
          apply baldwin_tie_result_shape hI'.nodup hperm
          · intro c hc
            obtain ⟨hc1, hc2⟩ := List.mem_filter.mp hc
            exact ⟨hsub c hc1, by simpa using hc2⟩
          · intro c hc; exact hsub c (hTsub c hc)
          · exact hcnt
          · omega
          · omega
        · -- all tied losers are eliminated
          rw [if_neg hrem, hneg']
          simp only
          have hlen' : neg'.length = neg.length - T.length := by
            rw [← keys_length, hperm.length_eq, hcnt]
          apply ih _ _ hI'
          · intro x hx
            exact hsub x (List.mem_filter.mp (hperm.mem_iff.mp hx)).1
          · omega
          · omega
    · rw [if_neg hgt]
      refine ⟨_, rfl, ?_⟩
      have := getNBest_shape neg hI.nodup n h1 hn
      exact this.mono hsub

/-- **Baldwin fills exactly the seats asked for** (`baldwin p n`, driver op `baldwin`): on every well-formed ranked
    profile (no candidate twice on a ballot, no empty shared rank; shared ranks allowed) and every `1 ≤ n ≤ #candidates`
    the evaluator ANSWERS, and the answer has the selection shape over the candidates ranked on some ballot. -/
theorem baldwin_answers {p : RProfile} {n : Nat} (hwf : RankedWF p) (h1 : 1 ≤ n)
    (hn : n ≤ (allRankedCandidates p).length) :
    ∃ r, baldwin p n = .ok r ∧ SelShape (allRankedCandidates p) n r := by
  obtain ⟨neg, hneg, hnd, hmem⟩ := negScores_ok hwf
  have hlen : neg.length = (allRankedCandidates p).length := by
    rw [← keys_length]
    exact ((List.perm_ext_iff_of_nodup hnd (nodup_allRankedCandidates p)).mpr hmem).length_eq
  unfold baldwin
  rw [hneg]
  exact baldwinLoop_shape _ n h1 _ p neg ⟨hwf, hnd, hmem⟩ (fun c hc => (hmem c).mp hc) (by omega) (by omega)

theorem baldwin_shape {p : RProfile} {n : Nat} (hwf : RankedWF p) (h1 : 1 ≤ n)
    (hn : n ≤ (allRankedCandidates p).length) {r : List Slot} (h : baldwin p n = .ok r) :
    SelShape (allRankedCandidates p) n r := by
  obtain ⟨r', hr', hs⟩ := baldwin_answers hwf h1 hn
  rw [hr'] at h
  injection h with h
  exact h ▸ hs

/-- **Baldwin never refuses** inside the property's quantifier (FULL: there is no error outcome at all; in particular
    the converter's ValueError, the `IndexError` of `get_n_best(…)[0]` and the fuel guard are unreachable) -/
theorem baldwin_refusals {p : RProfile} {n : Nat} (hwf : RankedWF p) (h1 : 1 ≤ n)
    (hn : n ≤ (allRankedCandidates p).length) {e : Err} (h : baldwin p n = .error e) :
    e = .votingSystemError ∨ e = .notImplemented := by
  obtain ⟨r', hr', _⟩ := baldwin_answers hwf h1 hn
  rw [hr'] at h
  cases h

/-- non-vacuity: the two Borda losers tie for the second seat — the winner, then the Tie once -/
example : RankedWF [([.one 0, .one 1, .one 2], 1), ([.one 0, .one 2, .one 1], 1)] ∧
    1 ≤ 2 ∧ 2 ≤ (allRankedCandidates [([.one 0, .one 1, .one 2], (1 : Rat)), ([.one 0, .one 2, .one 1], 1)]).length ∧
    baldwin [([.one 0, .one 1, .one 2], 1), ([.one 0, .one 2, .one 1], 1)] 2 =
      .ok [Slot.cand 0, Slot.tie [1, 2]] := by
  refine ⟨by unfold RankedWF; decide, by decide, by decide +kernel, by decide +kernel⟩

/-! ### PreferenceAddition: the pieces -/

theorem mem_electedOf_seq (c : Cand) (r : List Slot) : c ∈ electedOf r ↔ Slot.cand c ∈ r := by
  induction r with
  | nil => simp [electedOf]
  | cons x xs ih =>
    cases x with
    | cand d => simp [electedOf, ih]
    | tie T => simp [electedOf, ih]

/-- distinct candidates of `cands`, one per place -/
theorem selShape_of_cands {cands l : List Cand} (hnd : l.Nodup) (hsub : ∀ c ∈ l, c ∈ cands) :
    SelShape cands l.length (l.map Slot.cand) := by
  refine ⟨by simp, ?_, ?_, ?_, ?_, ?_⟩
  · intro c hc
    obtain ⟨d, hd, he⟩ := List.mem_map.mp hc
    injection he with he; subst he; exact hsub d hd
  · intro T hT; obtain ⟨d, _, he⟩ := List.mem_map.mp hT; cases he
  · rw [electedOf_map_cand]; exact hnd
  · intro T hT; obtain ⟨d, _, he⟩ := List.mem_map.mp hT; cases he
  · intro T hT; obtain ⟨d, _, he⟩ := List.mem_map.mp hT; cases he

/-- candidates elected in earlier rounds, followed by a selection among other candidates -/
theorem selShape_prepend {cands K l : List Cand} {k : Nat} {best : List Slot} (hl : l.Nodup)
    (hlsub : ∀ c ∈ l, c ∈ cands) (hK : ∀ c ∈ K, c ∈ cands ∧ c ∉ l) (hb : SelShape K k best) :
    SelShape cands (l.length + k) (l.map Slot.cand ++ best) := by
  have hcandl : ∀ c, Slot.cand c ∈ l.map Slot.cand → c ∈ l := by
    intro c hc
    obtain ⟨d, hd, he⟩ := List.mem_map.mp hc
    injection he with he; subst he; exact hd
  have hnotie : ∀ T, Slot.tie T ∉ l.map Slot.cand := by
    intro T hT; obtain ⟨d, _, he⟩ := List.mem_map.mp hT; cases he
  refine ⟨?_, ?_, ?_, ?_, ?_, ?_⟩
  · rw [List.length_append, List.length_map, hb.length]
  · intro c hc
    rcases List.mem_append.mp hc with h | h
    · exact hlsub c (hcandl c h)
    · exact (hK c (hb.cand_ok c h)).1
  · intro T hT c hc
    rcases List.mem_append.mp hT with h | h
    · exact absurd h (hnotie T)
    · exact (hK c (hb.tie_ok T h c hc)).1
  · rw [electedOf_append, electedOf_map_cand, List.nodup_append]
    refine ⟨hl, hb.nodup, ?_⟩
    intro a ha b hb' hab
    subst hab
    exact (hK a (hb.cand_ok a ((mem_electedOf_seq a best).mp hb'))).2 ha
  · intro T hT
    rcases List.mem_append.mp hT with h | h
    · exact absurd h (hnotie T)
    · rw [List.count_append, List.count_eq_zero.mpr (hnotie T), Nat.zero_add]
      exact hb.tie_big T h
  · intro T hT c hc hcand
    rcases List.mem_append.mp hT with h | h
    · exact absurd h (hnotie T)
    · rcases List.mem_append.mp hcand with h' | h'
      · exact (hK c (hb.tie_ok T h c hc)).2 (hcandl c h')
      · exact hb.disjoint T h c hc h'

/-- the syntactic form of every `get_n_best` result: candidates, then one Tie object (of distinct candidates) repeated -/
theorem getNBest_form (votes : Votes) (hnd : (keys votes).Nodup) (n : Nat) :
    ∃ (L T : List Cand) (k : Nat), getNBest votes n = L.map Slot.cand ++ List.replicate k (Slot.tie T) ∧ T.Nodup := by
  have hks : ((sortDesc votes).map (·.1)).Nodup := ((sortDesc_perm votes).map _).nodup_iff.mpr hnd
  unfold getNBest
  simp only
  generalize sortDesc votes = s at hks
  have hmm : ∀ l : List (Cand × Rat), l.map (fun p => Slot.cand p.1) = (l.map (·.1)).map Slot.cand := by
    intro l; rw [List.map_map]; rfl
  split
  · split
    · split
      · rename_i a b _ _ _
        exact ⟨_, (s.filter (fun p => p.2 = a.2)).map (·.1), _, by rw [hmm],
          List.Nodup.sublist (List.Sublist.map _ List.filter_sublist) hks⟩
      · exact ⟨(s.take n).map (·.1), [], 0, by rw [hmm]; simp, List.nodup_nil⟩
    · exact ⟨[], [], 0, by simp, List.nodup_nil⟩
  · exact ⟨s.map (·.1), [], 0, by rw [hmm]; simp, List.nodup_nil⟩

theorem foldl_step_cands (step : Votes → Slot → Votes) (hc : ∀ np c, step np (Slot.cand c) = np) (L : List Cand)
    (acc : Votes) : (L.map Slot.cand).foldl step acc = acc := by
  induction L with
  | nil => rfl
  | cons c cs ih => simp only [List.map_cons, List.foldl_cons, hc]; exact ih

theorem foldl_step_ties (step : Votes → Slot → Votes) (T : List Cand)
    (ht : ∀ np, step np (Slot.tie T) = T.foldl (fun np c => addTo np c (1 / (T.length : Rat))) np) :
    ∀ (k : Nat) (acc : Votes), (dkeys acc).Nodup →
      (dkeys ((List.replicate k (Slot.tie T)).foldl step acc)).Nodup ∧
      ∀ x, toFun ((List.replicate k (Slot.tie T)).foldl step acc) x
        = toFun acc x + (k : Rat) * ((1 / (T.length : Rat)) * cnt T x) := by
  intro k
  induction k with
  | zero => intro acc hacc; exact ⟨hacc, fun x => by simp⟩
  | succ k ih =>
    intro acc hacc
    rw [List.replicate_succ, List.foldl_cons, ht]
    obtain ⟨h1, h2⟩ := ih _ (nodup_foldl_addTo_const T (1 / (T.length : Rat)) hacc)
    refine ⟨h1, fun x => ?_⟩
    rw [h2, toFun_foldl_addTo_const]
    push_cast
    ring

/-- `Tie.reconcile` leaves a list of candidates followed by ONE repeated Tie with fewer copies than members as it is -/
theorem reconcile_ok (L T : List Cand) (k : Nat) (hT : T.Nodup) (hk : k = 0 ∨ k < T.length) :
    reconcile (L.map Slot.cand ++ List.replicate k (Slot.tie T)) = .ok (L.map Slot.cand ++ List.replicate k (Slot.tie T)) := by
  have hTne : 0 < k → T ≠ [] := by
    intro hpos hnil
    subst hnil
    simp at hk
    omega
  unfold reconcile
  have h1 : (L.map Slot.cand ++ List.replicate k (Slot.tie T)).any (fun s => s == Slot.tie []) = false := by
    rw [List.any_eq_false]
    intro s hs
    rcases List.mem_append.mp hs with h | h
    · obtain ⟨d, _, rfl⟩ := List.mem_map.mp h; simp
    · obtain ⟨hk0, rfl⟩ := List.mem_replicate.mp h
      have := hTne (Nat.pos_of_ne_zero hk0)
      simpa using this
  rw [h1]
  simp only [Bool.false_eq_true, if_false]
  have hsmall : (nPlaces (L.map Slot.cand ++ List.replicate k (Slot.tie T))).any (fun e => decide (1 ≤ e.2)) = false := by
    rw [List.any_eq_false]
    intro e he
    unfold nPlaces at he
    rw [List.foldl_append, foldl_step_cands _ (fun _ _ => rfl)] at he
    obtain ⟨hn, hv⟩ := foldl_step_ties (fun np s => match s with
      | .tie T => T.foldl (fun np c => addTo np c (1 / (T.length : Rat))) np
      | .cand _ => np) T (fun _ => rfl) k [] (by simp [dkeys])
    have hval := toFun_eq_of_mem hn (k := e.1) (v := e.2) he
    rw [hv] at hval
    simp only [toFun, List.map_nil, List.sum_nil, zero_add] at hval
    simp only [decide_eq_true_eq, not_le]
    rw [← hval]
    rcases hk with hk | hk
    · subst hk; simp
    · have hpos : (0 : Rat) < (T.length : Rat) := by
        have : 0 < T.length := by omega
        exact_mod_cast this
      have hc1 := cnt_le_one hT e.1
      have hc0 := cnt_nonneg T e.1
      have hkt : (k : Rat) < (T.length : Rat) := by exact_mod_cast hk
      have hk0 : (0 : Rat) ≤ (k : Rat) := by positivity
      calc (k : Rat) * (1 / (T.length : Rat) * cnt T e.1)
          ≤ (k : Rat) * (1 / (T.length : Rat) * 1) := by
            apply mul_le_mul_of_nonneg_left _ hk0
            apply mul_le_mul_of_nonneg_left hc1
            positivity
        _ = (k : Rat) / (T.length : Rat) := by ring
        _ < 1 := (div_lt_one hpos).mpr hkt
  rw [hsmall]
  simp

/-! ### PreferenceAddition: the loop -/

/-- the loop invariant of `PreferenceAddition.evaluate` between two rounds: the elected so far are distinct candidates
    (no Tie yet), the running totals are a dict over candidates of the votes none of whom is elected -/
structure PAInv (votes : RProfile) (tot : Votes) (l : List Cand) : Prop where
  nodup_l : l.Nodup
  sub_l : ∀ c ∈ l, c ∈ allRankedCandidates votes
  nodup_t : (keys tot).Nodup
  sub_t : ∀ c ∈ keys tot, c ∈ allRankedCandidates votes ∧ c ∉ l

theorem mem_map_cand {c : Cand} {l : List Cand} : Slot.cand c ∈ l.map Slot.cand ↔ c ∈ l := by
  constructor
  · intro h
    obtain ⟨d, hd, he⟩ := List.mem_map.mp h
    injection he with he; subst he; exact hd
  · intro h; exact List.mem_map.mpr ⟨c, h, rfl⟩

/-- `_add_round_votes` keeps the totals a dict over unelected candidates of the votes -/
theorem addRound_inv (coef : Rat) (votes : RProfile) (i : Nat) (l : List Cand) (tot : Votes)
    (hnd : (keys tot).Nodup) (hsub : ∀ c ∈ keys tot, c ∈ allRankedCandidates votes ∧ c ∉ l) :
    (keys (addRound coef votes i (l.map Slot.cand) tot)).Nodup ∧
    ∀ c ∈ keys (addRound coef votes i (l.map Slot.cand) tot), c ∈ allRankedCandidates votes ∧ c ∉ l := by
  unfold addRound
  have key : ∀ (q : RProfile) (t : Votes), (∀ bw ∈ q, bw ∈ votes) →
      ((keys t).Nodup ∧ ∀ c ∈ keys t, c ∈ allRankedCandidates votes ∧ c ∉ l) →
      ((keys (q.foldl (fun t bw => match bw.1[i]? with
        | some it => it.cands.foldl (fun t c => if Slot.cand c ∈ l.map Slot.cand then t else addTo t c (bw.2 * coef)) t
        | none => t) t)).Nodup ∧
       ∀ c ∈ keys (q.foldl (fun t bw => match bw.1[i]? with
        | some it => it.cands.foldl (fun t c => if Slot.cand c ∈ l.map Slot.cand then t else addTo t c (bw.2 * coef)) t
        | none => t) t), c ∈ allRankedCandidates votes ∧ c ∉ l) := by
    intro q
    induction q with
    | nil => intro t _ ht; exact ht
    | cons bw rest ih =>
      intro t hq ht
      rw [List.foldl_cons]
      apply ih _ (fun x hx => hq x (List.mem_cons_of_mem _ hx))
      have hbw : bw ∈ votes := hq bw List.mem_cons_self
      cases hget : bw.1[i]? with
      | none => exact ht
      | some it =>
        simp only
        have hit : it ∈ bw.1 := List.mem_of_getElem? hget
        have inner : ∀ (cs : List Cand) (t : Votes), (∀ c ∈ cs, c ∈ it.cands) →
            ((keys t).Nodup ∧ ∀ c ∈ keys t, c ∈ allRankedCandidates votes ∧ c ∉ l) →
            ((keys (cs.foldl (fun t c => if Slot.cand c ∈ l.map Slot.cand then t else addTo t c (bw.2 * coef)) t)).Nodup ∧
             ∀ c ∈ keys (cs.foldl (fun t c => if Slot.cand c ∈ l.map Slot.cand then t else addTo t c (bw.2 * coef)) t),
               c ∈ allRankedCandidates votes ∧ c ∉ l) := by
          intro cs
          induction cs with
          | nil => intro t _ ht; exact ht
          | cons c cs ih2 =>
            intro t hcs ht
            rw [List.foldl_cons]
            apply ih2 _ (fun x hx => hcs x (List.mem_cons_of_mem _ hx))
            by_cases hel : Slot.cand c ∈ l.map Slot.cand
            · rw [if_pos hel]; exact ht
            · rw [if_neg hel]
              refine ⟨nodup_dkeys_addTo ht.1 _ _, ?_⟩
              intro x hx
              rcases (mem_dkeys_addTo t c _ x).mp hx with h | h
              · exact ht.2 x h
              · subst h
                refine ⟨(mem_allRankedCandidates votes x).mpr ⟨bw, hbw, ?_⟩, fun hxl => hel (mem_map_cand.mpr hxl)⟩
                exact (mem_ballotCands _ _).mpr ⟨it, hit, hcs x List.mem_cons_self⟩
        exact inner it.cands t (fun _ h => h) ht
  exact key votes tot (fun _ h => h) ⟨hnd, hsub⟩

/-- what the loop returns: candidates followed by one repeated Tie, with the selection shape for as many places as it
    has, never more than `n` -/
def PAResult (cands : List Cand) (n : Nat) (r : List Slot) : Prop :=
  (∃ (L T : List Cand) (k : Nat), r = L.map Slot.cand ++ List.replicate k (Slot.tie T) ∧ T.Nodup ∧
    (r.length < n → k = 0)) ∧
  SelShape cands r.length r ∧ r.length ≤ n

theorem paLoop_result (coef : Nat → Rat) (votes : RProfile) (quota : Rat) (n : Nat) :
    ∀ (f i : Nat) (tot : Votes) (l : List Cand), PAInv votes tot l → l.length < n →
    PAResult (allRankedCandidates votes) n (paLoop coef votes quota n f i tot (l.map Slot.cand)) := by
  intro f
  induction f with
  | zero =>
    intro i tot l hI hl
    unfold paLoop
    refine ⟨⟨l, [], 0, by simp, List.nodup_nil, fun _ => rfl⟩, ?_, ?_⟩
    · rw [List.length_map]; exact selShape_of_cands hI.nodup_l hI.sub_l
    · rw [List.length_map]; omega
  | succ f ih =>
    intro i tot l hI hl
    unfold paLoop
    simp only [List.length_map]
    obtain ⟨hnd', hsub'⟩ := addRound_inv (coef i) votes i l tot hI.nodup_t hI.sub_t
    generalize addRound (coef i) votes i (l.map Slot.cand) tot = tot' at hnd' hsub'
    -- the majority dict
    have hmajnd : (keys ((sortDesc tot').filter (fun e => decide (quota < e.2)))).Nodup :=
      List.Nodup.sublist (List.Sublist.map _ List.filter_sublist) (((sortDesc_perm tot').map _).nodup_iff.mpr hnd')
    have hmajsub : ∀ c ∈ keys ((sortDesc tot').filter (fun e => decide (quota < e.2))), c ∈ keys tot' := by
      intro c hc
      obtain ⟨e, he, rfl⟩ := List.mem_map.mp hc
      exact List.mem_map.mpr ⟨e, mem_sortDesc.mp (List.mem_filter.mp he).1, rfl⟩
    generalize (sortDesc tot').filter (fun e => decide (quota < e.2)) = maj at hmajnd hmajsub
    rcases Nat.lt_or_ge maj.length (n - l.length) with hshort | hfull
    · -- fewer over the quota than seats left: all of them are elected, the loop goes on
      have hbest := getNBest_all maj (n - l.length) (by omega)
      have hform : getNBest maj (n - l.length) = ((sortDesc maj).map (·.1)).map Slot.cand := by
        rw [hbest, List.map_map]; rfl
      have hlenb : (getNBest maj (n - l.length)).length = maj.length := by
        rw [hbest, List.length_map, sortDesc_length]
      have hne : ¬ (l.length + (getNBest maj (n - l.length)).length = n) := by omega
      rw [List.length_append, List.length_map, if_neg hne]
      have hel : l.map Slot.cand ++ getNBest maj (n - l.length) = (l ++ (sortDesc maj).map (·.1)).map Slot.cand := by
        rw [hform, List.map_append]
      rw [hel]
      have hsk : ∀ c, c ∈ (sortDesc maj).map (·.1) ↔ c ∈ keys maj := fun c =>
        ((sortDesc_perm maj).map _).mem_iff
      apply ih
      · refine ⟨?_, ?_, ?_, ?_⟩
        · rw [List.nodup_append]
          refine ⟨hI.nodup_l, ((sortDesc_perm maj).map _).nodup_iff.mpr hmajnd, ?_⟩
          intro a ha b hb hab
          subst hab
          exact (hsub' a (hmajsub a ((hsk a).mp hb))).2 ha
        · intro c hc
          rcases List.mem_append.mp hc with h | h
          · exact hI.sub_l c h
          · exact (hsub' c (hmajsub c ((hsk c).mp h))).1
        · exact List.Nodup.sublist (List.Sublist.map _ List.filter_sublist) hnd'
        · intro c hc
          obtain ⟨e, he, rfl⟩ := List.mem_map.mp hc
          obtain ⟨he1, he2⟩ := List.mem_filter.mp he
          have hk : e.1 ∈ keys tot' := List.mem_map.mpr ⟨e, he1, rfl⟩
          refine ⟨(hsub' e.1 hk).1, ?_⟩
          intro hmem
          rcases List.mem_append.mp hmem with h | h
          · exact (hsub' e.1 hk).2 h
          · rw [hform] at he2
            simp only [decide_eq_true_eq] at he2
            exact he2 (mem_map_cand.mpr h)
      · rw [List.length_append, List.length_map, sortDesc_length]; omega
    · -- enough over the quota: the remaining seats are filled now
      have h1k : 1 ≤ n - l.length := by omega
      have hshape := getNBest_shape maj hmajnd (n - l.length) h1k hfull
      have hlenb := hshape.length
      have heq : l.length + (getNBest maj (n - l.length)).length = n := by omega
      rw [List.length_append, List.length_map, if_pos heq]
      obtain ⟨L, T, k, hLT, hT⟩ := getNBest_form maj hmajnd (n - l.length)
      have hall := selShape_prepend (cands := allRankedCandidates votes) hI.nodup_l hI.sub_l
        (fun c hc => hsub' c (hmajsub c hc)) hshape
      have hlen : (l.map Slot.cand ++ getNBest maj (n - l.length)).length = n := by
        rw [List.length_append, List.length_map]; exact heq
      refine ⟨⟨l ++ L, T, k, ?_, hT, fun h => absurd h (by rw [hlen]; omega)⟩, ?_, ?_⟩
      · rw [hLT, List.map_append, List.append_assoc]
      · rw [hlen]
        have : l.length + (n - l.length) = n := by omega
        rw [this] at hall
        exact hall
      · rw [hlen]

/-! ### `_decouple_equal_rankings` neither invents candidates nor loses the last ballot -/

theorem mem_picks {α : Type} {l : List α} {y : α} {r : List α} (h : (y, r) ∈ picks l) :
    y ∈ l ∧ ∀ c ∈ r, c ∈ l := by
  induction l generalizing y r with
  | nil => simp [picks] at h
  | cons x xs ih =>
    simp only [picks, List.mem_cons, List.mem_map] at h
    rcases h with h | ⟨yr, hyr, he⟩
    · injection h with h1 h2
      subst h1; subst h2
      exact ⟨by simp, fun c hc => by simp [hc]⟩
    · injection he with h1 h2
      obtain ⟨hy, hr⟩ := ih (y := yr.1) (r := yr.2) hyr
      subst h1; subst h2
      refine ⟨by simp [hy], ?_⟩
      intro c hc
      simp only [List.mem_cons] at hc ⊢
      rcases hc with rfl | hc
      · exact Or.inl rfl
      · exact Or.inr (hr c hc)

theorem mem_permsLexAux (f : Nat) : ∀ (l q : List Cand), q ∈ permsLexAux f l → ∀ c ∈ q, c ∈ l := by
  induction f with
  | zero => intro l q h; simp only [permsLexAux, List.mem_singleton] at h; subst h; simp
  | succ f ih =>
    intro l q h
    cases l with
    | nil => simp only [permsLexAux, List.mem_singleton] at h; subst h; simp
    | cons x xs =>
      simp only [permsLexAux, List.mem_flatMap, List.mem_map] at h
      obtain ⟨xr, hxr, q', hq', rfl⟩ := h
      obtain ⟨h1, h2⟩ := mem_picks (y := xr.1) (r := xr.2) hxr
      intro c hc
      rcases List.mem_cons.mp hc with rfl | hc
      · exact h1
      · exact h2 c (ih _ _ hq' c hc)

theorem permsLexAux_ne_nil (f : Nat) : ∀ l : List Cand, permsLexAux f l ≠ [] := by
  induction f with
  | zero => intro l; simp [permsLexAux]
  | succ f ih =>
    intro l
    cases l with
    | nil => simp [permsLexAux]
    | cons x xs =>
      obtain ⟨q, hq⟩ := List.exists_mem_of_ne_nil _ (ih xs)
      intro h
      have : x :: q ∈ permsLexAux (f + 1) (x :: xs) := by
        simp only [permsLexAux, List.mem_flatMap, List.mem_map]
        exact ⟨(x, xs), by simp [picks], q, hq, rfl⟩
      rw [h] at this
      simp at this

theorem product_ne_nil {α : Type} (fs : List (List α)) (h : ∀ f ∈ fs, f ≠ []) : product fs ≠ [] := by
  induction fs with
  | nil => simp [product]
  | cons f rest ih =>
    obtain ⟨x, hx⟩ := List.exists_mem_of_ne_nil _ (h f List.mem_cons_self)
    obtain ⟨t, ht⟩ := List.exists_mem_of_ne_nil _ (ih (fun g hg => h g (List.mem_cons_of_mem _ hg)))
    intro hnil
    have : x :: t ∈ product (f :: rest) := by
      simp only [product, List.mem_flatMap, List.mem_map]
      exact ⟨x, hx, t, ht, rfl⟩
    rw [hnil] at this
    simp at this

theorem product_mem {α : Type} (fs : List (List α)) : ∀ t ∈ product fs, ∀ x ∈ t, ∃ f ∈ fs, x ∈ f := by
  induction fs with
  | nil => intro t ht x hx; simp only [product, List.mem_singleton] at ht; subst ht; simp at hx
  | cons f rest ih =>
    intro t ht x hx
    simp only [product, List.mem_flatMap, List.mem_map] at ht
    obtain ⟨y, hy, t', ht', rfl⟩ := ht
    rcases List.mem_cons.mp hx with rfl | hx
    · exact ⟨f, List.mem_cons_self, hy⟩
    · obtain ⟨g, hg, hxg⟩ := ih t' ht' x hx
      exact ⟨g, List.mem_cons_of_mem _ hg, hxg⟩

theorem sharedRanks_mem (b : Ballot) : ∀ (i : Nat) (ir : Nat × List Cand), ir ∈ sharedRanks i b →
    RankItem.shared ir.2 ∈ b := by
  induction b with
  | nil => intro i ir h; simp [sharedRanks] at h
  | cons it rest ih =>
    intro i ir h
    cases it with
    | one c =>
      simp only [sharedRanks] at h
      exact List.mem_cons_of_mem _ (ih _ _ h)
    | shared cs =>
      simp only [sharedRanks, List.mem_cons] at h
      rcases h with rfl | h
      · exact List.mem_cons_self
      · exact List.mem_cons_of_mem _ (ih _ _ h)

theorem ballotCands_map_one' (l : List Cand) : ballotCands (l.map RankItem.one) = l := by
  induction l with
  | nil => rfl
  | cons a t ih =>
    simp only [ballotCands, List.map_cons, List.flatMap_cons, RankItem.cands] at ih ⊢
    rw [ih]; rfl

/-- the substitution loop L587-594 — slices of the ballot and the permuted parts — names nobody new -/
theorem substitute_cands (S : List Cand) : ∀ (pairs : List (Nat × List Cand)) (var : Ballot) (off : Int),
    (∀ c ∈ ballotCands var, c ∈ S) → (∀ ip ∈ pairs, ∀ c ∈ ip.2, c ∈ S) →
    ∀ c ∈ ballotCands (substitute var off pairs), c ∈ S := by
  intro pairs
  induction pairs with
  | nil => intro var off hv _; simpa [substitute] using hv
  | cons ip rest ih =>
    intro var off hv hp
    obtain ⟨i, part⟩ := ip
    simp only [substitute]
    apply ih
    · intro c hc
      simp only [ballotCands, List.flatMap_append, List.mem_append] at hc
      rcases hc with (hc | hc) | hc
      · obtain ⟨it, hit, hcit⟩ := List.mem_flatMap.mp hc
        exact hv c (List.mem_flatMap.mpr ⟨it, List.mem_of_mem_take hit, hcit⟩)
      · have := ballotCands_map_one' part
        unfold ballotCands at this
        rw [this] at hc
        exact hp (i, part) List.mem_cons_self c hc
      · obtain ⟨it, hit, hcit⟩ := List.mem_flatMap.mp hc
        exact hv c (List.mem_flatMap.mpr ⟨it, List.mem_of_mem_drop hit, hcit⟩)
    · intro ip' hip'; exact hp ip' (List.mem_cons_of_mem _ hip')

theorem variants_ne_nil (b : Ballot) : variants b ≠ [] := by
  unfold variants
  simp only [ne_eq, List.map_eq_nil_iff]
  apply product_ne_nil
  intro f hf
  obtain ⟨ir, _, rfl⟩ := List.mem_map.mp hf
  exact permsLexAux_ne_nil _ _

theorem variants_cands {b v : Ballot} (hv : v ∈ variants b) : ∀ c ∈ ballotCands v, c ∈ ballotCands b := by
  unfold variants at hv
  simp only [List.mem_map] at hv
  obtain ⟨variant, hvar, rfl⟩ := hv
  apply substitute_cands (ballotCands b) _ b 0 (fun c hc => hc)
  intro ip hip c hc
  have hpart : ip.2 ∈ variant := (List.of_mem_zip hip).2
  obtain ⟨f, hf, hpf⟩ := product_mem _ variant hvar ip.2 hpart
  obtain ⟨ir, hir, rfl⟩ := List.mem_map.mp hf
  have hcs : c ∈ ir.2 := mem_permsLexAux _ _ _ hpf c hc
  exact (mem_ballotCands b c).mpr ⟨RankItem.shared ir.2, sharedRanks_mem b 0 ir hir, hcs⟩

theorem mem_dkeys_foldl_addTo_same (l : List Ballot) (w : Rat) (acc : RProfile) (k : Ballot) :
    k ∈ dkeys (l.foldl (fun a c => addTo a c w) acc) ↔ k ∈ dkeys acc ∨ k ∈ l := by
  induction l generalizing acc with
  | nil => simp
  | cons c cs ih =>
    rw [List.foldl_cons, ih, mem_dkeys_addTo]
    simp only [List.mem_cons]
    tauto

/-- an invariant of the dictionary under construction in `_decouple_equal_rankings` -/
theorem decouple_inv_seq (P : RProfile → Prop) (p : RProfile) (h0 : P p)
    (hstep : ∀ (nv : RProfile) (bw : Ballot × Rat), bw ∈ p → P nv →
      P ((variants bw.1).foldl (fun nv v => addTo nv v (bw.2 / ((variants bw.1).length : Rat)))
        (nv.filter (fun e => e.1 ≠ bw.1)))) : P (decouple p) := by
  unfold decouple
  have key : ∀ (l : RProfile) (nv : RProfile), (∀ bw ∈ l, bw ∈ p) → P nv →
      P (l.foldl (fun nv bw =>
        if bw.1.any isShared then
          let vars := variants bw.1
          vars.foldl (fun nv v => addTo nv v (bw.2 / (vars.length : Rat))) (nv.filter (fun e => e.1 ≠ bw.1))
        else nv) nv) := by
    intro l
    induction l with
    | nil => intro nv _ h; exact h
    | cons bw t ih =>
      intro nv hl h
      rw [List.foldl_cons]
      apply ih _ (fun x hx => hl x (List.mem_cons_of_mem _ hx))
      split
      · exact hstep nv bw (hl bw List.mem_cons_self) h
      · exact h
  exact key p p (fun _ h => h) h0

theorem decouple_cands_sub_seq (p : RProfile) : ∀ c ∈ allRankedCandidates (decouple p), c ∈ allRankedCandidates p := by
  have hinv : ∀ b' ∈ dkeys (decouple p), ∀ c ∈ ballotCands b', c ∈ allRankedCandidates p := by
    apply decouple_inv_seq (fun nv => ∀ b' ∈ dkeys nv, ∀ c ∈ ballotCands b', c ∈ allRankedCandidates p)
    · intro b' hb' c hc
      obtain ⟨bw, hbw, rfl⟩ := List.mem_map.mp hb'
      exact (mem_allRankedCandidates p c).mpr ⟨bw, hbw, hc⟩
    · intro nv bw hbw hnv b' hb' c hc
      rcases (mem_dkeys_foldl_addTo_same _ _ _ _).mp hb' with h | h
      · obtain ⟨e, he, rfl⟩ := List.mem_map.mp h
        exact hnv _ (List.mem_map.mpr ⟨e, (List.mem_filter.mp he).1, rfl⟩) c hc
      · exact (mem_allRankedCandidates p c).mpr ⟨bw, hbw, variants_cands h c hc⟩
  intro c hc
  obtain ⟨bw, hbw, hcb⟩ := (mem_allRankedCandidates _ c).mp hc
  exact hinv _ (List.mem_map.mpr ⟨bw, hbw, rfl⟩) c hcb

theorem decouple_ne_nil_seq {p : RProfile} (hp : p ≠ []) : decouple p ≠ [] := by
  apply decouple_inv_seq (fun nv => nv ≠ []) p hp
  intro nv bw _ _ hnil
  obtain ⟨l, hl⟩ := List.exists_mem_of_ne_nil _ (variants_ne_nil bw.1)
  have := (mem_dkeys_foldl_addTo_same (variants bw.1) (bw.2 / ((variants bw.1).length : Rat))
    (nv.filter (fun e => e.1 ≠ bw.1)) l).mpr (Or.inr hl)
  rw [hnil] at this
  simp [dkeys] at this

/-! ### PreferenceAddition: the theorems -/

/-- the ballots the loop runs on (sequential.py L534-535) -/
theorem paVotes_facts (split : Bool) {p : RProfile} (hp : p ≠ []) :
    (if split then decouple p else p) ≠ [] ∧
    ∀ c ∈ allRankedCandidates (if split then decouple p else p), c ∈ allRankedCandidates p := by
  cases split with
  | true => exact ⟨decouple_ne_nil_seq hp, decouple_cands_sub_seq p⟩
  | false => exact ⟨hp, fun _ h => h⟩

/-- the evaluator, on votes that are not empty, returns what its loop built (`Tie.reconcile` changes nothing and never
    raises), and that has the partial shape -/
theorem preferenceAddition_result (coef : Nat → Rat) (split : Bool) {p : RProfile} {n : Nat} (hp : p ≠ [])
    (h1 : 1 ≤ n) : ∃ r, preferenceAddition coef split p n = .ok r ∧ PAResult (allRankedCandidates p) n r := by
  obtain ⟨hne, hsub⟩ := paVotes_facts split hp
  unfold preferenceAddition
  simp only
  generalize (if split then decouple p else p) = votes at hne hsub
  have hemp : votes.isEmpty = false := by
    cases votes with
    | nil => exact absurd rfl hne
    | cons _ _ => rfl
  rw [hemp]
  simp only [Bool.false_eq_true, if_false]
  have hres := paLoop_result coef votes (sumValues votes / 2) n (maxLen votes) 0 [] []
    ⟨List.nodup_nil, by simp, by simp [keys], by simp [keys]⟩ (by simp only [List.length_nil]; omega)
  simp only [List.map_nil] at hres
  generalize paLoop coef votes (sumValues votes / 2) n (maxLen votes) 0 [] [] = R at hres
  obtain ⟨⟨L, T, k, hform, hT, hk0⟩, hshape, hlen⟩ := hres
  have hk : k = 0 ∨ k < T.length := by
    rcases Nat.eq_zero_or_pos k with h0 | hpos
    · exact Or.inl h0
    · right
      have hmem : Slot.tie T ∈ R := by
        rw [hform]
        exact List.mem_append_right _ (List.mem_replicate.mpr ⟨by omega, rfl⟩)
      have hbig := hshape.tie_big T hmem
      have hcount : List.count (Slot.tie T) R = k := by
        rw [hform, List.count_append, List.count_replicate_self]
        have hz : List.count (Slot.tie T) (L.map Slot.cand) = 0 := by
          rw [List.count_eq_zero]
          intro hm
          obtain ⟨d, _, he⟩ := List.mem_map.mp hm; cases he
        rw [hz]; simp
      omega
  refine ⟨R, ?_, ⟨L, T, k, hform, hT, hk0⟩, hshape.mono hsub, hlen⟩
  rw [hform]
  exact reconcile_ok L T k hT hk

/- Full statement (FALSE of the current code, `bucklin_n_short_witness`; open finding C08-preference-addition-short-list):
     theorem bucklin_n_shape : p ≠ [] → 1 ≤ n → n ≤ (allRankedCandidates p).length →
       preferenceAddition coef split p n = .ok r → SelShape (allRankedCandidates p) n r
   What is missing is exactly `r.length = n`: when the ranks given run out before `n` candidates have passed half of the
   votes, the list is short. -/

/-- **PreferenceAddition (Bucklin, Oklahoma, any coefficients; with and without splitting of shared ranks), any number
    of seats (partial)**: the answer never has MORE than `n` places, and it has the selection shape for as many places
    as it has: candidates of the profile, nobody elected twice, a Tie object repeated once per seat it contests with
    more members than those seats, nobody both elected and tied. -/
theorem bucklin_n_shape_partial (coef : Nat → Rat) (split : Bool) {p : RProfile} {n : Nat} (hp : p ≠ []) (h1 : 1 ≤ n)
    {r : List Slot} (h : preferenceAddition coef split p n = .ok r) :
    r.length ≤ n ∧ SelShape (allRankedCandidates p) r.length r := by
  obtain ⟨r', hr', _, hshape, hlen⟩ := preferenceAddition_result coef split hp h1 (n := n)
  rw [hr'] at h
  injection h with h
  subst h
  exact ⟨hlen, hshape⟩

/-- … hence the full shape whenever all seats were filled -/
theorem bucklin_n_shape_of_full (coef : Nat → Rat) (split : Bool) {p : RProfile} {n : Nat} (hp : p ≠ []) (h1 : 1 ≤ n)
    {r : List Slot} (h : preferenceAddition coef split p n = .ok r) (hfull : r.length = n) :
    SelShape (allRankedCandidates p) n r := by
  have := (bucklin_n_shape_partial coef split hp h1 h).2
  rwa [hfull] at this

/-- the Ties of an answer are ONE Tie object of distinct candidates at the end of the list, and a SHORT answer has no
    Tie at all: it lists the candidates who passed half of the votes, and nobody else -/
theorem bucklin_n_one_tie (coef : Nat → Rat) (split : Bool) {p : RProfile} {n : Nat} (hp : p ≠ []) (h1 : 1 ≤ n)
    {r : List Slot} (h : preferenceAddition coef split p n = .ok r) :
    ∃ (L T : List Cand) (k : Nat), r = L.map Slot.cand ++ List.replicate k (Slot.tie T) ∧ T.Nodup ∧
      (r.length < n → k = 0) := by
  obtain ⟨r', hr', hform, _, _⟩ := preferenceAddition_result coef split hp h1 (n := n)
  rw [hr'] at h
  injection h with h
  subst h
  exact hform

/-- **PreferenceAddition always answers** on a profile with at least one ballot (FULL: no error outcome at all —
    `Tie.reconcile` never raises its NotImplementedError / ZeroDivisionError here) -/
theorem bucklin_n_answers (coef : Nat → Rat) (split : Bool) {p : RProfile} {n : Nat} (hp : p ≠ []) (h1 : 1 ≤ n) :
    ∃ r, preferenceAddition coef split p n = .ok r := by
  obtain ⟨r, hr, _⟩ := preferenceAddition_result coef split hp h1 (n := n)
  exact ⟨r, hr⟩

theorem bucklin_n_refusals (coef : Nat → Rat) (split : Bool) {p : RProfile} {n : Nat} (hp : p ≠ []) (h1 : 1 ≤ n)
    {e : Err} (h : preferenceAddition coef split p n = .error e) : e = .votingSystemError ∨ e = .notImplemented := by
  obtain ⟨r, hr⟩ := bucklin_n_answers coef split hp h1 (n := n)
  rw [hr] at h
  cases h

/-- without any premise: the only error values are the ValueError of `max()` over no ballots and what `Tie.reconcile`
    raises -/
theorem bucklin_n_refusals_all (coef : Nat → Rat) (split : Bool) {p : RProfile} {n : Nat} {e : Err}
    (h : preferenceAddition coef split p n = .error e) :
    (p = [] ∧ e = .valueError) ∨ e = .notImplemented ∨ e = .other "ZeroDivisionError" := by
  by_cases hp : p = []
  · left
    subst hp
    refine ⟨rfl, ?_⟩
    cases split <;> simp [preferenceAddition, decouple] at h <;> exact h.symm
  · right
    have hne := (paVotes_facts split hp).1
    unfold preferenceAddition at h
    simp only at h
    generalize (if split then decouple p else p) = votes at h hne
    have hemp : votes.isEmpty = false := by
      cases votes with
      | nil => exact absurd rfl hne
      | cons _ _ => rfl
    rw [hemp] at h
    simp only [Bool.false_eq_true, if_false] at h
    unfold reconcile at h
    split_ifs at h
    · right; injection h with h; exact h.symm
    · left; injection h with h; exact h.symm

/-- `bucklin_n_shape` is FALSE of the current code: `a:3, b:1, c:1` for two seats — only `a` ever passes the quota 5/2 —
    gives the one-element list `[a]` -/
theorem bucklin_n_short_witness :
    ([([RankItem.one 0], (3 : Rat)), ([RankItem.one 1], 1), ([RankItem.one 2], 1)] : RProfile) ≠ [] ∧
    2 ≤ (allRankedCandidates [([RankItem.one 0], (3 : Rat)), ([RankItem.one 1], 1), ([RankItem.one 2], 1)]).length ∧
    preferenceAddition coefBucklin true [([RankItem.one 0], 3), ([RankItem.one 1], 1), ([RankItem.one 2], 1)] 2
      = .ok [Slot.cand 0] ∧
    preferenceAddition coefOklahoma false [([RankItem.one 0], 3), ([RankItem.one 1], 1), ([RankItem.one 2], 1)] 2
      = .ok [Slot.cand 0] ∧
    ¬ SelShape (allRankedCandidates [([RankItem.one 0], (3 : Rat)), ([RankItem.one 1], 1), ([RankItem.one 2], 1)]) 2
      [Slot.cand 0] := by
  refine ⟨by simp, by decide +kernel, by decide +kernel, by decide +kernel, ?_⟩
  intro h
  exact absurd h.length (by decide)

/-- FIXED by c2fec8e (`offset += len(var_part)`, sequential.py L594, now `len(var_part) - 1`): before the repair, from the
    second shared rank of a ballot on, `_decouple_equal_rankings` substituted one place too far — the shared rank stayed on
    the ballot as a set and the place behind it was overwritten: `({0,1}, {2,3}, 4)` had the variant `(0,1,{2,3},2,3)`,
    candidate 4 (ranked by every voter) was never counted and the default Bucklin filled only four of five seats.  Now the
    four variants are the four strict orders and all five seats are filled, with and without splitting. -/
theorem prefix_bucklin_decouple_offset_witness :
    variantsPreFix [.shared [0, 1], .shared [2, 3], .one 4] =
      [[.one 0, .one 1, .shared [2, 3], .one 2, .one 3], [.one 0, .one 1, .shared [2, 3], .one 3, .one 2],
       [.one 1, .one 0, .shared [2, 3], .one 2, .one 3], [.one 1, .one 0, .shared [2, 3], .one 3, .one 2]] ∧
    decouple [([.shared [0, 1], .shared [2, 3], .one 4], 1)] =
      [([.one 0, .one 1, .one 2, .one 3, .one 4], 1 / 4), ([.one 0, .one 1, .one 3, .one 2, .one 4], 1 / 4),
       ([.one 1, .one 0, .one 2, .one 3, .one 4], 1 / 4), ([.one 1, .one 0, .one 3, .one 2, .one 4], 1 / 4)] ∧
    preferenceAddition coefBucklin true [([.shared [0, 1], .shared [2, 3], .one 4], 1)] 5 =
      .ok [Slot.cand 0, Slot.cand 1, Slot.cand 2, Slot.cand 3, Slot.cand 4] ∧
    preferenceAddition coefBucklin false [([.shared [0, 1], .shared [2, 3], .one 4], 1)] 5 =
      .ok [Slot.cand 0, Slot.cand 1, Slot.cand 2, Slot.cand 3, Slot.cand 4] := by
  refine ⟨by decide +kernel, by decide +kernel, by decide +kernel, by decide +kernel⟩

/-- non-vacuity: a concrete profile with a shared rank meets the hypotheses; two seats are filled -/
example : ([([.one 0, .shared [1, 2]], (2 : Rat)), ([.one 1, .one 0, .one 2], 2), ([.one 2, .one 1, .one 0], 1)] : RProfile) ≠ [] ∧
    preferenceAddition coefOklahoma true
      [([.one 0, .shared [1, 2]], 2), ([.one 1, .one 0, .one 2], 2), ([.one 2, .one 1, .one 0], 1)] 2
      = .ok [Slot.cand 1, Slot.cand 0] := by
  refine ⟨by simp, by decide +kernel⟩

/-- non-vacuity: a Tie for the last seats (a full rotation) -/
example : preferenceAddition coefBucklin true
      [([.one 0, .one 1, .one 2], 1), ([.one 1, .one 2, .one 0], 1), ([.one 2, .one 0, .one 1], 1)] 2
      = .ok [Slot.tie [0, 1, 2], Slot.tie [0, 1, 2]] := by decide +kernel

end VL.C08
