/-
  C10, Condorcet family: renaming of second-order Copeland (`copeland true`), up to `SlotsEquiv`.
-/
import VotelibProofs.Lemmas.PermCopeland2
import VotelibProofs.Lemmas.RenameCondorcet
namespace VL.Perm
open VL VL.Condorcet VL.C10

/-! ### renaming of second-order Copeland

  The model iterates the `tied` set in ascending id order, which a renaming does not preserve; the second-order table of
  the renamed run is therefore a permutation of the renamed table, and the result is equivalent (`SlotsEquiv`), not
  literally equal. -/

theorem isTie_ren (σ : Cand → Cand) (s : Slot) : isTie (renSlot σ s) = isTie s := by cases s <;> rfl

theorem cop2_slotsEquiv_prepend (e : List Cand) {A B : List Slot} (h : SlotsEquiv A B) :
    SlotsEquiv (e.map Slot.cand ++ A) (e.map Slot.cand ++ B) := by
  obtain ⟨e₁, e₂, T₁, T₂, m, rfl, rfl, he, hT⟩ := h
  exact ⟨e ++ e₁, e ++ e₂, T₁, T₂, m, by rw [List.map_append, List.append_assoc],
    by rw [List.map_append, List.append_assoc], he.append_left _, hT⟩

theorem map_renSlot_shape (σ : Cand → Cand) (e T : List Cand) (m : Nat) :
    (e.map Slot.cand ++ List.replicate m (Slot.tie T)).map (renSlot σ) =
      (e.map σ).map Slot.cand ++ List.replicate m (Slot.tie (T.map σ)) := by
  simp only [List.map_append, List.map_map, List.map_replicate, renSlot]
  rfl

theorem votes_perm_of_getD_on {d₁ d₂ : Votes} (h1 : (keys d₁).Nodup) (h2 : (keys d₂).Nodup)
    (hk : (keys d₁).Perm (keys d₂)) (hg : ∀ c ∈ keys d₁, getD d₁ c 0 = getD d₂ c 0) : d₁.Perm d₂ := by
  rw [votes_eq_map_getD h1, votes_eq_map_getD h2]
  have : (keys d₁).map (fun c => (c, getD d₁ c 0)) = (keys d₁).map (fun c => (c, getD d₂ c 0)) :=
    List.map_congr_left (fun c hc => by rw [hg c hc])
  rw [this]
  exact hk.map _

theorem mem_tiedOf_ren (σ : Cand → Cand) (best : List Slot) (x : Cand) :
    x ∈ tiedOf (best.map (renSlot σ)) ↔ ∃ y ∈ tiedOf best, x = σ y := by
  rw [mem_tiedOf]
  constructor
  · rintro ⟨T', hT', hx⟩
    obtain ⟨s, hs, hs'⟩ := List.mem_map.1 hT'
    cases s with
    | cand c => cases hs'
    | tie T =>
      simp only [renSlot, Slot.tie.injEq] at hs'
      subst hs'
      obtain ⟨y, hy, rfl⟩ := List.mem_map.1 hx
      exact ⟨y, (mem_tiedOf best y).2 ⟨T, hs, hy⟩, rfl⟩
  · rintro ⟨y, hy, rfl⟩
    obtain ⟨T, hT, hyT⟩ := (mem_tiedOf best y).1 hy
    exact ⟨T.map σ, List.mem_map.2 ⟨Slot.tie T, hT, rfl⟩, List.mem_map.2 ⟨y, hyT, rfl⟩⟩

theorem contains_tiedOf_ren (σ : Cand → Cand) (hσ : Function.Injective σ) (best : List Slot) (x : Cand) :
    (tiedOf (best.map (renSlot σ))).contains (σ x) = (tiedOf best).contains x := by
  rw [Bool.eq_iff_iff, List.contains_iff_mem, List.contains_iff_mem, mem_tiedOf_ren]
  constructor
  · rintro ⟨y, hy, e⟩; rw [hσ e]; exact hy
  · intro h; exact ⟨x, h, rfl⟩

theorem keys_renVotes (σ : Cand → Cand) (d : Votes) : keys (renVotes σ d) = (keys d).map σ := by
  unfold keys renVotes; rw [List.map_map, List.map_map]; rfl

/-- the second-order table of the renamed run: the renamed table, up to the order of its rows -/
theorem sosOf_ren_perm (σ : Cand → Cand) (hσ : Function.Injective σ) (best : List Slot) (S : Votes) (wins : List Pair) :
    (sosOf (tiedOf (best.map (renSlot σ))) (renVotes σ S) (wins.map (renPair σ))).Perm
      (renVotes σ (sosOf (tiedOf best) S wins)) := by
  have k1 : keys (sosOf (tiedOf (best.map (renSlot σ))) (renVotes σ S) (wins.map (renPair σ))) =
      tiedOf (best.map (renSlot σ)) :=
    keys_sosFold _ _ _ _ (by simp [keys, List.map_map, Function.comp_def])
  have k0 : keys (sosOf (tiedOf best) S wins) = tiedOf best :=
    keys_sosFold _ _ _ _ (by simp [keys, List.map_map, Function.comp_def])
  have k2 : keys (renVotes σ (sosOf (tiedOf best) S wins)) = (tiedOf best).map σ := by rw [keys_renVotes, k0]
  have n1 : (tiedOf (best.map (renSlot σ))).Nodup := (tiedOf_sorted _).imp (fun hab => Nat.ne_of_lt hab)
  have n0 : (tiedOf best).Nodup := (tiedOf_sorted _).imp (fun hab => Nat.ne_of_lt hab)
  have n2 : ((tiedOf best).map σ).Nodup := n0.map hσ
  apply votes_perm_of_getD_on (by rw [k1]; exact n1) (by rw [k2]; exact n2)
  · rw [k1, k2, List.perm_ext_iff_of_nodup n1 n2]
    intro x
    rw [mem_tiedOf_ren, List.mem_map]
    constructor
    · rintro ⟨y, hy, rfl⟩; exact ⟨y, hy, rfl⟩
    · rintro ⟨y, hy, rfl⟩; exact ⟨y, hy, rfl⟩
  · intro c hc
    rw [k1, mem_tiedOf_ren] at hc
    obtain ⟨y, _, rfl⟩ := hc
    rw [getD_ren σ hσ]
    unfold sosOf
    rw [getD_sosFold, getD_sosFold, getD_zeroDict, getD_zeroDict, List.filter_map, List.map_map]
    have hF : ((fun w : Pair => getD (renVotes σ S) w.2 0) ∘ renPair σ) = (fun w : Pair => getD S w.2 0) := by
      funext w
      simp only [Function.comp, renPair, getD_ren σ hσ]
    have hP : ((fun w : Pair => (tiedOf (best.map (renSlot σ))).contains w.1 && decide (w.1 = σ y)) ∘ renPair σ) =
        (fun w : Pair => (tiedOf best).contains w.1 && decide (w.1 = y)) := by
      funext w
      simp only [Function.comp, renPair, contains_tiedOf_ren σ hσ]
      congr 1
      by_cases h : w.1 = y
      · simp [h]
      · have : σ w.1 ≠ σ y := fun e => h (hσ e)
        simp [h, this]
    rw [hF, hP]

/-- **Copeland with second-order tie breaking: renaming** (up to the order of equally placed winners) -/
theorem copeland_true_ren (σ : Cand → Cand) (hσ : Function.Injective σ) (v : Pairwise) (n : Nat) :
    SlotsEquiv (copeland true (renPairwise σ v) n) ((copeland true v n).map (renSlot σ)) := by
  unfold copeland
  simp only [Bool.true_and]
  rw [copelandTable_ren σ hσ, getNBest_rename, pairwiseWins_ren σ hσ]
  generalize hS : seededScores v (copelandScoresRaw (pairwiseWins v false)) = S
  obtain ⟨e, _, T, _, m, hshape, _, _, _⟩ := getNBest_perm S S (List.Perm.refl _) n
  have hany : ((getNBest S n).map (renSlot σ)).any isTie = (getNBest S n).any isTie := by
    rw [List.any_map]; congr 1; funext s; exact isTie_ren σ s
  rw [hany]
  split
  · rw [breakSecondOrder_eq, breakSecondOrder_eq, List.map_append]
    have hf1 : ((getNBest S n).map (renSlot σ)).filter (fun s => !isTie s) = (e.map σ).map Slot.cand := by
      rw [hshape, map_renSlot_shape, filter_not_isTie']
    have hf2 : ((getNBest S n).filter (fun s => !isTie s)).map (renSlot σ) = (e.map σ).map Slot.cand := by
      rw [hshape, filter_not_isTie', List.map_map, List.map_map]; rfl
    have hl1 : ((getNBest S n).map (renSlot σ)).length -
        (((getNBest S n).map (renSlot σ)).filter (fun s => !isTie s)).length = m := by
      rw [hf1, hshape]; simp
    have hl2 : (getNBest S n).length - ((getNBest S n).filter (fun s => !isTie s)).length = m := by
      rw [hshape, filter_not_isTie']; simp
    rw [hl1, hl2, hf1, hf2]
    have hsos := getNBest_perm _ _ (sosOf_ren_perm σ hσ (getNBest S n) S (pairwiseWins v false)) m
    rw [getNBest_rename] at hsos
    exact cop2_slotsEquiv_prepend _ hsos
  · rw [hshape, map_renSlot_shape]
    exact ⟨e.map σ, e.map σ, T.map σ, T.map σ, m, rfl, rfl, List.Perm.refl _, List.Perm.refl _⟩

/-- **Copeland (first and second order): renaming**, in the shared vocabulary -/
theorem copeland_ren (σ : Cand → Cand) (hσ : Function.Injective σ) (so : Bool) (v : Pairwise) (n : Nat) :
    SlotsEquiv (copeland so (renPairwise σ v) n) ((copeland so v n).map (renSlot σ)) := by
  cases so with
  | true => exact copeland_true_ren σ hσ v n
  | false =>
    rw [copeland_false_ren σ hσ]
    unfold copeland
    simp only [Bool.false_and, Bool.false_eq_true, if_false]
    obtain ⟨e, _, T, _, m, hshape, _, _, _⟩ :=
      getNBest_perm (seededScores v (copelandScoresRaw (pairwiseWins v false))) _ (List.Perm.refl _) n
    rw [hshape, map_renSlot_shape]
    exact ⟨e.map σ, e.map σ, T.map σ, T.map σ, m, rfl, rfl, List.Perm.refl _, List.Perm.refl _⟩

example : Function.Injective (fun c : Cand => c + 5) := fun _ _ h => Nat.add_right_cancel h

end VL.Perm
