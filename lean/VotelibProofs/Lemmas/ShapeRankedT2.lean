/-
  C08 — result shape and refusals of the Condorcet family owned by C05 / C06:
  Kemeny-Young, ranked pairs, the seat-less set selectors (CondorcetWinner, SmithSet, SchwartzSet),
  Benham, Tideman alternative (models VL.Condorcet) and Bucklin / PreferenceAddition for one seat (model VL.Mono).
  (Copeland, minimax and Schulze are treated elsewhere.)
-/
import VotelibProofs.Lemmas.ShapeDefs
import VotelibProofs.Props.C05
import VotelibProofs.Props.C06
namespace VL.C08
open VL VL.Condorcet

/-! ### a list of distinct candidates, one per place, has the selection shape -/

theorem selShape_map_cand {cands l : List Cand} {n : Nat} (hlen : l.length = n) (hnd : l.Nodup)
    (hsub : ∀ c ∈ l, c ∈ cands) : SelShape cands n (l.map Slot.cand) := by
  refine ⟨by simpa using hlen, ?_, ?_, ?_, ?_, ?_⟩
  · intro c hc
    obtain ⟨d, hd, he⟩ := List.mem_map.mp hc
    injection he with he; subst he; exact hsub d hd
  · intro T hT; obtain ⟨d, _, he⟩ := List.mem_map.mp hT; cases he
  · rw [electedOf_map_cand]; exact hnd
  · intro T hT; obtain ⟨d, _, he⟩ := List.mem_map.mp hT; cases he
  · intro T hT; obtain ⟨d, _, he⟩ := List.mem_map.mp hT; cases he

/-! ### Kemeny-Young (`kemenyYoung v n`, driver C05 op `eval`, name `kemeny_young`) -/

/-- **Kemeny-Young fills exactly the seats asked for with distinct candidates**: whenever it answers, the result is the
    first `n` places of an order of all candidates.  No well-formedness premise is needed. -/
theorem kemeny_shape {v : Pairwise} {n : Nat} (_h1 : 1 ≤ n) (hn : n ≤ (candidates v).length) {r : List Slot}
    (h : kemenyYoung v n = .ok r) : SelShape (candidates v) n r := by
  obtain ⟨best, hp, rfl, _⟩ := kemenyYoung_ok h
  have hnd : best.Nodup := hp.nodup_iff.2 (nodup_candidates v)
  apply selShape_map_cand
  · rw [List.length_take, hp.length_eq]; omega
  · exact hnd.sublist (List.take_sublist n best)
  · intro c hc; exact hp.subset (List.mem_of_mem_take hc)

/-- **Kemeny-Young refuses only with the declared NotImplementedError** (`Tie.tie_rankings`: the best order is not
    unique) -/
theorem kemeny_refusals {v : Pairwise} {n : Nat} {e : Err} (h : kemenyYoung v n = .error e) :
    e = .votingSystemError ∨ e = .notImplemented := Or.inr (C05.kemeny_refusal h)

example : 1 ≤ 2 ∧ 2 ≤ (candidates C05.exCW).length ∧
    kemenyYoung C05.exCW 2 = .ok [Slot.cand 0, Slot.cand 1] := by decide +kernel
example : kemenyYoung C05.exLowerTie 1 = .error .notImplemented := by decide +kernel

/-! ### ranked pairs (`rankedPairs sc v n`, driver C05 op `eval`, names `rankedpairs_winvotes|margins|pwo`) -/

/-- the loop of `_build_ranking` lists distinct sources of locked pairs -/
theorem buildLoop_nodup (f : Nat) : ∀ (edges : List Pair) (rk r : List Cand), buildLoop f edges rk = .ok r →
    rk.Nodup → (∀ e ∈ edges, e.1 ∉ rk) → r.Nodup ∧ ∀ c ∈ r, c ∈ rk ∨ c ∈ edges.map (·.1) := by
  induction f with
  | zero => intro edges rk r h; simp [buildLoop] at h
  | succ f ih =>
    intro edges rk r h hnd hdisj
    unfold buildLoop at h
    split at h
    · simp only [Except.ok.injEq] at h; subst h
      exact ⟨hnd, fun c hc => Or.inl hc⟩
    · simp only at h
      split at h
      · rename_i w hwin
        have hw : w ∈ uniq ((edges.map (·.1)).filter (fun c => !(edges.map (·.2)).contains c)) := by
          rw [hwin]; simp
        rw [mem_uniq, List.mem_filter] at hw
        obtain ⟨e0, he0, he0w⟩ := List.mem_map.1 hw.1
        have hwrk : w ∉ rk := he0w ▸ hdisj e0 he0
        have hnd' : (rk ++ [w]).Nodup := by
          rw [List.nodup_append]
          refine ⟨hnd, by simp, ?_⟩
          intro a ha b hb
          simp only [List.mem_singleton] at hb
          subst hb
          rintro rfl
          exact hwrk ha
        have hdisj' : ∀ e ∈ edges.filter (fun e => e.1 != w), e.1 ∉ rk ++ [w] := by
          intro e he
          obtain ⟨he1, he2⟩ := List.mem_filter.1 he
          simp only [List.mem_append, List.mem_singleton, not_or]
          exact ⟨hdisj e he1, by simpa using he2⟩
        obtain ⟨hr1, hr2⟩ := ih _ _ _ h hnd' hdisj'
        refine ⟨hr1, ?_⟩
        intro c hc
        rcases hr2 c hc with h' | h'
        · rcases List.mem_append.1 h' with h'' | h''
          · exact Or.inl h''
          · simp only [List.mem_singleton] at h''; subst h''; exact Or.inr hw.1
        · obtain ⟨e, he, hec⟩ := List.mem_map.1 h'
          exact Or.inr (List.mem_map.2 ⟨e, (List.mem_filter.1 he).1, hec⟩)
      · simp at h

/-- the fuel `len(locked) + 1` of the loop is never used up: every round removes a locked pair -/
theorem buildLoop_error (f : Nat) : ∀ (edges : List Pair) (rk : List Cand) (e : Err), edges.length < f →
    buildLoop f edges rk = .error e → e = .votingSystemError := by
  induction f with
  | zero => intro edges rk e hf; omega
  | succ f ih =>
    intro edges rk e hf h
    unfold buildLoop at h
    split at h
    · simp at h
    · simp only at h
      split at h
      · rename_i w hwin
        have hw : w ∈ uniq ((edges.map (·.1)).filter (fun c => !(edges.map (·.2)).contains c)) := by
          rw [hwin]; simp
        rw [mem_uniq, List.mem_filter] at hw
        obtain ⟨e0, he0, he0w⟩ := List.mem_map.1 hw.1
        have hlt : (edges.filter (fun e => e.1 != w)).length < edges.length :=
          List.length_filter_lt_length_iff_exists.2 ⟨e0, he0, by simp [he0w]⟩
        exact ih _ _ e (by omega) h
      · simp only [Except.error.injEq] at h; exact h.symm

/-- the loser of the pair removed last is never listed by the loop -/
theorem buildLoop_leftover (f : Nat) : ∀ (edges : List Pair) (rk r : List Cand), buildLoop f edges rk = .ok r →
    edges ≠ [] → (∀ e ∈ edges, e.2 ∉ rk) → ∃ e ∈ edges, e.2 ∉ r := by
  induction f with
  | zero => intro edges rk r h; simp [buildLoop] at h
  | succ f ih =>
    intro edges rk r h hne hI
    unfold buildLoop at h
    split at h
    · rename_i hemp; exact absurd (List.isEmpty_iff.1 hemp) hne
    · simp only at h
      split at h
      · rename_i w hwin
        have hw : w ∈ uniq ((edges.map (·.1)).filter (fun c => !(edges.map (·.2)).contains c)) := by
          rw [hwin]; simp
        rw [mem_uniq, List.mem_filter] at hw
        obtain ⟨e0, he0, he0w⟩ := List.mem_map.1 hw.1
        have hnl : ∀ e ∈ edges, e.2 ≠ w := by
          intro e he hew
          have : (edges.map (·.2)).contains w = true := List.contains_iff_mem.2 (List.mem_map.2 ⟨e, he, hew⟩)
          have h2 := hw.2
          rw [this] at h2
          simp at h2
        by_cases hemp : edges.filter (fun e => e.1 != w) = []
        · rw [hemp] at h
          cases f with
          | zero => simp [buildLoop] at h
          | succ f =>
            unfold buildLoop at h
            simp only [List.isEmpty_nil, if_true, Except.ok.injEq] at h
            subst h
            refine ⟨e0, he0, ?_⟩
            simp only [List.mem_append, List.mem_singleton, not_or]
            exact ⟨hI e0 he0, hnl e0 he0⟩
        · have hI' : ∀ e ∈ edges.filter (fun e => e.1 != w), e.2 ∉ rk ++ [w] := by
            intro e he
            have he1 := (List.mem_filter.1 he).1
            simp only [List.mem_append, List.mem_singleton, not_or]
            exact ⟨hI e he1, hnl e he1⟩
          obtain ⟨e, he, her⟩ := ih _ _ _ h hemp hI'
          exact ⟨e, (List.mem_filter.1 he).1, her⟩
      · simp at h

theorem buildLoop_grows (f : Nat) (edges : List Pair) (rk r : List Cand) (h : buildLoop f edges rk = .ok r)
    (hne : edges ≠ []) : rk.length < r.length := by
  cases f with
  | zero => simp [buildLoop] at h
  | succ f =>
    unfold buildLoop at h
    split at h
    · rename_i hemp; exact absurd (List.isEmpty_iff.1 hemp) hne
    · simp only at h
      split at h
      · have := (buildLoop_prefix _ _ _ _ h).length_le
        simp only [List.length_append, List.length_singleton] at this
        omega
      · simp at h

/-- **`_build_ranking`, when it answers**: the loop's ranking plus ONE further candidate — distinct candidates of the
    locked pairs, at least two of them -/
theorem buildRanking_ok {locked : List Pair} {r : List Cand} (h : buildRanking locked = .ok r) :
    r.Nodup ∧ (∀ c ∈ r, c ∈ locked.flatMap (fun e => [e.1, e.2])) ∧ 2 ≤ r.length := by
  unfold buildRanking at h
  cases hb : buildLoop (locked.length + 1) locked [] with
  | error e => rw [hb] at h; simp [bind, Except.bind] at h
  | ok ranking =>
    rw [hb] at h
    simp only [bind, Except.bind] at h
    obtain ⟨hnd, hsub⟩ := buildLoop_nodup _ _ _ _ hb List.nodup_nil (by simp)
    split at h
    · rename_i c hfind
      simp only [Except.ok.injEq] at h
      subst h
      have hc1 := List.mem_of_find?_eq_some hfind
      have hc2 := List.find?_some hfind
      have hcr : c ∉ ranking := by
        intro hc
        rw [List.contains_iff_mem.2 hc] at hc2
        simp at hc2
      have hlne : locked ≠ [] := by rintro rfl; simp at hc1
      refine ⟨?_, ?_, ?_⟩
      · rw [List.nodup_append]
        refine ⟨hnd, by simp, ?_⟩
        intro a ha b hb'
        simp only [List.mem_singleton] at hb'
        subst hb'
        rintro rfl
        exact hcr ha
      · intro x hx
        rcases List.mem_append.1 hx with hx | hx
        · rcases hsub x hx with h' | h'
          · simp at h'
          · obtain ⟨e, he, rfl⟩ := List.mem_map.1 h'
            exact List.mem_flatMap.2 ⟨e, he, by simp⟩
        · simp only [List.mem_singleton] at hx; subst hx; exact hc1
      · have := buildLoop_grows _ _ _ _ hb hlne
        simp only [List.length_append, List.length_singleton, List.length_nil] at this ⊢
        omega
    · simp at h

/-- **`_build_ranking`, when it raises**: a bare VotingSystemError (several sources) — except for no locked pair at
    all, where `next()` on the exhausted generator raises StopIteration -/
theorem buildRanking_error {locked : List Pair} {e : Err} (h : buildRanking locked = .error e) :
    e = .votingSystemError ∨ (locked = [] ∧ e = .other "StopIteration") := by
  unfold buildRanking at h
  cases hb : buildLoop (locked.length + 1) locked [] with
  | error e' =>
    rw [hb] at h
    simp only [bind, Except.bind, Except.error.injEq] at h
    subst h
    exact Or.inl (buildLoop_error _ _ _ _ (by omega) hb)
  | ok ranking =>
    rw [hb] at h
    simp only [bind, Except.bind] at h
    split at h
    · simp at h
    · rename_i hfind
      simp only [Except.error.injEq] at h
      right
      refine ⟨?_, h.symm⟩
      by_contra hne
      obtain ⟨e0, he0, her⟩ := buildLoop_leftover _ _ _ _ hb hne (by simp)
      have := List.find?_eq_none.1 hfind e0.2 (List.mem_flatMap.2 ⟨e0, he0, by simp⟩)
      simp only [Bool.not_eq_true, Bool.not_eq_false', List.contains_iff_mem] at this
      exact her (by simpa using this)

theorem lockPairs_ne_nil {pairs : List Pair} (h : pairs ≠ []) : lockPairs pairs ≠ [] := by
  cases pairs with
  | nil => exact absurd rfl h
  | cons p ps =>
    rw [lockPairs_eq, List.foldl_cons]
    have hp : lockStep [] p = [p] := by
      unfold lockStep
      rw [isPath_false (by simp)]
      simp
    rw [hp]
    exact List.ne_nil_of_mem (lockFold_mono ps [p] (List.mem_singleton.2 rfl))

theorem mem_lockPairs_sub {pairs : List Pair} {x : Pair} (h : x ∈ lockPairs pairs) : x ∈ pairs := by
  rw [lockPairs_eq] at h
  rcases lockFold_sub pairs [] h with h | h
  · simp at h
  · exact h

theorem candidates_nil : candidates ([] : Pairwise) = [] := rfl

/-- the pairs ranked pairs locks, as the model computes them -/
def rpLocked (sc : Scorer) (v : Pairwise) : List Pair :=
  lockPairs (sortDescBy (pget (scorePairs sc v)) (sortDescBy (pget v) (v.map (·.1))))

theorem rankedPairs_eq (sc : Scorer) (v : Pairwise) (n : Nat) :
    rankedPairs sc v n = (match buildRanking (rpLocked sc v) with
      | .ok ranking => .ok ((ranking.take n).map Slot.cand)
      | .error e => .error e) := by
  unfold rankedPairs rpLocked
  simp only [bind, Except.bind]
  cases buildRanking _ <;> rfl

theorem rpLocked_mem_candidates {sc : Scorer} {v : Pairwise} {c : Cand}
    (h : c ∈ (rpLocked sc v).flatMap (fun e => [e.1, e.2])) : c ∈ candidates v := by
  obtain ⟨e, he, hc⟩ := List.mem_flatMap.1 h
  have he2 : e ∈ v.map (·.1) :=
    ((sortDescBy_perm _ _).trans (sortDescBy_perm _ _)).subset (mem_lockPairs_sub he)
  obtain ⟨x, hx, rfl⟩ := List.mem_map.1 he2
  simp only [List.mem_cons, List.not_mem_nil, or_false] at hc
  rcases hc with rfl | rfl
  · exact fst_mem_candidates hx
  · exact snd_mem_candidates hx

theorem rpLocked_ne_nil {sc : Scorer} {v : Pairwise} (h : v ≠ []) : rpLocked sc v ≠ [] := by
  apply lockPairs_ne_nil
  intro hnil
  have := ((sortDescBy_perm (pget (scorePairs sc v)) _).trans (sortDescBy_perm (pget v) (v.map (·.1)))).length_eq
  rw [hnil] at this
  simp only [List.length_nil, List.length_map] at this
  exact h (List.eq_nil_of_length_eq_zero this.symm)

/- Full statement (FALSE of the current code, `rankedpairs_short_witness`; open findings C05-rankedpairs-candidate-dropped,
   C08-ranked-pairs-leftovers):
     theorem rankedpairs_shape : 1 ≤ n → n ≤ (candidates v).length → rankedPairs sc v n = .ok r → SelShape (candidates v) n r -/

/-- **Ranked pairs, shape (partial).**  Whenever it answers, the result has the selection shape over the candidates of
    the votes for SOME number of places `m`: never a tie object, never a stranger, nobody twice — and `m = n` or
    `2 ≤ m < n`: `_build_ranking` lists the sources of the locked pairs and then appends only ONE of the candidates
    left over, so the list can be shorter than the seats asked for (but one or two seats are always filled). -/
theorem rankedpairs_shape_partial {sc : Scorer} {v : Pairwise} {n : Nat} (_h1 : 1 ≤ n)
    (_hn : n ≤ (candidates v).length) {r : List Slot} (h : rankedPairs sc v n = .ok r) :
    ∃ m, (m = n ∨ (2 ≤ m ∧ m < n)) ∧ SelShape (candidates v) m r := by
  rw [rankedPairs_eq] at h
  split at h
  · rename_i ranking hb
    simp only [Except.ok.injEq] at h
    subst h
    obtain ⟨hnd, hsub, hlen⟩ := buildRanking_ok hb
    refine ⟨(ranking.take n).length, ?_, ?_⟩
    · rw [List.length_take]; omega
    · apply selShape_map_cand rfl (hnd.sublist (List.take_sublist n ranking))
      intro c hc
      exact rpLocked_mem_candidates (hsub c (List.mem_of_mem_take hc))
  · simp at h

/-- one or two seats are always filled exactly -/
theorem rankedpairs_shape_le_two {sc : Scorer} {v : Pairwise} {n : Nat} (h1 : 1 ≤ n) (h2 : n ≤ 2)
    (hn : n ≤ (candidates v).length) {r : List Slot} (h : rankedPairs sc v n = .ok r) :
    SelShape (candidates v) n r := by
  obtain ⟨m, hm, hs⟩ := rankedpairs_shape_partial h1 hn h
  have : m = n := by omega
  exact this ▸ hs

/-- **Ranked pairs refuses only with the declared VotingSystemError** on every non-empty dictionary (in particular
    whenever `1 ≤ n ≤ #candidates`): the loop of `_build_ranking` always terminates within its bound, and the
    `next(...)` after it always finds a candidate (the loser of the pair removed last).  FULL statement. -/
theorem rankedpairs_refusals {sc : Scorer} {v : Pairwise} {n : Nat} (h1 : 1 ≤ n) (hn : n ≤ (candidates v).length)
    {e : Err} (h : rankedPairs sc v n = .error e) : e = .votingSystemError ∨ e = .notImplemented := by
  have hv : v ≠ [] := by
    rintro rfl
    rw [candidates_nil] at hn
    simp only [List.length_nil] at hn
    omega
  rw [rankedPairs_eq] at h
  split at h
  · simp at h
  · rename_i e' hb
    simp only [Except.error.injEq] at h
    subst h
    rcases buildRanking_error hb with h' | ⟨h', _⟩
    · exact Or.inl h'
    · exact absurd h' (rpLocked_ne_nil hv)

/-- all inputs: the only other error value is StopIteration, on the empty dictionary (no candidate at all) -/
theorem rankedpairs_refusals_all {sc : Scorer} {v : Pairwise} {n : Nat} {e : Err} (h : rankedPairs sc v n = .error e) :
    e = .votingSystemError ∨ (v = [] ∧ e = .other "StopIteration") := by
  rw [rankedPairs_eq] at h
  split at h
  · simp at h
  · rename_i e' hb
    simp only [Except.error.injEq] at h
    subst h
    rcases buildRanking_error hb with h' | ⟨h', h''⟩
    · exact Or.inl h'
    · right
      refine ⟨?_, h''⟩
      by_contra hv
      exact rpLocked_ne_nil hv h'

/-- `rankedpairs_shape` is FALSE of the current code: `0` beats `1` (3) and `2` (2), nothing orders `1` and `2`;
    three seats for three candidates give two places.  (Every win scorer.) -/
theorem rankedpairs_short_witness :
    1 ≤ 3 ∧ 3 ≤ (candidates [((0, 1), 3), ((0, 2), 2)]).length ∧
    rankedPairs .winningVotes [((0, 1), 3), ((0, 2), 2)] 3 = .ok [Slot.cand 0, Slot.cand 1] ∧
    rankedPairs .margins [((0, 1), 3), ((0, 2), 2)] 3 = .ok [Slot.cand 0, Slot.cand 1] ∧
    rankedPairs .pairwiseOpposition [((0, 1), 3), ((0, 2), 2)] 3 = .ok [Slot.cand 0, Slot.cand 1] ∧
    ¬ SelShape (candidates [((0, 1), 3), ((0, 2), 2)]) 3 [Slot.cand 0, Slot.cand 1] := by
  refine ⟨by decide, by decide +kernel, by decide +kernel, by decide +kernel, by decide +kernel, ?_⟩
  intro h
  exact absurd h.length (by decide)

example : 1 ≤ 2 ∧ 2 ≤ (candidates C05.exCW).length ∧
    rankedPairs .margins C05.exCW 2 = .ok [Slot.cand 0, Slot.cand 1] := by decide +kernel
example : 1 ≤ 1 ∧ 1 ≤ (candidates C05.exTwoChains).length ∧
    rankedPairs .winningVotes C05.exTwoChains 1 = .error .votingSystemError := by decide +kernel
example : rankedPairs .winningVotes [] 1 = .error (.other "StopIteration") := by decide +kernel

end VL.C08
