/-
  C08 — result shape and refusals of the Condorcet family owned by C05 / C06:
  Kemeny-Young, ranked pairs, the seat-less set selectors (CondorcetWinner, SmithSet, SchwartzSet),
  Benham, Tideman alternative (models VL.Condorcet) and Bucklin / PreferenceAddition for one seat (model VL.Mono).
  (Copeland, minimax and Schulze are treated elsewhere.)
-/
import VotelibProofs.Lemmas.ShapeDefs
import VotelibProofs.Props.C05
import VotelibProofs.Props.C06
import Mathlib.Data.List.Perm.Subperm
import VotelibProofs.Lemmas.MonoBucklin
import VotelibProofs.Lemmas.ConvertPositional
namespace VL.C08
open VL VL.Condorcet

/-! ### a list of distinct candidates, one per place, has the selection shape -/

theorem selShape_map_cand {cands l : List Cand} {n : Nat} (hlen : l.length = n) (hnd : l.Nodup)
    (hsub : ∀ c ∈ l, c ∈ cands) : SelShape cands n (l.map Slot.cand) := by
  refine ⟨by simpa using hlen, ?_, ?_, ?_, ?_, ?_⟩
  · intro c hc
    obtain ⟨d, hd, he⟩ := List.mem_map.mp hc
    injection he with he; subst he; exact hsub d hd
  · intro T hT; obtain ⟨d, _, he⟩ := List.mem_map.mp hT; cases he
  · rw [electedOf_map_cand]; exact hnd
  · intro T hT; obtain ⟨d, _, he⟩ := List.mem_map.mp hT; cases he
  · intro T hT; obtain ⟨d, _, he⟩ := List.mem_map.mp hT; cases he

/-! ### Kemeny-Young (`kemenyYoung v n`, driver C05 op `eval`, name `kemeny_young`) -/

/-- **Kemeny-Young fills exactly the seats asked for with distinct candidates**: whenever it answers, the result is the
    first `n` places of an order of all candidates.  No well-formedness premise is needed. -/
theorem kemeny_shape {v : Pairwise} {n : Nat} (_h1 : 1 ≤ n) (hn : n ≤ (candidates v).length) {r : List Slot}
    (h : kemenyYoung v n = .ok r) : SelShape (candidates v) n r := by
  obtain ⟨best, hp, rfl, _⟩ := kemenyYoung_ok h
  have hnd : best.Nodup := hp.nodup_iff.2 (nodup_candidates v)
  apply selShape_map_cand
  · rw [List.length_take, hp.length_eq]; omega
  · exact hnd.sublist (List.take_sublist n best)
  · intro c hc; exact hp.subset (List.mem_of_mem_take hc)

/-- **Kemeny-Young refuses only with the declared NotImplementedError** (`Tie.tie_rankings`: the best order is not
    unique) -/
theorem kemeny_refusals {v : Pairwise} {n : Nat} {e : Err} (h : kemenyYoung v n = .error e) :
    e = .votingSystemError ∨ e = .notImplemented := Or.inr (C05.kemeny_refusal h)

example : 1 ≤ 2 ∧ 2 ≤ (candidates C05.exCW).length ∧
    kemenyYoung C05.exCW 2 = .ok [Slot.cand 0, Slot.cand 1] := by decide +kernel
example : kemenyYoung C05.exLowerTie 1 = .error .notImplemented := by decide +kernel

/-! ### ranked pairs (`rankedPairs sc v n`, driver C05 op `eval`, names `rankedpairs_winvotes|margins|pwo`) -/

/-- the loop of `_build_ranking` lists distinct sources of locked pairs -/
theorem buildLoop_nodup (f : Nat) : ∀ (edges : List Pair) (rk r : List Cand), buildLoop f edges rk = .ok r →
    rk.Nodup → (∀ e ∈ edges, e.1 ∉ rk) → r.Nodup ∧ ∀ c ∈ r, c ∈ rk ∨ c ∈ edges.map (·.1) := by
  induction f with
  | zero => intro edges rk r h; simp [buildLoop] at h
  | succ f ih =>
    intro edges rk r h hnd hdisj
    unfold buildLoop at h
    split at h
    · simp only [Except.ok.injEq] at h; subst h
      exact ⟨hnd, fun c hc => Or.inl hc⟩
    · simp only at h
      split at h
      · rename_i w hwin
        have hw : w ∈ uniq ((edges.map (·.1)).filter (fun c => !(edges.map (·.2)).contains c)) := by
          rw [hwin]; simp
        rw [mem_uniq, List.mem_filter] at hw
        obtain ⟨e0, he0, he0w⟩ := List.mem_map.1 hw.1
        have hwrk : w ∉ rk := he0w ▸ hdisj e0 he0
        have hnd' : (rk ++ [w]).Nodup := by
          rw [List.nodup_append]
          refine ⟨hnd, by simp, ?_⟩
          intro a ha b hb
          simp only [List.mem_singleton] at hb
          subst hb
          rintro rfl
          exact hwrk ha
        have hdisj' : ∀ e ∈ edges.filter (fun e => e.1 != w), e.1 ∉ rk ++ [w] := by
          intro e he
          obtain ⟨he1, he2⟩ := List.mem_filter.1 he
          simp only [List.mem_append, List.mem_singleton, not_or]
          exact ⟨hdisj e he1, by simpa using he2⟩
        obtain ⟨hr1, hr2⟩ := ih _ _ _ h hnd' hdisj'
        refine ⟨hr1, ?_⟩
        intro c hc
        rcases hr2 c hc with h' | h'
        · rcases List.mem_append.1 h' with h'' | h''
          · exact Or.inl h''
          · simp only [List.mem_singleton] at h''; subst h''; exact Or.inr hw.1
        · obtain ⟨e, he, hec⟩ := List.mem_map.1 h'
          exact Or.inr (List.mem_map.2 ⟨e, (List.mem_filter.1 he).1, hec⟩)
      · simp at h

/-- the fuel `len(locked) + 1` of the loop is never used up: every round removes a locked pair -/
theorem buildLoop_error (f : Nat) : ∀ (edges : List Pair) (rk : List Cand) (e : Err), edges.length < f →
    buildLoop f edges rk = .error e → e = .votingSystemError := by
  induction f with
  | zero => intro edges rk e hf; omega
  | succ f ih =>
    intro edges rk e hf h
    unfold buildLoop at h
    split at h
    · simp at h
    · simp only at h
      split at h
      · rename_i w hwin
        have hw : w ∈ uniq ((edges.map (·.1)).filter (fun c => !(edges.map (·.2)).contains c)) := by
          rw [hwin]; simp
        rw [mem_uniq, List.mem_filter] at hw
        obtain ⟨e0, he0, he0w⟩ := List.mem_map.1 hw.1
        have hlt : (edges.filter (fun e => e.1 != w)).length < edges.length :=
          List.length_filter_lt_length_iff_exists.2 ⟨e0, he0, by simp [he0w]⟩
        exact ih _ _ e (by omega) h
      · simp only [Except.error.injEq] at h; exact h.symm

/-- the loser of the pair removed last is never listed by the loop -/
theorem buildLoop_leftover (f : Nat) : ∀ (edges : List Pair) (rk r : List Cand), buildLoop f edges rk = .ok r →
    edges ≠ [] → (∀ e ∈ edges, e.2 ∉ rk) → ∃ e ∈ edges, e.2 ∉ r := by
  induction f with
  | zero => intro edges rk r h; simp [buildLoop] at h
  | succ f ih =>
    intro edges rk r h hne hI
    unfold buildLoop at h
    split at h
    · rename_i hemp; exact absurd (List.isEmpty_iff.1 hemp) hne
    · simp only at h
      split at h
      · rename_i w hwin
        have hw : w ∈ uniq ((edges.map (·.1)).filter (fun c => !(edges.map (·.2)).contains c)) := by
          rw [hwin]; simp
        rw [mem_uniq, List.mem_filter] at hw
        obtain ⟨e0, he0, he0w⟩ := List.mem_map.1 hw.1
        have hnl : ∀ e ∈ edges, e.2 ≠ w := by
          intro e he hew
          have : (edges.map (·.2)).contains w = true := List.contains_iff_mem.2 (List.mem_map.2 ⟨e, he, hew⟩)
          have h2 := hw.2
          rw [this] at h2
          simp at h2
        by_cases hemp : edges.filter (fun e => e.1 != w) = []
        · rw [hemp] at h
          cases f with
          | zero => simp [buildLoop] at h
          | succ f =>
            unfold buildLoop at h
            simp only [List.isEmpty_nil, if_true, Except.ok.injEq] at h
            subst h
            refine ⟨e0, he0, ?_⟩
            simp only [List.mem_append, List.mem_singleton, not_or]
            exact ⟨hI e0 he0, hnl e0 he0⟩
        · have hI' : ∀ e ∈ edges.filter (fun e => e.1 != w), e.2 ∉ rk ++ [w] := by
            intro e he
            have he1 := (List.mem_filter.1 he).1
            simp only [List.mem_append, List.mem_singleton, not_or]
            exact ⟨hI e he1, hnl e he1⟩
          obtain ⟨e, he, her⟩ := ih _ _ _ h hemp hI'
          exact ⟨e, (List.mem_filter.1 he).1, her⟩
      · simp at h

theorem buildLoop_grows (f : Nat) (edges : List Pair) (rk r : List Cand) (h : buildLoop f edges rk = .ok r)
    (hne : edges ≠ []) : rk.length < r.length := by
  cases f with
  | zero => simp [buildLoop] at h
  | succ f =>
    unfold buildLoop at h
    split at h
    · rename_i hemp; exact absurd (List.isEmpty_iff.1 hemp) hne
    · simp only at h
      split at h
      · have := (buildLoop_prefix _ _ _ _ h).length_le
        simp only [List.length_append, List.length_singleton] at this
        omega
      · simp at h

/-- **`_build_ranking`, when it answers**: the loop's ranking plus ONE further candidate — distinct candidates of the
    locked pairs, at least two of them -/
theorem buildRanking_ok {locked : List Pair} {r : List Cand} (h : buildRanking locked = .ok r) :
    r.Nodup ∧ (∀ c ∈ r, c ∈ locked.flatMap (fun e => [e.1, e.2])) ∧ 2 ≤ r.length := by
  unfold buildRanking at h
  cases hb : buildLoop (locked.length + 1) locked [] with
  | error e => rw [hb] at h; simp [bind, Except.bind] at h
  | ok ranking =>
    rw [hb] at h
    simp only [bind, Except.bind] at h
    obtain ⟨hnd, hsub⟩ := buildLoop_nodup _ _ _ _ hb List.nodup_nil (by simp)
    split at h
    · rename_i c hfind
      simp only [Except.ok.injEq] at h
      subst h
      have hc1 := List.mem_of_find?_eq_some hfind
      have hc2 := List.find?_some hfind
      have hcr : c ∉ ranking := by
        intro hc
        rw [List.contains_iff_mem.2 hc] at hc2
        simp at hc2
      have hlne : locked ≠ [] := by rintro rfl; simp at hc1
      refine ⟨?_, ?_, ?_⟩
      · rw [List.nodup_append]
        refine ⟨hnd, by simp, ?_⟩
        intro a ha b hb'
        simp only [List.mem_singleton] at hb'
        subst hb'
        rintro rfl
        exact hcr ha
      · intro x hx
        rcases List.mem_append.1 hx with hx | hx
        · rcases hsub x hx with h' | h'
          · simp at h'
          · obtain ⟨e, he, rfl⟩ := List.mem_map.1 h'
            exact List.mem_flatMap.2 ⟨e, he, by simp⟩
        · simp only [List.mem_singleton] at hx; subst hx; exact hc1
      · have := buildLoop_grows _ _ _ _ hb hlne
        simp only [List.length_append, List.length_singleton, List.length_nil] at this ⊢
        omega
    · simp at h

/-- **`_build_ranking`, when it raises**: a bare VotingSystemError (several sources) — except for no locked pair at
    all, where `next()` on the exhausted generator raises StopIteration -/
theorem buildRanking_error {locked : List Pair} {e : Err} (h : buildRanking locked = .error e) :
    e = .votingSystemError ∨ (locked = [] ∧ e = .other "StopIteration") := by
  unfold buildRanking at h
  cases hb : buildLoop (locked.length + 1) locked [] with
  | error e' =>
    rw [hb] at h
    simp only [bind, Except.bind, Except.error.injEq] at h
    subst h
    exact Or.inl (buildLoop_error _ _ _ _ (by omega) hb)
  | ok ranking =>
    rw [hb] at h
    simp only [bind, Except.bind] at h
    split at h
    · simp at h
    · rename_i hfind
      simp only [Except.error.injEq] at h
      right
      refine ⟨?_, h.symm⟩
      by_contra hne
      obtain ⟨e0, he0, her⟩ := buildLoop_leftover _ _ _ _ hb hne (by simp)
      have := List.find?_eq_none.1 hfind e0.2 (List.mem_flatMap.2 ⟨e0, he0, by simp⟩)
      simp only [Bool.not_eq_true, Bool.not_eq_false', List.contains_iff_mem] at this
      exact her (by simpa using this)

theorem lockPairs_ne_nil {pairs : List Pair} (h : pairs ≠ []) : lockPairs pairs ≠ [] := by
  cases pairs with
  | nil => exact absurd rfl h
  | cons p ps =>
    rw [lockPairs_eq, List.foldl_cons]
    have hp : lockStep [] p = [p] := by
      unfold lockStep
      rw [isPath_false (by simp)]
      simp
    rw [hp]
    exact List.ne_nil_of_mem (lockFold_mono ps [p] (List.mem_singleton.2 rfl))

theorem mem_lockPairs_sub {pairs : List Pair} {x : Pair} (h : x ∈ lockPairs pairs) : x ∈ pairs := by
  rw [lockPairs_eq] at h
  rcases lockFold_sub pairs [] h with h | h
  · simp at h
  · exact h

theorem candidates_nil : candidates ([] : Pairwise) = [] := rfl

/-- the pairs ranked pairs locks, as the model computes them -/
def rpLocked (sc : Scorer) (v : Pairwise) : List Pair :=
  lockPairs (sortDescBy (pget (scorePairs sc v)) (sortDescBy (pget v) (v.map (·.1))))

theorem rankedPairs_eq (sc : Scorer) (v : Pairwise) (n : Nat) :
    rankedPairs sc v n = (match buildRanking (rpLocked sc v) with
      | .ok ranking => .ok ((ranking.take n).map Slot.cand)
      | .error e => .error e) := by
  unfold rankedPairs rpLocked
  simp only [bind, Except.bind]
  cases buildRanking _ <;> rfl

theorem rpLocked_mem_candidates {sc : Scorer} {v : Pairwise} {c : Cand}
    (h : c ∈ (rpLocked sc v).flatMap (fun e => [e.1, e.2])) : c ∈ candidates v := by
  obtain ⟨e, he, hc⟩ := List.mem_flatMap.1 h
  have he2 : e ∈ v.map (·.1) :=
    ((sortDescBy_perm _ _).trans (sortDescBy_perm _ _)).subset (mem_lockPairs_sub he)
  obtain ⟨x, hx, rfl⟩ := List.mem_map.1 he2
  simp only [List.mem_cons, List.not_mem_nil, or_false] at hc
  rcases hc with rfl | rfl
  · exact fst_mem_candidates hx
  · exact snd_mem_candidates hx

theorem rpLocked_ne_nil {sc : Scorer} {v : Pairwise} (h : v ≠ []) : rpLocked sc v ≠ [] := by
  apply lockPairs_ne_nil
  intro hnil
  have := ((sortDescBy_perm (pget (scorePairs sc v)) _).trans (sortDescBy_perm (pget v) (v.map (·.1)))).length_eq
  rw [hnil] at this
  simp only [List.length_nil, List.length_map] at this
  exact h (List.eq_nil_of_length_eq_zero this.symm)

/- Full statement (FALSE of the current code, `rankedpairs_short_witness`; open findings C05-rankedpairs-candidate-dropped,
   C08-ranked-pairs-leftovers):
     theorem rankedpairs_shape : 1 ≤ n → n ≤ (candidates v).length → rankedPairs sc v n = .ok r → SelShape (candidates v) n r -/

/-- **Ranked pairs, shape (partial).**  Whenever it answers, the result has the selection shape over the candidates of
    the votes for SOME number of places `m`: never a tie object, never a stranger, nobody twice — and `m = n` or
    `2 ≤ m < n`: `_build_ranking` lists the sources of the locked pairs and then appends only ONE of the candidates
    left over, so the list can be shorter than the seats asked for (but one or two seats are always filled). -/
theorem rankedpairs_shape_partial {sc : Scorer} {v : Pairwise} {n : Nat} (_h1 : 1 ≤ n)
    (_hn : n ≤ (candidates v).length) {r : List Slot} (h : rankedPairs sc v n = .ok r) :
    ∃ m, (m = n ∨ (2 ≤ m ∧ m < n)) ∧ SelShape (candidates v) m r := by
  rw [rankedPairs_eq] at h
  split at h
  · rename_i ranking hb
    simp only [Except.ok.injEq] at h
    subst h
    obtain ⟨hnd, hsub, hlen⟩ := buildRanking_ok hb
    refine ⟨(ranking.take n).length, ?_, ?_⟩
    · rw [List.length_take]; omega
    · apply selShape_map_cand rfl (hnd.sublist (List.take_sublist n ranking))
      intro c hc
      exact rpLocked_mem_candidates (hsub c (List.mem_of_mem_take hc))
  · simp at h

/-- one or two seats are always filled exactly -/
theorem rankedpairs_shape_le_two {sc : Scorer} {v : Pairwise} {n : Nat} (h1 : 1 ≤ n) (h2 : n ≤ 2)
    (hn : n ≤ (candidates v).length) {r : List Slot} (h : rankedPairs sc v n = .ok r) :
    SelShape (candidates v) n r := by
  obtain ⟨m, hm, hs⟩ := rankedpairs_shape_partial h1 hn h
  have : m = n := by omega
  exact this ▸ hs

/-- **Ranked pairs refuses only with the declared VotingSystemError** on every non-empty dictionary (in particular
    whenever `1 ≤ n ≤ #candidates`): the loop of `_build_ranking` always terminates within its bound, and the
    `next(...)` after it always finds a candidate (the loser of the pair removed last).  FULL statement. -/
theorem rankedpairs_refusals {sc : Scorer} {v : Pairwise} {n : Nat} (h1 : 1 ≤ n) (hn : n ≤ (candidates v).length)
    {e : Err} (h : rankedPairs sc v n = .error e) : e = .votingSystemError ∨ e = .notImplemented := by
  have hv : v ≠ [] := by
    rintro rfl
    rw [candidates_nil] at hn
    simp only [List.length_nil] at hn
    omega
  rw [rankedPairs_eq] at h
  split at h
  · simp at h
  · rename_i e' hb
    simp only [Except.error.injEq] at h
    subst h
    rcases buildRanking_error hb with h' | ⟨h', _⟩
    · exact Or.inl h'
    · exact absurd h' (rpLocked_ne_nil hv)

/-- all inputs: the only other error value is StopIteration, on the empty dictionary (no candidate at all) -/
theorem rankedpairs_refusals_all {sc : Scorer} {v : Pairwise} {n : Nat} {e : Err} (h : rankedPairs sc v n = .error e) :
    e = .votingSystemError ∨ (v = [] ∧ e = .other "StopIteration") := by
  rw [rankedPairs_eq] at h
  split at h
  · simp at h
  · rename_i e' hb
    simp only [Except.error.injEq] at h
    subst h
    rcases buildRanking_error hb with h' | ⟨h', h''⟩
    · exact Or.inl h'
    · right
      refine ⟨?_, h''⟩
      by_contra hv
      exact rpLocked_ne_nil hv h'

/-- `rankedpairs_shape` is FALSE of the current code: `0` beats `1` (3) and `2` (2), nothing orders `1` and `2`;
    three seats for three candidates give two places.  (Every win scorer.) -/
theorem rankedpairs_short_witness :
    1 ≤ 3 ∧ 3 ≤ (candidates [((0, 1), 3), ((0, 2), 2)]).length ∧
    rankedPairs .winningVotes [((0, 1), 3), ((0, 2), 2)] 3 = .ok [Slot.cand 0, Slot.cand 1] ∧
    rankedPairs .margins [((0, 1), 3), ((0, 2), 2)] 3 = .ok [Slot.cand 0, Slot.cand 1] ∧
    rankedPairs .pairwiseOpposition [((0, 1), 3), ((0, 2), 2)] 3 = .ok [Slot.cand 0, Slot.cand 1] ∧
    ¬ SelShape (candidates [((0, 1), 3), ((0, 2), 2)]) 3 [Slot.cand 0, Slot.cand 1] := by
  refine ⟨by decide, by decide +kernel, by decide +kernel, by decide +kernel, by decide +kernel, ?_⟩
  intro h
  exact absurd h.length (by decide)

example : 1 ≤ 2 ∧ 2 ≤ (candidates C05.exCW).length ∧
    rankedPairs .margins C05.exCW 2 = .ok [Slot.cand 0, Slot.cand 1] := by decide +kernel
example : 1 ≤ 1 ∧ 1 ≤ (candidates C05.exTwoChains).length ∧
    rankedPairs .winningVotes C05.exTwoChains 1 = .error .votingSystemError := by decide +kernel
example : rankedPairs .winningVotes [] 1 = .error (.other "StopIteration") := by decide +kernel

/-! ### the seat-less set selectors (`condorcetWinner`, `smithSet`, `schwartzSet`; driver C06 ops `cw`, `smith`, `schwartz`) -/

theorem keys_beatFold_sub (wins : List Pair) : ∀ (d : Votes) (c : Cand),
    c ∈ keys (wins.foldl (fun d w => incr d w.1 1) d) → c ∈ keys d ∨ c ∈ wins.map (·.1) := by
  induction wins with
  | nil => intro d c h; exact Or.inl h
  | cons w ws ih =>
    intro d c h
    rw [List.foldl_cons] at h
    rcases ih _ c h with h' | h'
    · rw [keys_incr] at h'
      split at h'
      · exact Or.inl h'
      · rcases List.mem_append.1 h' with h'' | h''
        · exact Or.inl h''
        · simp only [List.mem_singleton] at h''; subst h''; exact Or.inr (by simp)
    · exact Or.inr (List.mem_cons_of_mem _ h')

theorem pairwiseWins_fst_mem {v : Pairwise} {t : Bool} {c : Cand} (h : c ∈ (pairwiseWins v t).map (·.1)) :
    c ∈ candidates v := by
  obtain ⟨w, hw, rfl⟩ := List.mem_map.1 h
  unfold pairwiseWins at hw
  obtain ⟨e, he, rfl⟩ := List.mem_map.1 hw
  exact fst_mem_candidates (List.mem_filter.1 he).1

theorem condorcetWinner_mem_candidates {v : Pairwise} {c : Cand} (h : c ∈ condorcetWinner v) : c ∈ candidates v := by
  unfold condorcetWinner at h
  simp only at h
  split at h
  · rename_i p hp
    simp only [List.mem_singleton] at h
    subst h
    have hk : p.1 ∈ keys (beatCounts v) := List.mem_map.2 ⟨p, List.mem_of_find?_eq_some hp, rfl⟩
    unfold beatCounts at hk
    rcases keys_beatFold_sub _ _ _ hk with h' | h'
    · simp [keys] at h'
    · exact pairwiseWins_fst_mem h'
  · simp at h

/-- **The set selectors return distinct candidates of the votes** (they take no seat count: a selector result is a
    set, possibly empty; CondorcetWinner has at most one member).  For every dictionary. -/
theorem seatless_shape (v : Pairwise) :
    ((condorcetWinner v).Nodup ∧ (∀ c ∈ condorcetWinner v, c ∈ candidates v) ∧ (condorcetWinner v).length ≤ 1) ∧
    ((smithSet v).Nodup ∧ ∀ c ∈ smithSet v, c ∈ candidates v) ∧
    ((schwartzSet v).Nodup ∧ ∀ c ∈ schwartzSet v, c ∈ candidates v) := by
  refine ⟨⟨?_, fun c hc => condorcetWinner_mem_candidates hc, ?_⟩,
    ⟨nodup_smithSchwartz v true, fun c hc => smithSchwartz_sub_candidates hc⟩,
    ⟨nodup_smithSchwartz v false, fun c hc => smithSchwartz_sub_candidates hc⟩⟩
  · rcases condorcetWinner_shape v with h | ⟨c, h⟩ <;> rw [h] <;> simp
  · rcases condorcetWinner_shape v with h | ⟨c, h⟩ <;> rw [h] <;> simp

/-- the selectors are total functions of the dictionary: they never refuse (the models return plain lists); and on
    well-formed votes with a candidate the Smith set is non-empty -/
theorem seatless_smith_nonempty {v : Pairwise} (hwf : WF v) (hne : 1 ≤ (candidates v).length) : smithSet v ≠ [] := by
  obtain ⟨c, hc⟩ := (C06.smith_is_least_dominating hwf).2.1 (by
    intro h; rw [h] at hne; simp at hne)
  exact List.ne_nil_of_mem hc

example : WF C06.exTied ∧ 1 ≤ (candidates C06.exTied).length := by decide +kernel

/-! ### Benham and Tideman alternative (`benham p`, `tideman smith p`; driver C05 ops `benham`, `tideman`), one seat -/

theorem nodup_allRanked (p : Profile) : (allRankedCandidates p).Nodup := nodup_uniq _

theorem allRanked_nil : allRankedCandidates ([] : Profile) = [] := rfl

theorem length_le_of_nodup_subset {l₁ l₂ : List Cand} (hnd : l₁.Nodup) (hsub : ∀ c ∈ l₁, c ∈ l₂) :
    l₁.length ≤ l₂.length := (List.Nodup.subperm hnd hsub).length_le

theorem length_allRanked_subset_le (p : Profile) (S : List Cand) :
    (allRankedCandidates (subsetProfile p S)).length ≤ S.length :=
  length_le_of_nodup_subset (nodup_allRanked _) (fun _ hc => (allRanked_subsetProfile hc).1)

theorem length_allRanked_subsetProfile_le (p : Profile) (S : List Cand) :
    (allRankedCandidates (subsetProfile p S)).length ≤ (allRankedCandidates p).length :=
  length_le_of_nodup_subset (nodup_allRanked _) (fun _ hc => (allRanked_subsetProfile hc).2)

theorem length_slotCands_le (l : List Slot) : (slotCands l).length ≤ l.length := List.length_filterMap_le _ _

/-- the raw `get_n_best` of `eliminate_one` fails only on a profile without any candidate -/
theorem eliminateOneRaw_error {p : Profile} {e : Err} (h : eliminateOneRaw p = .error e) :
    e = .other "IndexError" ∧ allRankedCandidates p = [] := by
  have hk := keys_firstPrefTotals p
  unfold eliminateOneRaw at h
  simp only at h
  split at h
  · rename_i h0
    simp only [Except.error.injEq] at h
    refine ⟨h.symm, ?_⟩
    rw [← hk, List.length_eq_zero_iff.mp h0]; rfl
  · simp at h
  · simp at h

/-- `eliminate_one` keeps one place fewer than there are candidates, in the selection shape -/
theorem eliminateOneRaw_ok {p : Profile} {rem : List Slot} (h : eliminateOneRaw p = .ok rem) :
    rem.length + 1 = (allRankedCandidates p).length ∧
      (1 ≤ rem.length → SelShape (allRankedCandidates p) rem.length rem) := by
  have hk := keys_firstPrefTotals p
  have hlen : (firstPrefTotals p).length = (allRankedCandidates p).length := by
    rw [← hk]; simp [keys]
  unfold eliminateOneRaw at h
  simp only at h
  split at h
  · simp at h
  · rename_i h1
    simp only [Except.ok.injEq] at h; subst h
    rw [← hlen, h1]
    exact ⟨rfl, fun h => absurd h (by simp)⟩
  · rename_i m hm
    simp only [Except.ok.injEq] at h; subst h
    have hl := C09.getNBest_length (firstPrefTotals p) (m + 1) (by omega) (by omega)
    rw [hl]
    refine ⟨by omega, fun _ => ?_⟩
    have := getNBest_shape_of_keys (firstPrefTotals p) _ hk (nodup_allRanked p) (m + 1) (by omega) (by omega)
    exact this

/-- `eliminate_one` (after fix 30bd79e): besides the IndexError of a profile without candidates the only error is the
    declared refusal of a tied elimination -/
theorem eliminateOne_error {p : Profile} {e : Err} (h : eliminateOne p = .error e) :
    (e = .other "IndexError" ∧ allRankedCandidates p = []) ∨ e = .notImplemented := by
  unfold eliminateOne at h
  split at h
  · rename_i e' hraw
    simp only [Except.error.injEq] at h; subst h
    exact Or.inl (eliminateOneRaw_error hraw)
  · split at h
    · simp only [Except.error.injEq] at h; exact Or.inr h.symm
    · simp at h

theorem eliminateOne_ok {p : Profile} {rem : List Slot} (h : eliminateOne p = .ok rem) :
    rem.length + 1 = (allRankedCandidates p).length ∧
      (1 ≤ rem.length → SelShape (allRankedCandidates p) rem.length rem) :=
  eliminateOneRaw_ok (eliminateOne_spec h).1

/-- the candidates of an answer without tie object: as many as places, distinct, candidates of `C` -/
theorem slotCands_of_noTie {C : List Cand} {k : Nat} {rem : List Slot} (hs : SelShape C k rem)
    (hno : rem.any isTie = false) :
    (slotCands rem).length = k ∧ (slotCands rem).Nodup ∧ ∀ c ∈ slotCands rem, c ∈ C := by
  have hmap : rem = (slotCands rem).map Slot.cand := by
    clear hs
    induction rem with
    | nil => rfl
    | cons x xs ih =>
      simp only [List.any_cons, Bool.or_eq_false_iff] at hno
      cases x with
      | cand c =>
        have := ih hno.2
        simp only [slotCands, List.filterMap_cons, List.map_cons] at this ⊢
        rw [← this]
      | tie T => simp [isTie] at hno
  have hel : electedOf rem = slotCands rem := by
    conv_lhs => rw [hmap]
    exact electedOf_map_cand _
  refine ⟨?_, hel ▸ hs.nodup, ?_⟩
  · have := hs.length
    rw [hmap, List.length_map] at this
    exact this
  · intro c hc
    apply hs.cand_ok c
    rw [hmap]
    exact List.mem_map.mpr ⟨c, hc, rfl⟩

theorem badd_ne_nil (acc : Profile) (b : Ballot) (x : Rat) : badd acc b x ≠ [] := by
  cases acc with
  | nil => simp [badd]
  | cons a rest =>
    obtain ⟨q, y⟩ := a
    unfold badd
    split <;> simp

theorem subsetProfile_ne_nil {p : Profile} (S : List Cand) (h : p ≠ []) : subsetProfile p S ≠ [] := by
  unfold subsetProfile
  have key : ∀ (l : Profile) (acc : Profile), acc ≠ [] →
      l.foldl (fun acc b => badd acc (subsetBallot S b.1) b.2) acc ≠ [] := by
    intro l
    induction l with
    | nil => intro acc h; exact h
    | cons b bs ih => intro acc _; rw [List.foldl_cons]; exact ih _ (badd_ne_nil _ _ _)
  cases p with
  | nil => exact absurd rfl h
  | cons b bs => rw [List.foldl_cons]; exact key _ _ (badd_ne_nil _ _ _)

theorem mem_subsetBallot_of {T : List Cand} {b : Ballot} {c : Cand} (hT : c ∈ T) (hc : c ∈ b.flatMap itemCands) :
    c ∈ (subsetBallot T b).flatMap itemCands := by
  induction b with
  | nil => simp at hc
  | cons it rest ih =>
    rw [List.flatMap_cons, List.mem_append] at hc
    cases it with
    | one d =>
      unfold subsetBallot
      split
      · rw [List.flatMap_cons, List.mem_append]
        rcases hc with hc | hc
        · exact Or.inl hc
        · exact Or.inr (ih hc)
      · rename_i hd
        rcases hc with hc | hc
        · simp only [itemCands, List.mem_singleton] at hc
          subst hc
          exact absurd (List.contains_iff_mem.mpr hT) hd
        · exact ih hc
    | shared cs =>
      unfold subsetBallot
      have hfil : c ∈ cs → c ∈ cs.filter (fun c => T.contains c) := fun h =>
        List.mem_filter.mpr ⟨h, List.contains_iff_mem.mpr hT⟩
      split
      · rename_i hnil
        rcases hc with hc | hc
        · have := hfil hc; rw [hnil] at this; cases this
        · exact ih hc
      · rename_i d hone
        rw [List.flatMap_cons, List.mem_append]
        rcases hc with hc | hc
        · have := hfil hc; rw [hone] at this
          exact Or.inl (by simpa [itemCands] using this)
        · exact Or.inr (ih hc)
      · rw [List.flatMap_cons, List.mem_append]
        rcases hc with hc | hc
        · exact Or.inl (hfil hc)
        · exact Or.inr (ih hc)

theorem key_mem_badd (acc : Profile) (b : Ballot) (x : Rat) : ∃ e ∈ badd acc b x, e.1 = b := by
  induction acc with
  | nil => exact ⟨(b, x), by simp [badd], rfl⟩
  | cons a rest ih =>
    obtain ⟨q, y⟩ := a
    unfold badd
    split
    · rename_i h; exact ⟨(q, y + x), by simp, h⟩
    · obtain ⟨e, he, hb⟩ := ih
      exact ⟨e, List.mem_cons_of_mem _ he, hb⟩

theorem key_kept_badd {acc : Profile} {k : Ballot} (b : Ballot) (x : Rat) (h : ∃ e ∈ acc, e.1 = k) :
    ∃ e ∈ badd acc b x, e.1 = k := by
  induction acc with
  | nil => obtain ⟨e, he, _⟩ := h; cases he
  | cons a rest ih =>
    obtain ⟨q, y⟩ := a
    obtain ⟨e, he, hk⟩ := h
    unfold badd
    split
    · rename_i hq
      rcases List.mem_cons.mp he with rfl | he
      · exact ⟨(q, y + x), by simp, hk⟩
      · exact ⟨e, List.mem_cons_of_mem _ he, hk⟩
    · rcases List.mem_cons.mp he with rfl | he
      · exact ⟨(q, y), by simp, hk⟩
      · obtain ⟨e', he', hk'⟩ := ih ⟨e, he, hk⟩
        exact ⟨e', List.mem_cons_of_mem _ he', hk'⟩

theorem key_mem_subsetProfile {p : Profile} (T : List Cand) {b : Ballot × Rat} (hb : b ∈ p) :
    ∃ e ∈ subsetProfile p T, e.1 = subsetBallot T b.1 := by
  unfold subsetProfile
  have key : ∀ (l : Profile) (acc : Profile), (b ∈ l ∨ ∃ e ∈ acc, e.1 = subsetBallot T b.1) →
      ∃ e ∈ l.foldl (fun acc b => badd acc (subsetBallot T b.1) b.2) acc, e.1 = subsetBallot T b.1 := by
    intro l
    induction l with
    | nil =>
      intro acc h
      rcases h with h | h
      · cases h
      · exact h
    | cons x xs ih =>
      intro acc h
      rw [List.foldl_cons]
      apply ih
      rcases h with h | h
      · rcases List.mem_cons.mp h with rfl | h
        · exact Or.inr (key_mem_badd _ _ _)
        · exact Or.inl h
      · exact Or.inr (key_kept_badd _ _ h)
  exact key p [] (Or.inl hb)

/-- subsetting keeps every candidate of the subset that was ranked before -/
theorem mem_allRanked_subsetProfile {p : Profile} {T : List Cand} {c : Cand} (hT : c ∈ T)
    (hc : c ∈ allRankedCandidates p) : c ∈ allRankedCandidates (subsetProfile p T) := by
  obtain ⟨b, hb, hcb⟩ := mem_allRanked hc
  obtain ⟨e, he, hk⟩ := key_mem_subsetProfile T hb
  exact item_mem_allRanked he (by rw [hk]; exact mem_subsetBallot_of hT hcb)

theorem length_allRanked_subsetProfile_ge {p : Profile} {S : List Cand} (hnd : S.Nodup)
    (hsub : ∀ c ∈ S, c ∈ allRankedCandidates p) : S.length ≤ (allRankedCandidates (subsetProfile p S)).length :=
  length_le_of_nodup_subset hnd (fun c hc => mem_allRanked_subsetProfile hc (hsub c hc))

theorem benhamCW_mem {p : Profile} {c : Cand} (h : benhamCW p = some c) : c ∈ allRankedCandidates p := by
  unfold benhamCW at h
  have : c ∈ condorcetWinner (rankedToCondorcet p) := by
    cases hcw : condorcetWinner (rankedToCondorcet p) with
    | nil => rw [hcw] at h; simp at h
    | cons a t => rw [hcw] at h; simp only [List.head?_cons, Option.some.injEq] at h; subst h; simp
  exact candidates_rankedToCondorcet_sub p (condorcetWinner_mem_candidates this)

theorem benhamLoop_shape (votes : Profile) : ∀ (f : Nat) (cur : Profile) (r : List Slot),
    (∀ c ∈ allRankedCandidates cur, c ∈ allRankedCandidates votes) → benhamLoop votes f cur = .ok r →
    SelShape (allRankedCandidates votes) 1 r := by
  intro f
  induction f with
  | zero => intro cur r _ h; simp [benhamLoop] at h
  | succ f ih =>
    intro cur r hsub h
    unfold benhamLoop at h
    split at h
    · rename_i c hc
      simp only [Except.ok.injEq] at h; subst h
      exact selShape_map_cand (l := [c]) rfl (by simp)
        (fun x hx => by simp only [List.mem_singleton] at hx; subst hx; exact hsub _ (benhamCW_mem hc))
    · split at h
      · simp at h
      · rename_i remains hel
        split at h
        · rename_i hlen
          simp only [Except.ok.injEq] at h; subst h
          have := (eliminateOne_ok hel).2 (by omega)
          rw [hlen] at this
          exact this.mono hsub
        · exact ih _ r (fun c hc => (allRanked_subsetProfile hc).2) h

/-- with at least two candidates left (and they are candidates of the votes) the Benham loop never crashes: the only
    error is the declared refusal of a tied elimination; the loop ends within its bound -/
theorem benhamLoop_error (votes : Profile) : ∀ (f : Nat) (cur : Profile) (e : Err),
    (allRankedCandidates cur).length < f → 2 ≤ (allRankedCandidates cur).length →
    (∀ c ∈ allRankedCandidates cur, c ∈ allRankedCandidates votes) →
    benhamLoop votes f cur = .error e → e = .notImplemented := by
  intro f
  induction f with
  | zero => intro cur e hf; omega
  | succ f ih =>
    intro cur e hf h2 hsub h
    unfold benhamLoop at h
    split at h
    · simp at h
    · split at h
      · rename_i e' hel
        simp only [Except.error.injEq] at h; subst h
        rcases eliminateOne_error hel with ⟨_, h0⟩ | hni
        · rw [h0] at h2; simp at h2
        · exact hni
      · rename_i remains hel
        split at h
        · simp at h
        · rename_i hlen
          obtain ⟨hl, hshape⟩ := eliminateOne_ok hel
          have hno : remains.any isTie = false := by
            rcases (eliminateOne_spec hel).2 with h1 | h1
            · omega
            · exact h1
          obtain ⟨hcl, hcnd, hcsub⟩ := slotCands_of_noTie (hshape (by omega)) hno
          have hge := length_allRanked_subsetProfile_ge (p := votes) hcnd (fun c hc => hsub c (hcsub c hc))
          apply ih _ e _ (by omega) (fun c hc => (allRanked_subsetProfile hc).2) h
          have h1 := length_allRanked_subset_le votes (slotCands remains)
          omega

theorem lone_or_not (p : Profile) : (∃ c, allRankedCandidates p = [c]) ∨ ∀ c, allRankedCandidates p ≠ [c] := by
  by_cases h : ∃ c, allRankedCandidates p = [c]
  · exact Or.inl h
  · exact Or.inr (fun c hc => h ⟨c, hc⟩)

/-- **Benham fills the one seat** with a candidate of the profile or one reported tie of at least two of its
    candidates, whenever it answers — a lone candidate included (fix 1230cf6).  FULL statement (one seat is all the
    evaluator is anchored for). -/
theorem benham_shape {p : Profile} (_h1 : 1 ≤ (allRankedCandidates p).length) {r : List Slot}
    (h : benham p = .ok r) : SelShape (allRankedCandidates p) 1 r := by
  rcases lone_or_not p with ⟨c, hc⟩ | hnl
  · rw [benham_lone hc] at h
    injection h with h; subst h
    rw [hc]
    exact selShape_map_cand (l := [c]) rfl (by simp) (fun x hx => hx)
  · rw [benham_of_not_lone hnl] at h
    exact benhamLoop_shape p _ p r (fun _ h => h) h

/-- a lone candidate is elected (fixed finding C05-benham-single-candidate-crash) -/
theorem benham_lone_elected {p : Profile} {c : Cand} (h : allRankedCandidates p = [c]) : benham p = .ok [Slot.cand c] :=
  benham_lone h

/-- **Benham, refusals (FULL since fix 30bd79e).**  With at least one candidate the only error outcome is the declared
    `NotImplementedError` of a tied elimination: the `IndexError` of an emptied candidate set is unreachable (every
    round keeps at least two candidates) and the loop ends within its bound. -/
theorem benham_refusals {p : Profile} (h1 : 1 ≤ (allRankedCandidates p).length) {e : Err} (h : benham p = .error e) :
    e = .votingSystemError ∨ e = .notImplemented := by
  rcases lone_or_not p with ⟨c, hc⟩ | hnl
  · rw [benham_lone hc] at h; cases h
  · rw [benham_of_not_lone hnl] at h
    have h2 : 2 ≤ (allRankedCandidates p).length := by
      match hl : allRankedCandidates p with
      | [] => rw [hl] at h1; simp at h1
      | [c] => exact absurd hl (hnl c)
      | _ :: _ :: _ => simp
    exact Or.inr (benhamLoop_error p _ p e (by omega) h2 (fun _ h => h) h)

/-- the refusal is reached: a three-way first-preference tie (abc:2, bca:2, cab:2) — it used to end in `IndexError`
    (fixed finding C05-benham-elimination-tie-crash) -/
theorem benham_refusals_witness :
    1 ≤ (allRankedCandidates C05.exCycleProfile).length ∧
      benham C05.exCycleProfile = .error .notImplemented := by decide +kernel

example : 1 ≤ (allRankedCandidates C05.exProfile).length ∧ benham C05.exProfile = .ok [Slot.cand 1] := by
  decide +kernel
example : benham [([.one 0, .one 1], 1), ([.one 1, .one 0], 1)] = .ok [Slot.tie [0, 1]] := by decide +kernel
/-- (fixed by 1230cf6) a single candidate takes the seat -/
example : benham [([.one 0], 5)] = .ok [Slot.cand 0] := by decide +kernel

/-- **Tideman alternative fills the one seat with a candidate of the profile**, whenever it answers (never a tie:
    a tied tier ends in KeyError, see `tideman_refusals_partial`).  FULL statement. -/
theorem tideman_shape {smith : Bool} {p : Profile} (_h1 : 1 ≤ (allRankedCandidates p).length) {r : List Slot}
    (h : tideman smith p = .ok r) : SelShape (allRankedCandidates p) 1 r := by
  unfold tideman at h
  split at h
  · simp at h
  · rename_i c _
    split at h
    · rename_i hc
      simp only [Except.ok.injEq] at h; subst h
      exact selShape_map_cand (l := [c]) rfl (by simp)
        (fun x hx => by simp only [List.mem_singleton] at hx; subst hx; exact List.contains_iff_mem.1 hc)
    · simp at h
  · simp at h

theorem tier_sset_facts (smith : Bool) (rv : Profile) :
    let sset0 := smithSchwartz (rankedToCondorcet rv) smith
    let sset := if sset0.isEmpty then allRankedCandidates rv else sset0
    sset.Nodup ∧ (∀ c ∈ sset, c ∈ allRankedCandidates rv) ∧ (1 ≤ (allRankedCandidates rv).length → sset ≠ []) := by
  simp only
  split
  · exact ⟨nodup_allRanked rv, fun _ h => h, fun h hn => by rw [hn] at h; simp at h⟩
  · rename_i hne
    exact ⟨nodup_smithSchwartz _ smith,
      fun c hc => candidates_rankedToCondorcet_sub rv (smithSchwartz_sub_candidates hc),
      fun _ hn => hne (by rw [hn]; rfl)⟩

/-- a tier that has a candidate never crashes: its only error is the declared refusal of a tied elimination -/
theorem tidemanTier_error (smith : Bool) : ∀ (f : Nat) (rv : Profile) (e : Err),
    1 ≤ (allRankedCandidates rv).length → (allRankedCandidates rv).length < f →
    tidemanTier smith f rv = .error e → e = .notImplemented := by
  intro f
  induction f with
  | zero => intro rv e _ hf; omega
  | succ f ih =>
    intro rv e h1 hf h
    obtain ⟨hsnd, hssub, hsne⟩ := tier_sset_facts smith rv
    unfold tidemanTier at h
    split at h
    · simp only [Except.error.injEq] at h; exact h.symm
    · simp only at h hsnd hssub hsne
      split at h
      · simp at h
      · rename_i hnot1
        generalize hs : (if (smithSchwartz (rankedToCondorcet rv) smith).isEmpty = true then allRankedCandidates rv
            else smithSchwartz (rankedToCondorcet rv) smith) = sset at h hsnd hssub hsne hnot1
        have hs2 : 2 ≤ sset.length := by
          match sset, hsne h1, hnot1 with
          | [c], _, hn => exact absurd rfl (hn c)
          | _ :: _ :: _, _, _ => simp
        have hrv2 := length_allRanked_subsetProfile_ge (p := rv) hsnd hssub
        split at h
        · rename_i e' hel
          simp only [Except.error.injEq] at h; subst h
          rcases eliminateOne_error hel with ⟨_, h0⟩ | hni
          · rw [h0] at hrv2; simp only [List.length_nil] at hrv2; omega
          · exact hni
        · simp only [Except.error.injEq] at h; exact h.symm
        · simp at h
        · rename_i rem hnt hn1 hel
          obtain ⟨hl, hshape⟩ := eliminateOne_ok hel
          have hlen2 : 2 ≤ rem.length := by
            have : rem.length ≠ 1 := by
              intro h1'
              match rem, h1' with
              | [x], _ =>
                cases x with
                | cand c => exact hn1 _ rfl
                | tie T => exact hnt _ rfl
            omega
          have hno : rem.any isTie = false := by
            rcases (eliminateOne_spec hel).2 with h1' | h1'
            · omega
            · exact h1'
          obtain ⟨hcl, hcnd, hcsub⟩ := slotCands_of_noTie (hshape (by omega)) hno
          have hge := length_allRanked_subsetProfile_ge (p := subsetProfile rv sset) hcnd hcsub
          apply ih _ e (by omega) _ h
          have h1' := length_allRanked_subset_le (subsetProfile rv sset) (slotCands rem)
          have h4 := length_allRanked_subsetProfile_le rv sset
          omega

/-- the winner of a tier is a single candidate of the tier's ballots, never a `Tie` -/
theorem tidemanTier_ok (smith : Bool) : ∀ (f : Nat) (rv : Profile) (s : Slot),
    tidemanTier smith f rv = .ok s → ∃ c, s = Slot.cand c ∧ c ∈ allRankedCandidates rv := by
  intro f
  induction f with
  | zero => intro rv s h; simp [tidemanTier] at h
  | succ f ih =>
    intro rv s h
    obtain ⟨_, hssub, _⟩ := tier_sset_facts smith rv
    unfold tidemanTier at h
    split at h
    · simp at h
    · simp only at h hssub
      split at h
      · rename_i c hc
        simp only [Except.ok.injEq] at h; subst h
        exact ⟨c, rfl, hssub c (by rw [hc]; simp)⟩
      · split at h
        · simp at h
        · simp at h
        · rename_i s' hnt hel
          simp only [Except.ok.injEq] at h; subst h
          have hshape := (eliminateOne_ok hel).2 (by simp)
          cases s' with
          | tie T => exact absurd rfl (hnt T)
          | cand c =>
            exact ⟨c, rfl, (allRanked_subsetProfile (hshape.cand_ok c (by simp))).2⟩
        · obtain ⟨c, hc, hm⟩ := ih _ s h
          exact ⟨c, hc, (allRanked_subsetProfile (allRanked_subsetProfile hm).2).2⟩

theorem tidemanRunTier_ok (smith : Bool) (f : Nat) (rv : Profile) (s : Slot)
    (h : tidemanRunTier smith f rv = .ok s) : ∃ c, s = Slot.cand c ∧ c ∈ allRankedCandidates rv := by
  unfold tidemanRunTier at h
  split at h
  · rename_i c hc
    simp only [Except.ok.injEq] at h; subst h
    exact ⟨c, rfl, by rw [hc]; simp⟩
  · exact tidemanTier_ok smith f rv s h

/-- the tier as a whole: a lone candidate wins it; otherwise the only error is the declared refusal -/
theorem tidemanRunTier_error (smith : Bool) (f : Nat) (rv : Profile) (e : Err)
    (h1 : 1 ≤ (allRankedCandidates rv).length)
    (hf : (allRankedCandidates rv).length < f) (h : tidemanRunTier smith f rv = .error e) : e = .notImplemented := by
  rcases lone_or_not rv with ⟨c, hc⟩ | hnl
  · unfold tidemanRunTier at h; rw [hc] at h; cases h
  · rw [tidemanRunTier_of_not_lone hnl] at h
    exact tidemanTier_error smith f rv e h1 hf h

/-- **Tideman alternative, refusals (FULL since fix 30bd79e).**  With at least one candidate the only error outcome is
    the declared `NotImplementedError` of a tied elimination: the `IndexError` of an emptied tier and the `KeyError` of
    `eligible_set.remove(Tie)` are unreachable (a tier keeps at least two candidates and answers with one candidate of
    its ballots), and the tier loop ends within its bound. -/
theorem tideman_refusals {smith : Bool} {p : Profile} (h1 : 1 ≤ (allRankedCandidates p).length) {e : Err}
    (h : tideman smith p = .error e) : e = .votingSystemError ∨ e = .notImplemented := by
  unfold tideman at h
  split at h
  · rename_i e' ht
    simp only [Except.error.injEq] at h; subst h
    exact Or.inr (tidemanRunTier_error smith _ p _ h1 (by omega) ht)
  · rename_i c ht
    obtain ⟨c', hc', hm⟩ := tidemanRunTier_ok smith _ p _ ht
    injection hc' with hc'; subst hc'
    split at h
    · simp at h
    · rename_i hcon; exact absurd (List.contains_iff_mem.mpr hm) hcon
  · rename_i T ht
    obtain ⟨c', hc', _⟩ := tidemanRunTier_ok smith _ p _ ht
    cases hc'

/-- without any vote the declared refusal -/
theorem tideman_no_votes (smith : Bool) : tideman smith [] = .error .notImplemented := by
  cases smith <;> decide +kernel

/-- the refusal is reached: a three-way first-preference tie, and a two-candidate dead heat — they used to end in
    `IndexError` resp. `KeyError` (fixed findings C05-tideman-elimination-tie-crash, C05-tideman-tie-keyerror) -/
theorem tideman_refusals_witness :
    1 ≤ (allRankedCandidates C05.exCycleProfile).length ∧
      tideman true C05.exCycleProfile = .error .notImplemented ∧
      tideman false C05.exCycleProfile = .error .notImplemented ∧
    1 ≤ (allRankedCandidates [([.one 0, .one 1], (1 : Rat)), ([.one 1, .one 0], 1)]).length ∧
      tideman true [([.one 0, .one 1], 1), ([.one 1, .one 0], 1)] = .error .notImplemented := by decide +kernel

example : 1 ≤ (allRankedCandidates C05.exProfile).length ∧ tideman true C05.exProfile = .ok [Slot.cand 1] ∧
    tideman false C05.exProfile = .ok [Slot.cand 1] := by decide +kernel
/-- (fixed by bddde61) a single candidate takes the seat -/
example : tideman true [([.one 0], 5)] = .ok [Slot.cand 0] := by decide +kernel

/-! #### Tideman alternative for `n` seats (`tidemanN`, after fixes 33df8fe / bddde61: one tier per seat) -/

theorem eraseCand_eq_erase (l : List Cand) (c : Cand) : eraseCand l c = l.erase c := by
  induction l with
  | nil => rfl
  | cons x xs ih =>
    unfold eraseCand
    by_cases h : x = c
    · subst h; simp
    · rw [if_neg h, ih, List.erase_cons_tail (by simpa using h)]

/-- invariant of the seat loop: the winners so far `cs` and the still eligible candidates partition the candidates -/
structure TLInv (cands : List Cand) (n : Nat) (eligible cs : List Cand) : Prop where
  nd_e : eligible.Nodup
  nd_c : cs.Nodup
  disj : ∀ c ∈ cs, c ∉ eligible
  sub_e : ∀ c ∈ eligible, c ∈ cands
  sub_c : ∀ c ∈ cs, c ∈ cands
  total : cs.length + eligible.length = cands.length
  short : cs.length < n
  fits : n ≤ cands.length

theorem tidemanLoop_shape (smith : Bool) (tf : Nat) (cands : List Cand) (n : Nat) :
    ∀ (f : Nat) (tier : Profile) (eligible cs : List Cand) (r : List Slot), TLInv cands n eligible cs →
      tidemanLoop smith tf f tier eligible (cs.map Slot.cand) n = .ok r → SelShape cands n r := by
  intro f
  induction f with
  | zero => intro tier eligible cs r _ h; simp [tidemanLoop] at h
  | succ f ih =>
    intro tier eligible cs r hinv h
    unfold tidemanLoop at h
    split at h
    · simp at h
    · simp at h
    · rename_i c _
      split at h
      · simp at h
      · rename_i hcon
        have hce : c ∈ eligible := by simpa using hcon
        have hcs : c ∉ cs := fun hm => hinv.disj c hm hce
        have hacc : cs.map Slot.cand ++ [Slot.cand c] = (cs ++ [c]).map Slot.cand := by simp
        have hlen_e : (eraseCand eligible c).length + 1 = eligible.length := by
          rw [eraseCand_eq_erase, List.length_erase_of_mem hce]
          have := List.length_pos_of_mem hce
          omega
        have hnd' : (cs ++ [c]).Nodup := by
          refine List.nodup_append.mpr ⟨hinv.nd_c, by simp, ?_⟩
          intro a ha b hb hab
          simp only [List.mem_singleton] at hb
          subst hb; subst hab; exact hcs ha
        have hsub' : ∀ x ∈ cs ++ [c], x ∈ cands := by
          intro x hx
          rcases List.mem_append.mp hx with hx | hx
          · exact hinv.sub_c x hx
          · simp only [List.mem_singleton] at hx; subst hx; exact hinv.sub_e _ hce
        have hlen' : (cs ++ [c]).length = cs.length + 1 := by simp
        have htot := hinv.total
        have hshort := hinv.short
        have hfits := hinv.fits
        simp only at h
        split at h
        · rename_i hstop
          simp only [Except.ok.injEq] at h; subst h
          rw [hacc]
          refine selShape_map_cand ?_ hnd' hsub'
          simp only [Bool.or_eq_true, decide_eq_true_eq, List.isEmpty_iff] at hstop
          rcases hstop with hstop | hstop
          · rw [hacc, List.length_map] at hstop; exact hstop
          · rw [hstop] at hlen_e
            simp only [List.length_nil] at hlen_e
            omega
        · rename_i hgo
          simp only [Bool.or_eq_true, decide_eq_true_eq, List.isEmpty_iff, not_or] at hgo
          rw [hacc] at h hgo
          rw [List.length_map] at hgo
          refine ih _ _ (cs ++ [c]) r ?_ h
          refine ⟨?_, hnd', ?_, ?_, hsub', by omega, by omega, hfits⟩
          · rw [eraseCand_eq_erase]; exact hinv.nd_e.erase c
          · intro x hx hxe
            rw [eraseCand_eq_erase] at hxe
            have hxe' := (hinv.nd_e.mem_erase_iff.mp hxe)
            rcases List.mem_append.mp hx with hx | hx
            · exact hinv.disj x hx hxe'.2
            · simp only [List.mem_singleton] at hx; exact hxe'.1 hx
          · intro x hx
            rw [eraseCand_eq_erase] at hx
            exact hinv.sub_e x (List.mem_of_mem_erase hx)

/-- **Tideman alternative for `n` seats** (`1 ≤ n ≤ #candidates`): whenever it answers, exactly `n` distinct candidates
    of the profile, never a tie object (a tied tier or an elimination tie ends in KeyError / IndexError: open
    findings).  FULL shape statement. -/
theorem tidemanN_shape {smith : Bool} {p : Profile} {n : Nat} (h1 : 1 ≤ n) (hn : n ≤ (allRankedCandidates p).length)
    {r : List Slot} (h : tidemanN smith p n = .ok r) : SelShape (allRankedCandidates p) n r := by
  unfold tidemanN at h
  exact tidemanLoop_shape smith _ (allRankedCandidates p) n _ p (allRankedCandidates p) [] r
    ⟨nodup_allRanked p, List.nodup_nil, by simp, fun _ h => h, by simp, by simp, (by simp only [List.length_nil]; omega), hn⟩ h

theorem tidemanLoop_error (smith : Bool) (tf n : Nat) :
    ∀ (f : Nat) (tier : Profile) (eligible : List Cand) (acc : List Slot) (e : Err), eligible ≠ [] → eligible.Nodup →
      (∀ c, c ∈ allRankedCandidates tier ↔ c ∈ eligible) →
      (allRankedCandidates tier).length < tf → eligible.length < f →
      tidemanLoop smith tf f tier eligible acc n = .error e → e = .notImplemented := by
  intro f
  induction f with
  | zero => intro tier eligible acc e _ _ _ _ hf; omega
  | succ f ih =>
    intro tier eligible acc e hne hnd hiff htf hf h
    have h1 : 1 ≤ (allRankedCandidates tier).length := by
      obtain ⟨c, hc⟩ := List.exists_mem_of_ne_nil _ hne
      exact List.length_pos_of_mem ((hiff c).mpr hc)
    unfold tidemanLoop at h
    split at h
    · rename_i e' ht
      simp only [Except.error.injEq] at h; subst h
      exact tidemanRunTier_error smith tf tier _ h1 htf ht
    · rename_i T ht
      obtain ⟨c', hc', _⟩ := tidemanRunTier_ok smith _ tier _ ht
      cases hc'
    · rename_i c ht
      obtain ⟨c', hc', hm⟩ := tidemanRunTier_ok smith _ tier _ ht
      injection hc' with hc'; subst hc'
      have hce : c ∈ eligible := (hiff c).mp hm
      split at h
      · rename_i hcon
        simp only [Bool.not_eq_true', List.contains_eq_mem, decide_eq_false_iff_not] at hcon
        exact absurd hce hcon
      · simp only at h
        split at h
        · cases h
        · rename_i hgo
          simp only [Bool.or_eq_true, decide_eq_true_eq, List.isEmpty_iff, not_or] at hgo
          have hsubE : ∀ x ∈ eraseCand eligible c, x ∈ eligible := by
            intro x hx; rw [eraseCand_eq_erase] at hx; exact List.mem_of_mem_erase hx
          refine ih _ _ _ e hgo.2 (by rw [eraseCand_eq_erase]; exact hnd.erase c) ?_ ?_ ?_ h
          · intro x
            constructor
            · intro hx; exact (allRanked_subsetProfile hx).1
            · intro hx; exact mem_allRanked_subsetProfile hx ((hiff x).mpr (hsubE x hx))
          · have := length_allRanked_subsetProfile_le tier (eraseCand eligible c)
            omega
          · rw [eraseCand_eq_erase, List.length_erase_of_mem hce]
            have := List.length_pos_of_mem hce
            omega

/-- **Tideman alternative for `n` seats, refusals (FULL since fix 30bd79e)**: with at least one candidate the only error
    outcome is the declared `NotImplementedError` of a tied elimination; neither loop exhausts its bound, no tier is
    emptied (`IndexError`) and no tier answers with a `Tie` or a stranger (`KeyError`). -/
theorem tidemanN_refusals {smith : Bool} {p : Profile} {n : Nat} (h1 : 1 ≤ (allRankedCandidates p).length)
    {e : Err} (h : tidemanN smith p n = .error e) : e = .votingSystemError ∨ e = .notImplemented := by
  unfold tidemanN at h
  refine Or.inr (tidemanLoop_error smith _ n _ p _ [] e ?_ (nodup_allRanked p) (fun _ => Iff.rfl) (by omega) (by omega) h)
  intro h0; rw [h0] at h1; simp at h1

/-- the refusal is reached: an elimination tie in the first tier; a dead heat for the second seat -/
theorem tidemanN_refusals_witness :
    tidemanN true C05.exCycleProfile 2 = .error .notImplemented ∧
    tidemanN true [([.one 0, .one 1, .one 2], (1 : Rat)), ([.one 0, .one 2, .one 1], 1)] 2 = .error .notImplemented := by
  decide +kernel

example : tidemanN true C05.exProfile 2 = .ok [Slot.cand 1, Slot.cand 0] := by decide +kernel

end VL.C08

/-! ### Bucklin / PreferenceAddition for ONE seat (`Mono.evalBucklinSplit`, `Mono.evalBucklin`; driver C17 rules `bucklin`,
    `bucklin_whole`) -/

namespace VL.C08
open VL VL.Convert VL.Mono

theorem loopA_shape (tots : Nat → Votes) (cands : List Cand) (hnd : ∀ i, (keys (tots i)).Nodup)
    (hsub : ∀ i, ∀ c ∈ keys (tots i), c ∈ cands) (q : Rat) :
    ∀ f i, loopA tots q f i = [] ∨ SelShape cands 1 (loopA tots q f i) := by
  intro f
  induction f with
  | zero => intro i; exact Or.inl rfl
  | succ f ih =>
    intro i
    rw [loopA_succ]
    split
    · rename_i hlen
      right
      have hne : majOf (tots i) q ≠ [] := (getNBest_one_length _).1 hlen
      have hl : 1 ≤ (majOf (tots i) q).length := by
        cases hm : majOf (tots i) q with
        | nil => exact absurd hm hne
        | cons _ _ => simp
      have := getNBest_shape (majOf (tots i) q) (nodup_majOf (hnd i) q) 1 le_rfl hl
      apply this.mono
      intro c hc
      obtain ⟨e, he, rfl⟩ := List.mem_map.1 hc
      exact hsub i _ (List.mem_map.2 ⟨e, (mem_majOf.1 he).1, rfl⟩)
    · exact ih (i + 1)

theorem keys_cum_sub (p : RProfile) (j : Nat) : ∀ c ∈ keys (cum p j), c ∈ allRankedCandidates p := by
  have hitems : ∀ (i : Nat) (bw : Ballot × Rat), bw ∈ p → ∀ x ∈ dkeys (roundItems i bw), x ∈ allRankedCandidates p := by
    intro i bw hbw x hx
    rw [mem_allRankedCandidates]
    refine ⟨bw, hbw, ?_⟩
    simp only [roundItems, dkeys, List.map_map, Function.comp_def, List.map_id'] at hx
    unfold placeCands at hx
    cases hget : bw.1[i]? with
    | none => rw [hget] at hx; simp at hx
    | some it =>
      rw [hget] at hx
      exact List.mem_flatMap.2 ⟨it, List.mem_of_getElem? hget, hx⟩
  induction j with
  | zero =>
    intro c hc
    simp only [cum, bucklinRound_eq] at hc
    rcases (mem_dkeys_accum _ p [] c).1 hc with h | ⟨bw, hbw, h⟩
    · simp [dkeys] at h
    · exact hitems 0 bw hbw c h
  | succ j ih =>
    intro c hc
    simp only [cum, bucklinRound_eq] at hc
    rcases (mem_dkeys_accum _ p _ c).1 hc with h | ⟨bw, hbw, h⟩
    · exact ih c h
    · exact hitems (j + 1) bw hbw c h

/- Full statement (FALSE of the current code, `bucklin_short_witness`; open finding C08-preference-addition-short-list):
     theorem bucklin_shape : 1 ≤ (allRankedCandidates p).length → evalBucklin p = .ok r → SelShape (allRankedCandidates p) 1 r -/

/-- **Bucklin without splitting of shared ranks, one seat (partial).**  The answer is either EMPTY (nobody ever
    passes half of the votes within the ranks given) or has the selection shape for one seat over the candidates of
    the profile. -/
theorem bucklin_whole_shape_partial {p : RProfile} (_h1 : 1 ≤ (allRankedCandidates p).length) {r : List Slot}
    (h : evalBucklin p = .ok r) : r = [] ∨ SelShape (allRankedCandidates p) 1 r := by
  have hp : p ≠ [] := by
    rintro rfl
    simp [evalBucklin] at h
  rw [evalBucklin_eq p hp] at h
  simp only [Except.ok.injEq] at h
  subst h
  exact loopA_shape (cum p) _ (nodup_cum p) (keys_cum_sub p) _ _ _

/-- the only error value is the ValueError of `max()` over no ballots — never with a candidate present -/
theorem bucklin_whole_refusals {p : RProfile} (h1 : 1 ≤ (allRankedCandidates p).length) {e : Err}
    (h : evalBucklin p = .error e) : e = .votingSystemError ∨ e = .notImplemented := by
  exfalso
  have hp : p ≠ [] := by
    rintro rfl
    revert h1
    decide
  rw [evalBucklin_eq p hp] at h
  simp at h

theorem bucklin_whole_refusals_all {p : RProfile} {e : Err} (h : evalBucklin p = .error e) :
    p = [] ∧ e = .valueError := by
  by_cases hp : p = []
  · subst hp
    simp only [evalBucklin, List.isEmpty_nil, if_true, Except.error.injEq] at h
    exact ⟨rfl, h.symm⟩
  · rw [evalBucklin_eq p hp] at h
    simp at h

/-! `_decouple_equal_rankings` neither invents candidates nor loses the last ballot -/

theorem mem_dkeys_foldl_addTo_const' (l : List Ballot) (w : Rat) (acc : RProfile) (k : Ballot) :
    k ∈ dkeys (l.foldl (fun a c => addTo a c w) acc) ↔ k ∈ dkeys acc ∨ k ∈ l := by
  induction l generalizing acc with
  | nil => simp
  | cons c cs ih =>
    rw [List.foldl_cons, ih, mem_dkeys_addTo]
    simp only [List.mem_cons]
    tauto

/-- an invariant of the dictionary under construction in `_decouple_equal_rankings` -/
theorem decouple_inv (P : RProfile → Prop) (p : RProfile) (h0 : P p)
    (hstep : ∀ (nv : RProfile) (bw : Ballot × Rat), bw ∈ p → P nv →
      P ((linearize bw.1).foldl (fun nv v => addTo nv v (bw.2 / ((linearize bw.1).length : Rat)))
        (nv.filter (fun e => e.1 ≠ bw.1)))) : P (decouple p) := by
  unfold decouple
  have key : ∀ (l : RProfile) (nv : RProfile), (∀ bw ∈ l, bw ∈ p) → P nv →
      P (l.foldl (fun nv bw =>
        if bw.1.any isShared then
          let vars := linearize bw.1
          vars.foldl (fun nv v => addTo nv v (bw.2 / (vars.length : Rat))) (nv.filter (fun e => e.1 ≠ bw.1))
        else nv) nv) := by
    intro l
    induction l with
    | nil => intro nv _ h; exact h
    | cons bw t ih =>
      intro nv hl h
      rw [List.foldl_cons]
      apply ih _ (fun x hx => hl x (List.mem_cons_of_mem _ hx))
      split
      · exact hstep nv bw (hl bw List.mem_cons_self) h
      · exact h
  exact key p p (fun _ h => h) h0

theorem perms_ne_nil (l : List Cand) : Condorcet.perms l ≠ [] := by
  intro h
  have := (Condorcet.mem_perms (l := l) (q := l)).2 (List.Perm.refl _)
  rw [h] at this
  simp at this

theorem linearize_ne_nil (b : Ballot) : linearize b ≠ [] := by
  induction b with
  | nil => simp [linearize]
  | cons it rest ih =>
    obtain ⟨l, hl⟩ := List.exists_mem_of_ne_nil _ ih
    cases it with
    | one c => simp [linearize, ih]
    | shared cs =>
      obtain ⟨pc, hpc⟩ := List.exists_mem_of_ne_nil _ (perms_ne_nil cs)
      intro h
      have : pc.map RankItem.one ++ l ∈ linearize (RankItem.shared cs :: rest) := by
        simp only [linearize]
        exact List.mem_flatMap.2 ⟨pc, hpc, List.mem_map.2 ⟨l, hl, rfl⟩⟩
      rw [h] at this
      simp at this

theorem ballotCands_map_one (l : List Cand) : ballotCands (l.map RankItem.one) = l := by
  induction l with
  | nil => rfl
  | cons a t ih =>
    simp only [ballotCands, List.map_cons, List.flatMap_cons, RankItem.cands] at ih ⊢
    rw [ih]; rfl

theorem linearize_cands {b l : Ballot} (hl : l ∈ linearize b) : ∀ c ∈ ballotCands l, c ∈ ballotCands b := by
  induction b generalizing l with
  | nil =>
    simp only [linearize, List.mem_singleton] at hl
    subst hl; intro c hc; exact hc
  | cons it rest ih =>
    cases it with
    | one d =>
      simp only [linearize, List.mem_map] at hl
      obtain ⟨l', hl', rfl⟩ := hl
      intro c hc
      simp only [ballotCands, List.flatMap_cons, List.mem_append] at hc ⊢
      rcases hc with hc | hc
      · exact Or.inl hc
      · exact Or.inr (ih hl' c hc)
    | shared cs =>
      simp only [linearize, List.mem_flatMap, List.mem_map] at hl
      obtain ⟨pc, hpc, l', hl', rfl⟩ := hl
      intro c hc
      have hsplit : ballotCands (pc.map RankItem.one ++ l') = pc ++ ballotCands l' := by
        have := ballotCands_map_one pc
        unfold ballotCands at this ⊢
        rw [List.flatMap_append, this]
      rw [hsplit] at hc
      simp only [ballotCands, List.flatMap_cons, List.mem_append, RankItem.cands] at hc ⊢
      rcases hc with hc | hc
      · exact Or.inl ((Condorcet.mem_perms.1 hpc).subset hc)
      · exact Or.inr (ih hl' c hc)

theorem decouple_cands_sub (p : RProfile) : ∀ c ∈ allRankedCandidates (decouple p), c ∈ allRankedCandidates p := by
  have hinv : ∀ b' ∈ dkeys (decouple p), ∀ c ∈ ballotCands b', c ∈ allRankedCandidates p := by
    apply decouple_inv (fun nv => ∀ b' ∈ dkeys nv, ∀ c ∈ ballotCands b', c ∈ allRankedCandidates p)
    · intro b' hb' c hc
      obtain ⟨bw, hbw, rfl⟩ := List.mem_map.1 hb'
      exact (mem_allRankedCandidates p c).2 ⟨bw, hbw, hc⟩
    · intro nv bw hbw hnv b' hb' c hc
      rcases (mem_dkeys_foldl_addTo_const' _ _ _ _).1 hb' with h | h
      · obtain ⟨e, he, rfl⟩ := List.mem_map.1 h
        exact hnv _ (List.mem_map.2 ⟨e, (List.mem_filter.1 he).1, rfl⟩) c hc
      · exact (mem_allRankedCandidates p c).2 ⟨bw, hbw, linearize_cands h c hc⟩
  intro c hc
  obtain ⟨bw, hbw, hcb⟩ := (mem_allRankedCandidates _ c).1 hc
  exact hinv _ (List.mem_map.2 ⟨bw, hbw, rfl⟩) c hcb

theorem decouple_ne_nil {p : RProfile} (hp : p ≠ []) : decouple p ≠ [] := by
  apply decouple_inv (fun nv => nv ≠ []) p hp
  intro nv bw _ _ hnil
  obtain ⟨l, hl⟩ := List.exists_mem_of_ne_nil _ (linearize_ne_nil bw.1)
  have := (mem_dkeys_foldl_addTo_const' (linearize bw.1) (bw.2 / ((linearize bw.1).length : Rat))
    (nv.filter (fun e => e.1 ≠ bw.1)) l).2 (Or.inr hl)
  rw [hnil] at this
  simp [dkeys] at this

/- Full statement (FALSE of the current code, `bucklin_short_witness`; open finding C08-preference-addition-short-list):
     theorem bucklin_shape : 1 ≤ (allRankedCandidates p).length → evalBucklinSplit p = .ok r → SelShape (allRankedCandidates p) 1 r -/

/-- **Default Bucklin (`PreferenceAddition()`: shared ranks split over the compatible strict orders first), one seat
    (partial)**: the answer is empty or has the selection shape for one seat over the candidates of the profile. -/
theorem bucklin_shape_partial {p : RProfile} (h1 : 1 ≤ (allRankedCandidates p).length) {r : List Slot}
    (h : evalBucklinSplit p = .ok r) : r = [] ∨ SelShape (allRankedCandidates p) 1 r := by
  have hp : p ≠ [] := by
    rintro rfl
    revert h1
    decide
  have hd : decouple p ≠ [] := decouple_ne_nil hp
  unfold evalBucklinSplit at h
  rw [evalBucklin_eq _ hd] at h
  simp only [Except.ok.injEq] at h
  subst h
  rcases loopA_shape (cum (decouple p)) _ (nodup_cum _) (keys_cum_sub _) (sumValues (decouple p) / 2)
    (maxLen (decouple p)) 0 with h | h
  · exact Or.inl h
  · exact Or.inr (h.mono (decouple_cands_sub p))

/-- default Bucklin never refuses when a candidate is present (FULL: no error value at all) -/
theorem bucklin_refusals {p : RProfile} (h1 : 1 ≤ (allRankedCandidates p).length) {e : Err}
    (h : evalBucklinSplit p = .error e) : e = .votingSystemError ∨ e = .notImplemented := by
  exfalso
  have hp : p ≠ [] := by
    rintro rfl
    revert h1
    decide
  unfold evalBucklinSplit at h
  rw [evalBucklin_eq _ (decouple_ne_nil hp)] at h
  simp at h

/-- … stated positively: with a candidate present both variants always answer -/
theorem bucklin_answers {p : RProfile} (h1 : 1 ≤ (allRankedCandidates p).length) :
    (∃ r, evalBucklinSplit p = .ok r) ∧ ∃ r, evalBucklin p = .ok r := by
  constructor
  · cases h : evalBucklinSplit p with
    | ok r => exact ⟨r, rfl⟩
    | error e => rcases bucklin_refusals h1 h with rfl | rfl <;>
        exact absurd h (by
          have hp : p ≠ [] := by rintro rfl; revert h1; decide
          unfold evalBucklinSplit
          rw [evalBucklin_eq _ (decouple_ne_nil hp)]
          simp)
  · cases h : evalBucklin p with
    | ok r => exact ⟨r, rfl⟩
    | error e => exact absurd (bucklin_whole_refusals_all h).1 (by rintro rfl; revert h1; decide)

/-- `bucklin_shape` is FALSE of the current code: `a:1, b:1` — nobody exceeds the quota 1 — gives `[]` for one seat -/
theorem bucklin_short_witness :
    1 ≤ (allRankedCandidates [([RankItem.one 0], (1 : Rat)), ([RankItem.one 1], 1)]).length ∧
    evalBucklin [([RankItem.one 0], 1), ([RankItem.one 1], 1)] = .ok [] ∧
    evalBucklinSplit [([RankItem.one 0], 1), ([RankItem.one 1], 1)] = .ok [] ∧
    ¬ SelShape (allRankedCandidates [([RankItem.one 0], (1 : Rat)), ([RankItem.one 1], 1)]) 1 [] := by
  refine ⟨by decide +kernel, by decide +kernel, by decide +kernel, ?_⟩
  intro h
  exact absurd h.length (by decide)

example : 1 ≤ (allRankedCandidates [([RankItem.one 0, RankItem.one 1], (2 : Rat)), ([RankItem.one 1], 1)]).length ∧
    evalBucklin [([RankItem.one 0, RankItem.one 1], 2), ([RankItem.one 1], 1)] = .ok [Slot.cand 0] := by decide +kernel
example : 1 ≤ (allRankedCandidates [([RankItem.one 0, RankItem.one 1], (2 : Rat)), ([RankItem.one 1], 2)]).length ∧
    evalBucklinSplit [([RankItem.one 0, RankItem.one 1], 2), ([RankItem.one 1], 2)] = .ok [Slot.cand 1] := by
  decide +kernel

end VL.C08
