/-
  C11: the score family.  Ballot counts are Python ints (`Int` in the model), so the factor is a positive NATURAL
  number `k`.  Sums scale by `k`, means and lower medians do not change at all (the lower median of a multiset in which
  every element is repeated `k` times is the lower median of the multiset).
  Hypotheses: `min_count = 0`, `truncation = 0` (both are ABSOLUTE numbers of votes — scale dependent by definition) and
  `unscored_value` not the builtin `min`.
-/
import VotelibProofs.Lemmas.ScaleApproval
import VotelibProofs.Lemmas.C12Score
namespace VL.Scale
open VL VL.Score

def scaleCS (k : Nat) (cs : CScores) : CScores := cs.map (fun p => (p.1, (k : Int) * p.2))
def scaleTab (k : Nat) (t : ScoreTable) : ScoreTable := t.map (fun p => (p.1, scaleCS k p.2))
/-- a score profile with every ballot count multiplied by the natural number `k` -/
def scaleS (k : Nat) (votes : SProfile) : SProfile := votes.map (fun b => (b.1, (k : Int) * b.2))

/-- the configurations whose outcome is a function of the vote SHARES -/
def ScaleFreeCfg (cfg : Cfg) : Prop := cfg.minCount = 0 ∧ cfg.trunc = .off ∧ cfg.unscored ≠ .min

instance (cfg : Cfg) : Decidable (ScaleFreeCfg cfg) := by unfold ScaleFreeCfg; infer_instance

theorem getCount_scale (k : Nat) (d : CScores) (s : Rat) : getCount (scaleCS k d) s = (k : Int) * getCount d s := by
  unfold getCount scaleCS
  induction d with
  | nil => simp
  | cons e t ih =>
    simp only [List.map_cons, List.find?_cons]
    by_cases he : e.1 = s
    · simp [he]
    · simp only [he, decide_false]; exact ih

theorem setCount_scale (k : Nat) (d : CScores) (s : Rat) (n : Int) :
    setCount (scaleCS k d) s ((k : Int) * n) = scaleCS k (setCount d s n) := by
  unfold scaleCS
  induction d with
  | nil => rfl
  | cons e t ih =>
    obtain ⟨q, y⟩ := e
    simp only [List.map_cons, setCount]
    by_cases hq : q = s
    · simp only [hq, if_true, List.map_cons]
    · simp only [hq, if_false, List.map_cons, ih]

theorem addCount_scale (k : Nat) (d : CScores) (s : Rat) (n : Int) :
    addCount (scaleCS k d) s ((k : Int) * n) = scaleCS k (addCount d s n) := by
  unfold addCount
  rw [getCount_scale, ← mul_add, setCount_scale]

theorem addScore_scale (k : Nat) (t : ScoreTable) (c : Cand) (s : Rat) (n : Int) :
    addScore (scaleTab k t) c s ((k : Int) * n) = scaleTab k (addScore t c s n) := by
  unfold scaleTab
  induction t with
  | nil =>
    have := addCount_scale k [] s n
    simp only [addScore, List.map_cons, List.map_nil]
    rw [← this]; rfl
  | cons e rest ih =>
    obtain ⟨q, cs⟩ := e
    simp only [List.map_cons, addScore]
    by_cases hq : q = c
    · simp only [hq, if_true, List.map_cons, addCount_scale]
    · simp only [hq, if_false, List.map_cons, ih]

theorem rawScores_scale (k : Nat) (votes : SProfile) : rawScores (scaleS k votes) = scaleTab k (rawScores votes) := by
  unfold rawScores scaleS
  refine foldl_simMap (scaleTab k) _ _ _ ?_ votes []
  intro t bn
  apply foldl_sim' (scaleTab k)
  intro t' cs
  exact addScore_scale k t' cs.1 cs.2 bn.2

theorem sum_map_mul (k : Int) (l : List Int) : (l.map (fun x => k * x)).sum = k * l.sum := by
  induction l with
  | nil => simp
  | cons x xs ih => simp only [List.map_cons, List.sum_cons, ih, mul_add]

theorem totalVotes_scale (k : Nat) (votes : SProfile) : totalVotes (scaleS k votes) = (k : Int) * totalVotes votes := by
  unfold totalVotes scaleS
  rw [List.map_map, ← sum_map_mul, List.map_map]; rfl

theorem totalCount_scale (k : Nat) (cs : CScores) : totalCount (scaleCS k cs) = (k : Int) * totalCount cs := by
  unfold totalCount scaleCS
  rw [List.map_map, ← sum_map_mul, List.map_map]; rfl

theorem correctOne_scale (cfg : Cfg) (hcfg : ScaleFreeCfg cfg) (k : Nat) (hk : 0 < k) (scores : CScores) (nVotes : Int) :
    correctOne cfg (scaleCS k scores) ((k : Int) * nVotes) = (correctOne cfg scores nVotes).map (scaleCS k) := by
  obtain ⟨hmin, htr, huns⟩ := hcfg
  have hkz : (0 : Int) < (k : Int) := by exact_mod_cast hk
  unfold correctOne
  simp only [totalCount_scale, hmin, htr]
  have hiff : ((k : Int) * totalCount scores < 0) ↔ (totalCount scores < 0) := by
    constructor
    · intro h; by_contra hn; exact absurd h (not_lt.mpr (mul_nonneg (le_of_lt hkz) (not_lt.mp hn)))
    · intro h; exact mul_neg_of_pos_of_neg hkz h
  by_cases hneg : totalCount scores < 0
  · rw [if_pos (hiff.mpr hneg), if_pos hneg]
    show Except.ok [(cfg.bottom, (0 : Int))] = Except.ok (scaleCS k [(cfg.bottom, 0)])
    simp [scaleCS]
  · rw [if_neg (fun h => hneg (hiff.mp h)), if_neg hneg]
    cases hu : cfg.unscored with
    | none => rfl
    | value u =>
      show Except.ok (setCount (scaleCS k scores) u ((k : Int) * nVotes - (k : Int) * totalCount scores + getCount (scaleCS k scores) u))
        = Except.ok (scaleCS k (setCount scores u (nVotes - totalCount scores + getCount scores u)))
      rw [getCount_scale, ← mul_sub, ← mul_add, setCount_scale]
    | min => exact absurd hu huns

theorem correctedScores_scale (cfg : Cfg) (hcfg : ScaleFreeCfg cfg) (k : Nat) (hk : 0 < k) (votes : SProfile) :
    correctedScores cfg (scaleS k votes) = (correctedScores cfg votes).map (scaleTab k) := by
  unfold correctedScores
  rw [rawScores_scale, totalVotes_scale]
  unfold scaleTab
  apply mapM_sim (fun p : Cand × CScores => (p.1, scaleCS k p.2)) (fun p : Cand × CScores => (p.1, scaleCS k p.2))
  intro p
  simp only [correctOne_scale cfg hcfg k hk]
  cases correctOne cfg p.2 (totalVotes votes) <;> rfl

/-! ### aggregates of the expanded grade lists -/

theorem toNat_scale (k : Nat) (n : Int) : ((k : Int) * n).toNat = k * n.toNat := by
  rcases le_or_gt 0 n with h | h
  · obtain ⟨m, rfl⟩ := Int.eq_ofNat_of_zero_le h
    have : ((k : Int) * (m : Int)) = ((k * m : Nat) : Int) := by push_cast; rfl
    rw [this, Int.toNat_natCast, Int.toNat_natCast]
  · have h1 : n.toNat = 0 := Int.toNat_of_nonpos (le_of_lt h)
    have h2 : ((k : Int) * n).toNat = 0 := Int.toNat_of_nonpos (mul_nonpos_of_nonneg_of_nonpos (Int.natCast_nonneg k) (le_of_lt h))
    rw [h1, h2]; simp

theorem nat_sum_map_mul (k : Nat) (l : List Nat) : (l.map (fun x => k * x)).sum = k * l.sum := by
  induction l with
  | nil => simp
  | cons x xs ih => simp only [List.map_cons, List.sum_cons, ih, Nat.mul_add]

theorem wTotal_scale (k : Nat) (cs : CScores) : wTotal (scaleCS k cs) = k * wTotal cs := by
  unfold wTotal scaleCS
  rw [List.map_map, ← nat_sum_map_mul, List.map_map]
  congr 1
  apply List.map_congr_left
  intro p _
  exact toNat_scale k p.2

theorem wLt_scale (k : Nat) (cs : CScores) (v : Rat) : wLt (scaleCS k cs) v = k * wLt cs v := by
  unfold wLt scaleCS
  rw [List.filter_map, List.map_map, ← nat_sum_map_mul, List.map_map]
  congr 1
  apply List.map_congr_left
  intro p _
  exact toNat_scale k p.2

theorem wLe_scale (k : Nat) (cs : CScores) (v : Rat) : wLe (scaleCS k cs) v = k * wLe cs v := by
  unfold wLe scaleCS
  rw [List.filter_map, List.map_map, ← nat_sum_map_mul, List.map_map]
  congr 1
  apply List.map_congr_left
  intro p _
  exact toNat_scale k p.2

theorem wSum_scale (k : Nat) (cs : CScores) : wSum (scaleCS k cs) = (k : Rat) * wSum cs := by
  unfold wSum scaleCS
  rw [List.map_map]
  induction cs with
  | nil => simp
  | cons p ps ih =>
    simp only [List.map_cons, List.sum_cons, Function.comp, ih, toNat_scale, mul_add]
    push_cast
    ring

theorem exactMean_expand_scale (k : Nat) (hk : 0 < k) (cs : CScores) :
    exactMean (expand (scaleCS k cs)) = exactMean (expand cs) := by
  unfold exactMean
  simp only [expand_length, expand_sum, wTotal_scale, wSum_scale]
  have hk' : (k : Rat) ≠ 0 := by exact_mod_cast (Nat.pos_iff_ne_zero.mp hk)
  by_cases h0 : wTotal cs = 0
  · simp [h0]
  · have hkn : k * wTotal cs ≠ 0 := Nat.mul_ne_zero (Nat.pos_iff_ne_zero.mp hk) h0
    rw [if_neg hkn, if_neg h0]
    congr 1
    push_cast
    rw [mul_div_mul_left _ _ hk']

theorem medianLow_expand_scale (k : Nat) (hk : 0 < k) (cs : CScores) :
    medianLow (expand (scaleCS k cs)) = medianLow (expand cs) := by
  by_cases h0 : wTotal cs = 0
  · have e1 : expand cs = [] := List.length_eq_zero_iff.mp (by rw [expand_length]; exact h0)
    have e2 : expand (scaleCS k cs) = [] := List.length_eq_zero_iff.mp (by rw [expand_length, wTotal_scale, h0]; simp)
    rw [e1, e2]
  · have hkn : wTotal (scaleCS k cs) ≠ 0 := by
      rw [wTotal_scale]; exact Nat.mul_ne_zero (Nat.pos_iff_ne_zero.mp hk) h0
    obtain ⟨v, hv, _, hmem, hlt, hle⟩ := medianLow_expand cs h0
    have hne' : expand (scaleCS k cs) ≠ [] := by
      intro h; have := expand_length (scaleCS k cs); rw [h] at this; exact hkn this.symm
    obtain ⟨v', hv', hk'⟩ := medianLow_spec (expand (scaleCS k cs)) hne'
    have hkv : IsKthSmallest (expand (scaleCS k cs)) (((expand (scaleCS k cs)).length + 1) / 2) v := by
      refine ⟨?_, ?_, ?_⟩
      · obtain ⟨p, hp, hpv, hpos⟩ := hmem
        refine mem_expand.mpr ⟨(p.1, (k : Int) * p.2), ?_, hpv, ?_⟩
        · unfold scaleCS; exact List.mem_map.mpr ⟨p, hp, rfl⟩
        · exact mul_pos (by exact_mod_cast hk) hpos
      · rw [expand_cntLt, expand_length, wLt_scale, wTotal_scale]
        have h1 : 2 * wLt cs v + 1 ≤ wTotal cs := by omega
        have h2 : k * (2 * wLt cs v + 1) ≤ k * wTotal cs := Nat.mul_le_mul_left k h1
        have h3 : k * (2 * wLt cs v + 1) = 2 * (k * wLt cs v) + k := by ring
        omega
      · rw [expand_cntLe, expand_length, wLe_scale, wTotal_scale]
        have h1 : wTotal cs ≤ 2 * wLe cs v := by omega
        have h2 : k * wTotal cs ≤ k * (2 * wLe cs v) := Nat.mul_le_mul_left k h1
        have h3 : k * (2 * wLe cs v) = 2 * (k * wLe cs v) := by ring
        omega
    have : v' = v := kthSmallest_unique hk' hkv
    rw [hv', hv, this]

theorem aggregateOne_scale_mean (k : Nat) (hk : 0 < k) (cs : CScores) :
    aggregateOne .mean (scaleCS k cs) = aggregateOne .mean cs := exactMean_expand_scale k hk cs

theorem aggregateOne_scale_median (k : Nat) (hk : 0 < k) (cs : CScores) :
    aggregateOne .medianLow (scaleCS k cs) = aggregateOne .medianLow cs := medianLow_expand_scale k hk cs

theorem aggregateOne_scale_sum (k : Nat) (cs : CScores) :
    aggregateOne .sum (scaleCS k cs) = (aggregateOne .sum cs).map (fun s => (k : Rat) * s) := by
  show Except.ok (expand (scaleCS k cs)).sum = Except.ok ((k : Rat) * (expand cs).sum)
  rw [expand_sum, expand_sum, wSum_scale]

/-- the factor by which the aggregate moves: `k` for the sum, `1` for mean and lower median -/
def aggFactor (fn : Agg) (k : Nat) : Rat := match fn with
  | .sum => (k : Rat)
  | _ => 1

theorem aggFactor_pos (fn : Agg) (k : Nat) (hk : 0 < k) : 0 < aggFactor fn k := by
  cases fn <;> simp [aggFactor, hk]

theorem aggregateOne_scale (fn : Agg) (k : Nat) (hk : 0 < k) (cs : CScores) :
    aggregateOne fn (scaleCS k cs) = (aggregateOne fn cs).map (fun s => aggFactor fn k * s) := by
  cases fn with
  | mean => rw [aggregateOne_scale_mean k hk]; simp only [aggFactor, one_mul]; cases aggregateOne .mean cs <;> rfl
  | sum => exact aggregateOne_scale_sum k cs
  | medianLow =>
    rw [aggregateOne_scale_median k hk]; simp only [aggFactor, one_mul]; cases aggregateOne .medianLow cs <;> rfl

theorem aggregate_scale (fn : Agg) (k : Nat) (hk : 0 < k) (t : ScoreTable) :
    aggregate fn (scaleTab k t) = (aggregate fn t).map (scaleVotes (aggFactor fn k)) := by
  unfold aggregate scaleTab scaleVotes
  apply mapM_sim (fun p : Cand × CScores => (p.1, scaleCS k p.2)) (fun p : Cand × Rat => (p.1, aggFactor fn k * p.2))
  intro p
  simp only [aggregateOne_scale fn k hk]
  cases aggregateOne fn p.2 <;> rfl

theorem convert_scale (cfg : Cfg) (hcfg : ScaleFreeCfg cfg) (k : Nat) (hk : 0 < k) (votes : SProfile) :
    convert cfg (scaleS k votes) = (convert cfg votes).map (scaleVotes (aggFactor cfg.fn k)) := by
  unfold convert
  rw [correctedScores_scale cfg hcfg k hk]
  cases correctedScores cfg votes with
  | error e => rfl
  | ok t => exact aggregate_scale cfg.fn k hk t

/-- **ScoreVoting** (sum, mean, lower median; unscored value none or a number) -/
theorem scoreVoting_scale (cfg : Cfg) (hcfg : ScaleFreeCfg cfg) (k : Nat) (hk : 0 < k) (votes : SProfile) (n : Nat) :
    scoreVoting cfg (scaleS k votes) n = scoreVoting cfg votes n := by
  unfold scoreVoting
  rw [convert_scale cfg hcfg k hk]
  cases convert cfg votes with
  | error e => rfl
  | ok agg =>
    show Except.ok (getNBest (scaleVotes (aggFactor cfg.fn k) agg) n) = Except.ok (getNBest agg n)
    rw [getNBest_scaleC _ (aggFactor_pos cfg.fn k hk)]

end VL.Scale

namespace VL.Scale
open VL VL.Score

/-! ### Majority judgment with the 'plus' tie-break (the default tie-break is scale DEPENDENT: finding
    C11-mj-default-tiebreak-scale) -/

theorem tableGet_scale (k : Nat) (t : ScoreTable) (c : Cand) :
    tableGet (scaleTab k t) c = (tableGet t c).map (scaleCS k) := by
  unfold tableGet scaleTab
  induction t with
  | nil => rfl
  | cons e rest ih =>
    simp only [List.map_cons, List.find?_cons]
    by_cases he : e.1 = c
    · simp [he]
    · simp only [he, decide_false]; exact ih

theorem countGe_scale (k : Nat) (cs : CScores) (thr : Rat) : countGe (scaleCS k cs) thr = (k : Int) * countGe cs thr := by
  unfold countGe scaleCS
  rw [List.filter_map, List.map_map, ← sum_map_mul, List.map_map]; rfl

theorem countGt_scale (k : Nat) (cs : CScores) (thr : Rat) : countGt (scaleCS k cs) thr = (k : Int) * countGt cs thr := by
  unfold countGt scaleCS
  rw [List.filter_map, List.map_map, ← sum_map_mul, List.map_map]; rfl

theorem plusKeys_scale (k : Nat) (scores : ScoreTable) (m : Rat) :
    (scaleTab k scores).map (fun q : Cand × CScores => (q.1, ((countGe q.2 m : Int) : Rat)))
      = scaleVotes (k : Rat) (scores.map (fun q : Cand × CScores => (q.1, ((countGe q.2 m : Int) : Rat)))) := by
  unfold scaleTab scaleVotes
  rw [List.map_map, List.map_map]
  apply List.map_congr_left
  intro q _
  simp only [Function.comp, countGe_scale]
  push_cast
  rfl

theorem tiebreakPlus_scale (k : Nat) (hk : 0 < k) (scores : ScoreTable) (n : Nat) :
    tiebreakPlus (scaleTab k scores) n = tiebreakPlus scores n := by
  cases scores with
  | nil => rfl
  | cons p rest =>
    have hcons : scaleTab k (p :: rest) = (p.1, scaleCS k p.2) :: scaleTab k rest := rfl
    have hL : tiebreakPlus (scaleTab k (p :: rest)) n
        = (aggregateOne .medianLow (scaleCS k p.2)).bind (fun m =>
            .ok (getNBest ((scaleTab k (p :: rest)).map (fun q : Cand × CScores => (q.1, ((countGe q.2 m : Int) : Rat)))) n)) := by
      rw [hcons]; rfl
    have hR : tiebreakPlus (p :: rest) n
        = (aggregateOne .medianLow p.2).bind (fun m =>
            .ok (getNBest ((p :: rest).map (fun q : Cand × CScores => (q.1, ((countGe q.2 m : Int) : Rat)))) n)) := rfl
    rw [hL, hR, aggregateOne_scale_median k hk]
    cases aggregateOne .medianLow p.2 with
    | error e => rfl
    | ok m =>
      show Except.ok _ = Except.ok _
      rw [plusKeys_scale, getNBest_scaleC _ (by exact_mod_cast hk)]

/-- what `MajorityJudgment.evaluate` does once the corrected table and the medians are there (cardinal.py L150-162) -/
def mjRest (tb : TieBreaking) (corrected : ScoreTable) (agg : Votes) (n : Nat) : Except Err (List Slot) :=
  let order := getNBest agg n
  match order.getLast? with
  | none => .error (.other "IndexError")
  | some (Slot.cand _) => pure order
  | some (Slot.tie T) =>
    let k := order.count (Slot.tie T)
    let tied : ScoreTable := (Appr.sortDedup T).filterMap (fun c => (tableGet corrected c).map (fun cs => (c, cs)))
    (match tb with
      | .default => tiebreakDefault (tableFuel tied) tied k
      | .plus => tiebreakPlus tied k).bind (fun broken => pure (order.take (order.length - k) ++ broken))

theorem majorityJudgment_eq (tb : TieBreaking) (cfg : Cfg) (votes : SProfile) (n : Nat) :
    majorityJudgment tb cfg votes n = (correctedScores { cfg with fn := .medianLow } votes).bind (fun corrected =>
      (aggregate .medianLow corrected).bind (fun agg => mjRest tb corrected agg n)) := by
  unfold majorityJudgment mjRest
  cases correctedScores { cfg with fn := .medianLow } votes with
  | error e => rfl
  | ok corrected =>
    dsimp only [bind, Except.bind]
    cases aggregate .medianLow corrected with
    | error e => rfl
    | ok agg =>
      dsimp only
      cases (getNBest agg n).getLast? with
      | none => rfl
      | some s =>
        cases s with
        | cand c => rfl
        | tie T => cases tb <;> rfl

theorem tied_scale (k : Nat) (corrected : ScoreTable) (T : List Cand) :
    (Appr.sortDedup T).filterMap (fun c => (tableGet (scaleTab k corrected) c).map (fun cs => (c, cs)))
      = scaleTab k ((Appr.sortDedup T).filterMap (fun c => (tableGet corrected c).map (fun cs => (c, cs)))) := by
  unfold scaleTab
  rw [List.map_filterMap]
  apply List.filterMap_congr
  intro c _
  rw [show tableGet (List.map (fun p => (p.1, scaleCS k p.2)) corrected) c = (tableGet corrected c).map (scaleCS k)
    from tableGet_scale k corrected c]
  cases tableGet corrected c <;> rfl

theorem mjRest_plus_scale (k : Nat) (hk : 0 < k) (corrected : ScoreTable) (agg : Votes) (n : Nat) :
    mjRest .plus (scaleTab k corrected) agg n = mjRest .plus corrected agg n := by
  unfold mjRest
  dsimp only
  cases (getNBest agg n).getLast? with
  | none => rfl
  | some s =>
    cases s with
    | cand c => rfl
    | tie T => simp only [tied_scale, tiebreakPlus_scale k hk]

/-- **MajorityJudgment(tie_breaking='plus')** -/
theorem majorityJudgmentPlus_scale (cfg : Cfg) (hcfg : ScaleFreeCfg cfg) (k : Nat) (hk : 0 < k) (votes : SProfile) (n : Nat) :
    majorityJudgment .plus cfg (scaleS k votes) n = majorityJudgment .plus cfg votes n := by
  have hcfg' : ScaleFreeCfg { cfg with fn := .medianLow } := hcfg
  rw [majorityJudgment_eq, majorityJudgment_eq, correctedScores_scale _ hcfg' k hk]
  cases correctedScores { cfg with fn := .medianLow } votes with
  | error e => rfl
  | ok corrected =>
    show (aggregate .medianLow (scaleTab k corrected)).bind _ = (aggregate .medianLow corrected).bind _
    rw [aggregate_scale .medianLow k hk]
    cases aggregate .medianLow corrected with
    | error e => rfl
    | ok agg =>
      have h1 : scaleVotes (aggFactor .medianLow k) agg = agg := by
        unfold scaleVotes aggFactor; simp
      show mjRest .plus (scaleTab k corrected) (scaleVotes (aggFactor .medianLow k) agg) n = mjRest .plus corrected agg n
      rw [h1, mjRest_plus_scale k hk]

end VL.Scale

namespace VL.Scale
open VL VL.Score

/-! ### Majority judgment with the DEFAULT tie-break: scale invariant exactly as long as the tie-break is not entered -/

/-- the medians decide all `n` places: the last place of `get_n_best(medians, n)` is not a tie object
    (refusals of the aggregation count as decided: they are the same refusals at every scale) -/
def mjUntied (cfg : Cfg) (votes : SProfile) (n : Nat) : Bool :=
  match correctedScores { cfg with fn := .medianLow } votes with
  | .error _ => true
  | .ok corrected =>
    match aggregate .medianLow corrected with
    | .error _ => true
    | .ok agg =>
      match (getNBest agg n).getLast? with
      | some (Slot.tie _) => false
      | _ => true

theorem mjRest_untied (tb : TieBreaking) (c1 c2 : ScoreTable) (agg : Votes) (n : Nat)
    (h : ∀ T, (getNBest agg n).getLast? ≠ some (Slot.tie T)) : mjRest tb c1 agg n = mjRest tb c2 agg n := by
  unfold mjRest
  dsimp only
  cases hl : (getNBest agg n).getLast? with
  | none => rfl
  | some s =>
    cases s with
    | cand c => rfl
    | tie T => exact absurd hl (h T)

/-- MajorityJudgment (either tie-break) when the medians decide every place -/
theorem majorityJudgment_untied_scale (tb : TieBreaking) (cfg : Cfg) (hcfg : ScaleFreeCfg cfg) (k : Nat) (hk : 0 < k)
    (votes : SProfile) (n : Nat) (hu : mjUntied cfg votes n = true) :
    majorityJudgment tb cfg (scaleS k votes) n = majorityJudgment tb cfg votes n := by
  have hcfg' : ScaleFreeCfg { cfg with fn := .medianLow } := hcfg
  rw [majorityJudgment_eq, majorityJudgment_eq, correctedScores_scale _ hcfg' k hk]
  unfold mjUntied at hu
  cases hc : correctedScores { cfg with fn := .medianLow } votes with
  | error e => rfl
  | ok corrected =>
    rw [hc] at hu
    dsimp only at hu
    show (aggregate .medianLow (scaleTab k corrected)).bind _ = (aggregate .medianLow corrected).bind _
    rw [aggregate_scale .medianLow k hk]
    cases ha : aggregate .medianLow corrected with
    | error e => rfl
    | ok agg =>
      rw [ha] at hu
      dsimp only at hu
      have h1 : scaleVotes (aggFactor .medianLow k) agg = agg := by
        unfold scaleVotes aggFactor; simp
      show mjRest tb (scaleTab k corrected) (scaleVotes (aggFactor .medianLow k) agg) n = mjRest tb corrected agg n
      rw [h1]
      apply mjRest_untied
      intro T hT
      rw [hT] at hu
      exact Bool.false_ne_true hu

end VL.Scale
