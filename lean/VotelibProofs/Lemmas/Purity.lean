/-
  Helper lemmas for C18 (state-machine models of VotelibModel.Purity).
-/
import VotelibModel.Purity
import Mathlib.Data.List.Basic
import Mathlib.Tactic.Linarith
namespace VL.Purity
open VL

/-! ### running a machine -/

theorem run_append {σ κ ο : Type} (step : σ → κ → σ × ο) (s : σ) (h : List κ) (c : κ) :
    run step s (h ++ [c]) =
      ((step (run step s h).1 c).1, (run step s h).2 ++ [(step (run step s h).1 c).2]) := by
  induction h generalizing s with
  | nil => simp [run]
  | cons x xs ih => simp [run, ih]

theorem lastOut_append {σ κ ο : Type} (step : σ → κ → σ × ο) (s : σ) (h : List κ) (c : κ) :
    lastOut step s (h ++ [c]) = some (step (run step s h).1 c).2 := by
  simp [lastOut, run_append]

theorem lastOut_single {σ κ ο : Type} (step : σ → κ → σ × ο) (s : σ) (c : κ) :
    lastOut step s [c] = some (step s c).2 := by
  simpa [run] using lastOut_append step s [] c

/-- an invariant of the initial state that every step preserves holds after every history -/
theorem inv_run {σ κ ο : Type} (step : σ → κ → σ × ο) (Inv : σ → Prop)
    (hstep : ∀ s c, Inv s → Inv (step s c).1) (s : σ) (hs : Inv s) (h : List κ) :
    Inv (run step s h).1 := by
  induction h generalizing s with
  | nil => simpa [run] using hs
  | cons x xs ih => simpa [run] using ih (step s x).1 (hstep s x hs)

/-- the proof scheme of every history-independence theorem: an invariant of the reachable states under which
    the output of a call is the output the initial state would give -/
theorem history_independent_of_inv {σ κ ο : Type} (step : σ → κ → σ × ο) (Inv : σ → Prop) (s0 : σ)
    (h0 : Inv s0) (hstep : ∀ s c, Inv s → Inv (step s c).1)
    (hout : ∀ s c, Inv s → (step s c).2 = (step s0 c).2) (h : List κ) (c : κ) :
    lastOut step s0 (h ++ [c]) = lastOut step s0 [c] := by
  rw [lastOut_append, lastOut_single]
  exact congrArg some (hout _ c (inv_run step Inv hstep s0 h0 h))

/-- history independence of two objects side by side follows from that of each -/
theorem history_independent_prod_of_inv {σ τ κ κ' ο ο' : Type} (sa : σ → κ → σ × ο) (sb : τ → κ' → τ × ο')
    (IA : σ → Prop) (IB : τ → Prop) (a0 : σ) (b0 : τ) (ha0 : IA a0) (hb0 : IB b0)
    (hsa : ∀ s c, IA s → IA (sa s c).1) (hsb : ∀ s c, IB s → IB (sb s c).1)
    (hoa : ∀ s c, IA s → (sa s c).2 = (sa a0 c).2) (hob : ∀ s c, IB s → (sb s c).2 = (sb b0 c).2)
    (h : List (κ ⊕ κ')) (c : κ ⊕ κ') :
    lastOut (prodStep sa sb) (a0, b0) (h ++ [c]) = lastOut (prodStep sa sb) (a0, b0) [c] := by
  apply history_independent_of_inv (prodStep sa sb) (fun p => IA p.1 ∧ IB p.2) (a0, b0) ⟨ha0, hb0⟩
  · rintro ⟨a, b⟩ c ⟨h1, h2⟩
    cases c with
    | inl c => exact ⟨hsa a c h1, h2⟩
    | inr c => exact ⟨h1, hsb b c h2⟩
  · rintro ⟨a, b⟩ c ⟨h1, h2⟩
    cases c with
    | inl c => simp only [prodStep, hoa a c h1]
    | inr c => simp only [prodStep, hob b c h2]

/-! ### the PAV coefficient cache -/

theorem pavExtend_length (coefs : List Rat) (n : Nat) : (pavExtend coefs n).length = max coefs.length (n + 1) := by
  unfold pavExtend
  split
  · simp; omega
  · omega

theorem pav_run_length (h : List PavCall) (s : List Rat) :
    (run pavStep s h).1.length = h.foldl (fun m c => max m (c.nSeats + 1)) s.length := by
  induction h generalizing s with
  | nil => rfl
  | cons c cs ih =>
    simp only [run, List.foldl_cons]
    rw [ih]
    congr 1
    exact pavExtend_length s c.nSeats


/-- the cache invariant: never empty, and entry `k` is the `k`-th harmonic number -/
def PavInv (coefs : List Rat) : Prop :=
  1 ≤ coefs.length ∧ ∀ k, k < coefs.length → coefs[k]? = some (harmonic k)

theorem pavInv_init : PavInv pavInit := by
  refine ⟨by simp [pavInit], ?_⟩
  intro k hk
  have : k = 0 := by simp [pavInit] at hk; omega
  subst this
  simp [pavInit, harmonic]

theorem pavExtend_length_ge (coefs : List Rat) (n : Nat) : n + 1 ≤ (pavExtend coefs n).length := by
  unfold pavExtend
  split
  · simp; omega
  · omega

theorem pavExtend_inv (coefs : List Rat) (n : Nat) (h : PavInv coefs) : PavInv (pavExtend coefs n) := by
  unfold pavExtend
  split
  · rename_i hlt
    refine ⟨by simp; omega, ?_⟩
    intro k hk
    by_cases hk' : k < coefs.length
    · rw [List.getElem?_append_left hk']
      exact h.2 k hk'
    · have hge : coefs.length ≤ k := by omega
      rw [List.getElem?_append_right hge]
      simp at hk
      simp [List.getElem?_map]
      have : k - coefs.length < n + 1 - coefs.length := by omega
      simp [this]
      congr 1
      omega
  · exact h

theorem interCount_le (b alt : List Cand) : interCount b alt ≤ alt.length := by
  unfold interCount
  exact List.length_filter_le _ _

/-- with a valid cache that is long enough the cached satisfaction is the cache-free one -/
theorem satisfaction_eq_H (coefs : List Rat) (hinv : PavInv coefs) (alt : List Cand)
    (hlen : alt.length < coefs.length) (votes : ApprovalProfile) :
    satisfaction coefs alt votes = some (satisfactionH alt votes) := by
  induction votes with
  | nil => rfl
  | cons p rest ih =>
    obtain ⟨b, w⟩ := p
    have hk : interCount b alt < coefs.length := lt_of_le_of_lt (interCount_le b alt) hlen
    simp only [satisfaction, satisfactionH, hinv.2 _ hk, ih]

theorem combos_length (l : List Cand) (n : Nat) : ∀ a ∈ combos l n, a.length = n := by
  induction l generalizing n with
  | nil =>
    cases n with
    | zero => intro a ha; simp [combos] at ha; simp [ha]
    | succ m => intro a ha; simp [combos] at ha
  | cons x xs ih =>
    cases n with
    | zero => intro a ha; simp [combos] at ha; simp [ha]
    | succ m =>
      intro a ha
      simp only [combos, List.mem_append, List.mem_map] at ha
      rcases ha with ⟨a', ha', rfl⟩ | ha
      · simp [ih m a' ha']
      · exact ih (m + 1) a ha

theorem bestAltsGo_congr (sat sat' : List Cand → Option Rat) (alts : List (List Cand))
    (h : ∀ a ∈ alts, sat a = sat' a) (best : List (List Cand)) (sc : Option Rat) :
    bestAltsGo sat alts best sc = bestAltsGo sat' alts best sc := by
  induction alts generalizing best sc with
  | nil => rfl
  | cons a rest ih =>
    have ha : sat a = sat' a := h a (by simp)
    have hr : ∀ x ∈ rest, sat x = sat' x := fun x hx => h x (by simp [hx])
    simp only [bestAltsGo, ha]
    cases sat' a with
    | none => rfl
    | some s =>
      cases sc with
      | none => exact ih hr _ _
      | some b =>
        simp only
        split
        · exact ih hr _ _
        · split
          · exact ih hr _ _
          · exact ih hr _ _

theorem bestAltsGo_mem (sat : List Cand → Option Rat) (alts : List (List Cand)) (best : List (List Cand))
    (sc : Option Rat) (res : List (List Cand)) (h : bestAltsGo sat alts best sc = some res) :
    ∀ a ∈ res, a ∈ best ∨ a ∈ alts := by
  induction alts generalizing best sc with
  | nil =>
    simp only [bestAltsGo, Option.some.injEq] at h
    subst h
    intro a ha
    exact Or.inl ha
  | cons x rest ih =>
    simp only [bestAltsGo] at h
    cases hs : sat x with
    | none => simp [hs] at h
    | some s =>
      simp only [hs] at h
      intro a ha
      cases sc with
      | none =>
        rcases ih _ _ h a ha with h1 | h1
        · simp at h1; right; simp [h1]
        · right; simp [h1]
      | some b =>
        simp only at h
        split at h
        · rcases ih _ _ h a ha with h1 | h1
          · simp at h1; right; simp [h1]
          · right; simp [h1]
        · split at h
          · rcases ih _ _ h a ha with h1 | h1
            · simp at h1
              rcases h1 with h1 | h1
              · left; exact h1
              · right; simp [h1]
            · right; simp [h1]
          · rcases ih _ _ h a ha with h1 | h1
            · left; exact h1
            · right; simp [h1]

theorem dropsGo_congr (sat sat' : List Cand → Option Rat) (alt : List Cand)
    (h : ∀ c, sat (alt.filter (fun x => x != c)) = sat' (alt.filter (fun x => x != c))) (cs : List Cand) :
    dropsGo sat alt cs = dropsGo sat' alt cs := by
  induction cs with
  | nil => rfl
  | cons c rest ih => simp only [dropsGo, h c, ih]

/-- two satisfaction functions that agree on every candidate set of at most `n` members give the same evaluation -/
theorem pavEvalWith_congr (sat sat' : List Cand → Option Rat) (votes : ApprovalProfile) (n : Nat)
    (h : ∀ a : List Cand, a.length ≤ n → sat a = sat' a) :
    pavEvalWith sat votes n = pavEvalWith sat' votes n := by
  have hb : bestAltsGo sat (combos (allCands votes) n) [] none = bestAltsGo sat' (combos (allCands votes) n) [] none :=
    bestAltsGo_congr sat sat' _ (fun a ha => h a (le_of_eq (combos_length _ _ a ha))) _ _
  unfold pavEvalWith
  rw [hb]
  cases hres : bestAltsGo sat' (combos (allCands votes) n) [] none with
  | none => rfl
  | some res =>
    match res, hres with
    | [], _ => rfl
    | [alt], hres =>
      have hm : alt ∈ combos (allCands votes) n := by
        rw [← hb] at hres
        rcases bestAltsGo_mem sat _ _ _ _ hres alt (by simp) with h1 | h1
        · simp at h1
        · exact h1
      have hl : alt.length = n := combos_length _ _ alt hm
      have hd : dropsGo sat alt alt = dropsGo sat' alt alt :=
        dropsGo_congr sat sat' alt (fun c => h _ (by
          have := List.length_filter_le (fun x => x != c) alt
          omega)) alt
      simp only [hd]
    | _ :: _ :: _, _ => rfl

/-- with a valid cache longer than the seat count the evaluation is the cache-free specification -/
theorem pavEval_eq_spec (coefs : List Rat) (hinv : PavInv coefs) (votes : ApprovalProfile) (n : Nat)
    (hlen : n < coefs.length) : pavEval coefs votes n = pavSpec votes n := by
  unfold pavEval pavSpec
  apply pavEvalWith_congr
  intro a ha
  exact satisfaction_eq_H coefs hinv a (by omega) votes

/-! ### Borda scorer -/

/-- the converter overwrites the scorer state before it reads it: the output never mentions the old state -/
theorem bordaStep_out_indep (base : Int) (s s' : BordaState) (votes : RankedProfile) :
    (bordaStep base s votes).2 = (bordaStep base s' votes).2 := rfl

theorem bordaStep_state (base : Int) (s : BordaState) (votes : RankedProfile) :
    (bordaStep base s votes).1 = bordaSet base (allRanked votes).length := rfl

/-! ### reseeding generator -/

theorem blocksReseeding_out_indep {G Req Out : Type} (M : RngModel G Req Out) (seed : Nat) (g g' : G)
    (blocks : List (List Req)) : (blocksReseeding M seed g blocks).2 = (blocksReseeding M seed g' blocks).2 := by
  cases blocks with
  | nil => rfl
  | cons r rs => rfl

theorem seededStep_out_indep {G Req Out : Type} (M : RngModel G Req Out) (g g' : G) (c : RngCall G Req) :
    (seededStep M g c).2 = (seededStep M g' c).2 := by
  cases c with
  | seeded seed blocks => exact blocksReseeding_out_indep M seed g g' blocks
  | other f => rfl

/-! ### defaultdict of checkers -/

/-- two stores that answer every lookup alike -/
def LookupEq (d : Bounds) (st st' : CheckerStore) : Prop := ∀ k, (ddGet d st k).2 = (ddGet d st' k).2

theorem LookupEq.refl (d : Bounds) (st : CheckerStore) : LookupEq d st st := fun _ => rfl

theorem LookupEq.trans {d : Bounds} {a b c : CheckerStore} (h1 : LookupEq d a b) (h2 : LookupEq d b c) :
    LookupEq d a c := fun k => (h1 k).trans (h2 k)

theorem LookupEq.symm {d : Bounds} {a b : CheckerStore} (h : LookupEq d a b) : LookupEq d b a :=
  fun k => (h k).symm

/-- materialising a key does not change the answer to any lookup -/
theorem ddGet_idem (d : Bounds) (st : CheckerStore) (k j : Nat) :
    (ddGet d (ddGet d st k).1 j).2 = (ddGet d st j).2 := by
  unfold ddGet
  cases hk : st.find? (fun p => p.1 == k) with
  | some p => rfl
  | none =>
    simp only [List.find?_append]
    cases hj : st.find? (fun p => p.1 == j) with
    | some q => simp
    | none =>
      by_cases hkj : k = j
      · subst hkj; simp
      · simp [hkj]

theorem ddGet_lookupEq (d : Bounds) (st : CheckerStore) (k : Nat) : LookupEq d (ddGet d st k).1 st :=
  fun j => ddGet_idem d st k j

theorem ddGet_congr {d : Bounds} {st st' : CheckerStore} (h : LookupEq d st st') (k : Nat) :
    LookupEq d (ddGet d st k).1 (ddGet d st' k).1 :=
  ((ddGet_lookupEq d st k).trans h).trans (ddGet_lookupEq d st' k).symm

theorem rankValLoop_out_congr (cfg : RankValCfg) (vote : Ballot) :
    ∀ (st st' : CheckerStore) (i tot : Nat) (seen : List Cand), LookupEq cfg.dflt st st' →
      (rankValLoop cfg st i vote tot seen).2 = (rankValLoop cfg st' i vote tot seen).2 := by
  induction vote with
  | nil => intro st st' i tot seen _; rfl
  | cons it rest ih =>
    intro st st' i tot seen h
    simp only [rankValLoop, h (i + 1)]
    split
    · exact ih _ _ _ _ _ (ddGet_congr h (i + 1))
    · rfl

theorem rankValLoop_store (cfg : RankValCfg) (vote : Ballot) :
    ∀ (st : CheckerStore) (i tot : Nat) (seen : List Cand),
      LookupEq cfg.dflt (rankValLoop cfg st i vote tot seen).1 st := by
  induction vote with
  | nil => intro st i tot seen; exact LookupEq.refl _ _
  | cons it rest ih =>
    intro st i tot seen
    simp only [rankValLoop]
    split
    · exact (ih _ _ _ _).trans (ddGet_lookupEq _ st (i + 1))
    · exact ddGet_lookupEq _ st (i + 1)

theorem rankValStep_store (cfg : RankValCfg) (st : CheckerStore) (vote : Ballot) :
    (rankValStep cfg st vote).1 = (rankValLoop cfg st 0 vote 0 []).1 := by
  unfold rankValStep
  simp only
  split
  · rfl
  · split
    · rfl
    · split <;> rfl

theorem rankValStep_out_congr (cfg : RankValCfg) (st st' : CheckerStore) (vote : Ballot)
    (h : LookupEq cfg.dflt st st') : (rankValStep cfg st vote).2 = (rankValStep cfg st' vote).2 := by
  have hl := rankValLoop_out_congr cfg vote st st' 0 0 [] h
  unfold rankValStep
  simp only [hl]
  split
  · rfl
  · split
    · rfl
    · split <;> rfl

theorem scoreValStep_store (cfg : ScoreValCfg) (st : CheckerStore) (vote : ScoreVote) :
    LookupEq cfg.dflt (scoreValStep cfg st vote).1 st := by
  unfold scoreValStep
  simp only
  split
  · exact LookupEq.refl _ _
  · split
    · exact LookupEq.refl _ _
    · split
      · exact ddGet_lookupEq _ _ _
      · split
        · exact ddGet_lookupEq _ _ _
        · split <;> exact ddGet_lookupEq _ _ _
        · split <;> exact ddGet_lookupEq _ _ _

theorem scoreValStep_out_congr (cfg : ScoreValCfg) (st st' : CheckerStore) (vote : ScoreVote)
    (h : LookupEq cfg.dflt st st') : (scoreValStep cfg st vote).2 = (scoreValStep cfg st' vote).2 := by
  unfold scoreValStep
  simp only [h vote.length]
  split
  · rfl
  · split
    · rfl
    · split
      · rfl
      · split
        · rfl
        · split <;> rfl
        · split <;> rfl

/-! ### dispatch cache -/

/-- every remembered answer is the answer for every evaluator of that class -/
def KwCacheOK (c : KwCache) : Prop := ∀ p ∈ c, ∀ e : Ev, e.cls = p.1.1 → acceptsKw e p.1.2 = p.2

theorem dispatchStepCached_out (c : KwCache) (q : Ev × Nat) (hc : KwCacheOK c) :
    (dispatchStepCached c q).2 = acceptsKw q.1 q.2 := by
  unfold dispatchStepCached
  split
  · rename_i p hf
    have hm := List.mem_of_find?_eq_some hf
    have hp := List.find?_some hf
    simp only [beq_iff_eq] at hp
    have := hc p hm q.1 (by rw [hp])
    rw [hp] at this
    exact this.symm
  · rfl

theorem dispatchStepCached_inv
    (H : ∀ (e e' : Ev) (k : Nat), e.cls = e'.cls → acceptsKw e k = acceptsKw e' k)
    (c : KwCache) (q : Ev × Nat) (hc : KwCacheOK c) : KwCacheOK (dispatchStepCached c q).1 := by
  unfold dispatchStepCached
  split
  · exact hc
  · intro p hp e he
    simp only [List.mem_append, List.mem_singleton] at hp
    rcases hp with hp | hp
    · exact hc p hp e he
    · subst hp
      exact H e q.1 q.2 he

end VL.Purity
