/-
  C10, family 3: the vote converters do not depend on the order in which the ballots of a profile are presented
  (a profile is the LIST of (ballot, weight) pairs of the dict, in insertion order).  C13 proves `X(p)(k) = Σ_{(b,w) ∈ p} w · img b k`
  for every converter `X`; permutation invariance is commutativity of that sum.  The output dicts have distinct keys and the
  same key sets, hence they are permutations of each other, and an evaluator that is permutation invariant on dicts
  (`getNBest_perm`) gives the same outcome.
-/
import VotelibProofs.Lemmas.PermBase
import VotelibProofs.Props.C13
namespace VL.Perm
open VL VL.Convert VL.C10

/-! ### dicts with the same content are permutations of each other -/

theorem dict_perm_of_toFun_eq {κ : Type} [DecidableEq κ] {d₁ d₂ : Dict κ} (h1 : (dkeys d₁).Nodup) (h2 : (dkeys d₂).Nodup)
    (hk : ∀ k, k ∈ dkeys d₁ ↔ k ∈ dkeys d₂) (hf : ∀ k, toFun d₁ k = toFun d₂ k) : d₁.Perm d₂ := by
  have key : ∀ (a b : Dict κ), (dkeys a).Nodup → (dkeys b).Nodup → (∀ k, k ∈ dkeys a → k ∈ dkeys b) →
      (∀ k, toFun a k = toFun b k) → ∀ e ∈ a, e ∈ b := by
    intro a b ha hb hsub hfun e he
    have hmem : e.1 ∈ dkeys b := hsub e.1 (List.mem_map.2 ⟨e, he, rfl⟩)
    obtain ⟨e', he', hk'⟩ := List.mem_map.1 hmem
    have v1 : toFun a e.1 = e.2 := toFun_eq_of_mem ha (k := e.1) (v := e.2) he
    have v2 : toFun b e.1 = e'.2 := toFun_eq_of_mem hb (k := e.1) (v := e'.2) (by rw [← hk']; exact he')
    have : e = e' := Prod.ext hk'.symm (by rw [← v1, ← v2, hfun])
    rw [this]; exact he'
  refine (List.perm_ext_iff_of_nodup (List.Nodup.of_map _ h1) (List.Nodup.of_map _ h2)).mpr (fun e => ⟨?_, ?_⟩)
  · exact key d₁ d₂ h1 h2 (fun k => (hk k).mp) hf e
  · exact key d₂ d₁ h2 h1 (fun k => (hk k).mpr) (fun k => (hf k).symm) e

theorem mem_dkeys_foldl_addTo_const {κ : Type} [DecidableEq κ] (l : List κ) (v : Rat) (acc : Dict κ) (k : κ) :
    k ∈ dkeys (l.foldl (fun a c => addTo a c v) acc) ↔ k ∈ dkeys acc ∨ k ∈ l := by
  induction l generalizing acc with
  | nil => simp
  | cons c cs ih =>
    rw [List.foldl_cons, ih, mem_dkeys_addTo]
    simp only [List.mem_cons]
    tauto

theorem mem_dkeys_foldl_step {κ β : Type} [DecidableEq κ] (step : Dict κ → β × Rat → Dict κ) (emits : β → List κ)
    (h : ∀ acc bw k, k ∈ dkeys (step acc bw) ↔ k ∈ dkeys acc ∨ k ∈ emits bw.1)
    (p : Dict β) (acc : Dict κ) (k : κ) :
    k ∈ dkeys (p.foldl step acc) ↔ k ∈ dkeys acc ∨ ∃ bw ∈ p, k ∈ emits bw.1 := by
  induction p generalizing acc with
  | nil => simp
  | cons bw t ih =>
    rw [List.foldl_cons, ih, h]
    simp only [List.mem_cons, exists_eq_or_imp]
    tauto

/-! ### ApprovalToSimpleVotes -/

theorem approvalOK_perm (split : Bool) {p₁ p₂ : AProfile} (h : p₁.Perm p₂) : C13.ApprovalOK split p₁ ↔ C13.ApprovalOK split p₂ := by
  unfold C13.ApprovalOK
  constructor
  · intro h1 hs bw hbw; exact h1 hs bw (h.mem_iff.mpr hbw)
  · intro h1 hs bw hbw; exact h1 hs bw (h.mem_iff.mp hbw)

theorem mem_dkeys_approval (split : Bool) (p : AProfile) (k : Cand) :
    k ∈ dkeys (p.foldl (approvalStep split) []) ↔ ∃ bw ∈ p, k ∈ bw.1 := by
  rw [mem_dkeys_foldl_step (approvalStep split) (fun b => b)
    (fun acc bw k => by unfold approvalStep; exact mem_dkeys_foldl_addTo_const _ _ _ _)]
  simp [dkeys]

/-- **ApprovalToSimpleVotes: ballot-order independence** — the same exception, or the same totals (the dict up to order) -/
theorem approvalToSimple_perm (split : Bool) {p₁ p₂ : AProfile} (h : p₁.Perm p₂) :
    ExceptEquiv List.Perm (approvalToSimple split p₁) (approvalToSimple split p₂) := by
  by_cases hok : C13.ApprovalOK split p₁
  · have hok2 := (approvalOK_perm split h).mp hok
    obtain ⟨d₁, e1, n1, f1⟩ := C13.approvalToSimple_sum split p₁ hok
    obtain ⟨d₂, e2, n2, f2⟩ := C13.approvalToSimple_sum split p₂ hok2
    have k1 := approvalToSimple_eq_ok split p₁ hok
    have k2 := approvalToSimple_eq_ok split p₂ hok2
    rw [e1, e2]
    refine dict_perm_of_toFun_eq n1 n2 (fun k => ?_) (fun k => by rw [f1, f2, wsum_perm h])
    rw [k1] at e1; rw [k2] at e2
    injection e1 with e1; injection e2 with e2
    rw [← e1, ← e2, mem_dkeys_approval, mem_dkeys_approval]
    constructor
    · rintro ⟨bw, hbw, hk⟩; exact ⟨bw, h.mem_iff.mp hbw, hk⟩
    · rintro ⟨bw, hbw, hk⟩; exact ⟨bw, h.mem_iff.mpr hbw, hk⟩
  · have hok2 : ¬ C13.ApprovalOK split p₂ := fun hh => hok ((approvalOK_perm split h).mpr hh)
    have hs : split = true := by
      cases split with
      | true => rfl
      | false => exact absurd (fun hh => by cases hh) hok
    subst hs
    rw [C13.approvalToSimple_rejects p₁ hok, C13.approvalToSimple_rejects p₂ hok2]
    exact rfl

/-! ### RankedToPositionalVotes -/

theorem allRankedCandidates_perm {p₁ p₂ : RProfile} (h : p₁.Perm p₂) :
    (allRankedCandidates p₁).Perm (allRankedCandidates p₂) := by
  refine (List.perm_ext_iff_of_nodup (nodup_allRankedCandidates p₁) (nodup_allRankedCandidates p₂)).mpr (fun c => ?_)
  rw [mem_allRankedCandidates, mem_allRankedCandidates]
  constructor
  · rintro ⟨bw, hbw, hk⟩; exact ⟨bw, h.mem_iff.mp hbw, hk⟩
  · rintro ⟨bw, hbw, hk⟩; exact ⟨bw, h.mem_iff.mpr hbw, hk⟩

/-- **RankedToPositionalVotes: ballot-order independence**, for every rank scorer accepting the ballots (Borda accepts every
    profile of duplicate-free ballots): both presentations convert, to the same score dict up to order -/
theorem rankedToPositional_perm (sc : Scorer) {p₁ p₂ : RProfile} (h : p₁.Perm p₂)
    (hs : C13.ScorerOK sc (allRankedCandidates p₁).length p₁) :
    ∃ d₁ d₂, rankedToPositional sc p₁ = .ok d₁ ∧ rankedToPositional sc p₂ = .ok d₂ ∧ d₁.Perm d₂ := by
  have hU := allRankedCandidates_perm h
  have hs2 : C13.ScorerOK sc (allRankedCandidates p₂).length p₂ := by
    rw [← hU.length_eq]
    intro bw hbw; exact hs bw (h.mem_iff.mpr hbw)
  obtain ⟨d₁, e1, k1, n1, f1⟩ := C13.positional_sum sc _ p₁ (C13.covers_allRankedCandidates p₁) hs
  obtain ⟨d₂, e2, k2, n2, f2⟩ := C13.positional_sum sc _ p₂ (C13.covers_allRankedCandidates p₂) hs2
  refine ⟨d₁, d₂, e1, e2, dict_perm_of_toFun_eq (n1 (nodup_allRankedCandidates p₁)) (n2 (nodup_allRankedCandidates p₂))
    (fun k => by rw [k1, k2, hU.mem_iff]) (fun k => by rw [f1, f2, hU.length_eq, wsum_perm h])⟩

/-! ### RankedToCondorcetVotes -/

theorem universe_perm {p₁ p₂ : RProfile} (h : p₁.Perm p₂) :
    canonSet (allRankedCandidates p₁) = canonSet (allRankedCandidates p₂) :=
  (canonSet_eq_iff _ _).mpr (fun c => (allRankedCandidates_perm h).mem_iff)

theorem mem_dkeys_condorcetU (ab : Bool) (U : List Cand) (p : RProfile) (k : Cand × Cand) :
    k ∈ dkeys (condorcetU ab U p) ↔ ∃ bw ∈ p, k ∈ condorcetPairs (unrankedOf U ab bw.1) bw.1 := by
  unfold condorcetU
  rw [mem_dkeys_foldl_step (fun counts bw => (condorcetPairs (unrankedOf U ab bw.1) bw.1).foldl (fun counts k => addTo counts k bw.2) counts)
    (fun b => condorcetPairs (unrankedOf U ab b) b)
    (fun acc bw k => mem_dkeys_foldl_addTo_const _ _ _ _)]
  simp [dkeys]

/-- **RankedToCondorcetVotes: ballot-order independence** (both modes): the same pairwise counts — the dict up to order -/
theorem rankedToCondorcet_perm (ab : Bool) {p₁ p₂ : RProfile} (h : p₁.Perm p₂) :
    (rankedToCondorcet ab p₁).Perm (rankedToCondorcet ab p₂) := by
  unfold rankedToCondorcet
  rw [universe_perm h]
  refine dict_perm_of_toFun_eq (C13.condorcet_is_dict ab _ p₁) (C13.condorcet_is_dict ab _ p₂) (fun k => ?_) (fun k => ?_)
  · rw [mem_dkeys_condorcetU, mem_dkeys_condorcetU]
    constructor
    · rintro ⟨bw, hbw, hk⟩; exact ⟨bw, h.mem_iff.mp hbw, hk⟩
    · rintro ⟨bw, hbw, hk⟩; exact ⟨bw, h.mem_iff.mpr hbw, hk⟩
  · rw [C13.condorcet_sum ab _ p₁ k, C13.condorcet_sum ab _ p₂ k, wsum_perm h]

end VL.Perm
