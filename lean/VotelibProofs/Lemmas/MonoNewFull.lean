/-
  C17 helper lemmas: a NEW ballot that ranks `w` first and other candidates below it (the wider reading of "adding a new
  ballot that ranks the winner first").  On the matrix level every entry `d(w, ·)` rises by one, `d(·, w)` is unchanged
  and of two opposite entries between other candidates at most one rises by one (`Added`).  Minimax with margins or
  pairwise opposition keeps the winner; winning votes, Copeland, Bucklin and Schulze do not (witnesses in Props/C17).
-/
import VotelibProofs.Lemmas.MonoBridge
namespace VL.Mono
open VL VL.Convert VL.Condorcet

/-- what a new ballot with `w` alone at the top does to the pairwise matrix -/
structure Added (v v' : Pairwise) (w : Cand) : Prop where
  up : ∀ y ∈ candidates v, y ≠ w → pget v' (w, y) = pget v (w, y) + 1
  keep : ∀ y, pget v' (y, w) = pget v (y, w)
  mono : ∀ x y, pget v (x, y) ≤ pget v' (x, y)
  one : ∀ x y, pget v' (x, y) + pget v' (y, x) ≤ pget v (x, y) + pget v (y, x) + 1

/-- the pairwise win scorers under which such a ballot cannot hurt `w`: all defeats of `w` shrink by `δ`, nobody
    else's defeat shrinks by more than `δ` -/
def scorerShift : Condorcet.Scorer → Option Rat
  | .margins => some 1
  | .pairwiseOpposition => some 0
  | .winningVotes => none

theorem pairScore_added_w {sc : Condorcet.Scorer} {δ : Rat} (hs : scorerShift sc = some δ) {v v' : Pairwise} {w : Cand}
    (h : Added v v' w) {o : Cand} (ho : o ∈ candidates v) (how : o ≠ w) :
    pairScore sc v' o w = pairScore sc v o w - δ := by
  cases sc <;> simp only [scorerShift, Option.some.injEq] at hs
  · cases hs
  · subst hs; simp only [pairScore, h.keep o, h.up o ho how]; ring
  · subst hs; simp only [pairScore, h.keep o]; ring

theorem pairScore_added_other {sc : Condorcet.Scorer} {δ : Rat} (hs : scorerShift sc = some δ) {v v' : Pairwise} {w : Cand}
    (h : Added v v' w) (o y : Cand) : pairScore sc v o y - δ ≤ pairScore sc v' o y := by
  cases sc <;> simp only [scorerShift, Option.some.injEq] at hs
  · cases hs
  · subst hs
    simp only [pairScore]
    have h1 := h.mono o y
    have h2 := h.one o y
    linarith
  · subst hs
    simp only [pairScore]
    have h1 := h.mono o y
    linarith

/-- **Minimax (margins / pairwise opposition), matrix level, new ballot with `w` first.** -/
theorem minimax_added {sc : Condorcet.Scorer} {δ : Rat} (hs : scorerShift sc = some δ) (v v' : Pairwise) (w : Cand)
    (hwf : WF v) (hwf' : WF v') (ha : Added v v' w) (hc : ∀ c, c ∈ candidates v' ↔ c ∈ candidates v)
    (h : minimax sc v 1 = [Slot.cand w]) : minimax sc v' 1 = [Slot.cand w] := by
  rw [minimax_eq_worst sc v hwf] at h
  rw [minimax_eq_worst sc v' hwf']
  have hn : (keys ((candidates v).map (fun c => (c, -(worstDefeat sc v c))))).Nodup := by
    rw [keys_worstTable]; exact nodup_candidates v
  have hn' : (keys ((candidates v').map (fun c => (c, -(worstDefeat sc v' c))))).Nodup := by
    rw [keys_worstTable]; exact nodup_candidates v'
  have hw : w ∈ candidates v := by
    have := h
    rw [sole_iff _ hn, soleMax_iff _ hn, keys_worstTable] at this
    exact this.1
  -- the worst defeat of w shrinks by at least δ
  have h1 : worstDefeat sc v' w ≤ worstDefeat sc v w - δ := by
    obtain ⟨⟨o, ho, hne, hso⟩, _⟩ := worstDefeat_spec (sc := sc) (exists_other hwf' ((hc w).mpr hw))
    obtain ⟨_, hmax⟩ := worstDefeat_spec (sc := sc) (exists_other hwf hw)
    rw [hso, pairScore_added_w hs ha ((hc o).mp ho) hne]
    have := hmax o ((hc o).mp ho) hne
    linarith
  -- nobody else's shrinks by more than δ
  have h2 : ∀ y ∈ candidates v, worstDefeat sc v y - δ ≤ worstDefeat sc v' y := by
    intro y hy
    obtain ⟨⟨o, ho, hne, hso⟩, _⟩ := worstDefeat_spec (sc := sc) (exists_other hwf hy)
    obtain ⟨_, hmax'⟩ := worstDefeat_spec (sc := sc) (exists_other hwf' ((hc y).mpr hy))
    rw [hso]
    exact le_trans (pairScore_added_other hs ha o y) (hmax' o ((hc o).mpr ho) hne)
  apply additive_sole _ _ hn hn' w ?_ ?_ ?_ h
  · intro c hcc; rw [keys_worstTable] at hcc ⊢; exact (hc c).mp hcc
  · rw [keys_worstTable]; exact (hc w).mpr hw
  · intro c hcc _
    rw [keys_worstTable] at hcc
    have hcv := (hc c).mp hcc
    rw [toFun_map_fn _ (nodup_candidates v') _ c hcc, toFun_map_fn _ (nodup_candidates v) _ c hcv,
      toFun_map_fn _ (nodup_candidates v') _ w ((hc w).mpr hw), toFun_map_fn _ (nodup_candidates v) _ w hw]
    have := h2 c hcv
    linarith

/-! ### from the ballot to the matrix -/

theorem pget_addTo_val (p : RProfile) (nb : Ballot) (hwf : ∀ x ∈ dkeys p, (ballotCands x).Nodup)
    (hnb : (ballotCands nb).Nodup) (hsub : ∀ c ∈ ballotCands nb, c ∈ allRankedCandidates p) (k : Pair) :
    pget (pairwiseOf (addTo p nb 1)) k = pget (pairwiseOf p) k + ind (candUniverse p) nb k := by
  have hU := candUniverse_eq (arc_addTo p nb hsub)
  have hwf' : ∀ x ∈ dkeys (addTo p nb 1), (ballotCands x).Nodup := by
    intro x hx
    rcases (mem_dkeys_addTo p _ 1 x).mp hx with hx | rfl
    · exact hwf x hx
    · exact hnb
  rw [pairwiseOf_eq, pairwiseOf_eq, hU, pget_condorcetU _ (nodup_candUniverse p) _ hwf',
    pget_condorcetU _ (nodup_candUniverse p) _ hwf, wsum_addTo]; ring

/-- a new ballot `w > …` (candidates of the election only) changes the matrix as `Added` says -/
theorem added_new_full (p : RProfile) (w : Cand) (rest : Ballot) (hwf : ∀ x ∈ dkeys p, (ballotCands x).Nodup)
    (hnb : (ballotCands (RankItem.one w :: rest)).Nodup)
    (hsub : ∀ c ∈ ballotCands (RankItem.one w :: rest), c ∈ allRankedCandidates p) :
    Added (pairwiseOf p) (pairwiseOf (addTo p (RankItem.one w :: rest) 1)) w := by
  have hval := pget_addTo_val p _ hwf hnb hsub
  have hwr : w ∉ ballotCands rest := by
    rw [bc_cons] at hnb
    exact fun h => (List.nodup_append.mp hnb).2.2 w (by simp [RankItem.cands]) w h rfl
  have hnn : ∀ k, 0 ≤ ind (candUniverse p) (RankItem.one w :: rest) k := fun k => ind_nonneg _ _ _
  refine ⟨fun y hy hyw => ?_, fun y => ?_, fun x y => ?_, fun x y => ?_⟩
  · rw [hval]
    have hc : counts (candUniverse p) (RankItem.one w :: rest) (w, y) := by
      rw [counts_iff]
      by_cases hyr : y ∈ ballotCands rest
      · left; simp only [Above]; left; exact ⟨by simp [RankItem.cands], hyr⟩
      · right
        refine ⟨by rw [bc_cons]; simp [RankItem.cands], (mem_candUniverse p y).mpr (candidates_sub_arc p y hy), ?_⟩
        rw [bc_cons]; simp only [RankItem.cands, List.mem_append, List.mem_singleton, not_or]
        exact ⟨hyw, hyr⟩
    unfold ind; rw [if_pos hc]
  · rw [hval]
    have hc : ¬ counts (candUniverse p) (RankItem.one w :: rest) (y, w) := by
      rw [counts_iff]
      rintro (h | ⟨_, _, h3⟩)
      · simp only [Above] at h
        rcases h with ⟨_, h⟩ | h
        · exact hwr h
        · exact hwr (above_snd h)
      · apply h3; rw [bc_cons]; simp [RankItem.cands]
    unfold ind; rw [if_neg hc]; ring
  · rw [hval]; have := hnn (x, y); linarith
  · rw [hval, hval]
    have : ind (candUniverse p) (RankItem.one w :: rest) (x, y) + ind (candUniverse p) (RankItem.one w :: rest) (y, x) ≤ 1 := by
      unfold ind
      by_cases h1 : counts (candUniverse p) (RankItem.one w :: rest) (x, y)
      · have h2 : ¬ counts (candUniverse p) (RankItem.one w :: rest) (y, x) := fun h2 => condPairs_asymm true _ hnb h1 h2
        rw [if_pos h1, if_neg h2]; norm_num
      · rw [if_neg h1]; split <;> norm_num
    linarith

theorem candidates_added_iff (p : RProfile) (nb : Ballot) (hp : ProfileOK p)
    (hsub : ∀ c ∈ ballotCands nb, c ∈ allRankedCandidates p) (c : Cand) :
    c ∈ candidates (pairwiseOf (addTo p nb 1)) ↔ c ∈ candidates (pairwiseOf p) := by
  have hU := candUniverse_eq (arc_addTo p nb hsub)
  constructor
  · intro hc
    apply hp.full
    exact (arc_addTo p nb hsub c).mp (candidates_sub_arc _ c hc)
  · intro hc
    obtain ⟨e, he, hce⟩ := mem_candidates.mp hc
    have hk : e.1 ∈ dkeys (condorcetU true (candUniverse p) p) := List.mem_map.mpr ⟨e, he, rfl⟩
    obtain ⟨bx, hbx, hcnt⟩ := (mem_dkeys_condorcetU _ p e.1).mp hk
    have hpair : e.1 = (e.1.1, e.1.2) := rfl
    rw [hpair, ← hU] at hcnt
    obtain ⟨h1, h2⟩ := mem_candidates_of_counts _ bx ((mem_dkeys_addTo p _ 1 bx).mpr (Or.inl hbx)) _ _ hcnt
    rcases hce with rfl | rfl <;> assumption

theorem wf_added (p : RProfile) (nb : Ballot) (hp : ProfileOK p) (hnb : (ballotCands nb).Nodup) :
    Condorcet.WF (pairwiseOf (addTo p nb 1)) := by
  have hnd' : ∀ x ∈ dkeys (addTo p nb 1), (ballotCands x).Nodup := by
    intro x hx
    rcases (mem_dkeys_addTo p _ 1 x).mp hx with hx | rfl
    · exact hp.nodup x hx
    · exact hnb
  exact (wf_condorcetU _ (nodup_candUniverse (addTo p nb 1)) _ hnd' (pos_addTo _ _ hp.pos)).1

end VL.Mono
