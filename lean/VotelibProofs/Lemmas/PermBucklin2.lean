/-
  C10 — ballot-order independence of `PreferenceAddition` (Bucklin / Oklahoma), part 2:
  `_decouple_equal_rankings`.  A ballot with a shared rank is deleted and its weight is spread over its variant
  ballots; the variants contain no shared rank (`variants_noShared`), so they are never deleted and a ballot with a
  shared rank is never a variant: the steps of different ballots commute, and the decoupled profile is the same dict
  up to insertion order for every order of the ballots.
-/
import VotelibProofs.Lemmas.PermBucklin
namespace VL.Perm.Buck
open VL VL.Convert VL.ShapeSeq VL.C10 VL.Perm.Stv

/-! ### the variants of a ballot contain no shared rank -/

theorem product_length {α : Type} (fs : List (List α)) : ∀ t ∈ product fs, t.length = fs.length := by
  induction fs with
  | nil => intro t ht; simp [product] at ht; rw [ht]; rfl
  | cons f rest ih =>
    intro t ht
    simp only [product, List.mem_flatMap, List.mem_map] at ht
    obtain ⟨x, _, t', ht', rfl⟩ := ht
    simp [ih t' ht']

theorem substitute_noShared : ∀ (suffix pre : Ballot) (i₀ : Nat) (off : Int) (vs : List (List Cand)),
    pre.any isShared = false → (pre.length : Int) = (i₀ : Int) + off → vs.length = (sharedRanks i₀ suffix).length →
    (substitute (pre ++ suffix) off (((sharedRanks i₀ suffix).map (·.1)).zip vs)).any isShared = false := by
  intro suffix
  induction suffix with
  | nil =>
    intro pre i₀ off vs hpre _ _
    simp only [sharedRanks, List.map_nil, List.zip_nil_left, substitute, List.append_nil]
    exact hpre
  | cons it rest ih =>
    intro pre i₀ off vs hpre hlen hvs
    cases it with
    | one c =>
      have e : pre ++ RankItem.one c :: rest = (pre ++ [RankItem.one c]) ++ rest := by simp
      rw [e]
      simp only [sharedRanks] at hvs ⊢
      apply ih (pre ++ [RankItem.one c]) (i₀ + 1) off vs
      · rw [List.any_append, hpre]; rfl
      · rw [List.length_append, List.length_singleton, Nat.cast_add, Nat.cast_add, Nat.cast_one, hlen]; ring
      · exact hvs
    | shared cs =>
      simp only [sharedRanks, List.length_cons] at hvs
      cases vs with
      | nil => simp at hvs
      | cons v vs' =>
        simp only [sharedRanks, List.map_cons, List.zip_cons_cons, substitute]
        have hk : ((i₀ : Int) + off).toNat = pre.length := by omega
        have htake : List.take pre.length (pre ++ RankItem.shared cs :: rest) = pre := by simp
        have hdrop : List.drop (pre.length + 1) (pre ++ RankItem.shared cs :: rest) = rest := by simp
        rw [hk, htake, hdrop]
        apply ih (pre ++ v.map RankItem.one) (i₀ + 1) (off + (v.length : Int) - 1) vs'
        · rw [List.any_append, hpre, Bool.false_or]
          rw [List.any_eq_false]
          intro x hx
          obtain ⟨c, _, rfl⟩ := List.mem_map.mp hx
          simp [isShared]
        · rw [List.length_append, List.length_map, Nat.cast_add, Nat.cast_add, Nat.cast_one, hlen]; ring
        · simp only [List.length_cons] at hvs; omega

theorem variants_noShared {b v : Ballot} (hv : v ∈ variants b) : v.any isShared = false := by
  unfold variants at hv
  simp only [List.mem_map] at hv
  obtain ⟨t, ht, rfl⟩ := hv
  have hl := product_length _ t ht
  rw [List.length_map] at hl
  have := substitute_noShared b [] 0 0 t rfl (by simp) hl
  simpa using this

/-! ### one step of the decoupling as a deletion and a batch of additions -/

/-- the additions caused by one ballot with a shared rank -/
def dReqs (bw : Ballot × Rat) : List (Ballot × Rat) :=
  (variants bw.1).map (fun v => (v, bw.2 / ((variants bw.1).length : Rat)))

/-- `del new_votes[ballot]` -/
def delKey (d : RProfile) (b : Ballot) : RProfile := d.filter (fun e => (fun k => decide (k ≠ b)) e.1)

/-- the body of the loop of `_decouple_equal_rankings` -/
def dStep (nv : RProfile) (bw : Ballot × Rat) : RProfile :=
  if bw.1.any isShared then addAllTo (delKey nv bw.1) (dReqs bw) else nv

theorem decouple_eq (p : RProfile) : decouple p = p.foldl dStep p := by
  unfold decouple
  congr 1
  funext nv bw
  unfold dStep
  split
  · unfold addAllTo dReqs delKey
    rw [List.foldl_map]
    rfl
  · rfl

theorem delKey_addTo (d : RProfile) {h k : Ballot} (hne : h ≠ k) (v : Rat) :
    delKey (addTo d h v) k = addTo (delKey d k) h v := by
  unfold delKey
  induction d with
  | nil => simp [addTo, hne]
  | cons e es ih =>
    obtain ⟨k', v'⟩ := e
    simp only [addTo]
    by_cases hh : k' = h
    · rw [if_pos hh]
      have hk' : k' ≠ k := hh ▸ hne
      simp only [List.filter_cons, hk', ne_eq, not_false_eq_true, decide_true, if_true, addTo, if_pos hh]
    · rw [if_neg hh]
      by_cases hk' : k' = k
      · simp only [List.filter_cons, hk', ne_eq, not_true_eq_false, decide_false] at ih ⊢
        simpa using ih
      · simp only [List.filter_cons, hk', ne_eq, not_false_eq_true, decide_true, if_true, addTo, if_neg hh] at ih ⊢
        rw [ih]

theorem delKey_addAllTo {reqs : List (Ballot × Rat)} {k : Ballot} (hk : k ∉ reqs.map (·.1)) (d : RProfile) :
    delKey (addAllTo d reqs) k = addAllTo (delKey d k) reqs := by
  induction reqs generalizing d with
  | nil => rfl
  | cons r rs ih =>
    simp only [List.map_cons, List.mem_cons, not_or] at hk
    have e1 : addAllTo d (r :: rs) = addAllTo (addReq d r) rs := rfl
    have e2 : addAllTo (delKey d k) (r :: rs) = addAllTo (addReq (delKey d k) r) rs := rfl
    rw [e1, e2, ih hk.2]
    unfold addReq
    rw [delKey_addTo d (fun e => hk.1 e.symm)]

theorem delKey_comm (d : RProfile) (k k' : Ballot) : delKey (delKey d k) k' = delKey (delKey d k') k := by
  unfold delKey
  rw [List.filter_filter, List.filter_filter]
  congr 1
  funext x
  exact Bool.and_comm _ _

theorem delKey_rel {d d' : RProfile} (h : VRel d d') (k : Ballot) : VRel (delKey d k) (delKey d' k) :=
  DRel.filter h (fun k' => decide (k' ≠ k))

theorem shared_not_in_dReqs {b : Ballot} (hb : b.any isShared = true) (bw : Ballot × Rat) :
    b ∉ (dReqs bw).map (·.1) := by
  intro hm
  unfold dReqs at hm
  rw [List.map_map] at hm
  obtain ⟨v, hv, rfl⟩ := List.mem_map.mp hm
  have := variants_noShared hv
  simp only [Function.comp] at hb
  rw [this] at hb
  cases hb

theorem dStep_rel (x : Ballot × Rat) (d d' : RProfile) (h : VRel d d') : VRel (dStep d x) (dStep d' x) := by
  unfold dStep
  split
  · exact addAllTo_perm (List.Perm.refl _) (delKey_rel h _)
  · exact h

theorem dStep_comm (x y : Ballot × Rat) (d : RProfile) (h : VRel d d) :
    VRel (dStep (dStep d x) y) (dStep (dStep d y) x) := by
  by_cases hx : x.1.any isShared = true
  · by_cases hy : y.1.any isShared = true
    · have key : ∀ {u w : Ballot × Rat}, w.1.any isShared = true → u.1.any isShared = true →
          dStep (dStep d u) w = addAllTo (delKey (delKey d u.1) w.1) (dReqs u ++ dReqs w) := by
        intro u w hw hu
        unfold dStep
        rw [if_pos hu, if_pos hw, delKey_addAllTo (shared_not_in_dReqs hw u), addAllTo_append]
      rw [key hy hx, key hx hy, delKey_comm d x.1 y.1]
      exact addAllTo_perm List.perm_append_comm (delKey_rel (delKey_rel h _) _)
    · have e : ∀ d', dStep d' y = d' := fun d' => by unfold dStep; rw [if_neg hy]
      rw [e, e]
      exact dStep_rel x d d h
  · have e : ∀ d', dStep d' x = d' := fun d' => by unfold dStep; rw [if_neg hx]
    rw [e, e]
    exact dStep_rel y d d h

/-- `_decouple_equal_rankings` on the same ballots in another order: the same dict up to insertion order -/
theorem decouple_rel {p₁ p₂ : RProfile} (hp : p₁.Perm p₂) (hn : (p₁.map (·.1)).Nodup) :
    VRel (decouple p₁) (decouple p₂) := by
  rw [decouple_eq, decouple_eq]
  exact foldl_perm_rel VRel vRel_symm vRel_trans dStep (fun _ _ => True) (fun _ _ _ => trivial)
    dStep_rel (fun x y s _ hs => dStep_comm x y s hs) hp (List.pairwise_of_forall (fun _ _ => trivial)) _ _
    (DRel.of_perm hp hn)

end VL.Perm.Buck

namespace VL.Perm
open VL VL.Convert VL.ShapeSeq VL.C10 VL.Perm.Buck VL.Perm.Stv

/-- `_decouple_equal_rankings` does not depend on the ballot order: the decoupled profiles are permutations of each
    other and have distinct ballots -/
theorem decouple_perm {p₁ p₂ : RProfile} (hp : p₁.Perm p₂) (hn : (p₁.map (·.1)).Nodup) :
    (decouple p₁).Perm (decouple p₂) ∧ ((decouple p₁).map (·.1)).Nodup :=
  ⟨DRel.perm (decouple_rel hp hn), (decouple_rel hp hn).nd₁⟩

/-- **Ballot-order independence of `PreferenceAddition`** (Bucklin: `coefBucklin`, Oklahoma: `coefOklahoma`, any
    coefficient function; with or without `split_equal_rankings`; any number of seats; ranked profiles that may contain
    shared ranks): the same ballots in another insertion order give the same exception or a `SlotsEquiv` result. -/
theorem preferenceAddition_perm (coef : Nat → Rat) (split : Bool) {p₁ p₂ : RProfile} (hp : p₁.Perm p₂)
    (hn : (p₁.map (·.1)).Nodup) (n : Nat) :
    ExceptEquiv SlotsEquiv (preferenceAddition coef split p₁ n) (preferenceAddition coef split p₂ n) := by
  unfold preferenceAddition
  cases split with
  | false => exact paCore_perm coef hp n
  | true => exact paCore_perm coef (DRel.perm (decouple_rel hp hn)) n

/-- the hypotheses of `preferenceAddition_perm` on a concrete profile with a shared rank, and a run that ends in a Tie -/
example :
    ([([.shared [0, 1], .one 2], 2), ([.one 2, .one 0], 1), ([.one 1], 1)] : RProfile).Perm
      [([.one 1], 1), ([.shared [0, 1], .one 2], 2), ([.one 2, .one 0], 1)] ∧
    (([([.shared [0, 1], .one 2], 2), ([.one 2, .one 0], 1), ([.one 1], 1)] : RProfile).map (·.1)).Nodup := by
  decide +kernel

/-- both runs of the example succeed (a Tie for the single seat), so `preferenceAddition_perm` yields the `SlotsEquiv` clause -/
example :
    preferenceAddition coefBucklin true [([.shared [0, 1], .one 2], 2), ([.one 2, .one 0], 1), ([.one 1], 1)] 1
      = .ok [Slot.tie [1, 0]] ∧
    preferenceAddition coefBucklin true [([.one 1], 1), ([.shared [0, 1], .one 2], 2), ([.one 2, .one 0], 1)] 1
      = .ok [Slot.tie [1, 0]] := by decide +kernel

/-- **Equality is false**: the members of a reported Tie (and the individually elected of one round with equal totals)
    are listed in the insertion order of the running totals, i.e. in the order of first appearance on the ballots. -/
theorem preferenceAddition_order_witness :
    ¬ ∀ (p₁ p₂ : RProfile) (n : Nat), p₁.Perm p₂ → (p₁.map (·.1)).Nodup →
      preferenceAddition coefBucklin false p₁ n = preferenceAddition coefBucklin false p₂ n := by
  intro h
  have := h [([.one 0, .one 1], 1), ([.one 1, .one 0], 1)] [([.one 1, .one 0], 1), ([.one 0, .one 1], 1)] 1
    (by decide +kernel) (by decide +kernel)
  revert this
  decide +kernel

end VL.Perm
