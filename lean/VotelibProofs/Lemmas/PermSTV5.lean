/-
  C10 — ballot-order independence of the transferable vote with the Gregory transferer: the end theorems.

  The ranked profile is the dict  ballot -> number of votes  in insertion order (`Profile`, distinct ballots);
  `p₁.Perm p₂` = the same ballots presented in another order.  Helpers live in `VL.Perm.Stv`
  (PermSTV.lean .. PermSTV4.lean).

  What holds and what does not.
  * The run on `p₂` raises exactly the exception of the run on `p₁`, or both succeed (`ExceptEquiv`).
  * Distributor form: the resulting seats dicts are the same dict up to insertion order
    (permutation of the items, distinct keys; hence equal seat numbers for every candidate).
  * Selector form: the elected lists are permutations of each other.  EQUALITY OF THE LISTS IS FALSE in
    general (`stv_selector_order_witness`): candidates that reach the quota in the same count with equal
    totals are listed in the stable order of `sorted(...)`, i.e. in the insertion order of the allocation
    dict, which is the order of first appearance on the ballots (`all_ranked_candidates`).
-/
import VotelibProofs.Lemmas.PermSTV4
import VotelibModel.Gen.Quota
namespace VL.Perm
open VL VL.STV VL.C10 VL.Perm.Stv

/-- the two inputs of a distributor run are related when the dicts are the same up to insertion order -/
theorem stv_inpRel {p₁ p₂ : Profile} (hp : p₁.Perm p₂) (hn : (p₁.map (·.1)).Nodup) (n : Nat)
    {prev₁ prev₂ maxS₁ maxS₂ : Seats} (hprev : prev₁.Perm prev₂) (hprevn : (prev₁.map (·.1)).Nodup)
    (hmax : maxS₁.Perm maxS₂) (hmaxn : (maxS₁.map (·.1)).Nodup) :
    InpRel { votes := p₁, nSeats := n, prev := prev₁, maxS := maxS₁ }
      { votes := p₂, nSeats := n, prev := prev₂, maxS := maxS₂ } :=
  ⟨hp, hn, rfl, DRel.of_perm hprev hprevn, DRel.of_perm hmax hmaxn⟩

theorem stv_selector_inpRel {p₁ p₂ : Profile} (hp : p₁.Perm p₂) (hn : (p₁.map (·.1)).Nodup) (n : Nat) :
    InpRel (selectorInput p₁ n) (selectorInput p₂ n) := by
  refine ⟨hp, hn, rfl, seatsRel_nil, ?_⟩
  refine DRel.of_perm ((allRanked_perm hp).map _) ?_
  show (((allRanked p₁).map (fun c => (c, 1))).map (·.1)).Nodup
  rw [List.map_map]
  exact (allRanked_nodup p₁).map (fun _ _ e => e)

/-- **One count.**  `next_count` (Gregory) on two allocations that are the same dict of dicts up to insertion
    order, with the same seats dicts up to insertion order: the same exception, or outputs (new allocation, newly
    elected, eliminated, shortcut flag) that agree up to insertion order. -/
theorem stvStep_perm (cfg : Cfg) {a₁ a₂ : Alloc} (h : AllocRel a₁ a₂) (n : Nat) (total : Rat)
    {prev₁ prev₂ maxS₁ maxS₂ : Seats} (hp : SeatsRel prev₁ prev₂) (hm : SeatsRel maxS₁ maxS₂) (ds : List Draw) :
    ExceptEquiv (fun r₁ r₂ => OutRel r₁.1 r₂.1 ∧ r₁.2 = r₂.2)
      (nextCount gregory cfg a₁ n total prev₁ maxS₁ ds) (nextCount gregory cfg a₂ n total prev₂ maxS₂ ds) :=
  nextCount_perm cfg h n total hp hm ds

/-- **The loop.**  After at most `k` counts the two runs are in related states, or raised the same exception. -/
theorem stvLoop_perm (cfg : Cfg) {i₁ i₂ : Input} (hi : InpRel i₁ i₂) (k : Nat) (ds : List Draw) :
    ExceptEquiv StRel (do let st0 ← initState gregory i₁ ds; runCounts gregory cfg i₁ k st0)
      (do let st0 ← initState gregory i₂ ds; runCounts gregory cfg i₂ k st0) := by
  obtain ⟨s₁, s₂, h1, h2, hs⟩ := initState_perm hi ds
  rw [h1, h2]
  exact runCounts_perm cfg hi k hs

/-- `TransferableVoteDistributor.evaluate` (Gregory) on related inputs -/
theorem stv_distributor_rel (cfg : Cfg) {i₁ i₂ : Input} (hi : InpRel i₁ i₂) (ds : List Draw) :
    ExceptEquiv SeatsRel (distributorEvaluate gregory cfg i₁ ds) (distributorEvaluate gregory cfg i₂ ds) := by
  unfold distributorEvaluate
  obtain ⟨s₁, s₂, h1, h2, hs⟩ := initState_perm hi ds
  rw [h1, h2, ← evalFuel_perm hi]
  simp only [bind, Except.bind]
  rcases exceptEquiv_elim (runCounts_perm cfg hi (evalFuel i₁) hs) with ⟨e, g1, g2⟩ | ⟨t₁, t₂, g1, g2, ht⟩
  · rw [g1, g2]; exact rfl
  · rw [g1, g2]
    simp only
    have hf : finished i₁ t₁ = finished i₂ t₂ := by
      unfold finished
      rw [ht.seats.sum, hi.nSeats]
    rw [hf]
    split
    · exact ht.seats
    · exact rfl

/-- **Ballot-order independence, distributor form** (`TransferableVoteDistributor.evaluate`, Gregory transferer;
    protocol op `stv_eval` with `form = "distributor"`).  The same ballots in another insertion order (and the
    `prev_gains` / `max_seats` dicts in another insertion order): the same exception, or seats dicts with the same
    items in some order and distinct keys. -/
theorem stv_distributor_perm (cfg : Cfg) {p₁ p₂ : Profile} (hp : p₁.Perm p₂) (hn : (p₁.map (·.1)).Nodup) (n : Nat)
    {prev₁ prev₂ maxS₁ maxS₂ : Seats} (hprev : prev₁.Perm prev₂) (hprevn : (prev₁.map (·.1)).Nodup)
    (hmax : maxS₁.Perm maxS₂) (hmaxn : (maxS₁.map (·.1)).Nodup) (ds : List Draw) :
    ExceptEquiv (fun s₁ s₂ => s₁.Perm s₂ ∧ (s₁.map (·.1)).Nodup ∧ ∀ c, seatsGet s₁ c = seatsGet s₂ c)
      (distributorEvaluate gregory cfg { votes := p₁, nSeats := n, prev := prev₁, maxS := maxS₁ } ds)
      (distributorEvaluate gregory cfg { votes := p₂, nSeats := n, prev := prev₂, maxS := maxS₂ } ds) := by
  have h := stv_distributor_rel cfg (stv_inpRel hp hn n hprev hprevn hmax hmaxn) ds
  rcases exceptEquiv_elim h with ⟨e, g1, g2⟩ | ⟨t₁, t₂, g1, g2, ht⟩
  · rw [g1, g2]; exact rfl
  · rw [g1, g2]; exact ⟨DRel.perm ht, ht.nd₁, fun c => ht.seatsGet c⟩

/-- **Ballot-order independence, selector form** (`TransferableVoteSelector.evaluate`, Gregory transferer; protocol
    op `stv_eval` with `form = "selector"`).  For every configuration (quota function, `accept_equal_quota`,
    `mandatory_quota`, `eliminate_step`), every number of seats and all ballots: presenting the same ballots in
    another insertion order gives the same exception, or an elected list that is a permutation of the other one
    (the same set of winners, each listed once).  Equality of the lists is false: `stv_selector_order_witness`. -/
theorem stv_perm (cfg : Cfg) {p₁ p₂ : Profile} (hp : p₁.Perm p₂) (hn : (p₁.map (·.1)).Nodup) (n : Nat)
    (ds : List Draw) :
    ExceptEquiv List.Perm (selectorEvaluate gregory cfg p₁ n ds) (selectorEvaluate gregory cfg p₂ n ds) := by
  unfold selectorEvaluate
  have h := stv_distributor_rel cfg (stv_selector_inpRel hp hn n) ds
  rcases exceptEquiv_elim h with ⟨e, g1, g2⟩ | ⟨t₁, t₂, g1, g2, ht⟩
  · rw [g1, g2]; exact rfl
  · rw [g1, g2]
    show List.Perm (distributionToSelection t₁) (distributionToSelection t₂)
    exact ((distributionToSelection_perm t₁).trans ((DRel.perm ht).map _)).trans (distributionToSelection_perm t₂).symm

/-- the same winners: membership in the elected list does not depend on the ballot order -/
theorem stv_perm_mem (cfg : Cfg) {p₁ p₂ : Profile} (hp : p₁.Perm p₂) (hn : (p₁.map (·.1)).Nodup) (n : Nat)
    (ds : List Draw) {l₁ : List Cand} (h₁ : selectorEvaluate gregory cfg p₁ n ds = .ok l₁) :
    ∃ l₂, selectorEvaluate gregory cfg p₂ n ds = .ok l₂ ∧ l₁.length = l₂.length ∧ ∀ c, c ∈ l₁ ↔ c ∈ l₂ := by
  rcases exceptEquiv_elim (stv_perm cfg hp hn n ds) with ⟨e, g1, _⟩ | ⟨t₁, t₂, g1, g2, ht⟩
  · rw [h₁] at g1; cases g1
  · rw [h₁] at g1
    injection g1 with g1
    subst g1
    exact ⟨t₂, g2, ht.length_eq, fun c => ht.mem_iff⟩

/-- **Count by count** (`TransferableVoteDistributor.nth_count`, op `stv_nth`): the reported totals (with the
    exhausted pile) and the seats after `k` counts agree up to insertion order. -/
theorem stv_nthCount_perm (cfg : Cfg) {i₁ i₂ : Input} (hi : InpRel i₁ i₂) (k : Nat) (ds : List Draw) :
    ExceptEquiv (fun r₁ r₂ => r₁.1.Perm r₂.1 ∧ r₁.2.Perm r₂.2)
      (nthCount gregory cfg i₁ k ds) (nthCount gregory cfg i₂ k ds) := by
  unfold nthCount
  obtain ⟨s₁, s₂, h1, h2, hs⟩ := initState_perm hi ds
  rw [h1, h2]
  simp only [bind, Except.bind]
  rcases exceptEquiv_elim (runCounts_perm cfg hi k hs) with ⟨e, g1, g2⟩ | ⟨t₁, t₂, g1, g2, ht⟩
  · rw [g1, g2]; exact rfl
  · rw [g1, g2]
    exact ⟨allocTotals_perm ht.shown, DRel.perm ht.seats⟩

/-- `TransferableVoteSelector.nth_count` (op `stv_nth`, `form = "selector"`) -/
theorem stv_selectorNthCount_perm (cfg : Cfg) {p₁ p₂ : Profile} (hp : p₁.Perm p₂) (hn : (p₁.map (·.1)).Nodup)
    (n k : Nat) (ds : List Draw) :
    ExceptEquiv (fun r₁ r₂ => r₁.1.Perm r₂.1 ∧ r₁.2.Perm r₂.2)
      (selectorNthCount gregory cfg p₁ n k ds) (selectorNthCount gregory cfg p₂ n k ds) := by
  unfold selectorNthCount
  rcases exceptEquiv_elim (stv_nthCount_perm cfg (stv_selector_inpRel hp hn n) k ds) with
    ⟨e, g1, g2⟩ | ⟨t₁, t₂, g1, g2, ht⟩
  · rw [g1, g2]; exact rfl
  · rw [g1, g2]
    refine ⟨ht.1, ?_⟩
    show List.Perm (distributionToSelection t₁.2) (distributionToSelection t₂.2)
    exact ((distributionToSelection_perm t₁.2).trans (ht.2.map _)).trans (distributionToSelection_perm t₂.2).symm

/-! ### non-vacuity and the limits of the statement -/

/-- Droop quota, equal quota accepted, no mandatory quota, one elimination per count (the library defaults) -/
def stvDemoCfg : Cfg := { quota := some Gen.Quota.droop, acceptEqual := true, mandatory := false, step := some (-1) }

def stvDemo₁ : Profile := [([.one 0], 2), ([.one 1], 2), ([.one 2, .one 0], 1)]
def stvDemo₂ : Profile := [([.one 1], 2), ([.one 0], 2), ([.one 2, .one 0], 1)]

/-- the hypotheses of `stv_perm` on a concrete profile -/
example : stvDemo₁.Perm stvDemo₂ ∧ (stvDemo₁.map (·.1)).Nodup := by decide +kernel

/-- both runs succeed, so the conclusion of `stv_perm` is the `Perm` clause here -/
example : selectorEvaluate gregory stvDemoCfg stvDemo₁ 2 [] = .ok [0, 1] ∧
    selectorEvaluate gregory stvDemoCfg stvDemo₂ 2 [] = .ok [1, 0] := by decide +kernel

/-- **The elected LIST does depend on the ballot order**: two candidates reach the quota in the same count with
    equal totals and are listed in the order of first appearance on the ballots. -/
theorem stv_selector_order_witness :
    ¬ ∀ (cfg : Cfg) (p₁ p₂ : Profile) (n : Nat), p₁.Perm p₂ → (p₁.map (·.1)).Nodup →
      selectorEvaluate gregory cfg p₁ n [] = selectorEvaluate gregory cfg p₂ n [] := by
  intro h
  have := h stvDemoCfg stvDemo₁ stvDemo₂ 2 (by decide +kernel) (by decide +kernel)
  revert this
  decide +kernel

end VL.Perm
