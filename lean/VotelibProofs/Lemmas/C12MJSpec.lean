/-
  C12, majority judgment: the batch removal of `_closest_median_change` median grades is the one-grade-at-a-time rule.
-/
import VotelibProofs.Lemmas.C12MJ
import VotelibProofs.Lemmas.C12Trunc
import Mathlib.Tactic.Linarith
import Mathlib.Tactic.Push
namespace VL.Score
open VL VL.Appr

set_option linter.unusedSimpArgs false

/-- the lower median by counting (same statement as `VL.C12.mj_median_is_lower_median`) -/
theorem medianLow_iff (cs : CScores) (v : Rat) :
    aggregateOne .medianLow cs = .ok v ↔
      (∃ p ∈ cs, p.1 = v ∧ 0 < p.2) ∧ wLt cs v < (wTotal cs + 1) / 2 ∧ (wTotal cs + 1) / 2 ≤ wLe cs v := by
  unfold aggregateOne
  simp only [aggFn]
  by_cases hW : wTotal cs = 0
  · have hnil : expand cs = [] := List.eq_nil_of_length_eq_zero (by rw [expand_length]; exact hW)
    rw [hnil, medianLow_nil]
    constructor
    · intro h; cases h
    · rintro ⟨⟨p, hp, _, hpos⟩, _⟩
      exfalso
      have hm : p.1 ∈ expand cs := mem_expand.mpr ⟨p, hp, rfl, hpos⟩
      rw [hnil] at hm; cases hm
  · obtain ⟨v0, h1, _, h3, h4, h5⟩ := medianLow_expand cs hW
    rw [h1]
    constructor
    · intro h; injection h with h; subst h; exact ⟨h3, h4, h5⟩
    · rintro ⟨hm, hlt, hle⟩
      have k1 : IsKthSmallest (expand cs) ((wTotal cs + 1) / 2) v0 :=
        ⟨mem_expand.mpr h3, by rw [expand_cntLt]; exact h4, by rw [expand_cntLe]; exact h5⟩
      have k2 : IsKthSmallest (expand cs) ((wTotal cs + 1) / 2) v :=
        ⟨mem_expand.mpr hm, by rw [expand_cntLt]; exact hlt, by rw [expand_cntLe]; exact hle⟩
      rw [kthSmallest_unique k1 k2]

/-! ### counts of a grade dict with non-negative counts -/

theorem totalCount_eq_wTotal {cs : CScores} (hpos : ∀ p ∈ cs, 0 ≤ p.2) : totalCount cs = (wTotal cs : Int) := by
  unfold totalCount wTotal
  induction cs with
  | nil => simp
  | cons p rest ih =>
    have h0 := hpos p List.mem_cons_self
    have := ih (fun q hq => hpos q (List.mem_cons_of_mem _ hq))
    simp only [List.map_cons, List.sum_cons, this]
    push_cast
    omega

theorem countGe_add_wLt {cs : CScores} (hpos : ∀ p ∈ cs, 0 ≤ p.2) (m : Rat) :
    countGe cs m + (wLt cs m : Int) = totalCount cs := by
  unfold countGe wLt totalCount
  induction cs with
  | nil => simp
  | cons p rest ih =>
    have h0 := hpos p List.mem_cons_self
    have ih' := ih (fun q hq => hpos q (List.mem_cons_of_mem _ hq))
    rcases lt_trichotomy p.1 m with h | h | h
    · have h1 : ¬ p.1 > m := not_lt.mpr (le_of_lt h)
      have h2 : ¬ p.1 = m := ne_of_lt h
      simp only [List.filter_cons, h1, h2, h, decide_false, decide_true, Bool.or_false, Bool.false_eq_true, if_false,
        if_true, List.map_cons, List.sum_cons] at ih' ⊢
      push_cast; omega
    · have h1 : ¬ p.1 > m := by rw [h]; exact lt_irrefl _
      have h3 : ¬ p.1 < m := by rw [h]; exact lt_irrefl _
      simp only [List.filter_cons, h1, h, h3, decide_false, decide_true, Bool.or_true, Bool.false_eq_true, if_false,
        if_true, List.map_cons, List.sum_cons, lt_irrefl] at ih' ⊢
      omega
    · have h3 : ¬ p.1 < m := not_lt.mpr (le_of_lt h)
      have h1 : p.1 > m := h
      simp only [List.filter_cons, h1, h3, decide_false, decide_true, Bool.true_or, Bool.false_eq_true, if_false,
        if_true, List.map_cons, List.sum_cons] at ih' ⊢
      omega

theorem countGt_add_wLe {cs : CScores} (hpos : ∀ p ∈ cs, 0 ≤ p.2) (m : Rat) :
    countGt cs m + (wLe cs m : Int) = totalCount cs := by
  unfold countGt wLe totalCount
  induction cs with
  | nil => simp
  | cons p rest ih =>
    have h0 := hpos p List.mem_cons_self
    have ih' := ih (fun q hq => hpos q (List.mem_cons_of_mem _ hq))
    by_cases h : p.1 ≤ m
    · have h1 : ¬ p.1 > m := not_lt.mpr h
      simp only [List.filter_cons, h1, h, decide_false, decide_true, Bool.false_eq_true, if_false,
        if_true, List.map_cons, List.sum_cons] at ih' ⊢
      push_cast; omega
    · have h1 : p.1 > m := not_le.mp h
      simp only [List.filter_cons, h1, h, decide_false, decide_true, Bool.false_eq_true, if_false,
        if_true, List.map_cons, List.sum_cons] at ih' ⊢
      omega

/-! ### changing the count of one grade -/

theorem setCount_split {pre post : CScores} {m : Rat} (c n : Int) (hpre : m ∉ ckeys pre) :
    setCount (pre ++ (m, c) :: post) m n = pre ++ (m, n) :: post := by
  induction pre with
  | nil => simp [setCount]
  | cons q rest ih =>
    obtain ⟨k, v⟩ := q
    have hk : ¬ k = m := fun h => hpre (by simp [ckeys, h])
    have hrest : m ∉ ckeys rest := fun h => hpre (by simp only [ckeys, List.map_cons, List.mem_cons]; exact Or.inr h)
    simp only [List.cons_append, setCount, hk, if_false]
    rw [ih hrest]

theorem split_of_mem {cs : CScores} (hnd : (ckeys cs).Nodup) {m : Rat} {c : Int} (h : (m, c) ∈ cs) :
    ∃ pre post, cs = pre ++ (m, c) :: post ∧ m ∉ ckeys pre ∧ m ∉ ckeys post := by
  obtain ⟨pre, post, rfl⟩ := List.append_of_mem h
  refine ⟨pre, post, rfl, ?_, ?_⟩
  · intro hm
    unfold ckeys at hnd hm
    rw [List.map_append, List.nodup_append] at hnd
    exact hnd.2.2 m hm m (by simp) rfl
  · intro hm
    unfold ckeys at hnd hm
    rw [List.map_append, List.map_cons, List.nodup_append] at hnd
    exact (List.nodup_cons.mp hnd.2.1).1 hm

theorem wLe_eq_wLt_of_not_mem {cs : CScores} {m : Rat} (h : m ∉ ckeys cs) : wLe cs m = wLt cs m := by
  unfold wLe wLt
  congr 2
  apply List.filter_congr
  intro p hp
  have hne : p.1 ≠ m := fun he => h (List.mem_map.mpr ⟨p, hp, he⟩)
  by_cases hlt : p.1 < m
  · simp [hlt, le_of_lt hlt]
  · have : ¬ p.1 ≤ m := fun hle => hlt (lt_of_le_of_ne hle hne)
    simp [hlt, this]

theorem w_append (a b : CScores) (v : Rat) :
    wLt (a ++ b) v = wLt a v + wLt b v ∧ wLe (a ++ b) v = wLe a v + wLe b v ∧ wTotal (a ++ b) = wTotal a + wTotal b := by
  simp [wLt, wLe, wTotal, List.filter_append]

theorem w_single (m : Rat) (c : Int) :
    wLt [(m, c)] m = 0 ∧ wLe [(m, c)] m = c.toNat ∧ wTotal [(m, c)] = c.toNat := by
  simp [wLt, wLe, wTotal, List.filter_cons]

/-- **Stability of the median.**  A grade dict with distinct grades and non-negative counts has lower median `m`;
    `j ≥ 0` is smaller than both distances `⌈|#{≥ m} − N/2|⌉` and `⌈|#{> m} − N/2|⌉` of `_closest_median_change`.  Then
    the dict holds more than `j` grades `m`, and after removing `j` of them the lower median is still `m`. -/
theorem median_stable {cs : CScores} (hnd : (ckeys cs).Nodup) (hpos : ∀ p ∈ cs, 0 ≤ p.2) {m : Rat}
    (hm : aggregateOne .medianLow cs = .ok m) (j : Int) (hj0 : 0 ≤ j)
    (hja : j < ceilAbs (((countGe cs m : Int) : Rat) - ((totalCount cs : Int) : Rat) / 2))
    (hjb : j < ceilAbs (((countGt cs m : Int) : Rat) - ((totalCount cs : Int) : Rat) / 2)) :
    j < getCount cs m ∧ aggregateOne .medianLow (setCount cs m (getCount cs m - j)) = .ok m := by
  obtain ⟨⟨p, hp, hpm, hppos⟩, hL, hE⟩ := (medianLow_iff cs m).mp hm
  obtain ⟨k, c⟩ := p
  simp only at hpm hppos
  subst hpm
  obtain ⟨pre, post, hcs, hpre, hpost⟩ := split_of_mem hnd hp
  -- the three weights
  have hgc : getCount cs k = c := by
    rw [hcs]
    unfold getCount
    rw [List.find?_append]
    have : pre.find? (fun q => decide (q.1 = k)) = none := by
      rw [List.find?_eq_none]
      intro q hq
      simp only [decide_eq_true_eq]
      intro hqk
      exact hpre (List.mem_map.mpr ⟨q, hq, hqk⟩)
    rw [this]; simp
  have hWL : wLt cs k = wLt pre k + wLt post k := by
    rw [hcs, (w_append pre _ k).1, show (k, c) :: post = [(k, c)] ++ post from rfl, (w_append _ post k).1,
      (w_single k c).1]; omega
  have hWE : wLe cs k = wLt pre k + c.toNat + wLt post k := by
    rw [hcs, (w_append pre _ k).2.1, show (k, c) :: post = [(k, c)] ++ post from rfl, (w_append _ post k).2.1,
      (w_single k c).2.1, wLe_eq_wLt_of_not_mem hpre, wLe_eq_wLt_of_not_mem hpost]; omega
  have hWT : wTotal cs = wTotal pre + c.toNat + wTotal post := by
    rw [hcs, (w_append pre _ k).2.2, show (k, c) :: post = [(k, c)] ++ post from rfl, (w_append _ post k).2.2,
      (w_single k c).2.2]; omega
  -- the hypotheses as integer inequalities
  have hT := totalCount_eq_wTotal hpos
  have hGe := countGe_add_wLt hpos k
  have hGt := countGt_add_wLe hpos k
  have h2L : 2 * wLt cs k ≤ wTotal cs := by omega
  have h2E : wTotal cs ≤ 2 * wLe cs k := by omega
  have ha : 2 * j < (wTotal cs : Int) - 2 * (wLt cs k : Int) := by
    unfold ceilAbs Py.pyCeil at hja
    rw [Rat.lt_ceil_iff] at hja
    have hx : ((countGe cs k : Int) : Rat) - ((totalCount cs : Int) : Rat) / 2 =
        (((wTotal cs : Int) - 2 * (wLt cs k : Int) : Int) : Rat) / 2 := by
      have : (countGe cs k : Int) = (wTotal cs : Int) - (wLt cs k : Int) := by omega
      rw [this, hT]; push_cast; ring
    rw [hx] at hja
    have hnn : ¬ ((((wTotal cs : Int) - 2 * (wLt cs k : Int) : Int) : Rat) / 2 < 0) := by
      have : (0 : Rat) ≤ (((wTotal cs : Int) - 2 * (wLt cs k : Int) : Int) : Rat) := by exact_mod_cast (by omega)
      intro h; linarith
    rw [if_neg hnn] at hja
    have : ((2 * j : Int) : Rat) < (((wTotal cs : Int) - 2 * (wLt cs k : Int) : Int) : Rat) := by
      push_cast; push_cast at hja; linarith
    exact_mod_cast this
  have hb : 2 * j < 2 * (wLe cs k : Int) - (wTotal cs : Int) := by
    unfold ceilAbs Py.pyCeil at hjb
    rw [Rat.lt_ceil_iff] at hjb
    have hx : ((countGt cs k : Int) : Rat) - ((totalCount cs : Int) : Rat) / 2 =
        -((((2 * (wLe cs k : Int) - (wTotal cs : Int) : Int)) : Rat) / 2) := by
      have : (countGt cs k : Int) = (wTotal cs : Int) - (wLe cs k : Int) := by omega
      rw [this, hT]; push_cast; ring
    rw [hx] at hjb
    have hge : (0 : Rat) ≤ (((2 * (wLe cs k : Int) - (wTotal cs : Int) : Int)) : Rat) := by exact_mod_cast (by omega)
    by_cases hneg : -((((2 * (wLe cs k : Int) - (wTotal cs : Int) : Int)) : Rat) / 2) < 0
    · rw [if_pos hneg, neg_neg] at hjb
      have : ((2 * j : Int) : Rat) < (((2 * (wLe cs k : Int) - (wTotal cs : Int) : Int)) : Rat) := by
        push_cast; push_cast at hjb; linarith
      exact_mod_cast this
    · rw [if_neg hneg] at hjb
      have : ((j : Int) : Rat) < 0 := by linarith
      have : j < 0 := by exact_mod_cast this
      omega
  have hc0 : 0 ≤ c := le_of_lt hppos
  have hjc : j < c := by omega
  refine ⟨by rw [hgc]; exact hjc, ?_⟩
  -- the dict after the removal
  rw [hgc, hcs, setCount_split c (c - j) hpre]
  apply (medianLow_iff _ k).mpr
  have hWL' : wLt (pre ++ (k, c - j) :: post) k = wLt pre k + wLt post k := by
    rw [(w_append pre _ k).1, show (k, c - j) :: post = [(k, c - j)] ++ post from rfl, (w_append _ post k).1,
      (w_single k (c - j)).1]; omega
  have hWE' : wLe (pre ++ (k, c - j) :: post) k = wLt pre k + (c - j).toNat + wLt post k := by
    rw [(w_append pre _ k).2.1, show (k, c - j) :: post = [(k, c - j)] ++ post from rfl, (w_append _ post k).2.1,
      (w_single k (c - j)).2.1, wLe_eq_wLt_of_not_mem hpre, wLe_eq_wLt_of_not_mem hpost]; omega
  have hWT' : wTotal (pre ++ (k, c - j) :: post) = wTotal pre + (c - j).toNat + wTotal post := by
    rw [(w_append pre _ k).2.2, show (k, c - j) :: post = [(k, c - j)] ++ post from rfl, (w_append _ post k).2.2,
      (w_single k (c - j)).2.2]; omega
  refine ⟨⟨(k, c - j), by simp, rfl, by simp only; omega⟩, ?_, ?_⟩
  · rw [hWL', hWT']; omega
  · rw [hWE', hWT']; omega

end VL.Score

namespace VL.Score
open VL VL.Appr

set_option linter.unusedSimpArgs false

/-- remove `j` median grades from every candidate (the body of the loop L193-194) -/
def stepBy (scores : ScoreTable) (medians : Votes) (j : Int) : ScoreTable :=
  scores.map (fun p =>
    let m := getD medians p.1 0
    (p.1, setCount p.2 m (getCount p.2 m - j)))

/-- the `max(sum(...))` of the loop condition -/
def maxTotal (scores : ScoreTable) (p0 : Cand × CScores) : Int :=
  (scores.map (fun p => totalCount p.2)).foldl (fun m x => if m < x then x else m) (totalCount p0.2)

/-- the per-candidate distance of `_closest_median_change` -/
def candClosest (medians : Votes) (p : Cand × CScores) : Int :=
  let half : Rat := ((totalCount p.2 : Int) : Rat) / 2
  let cur := getD medians p.1 0
  let lower : Rat := ((countGe p.2 cur : Int) : Rat)
  let upper : Rat := ((countGt p.2 cur : Int) : Rat)
  let a := ceilAbs (lower - half)
  let b := ceilAbs (upper - half)
  if b < a then b else a

theorem closestChange_eq (scores : ScoreTable) (medians : Votes) :
    closestChange scores medians = scores.foldl (fun acc p =>
      match acc with
      | none => some (candClosest medians p)
      | some c => if candClosest medians p < c then some (candClosest medians p) else some c) none := rfl

theorem foldMin_le (f : (Cand × CScores) → Int) : ∀ (l : List (Cand × CScores)) (acc : Option Int) (c : Int),
    l.foldl (fun acc p => match acc with
      | none => some (f p)
      | some c => if f p < c then some (f p) else some c) acc = some c →
    (∀ p ∈ l, c ≤ f p) ∧ (∀ a, acc = some a → c ≤ a) := by
  intro l
  induction l with
  | nil => intro acc c h; simp at h; exact ⟨by simp, fun a ha => by rw [h] at ha; injection ha with ha; omega⟩
  | cons x xs ih =>
    intro acc c h
    simp only [List.foldl_cons] at h
    cases acc with
    | none =>
      obtain ⟨i1, i2⟩ := ih _ _ h
      refine ⟨?_, by simp⟩
      intro p hp
      rcases List.mem_cons.mp hp with rfl | hp
      · exact i2 _ rfl
      · exact i1 p hp
    | some a =>
      simp only at h
      by_cases hlt : f x < a
      · rw [if_pos hlt] at h
        obtain ⟨i1, i2⟩ := ih _ _ h
        refine ⟨?_, ?_⟩
        · intro p hp
          rcases List.mem_cons.mp hp with rfl | hp
          · exact i2 _ rfl
          · exact i1 p hp
        · intro a' ha'; injection ha' with ha'; subst ha'
          have := i2 _ rfl; omega
      · rw [if_neg hlt] at h
        obtain ⟨i1, i2⟩ := ih _ _ h
        refine ⟨?_, ?_⟩
        · intro p hp
          rcases List.mem_cons.mp hp with rfl | hp
          · have := i2 _ rfl; omega
          · exact i1 p hp
        · intro a' ha'; injection ha' with ha'; subst ha'
          exact i2 _ rfl

theorem closestChange_le {scores : ScoreTable} {medians : Votes} {c : Int}
    (h : closestChange scores medians = some c) : ∀ p ∈ scores, c ≤ candClosest medians p := by
  rw [closestChange_eq] at h
  exact (foldMin_le (candClosest medians) scores none c h).1

/-- a table of grade dicts: distinct candidates, distinct grades, non-negative counts -/
def TableWF (scores : ScoreTable) : Prop :=
  (scores.map (·.1)).Nodup ∧ ∀ p ∈ scores, (ckeys p.2).Nodup ∧ ∀ q ∈ p.2, 0 ≤ q.2

theorem setCount_setCount (d : CScores) (s : Rat) (a b : Int) : setCount (setCount d s a) s b = setCount d s b := by
  induction d with
  | nil => simp [setCount]
  | cons p rest ih =>
    obtain ⟨k, v⟩ := p
    by_cases hk : k = s
    · simp [setCount, hk]
    · simp [setCount, hk, ih]

theorem setCount_entries (d : CScores) (s : Rat) (n : Int) : ∀ q ∈ setCount d s n, q ∈ d ∨ q = (s, n) := by
  induction d with
  | nil => intro q hq; simp [setCount] at hq; exact Or.inr hq
  | cons p rest ih =>
    obtain ⟨k, v⟩ := p
    intro q hq
    unfold setCount at hq
    by_cases hk : k = s
    · rw [if_pos hk] at hq
      rcases List.mem_cons.mp hq with rfl | hq
      · exact Or.inr (by rw [hk])
      · exact Or.inl (List.mem_cons_of_mem _ hq)
    · rw [if_neg hk] at hq
      rcases List.mem_cons.mp hq with rfl | hq
      · exact Or.inl List.mem_cons_self
      · rcases ih q hq with h | h
        · exact Or.inl (List.mem_cons_of_mem _ h)
        · exact Or.inr h

theorem stepBy_fst (scores : ScoreTable) (medians : Votes) (j : Int) :
    (stepBy scores medians j).map (·.1) = scores.map (·.1) := by
  unfold stepBy
  rw [List.map_map]
  rfl

theorem stepBy_stepBy (scores : ScoreTable) (medians : Votes) (j : Int) :
    stepBy (stepBy scores medians j) medians 1 = stepBy scores medians (j + 1) := by
  unfold stepBy
  rw [List.map_map]
  apply List.map_congr_left
  intro p _
  simp only [Function.comp]
  rw [setCount_setCount, getCount_setCount, if_pos rfl]
  congr 2
  omega

theorem aggregate_lookup {fn : Agg} : ∀ {t : ScoreTable} {agg : Votes}, aggregate fn t = .ok agg → (t.map (·.1)).Nodup →
    ∀ p ∈ t, aggregateOne fn p.2 = .ok (getD agg p.1 0) := by
  intro t
  induction t with
  | nil => intro agg _ _ p hp; cases hp
  | cons x xs ih =>
    intro agg h hnd p hp
    unfold aggregate at h
    rw [List.mapM_cons] at h
    cases hv : aggregateOne fn x.2 with
    | error e => rw [hv] at h; cases h
    | ok v =>
      rw [hv] at h
      cases hr : xs.mapM (fun p => do let v ← aggregateOne fn p.2; pure (p.1, v)) with
      | error e => rw [hr] at h; cases h
      | ok r =>
        rw [hr] at h
        injection h with h
        subst h
        have hx := List.nodup_cons.mp hnd
        rcases List.mem_cons.mp hp with rfl | hp
        · rw [hv]; simp [getD, lookup]
        · have hne : ¬ x.1 = p.1 := fun he => hx.1 (List.mem_map.mpr ⟨p, hp, he.symm⟩)
          have : getD ((x.1, v) :: r) p.1 0 = getD r p.1 0 := by simp [getD, lookup, hne]
          rw [this]
          exact ih hr hx.2 p hp

theorem aggregate_of_forall {fn : Agg} {t : ScoreTable} {g : Cand → Rat}
    (h : ∀ p ∈ t, aggregateOne fn p.2 = .ok (g p.1)) : aggregate fn t = .ok (t.map (fun p => (p.1, g p.1))) := by
  unfold aggregate
  apply mapM_ok
  intro p hp
  rw [h p hp]; rfl

theorem aggregate_eq_map {fn : Agg} {t : ScoreTable} {agg : Votes} (h : aggregate fn t = .ok agg)
    (hnd : (t.map (·.1)).Nodup) : agg = t.map (fun p => (p.1, getD agg p.1 0)) := by
  have := aggregate_of_forall (g := fun c => getD agg c 0) (aggregate_lookup h hnd)
  rw [h] at this
  injection this

theorem median_total_pos {cs : CScores} {m : Rat} (hpos : ∀ p ∈ cs, 0 ≤ p.2)
    (hm : aggregateOne .medianLow cs = .ok m) : 0 < totalCount cs := by
  obtain ⟨_, h1, h2⟩ := (medianLow_iff cs m).mp hm
  rw [totalCount_eq_wTotal hpos]
  omega

theorem foldMax_ge (l : List Int) : ∀ (a : Int), a ≤ l.foldl (fun m x => if m < x then x else m) a := by
  induction l with
  | nil => intro a; simp
  | cons x xs ih =>
    intro a
    simp only [List.foldl_cons]
    by_cases h : a < x
    · rw [if_pos h]; exact le_trans (le_of_lt h) (ih x)
    · rw [if_neg h]; exact ih a

end VL.Score

namespace VL.Score
open VL VL.Appr

set_option linter.unusedSimpArgs false

/-! ### one unfolding of either loop -/

theorem oneByOne_step (fuel : Nat) (p0 : Cand × CScores) (ps : ScoreTable) (n : Nat) (medians : Votes)
    (hmx : maxTotal (p0 :: ps) p0 ≠ 0) (hm : aggregate .medianLow (p0 :: ps) = .ok medians)
    (ht : firstTie (getNBest medians n) = some 0) :
    tiebreakOneByOne (fuel + 1) (p0 :: ps) n = tiebreakOneByOne fuel (stepBy (p0 :: ps) medians 1) n := by
  conv_lhs => unfold tiebreakOneByOne
  simp only
  have hmx' : ¬ ((List.map (fun p => totalCount p.2) (p0 :: ps)).foldl (fun m x => if m < x then x else m) (totalCount p0.2) = 0) := hmx
  rw [if_neg hmx', hm]
  simp only [bind, Except.bind, ht]
  rfl

/-- the batch size the code uses -/
def batchSize (scores : ScoreTable) (medians : Votes) : Int :=
  match closestChange scores medians with
  | some 0 => 1
  | some c => c
  | none => 0

theorem default_step (fuel : Nat) (p0 : Cand × CScores) (ps : ScoreTable) (n : Nat) (medians : Votes)
    (hmx : maxTotal (p0 :: ps) p0 ≠ 0) (hm : aggregate .medianLow (p0 :: ps) = .ok medians)
    (ht : firstTie (getNBest medians n) = some 0) :
    tiebreakDefault (fuel + 1) (p0 :: ps) n =
      tiebreakDefault fuel (stepBy (p0 :: ps) medians (batchSize (p0 :: ps) medians)) n := by
  conv_lhs => unfold tiebreakDefault
  simp only
  have hmx' : ¬ ((List.map (fun p => totalCount p.2) (p0 :: ps)).foldl (fun m x => if m < x then x else m) (totalCount p0.2) = 0) := hmx
  rw [if_neg hmx', hm]
  simp only [bind, Except.bind, ht]
  rfl

theorem both_mx0 (fuel : Nat) (p0 : Cand × CScores) (ps : ScoreTable) (n : Nat) (hmx : maxTotal (p0 :: ps) p0 = 0) :
    tiebreakDefault (fuel + 1) (p0 :: ps) n = .error .votingSystemError ∧
    tiebreakOneByOne (fuel + 1) (p0 :: ps) n = .error .votingSystemError := by
  have hmx' : ((List.map (fun p => totalCount p.2) (p0 :: ps)).foldl (fun m x => if m < x then x else m) (totalCount p0.2) = 0) := hmx
  constructor
  · conv_lhs => unfold tiebreakDefault
    simp only
    rw [if_pos hmx']
  · conv_lhs => unfold tiebreakOneByOne
    simp only
    rw [if_pos hmx']

theorem both_aggerr (fuel : Nat) (p0 : Cand × CScores) (ps : ScoreTable) (n : Nat) (e : Err)
    (hmx : maxTotal (p0 :: ps) p0 ≠ 0) (hm : aggregate .medianLow (p0 :: ps) = .error e) :
    tiebreakDefault (fuel + 1) (p0 :: ps) n = .error e ∧ tiebreakOneByOne (fuel + 1) (p0 :: ps) n = .error e := by
  have hmx' : ¬ ((List.map (fun p => totalCount p.2) (p0 :: ps)).foldl (fun m x => if m < x then x else m) (totalCount p0.2) = 0) := hmx
  constructor
  · conv_lhs => unfold tiebreakDefault
    simp only
    rw [if_neg hmx', hm]; rfl
  · conv_lhs => unfold tiebreakOneByOne
    simp only
    rw [if_neg hmx', hm]; rfl

theorem both_none (fuel : Nat) (p0 : Cand × CScores) (ps : ScoreTable) (n : Nat) (medians : Votes)
    (hmx : maxTotal (p0 :: ps) p0 ≠ 0) (hm : aggregate .medianLow (p0 :: ps) = .ok medians)
    (ht : firstTie (getNBest medians n) = none) :
    tiebreakDefault (fuel + 1) (p0 :: ps) n = .ok (getNBest medians n) ∧
    tiebreakOneByOne (fuel + 1) (p0 :: ps) n = .ok (getNBest medians n) := by
  have hmx' : ¬ ((List.map (fun p => totalCount p.2) (p0 :: ps)).foldl (fun m x => if m < x then x else m) (totalCount p0.2) = 0) := hmx
  constructor
  · conv_lhs => unfold tiebreakDefault
    simp only
    rw [if_neg hmx', hm]
    simp only [bind, Except.bind, ht]; rfl
  · conv_lhs => unfold tiebreakOneByOne
    simp only
    rw [if_neg hmx', hm]
    simp only [bind, Except.bind, ht]; rfl

/-- the candidates left after the clear winners `best[:i+1]` -/
def restAfter (scores : ScoreTable) (medians : Votes) (n i : Nat) : ScoreTable :=
  scores.filter (fun p => !((slotCands ((getNBest medians n).take (i + 1))).contains p.1))

theorem both_succ (fuel : Nat) (p0 : Cand × CScores) (ps : ScoreTable) (n i : Nat) (medians : Votes)
    (hmx : maxTotal (p0 :: ps) p0 ≠ 0) (hm : aggregate .medianLow (p0 :: ps) = .ok medians)
    (ht : firstTie (getNBest medians n) = some (i + 1)) :
    tiebreakDefault (fuel + 1) (p0 :: ps) n =
      (tiebreakDefault fuel (restAfter (p0 :: ps) medians n i) (n - (i + 1))).map
        (fun rest => (getNBest medians n).take (i + 1) ++ rest) ∧
    tiebreakOneByOne (fuel + 1) (p0 :: ps) n =
      (tiebreakOneByOne fuel (restAfter (p0 :: ps) medians n i) (n - (i + 1))).map
        (fun rest => (getNBest medians n).take (i + 1) ++ rest) := by
  have hmx' : ¬ ((List.map (fun p => totalCount p.2) (p0 :: ps)).foldl (fun m x => if m < x then x else m) (totalCount p0.2) = 0) := hmx
  constructor
  · conv_lhs => unfold tiebreakDefault
    simp only
    rw [if_neg hmx', hm]
    simp only [bind, Except.bind, ht]
    unfold restAfter
    cases tiebreakDefault fuel _ (n - (i + 1)) <;> rfl
  · conv_lhs => unfold tiebreakOneByOne
    simp only
    rw [if_neg hmx', hm]
    simp only [bind, Except.bind, ht]
    unfold restAfter
    cases tiebreakOneByOne fuel _ (n - (i + 1)) <;> rfl

end VL.Score

namespace VL.Score
open VL VL.Appr

set_option linter.unusedSimpArgs false

theorem getCount_of_mem {cs : CScores} (hnd : (ckeys cs).Nodup) {m : Rat} {c : Int} (h : (m, c) ∈ cs) :
    getCount cs m = c := by
  obtain ⟨pre, post, hcs, hpre, _⟩ := split_of_mem hnd h
  rw [hcs]
  unfold getCount
  rw [List.find?_append]
  have : pre.find? (fun q => decide (q.1 = m)) = none := by
    rw [List.find?_eq_none]
    intro q hq
    simp only [decide_eq_true_eq]
    intro hqk
    exact hpre (List.mem_map.mpr ⟨q, hq, hqk⟩)
  rw [this]; simp

theorem median_count_pos {cs : CScores} (hnd : (ckeys cs).Nodup) {m : Rat}
    (hm : aggregateOne .medianLow cs = .ok m) : 0 < getCount cs m := by
  obtain ⟨⟨p, hp, hpm, hppos⟩, _⟩ := (medianLow_iff cs m).mp hm
  obtain ⟨k, c⟩ := p
  simp only at hpm hppos
  subst hpm
  rw [getCount_of_mem hnd hp]; exact hppos

theorem ceilAbs_nonneg (x : Rat) : 0 ≤ ceilAbs x := by
  unfold ceilAbs Py.pyCeil
  have h : (0 : Rat) ≤ (if x < 0 then -x else x) := by
    split
    · linarith
    · linarith
  have := Rat.le_ceil (x := (if x < 0 then -x else x))
  have h2 : ((0 : Int) : Rat) ≤ (((if x < 0 then -x else x).ceil : Int) : Rat) := by
    simp only [Int.cast_zero]; linarith
  exact_mod_cast h2

theorem candClosest_nonneg (medians : Votes) (p : Cand × CScores) : 0 ≤ candClosest medians p := by
  unfold candClosest
  simp only
  split <;> exact ceilAbs_nonneg _

theorem foldMin_mem (f : (Cand × CScores) → Int) : ∀ (l : List (Cand × CScores)) (acc : Option Int) (c : Int),
    l.foldl (fun acc p => match acc with
      | none => some (f p)
      | some c => if f p < c then some (f p) else some c) acc = some c →
    (∃ p ∈ l, c = f p) ∨ acc = some c := by
  intro l
  induction l with
  | nil => intro acc c h; simp at h; exact Or.inr h
  | cons x xs ih =>
    intro acc c h
    simp only [List.foldl_cons] at h
    rcases ih _ _ h with ⟨p, hp, he⟩ | hacc
    · exact Or.inl ⟨p, List.mem_cons_of_mem _ hp, he⟩
    · cases acc with
      | none => simp only at hacc; injection hacc with hacc; exact Or.inl ⟨x, List.mem_cons_self, hacc.symm⟩
      | some a =>
        simp only at hacc
        by_cases hlt : f x < a
        · rw [if_pos hlt] at hacc; injection hacc with hacc; exact Or.inl ⟨x, List.mem_cons_self, hacc.symm⟩
        · rw [if_neg hlt] at hacc; exact Or.inr hacc

theorem foldMin_some (f : (Cand × CScores) → Int) : ∀ (l : List (Cand × CScores)) (a : Int),
    ∃ c, l.foldl (fun acc p => match acc with
      | none => some (f p)
      | some c => if f p < c then some (f p) else some c) (some a) = some c := by
  intro l
  induction l with
  | nil => intro a; exact ⟨a, rfl⟩
  | cons x xs ih =>
    intro a
    simp only [List.foldl_cons]
    split
    · exact ih _
    · exact ih _

/-- facts about the batch size on a non-empty table -/
theorem batchSize_spec (p0 : Cand × CScores) (ps : ScoreTable) (medians : Votes) :
    1 ≤ batchSize (p0 :: ps) medians ∧
    (batchSize (p0 :: ps) medians = 1 ∨ ∀ p ∈ p0 :: ps, batchSize (p0 :: ps) medians ≤ candClosest medians p) := by
  unfold batchSize
  have hsome : ∃ c, closestChange (p0 :: ps) medians = some c := by
    rw [closestChange_eq]
    simp only [List.foldl_cons]
    exact foldMin_some _ _ _
  obtain ⟨c, hc⟩ := hsome
  rw [hc]
  have hle := closestChange_le hc
  have hnn : 0 ≤ c := by
    rw [closestChange_eq] at hc
    rcases foldMin_mem (candClosest medians) _ none c hc with ⟨p, _, he⟩ | h
    · rw [he]; exact candClosest_nonneg _ _
    · cases h
  by_cases h0 : c = 0
  · subst h0; exact ⟨le_refl _, Or.inl rfl⟩
  · have : (match (some c : Option Int) with
        | some 0 => (1 : Int)
        | some c => c
        | none => 0) = c := by
      cases c with
      | ofNat k => cases k with
        | zero => exact absurd rfl h0
        | succ k => rfl
      | negSucc k => rfl
    rw [this]
    exact ⟨by omega, Or.inr hle⟩

/-- every candidate's median of the current table, and its stability under `j` removals -/
def StableAt (scores : ScoreTable) (medians : Votes) (j : Int) : Prop :=
  ∀ p ∈ scores, j < getCount p.2 (getD medians p.1 0) ∧
    aggregateOne .medianLow (setCount p.2 (getD medians p.1 0) (getCount p.2 (getD medians p.1 0) - j))
      = .ok (getD medians p.1 0)

theorem stepBy_wf {scores : ScoreTable} (hwf : TableWF scores) (medians : Votes) {j : Int} (hj : 0 ≤ j)
    (hle : ∀ p ∈ scores, j ≤ getCount p.2 (getD medians p.1 0)) : TableWF (stepBy scores medians j) := by
  refine ⟨by rw [stepBy_fst]; exact hwf.1, ?_⟩
  intro p' hp'
  unfold stepBy at hp'
  obtain ⟨p, hp, rfl⟩ := List.mem_map.mp hp'
  obtain ⟨h1, h2⟩ := hwf.2 p hp
  refine ⟨ckeys_setCount_nodup h1 _ _, ?_⟩
  intro q hq
  rcases setCount_entries _ _ _ q hq with h | h
  · exact h2 q h
  · rw [h]; simp only; have := hle p hp; omega

theorem stepBy_aggregate {scores : ScoreTable} (hwf : TableWF scores) {medians : Votes}
    (hm : aggregate .medianLow scores = .ok medians) {j : Int} (hst : StableAt scores medians j) :
    aggregate .medianLow (stepBy scores medians j) = .ok medians := by
  have h := aggregate_of_forall (fn := .medianLow) (t := stepBy scores medians j) (g := fun c => getD medians c 0) (by
    intro p' hp'
    unfold stepBy at hp'
    obtain ⟨p, hp, rfl⟩ := List.mem_map.mp hp'
    exact (hst p hp).2)
  rw [h]
  congr 1
  have e := aggregate_eq_map hm hwf.1
  conv_rhs => rw [e]
  unfold stepBy
  rw [List.map_map]
  rfl

end VL.Score

namespace VL.Score
open VL VL.Appr

set_option linter.unusedSimpArgs false

/-- while the medians stay put, the one-by-one loop walks from `j` removals to `cc` removals -/
theorem oneByOne_walk {scores : ScoreTable} (hwf : TableWF scores) (hne : scores ≠ []) {medians : Votes}
    (hm : aggregate .medianLow scores = .ok medians) (n : Nat) (ht : firstTie (getNBest medians n) = some 0)
    (cc : Int) (fuel : Nat) :
    ∀ (k : Nat) (j : Int), 1 ≤ j → j + k = cc → (∀ i, j ≤ i → i < cc → StableAt scores medians i) →
      tiebreakOneByOne (fuel + k) (stepBy scores medians j) n = tiebreakOneByOne fuel (stepBy scores medians cc) n := by
  intro k
  induction k with
  | zero =>
    intro j _ hjk _
    have : j = cc := by omega
    subst this; rfl
  | succ k ih =>
    intro j hj1 hjk hst
    have hstj := hst j (le_refl j) (by omega)
    have hwfj : TableWF (stepBy scores medians j) :=
      stepBy_wf hwf medians (by omega) (fun p hp => le_of_lt (hstj p hp).1)
    have hmj := stepBy_aggregate hwf hm hstj
    -- the stepped table is non-empty
    cases hs : stepBy scores medians j with
    | nil =>
      unfold stepBy at hs
      rw [List.map_eq_nil_iff] at hs
      exact absurd hs hne
    | cons q0 qs =>
      rw [hs] at hmj hwfj
      have hq0 : aggregateOne .medianLow q0.2 = .ok (getD medians q0.1 0) :=
        aggregate_lookup hmj hwfj.1 q0 List.mem_cons_self
      have hpos0 := median_total_pos (hwfj.2 q0 List.mem_cons_self).2 hq0
      have hmx : maxTotal (q0 :: qs) q0 ≠ 0 := by
        unfold maxTotal
        have := foldMax_ge (List.map (fun p => totalCount p.2) (q0 :: qs)) (totalCount q0.2)
        omega
      have e : fuel + (k + 1) = (fuel + k) + 1 := by omega
      rw [e, oneByOne_step (fuel + k) q0 qs n medians hmx hmj ht, ← hs, stepBy_stepBy]
      exact ih (j + 1) (by omega) (by omega) (fun i hi1 hi2 => hst i (by omega) hi2)

theorem tableWF_filter {scores : ScoreTable} (hwf : TableWF scores) (P : Cand × CScores → Bool) :
    TableWF (scores.filter P) :=
  ⟨((List.filter_sublist).map _).nodup hwf.1, fun p hp => hwf.2 p (List.mem_filter.mp hp).1⟩

/-- **The default tie-break is the one-grade-at-a-time rule.**  On every table of grade dicts (distinct candidates,
    distinct grades, non-negative counts), whatever `_tiebreak_default` returns — a selection or an error other than
    running out of the model's fuel — the defining procedure (remove ONE median grade from every tied candidate until the
    medians separate a group of winners) returns as well. -/
theorem default_eq_oneByOne : ∀ (fuel : Nat) (scores : ScoreTable) (n : Nat) (x : Except Err (List Slot)),
    TableWF scores → tiebreakDefault fuel scores n = x → x ≠ .error (.other "Fuel") →
      ∃ fuel', tiebreakOneByOne fuel' scores n = x := by
  intro fuel
  induction fuel with
  | zero =>
    intro scores n x _ h hx
    simp only [tiebreakDefault] at h
    exact absurd h.symm hx
  | succ fuel ih =>
    intro scores n x hwf h hx
    cases scores with
    | nil =>
      refine ⟨1, ?_⟩
      rw [← h]
      simp [tiebreakDefault, tiebreakOneByOne]
    | cons p0 ps =>
      by_cases hmx : maxTotal (p0 :: ps) p0 = 0
      · obtain ⟨e1, e2⟩ := both_mx0 fuel p0 ps n hmx
        exact ⟨fuel + 1, by rw [e2, ← h, e1]⟩
      · cases hm : aggregate .medianLow (p0 :: ps) with
        | error e =>
          obtain ⟨e1, e2⟩ := both_aggerr fuel p0 ps n e hmx hm
          exact ⟨fuel + 1, by rw [e2, ← h, e1]⟩
        | ok medians =>
          cases ht : firstTie (getNBest medians n) with
          | none =>
            obtain ⟨e1, e2⟩ := both_none fuel p0 ps n medians hmx hm ht
            exact ⟨fuel + 1, by rw [e2, ← h, e1]⟩
          | some i =>
            cases i with
            | succ i =>
              obtain ⟨e1, _⟩ := both_succ fuel p0 ps n i medians hmx hm ht
              rw [e1] at h
              have hwfr : TableWF (restAfter (p0 :: ps) medians n i) := tableWF_filter hwf _
              cases hrec : tiebreakDefault fuel (restAfter (p0 :: ps) medians n i) (n - (i + 1)) with
              | error e =>
                rw [hrec] at h
                have hxe : x = .error e := h.symm
                have hne : (Except.error e : Except Err (List Slot)) ≠ .error (.other "Fuel") := by rw [← hxe]; exact hx
                obtain ⟨f', hf'⟩ := ih _ _ _ hwfr hrec hne
                refine ⟨f' + 1, ?_⟩
                rw [(both_succ f' p0 ps n i medians hmx hm ht).2, hf', hxe]; rfl
              | ok rest =>
                rw [hrec] at h
                obtain ⟨f', hf'⟩ := ih _ _ _ hwfr hrec (by intro hc; cases hc)
                refine ⟨f' + 1, ?_⟩
                rw [(both_succ f' p0 ps n i medians hmx hm ht).2, hf', ← h]
            | zero =>
              rw [default_step fuel p0 ps n medians hmx hm ht] at h
              obtain ⟨hcc1, hccle⟩ := batchSize_spec p0 ps medians
              set cc := batchSize (p0 :: ps) medians with hcc
              -- medians of the current table
              have hmed : ∀ p ∈ p0 :: ps, aggregateOne .medianLow p.2 = .ok (getD medians p.1 0) :=
                aggregate_lookup hm hwf.1
              -- stability below the batch size
              have hstable : ∀ i, 1 ≤ i → i < cc → StableAt (p0 :: ps) medians i := by
                intro i hi1 hicc p hp
                rcases hccle with h1 | hle
                · omega
                · have hlt : i < candClosest medians p := lt_of_lt_of_le hicc (hle p hp)
                  unfold candClosest at hlt
                  simp only at hlt
                  obtain ⟨w1, w2⟩ := hwf.2 p hp
                  have ha : i < ceilAbs (((countGe p.2 (getD medians p.1 0) : Int) : Rat) - ((totalCount p.2 : Int) : Rat) / 2) := by
                    split at hlt
                    · rename_i hba; omega
                    · exact hlt
                  have hb : i < ceilAbs (((countGt p.2 (getD medians p.1 0) : Int) : Rat) - ((totalCount p.2 : Int) : Rat) / 2) := by
                    split at hlt
                    · exact hlt
                    · rename_i hba; omega
                  exact median_stable w1 w2 (hmed p hp) i (by omega) ha hb
              -- every candidate holds at least `cc` median grades
              have hcount : ∀ p ∈ p0 :: ps, cc ≤ getCount p.2 (getD medians p.1 0) := by
                intro p hp
                by_cases h1 : cc = 1
                · have := median_count_pos (hwf.2 p hp).1 (hmed p hp); omega
                · have := (hstable (cc - 1) (by omega) (by omega) p hp).1; omega
              have hwfcc : TableWF (stepBy (p0 :: ps) medians cc) := stepBy_wf hwf medians (by omega) hcount
              obtain ⟨f', hf'⟩ := ih _ _ _ hwfcc h hx
              -- first step of the one-by-one loop, then the walk
              have hk : ∃ k : Nat, (1 : Int) + k = cc := ⟨(cc - 1).toNat, by omega⟩
              obtain ⟨k, hk⟩ := hk
              refine ⟨(f' + k) + 1, ?_⟩
              rw [oneByOne_step (f' + k) p0 ps n medians hmx hm ht,
                oneByOne_walk hwf (by simp) hm n ht cc f' k 1 (le_refl 1) hk
                  (fun i hi1 hi2 => hstable i hi1 hi2)]
              exact hf'

end VL.Score

namespace VL.Score
instance (scores : ScoreTable) : Decidable (TableWF scores) := by unfold TableWF ckeys; infer_instance
end VL.Score

namespace VL.Score
open VL VL.Appr

set_option linter.unusedSimpArgs false

/-! ### fuel adequacy of the `_tiebreak_default` model -/

/-- what the batch size guarantees on a well-formed non-empty table whose medians exist -/
theorem batch_facts {p0 : Cand × CScores} {ps : ScoreTable} (hwf : TableWF (p0 :: ps)) {medians : Votes}
    (hm : aggregate .medianLow (p0 :: ps) = .ok medians) :
    1 ≤ batchSize (p0 :: ps) medians ∧
    (∀ i, 1 ≤ i → i < batchSize (p0 :: ps) medians → StableAt (p0 :: ps) medians i) ∧
    (∀ p ∈ p0 :: ps, batchSize (p0 :: ps) medians ≤ getCount p.2 (getD medians p.1 0)) := by
  obtain ⟨hcc1, hccle⟩ := batchSize_spec p0 ps medians
  set cc := batchSize (p0 :: ps) medians with hcc
  have hmed : ∀ p ∈ p0 :: ps, aggregateOne .medianLow p.2 = .ok (getD medians p.1 0) := aggregate_lookup hm hwf.1
  have hstable : ∀ i, 1 ≤ i → i < cc → StableAt (p0 :: ps) medians i := by
    intro i hi1 hicc p hp
    rcases hccle with h1 | hle
    · omega
    · have hlt : i < candClosest medians p := lt_of_lt_of_le hicc (hle p hp)
      unfold candClosest at hlt
      simp only at hlt
      obtain ⟨w1, w2⟩ := hwf.2 p hp
      have ha : i < ceilAbs (((countGe p.2 (getD medians p.1 0) : Int) : Rat) - ((totalCount p.2 : Int) : Rat) / 2) := by
        split at hlt
        · rename_i hba; omega
        · exact hlt
      have hb : i < ceilAbs (((countGt p.2 (getD medians p.1 0) : Int) : Rat) - ((totalCount p.2 : Int) : Rat) / 2) := by
        split at hlt
        · exact hlt
        · rename_i hba; omega
      exact median_stable w1 w2 (hmed p hp) i (by omega) ha hb
  refine ⟨hcc1, hstable, ?_⟩
  intro p hp
  by_cases h1 : cc = 1
  · have := median_count_pos (hwf.2 p hp).1 (hmed p hp); omega
  · have := (hstable (cc - 1) (by omega) (by omega) p hp).1; omega

theorem totalCount_append (a b : CScores) : totalCount (a ++ b) = totalCount a + totalCount b := by
  simp [totalCount]

theorem totalCount_setCount_of_mem {cs : CScores} (hnd : (ckeys cs).Nodup) {m : Rat} {c : Int} (h : (m, c) ∈ cs) (n : Int) :
    totalCount (setCount cs m n) = totalCount cs - c + n := by
  obtain ⟨pre, post, hcs, hpre, _⟩ := split_of_mem hnd h
  rw [hcs, setCount_split c n hpre, totalCount_append, totalCount_append]
  simp [totalCount]; ring

theorem median_entry {cs : CScores} {m : Rat} (hm : aggregateOne .medianLow cs = .ok m) :
    ∃ c, (m, c) ∈ cs ∧ 0 < c := by
  obtain ⟨⟨p, hp, hpm, hppos⟩, _⟩ := (medianLow_iff cs m).mp hm
  exact ⟨p.2, by rw [← hpm]; exact hp, hppos⟩

theorem sum_map_dec {α : Type} (l : List α) (f g : α → Nat) (h : ∀ x ∈ l, g x + 1 ≤ f x) :
    (l.map g).sum + l.length ≤ (l.map f).sum := by
  induction l with
  | nil => simp
  | cons x xs ih =>
    have := ih (fun y hy => h y (List.mem_cons_of_mem _ hy))
    have hx := h x List.mem_cons_self
    simp only [List.map_cons, List.sum_cons, List.length_cons]
    omega

theorem sum_filter_le {α : Type} (l : List α) (P : α → Bool) (f : α → Nat) :
    ((l.filter P).map f).sum ≤ (l.map f).sum := by
  induction l with
  | nil => simp
  | cons x xs ih =>
    by_cases h : P x = true
    · simp [List.filter_cons, h]; exact ih
    · have h' : P x = false := by simpa using h
      simp only [List.filter_cons, h', Bool.false_eq_true, if_false, List.map_cons, List.sum_cons]
      omega

theorem firstTie_succ {l : List Slot} {i : Nat} (h : firstTie l = some (i + 1)) : ∃ c rest, l = Slot.cand c :: rest := by
  cases l with
  | nil => simp [firstTie] at h
  | cons s rest =>
    cases s with
    | cand c => exact ⟨c, rest, rfl⟩
    | tie T => simp [firstTie] at h

theorem medianLow_error {l : List Rat} {e : Err} (h : medianLow l = .error e) :
    e = .other "StatisticsError" ∨ e = .other "IndexError" := by
  unfold medianLow at h
  simp only at h
  split at h
  · injection h with h; exact Or.inl h.symm
  · split at h
    · cases h
    · injection h with h; exact Or.inr h.symm

theorem aggregate_medianLow_error : ∀ {t : ScoreTable} {e : Err}, aggregate .medianLow t = .error e →
    e = .other "StatisticsError" ∨ e = .other "IndexError" := by
  intro t
  induction t with
  | nil => intro e h; simp [aggregate] at h; cases h
  | cons p ps ih =>
    intro e h
    unfold aggregate at h
    rw [List.mapM_cons] at h
    cases hv : aggregateOne .medianLow p.2 with
    | error e' =>
      rw [hv] at h
      injection h with h
      subst h
      unfold aggregateOne at hv
      exact medianLow_error hv
    | ok v =>
      rw [hv] at h
      cases hr : ps.mapM (fun p => do let v ← aggregateOne .medianLow p.2; pure (p.1, v)) with
      | error e' =>
        rw [hr] at h
        injection h with h
        subst h
        exact ih hr
      | ok r => rw [hr] at h; cases h

/-- **Fuel adequacy.**  On a well-formed table, `Σ counts + #candidates + 1` units of fuel (what `majorityJudgment` passes)
    suffice: every pass either ends, or splits off at least one clear winner, or removes at least one grade from every
    candidate; the model of `_tiebreak_default` never reports the fuel error. -/
theorem tiebreakDefault_fuel : ∀ (fuel : Nat) (scores : ScoreTable) (n : Nat), TableWF scores → tableFuel scores ≤ fuel →
    tiebreakDefault fuel scores n ≠ .error (.other "Fuel") := by
  intro fuel
  induction fuel with
  | zero => intro scores n _ h; unfold tableFuel at h; omega
  | succ fuel ih =>
    intro scores n hwf hfuel
    cases scores with
    | nil => simp [tiebreakDefault]
    | cons p0 ps =>
      by_cases hmx : maxTotal (p0 :: ps) p0 = 0
      · rw [(both_mx0 fuel p0 ps n hmx).1]; intro h; cases h
      · cases hm : aggregate .medianLow (p0 :: ps) with
        | error e =>
          rw [(both_aggerr fuel p0 ps n e hmx hm).1]
          intro h
          injection h with h
          rcases aggregate_medianLow_error hm with h' | h' <;> rw [h'] at h <;> injection h with h <;> exact absurd h (by decide)
        | ok medians =>
          cases ht : firstTie (getNBest medians n) with
          | none => rw [(both_none fuel p0 ps n medians hmx hm ht).1]; intro h; cases h
          | some i =>
            cases i with
            | succ i =>
              rw [(both_succ fuel p0 ps n i medians hmx hm ht).1]
              have hwfr : TableWF (restAfter (p0 :: ps) medians n i) := tableWF_filter hwf _
              -- a clear winner leaves the table
              obtain ⟨c, rest, hbest⟩ := firstTie_succ ht
              have hc : c ∈ (p0 :: ps).map (·.1) := by
                have := getNBest_slotIn medians n (Slot.cand c) (by rw [hbest]; exact List.mem_cons_self)
                rw [aggregate_keys hm] at this
                exact this
              obtain ⟨p, hp, hpc⟩ := List.mem_map.mp hc
              have hlen : (restAfter (p0 :: ps) medians n i).length < (p0 :: ps).length := by
                unfold restAfter
                apply List.length_filter_lt_length_iff_exists.mpr
                refine ⟨p, hp, ?_⟩
                rw [hbest, hpc]
                simp [slotCands]
              have hsum : ((restAfter (p0 :: ps) medians n i).map (fun p => (totalCount p.2).toNat)).sum ≤
                  ((p0 :: ps).map (fun p => (totalCount p.2).toNat)).sum := sum_filter_le _ _ _
              have hf : tableFuel (restAfter (p0 :: ps) medians n i) ≤ fuel := by
                unfold tableFuel at hfuel ⊢; omega
              have := ih _ (n - (i + 1)) hwfr hf
              cases hrec : tiebreakDefault fuel (restAfter (p0 :: ps) medians n i) (n - (i + 1)) with
              | error e =>
                rw [hrec] at this
                intro h
                apply this
                simp only [Except.map] at h
                exact h
              | ok r => intro h; cases h
            | zero =>
              rw [default_step fuel p0 ps n medians hmx hm ht]
              obtain ⟨hcc1, _, hcount⟩ := batch_facts hwf hm
              have hwfcc : TableWF (stepBy (p0 :: ps) medians (batchSize (p0 :: ps) medians)) :=
                stepBy_wf hwf medians (by omega) hcount
              have hmed : ∀ p ∈ p0 :: ps, aggregateOne .medianLow p.2 = .ok (getD medians p.1 0) :=
                aggregate_lookup hm hwf.1
              have hdec : ((stepBy (p0 :: ps) medians (batchSize (p0 :: ps) medians)).map
                    (fun p => (totalCount p.2).toNat)).sum + (p0 :: ps).length ≤
                  ((p0 :: ps).map (fun p => (totalCount p.2).toNat)).sum := by
                unfold stepBy
                rw [List.map_map]
                apply sum_map_dec
                intro p hp
                simp only [Function.comp]
                obtain ⟨c, hc, hcpos⟩ := median_entry (hmed p hp)
                have hgc := getCount_of_mem (hwf.2 p hp).1 hc
                rw [totalCount_setCount_of_mem (hwf.2 p hp).1 hc, hgc]
                have hle := hcount p hp
                rw [hgc] at hle
                have htot : 0 ≤ totalCount p.2 - c := by
                  have := totalCount_setCount_of_mem (hwf.2 p hp).1 hc 0
                  have hnn : 0 ≤ totalCount (setCount p.2 (getD medians p.1 0) 0) := by
                    rw [totalCount_eq_wTotal (by
                      intro q hq
                      rcases setCount_entries _ _ _ q hq with h | h
                      · exact (hwf.2 p hp).2 q h
                      · rw [h])]
                    exact Int.natCast_nonneg _
                  omega
                omega
              have hlen : (stepBy (p0 :: ps) medians (batchSize (p0 :: ps) medians)).length = (p0 :: ps).length := by
                unfold stepBy; simp
              have hf : tableFuel (stepBy (p0 :: ps) medians (batchSize (p0 :: ps) medians)) ≤ fuel := by
                unfold tableFuel at hfuel ⊢
                simp only [List.length_cons] at hdec hlen hfuel ⊢
                omega
              exact ih _ n hwfcc hf

end VL.Score
