/-
  Refinement: the sorted-list machine (`halStep`, the data structure `HighestAverages.evaluate` really uses) and the
  pool machine (`haStep`) proceed in lock-step, up to the order of the waiting entries.
-/
import VotelibModel.HighestAveragesList
import VotelibProofs.Lemmas.HAPerm
namespace VL
open HACfg

def SortedAsc (l : List (Cand × Rat)) : Prop := l.Pairwise (fun a b => a.2 ≤ b.2)

def HALState.toPool (s : HALState) : HAState := { tot := s.tot, pool := s.lst, rem := s.rem, tie := s.tie }

/-! ### the maximal run of an ascending list -/

theorem sortedAsc_split {l : List (Cand × Rat)} (hs : SortedAsc l) {m : Rat} (hm : ∀ p ∈ l, p.2 ≤ m) :
    l = l.filter (fun p => decide (p.2 ≠ m)) ++ l.filter (fun p => decide (p.2 = m)) := by
  induction l with
  | nil => rfl
  | cons x xs ih =>
    have hx := List.pairwise_cons.mp hs
    have hm' : ∀ p ∈ xs, p.2 ≤ m := fun p hp => hm p (List.mem_cons_of_mem _ hp)
    by_cases hxm : x.2 = m
    · -- everything after x equals m
      have hall : ∀ p ∈ xs, p.2 = m := fun p hp => le_antisymm (hm' p hp) (hxm ▸ hx.1 p hp)
      have h1 : xs.filter (fun p => decide (p.2 ≠ m)) = [] := by
        rw [List.filter_eq_nil_iff]; intro p hp; simp [hall p hp]
      have h2 : xs.filter (fun p => decide (p.2 = m)) = xs := by
        rw [List.filter_eq_self]; intro p hp; simp [hall p hp]
      rw [List.filter_cons, List.filter_cons, h1, h2]
      simp [hxm]
    · have := ih hx.2 hm'
      simp only [List.filter_cons, hxm, ne_eq, not_false_eq_true, decide_true, decide_false, if_true, if_false,
        Bool.false_eq_true, List.cons_append]
      exact congrArg (x :: ·) this

theorem sortedAsc_last_max {L : List (Cand × Rat)} {p : Cand × Rat} (hs : SortedAsc (L ++ [p])) :
    ∀ q ∈ L ++ [p], q.2 ≤ p.2 := by
  intro q hq
  rcases List.mem_append.mp hq with h | h
  · exact (List.pairwise_append.mp hs).2.2 q h p (List.mem_singleton.mpr rfl)
  · rw [List.mem_singleton.mp h]

theorem maxQ_of_bound {l : List (Cand × Rat)} {m : Rat} (hle : ∀ q ∈ l, q.2 ≤ m) (hmem : ∃ q ∈ l, q.2 = m) :
    maxQ l = some m := by
  cases h : maxQ l with
  | none => obtain ⟨q, hq, _⟩ := hmem; rw [maxQ_eq_none.mp h] at hq; simp at hq
  | some m' =>
    obtain ⟨q, hq, hqm⟩ := hmem
    obtain ⟨r, hr, hrm⟩ := maxQ_mem l m' h
    have a := maxQ_ge l m' h q hq
    have b := hle r hr
    rw [hqm] at a; rw [hrm] at b
    exact congrArg some (le_antisymm b a)

theorem takeWhile_nil_of_none {α} (p : α → Bool) (l : List α) (h : ∀ a ∈ l, p a = false) : l.takeWhile p = [] := by
  cases l with
  | nil => rfl
  | cons x xs => simp [List.takeWhile_cons, h x List.mem_cons_self]

/-- the scan from the end finds exactly the entries carrying the maximal quotient -/
theorem nElect_eq {L : List (Cand × Rat)} {p : Cand × Rat} (hs : SortedAsc (L ++ [p])) :
    nElect (L ++ [p]) = ((L ++ [p]).filter (fun q => decide (q.2 = p.2))).length ∧
    (L ++ [p]).drop ((L ++ [p]).length - nElect (L ++ [p])) = (L ++ [p]).filter (fun q => decide (q.2 = p.2)) := by
  have hmax := sortedAsc_last_max hs
  have hsplit := sortedAsc_split hs hmax
  set A := (L ++ [p]).filter (fun q => decide (q.2 ≠ p.2)) with hA
  set B := (L ++ [p]).filter (fun q => decide (q.2 = p.2)) with hB
  have hAne : ∀ a ∈ A, a.2 ≠ p.2 := fun a ha => by simpa [hA] using (List.mem_filter.mp ha).2
  have hBeq : ∀ b ∈ B, b.2 = p.2 := fun b hb => by simpa [hB] using (List.mem_filter.mp hb).2
  have hn : nElect (L ++ [p]) = B.length := by
    unfold nElect
    rw [List.reverse_append, List.reverse_singleton, List.singleton_append]
    simp only
    -- L = A ++ B' where B = B' ++ [p]
    have hL : L.reverse.takeWhile (fun x => decide (x.2 = p.2)) = (L.filter (fun q => decide (q.2 = p.2))).reverse := by
      have hsL : SortedAsc L := (List.pairwise_append.mp hs).1
      have hmaxL : ∀ q ∈ L, q.2 ≤ p.2 := fun q hq => hmax q (List.mem_append_left _ hq)
      have := sortedAsc_split hsL hmaxL
      conv => lhs; rw [this]
      rw [List.reverse_append]
      rw [List.takeWhile_append_of_pos]
      · rw [takeWhile_nil_of_none]
        · simp
        · intro a ha
          have := (List.mem_filter.mp (List.mem_reverse.mp ha)).2
          simpa using this
      · intro a ha
        have := (List.mem_filter.mp (List.mem_reverse.mp ha)).2
        simpa using this
    rw [hL, List.length_reverse]
    have : B = L.filter (fun q => decide (q.2 = p.2)) ++ [p] := by
      rw [hB, List.filter_append]; simp
    rw [this, List.length_append, List.length_singleton]; omega
  refine ⟨hn, ?_⟩
  rw [hn]
  have hlen : (L ++ [p]).length = A.length + B.length := by
    conv => lhs; rw [hsplit]
    rw [List.length_append]
  rw [hlen, Nat.add_sub_cancel]
  conv => lhs; rw [hsplit]
  rw [List.drop_left]

/-! ### bisect insertion keeps the list sorted -/

theorem insertAt_bisect_sorted {A : List (Cand × Rat)} (hs : SortedAsc A) (x : Cand × Rat) :
    SortedAsc (insertAt A (bisectLeft A x.2) x) ∧ (insertAt A (bisectLeft A x.2) x).Perm (x :: A) := by
  unfold insertAt bisectLeft
  induction A with
  | nil => simp [SortedAsc]
  | cons a as ih =>
    have ha := List.pairwise_cons.mp hs
    by_cases hlt : a.2 < x.2
    · have hih := ih ha.2
      simp only [List.takeWhile_cons, hlt, decide_true, if_true, List.length_cons, List.take_succ_cons,
        List.drop_succ_cons, List.cons_append]
      refine ⟨?_, ?_⟩
      · refine List.pairwise_cons.mpr ⟨?_, hih.1⟩
        intro z hz
        rcases List.mem_cons.mp (hih.2.mem_iff.mp hz) with rfl | hz'
        · exact le_of_lt hlt
        · exact ha.1 z hz'
      · exact (List.Perm.cons a hih.2).trans (List.Perm.swap x a as)
    · simp only [List.takeWhile_cons, hlt, decide_false, Bool.false_eq_true, if_false, List.length_nil, List.take_zero,
        List.drop_zero, List.nil_append]
      refine ⟨?_, List.Perm.refl _⟩
      refine List.pairwise_cons.mpr ⟨?_, hs⟩
      intro z hz
      rcases List.mem_cons.mp hz with rfl | hz'
      · exact not_lt.mp hlt
      · exact le_trans (not_lt.mp hlt) (ha.1 z hz')

/-- with a block `B` of entries at the top value `m` behind `A`, bisect for `q ≤ m` lands inside `A` -/
theorem insertAt_bisect_append {A B : List (Cand × Rat)} {m : Rat} (hB : ∀ b ∈ B, b.2 = m) (x : Cand × Rat) (hx : x.2 ≤ m) :
    insertAt (A ++ B) (bisectLeft (A ++ B) x.2) x = insertAt A (bisectLeft A x.2) x ++ B := by
  have hidx : bisectLeft (A ++ B) x.2 = bisectLeft A x.2 := by
    unfold bisectLeft
    by_cases hall : ∀ a ∈ A, a.2 < x.2
    · rw [List.takeWhile_append_of_pos (by intro a ha; simpa using hall a ha)]
      rw [takeWhile_nil_of_none _ B (by intro b hb; simp [hB b hb, not_lt.mpr hx])]
      rw [List.append_nil]
      have hself : ∀ (l : List (Cand × Rat)), (∀ a ∈ l, a.2 < x.2) → l.takeWhile (fun p => decide (p.2 < x.2)) = l := by
        intro l
        induction l with
        | nil => intro _; rfl
        | cons a as ih =>
          intro h
          simp only [List.takeWhile_cons, h a List.mem_cons_self, decide_true, if_true]
          rw [ih (fun z hz => h z (List.mem_cons_of_mem _ hz))]
      rw [hself A hall]
    · -- the scan stops inside A
      have hgen : ∀ (A : List (Cand × Rat)), (¬ ∀ a ∈ A, a.2 < x.2) →
          (A ++ B).takeWhile (fun p => decide (p.2 < x.2)) = A.takeWhile (fun p => decide (p.2 < x.2)) := by
        intro A
        induction A with
        | nil => intro h; exact absurd (by simp) h
        | cons a as ih =>
          intro h
          by_cases ha : a.2 < x.2
          · have : ¬ ∀ a ∈ as, a.2 < x.2 := by
              intro hh; apply h; intro z hz
              rcases List.mem_cons.mp hz with rfl | hz'
              · exact ha
              · exact hh z hz'
            simp only [List.cons_append, List.takeWhile_cons, ha, decide_true, if_true, ih this]
          · simp [List.takeWhile_cons, ha]
      rw [hgen A hall]
  rw [hidx]
  unfold insertAt
  have hle : bisectLeft A x.2 ≤ A.length := by
    unfold bisectLeft; exact (List.takeWhile_sublist _).length_le
  rw [List.take_append_of_le_length hle, List.drop_append_of_le_length hle]
  simp

end VL
