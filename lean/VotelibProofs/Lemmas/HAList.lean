/-
  Refinement: the sorted-list machine (`halStep`, the data structure `HighestAverages.evaluate` really uses) and the
  pool machine (`haStep`) proceed in lock-step, up to the order of the waiting entries.
-/
import VotelibModel.HighestAveragesList
import VotelibProofs.Lemmas.HAPerm
namespace VL
open HACfg

def SortedAsc (l : List (Cand × Rat)) : Prop := l.Pairwise (fun a b => a.2 ≤ b.2)

def HALState.toPool (s : HALState) : HAState := { tot := s.tot, pool := s.lst, rem := s.rem, tie := s.tie }

/-! ### the maximal run of an ascending list -/

theorem sortedAsc_split {l : List (Cand × Rat)} (hs : SortedAsc l) {m : Rat} (hm : ∀ p ∈ l, p.2 ≤ m) :
    l = l.filter (fun p => decide (p.2 ≠ m)) ++ l.filter (fun p => decide (p.2 = m)) := by
  induction l with
  | nil => rfl
  | cons x xs ih =>
    have hx := List.pairwise_cons.mp hs
    have hm' : ∀ p ∈ xs, p.2 ≤ m := fun p hp => hm p (List.mem_cons_of_mem _ hp)
    by_cases hxm : x.2 = m
    · -- everything after x equals m
      have hall : ∀ p ∈ xs, p.2 = m := fun p hp => le_antisymm (hm' p hp) (hxm ▸ hx.1 p hp)
      have h1 : xs.filter (fun p => decide (p.2 ≠ m)) = [] := by
        rw [List.filter_eq_nil_iff]; intro p hp; simp [hall p hp]
      have h2 : xs.filter (fun p => decide (p.2 = m)) = xs := by
        rw [List.filter_eq_self]; intro p hp; simp [hall p hp]
      rw [List.filter_cons, List.filter_cons, h1, h2]
      simp [hxm]
    · have := ih hx.2 hm'
      simp only [List.filter_cons, hxm, ne_eq, not_false_eq_true, decide_true, decide_false, if_true, if_false,
        Bool.false_eq_true, List.cons_append]
      exact congrArg (x :: ·) this

theorem sortedAsc_last_max {L : List (Cand × Rat)} {p : Cand × Rat} (hs : SortedAsc (L ++ [p])) :
    ∀ q ∈ L ++ [p], q.2 ≤ p.2 := by
  intro q hq
  rcases List.mem_append.mp hq with h | h
  · exact (List.pairwise_append.mp hs).2.2 q h p (List.mem_singleton.mpr rfl)
  · rw [List.mem_singleton.mp h]

theorem maxQ_of_bound {l : List (Cand × Rat)} {m : Rat} (hle : ∀ q ∈ l, q.2 ≤ m) (hmem : ∃ q ∈ l, q.2 = m) :
    maxQ l = some m := by
  cases h : maxQ l with
  | none => obtain ⟨q, hq, _⟩ := hmem; rw [maxQ_eq_none.mp h] at hq; simp at hq
  | some m' =>
    obtain ⟨q, hq, hqm⟩ := hmem
    obtain ⟨r, hr, hrm⟩ := maxQ_mem l m' h
    have a := maxQ_ge l m' h q hq
    have b := hle r hr
    rw [hqm] at a; rw [hrm] at b
    exact congrArg some (le_antisymm b a)

theorem takeWhile_nil_of_none {α} (p : α → Bool) (l : List α) (h : ∀ a ∈ l, p a = false) : l.takeWhile p = [] := by
  cases l with
  | nil => rfl
  | cons x xs => simp [List.takeWhile_cons, h x List.mem_cons_self]

/-- the scan from the end finds exactly the entries carrying the maximal quotient -/
theorem nElect_eq {L : List (Cand × Rat)} {p : Cand × Rat} (hs : SortedAsc (L ++ [p])) :
    nElect (L ++ [p]) = ((L ++ [p]).filter (fun q => decide (q.2 = p.2))).length ∧
    (L ++ [p]).drop ((L ++ [p]).length - nElect (L ++ [p])) = (L ++ [p]).filter (fun q => decide (q.2 = p.2)) := by
  have hmax := sortedAsc_last_max hs
  have hsplit := sortedAsc_split hs hmax
  set A := (L ++ [p]).filter (fun q => decide (q.2 ≠ p.2)) with hA
  set B := (L ++ [p]).filter (fun q => decide (q.2 = p.2)) with hB
  have hAne : ∀ a ∈ A, a.2 ≠ p.2 := fun a ha => by simpa [hA] using (List.mem_filter.mp ha).2
  have hBeq : ∀ b ∈ B, b.2 = p.2 := fun b hb => by simpa [hB] using (List.mem_filter.mp hb).2
  have hn : nElect (L ++ [p]) = B.length := by
    unfold nElect
    rw [List.reverse_append, List.reverse_singleton, List.singleton_append]
    simp only
    -- L = A ++ B' where B = B' ++ [p]
    have hL : L.reverse.takeWhile (fun x => decide (x.2 = p.2)) = (L.filter (fun q => decide (q.2 = p.2))).reverse := by
      have hsL : SortedAsc L := (List.pairwise_append.mp hs).1
      have hmaxL : ∀ q ∈ L, q.2 ≤ p.2 := fun q hq => hmax q (List.mem_append_left _ hq)
      have := sortedAsc_split hsL hmaxL
      conv => lhs; rw [this]
      rw [List.reverse_append]
      rw [List.takeWhile_append_of_pos]
      · rw [takeWhile_nil_of_none]
        · simp
        · intro a ha
          have := (List.mem_filter.mp (List.mem_reverse.mp ha)).2
          simpa using this
      · intro a ha
        have := (List.mem_filter.mp (List.mem_reverse.mp ha)).2
        simpa using this
    rw [hL, List.length_reverse]
    have : B = L.filter (fun q => decide (q.2 = p.2)) ++ [p] := by
      rw [hB, List.filter_append]; simp
    rw [this, List.length_append, List.length_singleton]; omega
  refine ⟨hn, ?_⟩
  rw [hn]
  have hlen : (L ++ [p]).length = A.length + B.length := by
    conv => lhs; rw [hsplit]
    rw [List.length_append]
  rw [hlen, Nat.add_sub_cancel]
  conv => lhs; rw [hsplit]
  rw [List.drop_left]

/-! ### bisect insertion keeps the list sorted -/

theorem insertAt_bisect_sorted {A : List (Cand × Rat)} (hs : SortedAsc A) (x : Cand × Rat) :
    SortedAsc (insertAt A (bisectLeft A x.2) x) ∧ (insertAt A (bisectLeft A x.2) x).Perm (x :: A) := by
  unfold insertAt bisectLeft
  induction A with
  | nil => simp [SortedAsc]
  | cons a as ih =>
    have ha := List.pairwise_cons.mp hs
    by_cases hlt : a.2 < x.2
    · have hih := ih ha.2
      simp only [List.takeWhile_cons, hlt, decide_true, if_true, List.length_cons, List.take_succ_cons,
        List.drop_succ_cons, List.cons_append]
      refine ⟨?_, ?_⟩
      · refine List.pairwise_cons.mpr ⟨?_, hih.1⟩
        intro z hz
        rcases List.mem_cons.mp (hih.2.mem_iff.mp hz) with rfl | hz'
        · exact le_of_lt hlt
        · exact ha.1 z hz'
      · exact (List.Perm.cons a hih.2).trans (List.Perm.swap x a as)
    · simp only [List.takeWhile_cons, hlt, decide_false, Bool.false_eq_true, if_false, List.length_nil, List.take_zero,
        List.drop_zero, List.nil_append]
      refine ⟨?_, List.Perm.refl _⟩
      refine List.pairwise_cons.mpr ⟨?_, hs⟩
      intro z hz
      rcases List.mem_cons.mp hz with rfl | hz'
      · exact not_lt.mp hlt
      · exact le_trans (not_lt.mp hlt) (ha.1 z hz')

/-- with a block `B` of entries at the top value `m` behind `A`, bisect for `q ≤ m` lands inside `A` -/
theorem insertAt_bisect_append {A B : List (Cand × Rat)} {m : Rat} (hB : ∀ b ∈ B, b.2 = m) (x : Cand × Rat) (hx : x.2 ≤ m) :
    insertAt (A ++ B) (bisectLeft (A ++ B) x.2) x = insertAt A (bisectLeft A x.2) x ++ B := by
  have hidx : bisectLeft (A ++ B) x.2 = bisectLeft A x.2 := by
    unfold bisectLeft
    by_cases hall : ∀ a ∈ A, a.2 < x.2
    · rw [List.takeWhile_append_of_pos (by intro a ha; simpa using hall a ha)]
      rw [takeWhile_nil_of_none _ B (by intro b hb; simp [hB b hb, not_lt.mpr hx])]
      rw [List.append_nil]
      have hself : ∀ (l : List (Cand × Rat)), (∀ a ∈ l, a.2 < x.2) → l.takeWhile (fun p => decide (p.2 < x.2)) = l := by
        intro l
        induction l with
        | nil => intro _; rfl
        | cons a as ih =>
          intro h
          simp only [List.takeWhile_cons, h a List.mem_cons_self, decide_true, if_true]
          rw [ih (fun z hz => h z (List.mem_cons_of_mem _ hz))]
      rw [hself A hall]
    · -- the scan stops inside A
      have hgen : ∀ (A : List (Cand × Rat)), (¬ ∀ a ∈ A, a.2 < x.2) →
          (A ++ B).takeWhile (fun p => decide (p.2 < x.2)) = A.takeWhile (fun p => decide (p.2 < x.2)) := by
        intro A
        induction A with
        | nil => intro h; exact absurd (by simp) h
        | cons a as ih =>
          intro h
          by_cases ha : a.2 < x.2
          · have : ¬ ∀ a ∈ as, a.2 < x.2 := by
              intro hh; apply h; intro z hz
              rcases List.mem_cons.mp hz with rfl | hz'
              · exact ha
              · exact hh z hz'
            simp only [List.cons_append, List.takeWhile_cons, ha, decide_true, if_true, ih this]
          · simp [List.takeWhile_cons, ha]
      rw [hgen A hall]
  rw [hidx]
  unfold insertAt
  have hle : bisectLeft A x.2 ≤ A.length := by
    unfold bisectLeft; exact (List.takeWhile_sublist _).length_le
  rw [List.take_append_of_le_length hle, List.drop_append_of_le_length hle]
  simp

/-! ### popping the batch from the tail and re-inserting -/

/-- what the pool machine puts back for one batch entry -/
def backOf (cfg : HACfg) (tot' : Cand → Nat) (c : Cand) : Option (Cand × Rat) :=
  if tot' c < cfg.capOf c then some (c, cfg.quot c (tot' c)) else none

theorem popLoop_spec (cfg : HACfg) (tot' : Cand → Nat) (m : Rat) :
    ∀ (k : Nat) (A B : List (Cand × Rat)), B.length = k → (∀ b ∈ B, b.2 = m) → SortedAsc A → (∀ a ∈ A, a.2 ≤ m) →
      (∀ b ∈ B, cfg.quot b.1 (tot' b.1) ≤ m) →
      SortedAsc (popLoop cfg tot' k (A ++ B)) ∧
      (popLoop cfg tot' k (A ++ B)).Perm (A ++ (B.map (·.1)).filterMap (backOf cfg tot')) := by
  intro k
  induction k with
  | zero =>
    intro A B hlen _ hsA _ _
    have : B = [] := List.length_eq_zero_iff.mp hlen
    subst this
    simp only [popLoop, List.append_nil, List.map_nil, List.filterMap_nil]
    exact ⟨hsA, List.Perm.refl _⟩
  | succ k ih =>
    intro A B hlen hB hsA hA hq
    -- B = B' ++ [p]
    obtain ⟨B', p, rfl⟩ : ∃ B' p, B = B' ++ [p] := by
      have hne : B ≠ [] := by intro h; rw [h] at hlen; simp at hlen
      exact ⟨B.dropLast, B.getLast hne, (List.dropLast_append_getLast hne).symm⟩
    have hlen' : B'.length = k := by simpa using hlen
    have hB' : ∀ b ∈ B', b.2 = m := fun b hb => hB b (List.mem_append_left _ hb)
    have hpm : p.2 = m := hB p (List.mem_append_right _ (List.mem_singleton.mpr rfl))
    have hq' : ∀ b ∈ B', cfg.quot b.1 (tot' b.1) ≤ m := fun b hb => hq b (List.mem_append_left _ hb)
    have hqp : cfg.quot p.1 (tot' p.1) ≤ m := hq p (List.mem_append_right _ (List.mem_singleton.mpr rfl))
    have hlast : (A ++ (B' ++ [p])).getLast? = some p := by
      rw [← List.append_assoc]; simp
    have hdrop : (A ++ (B' ++ [p])).dropLast = A ++ B' := by
      rw [← List.append_assoc]; simp
    unfold popLoop
    rw [hlast]
    simp only [hdrop]
    by_cases hcap : tot' p.1 < cfg.capOf p.1
    · rw [if_pos hcap]
      have hins := insertAt_bisect_append (A := A) hB' (p.1, cfg.quot p.1 (tot' p.1)) hqp
      simp only at hins
      rw [hins]
      obtain ⟨hsA', hpA'⟩ := insertAt_bisect_sorted hsA (p.1, cfg.quot p.1 (tot' p.1))
      simp only at hsA' hpA'
      have hA' : ∀ a ∈ insertAt A (bisectLeft A (cfg.quot p.1 (tot' p.1))) (p.1, cfg.quot p.1 (tot' p.1)), a.2 ≤ m := by
        intro a ha
        rcases List.mem_cons.mp (hpA'.mem_iff.mp ha) with rfl | ha'
        · exact hqp
        · exact hA a ha'
      obtain ⟨hs1, hp1⟩ := ih _ B' hlen' hB' hsA' hA' hq'
      refine ⟨hs1, hp1.trans ?_⟩
      rw [List.map_append, List.filterMap_append]
      simp only [List.map_cons, List.map_nil, List.filterMap_cons, List.filterMap_nil, backOf, hcap, if_true]
      -- (x :: A) ++ F  ~  A ++ (F ++ [x])
      have : ((p.1, cfg.quot p.1 (tot' p.1)) :: A ++ List.filterMap (backOf cfg tot') (List.map (fun x => x.1) B')).Perm
          (A ++ (List.filterMap (backOf cfg tot') (List.map (fun x => x.1) B') ++ [(p.1, cfg.quot p.1 (tot' p.1))])) := by
        rw [← List.append_assoc]
        exact (List.perm_append_singleton _ _).symm
      exact (hpA'.append_right _).trans this
    · rw [if_neg hcap]
      obtain ⟨hs1, hp1⟩ := ih A B' hlen' hB' hsA hA hq'
      refine ⟨hs1, hp1.trans ?_⟩
      rw [List.map_append, List.filterMap_append]
      simp [backOf, hcap]

/-! ### one step, the loop, the run -/

theorem permState_trans {a b c : HAState} (h1 : PermState a b) (h2 : PermState b c) : PermState a c := by
  refine ⟨h1.tot.trans h2.tot, h1.pool.trans h2.pool, h1.rem.trans h2.rem, ?_⟩
  rcases h1.tie with ⟨ha, hb⟩ | ⟨T₁, T₂, m, ha, hb, hp⟩
  · rcases h2.tie with ⟨hb', hc⟩ | ⟨T₂', T₃, m', hb', hc, hp'⟩
    · exact Or.inl ⟨ha, hc⟩
    · rw [hb] at hb'; cases hb'
  · rcases h2.tie with ⟨hb', hc⟩ | ⟨T₂', T₃, m', hb', hc, hp'⟩
    · rw [hb] at hb'; cases hb'
    · rw [hb] at hb'
      injection hb' with hb'
      injection hb' with e1 e2
      subst e1; subst e2
      exact Or.inr ⟨T₁, T₃, m, ha, hc, hp.trans hp'⟩

/-- the list step is the pool step on the same entries, up to the order of the pool -/
theorem halStep_refines (cfg : HACfg) (h : CfgOK cfg) (s : HALState) (hs : SortedAsc s.lst)
    (hq : ∀ p ∈ s.lst, p.2 = cfg.quot p.1 (s.tot p.1)) :
    PermState (haStep cfg s.toPool) (halStep cfg s).toPool ∧ SortedAsc (halStep cfg s).lst := by
  by_cases hnil : s.lst = []
  · have : halStep cfg s = s := by unfold halStep; rw [if_pos hnil]
    rw [this]
    have hm : maxQ s.toPool.pool = none := by
      show maxQ s.lst = none; rw [hnil]; rfl
    have : haStep cfg s.toPool = s.toPool := by unfold haStep; rw [hm]
    rw [this]
    exact ⟨⟨rfl, List.Perm.refl _, rfl, by cases s.tie.isSome <;> (cases hst : s.toPool.tie <;> [exact Or.inl ⟨rfl, rfl⟩;
      (rename_i v; exact Or.inr ⟨v.1, v.1, v.2, rfl, rfl, List.Perm.refl _⟩)])⟩, hs⟩
  · obtain ⟨L, p, hL⟩ : ∃ L p, s.lst = L ++ [p] :=
      ⟨s.lst.dropLast, s.lst.getLast hnil, (List.dropLast_append_getLast hnil).symm⟩
    have hsL : SortedAsc (L ++ [p]) := hL ▸ hs
    have hmax := sortedAsc_last_max hsL
    have hm : maxQ s.lst = some p.2 := by
      rw [hL]; exact maxQ_of_bound hmax ⟨p, List.mem_append_right _ (List.mem_singleton.mpr rfl), rfl⟩
    obtain ⟨hn, hdropeq⟩ := nElect_eq hsL
    have hsplit := sortedAsc_split hsL hmax
    -- unfold both steps
    have hpool : s.toPool.pool = s.lst := rfl
    unfold halStep haStep
    rw [if_neg hnil, hpool, hm]
    simp only
    have hbatchlist : (s.lst.drop (s.lst.length - nElect s.lst)).map (·.1)
        = (s.lst.filter (fun q => decide (q.2 = p.2))).map (·.1) := by
      rw [hL, hdropeq]
    have hnlen : nElect s.lst = ((s.lst.filter (fun q => decide (q.2 = p.2))).map (·.1)).length := by
      rw [hL, hn, List.length_map]
    rw [hbatchlist, hnlen]
    have hrem : s.toPool.rem = s.rem := rfl
    have htot : s.toPool.tot = s.tot := rfl
    rw [hrem, htot]
    by_cases hgt : ((s.lst.filter (fun q => decide (q.2 = p.2))).map (·.1)).length > s.rem
    · rw [if_pos hgt, if_pos hgt]
      exact ⟨⟨rfl, List.Perm.refl _, rfl, Or.inr ⟨_, _, _, rfl, rfl, List.Perm.refl _⟩⟩, hs⟩
    · rw [if_neg hgt, if_neg hgt]
      set batch := (s.lst.filter (fun q => decide (q.2 = p.2))).map (·.1) with hbatch
      set tot' := bumpAll s.tot batch with htot'
      -- the list is A ++ B with B the batch entries
      have hAB : s.lst = s.lst.filter (fun q => decide (q.2 ≠ p.2)) ++ s.lst.filter (fun q => decide (q.2 = p.2)) := by
        conv => lhs; rw [hL, hsplit, ← hL]
      have hBm : ∀ b ∈ s.lst.filter (fun q => decide (q.2 = p.2)), b.2 = p.2 :=
        fun b hb => by simpa using (List.mem_filter.mp hb).2
      have hsA : SortedAsc (s.lst.filter (fun q => decide (q.2 ≠ p.2))) := List.Pairwise.sublist List.filter_sublist hs
      have hAle : ∀ a ∈ s.lst.filter (fun q => decide (q.2 ≠ p.2)), a.2 ≤ p.2 := by
        intro a ha
        have := (List.mem_filter.mp ha).1
        rw [hL] at this; exact hmax a this
      have hqB : ∀ b ∈ s.lst.filter (fun q => decide (q.2 = p.2)), cfg.quot b.1 (tot' b.1) ≤ p.2 := by
        intro b hb
        have hbl := (List.mem_filter.mp hb).1
        have hbin : b.1 ∈ batch := List.mem_map.mpr ⟨b, hb, rfl⟩
        have : tot' b.1 = s.tot b.1 + 1 := by rw [htot']; unfold bumpAll; rw [if_pos hbin]
        rw [this]
        have hbq := hq b hbl
        rw [← hBm b hb, hbq]
        exact quot_anti h _ _
      have hspec := popLoop_spec cfg tot' p.2 _ _ _ rfl hBm hsA hAle hqB
      rw [← hAB] at hspec
      have hbl : batch.length = (s.lst.filter (fun q => decide (q.2 = p.2))).length := by rw [hbatch, List.length_map]
      rw [hbl]
      refine ⟨⟨rfl, ?_, rfl, Or.inl ⟨rfl, rfl⟩⟩, hspec.1⟩
      exact hspec.2.symm

theorem halLoop_refines (cfg : HACfg) (h : CfgOK cfg) :
    ∀ (fuel : Nat) (sp : HAState) (sl : HALState), Inv cfg sp → PermState sp sl.toPool → SortedAsc sl.lst →
      PermState (haLoop cfg fuel sp) (halLoop cfg fuel sl).toPool := by
  intro fuel
  induction fuel with
  | zero => intro sp sl _ hp _; exact hp
  | succ f ih =>
    intro sp sl hi hp hs
    unfold haLoop halLoop
    have hc : (sp.rem = 0 ∨ sp.pool = []) ↔ (sl.rem = 0 ∨ sl.lst = []) := by
      have hr : sp.rem = sl.rem := hp.rem
      have hpl : sp.pool.Perm sl.lst := hp.pool
      rw [hr]
      constructor
      · rintro (h0 | h0)
        · exact Or.inl h0
        · right; rw [h0] at hpl; exact hpl.symm.eq_nil
      · rintro (h0 | h0)
        · exact Or.inl h0
        · right; rw [h0] at hpl; exact hpl.eq_nil
    by_cases hcond : sp.rem = 0 ∨ sp.pool = []
    · rw [if_pos hcond, if_pos (hc.mp hcond)]; exact hp
    · rw [if_neg hcond, if_neg (fun hh => hcond (hc.mpr hh))]
      have hrem : sp.rem ≠ 0 := fun h0 => hcond (Or.inl h0)
      have hql : ∀ p ∈ sl.lst, p.2 = cfg.quot p.1 (sl.tot p.1) := by
        intro p hpm
        have : p ∈ sp.pool := hp.pool.mem_iff.mpr hpm
        have htot : sp.tot = sl.tot := hp.tot
        rw [← htot]; exact hi.pool_q p this
      obtain ⟨hstep, hsort⟩ := halStep_refines cfg h sl hs hql
      exact ih _ _ (haStep_inv cfg h sp hi hrem) (permState_trans (haStep_perm cfg _ _ hp) hstep) hsort

theorem sortAsc_perm (l : Votes) : (sortAsc l).Perm l := by
  have hins : ∀ (x : Cand × Rat) (l : Votes), (insertAsc x l).Perm (x :: l) := by
    intro x l
    induction l with
    | nil => simp [insertAsc]
    | cons y ys ih =>
      unfold insertAsc
      split
      · exact (List.Perm.cons y ih).trans (List.Perm.swap x y ys)
      · exact List.Perm.refl _
  induction l with
  | nil => simp [sortAsc]
  | cons x xs ih => simp only [sortAsc]; exact (hins x _).trans (List.Perm.cons x ih)

theorem sortAsc_sorted (l : Votes) : SortedAsc (sortAsc l) := by
  have hinsP : ∀ (x : Cand × Rat) (l : Votes), (insertAsc x l).Perm (x :: l) := by
    intro x l
    induction l with
    | nil => simp [insertAsc]
    | cons y ys ih =>
      unfold insertAsc
      split
      · exact (List.Perm.cons y ih).trans (List.Perm.swap x y ys)
      · exact List.Perm.refl _
  have hins : ∀ (x : Cand × Rat) (l : Votes), SortedAsc l → SortedAsc (insertAsc x l) := by
    intro x l
    induction l with
    | nil => intro _; simp [insertAsc, SortedAsc]
    | cons y ys ih =>
      intro hs
      have hy := List.pairwise_cons.mp hs
      unfold insertAsc
      split
      · rename_i hlt
        refine List.pairwise_cons.mpr ⟨?_, ih hy.2⟩
        intro z hz
        rcases List.mem_cons.mp ((hinsP x ys).mem_iff.mp hz) with rfl | hz'
        · exact le_of_lt hlt
        · exact hy.1 z hz'
      · rename_i hnlt
        refine List.pairwise_cons.mpr ⟨?_, hs⟩
        intro z hz
        rcases List.mem_cons.mp hz with rfl | hz'
        · exact not_lt.mp hnlt
        · exact le_trans (not_lt.mp hnlt) (hy.1 z hz')
  induction l with
  | nil => simp [sortAsc, SortedAsc]
  | cons x xs ih => exact hins x _ ih

/-- **Refinement.**  The sorted-list machine and the pool machine end in the same totals, the same seats left, and the
    same tie up to the order of its members. -/
theorem halRun_refines (cfg : HACfg) (h : CfgOK cfg) : PermState (haRun cfg) (halRun cfg).toPool := by
  unfold haRun halRun
  have hrem : (halInit cfg).rem = (haInit cfg).rem := rfl
  rw [hrem]
  apply halLoop_refines cfg h _ _ _ (haInit_inv cfg h)
  · exact ⟨rfl, (sortAsc_perm _).symm, rfl, Or.inl ⟨rfl, rfl⟩⟩
  · exact sortAsc_sorted _

theorem halSeats_eq (cfg : HACfg) (h : CfgOK cfg) (c : Cand) :
    (halRun cfg).tot c - cfg.prevOf c = haSeats cfg c := by
  have := (halRun_refines cfg h).tot
  unfold haSeats
  rw [this]; rfl

end VL
