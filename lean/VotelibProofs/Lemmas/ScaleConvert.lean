/-
  C11: the vote converters are linear maps — scaling every ballot weight by `k` scales every converted value by `k`
  (and leaves keys, their insertion order and every refusal unchanged).
  ApprovalToSimpleVotes (split / unsplit), RankedToPositionalVotes (every scorer), RankedToCondorcetVotes.
-/
import VotelibProofs.Lemmas.ScaleBasic
import VotelibModel.Convert
import VotelibProofs.Lemmas.ConvertPositional
namespace VL.Scale
open VL VL.Convert

/-- scaling of the values of any dict -/
def scaleD {κ : Type} (k : Rat) (d : Dict κ) : Dict κ := d.map (fun p => (p.1, k * p.2))

theorem scaleD_eq_scaleVotes (k : Rat) (d : Dict Cand) : scaleD k d = scaleVotes k d := rfl

/-! ### generic fold simulations -/

theorem foldl_sim {σ σ' β β' : Type} (g : σ → σ') (f : σ → β → σ) (f' : σ' → β' → σ') (h : β → β')
    (hstep : ∀ s b, f' (g s) (h b) = g (f s b)) :
    ∀ (l : List β) (s : σ), (l.map h).foldl f' (g s) = g (l.foldl f s) := by
  intro l
  induction l with
  | nil => intro s; rfl
  | cons b bs ih => intro s; simp only [List.map_cons, List.foldl_cons, hstep, ih]

theorem foldlM_sim {σ σ' β β' : Type} (g : σ → σ') (f : σ → β → Except Err σ) (f' : σ' → β' → Except Err σ')
    (h : β → β') (hstep : ∀ s b, f' (g s) (h b) = (f s b).map g) :
    ∀ (l : List β) (s : σ), (l.map h).foldlM f' (g s) = (l.foldlM f s).map g := by
  intro l
  induction l with
  | nil => intro s; rfl
  | cons b bs ih =>
    intro s
    simp only [List.map_cons, List.foldlM_cons, hstep]
    cases hfb : f s b with
    | error e => rfl
    | ok s' => exact ih s'

/-! ### dict primitives -/

theorem addTo_scale {κ : Type} [DecidableEq κ] (k : Rat) (d : Dict κ) (key : κ) (v : Rat) :
    addTo (scaleD k d) key (k * v) = scaleD k (addTo d key v) := by
  unfold scaleD
  induction d with
  | nil => rfl
  | cons e t ih =>
    obtain ⟨k', v'⟩ := e
    simp only [List.map_cons, addTo]
    by_cases hk : k' = key
    · simp only [hk, if_true, List.map_cons, mul_add]
    · simp only [hk, if_false, List.map_cons, ih]

theorem addExisting_scale {κ : Type} [DecidableEq κ] (k : Rat) (d : Dict κ) (key : κ) (v : Rat) :
    addExisting (scaleD k d) key (k * v) = (addExisting d key v).map (scaleD k) := by
  unfold scaleD
  induction d with
  | nil => rfl
  | cons e t ih =>
    obtain ⟨k', v'⟩ := e
    simp only [List.map_cons, addExisting]
    by_cases hk : k' = key
    · simp only [hk, if_true, Except.map, List.map_cons, mul_add]
    · simp only [hk, if_false, ih]
      cases addExisting t key v <;> rfl

theorem foldl_addTo_scale {κ : Type} [DecidableEq κ] (k : Rat) (w : Rat) (keys : List κ) (d : Dict κ) :
    keys.foldl (fun agg c => addTo agg c (k * w)) (scaleD k d) = scaleD k (keys.foldl (fun agg c => addTo agg c w) d) := by
  have := foldl_sim (scaleD k) (fun agg c => addTo agg c w) (fun agg c => addTo agg c (k * w)) (fun c : κ => c)
    (fun s b => addTo_scale k s b w) keys d
  simpa using this

/-! ### ApprovalToSimpleVotes -/

theorem approvalToSimple_scale (split : Bool) (k : Rat) (p : AProfile) :
    approvalToSimple split (scaleD k p) = (approvalToSimple split p).map (scaleD k) := by
  unfold approvalToSimple
  have h := foldlM_sim (scaleD (κ := Cand) k)
    (fun agg (bw : Approval × Rat) =>
      if split then
        if bw.1.length = 0 then Except.error (Err.other "ZeroDivisionError")
        else Except.ok (bw.1.foldl (fun agg c => addTo agg c (bw.2 / (bw.1.length : Rat))) agg)
      else Except.ok (bw.1.foldl (fun agg c => addTo agg c bw.2) agg))
    (fun agg (bw : Approval × Rat) =>
      if split then
        if bw.1.length = 0 then Except.error (Err.other "ZeroDivisionError")
        else Except.ok (bw.1.foldl (fun agg c => addTo agg c (bw.2 / (bw.1.length : Rat))) agg)
      else Except.ok (bw.1.foldl (fun agg c => addTo agg c bw.2) agg))
    (fun bw => (bw.1, k * bw.2))
    (by
      intro s bw
      cases split
      · simp only [Bool.false_eq_true, if_false, foldl_addTo_scale]; rfl
      · simp only [if_true]
        by_cases hl : bw.1.length = 0
        · simp only [hl, if_true]; rfl
        · simp only [hl, if_false, mul_div_assoc, foldl_addTo_scale]; rfl)
    p []
  exact h

/-! ### RankedToPositionalVotes -/

theorem maxLen_scale (k : Rat) (p : RProfile) : maxLen (scaleD k p) = maxLen p := by
  unfold maxLen scaleD
  rw [List.foldl_map]

theorem allRankings_scale (k : Rat) (p : RProfile) :
    allRankings (scaleD k p) = (allRankings p).map (fun t => (t.1, t.2.1, k * t.2.2)) := by
  unfold allRankings
  rw [maxLen_scale, List.map_flatMap]
  congr 1
  funext i
  unfold scaleD
  rw [List.flatMap_map, List.map_flatMap]
  congr 1
  funext bw
  unfold rankingsAt
  cases bw.1[i]? with
  | none => rfl
  | some it => simp [List.map_map, Function.comp_def]

theorem allRankedCandidates_scale (k : Rat) (p : RProfile) :
    allRankedCandidates (scaleD k p) = allRankedCandidates p := by
  unfold allRankedCandidates
  rw [allRankings_scale, List.foldl_map]

theorem positionalBallot_scale (k : Rat) (scores : List Rat) (w : Rat) :
    ∀ (b : Ballot) (rank : Nat) (agg : Dict Cand),
      positionalBallot scores (k * w) rank b (scaleD k agg) = (positionalBallot scores w rank b agg).map (scaleD k) := by
  intro b
  induction b with
  | nil => intro rank agg; rfl
  | cons it rest ih =>
    intro rank agg
    simp only [positionalBallot]
    cases scores[rank]? with
    | none => rfl
    | some s =>
      simp only
      have h := foldlM_sim (scaleD (κ := Cand) k) (fun agg c => addExisting agg c (s * w))
        (fun agg c => addExisting agg c (s * (k * w))) (fun c : Cand => c)
        (by intro a c; rw [mul_left_comm]; exact addExisting_scale k a c (s * w)) it.cands agg
      rw [List.map_id'] at h
      rw [h]
      cases List.foldlM (fun agg c => addExisting agg c (s * w)) agg it.cands with
      | error e => rfl
      | ok agg' => exact ih (rank + 1) agg'

theorem zeros_scale (k : Rat) (U : List Cand) :
    scaleD k (U.map (fun c => (c, (0 : Rat)))) = U.map (fun c => (c, (0 : Rat))) := by
  unfold scaleD; simp [List.map_map, Function.comp_def]

theorem positionalU_scale (sc : Scorer) (U : List Cand) (k : Rat) (hk : 0 < k) (p : RProfile) :
    positionalU sc U (scaleD k p) = (positionalU sc U p).map (scaleD k) := by
  rw [positionalU_def, positionalU_def]
  have h := foldlM_sim (scaleD (κ := Cand) k) (positionalStep sc U.length) (positionalStep sc U.length)
    (fun bw => (bw.1, k * bw.2))
    (by
      intro s bw
      unfold positionalStep
      simp only
      cases sc.scores U.length bw.1.length with
      | error e => rfl
      | ok scores => exact positionalBallot_scale k scores bw.2 bw.1 0 s)
    p (U.map (fun c => (c, (0 : Rat))))
  rw [zeros_scale] at h
  have h' : List.foldlM (positionalStep sc U.length) (U.map (fun c => (c, (0 : Rat)))) (scaleD k p) = _ := h
  rw [h']
  cases List.foldlM (positionalStep sc U.length) (U.map (fun c => (c, (0 : Rat)))) p with
  | error e => rfl
  | ok agg =>
    show Except.ok (sortDesc (scaleVotes k agg)) = Except.ok (scaleVotes k (sortDesc agg))
    rw [sortDesc_scale k hk]

/-- `RankedToPositionalVotes(scorer).convert` is linear in the ballot weights (every scorer, including the refusals) -/
theorem rankedToPositional_scale (sc : Scorer) (k : Rat) (hk : 0 < k) (p : RProfile) :
    rankedToPositional sc (scaleD k p) = (rankedToPositional sc p).map (scaleD k) := by
  unfold rankedToPositional
  rw [allRankedCandidates_scale, positionalU_scale sc _ k hk]

/-! ### RankedToCondorcetVotes (C13 model) -/

theorem condorcetU_scale (atBottom : Bool) (U : List Cand) (k : Rat) (p : RProfile) :
    condorcetU atBottom U (scaleD k p) = scaleD k (condorcetU atBottom U p) := by
  unfold condorcetU
  exact foldl_sim (scaleD (κ := Cand × Cand) k)
    (fun counts (bw : Ballot × Rat) =>
      (condorcetPairs (unrankedOf U atBottom bw.1) bw.1).foldl (fun counts k' => addTo counts k' bw.2) counts)
    (fun counts (bw : Ballot × Rat) =>
      (condorcetPairs (unrankedOf U atBottom bw.1) bw.1).foldl (fun counts k' => addTo counts k' bw.2) counts)
    (fun bw => (bw.1, k * bw.2))
    (fun s bw => foldl_addTo_scale k bw.2 _ s) p []

theorem rankedToCondorcet_scale (atBottom : Bool) (k : Rat) (p : RProfile) :
    rankedToCondorcet atBottom (scaleD k p) = scaleD k (rankedToCondorcet atBottom p) := by
  unfold rankedToCondorcet
  rw [allRankedCandidates_scale, condorcetU_scale]

end VL.Scale
