/-
  C10: `SlotsEquiv` is transitive (the decomposition of a selection result into individually elected candidates followed by
  copies of one tie is unique), and the second-order Copeland rule on ranked profiles commutes with renamings.
-/
import VotelibProofs.Lemmas.PermCondorcetRules2
import VotelibProofs.Lemmas.RenameCopeland2
namespace VL.Perm
open VL VL.Convert VL.C10 VL.PreConv

theorem slots_decomp_unique : ∀ (e e' : List Cand) (T T' : List Cand) (m m' : Nat),
    e.map Slot.cand ++ List.replicate m (Slot.tie T) = e'.map Slot.cand ++ List.replicate m' (Slot.tie T') →
    e = e' ∧ m = m' ∧ (m = 0 ∨ T = T') := by
  intro e
  induction e with
  | nil =>
    intro e' T T' m m' h
    cases e' with
    | nil =>
      simp only [List.map_nil, List.nil_append] at h
      have hl : m = m' := by simpa using congrArg List.length h
      subst hl
      refine ⟨rfl, rfl, ?_⟩
      cases m with
      | zero => exact Or.inl rfl
      | succ k =>
        right
        simp only [List.replicate_succ, List.cons.injEq, Slot.tie.injEq] at h
        exact h.1
    | cons c cs =>
      cases m with
      | zero => simp at h
      | succ k => simp [List.replicate_succ] at h
  | cons c cs ih =>
    intro e' T T' m m' h
    cases e' with
    | nil =>
      cases m' with
      | zero => simp at h
      | succ k => simp [List.replicate_succ] at h
    | cons c' cs' =>
      simp only [List.map_cons, List.cons_append, List.cons.injEq, Slot.cand.injEq] at h
      obtain ⟨h1, h2, h3⟩ := ih cs' T T' m m' h.2
      exact ⟨by rw [h.1, h1], h2, h3⟩

theorem slotsEquiv_trans {r₁ r₂ r₃ : List Slot} (h₁ : SlotsEquiv r₁ r₂) (h₂ : SlotsEquiv r₂ r₃) : SlotsEquiv r₁ r₃ := by
  obtain ⟨e₁, e₂, T₁, T₂, m, a1, a2, ae, aT⟩ := h₁
  obtain ⟨e₂', e₃, T₂', T₃, m', b1, b2, be, bT⟩ := h₂
  rw [a2] at b1
  obtain ⟨he, hm, hT⟩ := slots_decomp_unique e₂ e₂' T₂ T₂' m m' b1
  subst he hm
  rcases hT with h0 | hT
  · subst h0
    exact ⟨e₁, e₃, T₁, T₁, 0, a1, by rw [b2]; rfl, ae.trans be, List.Perm.refl _⟩
  · subst hT
    exact ⟨e₁, e₃, T₁, T₃, m, a1, b2, ae.trans be, aT.trans bT⟩

/-- **Copeland (first and second order) on a ranked profile: renaming equivariance** -/
theorem copelandRule_ren_so (σ : Cand → Cand) (hσ : Function.Injective σ) (so : Bool) (p : RProfile)
    (hb : ∀ bw ∈ p, (ballotCands bw.1).Nodup) (n : Nat) :
    SlotsEquiv (condorcetRule (Condorcet.copeland so) (renRProfile σ p) n)
      ((condorcetRule (Condorcet.copeland so) p n).map (renSlot σ)) := by
  unfold condorcetRule
  exact slotsEquiv_trans
    (copeland_perm (rankedToCondorcet_ren σ hσ true p hb) (condorcetDict_nodup true _) so n)
    (copeland_ren σ hσ so _ n)

end VL.Perm
