/-
  C10, Condorcet family (renaming): the evaluators over a pairwise dictionary commute with every injective renaming of
  the candidates.  The models compare candidate ids only for equality (dictionary lookups, `contains`, `!=`), which an
  injective map preserves, so the renamed run is the original run with every id renamed — literally (list equality),
  except where the model uses the id ORDER as a canonical order (second-order Copeland's `set`, see PermCopeland2).
-/
import VotelibProofs.Lemmas.PermCondorcet
namespace VL.Perm
open VL VL.Condorcet VL.C10

def renPair (σ : Cand → Cand) (p : Pair) : Pair := (σ p.1, σ p.2)

/-- the pairwise dictionary with every candidate renamed -/
def renPairwise (σ : Cand → Cand) (v : Pairwise) : Pairwise := v.map (fun e => ((σ e.1.1, σ e.1.2), e.2))

/-- a table candidate -> worst counter-score with every candidate renamed -/
def renTable (σ : Cand → Cand) (m : List (Cand × Option Rat)) : List (Cand × Option Rat) :=
  m.map (fun e => (σ e.1, e.2))

theorem renPairwise_eq (σ : Cand → Cand) (v : Pairwise) : renPairwise σ v = v.map (fun e => (renPair σ e.1, e.2)) := rfl

section
variable (σ : Cand → Cand) (hσ : Function.Injective σ)
include hσ

theorem renPair_inj : Function.Injective (renPair σ) := by
  rintro ⟨a, b⟩ ⟨c, d⟩ h
  simp only [renPair, Prod.mk.injEq] at h
  rw [hσ h.1, hσ h.2]

theorem renPair_eq_iff (p q : Pair) : renPair σ p = renPair σ q ↔ p = q :=
  ⟨fun h => renPair_inj σ hσ h, fun h => by rw [h]⟩

omit hσ in
theorem contains_map_inj {α : Type} [BEq α] [LawfulBEq α] (f : α → α) (hf : Function.Injective f) (l : List α) (a : α) :
    (l.map f).contains (f a) = l.contains a := by
  rw [Bool.eq_iff_iff, List.contains_iff_mem, List.contains_iff_mem, List.mem_map_of_injective hf]

theorem pget_ren (v : Pairwise) (p : Pair) : pget (renPairwise σ v) (renPair σ p) = pget v p := by
  unfold pget
  rw [renPairwise_eq, List.find?_map]
  have : ((fun e : Pair × Rat => decide (e.1 = renPair σ p)) ∘ fun e : Pair × Rat => (renPair σ e.1, e.2)) =
      (fun e : Pair × Rat => decide (e.1 = p)) := by
    funext e
    simp only [Function.comp, renPair_eq_iff σ hσ]
  rw [this]
  cases v.find? (fun e => decide (e.1 = p)) <;> rfl

theorem pget_ren' (v : Pairwise) (a b : Cand) : pget (renPairwise σ v) (σ a, σ b) = pget v (a, b) :=
  pget_ren σ hσ v (a, b)

theorem uniq_ren (l : List Cand) : uniq (l.map σ) = (uniq l).map σ := by
  induction l with
  | nil => rfl
  | cons x xs ih =>
    simp only [List.map_cons, uniq, ih, List.filter_map]
    congr 2
    apply List.filter_congr
    intro y _
    simp only [Function.comp, bne, beq_eq_decide]
    by_cases h : y = x
    · subst h; simp
    · have : σ y ≠ σ x := fun e => h (hσ e)
      simp [h, this]

omit hσ in
theorem flatCands_ren (v : Pairwise) : flatCands (renPairwise σ v) = (flatCands v).map σ := by
  unfold flatCands renPairwise
  rw [List.flatMap_map, List.map_flatMap]
  rfl

theorem candidates_ren (v : Pairwise) : candidates (renPairwise σ v) = (candidates v).map σ := by
  unfold candidates
  rw [flatCands_ren, uniq_ren σ hσ]

theorem pairwiseWins_ren (v : Pairwise) (t : Bool) :
    pairwiseWins (renPairwise σ v) t = (pairwiseWins v t).map (renPair σ) := by
  unfold pairwiseWins
  rw [renPairwise_eq, List.filter_map, List.map_map, List.map_map]
  congr 1
  apply List.filter_congr
  intro e _
  simp only [Function.comp]
  rw [← renPairwise_eq]
  have : (renPair σ e.1).2 = σ e.1.2 ∧ (renPair σ e.1).1 = σ e.1.1 := ⟨rfl, rfl⟩
  rw [this.1, this.2, pget_ren' σ hσ]

theorem incr_ren (d : Votes) (c : Cand) (k : Rat) : incr (renVotes σ d) (σ c) k = renVotes σ (incr d c k) := by
  unfold renVotes
  induction d with
  | nil => rfl
  | cons x xs ih =>
    obtain ⟨a, y⟩ := x
    simp only [List.map_cons, incr]
    by_cases h : a = c
    · subst h; simp
    · have : σ a ≠ σ c := fun e => h (hσ e)
      simp only [h, this, if_false, List.map_cons, ih]

theorem getD_ren (d : Votes) (c : Cand) (x : Rat) : getD (renVotes σ d) (σ c) x = getD d c x := by
  unfold getD
  rw [lookup_ren σ hσ]

theorem beatCounts_ren (v : Pairwise) : beatCounts (renPairwise σ v) = renVotes σ (beatCounts v) := by
  unfold beatCounts
  rw [pairwiseWins_ren σ hσ, List.foldl_map]
  exact List.foldl_hom (renVotes σ) (init := []) (fun d w => incr_ren σ hσ d w.1 1)

/-- **CondorcetWinner: renaming** -/
theorem condorcetWinner_ren (v : Pairwise) : condorcetWinner (renPairwise σ v) = (condorcetWinner v).map σ := by
  unfold condorcetWinner
  simp only
  rw [beatCounts_ren σ hσ, candidates_ren σ hσ, List.length_map]
  unfold renVotes
  rw [List.find?_map]
  have : ((fun p : Cand × Rat => decide (p.2 = ((candidates v).length : Rat) - 1)) ∘ fun p : Cand × Rat => (σ p.1, p.2)) =
      (fun p : Cand × Rat => decide (p.2 = ((candidates v).length : Rat) - 1)) := rfl
  rw [this]
  cases (beatCounts v).find? (fun p => decide (p.2 = ((candidates v).length : Rat) - 1)) <;> rfl

theorem copelandScoresRaw_ren (wins : List Pair) :
    copelandScoresRaw (wins.map (renPair σ)) = renVotes σ (copelandScoresRaw wins) := by
  unfold copelandScoresRaw
  rw [List.foldl_map]
  refine List.foldl_hom (renVotes σ) (init := []) (fun d w => ?_)
  simp only [renPair]
  rw [incr_ren σ hσ, incr_ren σ hσ]

theorem seededScores_ren (v : Pairwise) (raw : Votes) :
    seededScores (renPairwise σ v) (renVotes σ raw) = renVotes σ (seededScores v raw) := by
  unfold seededScores
  rw [candidates_ren σ hσ]
  unfold renVotes
  rw [List.map_map, List.map_map]
  apply List.map_congr_left
  intro c _
  simp only [Function.comp]
  rw [← renVotes, getD_ren σ hσ]

theorem copelandTable_ren (v : Pairwise) :
    seededScores (renPairwise σ v) (copelandScoresRaw (pairwiseWins (renPairwise σ v) false)) =
      renVotes σ (seededScores v (copelandScoresRaw (pairwiseWins v false))) := by
  rw [pairwiseWins_ren σ hσ, copelandScoresRaw_ren σ hσ, seededScores_ren σ hσ]

/-- **Copeland (first order): renaming** -/
theorem copeland_false_ren (v : Pairwise) (n : Nat) :
    copeland false (renPairwise σ v) n = (copeland false v n).map (renSlot σ) := by
  unfold copeland
  simp only [Bool.false_and, Bool.false_eq_true, if_false]
  rw [copelandTable_ren σ hσ, getNBest_rename]

/-! ### minimax -/

theorem allPairs_ren (v : Pairwise) : allPairs (renPairwise σ v) = renPairwise σ (allPairs v) := by
  unfold allPairs
  rw [candidates_ren σ hσ]
  have hL : ((candidates v).map σ).flatMap (fun u => ((candidates v).map σ).map
        (fun l => ((u, l), pget (renPairwise σ v) (u, l)))) =
      ((candidates v).flatMap (fun u => (candidates v).map (fun l => ((u, l), pget v (u, l))))).map
        (fun e => ((σ e.1.1, σ e.1.2), e.2)) := by
    rw [List.flatMap_map, List.map_flatMap]
    congr 1
    funext u
    rw [List.map_map, List.map_map]
    apply List.map_congr_left
    intro l _
    simp only [Function.comp, pget_ren' σ hσ]
  rw [hL, List.filter_map]
  unfold renPairwise
  congr 1
  apply List.filter_congr
  intro e _
  simp only [Function.comp, bne, beq_eq_decide]
  by_cases h : e.1.1 = e.1.2
  · simp [h]
  · have : σ e.1.1 ≠ σ e.1.2 := fun e' => h (hσ e')
    simp [h, this]

theorem scoreOf_ren (sc : Scorer) (a : Pairwise) (e : Pair × Rat) :
    scoreOf sc (renPairwise σ a) ((σ e.1.1, σ e.1.2), e.2) = scoreOf sc a e := by
  cases sc <;> simp only [scoreOf, pget_ren' σ hσ]

theorem scorePairs_ren (sc : Scorer) (a : Pairwise) :
    scorePairs sc (renPairwise σ a) = renPairwise σ (scorePairs sc a) := by
  rw [scorePairs_eq, scorePairs_eq]
  unfold renPairwise
  rw [List.map_map, List.map_map]
  apply List.map_congr_left
  intro e _
  simp only [Function.comp]
  rw [← renPairwise, scoreOf_ren σ hσ]

theorem oget_ren (m : List (Cand × Option Rat)) (c : Cand) : oget (renTable σ m) (σ c) = oget m c := by
  unfold renTable
  induction m with
  | nil => rfl
  | cons x xs ih =>
    obtain ⟨a, y⟩ := x
    simp only [List.map_cons, oget_cons]
    by_cases h : a = c
    · subst h; simp
    · have : σ a ≠ σ c := fun e => h (hσ e)
      simp only [h, this, if_false]
      exact ih

theorem oset_ren (m : List (Cand × Option Rat)) (c : Cand) (x : Option Rat) :
    oset (renTable σ m) (σ c) x = renTable σ (oset m c x) := by
  unfold renTable
  induction m with
  | nil => rfl
  | cons e es ih =>
    obtain ⟨a, y⟩ := e
    simp only [List.map_cons, oset]
    by_cases h : a = c
    · subst h; simp
    · have : σ a ≠ σ c := fun e => h (hσ e)
      simp only [h, this, if_false, List.map_cons, ih]

theorem maxCounterscoreOn_ren (cands : List Cand) (scored : Pairwise) :
    maxCounterscoreOn (cands.map σ) (renPairwise σ scored) = renTable σ (maxCounterscoreOn cands scored) := by
  unfold maxCounterscoreOn
  have h0 : (cands.map σ).map (fun c => (c, (none : Option Rat))) = renTable σ (cands.map (fun c => (c, none))) := by
    unfold renTable; rw [List.map_map, List.map_map]; rfl
  rw [h0]
  unfold renPairwise
  rw [List.foldl_map]
  refine List.foldl_hom (renTable σ) (fun m e => ?_)
  simp only
  rw [oget_ren σ hσ, oset_ren σ hσ]

theorem minimaxTable_ren (sc : Scorer) (v : Pairwise) :
    minimaxTable sc (renPairwise σ v) = renTable σ (minimaxTable sc v) := by
  unfold minimaxTable
  rw [candidates_ren σ hσ, allPairs_ren σ hσ, scorePairs_ren σ hσ, maxCounterscoreOn_ren σ hσ]

omit hσ in
theorem minimaxBig_ren (m : List (Cand × Option Rat)) : minimaxBig (renTable σ m) = minimaxBig m := by
  unfold minimaxBig renTable
  rw [List.foldl_map]

/-- **minimax (every scorer): renaming** -/
theorem minimax_ren (sc : Scorer) (v : Pairwise) (n : Nat) :
    minimax sc (renPairwise σ v) n = (minimax sc v n).map (renSlot σ) := by
  rw [Condorcet.minimax_eq, Condorcet.minimax_eq, minimaxTable_ren σ hσ, minimaxBig_ren, ← getNBest_rename]
  congr 1
  unfold renTable renVotes
  rw [List.map_map, List.map_map]
  rfl

/-! ### Smith and Schwartz sets -/

theorem reach0_ren (cands : List Cand) (wins : List Pair) (ties : Bool) :
    reach0 (cands.map σ) (wins.map (renPair σ)) ties = (reach0 cands wins ties).map (renPair σ) := by
  unfold reach0
  have hL : (cands.map σ).flatMap (fun u => (cands.map σ).map (fun l => (u, l))) =
      (cands.flatMap (fun u => cands.map (fun l => (u, l)))).map (renPair σ) := by
    rw [List.flatMap_map, List.map_flatMap]
    congr 1
    funext u
    rw [List.map_map, List.map_map]
    rfl
  rw [hL, List.filter_map]
  congr 1
  apply List.filter_congr
  intro p _
  simp only [Function.comp]
  have h1 : (wins.map (renPair σ)).contains (renPair σ p) = wins.contains p :=
    contains_map_inj (renPair σ) (renPair_inj σ hσ) wins p
  have h2 : (wins.map (renPair σ)).contains ((renPair σ p).2, (renPair σ p).1) = wins.contains (p.2, p.1) :=
    contains_map_inj (renPair σ) (renPair_inj σ hσ) wins (p.2, p.1)
  rw [h1, h2]
  congr 1
  simp only [renPair, bne, beq_eq_decide]
  by_cases h : p.1 = p.2
  · simp [h]
  · have : σ p.1 ≠ σ p.2 := fun e' => h (hσ e')
    simp [h, this]

theorem closeLower_ren (mid upper : Cand) (r : List Pair) (cands : List Cand) :
    closeLower (σ mid) (σ upper) (r.map (renPair σ)) (cands.map σ) =
      (closeLower mid upper r cands).map (renPair σ) := by
  unfold closeLower
  rw [List.foldl_map]
  refine List.foldl_hom (List.map (renPair σ)) (fun r lower => ?_)
  have h1 : (r.map (renPair σ)).contains (σ mid, σ lower) = r.contains (mid, lower) :=
    contains_map_inj (renPair σ) (renPair_inj σ hσ) r (mid, lower)
  have h2 : (σ upper != σ lower) = (upper != lower) := by
    simp only [bne, beq_eq_decide]
    by_cases h : upper = lower
    · simp [h]
    · have : σ upper ≠ σ lower := fun e' => h (hσ e')
      simp [h, this]
  rw [h1, h2]
  split <;> rfl

theorem closeUpper_ren (mid : Cand) (cands : List Cand) (r : List Pair) :
    closeUpper (σ mid) (cands.map σ) (r.map (renPair σ)) = (closeUpper mid cands r).map (renPair σ) := by
  unfold closeUpper
  rw [List.foldl_map]
  refine List.foldl_hom (List.map (renPair σ)) (fun r upper => ?_)
  have h1 : (r.map (renPair σ)).contains (σ upper, σ mid) = r.contains (upper, mid) :=
    contains_map_inj (renPair σ) (renPair_inj σ hσ) r (upper, mid)
  rw [h1, closeLower_ren σ hσ]
  split <;> rfl

theorem closure_ren (cands : List Cand) (r : List Pair) :
    closure (cands.map σ) (r.map (renPair σ)) = (closure cands r).map (renPair σ) := by
  unfold closure
  rw [List.foldl_map]
  exact List.foldl_hom (List.map (renPair σ)) (fun r mid => closeUpper_ren σ hσ mid cands r)

/-- **`_smith_schwartz_set`: renaming** -/
theorem smithSchwartz_ren (v : Pairwise) (ties : Bool) :
    smithSchwartz (renPairwise σ v) ties = (smithSchwartz v ties).map σ := by
  unfold smithSchwartz
  simp only
  rw [candidates_ren σ hσ, pairwiseWins_ren σ hσ, copelandScoresRaw_ren σ hσ, ← candidates_ren σ hσ,
    seededScores_ren σ hσ, candidates_ren σ hσ, sortDesc_ren, reach0_ren σ hσ, closure_ren σ hσ]
  have hord : (renVotes σ (sortDesc (seededScores v (copelandScoresRaw (pairwiseWins v false))))).map (·.1) =
      ((sortDesc (seededScores v (copelandScoresRaw (pairwiseWins v false)))).map (·.1)).map σ := by
    unfold renVotes; rw [List.map_map, List.map_map]; rfl
  rw [hord]
  have hc : ∀ (R : List Pair) (a b : Cand), (R.map (renPair σ)).contains (σ a, σ b) = R.contains (a, b) :=
    fun R a b => contains_map_inj (renPair σ) (renPair_inj σ hσ) R (a, b)
  have hbeq : ∀ a b : Cand, (σ a == σ b) = (a == b) := by
    intro a b
    simp only [beq_eq_decide]
    by_cases h : a = b
    · simp [h]
    · have : σ a ≠ σ b := fun e' => h (hσ e')
      simp [h, this]
  split
  · rw [List.filter_map]
    congr 1
    apply List.filter_congr
    intro c _
    simp only [Function.comp, List.all_map]
    congr 1
    funext o
    simp only [Function.comp_apply, hc, hbeq]
  · rw [List.filter_map]
    congr 1
    apply List.filter_congr
    intro c _
    simp only [Function.comp, List.all_map]
    congr 1
    funext o
    simp only [Function.comp_apply, hc]

/-- **SmithSet: renaming** -/
theorem smithSet_ren (v : Pairwise) : smithSet (renPairwise σ v) = (smithSet v).map σ := smithSchwartz_ren σ hσ v true

/-- **SchwartzSet: renaming** -/
theorem schwartzSet_ren (v : Pairwise) : schwartzSet (renPairwise σ v) = (schwartzSet v).map σ :=
  smithSchwartz_ren σ hσ v false

/-! ### Schulze -/

theorem bne_ren (a b : Cand) : (σ a != σ b) = (a != b) := by
  simp only [bne, beq_eq_decide]
  by_cases h : a = b
  · simp [h]
  · have : σ a ≠ σ b := fun e' => h (hσ e')
    simp [h, this]

theorem pset_ren (m : Pairwise) (a b : Cand) (x : Rat) :
    pset (renPairwise σ m) (σ a, σ b) x = renPairwise σ (pset m (a, b) x) := by
  unfold renPairwise
  induction m with
  | nil => rfl
  | cons e es ih =>
    obtain ⟨⟨c, d⟩, y⟩ := e
    simp only [List.map_cons, pset]
    by_cases h : (c, d) = (a, b)
    · have h' : (σ c, σ d) = (σ a, σ b) := by
        simp only [Prod.mk.injEq] at h ⊢; rw [h.1, h.2]; exact ⟨rfl, rfl⟩
      rw [if_pos h, if_pos h']; rfl
    · have h' : ¬ (σ c, σ d) = (σ a, σ b) := by
        intro e'
        simp only [Prod.mk.injEq] at e' h
        exact h ⟨hσ e'.1, hσ e'.2⟩
      rw [if_neg h, if_neg h', List.map_cons, ih]

theorem wpStep_ren (c1 c2 : Cand) (p : Pairwise) (ca : Cand) :
    wpStep (σ c1) (σ c2) (renPairwise σ p) (σ ca) = renPairwise σ (wpStep c1 c2 p ca) := by
  unfold wpStep
  rw [bne_ren σ hσ, bne_ren σ hσ, pget_ren' σ hσ, pget_ren' σ hσ, pget_ren' σ hσ, pset_ren σ hσ]
  split <;> rfl

theorem widestPaths_ren (v : Pairwise) : widestPaths (renPairwise σ v) = renPairwise σ (widestPaths v) := by
  rw [widestPaths_eq, widestPaths_eq, candidates_ren σ hσ]
  have h0 : (renPairwise σ v).filter (fun e => decide (pget (renPairwise σ v) (e.1.2, e.1.1) < e.2)) =
      renPairwise σ (v.filter (fun e => decide (pget v (e.1.2, e.1.1) < e.2))) := by
    conv_lhs => rw [renPairwise, List.filter_map, ← renPairwise]
    unfold renPairwise
    congr 1
    apply List.filter_congr
    intro e _
    simp only [Function.comp]
    rw [← renPairwise, pget_ren' σ hσ]
  rw [h0, List.foldl_map]
  refine List.foldl_hom (renPairwise σ) (fun p1 c1 => ?_)
  rw [List.foldl_map]
  refine List.foldl_hom (renPairwise σ) (fun p2 c2 => ?_)
  rw [bne_ren σ hσ]
  split
  · rw [List.foldl_map]
    exact List.foldl_hom (renPairwise σ) (fun p3 ca => wpStep_ren σ hσ c1 c2 p3 ca)
  · rfl

/-- **Schulze: renaming** -/
theorem schulze_ren (v : Pairwise) (n : Nat) : schulze (renPairwise σ v) n = (schulze v n).map (renSlot σ) := by
  unfold schulze
  simp only
  rw [widestPaths_ren σ hσ, pairwiseWins_ren σ hσ, candidates_ren σ hσ, ← getNBest_rename]
  congr 1
  have h0 : ((candidates v).map σ).map (fun c => (c, (0 : Rat))) = renVotes σ ((candidates v).map (fun c => (c, 0))) := by
    unfold renVotes; rw [List.map_map, List.map_map]; rfl
  rw [h0, List.foldl_map]
  refine List.foldl_hom (renVotes σ) (fun d w => ?_)
  simp only [renPair]
  rw [incr_ren σ hσ, incr_ren σ hσ]

end

example : Function.Injective (fun c : Cand => c + 5) := fun _ _ h => Nat.add_right_cancel h

example : smithSet (renPairwise (fun c => c + 5)
    [((0, 1), (3 : Rat)), ((1, 0), 2), ((1, 2), 4), ((2, 1), 1), ((0, 2), 5), ((2, 0), 0)]) = [5] := by
  decide +kernel

end VL.Perm
