/-
  C13 helper lemmas: RankedToCondorcetVotes — which ordered pairs one ballot counts.
-/
import VotelibProofs.Lemmas.ConvertImages
import Mathlib.Data.List.Nodup
namespace VL.Convert
open VL

/-- `x` stands at a strictly earlier place of the ballot than `y` -/
def Above : Ballot → Cand → Cand → Prop
  | [], _, _ => False
  | it :: rest, x, y => (x ∈ it.cands ∧ y ∈ ballotCands rest) ∨ Above rest x y

theorem ballotCands_cons (it : RankItem) (rest : Ballot) : ballotCands (it :: rest) = it.cands ++ ballotCands rest := by
  simp [ballotCands]

theorem condorcetPairs_cons (un : List Cand) (it : RankItem) (rest : Ballot) :
    condorcetPairs un (it :: rest)
      = it.cands.flatMap (fun u => (ballotCands rest ++ un).map (fun l => (u, l))) ++ condorcetPairs un rest := by
  simp [condorcetPairs, List.map_append]

theorem mem_condorcetPairs_cons (un : List Cand) (it : RankItem) (rest : Ballot) (x y : Cand) :
    (x, y) ∈ condorcetPairs un (it :: rest)
      ↔ (x ∈ it.cands ∧ (y ∈ ballotCands rest ∨ y ∈ un)) ∨ (x, y) ∈ condorcetPairs un rest := by
  rw [condorcetPairs_cons, List.mem_append, List.mem_flatMap]
  constructor
  · rintro (⟨u, hu, hm⟩ | h)
    · simp only [List.mem_map, Prod.mk.injEq, List.mem_append] at hm
      obtain ⟨l, hl, rfl, rfl⟩ := hm
      exact Or.inl ⟨hu, hl⟩
    · exact Or.inr h
  · rintro (⟨hx, hy⟩ | h)
    · refine Or.inl ⟨x, hx, ?_⟩
      rw [List.mem_map]
      exact ⟨y, List.mem_append.2 hy, rfl⟩
    · exact Or.inr h

/-- the pairs a ballot counts: `x` above `y`, or `x` ranked and `y` among the unranked -/
theorem mem_condorcetPairs (un : List Cand) (b : Ballot) (x y : Cand) :
    (x, y) ∈ condorcetPairs un b ↔ Above b x y ∨ (x ∈ ballotCands b ∧ y ∈ un) := by
  induction b with
  | nil => simp [condorcetPairs, Above, ballotCands]
  | cons it rest ih =>
    rw [mem_condorcetPairs_cons, ih, ballotCands_cons, List.mem_append]
    simp only [Above]
    tauto

theorem above_fst {b : Ballot} {x y : Cand} (h : Above b x y) : x ∈ ballotCands b := by
  induction b with
  | nil => exact h.elim
  | cons it rest ih =>
    rw [ballotCands_cons, List.mem_append]
    rcases h with ⟨hx, _⟩ | h
    · exact Or.inl hx
    · exact Or.inr (ih h)

theorem above_snd {b : Ballot} {x y : Cand} (h : Above b x y) : y ∈ ballotCands b := by
  induction b with
  | nil => exact h.elim
  | cons it rest ih =>
    rw [ballotCands_cons, List.mem_append]
    rcases h with ⟨_, hy⟩ | h
    · exact Or.inr hy
    · exact Or.inr (ih h)

/-- `Above` in terms of places: x stands at place i, y at place j, and i < j -/
theorem above_iff_index (b : Ballot) (x y : Cand) :
    Above b x y ↔ ∃ (i j : Nat), i < j ∧ ∃ (it it' : RankItem),
      b[i]? = some it ∧ b[j]? = some it' ∧ x ∈ it.cands ∧ y ∈ it'.cands := by
  induction b with
  | nil => simp [Above]
  | cons it rest ih =>
    simp only [Above, ih]
    constructor
    · rintro (⟨hx, hy⟩ | ⟨i, j, hij, it1, it2, h1, h2, hx, hy⟩)
      · simp only [ballotCands, List.mem_flatMap] at hy
        obtain ⟨it', hit', hy⟩ := hy
        obtain ⟨j, hj⟩ := List.getElem?_of_mem hit'
        exact ⟨0, j + 1, by omega, it, it', by simp, by simpa using hj, hx, hy⟩
      · exact ⟨i + 1, j + 1, by omega, it1, it2, by simpa using h1, by simpa using h2, hx, hy⟩
    · rintro ⟨i, j, hij, it1, it2, h1, h2, hx, hy⟩
      cases j with
      | zero => omega
      | succ j' =>
        simp only [List.getElem?_cons_succ] at h2
        cases i with
        | zero =>
          simp only [List.getElem?_cons_zero, Option.some.injEq] at h1
          subst h1
          left
          refine ⟨hx, ?_⟩
          simp only [ballotCands, List.mem_flatMap]
          exact ⟨it2, List.mem_of_getElem? h2, hy⟩
        | succ i' =>
          simp only [List.getElem?_cons_succ] at h1
          right
          exact ⟨i', j', by omega, it1, it2, h1, h2, hx, hy⟩

/-- on a duplicate-free ballot "above" is asymmetric (in particular irreflexive) -/
theorem above_asymm {b : Ballot} (hb : (ballotCands b).Nodup) {x y : Cand} (h : Above b x y) : ¬ Above b y x := by
  induction b with
  | nil => exact h.elim
  | cons it rest ih =>
    rw [ballotCands_cons, List.nodup_append] at hb
    obtain ⟨_, hr, hd⟩ := hb
    intro h'
    rcases h with ⟨hx, hy⟩ | h <;> rcases h' with ⟨hy', hx'⟩ | h'
    · exact hd x hx x hx' rfl
    · exact hd x hx x (above_snd h') rfl
    · exact hd y hy' y (above_snd h) rfl
    · exact ih hr h h'

theorem nodup_condorcetPairs (un : List Cand) (b : Ballot) (h : (ballotCands b ++ un).Nodup) :
    (condorcetPairs un b).Nodup := by
  induction b with
  | nil => simp [condorcetPairs]
  | cons it rest ih =>
    rw [ballotCands_cons, List.append_assoc, List.nodup_append] at h
    obtain ⟨h1, h2, h3⟩ := h
    rw [condorcetPairs_cons, List.nodup_append]
    refine ⟨?_, ih h2, ?_⟩
    · rw [List.nodup_flatMap]
      constructor
      · intro u _
        exact h2.map (fun a b e => by cases e; rfl)
      · apply h1.imp
        intro a b hab l hl1 hl2
        simp only [List.mem_map] at hl1 hl2
        obtain ⟨_, _, rfl⟩ := hl1
        obtain ⟨_, _, e⟩ := hl2
        cases e; exact hab rfl
    · intro pr hpr1 pr' hpr2 e
      subst e
      obtain ⟨x, y⟩ := pr
      rw [List.mem_flatMap] at hpr1
      obtain ⟨u, hu, hm⟩ := hpr1
      rw [List.mem_map] at hm
      obtain ⟨y', _, e⟩ := hm
      have hxu : x = u := ((Prod.mk.inj e).1).symm
      rw [hxu] at hpr2
      have hx : u ∈ ballotCands rest := by
        rcases (mem_condorcetPairs un rest u y).1 hpr2 with h | ⟨h, _⟩
        · exact above_fst h
        · exact h
      exact h3 u hu u (List.mem_append_left _ hx) rfl

/-- what the converter counts for one ballot (with its own unranked candidates) -/
def condPairs (atBottom : Bool) (U : List Cand) (b : Ballot) : List (Cand × Cand) :=
  condorcetPairs (unrankedOf U atBottom b) b

theorem mem_unrankedOf (U : List Cand) (atBottom : Bool) (b : Ballot) (y : Cand) :
    y ∈ unrankedOf U atBottom b ↔ atBottom = true ∧ y ∈ U ∧ y ∉ ballotCands b := by
  unfold unrankedOf
  cases atBottom <;> simp

theorem nodup_condPairs (atBottom : Bool) {U : List Cand} (hU : U.Nodup) {b : Ballot} (hb : (ballotCands b).Nodup) :
    (condPairs atBottom U b).Nodup := by
  apply nodup_condorcetPairs
  rw [List.nodup_append]
  refine ⟨hb, ?_, ?_⟩
  · unfold unrankedOf; cases atBottom
    · simp
    · exact hU.filter _
  · intro x hx y hy e
    subst e
    exact ((mem_unrankedOf U atBottom b x).1 hy).2.2 hx

/-- **single-ballot image**: the ballot counts the ordered pair (x, y) iff it ranks x above y, or — with
    `unranked_at_bottom` — it ranks x and does not rank y (a candidate of the universe) -/
theorem mem_condPairs (atBottom : Bool) (U : List Cand) (b : Ballot) (x y : Cand) :
    (x, y) ∈ condPairs atBottom U b
      ↔ Above b x y ∨ (atBottom = true ∧ x ∈ ballotCands b ∧ y ∈ U ∧ y ∉ ballotCands b) := by
  unfold condPairs
  rw [mem_condorcetPairs, mem_unrankedOf]
  tauto

theorem condPairs_asymm (atBottom : Bool) (U : List Cand) {b : Ballot} (hb : (ballotCands b).Nodup) {x y : Cand}
    (h : (x, y) ∈ condPairs atBottom U b) : (y, x) ∉ condPairs atBottom U b := by
  rw [mem_condPairs] at h ⊢
  rintro (h' | ⟨_, hy, _, hx⟩)
  · rcases h with h | ⟨_, hx, _, hy⟩
    · exact above_asymm hb h h'
    · exact hy (above_fst h')
  · rcases h with h | ⟨_, hx', _, _⟩
    · exact hx (above_fst h)
    · exact hx hx'

/-- on a duplicate-free ballot the two opposite counts of a pair sum to at most one -/
theorem cnt_condPairs_le_one (atBottom : Bool) {U : List Cand} (hU : U.Nodup) {b : Ballot}
    (hb : (ballotCands b).Nodup) (x y : Cand) :
    cnt (condPairs atBottom U b) (x, y) + cnt (condPairs atBottom U b) (y, x) ≤ 1 := by
  have hn := nodup_condPairs atBottom hU hb
  by_cases h : (x, y) ∈ condPairs atBottom U b
  · rw [cnt_eq_zero (condPairs_asymm atBottom U hb h)]
    have := cnt_le_one hn (x, y)
    linarith
  · rw [cnt_eq_zero h]
    have := cnt_le_one hn (y, x)
    linarith

/-- exact count for a duplicate-free ballot -/
theorem cnt_condPairs (atBottom : Bool) {U : List Cand} (hU : U.Nodup) {b : Ballot}
    (hb : (ballotCands b).Nodup) (x y : Cand) :
    cnt (condPairs atBottom U b) (x, y) = if (x, y) ∈ condPairs atBottom U b then 1 else 0 := by
  rw [cnt_of_nodup (nodup_condPairs atBottom hU hb)]
  by_cases h : (x, y) ∈ condPairs atBottom U b
  · rw [if_pos h, if_pos h]
  · rw [if_neg h, if_neg h]

theorem condorcetU_sum (atBottom : Bool) (U : List Cand) :
    SumOfImages (condorcetU atBottom U) (fun b k => cnt (condPairs atBottom U b) k) := by
  intro p k
  unfold condorcetU
  rw [toFun_foldl_step _ (fun b k => cnt (condPairs atBottom U b) k)]
  · simp
  · intro acc bw k
    rw [toFun_foldl_addTo_const]
    rfl

theorem condorcetU_nodup (atBottom : Bool) (U : List Cand) (p : RProfile) :
    (dkeys (condorcetU atBottom U p)).Nodup := by
  unfold condorcetU
  apply nodup_foldl_step
  · intro acc bw h; exact nodup_foldl_addTo_const _ _ h
  · simp [dkeys]

end VL.Convert
