/-
  C10 — candidate-name independence of the transferable vote (Gregory engine), part 1:
  renaming of ballots, piles, allocations and seats dicts by an injective map of the candidates, and the
  commutation of the data-level operations (dict updates, `all_ranked_candidates`, `ranked_next`, the Gregory
  transfer / subtraction, the initial allocation) with the renaming.
-/
import VotelibProofs.Lemmas.PermSTV6
namespace VL.Perm.Stv
open VL VL.STV VL.C10

/-! ### generic: mapping keys (injectively) and values of a dict -/

section MapKV
variable {κ κ' α α' : Type} [DecidableEq κ] [DecidableEq κ']

def mapKV (φ : κ → κ') (ψ : α → α') (l : List (κ × α)) : List (κ' × α') := l.map (fun p => (φ p.1, ψ p.2))

omit [DecidableEq κ] [DecidableEq κ'] in
theorem mapKV_nil (φ : κ → κ') (ψ : α → α') : mapKV φ ψ [] = [] := rfl

omit [DecidableEq κ] [DecidableEq κ'] in
theorem mapKV_cons (φ : κ → κ') (ψ : α → α') (p : κ × α) (l : List (κ × α)) :
    mapKV φ ψ (p :: l) = (φ p.1, ψ p.2) :: mapKV φ ψ l := rfl

theorem getO_mapKV {φ : κ → κ'} (hφ : Function.Injective φ) (ψ : α → α') (l : List (κ × α)) (k : κ) :
    getO (mapKV φ ψ l) (φ k) = (getO l k).map ψ := by
  induction l with
  | nil => rfl
  | cons p ps ih =>
    rw [mapKV_cons, getO_cons, getO_cons, ih]
    by_cases h : p.1 = k
    · simp [h]
    · have : ¬ φ p.1 = φ k := fun e => h (hφ e)
      simp [h, this]

theorem upd_mapKV {φ : κ → κ'} (hφ : Function.Injective φ) {ψ : α → α'} {f : α → α} {f' : α' → α'} {d : α} {d' : α'}
    (hf : ∀ v, ψ (f v) = f' (ψ v)) (hd : ψ d = d') (l : List (κ × α)) (k : κ) :
    upd (mapKV φ ψ l) (φ k) f' d' = mapKV φ ψ (upd l k f d) := by
  induction l with
  | nil => simp only [mapKV_nil, upd, mapKV_cons, hf, hd]
  | cons p ps ih =>
    obtain ⟨k₀, v⟩ := p
    simp only [mapKV_cons, upd]
    by_cases h : k₀ = k
    · simp only [h, if_true, mapKV_cons, hf]
    · have : ¬ φ k₀ = φ k := fun e => h (hφ e)
      simp only [h, this, if_false, mapKV_cons, ih]

theorem modIf_mapKV {φ : κ → κ'} (hφ : Function.Injective φ) {ψ : α → α'} {f : α → α} {f' : α' → α'}
    (hf : ∀ v, ψ (f v) = f' (ψ v)) (l : List (κ × α)) (k : κ) :
    modIf (mapKV φ ψ l) (φ k) f' = mapKV φ ψ (modIf l k f) := by
  induction l with
  | nil => rfl
  | cons p ps ih =>
    obtain ⟨k₀, v⟩ := p
    simp only [mapKV_cons, modIf]
    by_cases h : k₀ = k
    · simp only [h, if_true, mapKV_cons, hf]
    · have : ¬ φ k₀ = φ k := fun e => h (hφ e)
      simp only [h, this, if_false, mapKV_cons, ih]

omit [DecidableEq κ] [DecidableEq κ'] in
theorem filter_mapKV (φ : κ → κ') (ψ : α → α') {q : κ → Bool} {q' : κ' → Bool} (hq : ∀ k, q' (φ k) = q k)
    (l : List (κ × α)) :
    (mapKV φ ψ l).filter (fun p => q' p.1) = mapKV φ ψ (l.filter (fun p => q p.1)) := by
  unfold mapKV
  rw [List.filter_map]
  congr 1
  apply List.filter_congr
  intro x _
  exact hq x.1

end MapKV

/-! ### renaming the data -/

def renItem (σ : Cand → Cand) : RankItem → RankItem
  | .one c => .one (σ c)
  | .shared cs => .shared (cs.map σ)

def renBallot (σ : Cand → Cand) (b : Ballot) : Ballot := b.map (renItem σ)

/-- a pile or a profile with every ballot renamed -/
def renPile (σ : Cand → Cand) (p : Pile) : Pile := mapKV (renBallot σ) id p

def renAlloc (σ : Cand → Cand) (a : Alloc) : Alloc := mapKV (Option.map σ) (renPile σ) a

/-- a seats dict with every key renamed -/
def renSeats (σ : Cand → Cand) (s : Seats) : Seats := mapKV σ id s

variable {σ : Cand → Cand}

theorem renItem_injective (hσ : Function.Injective σ) : Function.Injective (renItem σ) := by
  intro x y h
  cases x <;> cases y <;> simp only [renItem, RankItem.one.injEq, RankItem.shared.injEq, reduceCtorEq] at h
  · rw [hσ h]
  · rw [List.map_injective_iff.mpr hσ h]

theorem renBallot_injective (hσ : Function.Injective σ) : Function.Injective (renBallot σ) :=
  List.map_injective_iff.mpr (renItem_injective hσ)

theorem optMap_injective (hσ : Function.Injective σ) : Function.Injective (Option.map σ) :=
  Option.map_injective hσ

theorem itemCands_ren (σ : Cand → Cand) (it : RankItem) : itemCands (renItem σ it) = (itemCands it).map σ := by
  cases it <;> rfl

theorem pileTotal_ren (σ : Cand → Cand) (p : Pile) : pileTotal (renPile σ p) = pileTotal p := by
  unfold pileTotal renPile mapKV
  rw [List.map_map]; rfl

/-! ### dict operations -/

theorem pileAdd_ren (hσ : Function.Injective σ) (p : Pile) (b : Ballot) (w : Rat) :
    pileAdd (renPile σ p) (renBallot σ b) w = renPile σ (pileAdd p b w) := by
  rw [pileAdd_eq_upd, pileAdd_eq_upd]
  exact upd_mapKV (ψ := id) (f := fun v => v + w) (f' := fun v => v + w) (d := 0) (d' := 0)
    (renBallot_injective hσ) (fun _ => rfl) rfl p b

theorem allocAdd_ren (hσ : Function.Injective σ) (a : Alloc) (h : Option Cand) (b : Ballot) (w : Rat) :
    allocAdd (renAlloc σ a) (h.map σ) (renBallot σ b) w = renAlloc σ (allocAdd a h b w) := by
  rw [allocAdd_eq_upd, allocAdd_eq_upd]
  exact upd_mapKV (ψ := renPile σ) (f := fun p => pileAdd p b w) (f' := fun p => pileAdd p (renBallot σ b) w)
    (d := []) (d' := []) (optMap_injective hσ) (fun v => (pileAdd_ren hσ v b w).symm) rfl a h

theorem seatsAdd1_ren (hσ : Function.Injective σ) (s : Seats) (c : Cand) (k : Nat) :
    seatsAdd1 (renSeats σ s) (σ c) k = renSeats σ (seatsAdd1 s c k) := by
  rw [seatsAdd1_eq_upd, seatsAdd1_eq_upd]
  exact upd_mapKV (ψ := id) (f := fun v => v + k) (f' := fun v => v + k) (d := 0) (d' := 0) hσ (fun _ => rfl) rfl s c

theorem seatsAdd_ren (hσ : Function.Injective σ) (s add : Seats) :
    seatsAdd (renSeats σ s) (renSeats σ add) = renSeats σ (seatsAdd s add) := by
  unfold seatsAdd
  induction add generalizing s with
  | nil => rfl
  | cons x xs ih =>
    have : renSeats σ (x :: xs) = (σ x.1, x.2) :: renSeats σ xs := rfl
    rw [this, List.foldl_cons, List.foldl_cons, seatsAdd1_ren hσ, ih]

theorem allocPile_ren (hσ : Function.Injective σ) (a : Alloc) (h : Option Cand) :
    allocPile (renAlloc σ a) (h.map σ) = renPile σ (allocPile a h) := by
  rw [allocPile_eq, allocPile_eq]
  unfold renAlloc
  rw [getO_mapKV (optMap_injective hσ)]
  cases getO a h <;> rfl

theorem allocErase_ren (hσ : Function.Injective σ) (a : Alloc) (h : Option Cand) :
    allocErase (renAlloc σ a) (h.map σ) = renAlloc σ (allocErase a h) := by
  rw [allocErase_eq, allocErase_eq]
  unfold renAlloc
  refine filter_mapKV (Option.map σ) (renPile σ) (q := fun k => decide (k ≠ h))
    (q' := fun k => decide (k ≠ Option.map σ h)) (fun k => ?_) a
  have : (Option.map σ k = Option.map σ h) ↔ k = h := ⟨fun e => optMap_injective hσ e, fun e => by rw [e]⟩
  simp only [ne_eq, this]

theorem seatsGet_ren (hσ : Function.Injective σ) (s : Seats) (c : Cand) : seatsGet (renSeats σ s) (σ c) = seatsGet s c := by
  rw [seatsGet_eq, seatsGet_eq]
  unfold renSeats
  rw [getO_mapKV hσ]
  cases getO s c <;> rfl

theorem maxGet_ren (hσ : Function.Injective σ) (s : Seats) (c : Cand) : maxGet (renSeats σ s) (σ c) = maxGet s c := by
  rw [maxGet_eq, maxGet_eq]
  unfold renSeats
  rw [getO_mapKV hσ]
  cases getO s c <;> rfl

theorem sumSeats_ren (σ : Cand → Cand) (s : Seats) : sumSeats (renSeats σ s) = sumSeats s := by
  unfold sumSeats renSeats mapKV
  rw [List.map_map]; rfl

theorem continuing_ren (σ : Cand → Cand) (a : Alloc) : continuing (renAlloc σ a) = (continuing a).map σ := by
  unfold continuing renAlloc mapKV
  rw [List.filterMap_map, List.map_filterMap]
  congr 1

theorem totalsInPlay_ren (σ : Cand → Cand) (a : Alloc) : totalsInPlay (renAlloc σ a) = renVotes σ (totalsInPlay a) := by
  unfold totalsInPlay renAlloc mapKV renVotes
  rw [List.filterMap_map, List.map_filterMap]
  congr 1
  funext hp
  obtain ⟨h, p⟩ := hp
  cases h with
  | none => rfl
  | some c => simp [pileTotal_ren]

theorem allocKeys_ren (σ : Cand → Cand) (a : Alloc) : allocKeys (renAlloc σ a) = (allocKeys a).map (Option.map σ) := by
  unfold allocKeys renAlloc mapKV
  rw [List.map_map, List.map_map]; rfl

/-! ### `all_ranked_candidates` -/

theorem dedupFirst_ren (hσ : Function.Injective σ) (l : List Cand) : dedupFirst (l.map σ) = (dedupFirst l).map σ := by
  unfold dedupFirst
  have : ∀ out : List Cand, (l.map σ).foldl (fun out c => if c ∈ out then out else out ++ [c]) (out.map σ) =
      (l.foldl (fun out c => if c ∈ out then out else out ++ [c]) out).map σ := by
    induction l with
    | nil => intro out; rfl
    | cons x xs ih =>
      intro out
      simp only [List.map_cons, List.foldl_cons]
      have hm : σ x ∈ out.map σ ↔ x ∈ out := List.mem_map_of_injective hσ
      by_cases hx : x ∈ out
      · rw [if_pos (hm.mpr hx), if_pos hx, ih]
      · rw [if_neg (fun e => hx (hm.mp e)), if_neg hx]
        have : out.map σ ++ [σ x] = (out ++ [x]).map σ := by simp
        rw [this, ih]
  exact this []

theorem maxRanks_ren (σ : Cand → Cand) (v : Profile) : maxRanks (renPile σ v) = maxRanks v := by
  unfold maxRanks renPile mapKV
  rw [List.foldl_map]
  congr 1
  funext m p
  simp [renBallot]

theorem rankRow_ren (σ : Cand → Cand) (v : Profile) (i : Nat) : rankRow (renPile σ v) i = (rankRow v i).map σ := by
  unfold rankRow renPile mapKV
  rw [List.flatMap_map, List.map_flatMap]
  congr 1
  funext p
  simp only [renBallot, List.getElem?_map]
  cases p.1[i]? with
  | none => rfl
  | some it => exact itemCands_ren σ it

theorem allRanked_ren (hσ : Function.Injective σ) (v : Profile) : allRanked (renPile σ v) = (allRanked v).map σ := by
  unfold allRanked
  rw [maxRanks_ren, ← dedupFirst_ren hσ, List.map_flatMap]
  congr 1
  apply List.flatMap_congr
  intro i _
  exact rankRow_ren σ v i

/-! ### `ranked_next` -/

theorem rankedNextGo_ren (hσ : Function.Injective σ) (frm : Option Cand) (allowed : List Cand) (take : Bool) (b : Ballot) :
    rankedNextGo (frm.map σ) (allowed.map σ) take (renBallot σ b) = (rankedNextGo frm allowed take b).map σ := by
  have hmem : ∀ (c : Cand) (l : List Cand), σ c ∈ l.map σ ↔ c ∈ l := fun c l => List.mem_map_of_injective hσ
  induction b generalizing take with
  | nil => rfl
  | cons it rest ih =>
    cases it with
    | one c =>
      have hb : renBallot σ (.one c :: rest) = .one (σ c) :: renBallot σ rest := rfl
      rw [hb]
      simp only [rankedNextGo, ih, hmem]
      have hfrm : (Option.map σ frm = some (σ c)) ↔ frm = some c := by
        cases frm with
        | none => simp
        | some f => simp [hσ.eq_iff]
      simp only [hfrm]
      split
      · split <;> simp
      · split <;> rfl
    | shared cs =>
      have hb : renBallot σ (.shared cs :: rest) = .shared (cs.map σ) :: renBallot σ rest := rfl
      rw [hb]
      have hfil : (cs.map σ).filter (fun c => decide (c ∈ allowed.map σ)) =
          (cs.filter (fun c => decide (c ∈ allowed))).map σ := by
        rw [List.filter_map]
        congr 1
        apply List.filter_congr
        intro x _
        simp only [Function.comp, hmem]
      simp only [rankedNextGo, ih, hfil]
      cases frm with
      | none => simp only [Option.map_none, apply_ite (List.map σ), ne_eq, List.map_eq_nil_iff]
      | some f => simp only [Option.map_some, hmem, apply_ite (List.map σ), ne_eq, List.map_eq_nil_iff]

theorem rankedNext_ren (hσ : Function.Injective σ) (b : Ballot) (frm : Option Cand) (allowed : List Cand) :
    rankedNext (renBallot σ b) (frm.map σ) (allowed.map σ) = (rankedNext b frm allowed).map σ := by
  unfold rankedNext
  rw [show (Option.map σ frm).isNone = frm.isNone by cases frm <;> rfl]
  exact rankedNextGo_ren hσ frm allowed _ b

/-! ### the Gregory transfer -/

def renReq (σ : Cand → Cand) (x : Option Cand × Ballot × Rat) : Option Cand × Ballot × Rat :=
  (x.1.map σ, renBallot σ x.2.1, x.2.2)

theorem dlv_ren (hσ : Function.Injective σ) (cont : List Cand) (frm : Option Cand) (bw : Ballot × Rat) :
    dlv (cont.map σ) (frm.map σ) (renBallot σ bw.1, bw.2) = (dlv cont frm bw).map (renReq σ) := by
  unfold dlv
  simp only
  rw [rankedNext_ren hσ]
  rcases rankedNext bw.1 frm cont with _ | ⟨t, _ | ⟨t', ts⟩⟩
  · rfl
  · rfl
  · simp only [List.map_cons, gregorySplit, List.map_map, List.length_cons, List.length_map, renReq,
      Option.map_some, List.cons.injEq, true_and]
    exact List.map_congr_left (fun x _ => rfl)

theorem addAll_ren (hσ : Function.Injective σ) (a : Alloc) (l : List (Option Cand × Ballot × Rat)) :
    addAll (renAlloc σ a) (l.map (renReq σ)) = renAlloc σ (addAll a l) := by
  unfold addAll
  induction l generalizing a with
  | nil => rfl
  | cons x xs ih =>
    simp only [List.map_cons, List.foldl_cons]
    have : add1 (renAlloc σ a) (renReq σ x) = renAlloc σ (add1 a x) := allocAdd_ren hσ a x.1 x.2.1 x.2.2
    rw [this, ih]

theorem flatMap_dlv_ren (hσ : Function.Injective σ) (cont : List Cand) (frm : Option Cand) (pile : Pile) :
    (renPile σ pile).flatMap (dlv (cont.map σ) (frm.map σ)) = (pile.flatMap (dlv cont frm)).map (renReq σ) := by
  unfold renPile mapKV
  rw [List.flatMap_map, List.map_flatMap]
  congr 1
  funext bw
  exact dlv_ren hσ cont frm bw

theorem rm_ren (hσ : Function.Injective σ) (cont : List Cand) (a : Alloc) (c : Cand) :
    rm (cont.map σ) (renAlloc σ a) (σ c) = renAlloc σ (rm cont a c) := by
  unfold rm
  have h1 := allocPile_ren hσ a (some c)
  have h2 := allocErase_ren hσ a (some c)
  simp only [Option.map_some] at h1 h2
  have h3 := flatMap_dlv_ren hσ cont (some c) (allocPile a (some c))
  simp only [Option.map_some] at h3
  rw [h1, h2, h3, addAll_ren hσ]

theorem foldl_rm_ren (hσ : Function.Injective σ) (cont rs : List Cand) (a : Alloc) :
    (rs.map σ).foldl (rm (cont.map σ)) (renAlloc σ a) = renAlloc σ (rs.foldl (rm cont) a) := by
  induction rs generalizing a with
  | nil => rfl
  | cons c rest ih => simp only [List.map_cons, List.foldl_cons, rm_ren hσ, ih]

theorem filter_mem_ren (hσ : Function.Injective σ) (l cs : List Cand) :
    (l.map σ).filter (fun c => decide (c ∈ cs.map σ)) = (l.filter (fun c => decide (c ∈ cs))).map σ := by
  rw [List.filter_map]
  congr 1
  apply List.filter_congr
  intro x _
  simp only [Function.comp, List.mem_map_of_injective hσ]

theorem filter_not_mem_ren (hσ : Function.Injective σ) (l cs : List Cand) :
    (l.map σ).filter (fun c => decide (c ∉ cs.map σ)) = (l.filter (fun c => decide (c ∉ cs))).map σ := by
  rw [List.filter_map]
  congr 1
  apply List.filter_congr
  intro x _
  simp only [Function.comp, List.mem_map_of_injective hσ]

/-- the result of a step that returns an allocation and the draws -/
def renAD (σ : Cand → Cand) (r : Alloc × List Draw) : Alloc × List Draw := (renAlloc σ r.1, r.2)

theorem transfer_ren (hσ : Function.Injective σ) (a : Alloc) (cs : List Cand) (ds : List Draw) :
    transfer gregory (renAlloc σ a) (cs.map σ) ds = (transfer gregory a cs ds).map (renAD σ) := by
  unfold transfer
  simp only [transferGo_gregory, continuing_ren, filter_mem_ren hσ, filter_not_mem_ren hσ, foldl_rm_ren hσ]
  rfl

theorem transferIf_ren (hσ : Function.Injective σ) (a : Alloc) (cs : List Cand) (ds : List Draw) :
    transferIf gregory (renAlloc σ a) (cs.map σ) ds = (transferIf gregory a cs ds).map (renAD σ) := by
  unfold transferIf
  by_cases h : cs = []
  · subst h; rfl
  · rw [if_neg h, if_neg (by simpa using h)]
    exact transfer_ren hσ a cs ds

/-! ### Gregory subtraction -/

theorem gregorySubtract_ren (σ : Cand → Cand) (p : Pile) (n : Rat) :
    gregorySubtract (renPile σ p) n = (gregorySubtract p n).map (renPile σ) := by
  unfold gregorySubtract
  simp only [pileTotal_ren]
  split
  · rfl
  · split
    · rfl
    · simp only [Except.map, renPile, mapKV, List.map_map]
      rfl

theorem allocSetPile_ren (hσ : Function.Injective σ) (a : Alloc) (h : Option Cand) (p' : Pile) :
    allocSetPile (renAlloc σ a) (h.map σ) (renPile σ p') = renAlloc σ (allocSetPile a h p') := by
  have e1 := allocSetPile_eq_modIf a h (fun _ => p')
  have e2 := allocSetPile_eq_modIf (renAlloc σ a) (h.map σ) (fun _ => renPile σ p')
  rw [e1, e2]
  exact modIf_mapKV (ψ := renPile σ) (f := fun _ => p') (f' := fun _ => renPile σ p') (optMap_injective hσ)
    (fun _ => rfl) a h

theorem subtract_ren (hσ : Function.Injective σ) (el : List (Cand × Rat)) (a : Alloc) (ds : List Draw) :
    subtract gregory (renVotes σ el) (renAlloc σ a) ds = (subtract gregory el a ds).map (renAD σ) := by
  induction el generalizing a with
  | nil => rfl
  | cons x rest ih =>
    obtain ⟨c, n⟩ := x
    have hr : renVotes σ ((c, n) :: rest) = (σ c, n) :: renVotes σ rest := rfl
    rw [hr]
    simp only [subtract]
    have hp := allocPile_ren hσ a (some c)
    simp only [Option.map_some] at hp
    have hs : gregory.subtract (allocPile (renAlloc σ a) (some (σ c))) n ds =
        (gregorySubtract (allocPile a (some c)) n).map (fun p' => (renPile σ p', ds)) := by
      show Except.map _ (gregorySubtract _ _) = _
      rw [hp, gregorySubtract_ren]
      cases gregorySubtract (allocPile a (some c)) n <;> rfl
    have hs' : gregory.subtract (allocPile a (some c)) n ds =
        (gregorySubtract (allocPile a (some c)) n).map (fun p' => (p', ds)) := rfl
    rw [hs, hs']
    cases gregorySubtract (allocPile a (some c)) n with
    | error e => rfl
    | ok p' =>
      simp only [Except.map, bind, Except.bind]
      have := allocSetPile_ren hσ a (some c) p'
      simp only [Option.map_some] at this
      rw [this, ih]
      rfl

/-! ### the initial allocation -/

theorem firstIs_ren (hσ : Function.Injective σ) (c : Cand) (bw : Ballot × Rat) :
    firstIs (σ c) (renBallot σ bw.1, bw.2) = firstIs c bw := by
  obtain ⟨b, w⟩ := bw
  cases b with
  | nil => rfl
  | cons it rest =>
    cases it with
    | one c' =>
      show decide (σ c' = σ c) = decide (c' = c)
      exact decide_eq_decide.mpr hσ.eq_iff
    | shared cs => rfl

theorem sharedFirst_ren (σ : Cand → Cand) (bw : Ballot × Rat) :
    sharedFirst (renBallot σ bw.1, bw.2) = sharedFirst bw := by
  obtain ⟨b, w⟩ := bw
  cases b with
  | nil => rfl
  | cons it rest => cases it <;> rfl

theorem filter_renPile (σ : Cand → Cand) (v : Profile) {q q' : Ballot × Rat → Bool}
    (hq : ∀ bw, q' (renBallot σ bw.1, bw.2) = q bw) : (renPile σ v).filter q' = renPile σ (v.filter q) := by
  unfold renPile mapKV
  rw [List.filter_map]
  congr 1
  apply List.filter_congr
  intro x _
  exact hq x

theorem firstPrefs_ren (hσ : Function.Injective σ) (v : Profile) : firstPrefs (renPile σ v) = renAlloc σ (firstPrefs v) := by
  unfold firstPrefs
  rw [allRanked_ren hσ]
  unfold renAlloc mapKV
  rw [List.map_map, List.map_map]
  congr 1
  funext c
  simp only [Function.comp, Option.map_some]
  rw [filter_renPile σ v (firstIs_ren hσ c)]

theorem fictionalPile_ren (σ : Cand → Cand) (v : Profile) : fictionalPile (renPile σ v) = renPile σ (fictionalPile v) :=
  filter_renPile σ v (sharedFirst_ren σ)

theorem initialAllocation_ren (hσ : Function.Injective σ) (v : Profile) (ds : List Draw) :
    initialAllocation gregory (renPile σ v) ds = (initialAllocation gregory v ds).map (renAD σ) := by
  unfold initialAllocation
  simp only [movePile_gregory, allRanked_ren hσ, fictionalPile_ren, firstPrefs_ren hσ]
  have := flatMap_dlv_ren hσ (allRanked v) none (fictionalPile v)
  simp only [Option.map_none] at this
  rw [this, addAll_ren hσ]
  rfl

end VL.Perm.Stv
