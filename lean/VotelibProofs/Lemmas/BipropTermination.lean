/-
  C07: termination measure of the ported tie-and-transfer loop.
  Part A: the flaw count (total absolute deviation of the district sums from their targets) drops by exactly 2 on a
  transfer pass and stays on a multiplier update.
  Part B: a multiplier update strictly enlarges the set of labels of the next pass (or lets it reach an
  under-represented district), so at most m + n updates happen between two transfers.
-/
import VotelibProofs.Lemmas.BipropNoCrash
namespace VL.Biprop
open Finset

variable {ord : List Nat}

def absdiff (a b : Nat) : Nat := (a - b) + (b - a)

/-- flaw count of Pukelsheim: Σ_i |seats of district i − target of district i| -/
def flaw (tgt : List Nat) (x : Mat Nat) (m : Nat) : Nat := sumN (fun i => absdiff (rowSum x i) (tgt.getD i 0)) m

/-- indicator -/
def ind (a b : Nat) : Nat := if a = b then 1 else 0
theorem ind_self (a : Nat) : ind a a = 1 := by simp [ind]
theorem ind_ne {a b : Nat} (h : a ≠ b) : ind a b = 0 := by simp [ind, h]
theorem countP_cons_ind {α : Type} (f : α → Nat) (t : α) (l : List α) (i : Nat) :
    (t :: l).countP (fun t => f t == i) = l.countP (fun t => f t == i) + ind (f t) i := by
  rw [List.countP_cons]; unfold ind
  by_cases h : f t = i <;> simp [h]

/-- the last district of a path that starts in `d` -/
def lastOf : Nat → List (Nat × Nat × Nat) → Nat
  | d, [] => d
  | _, (_, _, b) :: rest => lastOf b rest

theorem chain_last_over {over : List Nat} : ∀ (d : Nat) (path : List (Nat × Nat × Nat)),
    chainFrom over d path → lastOf d path ∈ over
  | _, [], h => h
  | _, (_, _, b) :: rest, h => chain_last_over b rest h.2.2

theorem chain_counts {over : List Nat} : ∀ (d : Nat) (path : List (Nat × Nat × Nat)), chainFrom over d path →
    ∀ i, path.countP (fun t => t.1 == i) + ind (lastOf d path) i
       = path.countP (fun t => t.2.2 == i) + ind d i
  | d, [], _, i => by simp [lastOf]
  | d, (a, p, b) :: rest, h, i => by
    obtain ⟨h1, _, h3⟩ := h
    have ih := chain_counts b rest h3 i
    subst h1
    rw [countP_cons_ind (fun t : Nat × Nat × Nat => t.1), countP_cons_ind (fun t : Nat × Nat × Nat => t.2.2)]
    simp only [lastOf]
    omega

theorem sum_ups {m n : Nat} : ∀ (path : List (Nat × Nat × Nat)), PathIn m n path → ∀ i,
    sumN (fun j => ups path i j) n = path.countP (fun t => t.1 == i)
  | [], _, i => by simp [ups, sumN_zero]
  | t :: rest, hin, i => by
    have ih := sum_ups rest (fun c hc => hin c (List.mem_cons_of_mem _ hc)) i
    have ht := (hin t List.mem_cons_self).2.1
    unfold ups at ih ⊢
    simp only [List.countP_cons]
    rw [sumN_add, ih]
    congr 1
    by_cases hti : t.1 = i
    · simp only [hti, beq_self_eq_true, Bool.true_and, if_true]
      have := sumN_single n t.2.1 ht
      simpa using this
    · simp [hti, sumN_zero]

theorem sum_downs {m n : Nat} : ∀ (path : List (Nat × Nat × Nat)), PathIn m n path → ∀ i,
    sumN (fun j => downs path i j) n = path.countP (fun t => t.2.2 == i)
  | [], _, i => by simp [downs, sumN_zero]
  | t :: rest, hin, i => by
    have ih := sum_downs rest (fun c hc => hin c (List.mem_cons_of_mem _ hc)) i
    have ht := (hin t List.mem_cons_self).2.1
    unfold downs at ih ⊢
    simp only [List.countP_cons]
    rw [sumN_add, ih]
    congr 1
    by_cases hti : t.2.2 = i
    · simp only [hti, beq_self_eq_true, Bool.true_and, if_true]
      have := sumN_single n t.2.1 ht
      simpa using this
    · simp [hti, sumN_zero]

/-- row sums after a transfer along a chain from `d`: the start district gains a seat, the last one loses a seat -/
theorem applyPath_rows {m n : Nat} {over : List Nat} {path : List (Nat × Nat × Nat)} {x x' : Mat Nat} {d : Nat}
    (hs : shapeOk x m n = true) (hs' : shapeOk x' m n = true) (hin : PathIn m n path) (hch : chainFrom over d path)
    (h : applyPath path x = .ok x') :
    ∀ i < m, rowSum x' i + ind (lastOf d path) i = rowSum x i + ind d i := by
  intro i hi
  have hc := applyPath_count path x x' hs hin h i
  have hsum : sumN (fun j => mget x' i j) n + sumN (fun j => downs path i j) n
      = sumN (fun j => mget x i j) n + sumN (fun j => ups path i j) n := by
    rw [← sumN_add, ← sumN_add]
    exact sumN_congr (fun j _ => hc j)
  rw [sum_ups path hin, sum_downs path hin] at hsum
  have hcc := chain_counts d path hch i
  rw [rowSum_eq hs' hi, rowSum_eq hs hi, ← sumN_eq_sum, ← sumN_eq_sum]
  have e1 : sumN (fun j => mget x' i j) n = sumN (mget x' i) n := rfl
  have e2 : sumN (fun j => mget x i j) n = sumN (mget x i) n := rfl
  omega

theorem sumN_ind (m k : Nat) (hk : k < m) : sumN (fun i => ind k i) m = 1 := by
  unfold ind; exact sumN_single m k hk

/-- what a transfer pass is made of (with the start and end of the path) -/
theorem step_transfer_path {q : Rat} {V : Mat Rat} {tgt : List Nat} {s s' : State}
    (h : step q ord V tgt s = .ok (.transfer s')) :
    s'.dc = s.dc ∧ s'.pc = s.pc ∧ ∃ path start, start ∈ underOf tgt s V.length ∧
      chainFrom (overOf tgt s V.length) start path ∧
      PathCells q (quot V s) s.x V.length (nCols V) path ∧ applyPath path s.x = .ok s'.x := by
  unfold underOf overOf
  unfold step at h
  simp only at h
  split at h
  · simp at h
  · have hover : ∀ d ∈ (List.range V.length).filter (fun i => decide (rowSum s.x i > tgt.getD i 0)), d < V.length :=
      fun d hd => List.mem_range.mp (List.mem_filter.mp hd).1
    have hlab := labeled_ok (ord := ord) (q := q) (qt := quot V s) (x := s.x) (n := nCols V)
      (under := (List.range V.length).filter (fun i => decide (rowSum s.x i < tgt.getD i 0))) hover
    revert hlab
    generalize labeled q (quot V s) s.x V.length (nCols V) ord _ _ = L at h
    obtain ⟨labD, labP⟩ := L
    intro hlab
    simp only at h hlab
    split at h
    · rename_i start rest hfil
      have hst : start ∈ (List.range V.length).filter (fun i => decide (rowSum s.x i < tgt.getD i 0)) := by
        have : start ∈ List.filter (hasKey labD)
            ((List.range V.length).filter (fun i => decide (rowSum s.x i < tgt.getD i 0))) := by
          rw [hfil]; exact List.mem_cons_self
        exact (List.mem_filter.mp this).1
      cases haug : augment s.x labD labP start
          ((List.range V.length).filter (fun i => decide (rowSum s.x i > tgt.getD i 0))) (V.length + nCols V + 2) with
      | error e => rw [haug] at h; simp at h
      | ok x' =>
        rw [haug] at h
        simp only [Except.ok.injEq, Step.transfer.injEq] at h
        subst h
        unfold augment at haug
        cases hpath : augPath labD labP
            ((List.range V.length).filter (fun i => decide (rowSum s.x i > tgt.getD i 0))) (V.length + nCols V + 2) start with
        | error e => rw [hpath] at haug; simp at haug
        | ok path =>
          rw [hpath] at haug
          exact ⟨rfl, rfl, path, start, hst, augPath_chain _ _ _ hpath, augPath_cells hlab.1 hlab.2 _ _ _ hpath, haug⟩
    · split at h
      · simp at h
      · split at h <;> simp at h

/-- **A transfer pass lowers the flaw count by exactly two.** -/
theorem transfer_flaw {q : Rat} {V : Mat Rat} {tgt : List Nat} {s s' : State}
    (hs : shapeOk s.x V.length (nCols V) = true) (h : step q ord V tgt s = .ok (.transfer s')) :
    flaw tgt s'.x V.length + 2 = flaw tgt s.x V.length := by
  obtain ⟨_, _, path, start, hst, hch, hcells, happ⟩ := step_transfer_path h
  obtain ⟨hs', _⟩ := applyPath_cols path s.x s'.x hs hcells.pathIn happ
  have hrows := applyPath_rows hs hs' hcells.pathIn hch happ
  have hlast := chain_last_over _ _ hch
  simp only [underOf, overOf, List.mem_filter, List.mem_range, decide_eq_true_eq] at hst hlast
  obtain ⟨hstm, hstlt⟩ := hst
  obtain ⟨hlm, hlgt⟩ := hlast
  have hne : start ≠ lastOf start path := by
    intro he; rw [← he] at hlgt; omega
  unfold flaw
  have key : ∀ i < V.length, absdiff (rowSum s'.x i) (tgt.getD i 0) + ind start i + ind (lastOf start path) i
      = absdiff (rowSum s.x i) (tgt.getD i 0) := by
    intro i hi
    have hr := hrows i hi
    by_cases h1 : i = start
    · subst h1
      rw [ind_self, ind_ne (Ne.symm hne)] at hr ⊢
      unfold absdiff; omega
    · by_cases h2 : i = lastOf start path
      · rw [h2] at hr ⊢
        rw [ind_self, ind_ne hne] at hr ⊢
        unfold absdiff; omega
      · rw [ind_ne (Ne.symm h1), ind_ne (Ne.symm h2)] at hr ⊢
        unfold absdiff; omega
  rw [← sumN_congr key, sumN_add, sumN_add, sumN_ind _ _ hstm, sumN_ind _ _ hlm]

/-- a multiplier update does not touch the flaw count -/
theorem update_flaw {q : Rat} {V : Mat Rat} {tgt : List Nat} {s s' : State} {c : Rat}
    (h : step q ord V tgt s = .ok (.update s' c)) : flaw tgt s'.x V.length = flaw tgt s.x V.length := by
  rw [(step_update h).1]

/-- what an update pass is made of, in terms of the labels of the state -/
theorem step_update_labels {q : Rat} {V : Mat Rat} {tgt : List Nat} {s s' : State} {c : Rat}
    (h : step q ord V tgt s = .ok (.update s' c)) :
    (underOf tgt s V.length).filter (hasKey (labelsOf q ord V tgt s).1) = [] ∧
    adjCoef q (quot V s) s.x V.length (nCols V) (labelsOf q ord V tgt s).1 (labelsOf q ord V tgt s).2 = .ok c ∧
    c ≠ 0 ∧ c < 1 ∧ s'.x = s.x ∧
    s'.dc = (List.range V.length).map
      (fun i => if hasKey (labelsOf q ord V tgt s).1 i then s.dc.getD i 0 * c else s.dc.getD i 0) ∧
    s'.pc = (List.range (nCols V)).map
      (fun j => if hasKey (labelsOf q ord V tgt s).2 j then s.pc.getD j 0 / c else s.pc.getD j 0) := by
  unfold labelsOf underOf overOf
  unfold step at h
  simp only at h
  split at h
  · simp at h
  · generalize labeled q (quot V s) s.x V.length (nCols V) ord _ _ = L at h ⊢
    obtain ⟨labD, labP⟩ := L
    simp only at h ⊢
    split at h
    · split at h <;> simp at h
    · rename_i hnil
      cases hadj : adjCoef q (quot V s) s.x V.length (nCols V) labD labP with
      | error e => rw [hadj] at h; simp at h
      | ok c' =>
        rw [hadj] at h
        simp only at h
        split at h
        · simp at h
        · rename_i hc
          simp only [Except.ok.injEq, Step.update.injEq] at h
          obtain ⟨hs, hcc⟩ := h
          subst hcc; subst hs
          simp only [Bool.or_eq_true, decide_eq_true_eq, not_or, not_le] at hc
          exact ⟨hnil, rfl, hc.1, hc.2, rfl, rfl, rfl⟩

theorem nodup_subset_length {l1 l2 : List Nat} (h1 : l1.Nodup) (hs : l1 ⊆ l2) : l1.length ≤ l2.length :=
  (List.subperm_of_subset h1 hs).length_le

theorem hasKey_mem_entry {α : Type} {l : List (Nat × α)} {k : Nat} (h : hasKey l k = true) : ∃ e ∈ l, e.1 = k := by
  obtain ⟨e, he, hek⟩ := List.mem_map.mp ((hasKey_iff l k).mp h)
  exact ⟨e, he, hek⟩

theorem isDown_pos {q qt : Rat} {s : Nat} (hq1 : q < 1) (h : isDown q qt s = true) : 0 < qt := by
  simp only [isDown, Bool.and_eq_true, beq_iff_eq, decide_eq_true_eq] at h
  have : (1 : Rat) ≤ (s : Rat) := by exact_mod_cast h.2
  linarith [h.1.2]

/-- **A multiplier update enlarges the labelling.**  After an update pass the labelling of the new state either reaches
    an under-represented district (so the next pass is a transfer) or contains every old label and at least one more:
    the cell at which the adjustment coefficient is attained has become a tie. -/
theorem update_labels_grow {q : Rat} (hq : q = 0 ∨ q = 1/2) {V : Mat Rat} {tgt : List Nat} {s s' : State} {c : Rat}
    (hV : ∀ i j, 0 ≤ vget V i j) (hcov : ordCovers ord V = true)
    (hinv : LoopInv q V V.length (nCols V) s) (h : step q ord V tgt s = .ok (.update s' c)) :
    (underOf tgt s' V.length).any (hasKey (labelsOf q ord V tgt s').1) = true ∨
    (labelsOf q ord V tgt s).1.length + (labelsOf q ord V tgt s).2.length
      < (labelsOf q ord V tgt s').1.length + (labelsOf q ord V tgt s').2.length := by
  have hq1 : q < 1 := by rcases hq with rfl | rfl <;> norm_num
  obtain ⟨_, hadj, hc0, hc1, hx, hdc, hpc⟩ := step_update_labels h
  obtain ⟨hdpos, hppos, hcell⟩ := hinv
  have hU : underOf tgt s' V.length = underOf tgt s V.length := by unfold underOf; rw [hx]
  have hO : overOf tgt s' V.length = overOf tgt s V.length := by unfold overOf; rw [hx]
  have hOlt : ∀ d ∈ overOf tgt s V.length, d < V.length := fun d hd => by
    simp only [overOf, List.mem_filter, List.mem_range] at hd; exact hd.1
  have hOnd : (overOf tgt s V.length).Nodup := List.Nodup.filter _ List.nodup_range
  -- the old labels
  have hok := labeled_ok (ord := ord) (q := q) (qt := quot V s) (x := s.x) (n := nCols V)
    (under := underOf tgt s V.length) hOlt
  have hwf := labeled_wf (ord := ord) (q := q) (qt := quot V s) (x := s.x) (n := nCols V)
    (under := underOf tgt s V.length) hOnd hOlt
  -- the new labels
  have hex' := labeled_exit (ord := ord) (q := q) (qt := quot V s') (x := s.x) (n := nCols V)
    (under := underOf tgt s V.length) hOnd hOlt
  have hwf' := labeled_wf (ord := ord) (q := q) (qt := quot V s') (x := s.x) (n := nCols V)
    (under := underOf tgt s V.length) hOnd hOlt
  have hL' : labelsOf q ord V tgt s' = labeled q (quot V s') s.x V.length (nCols V) ord
      (underOf tgt s V.length) (overOf tgt s V.length) := by
    unfold labelsOf; rw [hU, hO, hx]
  rw [hL', hU]
  change _ ∨ (labeled q (quot V s) s.x V.length (nCols V) ord (underOf tgt s V.length) (overOf tgt s V.length)).1.length
      + (labeled q (quot V s) s.x V.length (nCols V) ord (underOf tgt s V.length) (overOf tgt s V.length)).2.length < _
  have hadj' : adjCoef q (quot V s) s.x V.length (nCols V)
      (labeled q (quot V s) s.x V.length (nCols V) ord (underOf tgt s V.length) (overOf tgt s V.length)).1
      (labeled q (quot V s) s.x V.length (nCols V) ord (underOf tgt s V.length) (overOf tgt s V.length)).2 = .ok c := hadj
  have hdc' : ∀ i < V.length, s'.dc.getD i 0 = if hasKey
      (labeled q (quot V s) s.x V.length (nCols V) ord (underOf tgt s V.length) (overOf tgt s V.length)).1 i
      then s.dc.getD i 0 * c else s.dc.getD i 0 := by
    intro i hi; rw [hdc, getD_map_range _ _ _ _ hi]; rfl
  have hpc' : ∀ j < nCols V, s'.pc.getD j 0 = if hasKey
      (labeled q (quot V s) s.x V.length (nCols V) ord (underOf tgt s V.length) (overOf tgt s V.length)).2 j
      then s.pc.getD j 0 / c else s.pc.getD j 0 := by
    intro j hj; rw [hpc, getD_map_range _ _ _ _ hj]; rfl
  clear hadj hdc hpc hL'
  generalize labeled q (quot V s) s.x V.length (nCols V) ord (underOf tgt s V.length) (overOf tgt s V.length) = L
    at hok hwf hadj' hdc' hpc' ⊢
  generalize labeled q (quot V s') s.x V.length (nCols V) ord (underOf tgt s V.length) (overOf tgt s V.length) = L'
    at hex' hwf' ⊢
  obtain ⟨LD, LP⟩ := L
  obtain ⟨LD', LP'⟩ := L'
  simp only at hok hwf hadj' hdc' hpc' hex' hwf' ⊢
  obtain ⟨hDok, hPok⟩ := hok
  obtain ⟨hKD, hKP, hW⟩ := hwf
  obtain ⟨hKD', hKP', _⟩ := hwf'
  obtain ⟨hover', hexit⟩ := hex'
  rcases hexit with hu | hclosed
  · exact Or.inl hu
  right
  -- quotients of cells whose district and party are both labelled do not move
  have hsame : ∀ i < V.length, ∀ j < nCols V, hasKey LD i = true → hasKey LP j = true →
      quot V s' i j = quot V s i j := by
    intro i hi j hj hd hp
    unfold quot
    rw [hdc' i hi, hpc' j hj, if_pos hd, if_pos hp]
    field_simp
  have hord : ∀ i j, quot V s i j ≠ 0 → j ∈ ord := by
    intro i j hne
    apply ordCovers_mem hcov i j
    intro hv0; apply hne; unfold quot; rw [hv0]; simp
  -- (S1) every old labelled district is labelled again
  have S1 : ∀ k, ∀ i (hi : i < LD.length), i ≤ k → hasKey LD' (LD[i]).1 = true := by
    intro k
    induction k with
    | zero =>
      intro i hi hik
      have hi0 : i = 0 := by omega
      subst hi0
      cases hv : (LD[0]).2 with
      | none => exact hover' _ (hW.1 _ (List.getElem_mem hi) hv)
      | some p =>
        obtain ⟨d', _, hkd'⟩ := hW.2.2 0 hi p hv
        simp [hasKey] at hkd'
    | succ k ih =>
      intro i hi hik
      cases hv : (LD[i]).2 with
      | none => exact hover' _ (hW.1 _ (List.getElem_mem hi) hv)
      | some p =>
        obtain ⟨d', hpd', hkd'⟩ := hW.2.2 i hi p hv
        obtain ⟨e, he, hek⟩ := hasKey_mem_entry hkd'
        obtain ⟨i', hi', rfl⟩ := List.mem_iff_getElem.mp he
        have hi'lt : i' < i := by have := hi'; rw [List.length_take] at this; omega
        have hi'len : i' < LD.length := by omega
        have heq : (LD.take i)[i'] = LD[i'] := by simp [List.getElem_take]
        rw [heq] at hek
        have hd'new : hasKey LD' d' = true := by rw [← hek]; exact ih i' hi'len (by omega)
        have hd'old : hasKey LD d' = true := by rw [← hek]; exact hasKey_of_mem (List.getElem_mem hi'len)
        have hpold : hasKey LP p = true := hasKey_of_mem hpd'
        obtain ⟨hpn, hd'm, hdown⟩ := hPok (p, d') hpd'
        simp only at hpn hd'm hdown
        have hdown' : isDown q (quot V s' d' p) (mget s.x d' p) = true := by
          rw [hsame d' hd'm p hpn hd'old hpold]; exact hdown
        have hpord : p ∈ ord := hord d' p (ne_of_gt (isDown_pos hq1 hdown))
        obtain ⟨e', he', he'k⟩ := hasKey_mem_entry hd'new
        have hpnew : hasKey LP' p = true := hclosed.1 e' he' p hpord hpn (by rw [he'k]; exact hdown')
        -- now the district itself
        obtain ⟨hdm, hup⟩ := hDok (LD[i]) (List.getElem_mem hi)
        obtain ⟨_, hup⟩ := hup p hv
        have hdold : hasKey LD (LD[i]).1 = true := hasKey_of_mem (List.getElem_mem hi)
        have hup' : isUp q (quot V s' (LD[i]).1 p) (mget s.x (LD[i]).1 p) = true := by
          rw [hsame _ hdm p hpn hdold hpold]; exact hup
        obtain ⟨e2, he2, he2k⟩ := hasKey_mem_entry hpnew
        exact hclosed.2 e2 he2 _ hdm (by rw [he2k]; exact hup')
  have S1' : ∀ d, hasKey LD d = true → hasKey LD' d = true := by
    intro d hd
    obtain ⟨e, he, hek⟩ := hasKey_mem_entry hd
    obtain ⟨i, hi, rfl⟩ := List.mem_iff_getElem.mp he
    rw [← hek]; exact S1 i i hi (le_refl _)
  -- (S2) every old labelled party is labelled again
  have S2 : ∀ p, hasKey LP p = true → hasKey LP' p = true := by
    intro p hp
    obtain ⟨e, he, hek⟩ := hasKey_mem_entry hp
    obtain ⟨hpn, hd'm, hdown⟩ := hPok e he
    have hd'old := hW.2.1 e he
    have hd'new := S1' _ hd'old
    rw [hek] at hpn hdown
    have hdown' : isDown q (quot V s' e.2 p) (mget s.x e.2 p) = true := by
      rw [hsame e.2 hd'm p hpn hd'old hp]; exact hdown
    have hpord : p ∈ ord := hord e.2 p (ne_of_gt (isDown_pos hq1 hdown))
    obtain ⟨e', he', he'k⟩ := hasKey_mem_entry hd'new
    exact hclosed.1 e' he' p hpord hpn (by rw [he'k]; exact hdown')
  have hsubD : LD.map (·.1) ⊆ LD'.map (·.1) := fun k hk => (hasKey_iff LD' k).mp (S1' k ((hasKey_iff LD k).mpr hk))
  have hsubP : LP.map (·.1) ⊆ LP'.map (·.1) := fun k hk => (hasKey_iff LP' k).mp (S2 k ((hasKey_iff LP k).mpr hk))
  have hlenD := nodup_subset_length hKD.1 hsubD
  have hlenP := nodup_subset_length hKP.1 hsubP
  simp only [List.length_map] at hlenD hlenP
  -- (S3) one more label: the cell where the coefficient is attained has become a tie
  rcases adjCoef_attained hadj' with h0 | ⟨i, hi, j, hj, hd, hp, hs, hne, hc⟩ | ⟨i, hi, j, hj, hd, hp, hpos, hc⟩
  · exact absurd h0 hc0
  · have hx1 : 1 ≤ mget s.x i j := by
      by_contra hlt
      have h0 : mget s.x i j = 0 := by omega
      rw [h0] at hs; simp at hs
      have : 0 ≤ q := by rcases hq with rfl | rfl <;> norm_num
      linarith
    have hq' : quot V s' i j = (mget s.x i j : Rat) - q := by
      unfold quot at hne hc ⊢
      rw [hdc' i hi, hpc' j hj, if_pos hd, if_neg (by simp [hp]), hc]
      have e : vget V i j * (s.dc.getD i 0 * (((mget s.x i j : Rat) - q) / (vget V i j * s.dc.getD i 0 * s.pc.getD j 0)))
          * s.pc.getD j 0
          = (vget V i j * s.dc.getD i 0 * s.pc.getD j 0)
            * (((mget s.x i j : Rat) - q) / (vget V i j * s.dc.getD i 0 * s.pc.getD j 0)) := by ring
      rw [e, mul_div_cancel₀ _ hne]
    have hdown' := isDown_of_eq hq hx1 hq'
    obtain ⟨e', he', he'k⟩ := hasKey_mem_entry (S1' i hd)
    have hjnew : hasKey LP' j = true := hclosed.1 e' he' j (hord i j hne) hj (by rw [he'k]; exact hdown')
    have hsub : (j :: LP.map (·.1)) ⊆ LP'.map (·.1) := by
      intro k hk
      rcases List.mem_cons.mp hk with rfl | hk
      · exact (hasKey_iff LP' _).mp hjnew
      · exact hsubP hk
    have hnd : (j :: LP.map (·.1)).Nodup := by
      rw [List.nodup_cons]
      refine ⟨fun hm => ?_, hKP.1⟩
      have := (hasKey_iff LP j).mpr hm
      rw [hp] at this; simp at this
    have := nodup_subset_length hnd hsub
    simp only [List.length_cons, List.length_map] at this
    omega
  · have hden : (0 : Rat) < (mget s.x i j : Rat) - q + 1 := by
      have : (0 : Rat) ≤ (mget s.x i j : Rat) := Nat.cast_nonneg _
      linarith
    have hq' : quot V s' i j = (mget s.x i j : Rat) + 1 - q := by
      unfold quot at hpos hc ⊢
      rw [hdc' i hi, hpc' j hj, if_neg (by simp [hd]), if_pos hp, hc]
      have hne : vget V i j * s.dc.getD i 0 * s.pc.getD j 0 ≠ 0 := ne_of_gt hpos
      rw [one_div_div]
      have e : vget V i j * s.dc.getD i 0 * (s.pc.getD j 0 /
            (vget V i j * s.dc.getD i 0 * s.pc.getD j 0 / ((mget s.x i j : Rat) - q + 1)))
          = (vget V i j * s.dc.getD i 0 * s.pc.getD j 0) /
            (vget V i j * s.dc.getD i 0 * s.pc.getD j 0 / ((mget s.x i j : Rat) - q + 1)) := by ring
      rw [e, div_div_cancel₀ hne]
      ring
    have hup' := isUp_of_eq hq hq'
    obtain ⟨e', he', he'k⟩ := hasKey_mem_entry (S2 j hp)
    have hinew : hasKey LD' i = true := hclosed.2 e' he' i hi (by rw [he'k]; exact hup')
    have hsub : (i :: LD.map (·.1)) ⊆ LD'.map (·.1) := by
      intro k hk
      rcases List.mem_cons.mp hk with rfl | hk
      · exact (hasKey_iff LD' _).mp hinew
      · exact hsubD hk
    have hnd : (i :: LD.map (·.1)).Nodup := by
      rw [List.nodup_cons]
      refine ⟨fun hm => ?_, hKD.1⟩
      have := (hasKey_iff LD i).mpr hm
      rw [hd] at this; simp at this
    have := nodup_subset_length hnd hsub
    simp only [List.length_cons, List.length_map] at this
    omega

/-- the labelling of the state reaches an under-represented district (the pass will be a transfer) -/
def underHit (q : Rat) (ord : List Nat) (V : Mat Rat) (tgt : List Nat) (s : State) : Bool :=
  (underOf tgt s V.length).any (hasKey (labelsOf q ord V tgt s).1)

/-- second component of the termination measure: room left for labels (0 when the next pass is a transfer) -/
def mu (q : Rat) (ord : List Nat) (V : Mat Rat) (tgt : List Nat) (s : State) : Nat :=
  if underHit q ord V tgt s then 0
  else (V.length + nCols V + 1) - ((labelsOf q ord V tgt s).1.length + (labelsOf q ord V tgt s).2.length)

/-- **termination measure**: (flaw count / 2, room for labels) in lexicographic order, as one number -/
def potential (q : Rat) (ord : List Nat) (V : Mat Rat) (tgt : List Nat) (s : State) : Nat :=
  (flaw tgt s.x V.length / 2) * (V.length + nCols V + 2) + mu q ord V tgt s

theorem labels_length_le (q : Rat) (V : Mat Rat) (tgt : List Nat) (s : State) :
    (labelsOf q ord V tgt s).1.length ≤ V.length ∧ (labelsOf q ord V tgt s).2.length ≤ nCols V := by
  have hOlt : ∀ d ∈ overOf tgt s V.length, d < V.length := fun d hd => by
    simp only [overOf, List.mem_filter, List.mem_range] at hd; exact hd.1
  have hOnd : (overOf tgt s V.length).Nodup := List.Nodup.filter _ List.nodup_range
  have hwf := labeled_wf (ord := ord) (q := q) (qt := quot V s) (x := s.x) (n := nCols V)
    (under := underOf tgt s V.length) hOnd hOlt
  exact ⟨hwf.1.length_le, hwf.2.1.length_le⟩

theorem mu_le (q : Rat) (V : Mat Rat) (tgt : List Nat) (s : State) : mu q ord V tgt s ≤ V.length + nCols V + 1 := by
  unfold mu; split <;> omega

theorem potential_le (q : Rat) (V : Mat Rat) (tgt : List Nat) (s : State) :
    potential q ord V tgt s ≤ (flaw tgt s.x V.length / 2 + 1) * (V.length + nCols V + 2) := by
  unfold potential
  have := mu_le (ord := ord) q V tgt s
  rw [Nat.add_mul]; omega

/-- **An update pass lowers the measure.** -/
theorem update_potential {q : Rat} (hq : q = 0 ∨ q = 1/2) {V : Mat Rat} {tgt : List Nat} {s s' : State} {c : Rat}
    (hV : ∀ i j, 0 ≤ vget V i j) (hcov : ordCovers ord V = true)
    (hinv : LoopInv q V V.length (nCols V) s) (h : step q ord V tgt s = .ok (.update s' c)) :
    potential q ord V tgt s' < potential q ord V tgt s := by
  have hgrow := update_labels_grow hq hV hcov hinv h
  have hfl := update_flaw h
  obtain ⟨hnil, _⟩ := step_update_labels h
  have hnot : underHit q ord V tgt s = false := by
    unfold underHit
    rw [Bool.eq_false_iff]
    intro hu
    rw [List.any_eq_true] at hu
    obtain ⟨i, hi, hk⟩ := hu
    have : i ∈ (underOf tgt s V.length).filter (hasKey (labelsOf q ord V tgt s).1) := List.mem_filter.mpr ⟨hi, hk⟩
    rw [hnil] at this; simp at this
  have hl := labels_length_le (ord := ord) q V tgt s
  have hl' := labels_length_le (ord := ord) q V tgt s'
  unfold potential
  rw [hfl]
  apply Nat.add_lt_add_left
  unfold mu
  rw [hnot]
  simp only [Bool.false_eq_true, if_false]
  rcases hgrow with hu | hlt
  · have : underHit q ord V tgt s' = true := hu
    rw [this]; simp only [if_true]; omega
  · split <;> omega

/-- **A transfer pass lowers the measure.** -/
theorem transfer_potential {q : Rat} {V : Mat Rat} {tgt : List Nat} {s s' : State}
    (hs : shapeOk s.x V.length (nCols V) = true) (h : step q ord V tgt s = .ok (.transfer s')) :
    potential q ord V tgt s' < potential q ord V tgt s := by
  have hfl := transfer_flaw hs h
  have hmu := mu_le (ord := ord) q V tgt s'
  unfold potential
  have e : flaw tgt s.x V.length / 2 = flaw tgt s'.x V.length / 2 + 1 := by omega
  rw [e, Nat.add_mul]
  omega

end VL.Biprop
