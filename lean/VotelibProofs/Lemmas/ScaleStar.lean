/-
  C11: STAR (score then automatic run-off by Schulze over the pairwise counts derived from the score ballots) is
  invariant under multiplication of all ballot counts by a positive natural number.
-/
import VotelibProofs.Lemmas.ScaleScore
namespace VL.Scale
open VL VL.Score

def scalePC (k : Nat) (d : PairCounts) : PairCounts := d.map (fun p => (p.1, (k : Int) * p.2))

theorem getPair_scale (k : Nat) (d : PairCounts) (a b : Cand) : getPair (scalePC k d) a b = (k : Int) * getPair d a b := by
  unfold getPair scalePC
  induction d with
  | nil => simp
  | cons e t ih =>
    simp only [List.map_cons, List.find?_cons]
    by_cases he : e.1 = (a, b)
    · simp [he]
    · simp only [he, decide_false]; exact ih

theorem setPair_scale (k : Nat) (d : PairCounts) (a b : Cand) (n : Int) :
    setPair (scalePC k d) a b ((k : Int) * n) = scalePC k (setPair d a b n) := by
  unfold scalePC
  induction d with
  | nil => rfl
  | cons e t ih =>
    obtain ⟨q, y⟩ := e
    simp only [List.map_cons, setPair]
    by_cases hq : q = (a, b)
    · simp only [hq, if_true, List.map_cons]
    · simp only [hq, if_false, List.map_cons, ih]

theorem addPair_scale (k : Nat) (d : PairCounts) (a b : Cand) (n : Int) :
    addPair (scalePC k d) a b ((k : Int) * n) = scalePC k (addPair d a b n) := by
  unfold addPair
  rw [getPair_scale, ← mul_add, setPair_scale]

theorem addRanking_go_scale (k : Nat) (n : Int) (unranked : List Cand) : ∀ (ranking : List (List Cand)) (d : PairCounts),
    addRanking.go ((k : Int) * n) unranked (scalePC k d) ranking = scalePC k (addRanking.go n unranked d ranking) := by
  intro ranking
  induction ranking with
  | nil => intro d; rfl
  | cons upper lowerItems ih =>
    intro d
    simp only [addRanking.go]
    rw [← ih]
    congr 1
    apply foldl_sim' (scalePC k)
    intro d1 u
    have h2 := foldl_sim' (scalePC k) (fun d l => addPair d u l n) (fun d l => addPair d u l ((k : Int) * n))
      (fun s l => addPair_scale k s u l n) lowerItems.flatten d1
    rw [h2]
    exact foldl_sim' (scalePC k) (fun d x => addPair d u x n) (fun d x => addPair d u x ((k : Int) * n))
      (fun s x => addPair_scale k s u x n) unranked _

theorem addRanking_scale (k : Nat) (allC : List Cand) (d : PairCounts) (ranking : List (List Cand)) (n : Int) :
    addRanking allC (scalePC k d) ranking ((k : Int) * n) = scalePC k (addRanking allC d ranking n) := by
  unfold addRanking
  exact addRanking_go_scale k n _ ranking d

theorem pairCounts_scale (k : Nat) (unscored : Option Rat) (votes : SProfile) :
    pairCounts unscored (scaleS k votes) = scalePC k (pairCounts unscored votes) := by
  unfold pairCounts
  have hall : (scaleS k votes).flatMap (fun bn => bn.1.map (·.1)) = votes.flatMap (fun bn => bn.1.map (·.1)) := by
    unfold scaleS; rw [List.flatMap_map]
  simp only [hall]
  unfold scaleS
  refine foldl_simMap (scalePC k) _ _ _ ?_ votes []
  intro d bn
  exact addRanking_scale k _ d _ bn.2

theorem memberPairs_scale (k : Nat) (all : PairCounts) (members : List Cand) :
    memberPairs (scalePC k all) members = scalePC k (memberPairs all members) := by
  unfold memberPairs scalePC
  rw [List.map_flatMap]
  congr 1
  funext c1
  rw [List.map_map]
  apply List.map_congr_left
  intro c2 _
  simp only [Function.comp]
  rw [show getPair (List.map (fun p => (p.1, (k : Int) * p.2)) all) c1 c2 = (k : Int) * getPair all c1 c2
    from getPair_scale k all c1 c2]

theorem scalePC_keys (k : Nat) (d : PairCounts) : (scalePC k d).flatMap (fun p => [p.1.1, p.1.2]) = d.flatMap (fun p => [p.1.1, p.1.2]) := by
  unfold scalePC; rw [List.flatMap_map]

theorem widestPaths_scaleS (k : Nat) (hk : 0 < k) (counts : PairCounts) :
    widestPaths (scalePC k counts) = (scalePC k (widestPaths counts).1, (widestPaths counts).2) := by
  have hkz : (0 : Int) < (k : Int) := by exact_mod_cast hk
  unfold widestPaths
  simp only [scalePC_keys, Prod.mk.injEq, and_true]
  have hp0 : (scalePC k counts).foldl (fun d p =>
        if getPair (scalePC k counts) p.1.2 p.1.1 < p.2 then setPair d p.1.1 p.1.2 p.2 else d) []
      = scalePC k (counts.foldl (fun d p => if getPair counts p.1.2 p.1.1 < p.2 then setPair d p.1.1 p.1.2 p.2 else d) []) := by
    have hfun : (fun (d : PairCounts) (p : (Cand × Cand) × Int) =>
          if getPair (scalePC k counts) p.1.2 p.1.1 < p.2 then setPair d p.1.1 p.1.2 p.2 else d)
        = (fun (d : PairCounts) (p : (Cand × Cand) × Int) =>
          if (k : Int) * getPair counts p.1.2 p.1.1 < p.2 then setPair d p.1.1 p.1.2 p.2 else d) := by
      funext d p; rw [getPair_scale]
    rw [hfun]
    conv_lhs => unfold scalePC
    refine foldl_simMap (scalePC k) _ _ _ ?_ counts []
    intro d p
    simp only [mul_lt_mul_iff_right₀ hkz]
    split
    · exact setPair_scale k d _ _ _
    · rfl
  rw [hp0]
  apply foldl_sim' (scalePC k)
  intro d1 c1
  apply foldl_sim' (scalePC k)
  intro d2 c2
  by_cases h12 : c1 ≠ c2
  · simp only [if_pos h12]
    apply foldl_sim' (scalePC k)
    intro d3 ca
    by_cases hca : ca ≠ c1 ∧ ca ≠ c2
    · simp only [if_pos hca, getPair_scale, mul_lt_mul_iff_right₀ hkz]
      rw [← setPair_scale]
      congr 1
      by_cases hyx : getPair d3 c1 ca < getPair d3 c2 c1
      · simp only [if_pos hyx, mul_lt_mul_iff_right₀ hkz]; split <;> rfl
      · simp only [if_neg hyx, mul_lt_mul_iff_right₀ hkz]; split <;> rfl
    · simp only [if_neg hca]
  · simp only [if_neg h12]

theorem schulzeScores_scale (k : Nat) (hk : 0 < k) (counts : PairCounts) :
    schulzeScores (scalePC k counts) = schulzeScores counts := by
  have hkz : (0 : Int) < (k : Int) := by exact_mod_cast hk
  unfold schulzeScores
  rw [widestPaths_scaleS k hk]
  simp only
  have hs0 : (scalePC k counts).foldl (fun d p => Appr.addVote (Appr.addVote d p.1.1 0) p.1.2 0) []
      = counts.foldl (fun d p => Appr.addVote (Appr.addVote d p.1.1 0) p.1.2 0) [] := by
    unfold scalePC; rw [List.foldl_map]
  rw [hs0]
  generalize counts.foldl (fun d p => Appr.addVote (Appr.addVote d p.1.1 0) p.1.2 0) [] = s0
  generalize (widestPaths counts).1 = paths
  conv_lhs => unfold scalePC
  rw [List.foldl_map]
  congr 1
  funext d p
  simp only [show getPair (List.map (fun p => (p.1, (k : Int) * p.2)) paths) p.1.2 p.1.1 = (k : Int) * getPair paths p.1.2 p.1.1
    from getPair_scale k paths _ _, mul_lt_mul_iff_right₀ hkz]

theorem schulzeS_scale (k : Nat) (hk : 0 < k) (counts : PairCounts) (n : Nat) :
    Score.schulze (scalePC k counts) n = Score.schulze counts n := by
  unfold Score.schulze; rw [schulzeScores_scale k hk]

theorem starRunoff_scale (ac : Nat) (af : Rat) (cfg : Cfg) (hcfg : ScaleFreeCfg cfg) (k : Nat) (hk : 0 < k)
    (votes : SProfile) (n : Nat) :
    starRunoff ac af cfg (scaleS k votes) n
      = (starRunoff ac af cfg votes n).map (fun r => (r.1, scalePC k r.2)) := by
  unfold starRunoff
  have hcfg' : ScaleFreeCfg { cfg with fn := .sum } := hcfg
  rw [convert_scale _ hcfg' k hk]
  cases convert { cfg with fn := .sum } votes with
  | error e => rfl
  | ok agg =>
    show Except.ok _ = Except.ok _
    have hpos : 0 < aggFactor Agg.sum k := aggFactor_pos .sum k hk
    rw [getNBest_scaleC _ hpos, pairCounts_scale, memberPairs_scale]

/-- **STAR** (default Schulze run-off; any `added_count` / `added_fraction`) -/
theorem star_scale (ac : Nat) (af : Rat) (cfg : Cfg) (hcfg : ScaleFreeCfg cfg) (k : Nat) (hk : 0 < k)
    (votes : SProfile) (n : Nat) :
    Score.star ac af cfg (scaleS k votes) n = Score.star ac af cfg votes n := by
  unfold Score.star
  rw [starRunoff_scale ac af cfg hcfg k hk]
  cases starRunoff ac af cfg votes n with
  | error e => rfl
  | ok r =>
    show (if r.1.length ≤ 1 then _ else pure (Score.schulze (scalePC k r.2) n)) = _
    rw [schulzeS_scale k hk]
    rfl

end VL.Scale
