/-
  Renaming equivariance of the highest-averages loop: consistently renaming the parties by an injective map
  renames the outcome and changes nothing else.
-/
import VotelibProofs.Lemmas.HAStep
namespace VL
open HACfg

def renVotes (σ : Cand → Cand) (v : Votes) : Votes := v.map (fun p => (σ p.1, p.2))
def renNat (σ : Cand → Cand) (l : List (Cand × Nat)) : List (Cand × Nat) := l.map (fun p => (σ p.1, p.2))

def HACfg.rename (cfg : HACfg) (σ : Cand → Cand) : HACfg :=
  { cfg with votes := renVotes σ cfg.votes, prev := renNat σ cfg.prev, caps := renNat σ cfg.caps }

theorem natLookup_ren (σ : Cand → Cand) (hσ : Function.Injective σ) (l : List (Cand × Nat)) (c : Cand) (d : Nat) :
    natLookup (renNat σ l) (σ c) d = natLookup l c d := by
  unfold natLookup renNat
  induction l with
  | nil => rfl
  | cons x xs ih =>
    simp only [List.map_cons, List.find?_cons]
    by_cases hx : x.1 = c
    · simp [hx]
    · have : σ x.1 ≠ σ c := fun h => hx (hσ h)
      simp only [hx, this, decide_false]
      exact ih

theorem lookup_ren (σ : Cand → Cand) (hσ : Function.Injective σ) (v : Votes) (c : Cand) :
    lookup (renVotes σ v) (σ c) = lookup v c := by
  unfold lookup renVotes
  induction v with
  | nil => rfl
  | cons x xs ih =>
    simp only [List.map_cons, List.find?_cons]
    by_cases hx : x.1 = c
    · simp [hx]
    · have : σ x.1 ≠ σ c := fun h => hx (hσ h)
      simp only [hx, this, decide_false]
      exact ih

section
variable (cfg : HACfg) (σ : Cand → Cand) (hσ : Function.Injective σ)
include hσ

theorem prevOf_ren (c : Cand) : (cfg.rename σ).prevOf (σ c) = cfg.prevOf c := natLookup_ren σ hσ _ _ _
theorem capOf_ren (c : Cand) : (cfg.rename σ).capOf (σ c) = cfg.capOf c := natLookup_ren σ hσ _ _ _
theorem quot_ren (c : Cand) (k : Nat) : (cfg.rename σ).quot (σ c) k = cfg.quot c k := by
  unfold HACfg.quot HACfg.vote getD HACfg.rename
  rw [lookup_ren σ hσ]

/-- the renamed state: totals of renamed parties agree, pool and tie are renamed -/
structure RenState (s s' : HAState) : Prop where
  tot  : ∀ c, s'.tot (σ c) = s.tot c
  pool : s'.pool = s.pool.map (fun p => (σ p.1, p.2))
  rem  : s'.rem = s.rem
  tie  : s'.tie = s.tie.map (fun t => (t.1.map σ, t.2))

omit hσ in
theorem maxQ_ren (l : List (Cand × Rat)) : maxQ (l.map (fun p => (σ p.1, p.2))) = maxQ l := by
  induction l with
  | nil => rfl
  | cons p ps ih => simp only [List.map_cons, maxQ, ih]

theorem haStep_ren (s s' : HAState) (h : RenState σ s s') :
    RenState σ (haStep cfg s) (haStep (cfg.rename σ) s') := by
  unfold haStep
  rw [h.pool, maxQ_ren σ]
  cases hm : maxQ s.pool with
  | none => simp only; exact ⟨h.tot, by rw [h.pool], h.rem, h.tie⟩
  | some m =>
    simp only
    have hb : ((s.pool.map (fun p => (σ p.1, p.2))).filter (fun p => p.2 = m)).map (·.1)
        = ((s.pool.filter (fun p => p.2 = m)).map (·.1)).map σ := by
      rw [List.filter_map, List.map_map, List.map_map]; rfl
    have hr : (s.pool.map (fun p => (σ p.1, p.2))).filter (fun p => p.2 ≠ m)
        = (s.pool.filter (fun p => p.2 ≠ m)).map (fun p => (σ p.1, p.2)) := by
      rw [List.filter_map]; rfl
    have hbump : ∀ (batch : List Cand) (c : Cand), bumpAll s'.tot (batch.map σ) (σ c) = bumpAll s.tot batch c := by
      intro batch c
      unfold bumpAll
      have : σ c ∈ batch.map σ ↔ c ∈ batch := by
        simp only [List.mem_map]
        exact ⟨fun ⟨d, hd, he⟩ => hσ he ▸ hd, fun hc => ⟨c, hc, rfl⟩⟩
      by_cases hc : c ∈ batch
      · rw [if_pos (this.mpr hc), if_pos hc, h.tot]
      · rw [if_neg (fun hh => hc (this.mp hh)), if_neg hc, h.tot]
    by_cases hgt : (s.pool.filter (fun p => decide (p.2 = m))).length > s.rem
    · simp only [hb, hr, h.rem, List.length_map, hgt, if_true]
      exact ⟨h.tot, rfl, rfl, by simp⟩
    · simp only [hb, hr, h.rem, List.length_map, hgt, if_false]
      refine ⟨fun c => hbump _ c, ?_, rfl, rfl⟩
      simp only [List.map_append]
      congr 1
      rw [List.filterMap_map, List.map_filterMap]
      apply List.filterMap_congr
      intro c _
      simp only [Function.comp, hbump, capOf_ren cfg σ hσ, quot_ren cfg σ hσ]
      split <;> rfl

theorem haLoop_ren : ∀ (fuel : Nat) (s s' : HAState), RenState σ s s' →
    RenState σ (haLoop cfg fuel s) (haLoop (cfg.rename σ) fuel s') := by
  intro fuel
  induction fuel with
  | zero => intro s s' h; exact h
  | succ f ih =>
    intro s s' h
    unfold haLoop
    have hc : (s'.rem = 0 ∨ s'.pool = []) ↔ (s.rem = 0 ∨ s.pool = []) := by
      rw [h.rem, h.pool]; simp
    by_cases hcond : s.rem = 0 ∨ s.pool = []
    · rw [if_pos hcond, if_pos (hc.mpr hcond)]; exact h
    · rw [if_neg hcond, if_neg (fun hh => hcond (hc.mp hh))]
      exact ih _ _ (haStep_ren cfg σ hσ _ _ h)

omit hσ in
theorem sumPrev_ren : (cfg.rename σ).sumPrev = cfg.sumPrev := by
  unfold HACfg.sumPrev HACfg.rename renNat
  simp only
  generalize 0 = a
  induction cfg.prev generalizing a with
  | nil => rfl
  | cons x xs ih => simp only [List.map_cons, List.foldl_cons]; exact ih _

theorem haInit_ren : RenState σ (haInit cfg) (haInit (cfg.rename σ)) := by
  refine ⟨fun c => prevOf_ren cfg σ hσ c, ?_, ?_, rfl⟩
  · unfold haInit
    simp only
    have hv : (cfg.rename σ).votes = cfg.votes.map (fun p => (σ p.1, p.2)) := rfl
    have hd : (cfg.rename σ).div = cfg.div := rfl
    rw [hv, hd, List.filterMap_map, List.map_filterMap]
    apply List.filterMap_congr
    intro p _
    simp only [Function.comp, prevOf_ren cfg σ hσ, capOf_ren cfg σ hσ]
    split <;> rfl
  · show (cfg.rename σ).n - (cfg.rename σ).sumPrev = cfg.n - cfg.sumPrev
    rw [sumPrev_ren cfg σ]; rfl

/-- **Renaming equivariance.**  After a consistent injective renaming of the parties, the renamed party holds the
    seats of the original one and a reported tie is the renamed tie. -/
theorem haRun_ren : RenState σ (haRun cfg) (haRun (cfg.rename σ)) := by
  unfold haRun
  rw [(haInit_ren cfg σ hσ).rem]
  exact haLoop_ren cfg σ hσ _ _ _ (haInit_ren cfg σ hσ)

theorem haSeats_ren (c : Cand) : haSeats (cfg.rename σ) (σ c) = haSeats cfg c := by
  unfold haSeats
  rw [(haRun_ren cfg σ hσ).tot, prevOf_ren cfg σ hσ]

end
end VL
