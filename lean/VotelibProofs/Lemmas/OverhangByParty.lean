/-
  ByParty (model `byParty`, VotelibModel/Overhang.lean): every party of the overall result receives exactly its overall
  seats over the constituency rows (column sums of the nested result).
-/
import VotelibProofs.Lemmas.Overhang
namespace VL.OH
open VL

/-- seats of party key `k` summed over all constituency rows -/
def colSum (R : NDist) (k : Key) : Nat := (R.map (fun row => distGet row.2 k)).sum

theorem colSum_cons (x : Key × Dist) (xs : NDist) (k : Key) : colSum (x :: xs) k = distGet x.2 k + colSum xs k := by
  unfold colSum; simp

theorem ndGet_cons (x : Key × Dist) (xs : NDist) (k : Key) :
    ndGet (x :: xs) k = if x.1 = k then x.2 else ndGet xs k := by
  unfold ndGet
  by_cases h : x.1 = k
  · simp [h]
  · simp [h]

theorem colSum_ndSet (res : NDist) (ck : Key) (row : Dist) (k : Key) :
    colSum (ndSet res ck row) k + distGet (ndGet res ck) k = colSum res k + distGet row k := by
  induction res with
  | nil => simp [ndSet, colSum, ndGet, distGet]
  | cons x xs ih =>
    simp only [ndSet]
    rw [ndGet_cons]
    by_cases hx : x.1 = ck
    · rw [if_pos hx, if_pos hx, colSum_cons, colSum_cons]
      simp only
      omega
    · rw [if_neg hx, if_neg hx, colSum_cons, colSum_cons]
      omega

theorem ndGet_ndSet (res : NDist) (ck : Key) (row : Dist) (k : Key) :
    ndGet (ndSet res ck row) k = if ck = k then row else ndGet res k := by
  induction res with
  | nil =>
    simp only [ndSet, ndGet_cons]
  | cons x xs ih =>
    simp only [ndSet]
    by_cases hx : x.1 = ck
    · rw [if_pos hx, ndGet_cons, ndGet_cons]
      simp only
      by_cases h : ck = k
      · simp [h]
      · have : ¬ x.1 = k := by rw [hx]; exact h
        simp [h, this]
    · rw [if_neg hx, ndGet_cons, ndGet_cons, ih]
      by_cases hxk : x.1 = k
      · have : ¬ ck = k := by rw [← hxk]; exact fun h => hx h.symm
        simp [hxk, this]
      · simp [hxk]

theorem writeParty_cons (party : Key) (a : Key × Nat) (as : Dist) (res : NDist) :
    writeParty party (a :: as) res = writeParty party as (ndSet res a.1 (setK (ndGet res a.1) party a.2)) := rfl

/-- other parties' columns are untouched -/
theorem colSum_writeParty_ne (party : Key) (allocated : Dist) (res : NDist) (k : Key) (hk : party ≠ k) :
    colSum (writeParty party allocated res) k = colSum res k := by
  induction allocated generalizing res with
  | nil => rfl
  | cons a as ih =>
    rw [writeParty_cons, ih]
    have := colSum_ndSet res a.1 (setK (ndGet res a.1) party a.2) k
    rw [distGet_setK, if_neg hk] at this
    omega

/-- … and stay zero where they were zero -/
theorem zero_writeParty_ne (party : Key) (allocated : Dist) (res : NDist) (k : Key) (hk : party ≠ k)
    (hz : ∀ ck, distGet (ndGet res ck) k = 0) : ∀ ck, distGet (ndGet (writeParty party allocated res) ck) k = 0 := by
  induction allocated generalizing res with
  | nil => exact hz
  | cons a as ih =>
    rw [writeParty_cons]
    apply ih
    intro ck
    rw [ndGet_ndSet]
    split
    · rw [distGet_setK, if_neg hk]; exact hz a.1
    · exact hz ck

/-- the party's own column, zero before, holds exactly the allocated seats afterwards -/
theorem colSum_writeParty_self (party : Key) (allocated : Dist) (hnd : (allocated.map (·.1)).Nodup) (res : NDist)
    (hz : ∀ a ∈ allocated, distGet (ndGet res a.1) party = 0) :
    colSum (writeParty party allocated res) party = colSum res party + sumDist allocated := by
  induction allocated generalizing res with
  | nil => simp [writeParty, sumDist]
  | cons a as ih =>
    rw [List.map_cons, List.nodup_cons] at hnd
    rw [writeParty_cons, ih hnd.2, sumDist_cons]
    · have := colSum_ndSet res a.1 (setK (ndGet res a.1) party a.2) party
      rw [distGet_setK, if_pos rfl, hz a List.mem_cons_self] at this
      omega
    · intro a' ha'
      rw [ndGet_ndSet]
      have hne : a.1 ≠ a'.1 := fun e => hnd.1 (e ▸ List.mem_map.mpr ⟨a', ha', rfl⟩)
      rw [if_neg hne]
      exact hz a' (List.mem_cons_of_mem _ ha')

theorem byPartyStep_error (alloc : PropEval) (cv : CVotes) (prev : CSeats) (e : Err) (l : Dist) :
    l.foldl (byPartyStep alloc cv prev) (.error e) = .error e := by
  induction l with
  | nil => rfl
  | cons x xs ih => rw [List.foldl_cons]; exact ih

/-- votes of one party by constituency, as handed to the allocator -/
def partyVotes (cv : CVotes) (k : Key) : Votes := cv.map (fun d => (d.1, partyVotesIn d.2 k))

theorem byPartyStep_ok (alloc : PropEval) (cv : CVotes) (prev : CSeats) (res : NDist) (e : Key × Nat) :
    byPartyStep alloc cv prev (.ok res) e =
      match alloc (partyVotes cv e.1) e.2 (partyPrev prev e.1) [] with
      | .ok allocated => .ok (writeParty e.1 allocated res)
      | .error err => .error err := by
  unfold byPartyStep partyVotes
  simp only [bind, Except.bind, pure, Except.pure]
  cases alloc (cv.map (fun d => (d.1, partyVotesIn d.2 e.1))) e.2 (partyPrev prev e.1) [] <;> rfl

theorem byParty_fold (alloc : PropEval) (cv : CVotes) (prev : CSeats)
    (hand : ∀ votes n pr r, alloc votes n pr [] = .ok r → (r.map (·.1)).Nodup) :
    ∀ (l : Dist) (res out : NDist), l.foldl (byPartyStep alloc cv prev) (.ok res) = .ok out →
      (l.map (·.1)).Nodup → (∀ e ∈ l, ∀ ck, distGet (ndGet res ck) e.1 = 0) →
      (∀ k, k ∉ l.map (·.1) → colSum out k = colSum res k) ∧
      (∀ e ∈ l, ∃ allocated, alloc (partyVotes cv e.1) e.2 (partyPrev prev e.1) [] = .ok allocated ∧
        colSum out e.1 = colSum res e.1 + sumDist allocated) := by
  intro l
  induction l with
  | nil =>
    intro res out h _ _
    simp only [List.foldl_nil, Except.ok.injEq] at h
    subst h
    exact ⟨fun _ _ => rfl, fun e he => by simp at he⟩
  | cons e es ih =>
    intro res out h hnd hz
    rw [List.map_cons, List.nodup_cons] at hnd
    rw [List.foldl_cons, byPartyStep_ok] at h
    cases hal : alloc (partyVotes cv e.1) e.2 (partyPrev prev e.1) [] with
    | error err => rw [hal] at h; simp only at h; rw [byPartyStep_error] at h; cases h
    | ok allocated =>
      rw [hal] at h
      simp only at h
      have hz1 : ∀ e' ∈ es, ∀ ck, distGet (ndGet (writeParty e.1 allocated res) ck) e'.1 = 0 := by
        intro e' he'
        have hne : e.1 ≠ e'.1 := fun eq => hnd.1 (eq ▸ List.mem_map.mpr ⟨e', he', rfl⟩)
        exact zero_writeParty_ne e.1 allocated res e'.1 hne (hz e' (List.mem_cons_of_mem _ he'))
      obtain ⟨ih1, ih2⟩ := ih _ out h hnd.2 hz1
      refine ⟨?_, ?_⟩
      · intro k hk
        simp only [List.map_cons, List.mem_cons, not_or] at hk
        rw [ih1 k hk.2, colSum_writeParty_ne e.1 allocated res k (fun eq => hk.1 eq.symm)]
      · intro e' he'
        rcases List.mem_cons.mp he' with rfl | he''
        · refine ⟨allocated, hal, ?_⟩
          rw [ih1 _ hnd.1]
          exact colSum_writeParty_self _ allocated (hand _ _ _ _ hal) res
            (fun a _ => hz e' List.mem_cons_self a.1)
        · obtain ⟨al', hal', hcs⟩ := ih2 e' he''
          refine ⟨al', hal', ?_⟩
          have hne : e.1 ≠ e'.1 := fun eq => hnd.1 (eq ▸ List.mem_map.mpr ⟨e', he'', rfl⟩)
          rw [hcs, colSum_writeParty_ne e.1 allocated res e'.1 hne]

theorem colSum_addEmptyRows (cv : CVotes) (res : NDist) (k : Key) : colSum (addEmptyRows cv res) k = colSum res k := by
  unfold addEmptyRows
  induction cv generalizing res with
  | nil => rfl
  | cons d ds ih =>
    rw [List.foldl_cons, ih]
    split
    · rfl
    · unfold colSum
      simp [distGet]

/-- **ByParty hands every party exactly its overall seats.**  For every party key `e` of the overall result whose
    previous gains (summed over the constituencies) fit into its overall seat count, previous gains plus the seats written
    into the constituency rows are that seat count — for an allocator that fills the house and returns distinct keys. -/
theorem byParty_party_total (ov alloc : PropEval) (cv : CVotes) (n : Nat) (prev : CSeats) (R : NDist) (overall : Dist)
    (hR : byParty ov alloc cv n prev = .ok R) (hov : ov (voteTotals cv) n [] [] = .ok overall)
    (hond : (overall.map (·.1)).Nodup)
    (hand : ∀ votes n pr r, alloc votes n pr [] = .ok r → (r.map (·.1)).Nodup)
    (hfill : ∀ k m pr r, alloc (partyVotes cv k) m pr [] = .ok r → sumSeats pr ≤ m → sumSeats pr + sumDist r = m)
    (e : Key × Nat) (he : e ∈ overall) (hfit : sumSeats (partyPrev prev e.1) ≤ e.2) :
    sumSeats (partyPrev prev e.1) + colSum R e.1 = e.2 := by
  unfold byParty at hR
  rw [hov] at hR
  simp only [bind, Except.bind] at hR
  cases hf : overall.foldl (byPartyStep alloc cv prev) (.ok []) with
  | error err => rw [hf] at hR; simp at hR
  | ok results =>
    rw [hf] at hR
    simp only [pure, Except.pure, Except.ok.injEq] at hR
    obtain ⟨_, h2⟩ := byParty_fold alloc cv prev hand overall [] results hf hond
      (fun _ _ ck => by simp [ndGet, distGet])
    obtain ⟨allocated, hal, hcs⟩ := h2 e he
    rw [← hR, colSum_addEmptyRows, hcs]
    have := hfill e.1 e.2 _ allocated hal hfit
    have h0 : colSum ([] : NDist) e.1 = 0 := rfl
    omega

end VL.OH
