/-
  C10: `QuotaDistributor` / `LargestRemainder` with the over-award policy `subtract` do not depend on the insertion order of
  the votes dictionary either.  The subtract loop keys its `remainders` dict by the POSITION of an entry of `selected`; two
  permuted `selected` dicts give position-keyed dicts that are permutations of each other up to a relabelling of the
  positions, and `getNBest` commutes with every relabelling (`getNBest_rename` holds for arbitrary maps).
  The relation carried through the loop is "same map key -> seats, distinct keys" (`Sub.SRel`).
-/
import VotelibProofs.Lemmas.PermQuota
import VotelibProofs.Lemmas.PermTrans
import VotelibProofs.Lemmas.HAPerm
namespace VL.Perm.Sub
open VL VL.QD VL.C10 VL.Perm

/-! ### dicts as maps -/

structure SRel (s₁ s₂ : Sel) : Prop where
  nd₁ : KNodup s₁
  nd₂ : KNodup s₂
  look : ∀ k, look s₁ k = look s₂ k

theorem mem_iff_look {s : Sel} (h : KNodup s) (e : Key × Int) : e ∈ s ↔ Perm.look s e.1 = some e.2 := by
  induction s with
  | nil => simp [look_nil]
  | cons p ps ih =>
    have hn : p.1 ∉ ps.map (·.1) ∧ KNodup ps := List.nodup_cons.mp h
    rw [look_cons, List.mem_cons]
    constructor
    · rintro (rfl | hm)
      · rw [if_pos rfl]
      · have : p.1 ≠ e.1 := fun hh => hn.1 (hh ▸ List.mem_map.2 ⟨e, hm, rfl⟩)
        rw [if_neg this]; exact (ih hn.2).mp hm
    · intro hl
      by_cases hk : p.1 = e.1
      · rw [if_pos hk] at hl
        left; injection hl with hl; exact (Prod.ext hk hl).symm
      · rw [if_neg hk] at hl
        exact Or.inr ((ih hn.2).mpr hl)

theorem SRel.perm {s₁ s₂ : Sel} (h : SRel s₁ s₂) : s₁.Perm s₂ := by
  refine (List.perm_ext_iff_of_nodup (List.Nodup.of_map _ h.nd₁) (List.Nodup.of_map _ h.nd₂)).mpr (fun e => ?_)
  rw [mem_iff_look h.nd₁, mem_iff_look h.nd₂, h.look]

theorem srel_of_perm {s₁ s₂ : Sel} (h : s₁.Perm s₂) (hn : KNodup s₁) : SRel s₁ s₂ :=
  ⟨hn, (h.map _).nodup_iff.mp hn, fun k => look_perm h hn k⟩

theorem SRel.getK {s₁ s₂ : Sel} (h : SRel s₁ s₂) (k : Key) (d : Int) : getK s₁ k d = getK s₂ k d := by
  rw [getK_eq_look, getK_eq_look, h.look]

theorem SRel.hasK {s₁ s₂ : Sel} (h : SRel s₁ s₂) (k : Key) : hasK s₁ k = hasK s₂ k := by
  rw [hasK_eq_look, hasK_eq_look, h.look]

theorem look_delK (s : Sel) (k k' : Key) : look (delK s k) k' = if k' = k then none else look s k' := by
  induction s with
  | nil => simp [delK, look_nil]
  | cons p ps ih =>
    unfold delK at ih ⊢
    rw [List.filter_cons]
    by_cases hp : p.1 = k
    · have : ¬ (decide (p.1 ≠ k) = true) := by simp [hp]
      rw [if_neg this, ih, look_cons]
      by_cases hk : k' = k
      · rw [if_pos hk, if_pos hk]
      · rw [if_neg hk, if_neg hk, if_neg (fun e => hk (e.symm.trans hp))]
    · have : decide (p.1 ≠ k) = true := by simp [hp]
      rw [if_pos this, look_cons, look_cons, ih]
      by_cases hpk : p.1 = k'
      · rw [if_pos hpk, if_pos hpk]
        rw [if_neg (fun e => hp (hpk.trans e))]
      · rw [if_neg hpk, if_neg hpk]

/-- `d[k] -= 1`, the key deleted when the value was 1 -/
def decO (o : Option Int) : Option Int := if o.getD 0 = 1 then none else some (o.getD 0 - 1)

theorem look_decK (s : Sel) (k k' : Key) : look (decK s k) k' = if k' = k then decO (look s k) else look s k' := by
  unfold decK decO
  rw [getK_eq_look]
  by_cases h1 : (look s k).getD 0 = 1
  · rw [if_pos h1, look_delK]
    by_cases hk : k' = k
    · rw [if_pos hk, if_pos hk, if_pos h1]
    · rw [if_neg hk, if_neg hk]
  · rw [if_neg h1, look_setK]
    by_cases hk : k' = k
    · rw [if_pos hk, if_pos hk, if_neg h1]
    · rw [if_neg hk, if_neg hk]

theorem look_foldl_decK (cs : List Cand) (k' : Key) : ∀ s : Sel,
    look (cs.foldl (fun acc c => decK acc (.cand c)) s) k' = decO^[(cs.map Key.cand).count k'] (look s k') := by
  induction cs with
  | nil => intro s; rfl
  | cons c cs ih =>
    intro s
    rw [List.foldl_cons, ih, look_decK, List.map_cons]
    by_cases hk : k' = Key.cand c
    · subst hk
      rw [if_pos rfl, List.count_cons_self, Function.iterate_succ_apply]
    · rw [if_neg hk, List.count_cons_of_ne (fun e => hk e.symm)]

theorem KNodup_foldl_decK (cs : List Cand) : ∀ s : Sel, KNodup s → KNodup (cs.foldl (fun acc c => decK acc (.cand c)) s) := by
  induction cs with
  | nil => intro s h; exact h
  | cons c cs ih => intro s h; exact ih _ (KNodup_decK h _)

theorem SRel.decK {s₁ s₂ : Sel} (h : SRel s₁ s₂) (k : Key) : SRel (decK s₁ k) (decK s₂ k) :=
  ⟨KNodup_decK h.nd₁ k, KNodup_decK h.nd₂ k, fun k' => by rw [look_decK, look_decK, h.look, h.look]⟩

theorem SRel.foldDec {s₁ s₂ : Sel} (h : SRel s₁ s₂) {cs₁ cs₂ : List Cand} (hc : cs₁.Perm cs₂) :
    SRel (cs₁.foldl (fun acc c => QD.decK acc (.cand c)) s₁) (cs₂.foldl (fun acc c => QD.decK acc (.cand c)) s₂) :=
  ⟨KNodup_foldl_decK cs₁ s₁ h.nd₁, KNodup_foldl_decK cs₂ s₂ h.nd₂, fun k' => by
    rw [look_foldl_decK, look_foldl_decK, h.look, (hc.map Key.cand).count_eq]⟩

theorem SRel.setK {s₁ s₂ : Sel} (h : SRel s₁ s₂) (k : Key) (v : Int) : SRel (setK s₁ k v) (setK s₂ k v) :=
  ⟨KNodup_setK h.nd₁ k v, KNodup_setK h.nd₂ k v, fun k' => by rw [look_setK, look_setK, h.look]⟩

/-! ### the position-keyed remainders -/

theorem subRemainders_cons (votes : Votes) (q : Rat) (prev : IMap) (x : Key × Int) (s : Sel) :
    subRemainders votes q prev (x :: s) =
      (0, -(margin votes q prev x)) :: renVotes Nat.succ (subRemainders votes q prev s) := by
  unfold subRemainders renVotes margin
  rw [List.length_cons, List.range_succ_eq_map, List.zip_cons_cons, List.map_cons, List.zip_map_left, List.map_map, List.map_map]
  rfl

theorem renVotes_comp (f g : Nat → Nat) (v : Votes) : renVotes f (renVotes g v) = renVotes (f ∘ g) v := by
  unfold renVotes; rw [List.map_map]; rfl

theorem renVotes_congr {f g : Nat → Nat} {v : Votes} (h : ∀ e ∈ v, f e.1 = g e.1) : renVotes f v = renVotes g v := by
  unfold renVotes
  apply List.map_congr_left
  intro e he; rw [h e he]

def liftPos (σ : Nat → Nat) : Nat → Nat
  | 0 => 0
  | j + 1 => σ j + 1

def swapPos : Nat → Nat
  | 0 => 1
  | 1 => 0
  | j + 2 => j + 2

/-- permuted `selected` dicts: the position-keyed remainder dicts agree up to a relabelling of the positions that
    carries every entry to the same entry -/
theorem subRemainders_perm (votes : Votes) (q : Rat) (prev : IMap) {s₁ s₂ : Sel} (h : s₁.Perm s₂) :
    ∃ σ : Nat → Nat, (renVotes σ (subRemainders votes q prev s₁)).Perm (subRemainders votes q prev s₂) ∧
      ∀ i e, s₁[i]? = some e → s₂[σ i]? = some e := by
  induction h with
  | nil => exact ⟨id, List.Perm.refl _, fun i e h => by simp at h⟩
  | @cons x l₁ l₂ _ ih =>
    obtain ⟨σ, hp, hi⟩ := ih
    refine ⟨liftPos σ, ?_, ?_⟩
    · rw [subRemainders_cons, subRemainders_cons]
      have e1 : renVotes (liftPos σ) ((0, -(margin votes q prev x)) :: renVotes Nat.succ (subRemainders votes q prev l₁)) =
          (0, -(margin votes q prev x)) :: renVotes Nat.succ (renVotes σ (subRemainders votes q prev l₁)) := by
        rw [renVotes_comp]
        show (liftPos σ 0, _) :: renVotes (liftPos σ) (renVotes Nat.succ _) = _
        rw [renVotes_comp]; rfl
      rw [e1]
      exact List.Perm.cons _ (by unfold renVotes at hp ⊢; exact hp.map _)
    · intro i e he
      cases i with
      | zero => simpa [liftPos] using he
      | succ j => simpa [liftPos] using hi j e (by simpa using he)
  | swap x y l =>
    refine ⟨swapPos, ?_, ?_⟩
    · rw [subRemainders_cons, subRemainders_cons, subRemainders_cons, subRemainders_cons]
      have e1 : ∀ (a b : Rat) (v : Votes),
          renVotes swapPos ((0, a) :: renVotes Nat.succ ((0, b) :: renVotes Nat.succ v)) =
          (1, a) :: (0, b) :: renVotes Nat.succ (renVotes Nat.succ v) := by
        intro a b v
        unfold renVotes
        simp only [List.map_cons, List.map_map]
        rfl
      have e2 : ∀ (a b : Rat) (v : Votes),
          ((0, a) :: renVotes Nat.succ ((0, b) :: renVotes Nat.succ v) : Votes) =
          (0, a) :: (1, b) :: renVotes Nat.succ (renVotes Nat.succ v) := by
        intro a b v; unfold renVotes; simp only [List.map_cons]
      rw [e1, e2]
      exact List.Perm.swap _ _ _
    · intro i e he
      match i with
      | 0 => simpa [swapPos] using he
      | 1 => simpa [swapPos] using he
      | j + 2 => simpa [swapPos] using he
  | @trans l₁ l₂ l₃ _ _ ih₁ ih₂ =>
    obtain ⟨σ₁, hp₁, hi₁⟩ := ih₁
    obtain ⟨σ₂, hp₂, hi₂⟩ := ih₂
    refine ⟨σ₂ ∘ σ₁, ?_, fun i e he => hi₂ _ e (hi₁ i e he)⟩
    rw [← renVotes_comp]
    have : (renVotes σ₂ (renVotes σ₁ (subRemainders votes q prev l₁))).Perm (renVotes σ₂ (subRemainders votes q prev l₂)) := by
      unfold renVotes at hp₁ ⊢; exact hp₁.map _
    exact this.trans hp₂

theorem subRemainders_votes_congr {v₁ v₂ : Votes} (h : ∀ c, getD v₁ c 0 = getD v₂ c 0) (q : Rat) (prev : IMap) (s : Sel) :
    subRemainders v₁ q prev s = subRemainders v₂ q prev s := by
  unfold subRemainders
  apply List.map_congr_left
  intro ip _
  have : votesOfKey v₁ ip.2.1 = votesOfKey v₂ ip.2.1 := by
    cases ip.2.1 with
    | cand c => exact h c
    | tie T => rfl
  rw [this]

theorem keyAt_of_getElem? {s : Sel} {i : Nat} {e : Key × Int} (h : s[i]? = some e) : keyAt s i = e.1 := by
  unfold keyAt; rw [h]

/-! ### what `get_n_best(remainders, 1)` can return -/

theorem getNBest_one_cases (v : Votes) :
    getNBest v 1 = [] ∨ (∃ i, getNBest v 1 = [Slot.cand i] ∧ i ∈ v.map (·.1)) ∨
      (∃ T, getNBest v 1 = [Slot.tie T] ∧ ∀ i ∈ T, i ∈ v.map (·.1)) := by
  by_cases hne : v = []
  · left; subst hne; rfl
  · obtain ⟨t, _, _, hr⟩ := getNBest_one v hne
    right
    have hmem : ∀ i ∈ level v t, i ∈ v.map (·.1) := by
      intro i hi
      unfold level at hi
      obtain ⟨e, he, rfl⟩ := List.mem_map.1 hi
      exact List.mem_map.2 ⟨e, (List.mem_filter.1 he).1, rfl⟩
    by_cases hl : (level v t).length = 1
    · rw [if_pos hl] at hr
      obtain ⟨i, hi⟩ := List.length_eq_one_iff.mp hl
      left
      refine ⟨i, by rw [hr, hi]; rfl, hmem i (by rw [hi]; simp)⟩
    · rw [if_neg hl] at hr
      exact Or.inr ⟨_, hr, hmem⟩

theorem mem_keys_subRemainders {votes : Votes} {q : Rat} {prev : IMap} {s : Sel} {i : Nat}
    (h : i ∈ (subRemainders votes q prev s).map (·.1)) : ∃ e, s[i]? = some e := by
  obtain ⟨x, hx, rfl⟩ := List.mem_map.1 h
  obtain ⟨e, he, _⟩ := mem_subRemainders.mp hx
  exact ⟨e, he⟩

/-! ### `mapM candOfKey` -/

theorem mapM_candOfKey_eq (ks : List Key) :
    ks.mapM candOfKey = if ks.all (fun k => (candOfKey k).isSome) then some (ks.filterMap candOfKey) else none := by
  induction ks with
  | nil => rfl
  | cons k ks ih =>
    rw [List.mapM_cons, ih]
    cases k with
    | cand c =>
      have hall : ((Key.cand c :: ks).all fun k => (candOfKey k).isSome) = (ks.all fun k => (candOfKey k).isSome) := by
        simp [candOfKey]
      rw [hall]
      by_cases ha : (ks.all fun k => (candOfKey k).isSome) = true
      · rw [if_pos ha, if_pos ha]; rfl
      · rw [if_neg ha, if_neg ha]; rfl
    | tie T => simp [candOfKey]

theorem mapM_candOfKey_perm {ks₁ ks₂ : List Key} (h : ks₁.Perm ks₂) :
    (ks₁.mapM candOfKey = none ∧ ks₂.mapM candOfKey = none) ∨
      ∃ cs₁ cs₂, ks₁.mapM candOfKey = some cs₁ ∧ ks₂.mapM candOfKey = some cs₂ ∧ cs₁.Perm cs₂ := by
  rw [mapM_candOfKey_eq, mapM_candOfKey_eq, h.all_eq]
  by_cases ha : (ks₂.all fun k => (candOfKey k).isSome) = true
  · right; exact ⟨_, _, by rw [if_pos ha], by rw [if_pos ha], h.filterMap _⟩
  · left; exact ⟨by rw [if_neg ha], by rw [if_neg ha]⟩

/-! ### one pass of the subtract loop -/

theorem subtractStep_rel {v₁ v₂ : Votes} (hv : ∀ c, getD v₁ c 0 = getD v₂ c 0) (q : Rat) (prev : IMap) {s₁ s₂ : Sel}
    (h : SRel s₁ s₂) : ExceptEquiv SRel (subtractStep v₁ q prev s₁) (subtractStep v₂ q prev s₂) := by
  obtain ⟨σ, hp, hi⟩ := subRemainders_perm v₂ q prev h.perm
  rw [← subRemainders_votes_congr hv q prev s₁] at hp
  have heq : SlotsEquiv ((getNBest (subRemainders v₁ q prev s₁) 1).map (renSlot σ)) (getNBest (subRemainders v₂ q prev s₂) 1) := by
    rw [← getNBest_rename]
    exact getNBest_perm _ _ hp 1
  have hkey : ∀ i, i ∈ (subRemainders v₁ q prev s₁).map (·.1) → keyAt s₂ (σ i) = keyAt s₁ i := by
    intro i hi'
    obtain ⟨e, he⟩ := mem_keys_subRemainders hi'
    rw [keyAt_of_getElem? he, keyAt_of_getElem? (hi i e he)]
  unfold subtractStep
  rcases getNBest_one_cases (subRemainders v₁ q prev s₁) with h0 | ⟨i, h1, hmem⟩ | ⟨T, h1, hmem⟩
  · rw [h0] at heq ⊢
    obtain ⟨e₁, e₂, T₁, T₂, m, a1, a2, ae, _⟩ := heq
    have hl : (e₁.map Slot.cand ++ List.replicate m (Slot.tie T₁)).length = 0 := by rw [← a1]; rfl
    have hl2 : (getNBest (subRemainders v₂ q prev s₂) 1).length = 0 := by
      rw [a2]; simp only [List.length_append, List.length_map, List.length_replicate] at hl ⊢
      rw [← ae.length_eq]; exact hl
    rw [List.length_eq_zero_iff.mp hl2]
    exact rfl
  · rw [h1] at heq ⊢
    simp only [List.map_cons, List.map_nil, renSlot] at heq
    obtain ⟨e₁, e₂, T₁, T₂, m, a1, a2, ae, aT⟩ := heq
    obtain ⟨he, hm, _⟩ := slots_decomp_unique [σ i] e₁ [] T₁ 0 m (by simpa using a1)
    subst he hm
    have he2 : e₂ = [σ i] := (List.perm_singleton.mp ae.symm)
    rw [a2, he2]
    simp only [List.map_cons, List.map_nil, List.replicate_zero, List.append_nil]
    rw [hkey i hmem]
    exact h.decK _
  · rw [h1] at heq ⊢
    simp only [List.map_cons, List.map_nil, renSlot] at heq
    obtain ⟨e₁, e₂, T₁, T₂, m, a1, a2, ae, aT⟩ := heq
    obtain ⟨he, hm, hT⟩ := slots_decomp_unique [] e₁ (T.map σ) T₁ 1 m (by simpa using a1)
    subst he hm
    have hT1 : T.map σ = T₁ := by rcases hT with h0 | h0; exact absurd h0 (by decide); exact h0
    have he2 : e₂ = [] := ae.symm.eq_nil
    rw [a2, he2]
    simp only [List.map_nil, List.nil_append, List.replicate_one]
    have hks : (T.map (keyAt s₁)).Perm (T₂.map (keyAt s₂)) := by
      have : T.map (keyAt s₁) = (T.map σ).map (keyAt s₂) := by
        rw [List.map_map]
        apply List.map_congr_left
        intro i hi'; exact (hkey i (hmem i hi')).symm
      rw [this, hT1]
      exact aT.map _
    rcases mapM_candOfKey_perm hks with ⟨n1, n2⟩ | ⟨cs₁, cs₂, c1, c2, hc⟩
    · simp only [n1, n2]; exact rfl
    · simp only [c1, c2]
      rw [mkTie_perm hc, h.hasK]
      split
      · exact h.decK _
      · have hf := h.foldDec hc
        rw [hf.getK, hc.length_eq]
        exact hf.setK _ _

theorem subtractLoop_rel {v₁ v₂ : Votes} (hv : ∀ c, getD v₁ c 0 = getD v₂ c 0) (q : Rat) (prev : IMap) (k : Nat) :
    ∀ {s₁ s₂ : Sel}, SRel s₁ s₂ → ExceptEquiv SRel (subtractLoop v₁ q prev k s₁) (subtractLoop v₂ q prev k s₂) := by
  induction k with
  | zero => intro s₁ s₂ h; exact h
  | succ k ih =>
    intro s₁ s₂ h
    unfold subtractLoop
    have hs := subtractStep_rel hv q prev h
    cases h1 : subtractStep v₁ q prev s₁ <;> cases h2 : subtractStep v₂ q prev s₂ <;> rw [h1, h2] at hs
    · exact hs
    · exact hs.elim
    · exact hs.elim
    · exact ih hs

end VL.Perm.Sub

namespace VL.Perm
open VL VL.QD VL.C10 VL.Perm.Sub

theorem getD_perm_votes {v₁ v₂ : Votes} (h : v₁.Perm v₂) (hnd : (v₁.map (·.1)).Nodup) (c : Cand) : getD v₁ c 0 = getD v₂ c 0 := by
  unfold getD; rw [lookup_perm h hnd]

/-- every over-award policy, `subtract` included -/
theorem applyPolicy_perm_all (cfg : Cfg) {v₁ v₂ : Votes} (h : v₁.Perm v₂) (hnd : (v₁.map (·.1)).Nodup) (n : Nat) (prev : IMap)
    {s₁ s₂ : Sel} (hs : SRel s₁ s₂) :
    ExceptEquiv SRel (applyPolicy cfg v₁ n prev s₁) (applyPolicy cfg v₂ n prev s₂) := by
  unfold applyPolicy
  simp only
  rw [sumK_perm hs.perm]
  split
  · cases hp : cfg.onOver with
    | ignore => exact hs
    | error => exact rfl
    | subtract =>
      simp only
      unfold subtractOveraward
      simp only
      rw [sumK_perm hs.perm, sumVals_perm h]
      exact subtractLoop_rel (getD_perm_votes h hnd) _ prev _ hs
  · exact hs

/-- **QuotaDistributor: ballot-order independence, every over-award policy** (`subtract` included): the same dict up to
    insertion order (distinct keys), or the same exception -/
theorem quotaDistribute_perm_all (cfg : Cfg) {v₁ v₂ : Votes} (h : v₁.Perm v₂) (hnd : (v₁.map (·.1)).Nodup) (n : Nat)
    (prev maxS : IMap) :
    ExceptEquiv (fun r₁ r₂ => r₁.Perm r₂ ∧ KNodup r₁) (quotaDistribute cfg v₁ n prev maxS) (quotaDistribute cfg v₂ n prev maxS) := by
  have hnd2 : (v₂.map (·.1)).Nodup := (h.map _).nodup_iff.mp hnd
  rw [quotaDistribute_form cfg v₁ n prev maxS hnd, quotaDistribute_form cfg v₂ n prev maxS hnd2, qdRefused_perm cfg h]
  split
  · exact rfl
  · have := applyPolicy_perm_all cfg h hnd n prev
      (srel_of_perm (qdSel_perm cfg h n prev maxS) (KNodup_qdSel cfg v₁ n prev maxS hnd))
    cases h1 : applyPolicy cfg v₁ n prev (qdSel cfg v₁ n prev maxS) <;>
      cases h2 : applyPolicy cfg v₂ n prev (qdSel cfg v₂ n prev maxS) <;> rw [h1, h2] at this
    · exact this
    · exact this.elim
    · exact this.elim
    · exact ⟨SRel.perm this, this.nd₁⟩

/-- **LargestRemainder: ballot-order independence, every over-award policy** (`subtract` included) -/
theorem largestRemainder_perm_all (cfg : Cfg) {v₁ v₂ : Votes} (h : v₁.Perm v₂)
    (hnd : (v₁.map (·.1)).Nodup) (n : Nat) (prev maxS : IMap) (hprev : (prev.map (·.1)).Nodup) :
    ExceptEquiv DistEquiv (largestRemainder cfg v₁ n prev maxS) (largestRemainder cfg v₂ n prev maxS) := by
  have hnd2 : (v₂.map (·.1)).Nodup := (h.map _).nodup_iff.mp hnd
  have hqd := quotaDistribute_perm_all cfg h hnd n prev maxS
  unfold largestRemainder
  cases h1 : quotaDistribute cfg v₁ n prev maxS with
  | error e₁ =>
    cases h2 : quotaDistribute cfg v₂ n prev maxS with
    | error e₂ => rw [h1, h2] at hqd; exact hqd
    | ok _ => rw [h1, h2] at hqd; exact hqd.elim
  | ok qe₁ =>
    cases h2 : quotaDistribute cfg v₂ n prev maxS with
    | error e₂ => rw [h1, h2] at hqd; exact hqd.elim
    | ok qe₂ =>
      rw [h1, h2] at hqd
      have hperm : qe₁.Perm qe₂ := hqd.1
      have hk1 : KNodup qe₁ := hqd.2
      simp only
      rw [sumVals_perm h]
      -- the remainders
      have hg : ∀ c, getK (addDict qe₁ (prevAsSel prev)) (.cand c) 0 = getK (addDict qe₂ (prevAsSel prev)) (.cand c) 0 := by
        intro c
        rw [getK_addDict_prev prev hprev, getK_addDict_prev prev hprev, getK_eq_look, getK_eq_look, look_perm hperm hk1]
      have hrem : (lrRemainders v₁ (cfg.quota (sumVals v₂) n) (addDict qe₁ (prevAsSel prev)) maxS).Perm
          (lrRemainders v₂ (cfg.quota (sumVals v₂) n) (addDict qe₂ (prevAsSel prev)) maxS) := by
        rw [lrRemainders_congr v₁ _ _ _ maxS hg]
        exact lrRemainders_perm h _ _ _
      have hnil : (lrRemainders v₁ (cfg.quota (sumVals v₂) n) (addDict qe₁ (prevAsSel prev)) maxS ≠ []) ↔
          (lrRemainders v₂ (cfg.quota (sumVals v₂) n) (addDict qe₂ (prevAsSel prev)) maxS ≠ []) := by
        constructor
        · intro hne he; rw [he] at hrem; exact hne hrem.eq_nil
        · intro hne he; rw [he] at hrem; exact hne hrem.symm.eq_nil
      have hsum : sumK (addDict qe₁ (prevAsSel prev)) = sumK (addDict qe₂ (prevAsSel prev)) := by
        rw [sumK_addDict, sumK_addDict, sumK_perm hperm]
      rw [hsum]
      by_cases hz : cfg.quota (sumVals v₂) n = 0 ∧
          lrRemainders v₁ (cfg.quota (sumVals v₂) n) (addDict qe₁ (prevAsSel prev)) maxS ≠ []
      · rw [if_pos hz, if_pos ⟨hz.1, hnil.mp hz.2⟩]; exact rfl
      · rw [if_neg hz, if_neg (fun hh => hz ⟨hh.1, hnil.mpr hh.2⟩)]
        intro k
        have hbest := getNBest_perm _ _ hrem ((n : Int) - sumK (addDict qe₂ (prevAsSel prev))).toNat
        have hfold : ∀ (l : List Slot) (s : Sel),
            l.foldl (fun acc x => incK acc (slotKey x)) s = (l.map slotKey).foldl incK s := by
          intro l s; rw [List.foldl_map]
        rw [hfold, hfold, look_foldl_incK, look_foldl_incK, (slotKeys_perm hbest).count_eq, look_perm hperm hk1]


end VL.Perm
