/-
  Highest averages as the proportional evaluator of the overhang adjusters: the facts about
  `haEval div` (= `VL.highestAverages`, C01) that the C15 theorems need —
  distinct result keys, `result.get(c, 0) = haSeats`, and "every open seat is filled" when no caps are given.
-/
import VotelibProofs.Lemmas.Overhang
import VotelibProofs.Props.C01
namespace VL.OH
open VL HACfg

/-! ### sums -/

theorem foldl_add_eq_sum (l : List (Cand × Nat)) (a : Nat) :
    l.foldl (fun acc p => acc + p.2) a = a + (l.map (·.2)).sum := by
  induction l generalizing a with
  | nil => simp
  | cons x xs ih => simp only [List.foldl_cons, List.map_cons, List.sum_cons]; rw [ih]; omega

theorem sumPrev_eq (cfg : HACfg) : cfg.sumPrev = sumSeats cfg.prev := by
  unfold HACfg.sumPrev sumSeats
  rw [foldl_add_eq_sum]; omega

theorem natLookup_le_sumSeats (l : Seats) (c : Cand) : natLookup l c 0 ≤ sumSeats l := by
  unfold natLookup sumSeats
  cases hf : l.find? (fun p => p.1 = c) with
  | none => simp
  | some p =>
    have hm := List.mem_of_find?_eq_some hf
    simp only
    exact List.single_le_sum (by simp) _ (List.mem_map.mpr ⟨p, hm, rfl⟩)

theorem sumDist_append (a b : Dist) : sumDist (a ++ b) = sumDist a + sumDist b := by
  unfold sumDist; simp

theorem sumDist_normDist (d : Dist) : sumDist (normDist d) = sumDist d := by
  unfold sumDist normDist
  simp [List.map_map, Function.comp_def]

/-! ### `normDist` only touches `Tie` keys -/

theorem normKey_cand_iff (k : Key) (c : Cand) : normKey k = .cand c ↔ k = .cand c := by
  cases k <;> simp [normKey]

theorem distGet_normDist_cand (d : Dist) (c : Cand) : distGet (normDist d) (.cand c) = distGet d (.cand c) := by
  unfold distGet normDist
  rw [List.find?_map]
  have hf : ((fun p : Key × Nat => decide (p.1 = Key.cand c)) ∘ fun p : Key × Nat => (normKey p.1, p.2))
      = (fun p => decide (p.1 = Key.cand c)) := by
    funext p
    simp only [Function.comp]
    exact decide_eq_decide.mpr (normKey_cand_iff _ _)
  rw [hf]
  cases List.find? (fun p : Key × Nat => decide (p.1 = Key.cand c)) d <;> rfl

/-! ### the result dictionary of highest averages -/

/-- the individual entries of `haResult` -/
def haCandPart (cfg : HACfg) : Dist :=
  (haCands cfg).filterMap (fun c =>
    if (haRun cfg).tot c > cfg.prevOf c then some (Key.cand c, (haRun cfg).tot c - cfg.prevOf c) else none)

def haTiePart (cfg : HACfg) : Dist :=
  match (haRun cfg).tie with
  | some (T, m) => if m > 0 then [(Key.tie T, m)] else []
  | none => []

theorem haResult_split (cfg : HACfg) : haResult cfg = haCandPart cfg ++ haTiePart cfg := rfl

theorem filterMap_cand_keys (L : List Cand) (f : Cand → Nat) :
    ((L.filterMap (fun c => if f c > 0 then some (Key.cand c, f c) else none)).map (·.1))
      = (L.filter (fun c => decide (f c > 0))).map Key.cand := by
  induction L with
  | nil => rfl
  | cons x xs ih =>
    by_cases hx : f x > 0
    · simp [List.filterMap_cons, List.filter_cons, hx, ih]
    · simp [List.filterMap_cons, List.filter_cons, hx, ih]

theorem haCandPart_eq (cfg : HACfg) :
    haCandPart cfg = (haCands cfg).filterMap (fun c =>
      if haSeats cfg c > 0 then some (Key.cand c, haSeats cfg c) else none) := by
  unfold haCandPart haSeats
  apply List.filterMap_congr
  intro c _
  by_cases h : (haRun cfg).tot c > cfg.prevOf c
  · have : (haRun cfg).tot c - cfg.prevOf c > 0 := by omega
    simp [h, this]
  · have : ¬ (haRun cfg).tot c - cfg.prevOf c > 0 := by omega
    simp [h, this]

theorem haCandPart_keys (cfg : HACfg) :
    (haCandPart cfg).map (·.1) = ((haCands cfg).filter (fun c => decide (haSeats cfg c > 0))).map Key.cand := by
  rw [haCandPart_eq]; exact filterMap_cand_keys _ _

theorem haTiePart_cases (cfg : HACfg) : haTiePart cfg = [] ∨ ∃ T m, haTiePart cfg = [(Key.tie T, m)] := by
  unfold haTiePart
  split
  · split
    · exact Or.inr ⟨_, _, rfl⟩
    · exact Or.inl rfl
  · exact Or.inl rfl

/-- the keys of the (canonicalised) result are pairwise distinct -/
theorem haResult_norm_nodup (cfg : HACfg) : ((normDist (haResult cfg)).map (·.1)).Nodup := by
  have hc : ((normDist (haCandPart cfg)).map (·.1)) = (haCandPart cfg).map (·.1) := by
    unfold normDist
    rw [List.map_map]
    apply List.map_congr_left
    intro p hp
    have : p.1 ∈ (haCandPart cfg).map (·.1) := List.mem_map.mpr ⟨p, hp, rfl⟩
    rw [haCandPart_keys] at this
    obtain ⟨c, _, hc⟩ := List.mem_map.mp this
    simp only [Function.comp]
    rw [← hc]; rfl
  have hcn : ((haCandPart cfg).map (·.1)).Nodup := by
    rw [haCandPart_keys]
    exact ((haCands_nodup cfg).filter _).map (fun a b h => by cases h; rfl)
  rw [haResult_split]
  unfold normDist at hc ⊢
  rw [List.map_append, List.map_append]
  rcases haTiePart_cases cfg with h0 | ⟨T, m, hT⟩
  · rw [h0]; simp only [List.map_nil, List.append_nil]; rw [hc]; exact hcn
  · rw [hT, hc]
    simp only [List.map_cons, List.map_nil]
    rw [List.nodup_append]
    refine ⟨hcn, by simp, ?_⟩
    intro a ha b hb
    simp only [List.mem_singleton] at hb
    subst hb
    rw [haCandPart_keys] at ha
    obtain ⟨c, _, rfl⟩ := List.mem_map.mp ha
    simp [normKey]

/-- `result.get(c, 0)` is the number of seats awarded individually to `c` -/
theorem distGet_haResult (cfg : HACfg) (h : CfgOK cfg) (c : Cand) :
    distGet (normDist (haResult cfg)) (.cand c) = haSeats cfg c := by
  rw [distGet_normDist_cand]
  by_cases hpos : 0 < haSeats cfg c
  · have hm : (Key.cand c, haSeats cfg c) ∈ haResult cfg := (C01.haResult_cand cfg h c _).mpr ⟨hpos, rfl⟩
    -- first match is this entry: keys of the candidate part are distinct and the tie part has no candidate key
    have hnd : ((haResult cfg).map (·.1)).Nodup := by
      have hcn : ((haCandPart cfg).map (·.1)).Nodup := by
        rw [haCandPart_keys]
        exact ((haCands_nodup cfg).filter _).map (fun a b h => by cases h; rfl)
      rw [haResult_split, List.map_append, List.nodup_append]
      refine ⟨hcn, ?_, ?_⟩
      · rcases haTiePart_cases cfg with h0 | ⟨T, m, hT⟩
        · rw [h0]; simp
        · rw [hT]; simp
      · intro a ha b hb
        rcases haTiePart_cases cfg with h0 | ⟨T, m, hT⟩
        · rw [h0] at hb; simp at hb
        · rw [hT] at hb
          simp only [List.map_cons, List.map_nil, List.mem_singleton] at hb
          subst hb
          rw [haCandPart_keys] at ha
          obtain ⟨c', _, rfl⟩ := List.mem_map.mp ha
          simp
    exact distGet_of_mem hnd hm
  · have h0 : haSeats cfg c = 0 := by omega
    rw [h0]
    apply distGet_eq_zero_of_not_mem
    intro hk
    obtain ⟨p, hp, hpk⟩ := List.mem_map.mp hk
    have : (Key.cand c, p.2) ∈ haResult cfg := by rw [← hpk]; exact hp
    exact hpos ((C01.haResult_cand cfg h c _).mp this).1

theorem sum_filterMap_pos (L : List Cand) (f : Cand → Nat) :
    sumDist (L.filterMap (fun c => if f c > 0 then some (Key.cand c, f c) else none)) = (L.map f).sum := by
  unfold sumDist
  induction L with
  | nil => rfl
  | cons x xs ih =>
    by_cases hx : f x > 0
    · rw [List.filterMap_cons, if_pos hx]
      simp only [List.map_cons, List.sum_cons, ih]
    · rw [List.filterMap_cons, if_neg hx]
      simp only [List.map_cons, List.sum_cons, ih]
      omega

theorem sumDist_haTiePart (cfg : HACfg) : sumDist (haTiePart cfg) = tieSeats (haRun cfg) := by
  unfold haTiePart tieSeats sumDist
  cases (haRun cfg).tie with
  | none => rfl
  | some Tm =>
    obtain ⟨T, m⟩ := Tm
    simp only
    split
    · simp
    · rename_i hm
      have : m = 0 := by omega
      simp [this]

theorem sumDist_haResult (cfg : HACfg) :
    sumDist (haResult cfg) = ((haCands cfg).map (haSeats cfg)).sum + tieSeats (haRun cfg) := by
  rw [haResult_split, sumDist_append, haCandPart_eq, sum_filterMap_pos, sumDist_haTiePart]

/-- **Every open seat is filled.**  Without caps (every cap is the house size), with at least one eligible
    party (the evaluator did not refuse) and previous gains that fit into the house, highest averages awards
    exactly `n - Σ prev` seats (individually or through a reported tie). -/
theorem ha_fills (cfg : HACfg) (h : CfgOK cfg) (hcaps : cfg.caps = []) (hsum : sumSeats cfg.prev ≤ cfg.n)
    (hpool : (haInit cfg).pool ≠ []) :
    sumSeats cfg.prev + sumDist (haResult cfg) = cfg.n := by
  obtain ⟨htot, hrem⟩ := C01.ha_total cfg h
  rw [sumDist_haResult]
  unfold openSeats at htot
  rw [sumPrev_eq] at htot
  have hcap : ∀ c, cfg.capOf c = cfg.n := by
    intro c; unfold HACfg.capOf; rw [hcaps]; rfl
  have hrem0 : (haRun cfg).rem = 0 := by
    rcases hrem with h0 | hall
    · exact h0
    · obtain ⟨p, hp⟩ := List.exists_mem_of_ne_nil _ hpool
      obtain ⟨q, hq, _, hlt, _⟩ := (haInit_pool_mem cfg p).mp hp
      have he : Elig0 cfg q.1 := ⟨List.mem_map.mpr ⟨q, hq, rfl⟩, hlt⟩
      have hfull := hall q.1 he
      rw [hcap] at hfull
      have h1 : cfg.prevOf q.1 ≤ sumSeats cfg.prev := natLookup_le_sumSeats cfg.prev q.1
      have h2 : haSeats cfg q.1 ≤ ((haCands cfg).map (haSeats cfg)).sum :=
        List.single_le_sum (by simp) _ (List.mem_map.mpr ⟨q.1, mem_haCands_of_key he.1, rfl⟩)
      omega
  omega

end VL.OH
