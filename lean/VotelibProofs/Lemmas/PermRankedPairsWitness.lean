/-
  C10: ranked pairs under the literal premise of the property ("the majorities have pairwise distinct strengths") is NOT
  independent of the insertion order: a pairwise TIE (no majority between the two candidates, so the premise holds
  vacuously) is locked in the order in which the two opposite pairs stand in the dictionary.
  `rankedPairs_perm` (PermRankedPairs.lean) therefore needs more than distinct majorities: `RPDistinct`.
-/
import VotelibProofs.Lemmas.PermRankedPairs
import VotelibProofs.Lemmas.PermSymmetric
namespace VL.Perm
open VL VL.Condorcet VL.C10

/-- the majorities (strict pairwise wins) of `v` have pairwise distinct strengths under the scorer -/
def MajoritiesDistinct (sc : Scorer) (v : Pairwise) : Prop :=
  ((pairwiseWins v false).map (fun p => pget (scorePairs sc v) p)).Nodup

instance (sc : Scorer) (v : Pairwise) : Decidable (MajoritiesDistinct sc v) := by unfold MajoritiesDistinct; infer_instance

/-- two candidates tied pairwise: no majority at all, yet the ranking follows the dict order (all three pair scorers) -/
theorem rankedPairs_pairwise_tie_order_witness :
    ¬ ∀ (sc : Scorer) (v₁ v₂ : Pairwise) (n : Nat), v₁.Perm v₂ → (v₁.map (·.1)).Nodup → MajoritiesDistinct sc v₁ →
      ExceptEquiv SlotsEquiv (rankedPairs sc v₁ n) (rankedPairs sc v₂ n) := by
  intro h
  have := h .winningVotes [((0, 1), 1), ((1, 0), 1)] [((1, 0), 1), ((0, 1), 1)] 1 (by decide) (by decide) (by decide +kernel)
  have e1 : rankedPairs .winningVotes [((0, 1), 1), ((1, 0), 1)] 1 = .ok [Slot.cand 0] := by decide +kernel
  have e2 : rankedPairs .winningVotes [((1, 0), 1), ((0, 1), 1)] 1 = .ok [Slot.cand 1] := by decide +kernel
  rw [e1, e2] at this
  have hel := (elected_equiv this 0).mp (by unfold Elected; simp)
  unfold Elected at hel
  simp at hel

end VL.Perm
