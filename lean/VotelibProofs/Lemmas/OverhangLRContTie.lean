/-
  Continuation of a Hare largest-remainder distribution from a sub-allocation when the from-scratch distribution
  reports a tie (model lrHareEval).
-/
import VotelibProofs.Lemmas.OverhangLRCont
namespace VL.OH
open VL

/-- `get_n_best` never seats one of two equal values individually and passes the other over: whoever is elected
    individually has strictly more than whoever is not -/
theorem elected_gt_unelected (votes : Votes) (hnd : (votes.map (·.1)).Nodup) (n : Nat)
    (p p' : Cand × Rat) (hp : p ∈ votes) (hp' : p' ∈ votes)
    (he : Slot.cand p.1 ∈ getNBest votes n) (hne : Slot.cand p'.1 ∉ getNBest votes n) : p'.2 < p.2 := by
  by_cases ht : ∃ T, Slot.tie T ∈ getNBest votes n
  · obtain ⟨T, hT⟩ := ht
    obtain ⟨t, _, _, _, habove, hbelow⟩ := tie_case votes hnd n T hT
    have h1 : t < p.2 := by
      by_contra hle
      exact hbelow p hp (not_lt.mp hle) he
    have h2 : p'.2 ≤ t := by
      by_contra hgt
      exact hne (habove p' hp' (not_le.mp hgt))
    exact lt_of_le_of_lt h2 h1
  · apply elected_gt_unelected_of_no_tie votes hnd n _ p p' hp hp' he hne
    intro s hs
    cases s with
    | cand c => rfl
    | tie T => exact absurd ⟨T, hs⟩ ht

theorem tie_slot_unique (votes : Votes) (n : Nat) (T T' : List Cand) (h : Slot.tie T ∈ getNBest votes n)
    (h' : Slot.tie T' ∈ getNBest votes n) : T = T' := by
  obtain ⟨k, j, Ts, hs⟩ := QD.getNBest_shape votes n
  rw [hs] at h h'
  have key : ∀ X, Slot.tie X ∈ ((sortDesc votes).take k).map (fun p => Slot.cand p.1) ++ List.replicate j (Slot.tie Ts) → X = Ts := by
    intro X hX
    rcases List.mem_append.mp hX with hX | hX
    · obtain ⟨x, _, hx⟩ := List.mem_map.mp hX; cases hx
    · have := (List.mem_replicate.mp hX).2; injection this
  rw [key T h, key T' h']

theorem exists_tie_of_countP_pos (l : List Slot) (h : 0 < l.countP isTieSlot) : ∃ T, Slot.tie T ∈ l := by
  obtain ⟨s, hs, hp⟩ := List.countP_pos_iff.mp h
  cases s with
  | cand c => simp [isTieSlot] at hp
  | tie T => exact ⟨T, hs⟩

/-- **Continuation from a sub-allocation, Hare largest remainder, ties allowed.** -/
theorem lr_continue_tie (votes : Votes) (hne : votes ≠ []) (hv : ∀ p ∈ votes, 0 ≤ p.2) (hn : (keys votes).Nodup)
    (N : Nat) (prev : Seats) (hpn : (prev.map (·.1)).Nodup) (hpk : ∀ p ∈ prev, p.1 ∈ keys votes)
    (rP r0 : Dist) (hP : lrHareEval votes N prev [] = .ok rP) (h0 : lrHareEval votes N [] [] = .ok r0)
    (hle : ∀ p ∈ votes, natLookup prev p.1 0 ≤ distGet r0 (.cand p.1)) :
    (∀ p ∈ votes, natLookup prev p.1 0 + distGet rP (.cand p.1) = distGet r0 (.cand p.1)) ∧
    (lrBest votes N prev).countP isTieSlot = (lrBest votes N []).countP isTieSlot ∧
    (∀ T, Slot.tie T ∈ lrBest votes N prev ↔ Slot.tie T ∈ lrBest votes N []) := by
  have hq : 0 < lrQ votes N := lrQ_pos votes hne hv N prev rP hP
  have hkn : (votes.map (·.1)).Nodup := hn
  have hF0 : ∀ p ∈ votes, 0 ≤ lrF votes N p := fun p hp => Int.floor_nonneg.mpr (div_nonneg (hv p hp) (le_of_lt hq))
  have hFle : ∀ p : Cand × Rat, ((lrF votes N p : Int) : Rat) ≤ p.2 / (lrQ votes N) := fun p => Int.floor_le _
  have hFlt : ∀ p : Cand × Rat, p.2 / (lrQ votes N) < ((lrF votes N p : Int) : Rat) + 1 := fun p => Int.lt_floor_add_one _
  have hG : ∀ p ∈ votes, ((lrG votes N prev p : Nat) : Int) = max (lrF votes N p) ((natLookup prev p.1 0 : Nat) : Int) :=
    fun p hp => hareContrib_add_prev (lrQ votes N) hq prev p (hv p hp)
  have hC0 : ∀ p ∈ votes, ((lrG votes N [] p : Nat) : Int) = lrF votes N p := by
    intro p hp
    have := hareContrib_add_prev (lrQ votes N) hq [] p (hv p hp)
    have h0' : natLookup ([] : Seats) p.1 0 = 0 := rfl
    rw [h0'] at this
    have hf := hF0 p hp
    simp only [Nat.add_zero] at this
    show ((hareContrib (lrQ votes N) [] p : Nat) : Int) = lrF votes N p
    rw [this]
    show max (lrF votes N p) ((0 : Nat) : Int) = lrF votes N p
    simp only [Nat.cast_zero]
    exact max_eq_left hf
  have ha : ∀ p ∈ votes, lrA prev rP p = lrG votes N prev p + lrW votes N prev p := by
    intro p hp
    rw [lrA_def, lrG_def, lrW_def, lrHare_get votes hn N prev rP hP p hp]
    omega
  have hf : ∀ p ∈ votes, lrTot r0 p = lrG votes N [] p + lrW votes N [] p := fun p hp => lrHare_get votes hn N [] r0 h0 p hp
  have hwP : ∀ p : Cand × Rat, lrW votes N prev p ≤ 1 := fun p =>
    QD.count_cand_getNBest_le_one _ (by rw [lrRems_keys]; exact hkn) _ _
  have hw0 : ∀ p : Cand × Rat, lrW votes N [] p ≤ 1 := fun p =>
    QD.count_cand_getNBest_le_one _ (by rw [lrRems_keys]; exact hkn) _ _
  -- entries of the remainder lists
  have hremP : ∀ p ∈ votes, (p.1, p.2 / (lrQ votes N) - ((lrG votes N prev p : Nat) : Rat)) ∈ lrRems votes N prev := by
    intro p hp
    unfold lrRems
    refine List.mem_map.mpr ⟨p, hp, ?_⟩
    rw [lrGained_eq votes hn N prev p hp]
    rfl
  have hrem0 : ∀ p ∈ votes, (p.1, p.2 / (lrQ votes N) - ((lrG votes N [] p : Nat) : Rat)) ∈ lrRems votes N [] := by
    intro p hp
    unfold lrRems
    refine List.mem_map.mpr ⟨p, hp, ?_⟩
    rw [lrGained_eq votes hn N [] p hp]
    rfl
  have helP : ∀ p : Cand × Rat, lrW votes N prev p = 1 ↔ Slot.cand p.1 ∈ lrBest votes N prev := by
    intro p
    constructor
    · intro h1
      have h2 : 0 < lrW votes N prev p := by omega
      exact List.count_pos_iff.mp h2
    · intro hm
      have h1 : 0 < lrW votes N prev p := List.count_pos_iff.mpr hm
      have := hwP p; omega
  have hel0 : ∀ p : Cand × Rat, lrW votes N [] p = 1 ↔ Slot.cand p.1 ∈ lrBest votes N [] := by
    intro p
    constructor
    · intro h1
      have h2 : 0 < lrW votes N [] p := by omega
      exact List.count_pos_iff.mp h2
    · intro hm
      have h1 : 0 < lrW votes N [] p := List.count_pos_iff.mpr hm
      have := hw0 p; omega
  -- sums
  have hsumprev : sumSeats prev = (votes.map (fun p => natLookup prev p.1 0)).sum := by
    rw [sumSeats_eq_lookup prev hpn]
    have := sum_eq_of_support (keys votes) (prev.map (·.1)) hn hpn
      (fun c hc => by obtain ⟨p, hp, rfl⟩ := List.mem_map.mp hc; exact hpk p hp)
      (fun c => natLookup prev c 0) (fun c _ hc => natLookup_zero_of_not_mem prev c hc)
    rw [← this]
    unfold keys
    rw [List.map_map]
    rfl
  have hsumG : (votes.map (lrG votes N prev)).sum = sumSeats (lrQe votes N prev) + sumSeats prev := by
    have : (votes.map (lrG votes N prev)).sum = (votes.map (hareContrib (lrQ votes N) prev)).sum + (votes.map (fun p => natLookup prev p.1 0)).sum := List.sum_map_add
    rw [this, hsumprev]
    unfold lrQe
    rw [sumSeats_filterMap_hareAdd]
  have hsumC0 : (votes.map (lrG votes N [])).sum = sumSeats (lrQe votes N []) := by
    unfold lrQe
    rw [sumSeats_filterMap_hareAdd]
    apply congrArg
    apply List.map_congr_left
    intro p _
    rfl
  have hlenP := lrBest_length votes hne hv hn N prev rP hP
  have hlen0 := lrBest_length votes hne hv hn N [] r0 h0
  have hslotP := slot_count votes hkn (lrBest votes N prev) (fun c hc => by
    obtain ⟨e, he, hec⟩ := QD.cand_mem_getNBest _ _ _ hc
    rw [← hec, ← lrRems_keys votes N prev]
    exact List.mem_map.mpr ⟨e, he, rfl⟩)
  have hslot0 := slot_count votes hkn (lrBest votes N []) (fun c hc => by
    obtain ⟨e, he, hec⟩ := QD.cand_mem_getNBest _ _ _ hc
    rw [← hec, ← lrRems_keys votes N []]
    exact List.mem_map.mpr ⟨e, he, rfl⟩)
  have hsuma : (votes.map (lrA prev rP)).sum + (lrBest votes N prev).countP isTieSlot = N := by
    have e : (votes.map (lrA prev rP)).sum = (votes.map (lrG votes N prev)).sum + (votes.map (lrW votes N prev)).sum := by
      rw [← List.sum_map_add]
      apply congrArg
      apply List.map_congr_left
      intro p hp; exact ha p hp
    rw [e, hsumG]
    show _ + (votes.map (fun p => (lrBest votes N prev).count (Slot.cand p.1))).sum + _ = N
    omega
  have hsumf : (votes.map (lrTot r0)).sum + (lrBest votes N []).countP isTieSlot = N := by
    have e : (votes.map (lrTot r0)).sum = (votes.map (lrG votes N [])).sum + (votes.map (lrW votes N [])).sum := by
      rw [← List.sum_map_add]
      apply congrArg
      apply List.map_congr_left
      intro p hp; exact hf p hp
    rw [e, hsumC0]
    have hs0 : sumSeats ([] : Seats) = 0 := rfl
    rw [hs0] at hlen0
    show _ + (votes.map (fun p => (lrBest votes N []).count (Slot.cand p.1))).sum + _ = N
    omega
  -- a party short of its from-scratch total sits on its whole quotas, lost in P and won in 0
  have hshort : ∀ p ∈ votes, lrA prev rP p < lrTot r0 p → ((lrG votes N prev p : Nat) : Int) = lrF votes N p ∧ lrW votes N prev p = 0 ∧ lrW votes N [] p = 1 := by
    intro p hp hlt
    have h1 := ha p hp
    have h2 := hf p hp
    have h3 := hG p hp
    have h4 := hC0 p hp
    have h5 := hw0 p
    have h6 : lrF votes N p ≤ ((lrG votes N prev p : Nat) : Int) := by rw [h3]; exact le_max_left _ _
    refine ⟨?_, ?_, ?_⟩ <;> omega
  have hfrac0 : ∀ p : Cand × Rat, 0 ≤ p.2 / (lrQ votes N) - ((lrF votes N p : Int) : Rat) := fun p => by
    have := hFle p; linarith
  -- a party holding more than its from-scratch total cannot coexist with a party that is short
  have hcross : ∀ p ∈ votes, ∀ p' ∈ votes, lrTot r0 p < lrA prev rP p → lrA prev rP p' < lrTot r0 p' → False := by
    intro p hp p' hp' hgt' hlt'
    obtain ⟨hG', hwP', hw0'⟩ := hshort p' hp' hlt'
    have h1 := ha p hp
    have h2 := hf p hp
    have h3 := hG p hp
    have h4 := hC0 p hp
    have h5 := hwP p
    have hnel' : Slot.cand p'.1 ∉ lrBest votes N prev := fun hm => by
      have := (helP p').mpr hm; omega
    have hel0' : Slot.cand p'.1 ∈ lrBest votes N [] := (hel0 p').mp hw0'
    have hGR' : ((lrG votes N prev p' : Nat) : Rat) = ((lrF votes N p' : Int) : Rat) := by exact_mod_cast hG'
    have hCR' : ((lrG votes N [] p' : Nat) : Rat) = ((lrF votes N p' : Int) : Rat) := by exact_mod_cast hC0 p' hp'
    have hCR : ((lrG votes N [] p : Nat) : Rat) = ((lrF votes N p : Int) : Rat) := by exact_mod_cast h4
    by_cases hcase : ((lrG votes N prev p : Nat) : Int) = lrF votes N p
    · have hwp : lrW votes N prev p = 1 := by omega
      have hw0p : lrW votes N [] p = 0 := by omega
      have help : Slot.cand p.1 ∈ lrBest votes N prev := (helP p).mp hwp
      have hnel0 : Slot.cand p.1 ∉ lrBest votes N [] := fun hm => by
        have := (hel0 p).mpr hm; omega
      have hGR : ((lrG votes N prev p : Nat) : Rat) = ((lrF votes N p : Int) : Rat) := by exact_mod_cast hcase
      have e1 := QD.elected_ge_unelected _ (by rw [lrRems_keys]; exact hkn) _ _ _
        (hremP p hp) (hremP p' hp') help hnel'
      have e2 := elected_gt_unelected _ (by rw [lrRems_keys]; exact hkn) _ _ _
        (hrem0 p' hp') (hrem0 p hp) hel0' hnel0
      simp only at e1 e2
      rw [hGR, hGR'] at e1
      rw [hCR, hCR'] at e2
      linarith
    · have hlep := hle p hp
      have hgtF : lrF votes N p < ((lrG votes N prev p : Nat) : Int) := by
        have : lrF votes N p ≤ ((lrG votes N prev p : Nat) : Int) := by rw [h3]; exact le_max_left _ _
        omega
      have hmax : ((lrG votes N prev p : Nat) : Int) = ((natLookup prev p.1 0 : Nat) : Int) := by
        rw [h3]
        rcases le_total (lrF votes N p) ((natLookup prev p.1 0 : Nat) : Int) with hle' | hle'
        · exact max_eq_right hle'
        · exfalso; apply hcase; rw [h3]; exact max_eq_left hle'
      have h6 := hw0 p
      have hpvle : ((natLookup prev p.1 0 : Nat) : Int) ≤ ((lrTot r0 p : Nat) : Int) := by exact_mod_cast hlep
      have hGval : ((lrG votes N prev p : Nat) : Int) = lrF votes N p + 1 := by omega
      have hwp : lrW votes N prev p = 1 := by omega
      have help : Slot.cand p.1 ∈ lrBest votes N prev := (helP p).mp hwp
      have hGR : ((lrG votes N prev p : Nat) : Rat) = ((lrF votes N p : Int) : Rat) + 1 := by exact_mod_cast hGval
      have e1 := QD.elected_ge_unelected _ (by rw [lrRems_keys]; exact hkn) _ _ _
        (hremP p hp) (hremP p' hp') help hnel'
      simp only at e1
      rw [hGR, hGR'] at e1
      have := hFlt p
      have := hfrac0 p'
      linarith
  -- Claim A
  have hA : ∀ p ∈ votes, lrA prev rP p ≤ lrTot r0 p := by
    intro p hp
    by_contra hgt
    have hgt' : lrTot r0 p < lrA prev rP p := Nat.lt_of_not_ge hgt
    have hall : ∀ p' ∈ votes, lrTot r0 p' ≤ lrA prev rP p' :=
      fun p' hp' => Nat.le_of_not_gt (fun h => hcross p hp p' hp' hgt' h)
    have hsumlt := sum_lt_of_le_of_lt' votes (lrTot r0) (lrA prev rP) hall p hp hgt'
    have htpos : 0 < (lrBest votes N []).countP isTieSlot := by omega
    obtain ⟨T, hTin⟩ := exists_tie_of_countP_pos _ htpos
    obtain ⟨t, hT, hcnt', hcp', habove, hbelow⟩ := tie_case _ (by rw [lrRems_keys]; exact hkn) _ T hTin
    have hcnt : (lrBest votes N []).count (Slot.tie T) < T.length := hcnt'
    have hcp : (lrBest votes N []).countP isTieSlot = (lrBest votes N []).count (Slot.tie T) := hcp'
    have h1 := ha p hp
    have h2 := hf p hp
    have h3 := hG p hp
    have h4 := hC0 p hp
    have h5 := hwP p
    have h6 := hw0 p
    have hCR : ((lrG votes N [] p : Nat) : Rat) = ((lrF votes N p : Int) : Rat) := by exact_mod_cast h4
    -- every party at the cut value of the from-scratch run holds more in the continued run
    have hmem : ∀ q ∈ votes, q.2 / (lrQ votes N) - ((lrG votes N [] q : Nat) : Rat) = t →
        1 ≤ lrA prev rP q - lrTot r0 q := by
      intro q hq hqt
      by_contra hnot
      have haq : lrA prev rP q = lrTot r0 q := by have := hall q hq; omega
      have hnel0q : Slot.cand q.1 ∉ lrBest votes N [] :=
        hbelow (q.1, q.2 / (lrQ votes N) - ((lrG votes N [] q : Nat) : Rat)) (hrem0 q hq) (le_of_eq hqt)
      have hw0q : lrW votes N [] q = 0 := by
        have := hw0 q
        by_contra hne0
        exact hnel0q ((hel0 q).mp (by omega))
      have hq1 := ha q hq
      have hq2 := hf q hq
      have hq3 := hG q hq
      have hq4 := hC0 q hq
      have hqF : lrF votes N q ≤ ((lrG votes N prev q : Nat) : Int) := by rw [hq3]; exact le_max_left _ _
      have hGq : ((lrG votes N prev q : Nat) : Int) = lrF votes N q := by omega
      have hwPq : lrW votes N prev q = 0 := by omega
      have hnelPq : Slot.cand q.1 ∉ lrBest votes N prev := fun hm => by
        have := (helP q).mpr hm; omega
      have hGRq : ((lrG votes N prev q : Nat) : Rat) = ((lrF votes N q : Int) : Rat) := by exact_mod_cast hGq
      have hCRq : ((lrG votes N [] q : Nat) : Rat) = ((lrF votes N q : Int) : Rat) := by exact_mod_cast hq4
      rw [hCRq] at hqt
      have hwp : lrW votes N prev p = 1 := by
        have hF : lrF votes N p ≤ ((lrG votes N prev p : Nat) : Int) := by rw [h3]; exact le_max_left _ _
        have hlep := hle p hp
        have hpvle : ((natLookup prev p.1 0 : Nat) : Int) ≤ ((lrTot r0 p : Nat) : Int) := by exact_mod_cast hlep
        by_cases hcase : ((lrG votes N prev p : Nat) : Int) = lrF votes N p
        · omega
        · have hmax : ((lrG votes N prev p : Nat) : Int) = ((natLookup prev p.1 0 : Nat) : Int) := by
            rw [h3]
            rcases le_total (lrF votes N p) ((natLookup prev p.1 0 : Nat) : Int) with hle' | hle'
            · exact max_eq_right hle'
            · exfalso; apply hcase; rw [h3]; exact max_eq_left hle'
          omega
      have help : Slot.cand p.1 ∈ lrBest votes N prev := (helP p).mp hwp
      have e1 := elected_gt_unelected _ (by rw [lrRems_keys]; exact hkn) _ _ _
        (hremP p hp) (hremP q hq) help hnelPq
      simp only at e1
      rw [hGRq] at e1
      by_cases hcase : ((lrG votes N prev p : Nat) : Int) = lrF votes N p
      · have hGR : ((lrG votes N prev p : Nat) : Rat) = ((lrF votes N p : Int) : Rat) := by exact_mod_cast hcase
        have hw0p : lrW votes N [] p = 0 := by omega
        have hnel0 : Slot.cand p.1 ∉ lrBest votes N [] := fun hm => by
          have := (hel0 p).mpr hm; omega
        have hpt : p.2 / (lrQ votes N) - ((lrG votes N [] p : Nat) : Rat) ≤ t := by
          by_contra hgt2
          exact hnel0 (habove (p.1, p.2 / (lrQ votes N) - ((lrG votes N [] p : Nat) : Rat)) (hrem0 p hp) (not_le.mp hgt2))
        rw [hCR] at hpt
        rw [hGR] at e1
        linarith
      · have hF : lrF votes N p ≤ ((lrG votes N prev p : Nat) : Int) := by rw [h3]; exact le_max_left _ _
        have hGge : lrF votes N p + 1 ≤ ((lrG votes N prev p : Nat) : Int) := by omega
        have hGR : ((lrF votes N p : Int) : Rat) + 1 ≤ ((lrG votes N prev p : Nat) : Rat) := by exact_mod_cast hGge
        have := hFlt p
        have := hfrac0 q
        linarith
    have hTlen : T.length ≤ (votes.map (fun p => lrA prev rP p - lrTot r0 p)).sum := by
      rw [hT]
      unfold level lrRems
      rw [List.length_map, List.filter_map, List.length_map]
      apply filter_length_le_sum
      intro q hq hPq
      simp only [Function.comp, decide_eq_true_eq] at hPq
      apply hmem q hq
      rw [← hPq, lrGained_eq votes hn N [] q hq]
      rfl
    have hdiff : (votes.map (fun p => lrA prev rP p - lrTot r0 p)).sum + (votes.map (lrTot r0)).sum
        = (votes.map (lrA prev rP)).sum := by
      rw [← List.sum_map_add]
      apply congrArg
      apply List.map_congr_left
      intro q hq
      have := hall q hq
      omega
    omega
  -- Claim B
  have hB : ∀ p ∈ votes, lrA prev rP p = lrTot r0 p := by
    intro p hp
    by_contra hne'
    have hlt : lrA prev rP p < lrTot r0 p := lt_of_le_of_ne (hA p hp) hne'
    have hsumlt := sum_lt_of_le_of_lt' votes (lrA prev rP) (lrTot r0) hA p hp hlt
    have htpos : 0 < (lrBest votes N prev).countP isTieSlot := by omega
    obtain ⟨T, hTin⟩ := exists_tie_of_countP_pos _ htpos
    obtain ⟨t, hT, hcnt', hcp', habove, hbelow⟩ := tie_case _ (by rw [lrRems_keys]; exact hkn) _ T hTin
    have hcnt : (lrBest votes N prev).count (Slot.tie T) < T.length := hcnt'
    have hcp : (lrBest votes N prev).countP isTieSlot = (lrBest votes N prev).count (Slot.tie T) := hcp'
    obtain ⟨hG', hwP', hw0'⟩ := hshort p hp hlt
    have hnel' : Slot.cand p.1 ∉ lrBest votes N prev := fun hm => by
      have := (helP p).mpr hm; omega
    have hel0' : Slot.cand p.1 ∈ lrBest votes N [] := (hel0 p).mp hw0'
    have hGR' : ((lrG votes N prev p : Nat) : Rat) = ((lrF votes N p : Int) : Rat) := by exact_mod_cast hG'
    have hCR' : ((lrG votes N [] p : Nat) : Rat) = ((lrF votes N p : Int) : Rat) := by exact_mod_cast hC0 p hp
    have hpt : p.2 / (lrQ votes N) - ((lrF votes N p : Int) : Rat) ≤ t := by
      by_contra hgt
      have := habove (p.1, p.2 / (lrQ votes N) - ((lrG votes N prev p : Nat) : Rat)) (hremP p hp)
        (by show t < p.2 / (lrQ votes N) - ((lrG votes N prev p : Nat) : Rat); rw [hGR']; exact lt_of_not_ge hgt)
      exact hnel' this
    have hmem : ∀ q ∈ votes, q.2 / (lrQ votes N) - ((lrG votes N prev q : Nat) : Rat) = t →
        1 ≤ lrTot r0 q - lrA prev rP q := by
      intro q hq hqt
      have hnelq : Slot.cand q.1 ∉ lrBest votes N prev :=
        hbelow (q.1, q.2 / (lrQ votes N) - ((lrG votes N prev q : Nat) : Rat)) (hremP q hq) (le_of_eq hqt)
      have hwq : lrW votes N prev q = 0 := by
        have := hwP q
        by_contra hne0
        exact hnelq ((helP q).mp (by omega))
      by_contra hnot
      have haq : lrA prev rP q = lrTot r0 q := by have := hA q hq; omega
      have h1 := ha q hq
      have h2 := hf q hq
      have h3 := hG q hq
      have h4 := hC0 q hq
      have h6 := hw0 q
      have hCR : ((lrG votes N [] q : Nat) : Rat) = ((lrF votes N q : Int) : Rat) := by exact_mod_cast h4
      by_cases hcase : ((lrG votes N prev q : Nat) : Int) = lrF votes N q
      · have hw0q : lrW votes N [] q = 0 := by omega
        have hnel0 : Slot.cand q.1 ∉ lrBest votes N [] := fun hm => by
          have := (hel0 q).mpr hm; omega
        have hGR : ((lrG votes N prev q : Nat) : Rat) = ((lrF votes N q : Int) : Rat) := by exact_mod_cast hcase
        have e2 := elected_gt_unelected _ (by rw [lrRems_keys]; exact hkn) _ _ _
          (hrem0 p hp) (hrem0 q hq) hel0' hnel0
        simp only at e2
        rw [hCR, hCR'] at e2
        rw [hGR] at hqt
        linarith
      · have hgtF : lrF votes N q < ((lrG votes N prev q : Nat) : Int) := by
          have : lrF votes N q ≤ ((lrG votes N prev q : Nat) : Int) := by rw [h3]; exact le_max_left _ _
          omega
        have hGval : ((lrG votes N prev q : Nat) : Int) = lrF votes N q + 1 := by omega
        have hGR : ((lrG votes N prev q : Nat) : Rat) = ((lrF votes N q : Int) : Rat) + 1 := by exact_mod_cast hGval
        rw [hGR] at hqt
        have := hFlt q
        have := hfrac0 p
        linarith
    have hTlen : T.length ≤ (votes.map (fun p => lrTot r0 p - lrA prev rP p)).sum := by
      rw [hT]
      unfold level lrRems
      rw [List.length_map, List.filter_map, List.length_map]
      apply filter_length_le_sum
      intro q hq hPq
      simp only [Function.comp, decide_eq_true_eq] at hPq
      apply hmem q hq
      rw [← hPq, lrGained_eq votes hn N prev q hq]
      rfl
    have hdiff : (votes.map (fun p => lrTot r0 p - lrA prev rP p)).sum + (votes.map (lrA prev rP)).sum
        = (votes.map (lrTot r0)).sum := by
      rw [← List.sum_map_add]
      apply congrArg
      apply List.map_congr_left
      intro q hq
      have := hA q hq
      omega
    omega
  have hsumeq : (votes.map (lrA prev rP)).sum = (votes.map (lrTot r0)).sum := by
    apply congrArg
    apply List.map_congr_left
    intro q hq; exact hB q hq
  have hties : (lrBest votes N prev).countP isTieSlot = (lrBest votes N []).countP isTieSlot := by omega
  refine ⟨hB, hties, ?_⟩
  have hmemcount : ∀ (l : List Slot) T, Slot.tie T ∈ l → 0 < l.countP isTieSlot := by
    intro l T h
    exact List.countP_pos_iff.mpr ⟨Slot.tie T, h, rfl⟩
  by_cases hz : (lrBest votes N []).countP isTieSlot = 0
  · intro T
    constructor
    · intro h; have := hmemcount _ T h; omega
    · intro h; have := hmemcount _ T h; omega
  · obtain ⟨T0, hT0in⟩ := exists_tie_of_countP_pos (lrBest votes N []) (by omega)
    obtain ⟨TP, hTPin⟩ := exists_tie_of_countP_pos (lrBest votes N prev) (by omega)
    obtain ⟨t0, hT0, hcnt0, _, habove0, hbelow0⟩ := tie_case _ (by rw [lrRems_keys]; exact hkn) _ T0 hT0in
    obtain ⟨tP, hTP, hcntP, _, haboveP, hbelowP⟩ := tie_case _ (by rw [lrRems_keys]; exact hkn) _ TP hTPin
    -- (i) a party at the cut of the from-scratch run sits on its whole quotas and is at t0 in the continued run too
    have hi : ∀ q ∈ votes, q.2 / (lrQ votes N) - ((lrG votes N [] q : Nat) : Rat) = t0 →
        q.2 / (lrQ votes N) - ((lrG votes N prev q : Nat) : Rat) = t0 ∧ lrW votes N prev q = 0 := by
      intro q hq hqt
      have hnel0q : Slot.cand q.1 ∉ lrBest votes N [] :=
        hbelow0 (q.1, q.2 / (lrQ votes N) - ((lrG votes N [] q : Nat) : Rat)) (hrem0 q hq) (le_of_eq hqt)
      have hw0q : lrW votes N [] q = 0 := by
        have := hw0 q
        by_contra hne0
        exact hnel0q ((hel0 q).mp (by omega))
      have hq1 := ha q hq
      have hq2 := hf q hq
      have hq3 := hG q hq
      have hq4 := hC0 q hq
      have hqB := hB q hq
      have hqF : lrF votes N q ≤ ((lrG votes N prev q : Nat) : Int) := by rw [hq3]; exact le_max_left _ _
      have hGq : ((lrG votes N prev q : Nat) : Int) = ((lrG votes N [] q : Nat) : Int) := by omega
      have hGRq : ((lrG votes N prev q : Nat) : Rat) = ((lrG votes N [] q : Nat) : Rat) := by exact_mod_cast hGq
      exact ⟨by rw [hGRq]; exact hqt, by omega⟩
    -- members exist
    have hex0 : ∃ q ∈ votes, q.2 / (lrQ votes N) - ((lrG votes N [] q : Nat) : Rat) = t0 := by
      have hlen : 0 < T0.length := by omega
      obtain ⟨τ, hτ⟩ := List.exists_mem_of_length_pos hlen
      rw [hT0] at hτ
      unfold level lrRems at hτ
      obtain ⟨e, he, _⟩ := List.mem_map.mp hτ
      obtain ⟨hem, hev⟩ := List.mem_filter.mp he
      obtain ⟨q, hq, rfl⟩ := List.mem_map.mp hem
      simp only [decide_eq_true_eq] at hev
      refine ⟨q, hq, ?_⟩
      rw [← hev, lrGained_eq votes hn N [] q hq]
      rfl
    obtain ⟨q0, hq0, hq0t⟩ := hex0
    obtain ⟨hq0P, hq0w⟩ := hi q0 hq0 hq0t
    have hq0nel : Slot.cand q0.1 ∉ lrBest votes N prev := fun hm => by
      have := (helP q0).mpr hm; omega
    have ht0le : t0 ≤ tP := by
      by_contra hgt
      exact hq0nel (haboveP (q0.1, q0.2 / (lrQ votes N) - ((lrG votes N prev q0 : Nat) : Rat)) (hremP q0 hq0)
        (by show tP < q0.2 / (lrQ votes N) - ((lrG votes N prev q0 : Nat) : Rat); rw [hq0P]; exact not_le.mp hgt))
    -- (ii) a party at the cut of the continued run sits on its whole quotas and is unelected from scratch
    have hii : ∀ q ∈ votes, q.2 / (lrQ votes N) - ((lrG votes N prev q : Nat) : Rat) = tP →
        q.2 / (lrQ votes N) - ((lrG votes N [] q : Nat) : Rat) = tP ∧ lrW votes N [] q = 0 := by
      intro q hq hqt
      have hnelq : Slot.cand q.1 ∉ lrBest votes N prev :=
        hbelowP (q.1, q.2 / (lrQ votes N) - ((lrG votes N prev q : Nat) : Rat)) (hremP q hq) (le_of_eq hqt)
      have hwq : lrW votes N prev q = 0 := by
        have := hwP q
        by_contra hne0
        exact hnelq ((helP q).mp (by omega))
      have hq1 := ha q hq
      have hq2 := hf q hq
      have hq3 := hG q hq
      have hq4 := hC0 q hq
      have hqB := hB q hq
      have h6 := hw0 q
      by_cases hw : lrW votes N [] q = 0
      · have hGq : ((lrG votes N prev q : Nat) : Int) = ((lrG votes N [] q : Nat) : Int) := by omega
        have hGRq : ((lrG votes N prev q : Nat) : Rat) = ((lrG votes N [] q : Nat) : Rat) := by exact_mod_cast hGq
        exact ⟨by rw [← hGRq]; exact hqt, hw⟩
      · exfalso
        have hGval : ((lrG votes N prev q : Nat) : Int) = lrF votes N q + 1 := by omega
        have hGR : ((lrG votes N prev q : Nat) : Rat) = ((lrF votes N q : Int) : Rat) + 1 := by exact_mod_cast hGval
        rw [hGR] at hqt
        have h1 := hFlt q
        have hC0q0 : ((lrG votes N [] q0 : Nat) : Rat) = ((lrF votes N q0 : Int) : Rat) := by exact_mod_cast hC0 q0 hq0
        have h2 := hfrac0 q0
        rw [hC0q0] at hq0t
        linarith
    have hexP : ∃ q ∈ votes, q.2 / (lrQ votes N) - ((lrG votes N prev q : Nat) : Rat) = tP := by
      have hlen : 0 < TP.length := by omega
      obtain ⟨τ, hτ⟩ := List.exists_mem_of_length_pos hlen
      rw [hTP] at hτ
      unfold level lrRems at hτ
      obtain ⟨e, he, _⟩ := List.mem_map.mp hτ
      obtain ⟨hem, hev⟩ := List.mem_filter.mp he
      obtain ⟨q, hq, rfl⟩ := List.mem_map.mp hem
      simp only [decide_eq_true_eq] at hev
      refine ⟨q, hq, ?_⟩
      rw [← hev, lrGained_eq votes hn N prev q hq]
      rfl
    obtain ⟨q1, hq1, hq1t⟩ := hexP
    obtain ⟨hq10, hq1w⟩ := hii q1 hq1 hq1t
    have hq1nel : Slot.cand q1.1 ∉ lrBest votes N [] := fun hm => by
      have := (hel0 q1).mpr hm; omega
    have htPle : tP ≤ t0 := by
      by_contra hgt
      exact hq1nel (habove0 (q1.1, q1.2 / (lrQ votes N) - ((lrG votes N [] q1 : Nat) : Rat)) (hrem0 q1 hq1)
        (by show t0 < q1.2 / (lrQ votes N) - ((lrG votes N [] q1 : Nat) : Rat); rw [hq10]; exact not_le.mp hgt))
    have hteq : tP = t0 := le_antisymm htPle ht0le
    -- the two ties have the same members in the same order
    have hTeq : TP = T0 := by
      rw [hTP, hT0, hteq]
      unfold level lrRems
      rw [List.filter_map, List.filter_map, List.map_map, List.map_map]
      have hfun : ((fun x : Cand × Rat => x.1) ∘ fun p : Cand × Rat => (p.1, p.2 / lrQ votes N - ((lrGained votes N prev p.1 : Nat) : Rat)))
          = ((fun x : Cand × Rat => x.1) ∘ fun p : Cand × Rat => (p.1, p.2 / lrQ votes N - ((lrGained votes N [] p.1 : Nat) : Rat))) := by
        funext p; rfl
      rw [hfun]
      apply congrArg
      apply List.filter_congr
      intro q hq
      simp only [Function.comp]
      apply decide_eq_decide.mpr
      have eP : ((lrGained votes N prev q.1 : Nat) : Rat) = ((lrG votes N prev q : Nat) : Rat) := by
        rw [lrGained_eq votes hn N prev q hq]; rfl
      have e0 : ((lrGained votes N [] q.1 : Nat) : Rat) = ((lrG votes N [] q : Nat) : Rat) := by
        rw [lrGained_eq votes hn N [] q hq]; rfl
      show (q.2 / lrQ votes N - ((lrGained votes N prev q.1 : Nat) : Rat) = t0)
        ↔ (q.2 / lrQ votes N - ((lrGained votes N [] q.1 : Nat) : Rat) = t0)
      rw [eP, e0]
      constructor
      · intro h; rw [← hteq] at h; rw [← hteq]; exact (hii q hq h).1
      · intro h; exact (hi q hq h).1
    intro T
    constructor
    · intro h
      have : T = TP := tie_slot_unique _ _ _ _ h hTPin
      rw [this, hTeq]; exact hT0in
    · intro h
      have : T = T0 := tie_slot_unique _ _ _ _ h hT0in
      rw [this, ← hTeq]; exact hTPin

/-! ### the `Tie` entries of the result -/

def tieMatches (S : List Cand) : Slot → Bool
  | .tie T => decide (sortNat T = S)
  | .cand _ => false

theorem distGet_incSlot_tie (acc : Dist) (s : Slot) (S : List Cand) :
    distGet (incSlot acc s) (.tie S) = distGet acc (.tie S) + (if tieMatches S s then 1 else 0) := by
  cases s with
  | cand c =>
    simp only [incSlot, tieMatches]
    rw [distGet_setK]
    have : ¬ Key.cand c = Key.tie S := fun e => by cases e
    rw [if_neg this]; simp
  | tie T =>
    simp only [incSlot, tieMatches]
    rw [distGet_setK]
    by_cases h : sortNat T = S
    · simp [h]
    · have : ¬ Key.tie (sortNat T) = Key.tie S := fun e => h (by injection e)
      simp [h, this]

theorem distGet_foldl_incSlot_tie (best : List Slot) (qd : Dist) (S : List Cand) :
    distGet (best.foldl incSlot qd) (.tie S) = distGet qd (.tie S) + best.countP (tieMatches S) := by
  induction best generalizing qd with
  | nil => simp
  | cons x xs ih =>
    rw [List.foldl_cons, ih, distGet_incSlot_tie, List.countP_cons]
    omega

theorem distGet_seatsToDist_tie (s : Seats) (S : List Cand) : distGet (seatsToDist s) (.tie S) = 0 := by
  apply distGet_eq_zero_of_not_mem
  intro h
  unfold seatsToDist at h
  rw [List.map_map] at h
  obtain ⟨x, _, hx⟩ := List.mem_map.mp h
  simp at hx

theorem countP_tieMatches_of_unique (l : List Slot) (T S : List Cand)
    (h : ∀ s ∈ l, isTieSlot s = true → s = Slot.tie T) :
    l.countP (tieMatches S) = if sortNat T = S then l.countP isTieSlot else 0 := by
  induction l with
  | nil => simp
  | cons x xs ih =>
    have ih' := ih (fun s hs => h s (List.mem_cons_of_mem _ hs))
    rw [List.countP_cons, List.countP_cons, ih']
    cases x with
    | cand c => simp [tieMatches, isTieSlot]
    | tie T' =>
      have : Slot.tie T' = Slot.tie T := h _ List.mem_cons_self rfl
      have hT : T' = T := by injection this
      subst hT
      by_cases hs : sortNat T' = S
      · simp [tieMatches, isTieSlot, hs]
      · simp [tieMatches, isTieSlot, hs]


end VL.OH
