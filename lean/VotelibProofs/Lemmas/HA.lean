/-
  Invariants of the highest-averages loop (model: VotelibModel/HighestAverages.lean).
-/
import VotelibModel.HighestAverages
import Mathlib.Algebra.Order.Field.Basic
import Mathlib.Algebra.Order.Ring.Rat
import Mathlib.Data.List.Nodup
import Mathlib.Data.List.Perm.Basic
import Mathlib.Tactic.Linarith
import Mathlib.Tactic.Positivity
namespace VL
open HACfg

/-! ### maxQ -/

theorem maxQ_eq_none {l : List (Cand × Rat)} : maxQ l = none ↔ l = [] := by
  cases l with
  | nil => simp [maxQ]
  | cons p ps =>
    simp only [maxQ]
    cases maxQ ps <;> simp

theorem maxQ_ge : ∀ (l : List (Cand × Rat)) (m : Rat), maxQ l = some m → ∀ p ∈ l, p.2 ≤ m := by
  intro l
  induction l with
  | nil => intro m h; simp [maxQ] at h
  | cons p ps ih =>
    intro m h q hq
    simp only [maxQ] at h
    cases hm : maxQ ps with
    | none =>
      rw [hm] at h; simp at h
      have : ps = [] := maxQ_eq_none.mp hm
      subst this
      simp at hq; subst hq; linarith
    | some m' =>
      rw [hm] at h; simp at h
      rcases List.mem_cons.mp hq with rfl | hq'
      · subst h; split <;> [exact le_refl _; (rename_i hh; exact not_lt.mp hh)]
      · have := ih m' hm q hq'
        subst h; split
        · rename_i hh; linarith
        · exact this

theorem maxQ_mem : ∀ (l : List (Cand × Rat)) (m : Rat), maxQ l = some m → ∃ p ∈ l, p.2 = m := by
  intro l
  induction l with
  | nil => intro m h; simp [maxQ] at h
  | cons p ps ih =>
    intro m h
    simp only [maxQ] at h
    cases hm : maxQ ps with
    | none => rw [hm] at h; simp at h; exact ⟨p, List.mem_cons_self, h⟩
    | some m' =>
      rw [hm] at h; simp at h
      by_cases hh : m' < p.2
      · simp [hh] at h; exact ⟨p, List.mem_cons_self, h⟩
      · simp [hh] at h
        obtain ⟨q, hq, hqm⟩ := ih m' hm
        exact ⟨q, List.mem_cons_of_mem _ hq, hqm.trans h⟩

/-! ### configuration hypotheses -/

/-- hypotheses on the configuration: positive, non-decreasing divisors; non-negative votes; distinct keys -/
structure CfgOK (cfg : HACfg) : Prop where
  div_pos  : ∀ k, 0 < cfg.div k
  div_mono : ∀ k, cfg.div k ≤ cfg.div (k+1)
  vote_nn  : ∀ p ∈ cfg.votes, 0 ≤ p.2
  nodup    : (keys cfg.votes).Nodup

theorem find_of_mem_nodup : ∀ (l : Votes) (p : Cand × Rat), (keys l).Nodup → p ∈ l →
    l.find? (fun q => q.1 = p.1) = some p := by
  intro l
  induction l with
  | nil => intro p _ hp; simp at hp
  | cons x xs ih =>
    intro p hnd hp
    unfold keys at hnd
    rw [List.map_cons, List.nodup_cons] at hnd
    rcases List.mem_cons.mp hp with rfl | hp'
    · simp
    · have hne : x.1 ≠ p.1 := by
        intro he
        apply hnd.1
        rw [he]
        exact List.mem_map.mpr ⟨p, hp', rfl⟩
      rw [List.find?_cons_of_neg (by simpa using hne)]
      exact ih p hnd.2 hp'

theorem vote_of_mem {cfg : HACfg} (h : (keys cfg.votes).Nodup) {p : Cand × Rat} (hp : p ∈ cfg.votes) :
    cfg.vote p.1 = p.2 := by
  unfold HACfg.vote getD lookup
  rw [find_of_mem_nodup cfg.votes p h hp]; rfl

theorem vote_nonneg {cfg : HACfg} (h : CfgOK cfg) (c : Cand) : 0 ≤ cfg.vote c := by
  unfold HACfg.vote getD lookup
  cases hf : cfg.votes.find? (fun q => q.1 = c) with
  | none => simp
  | some p => simpa using h.vote_nn p (List.mem_of_find?_eq_some hf)

theorem quot_anti {cfg : HACfg} (h : CfgOK cfg) (c : Cand) (k : Nat) :
    cfg.quot c (k+1) ≤ cfg.quot c k := by
  unfold HACfg.quot
  exact div_le_div_of_nonneg_left (vote_nonneg h c) (h.div_pos k) (h.div_mono k)

theorem quot_anti_le {cfg : HACfg} (h : CfgOK cfg) (c : Cand) {j k : Nat} (hjk : j ≤ k) :
    cfg.quot c k ≤ cfg.quot c j := by
  induction hjk with
  | refl => exact le_refl _
  | step _ ih => exact le_trans (quot_anti h c _) ih

/-! ### sums over candidate lists -/

/-- seats awarded individually so far -/
def awarded (cfg : HACfg) (s : HAState) : Nat :=
  ((haCands cfg).map (fun c => s.tot c - cfg.prevOf c)).sum

def tieSeats (s : HAState) : Nat := match s.tie with | some (_, m) => m | none => 0

/-- the seats still open at the start -/
def openSeats (cfg : HACfg) : Nat := cfg.n - cfg.sumPrev

theorem sum_bump (L batch : List Cand) (hL : L.Nodup) (hb : batch.Nodup) (hsub : ∀ c ∈ batch, c ∈ L)
    (tot prev : Cand → Nat) (hge : ∀ c, prev c ≤ tot c) :
    (L.map (fun c => bumpAll tot batch c - prev c)).sum = (L.map (fun c => tot c - prev c)).sum + batch.length := by
  have hpt : ∀ c, bumpAll tot batch c - prev c = (tot c - prev c) + (if c ∈ batch then 1 else 0) := by
    intro c
    unfold bumpAll
    have := hge c
    split <;> omega
  have h1 : (L.map (fun c => bumpAll tot batch c - prev c)).sum
      = (L.map (fun c => tot c - prev c)).sum + (L.map (fun c => if c ∈ batch then 1 else 0)).sum := by
    simp only [hpt]
    exact List.sum_map_add
  rw [h1]
  congr 1
  have h2 : (L.map (fun c => if c ∈ batch then 1 else 0)).sum = (L.filter (fun c => decide (c ∈ batch))).length := by
    clear h1 hsub hL
    induction L with
    | nil => simp
    | cons x xs ih =>
      simp only [List.map_cons, List.sum_cons, List.filter_cons, ih]
      by_cases hx : x ∈ batch <;> simp [hx] <;> omega
  rw [h2]
  apply List.Perm.length_eq
  rw [List.perm_ext_iff_of_nodup (hL.filter _) hb]
  intro c
  simp only [List.mem_filter, decide_eq_true_eq]
  exact ⟨fun h => h.2, fun h => ⟨hsub c h, h⟩⟩


/-! ### the loop invariant -/

/-- initially eligible: divisor positive (always, under `CfgOK`) and below the cap -/
def Elig0 (cfg : HACfg) (c : Cand) : Prop := c ∈ keys cfg.votes ∧ cfg.prevOf c < cfg.capOf c

structure Inv (cfg : HACfg) (s : HAState) : Prop where
  /-- pool entries carry the current quotient of their party -/
  pool_q    : ∀ p ∈ s.pool, p.2 = cfg.quot p.1 (s.tot p.1)
  pool_nd   : (s.pool.map (·.1)).Nodup
  pool_cap  : ∀ p ∈ s.pool, s.tot p.1 < cfg.capOf p.1
  pool_key  : ∀ p ∈ s.pool, p.1 ∈ keys cfg.votes
  /-- every initially eligible party that is still below its cap waits in the pool -/
  pool_all  : ∀ c, Elig0 cfg c → s.tot c < cfg.capOf c → c ∈ s.pool.map (·.1)
  /-- every seat awarded so far had a quotient at least as large as every quotient still waiting -/
  seated    : ∀ c k, cfg.prevOf c ≤ k → k < s.tot c → ∀ p ∈ s.pool, p.2 ≤ cfg.quot c k
  ge_prev   : ∀ c, cfg.prevOf c ≤ s.tot c
  le_cap    : ∀ c, cfg.prevOf c ≤ cfg.capOf c → s.tot c ≤ cfg.capOf c
  only_keys : ∀ c, s.tot c ≠ cfg.prevOf c → c ∈ keys cfg.votes
  count     : s.rem + awarded cfg s + tieSeats s = openSeats cfg
  tie_ok    : ∀ T m, s.tie = some (T, m) → s.rem = 0 ∧ 0 < m ∧ m < T.length ∧
                ∃ q, (∀ p ∈ s.pool, p.2 ≤ q) ∧ T = (s.pool.filter (fun p => p.2 = q)).map (·.1)

theorem mem_dedupC {l : List Cand} {c : Cand} : c ∈ dedupC l ↔ c ∈ l := by
  induction l with
  | nil => simp [dedupC]
  | cons x xs ih =>
    simp only [dedupC, List.mem_cons, List.mem_filter, decide_eq_true_eq, ih]
    by_cases hx : c = x <;> simp [hx]

theorem dedupC_nodup (l : List Cand) : (dedupC l).Nodup := by
  induction l with
  | nil => simp [dedupC]
  | cons x xs ih =>
    simp only [dedupC, List.nodup_cons, List.mem_filter, decide_eq_true_eq]
    exact ⟨fun h => h.2 rfl, ih.filter _⟩

theorem mem_haCands_of_key {cfg : HACfg} {c : Cand} (h : c ∈ keys cfg.votes) : c ∈ haCands cfg := by
  unfold haCands
  rw [mem_dedupC]
  exact List.mem_append_right _ h

theorem haCands_nodup (cfg : HACfg) : (haCands cfg).Nodup := dedupC_nodup _

theorem batch_nodup {pool : List (Cand × Rat)} (h : (pool.map (·.1)).Nodup) (m : Rat) :
    ((pool.filter (fun p => p.2 = m)).map (·.1)).Nodup :=
  List.Nodup.sublist (List.Sublist.map _ List.filter_sublist) h

theorem entry_unique {pool : List (Cand × Rat)} (h : (pool.map (·.1)).Nodup) {p q : Cand × Rat}
    (hp : p ∈ pool) (hq : q ∈ pool) (hk : p.1 = q.1) : p = q :=
  List.inj_on_of_nodup_map h hp hq hk

theorem filterMap_keys (L : List Cand) (P : Cand → Prop) [DecidablePred P] (f : Cand → Rat) :
    (L.filterMap (fun c => if P c then some (c, f c) else none)).map (·.1) = L.filter (fun c => decide (P c)) := by
  induction L with
  | nil => rfl
  | cons x xs ih =>
    by_cases hx : P x
    · simp [List.filterMap_cons, List.filter_cons, hx, ih]
    · simp [List.filterMap_cons, List.filter_cons, hx, ih]

end VL
