/-
  Scale invariance of the highest-averages loop: multiplying every vote count by the same positive rational
  leaves every state of the loop unchanged up to the same factor on the waiting quotients, hence the result.
-/
import VotelibProofs.Lemmas.HAStep
namespace VL
open HACfg

def scaleVotes (k : Rat) (v : Votes) : Votes := v.map (fun p => (p.1, k * p.2))

def HACfg.scale (cfg : HACfg) (k : Rat) : HACfg := { cfg with votes := scaleVotes k cfg.votes }

def scaleState (k : Rat) (s : HAState) : HAState :=
  { s with pool := s.pool.map (fun p => (p.1, k * p.2)) }

theorem lookup_scale (k : Rat) (v : Votes) (c : Cand) :
    lookup (scaleVotes k v) c = (lookup v c).map (fun x => k * x) := by
  unfold lookup scaleVotes
  induction v with
  | nil => rfl
  | cons x xs ih =>
    simp only [List.map_cons, List.find?_cons]
    by_cases hx : x.1 = c
    · simp [hx]
    · simp only [hx, decide_false]; exact ih

theorem vote_scale (cfg : HACfg) (k : Rat) (c : Cand) : (cfg.scale k).vote c = k * cfg.vote c := by
  unfold HACfg.vote getD HACfg.scale
  rw [lookup_scale]
  cases lookup cfg.votes c <;> simp

theorem quot_scale (cfg : HACfg) (k : Rat) (c : Cand) (j : Nat) : (cfg.scale k).quot c j = k * cfg.quot c j := by
  unfold HACfg.quot
  rw [vote_scale]
  show k * cfg.vote c / cfg.div j = k * (cfg.vote c / cfg.div j)
  rw [mul_div_assoc]

theorem maxQ_scale (k : Rat) (hk : 0 < k) (l : List (Cand × Rat)) :
    maxQ (l.map (fun p => (p.1, k * p.2))) = (maxQ l).map (fun m => k * m) := by
  induction l with
  | nil => rfl
  | cons p ps ih =>
    simp only [List.map_cons, maxQ, ih]
    cases maxQ ps with
    | none => rfl
    | some m =>
      simp only [Option.map]
      by_cases hlt : m < p.2
      · rw [if_pos hlt, if_pos (mul_lt_mul_of_pos_left hlt hk)]
      · rw [if_neg hlt, if_neg (fun h => hlt (lt_of_mul_lt_mul_left h (le_of_lt hk)))]

theorem filterMap_scale (k : Rat) (P : Cand → Prop) [DecidablePred P] (d : Cand → Rat) (l : Votes) :
    (l.map (fun p => (p.1, k * p.2))).filterMap (fun p => if P p.1 then some (p.1, p.2 / d p.1) else none)
      = (l.filterMap (fun p => if P p.1 then some (p.1, p.2 / d p.1) else none)).map (fun p => (p.1, k * p.2)) := by
  induction l with
  | nil => rfl
  | cons x xs ih =>
    simp only [List.map_cons, List.filterMap_cons]
    by_cases hx : P x.1
    · simp only [hx, if_true, List.map_cons, ih, mul_div_assoc]
    · simp only [hx, if_false, ih]

theorem haInit_scale (cfg : HACfg) (k : Rat) : haInit (cfg.scale k) = scaleState k (haInit cfg) := by
  unfold haInit scaleState
  have h1 : (cfg.scale k).prevOf = cfg.prevOf := rfl
  have h2 : (cfg.scale k).capOf = cfg.capOf := rfl
  have h3 : (cfg.scale k).sumPrev = cfg.sumPrev := rfl
  have h4 : (cfg.scale k).div = cfg.div := rfl
  have h5 : (cfg.scale k).n = cfg.n := rfl
  have h6 : (cfg.scale k).votes = cfg.votes.map (fun p => (p.1, k * p.2)) := rfl
  simp only [h1, h2, h3, h4, h5, h6]
  congr 1
  exact filterMap_scale k (fun c => 0 < cfg.div (cfg.prevOf c) ∧ cfg.prevOf c < cfg.capOf c)
    (fun c => cfg.div (cfg.prevOf c)) cfg.votes

theorem haStep_scale (cfg : HACfg) (k : Rat) (hk : 0 < k) (s : HAState) :
    haStep (cfg.scale k) (scaleState k s) = scaleState k (haStep cfg s) := by
  have hk0 : k ≠ 0 := ne_of_gt hk
  have hinj : ∀ a b : Rat, k * a = k * b ↔ a = b := fun a b => mul_right_inj' hk0
  unfold haStep
  simp only [scaleState, maxQ_scale k hk]
  cases hm : maxQ s.pool with
  | none => simp [Option.map]
  | some m =>
    simp only [Option.map]
    have hbatch : (List.filter (fun p => decide (p.2 = k * m)) (s.pool.map (fun p => (p.1, k * p.2)))).map (·.1)
        = (s.pool.filter (fun p => decide (p.2 = m))).map (·.1) := by
      rw [List.filter_map, List.map_map]
      simp only [Function.comp_def, hinj]
    have hrest : List.filter (fun p => decide (p.2 ≠ k * m)) (s.pool.map (fun p => (p.1, k * p.2)))
        = (s.pool.filter (fun p => decide (p.2 ≠ m))).map (fun p => (p.1, k * p.2)) := by
      rw [List.filter_map]
      simp only [Function.comp_def, ne_eq, hinj]
    have hcap : ∀ c, (cfg.scale k).capOf c = cfg.capOf c := fun c => rfl
    by_cases hgt : ((s.pool.filter (fun p => decide (p.2 = m))).map (·.1)).length > s.rem
    · simp only [hbatch, hrest, hgt, if_true]
    · simp only [hbatch, hrest, hgt, if_false, HAState.mk.injEq, true_and, and_true, List.map_append, hcap]
      congr 1
      rw [List.map_filterMap]
      congr 1
      funext c
      split
      · simp [quot_scale]
      · rfl

theorem haLoop_scale (cfg : HACfg) (k : Rat) (hk : 0 < k) : ∀ (fuel : Nat) (s : HAState),
    haLoop (cfg.scale k) fuel (scaleState k s) = scaleState k (haLoop cfg fuel s) := by
  intro fuel
  induction fuel with
  | zero => intro s; rfl
  | succ f ih =>
    intro s
    unfold haLoop
    have hc : ((scaleState k s).rem = 0 ∨ (scaleState k s).pool = []) ↔ (s.rem = 0 ∨ s.pool = []) := by
      simp [scaleState]
    by_cases hcond : s.rem = 0 ∨ s.pool = []
    · rw [if_pos (hc.mpr hcond), if_pos hcond]
    · rw [if_neg (fun h => hcond (hc.mp h)), if_neg hcond, haStep_scale cfg k hk, ih]

theorem haRun_scale (cfg : HACfg) (k : Rat) (hk : 0 < k) : haRun (cfg.scale k) = scaleState k (haRun cfg) := by
  unfold haRun
  rw [haInit_scale, haLoop_scale cfg k hk]
  rfl

/-- **Scale invariance of highest averages** — for every positive rational factor, not only integers -/
theorem highestAverages_scale (cfg : HACfg) (k : Rat) (hk : 0 < k) :
    highestAverages (cfg.scale k) = highestAverages cfg := by
  unfold highestAverages
  have hpool : (haInit (cfg.scale k)).pool = [] ↔ (haInit cfg).pool = [] := by
    rw [haInit_scale]; simp [scaleState]
  have hres : haResult (cfg.scale k) = haResult cfg := by
    unfold haResult
    rw [haRun_scale cfg k hk]
    have hc : haCands (cfg.scale k) = haCands cfg := by
      unfold haCands HACfg.scale scaleVotes
      simp [List.map_map, Function.comp_def]
    rw [hc]
    rfl
  by_cases hp : (haInit cfg).pool = []
  · rw [if_pos (hpool.mpr hp), if_pos hp]
  · rw [if_neg (fun h => hp (hpool.mp h)), if_neg hp, hres]

end VL
