/-
  `RankedPairs._is_path` finds every path (completeness of the sweep loop), hence `_lock_pairs` never
  closes a cycle: the locked pairs form an acyclic graph.
-/
import VotelibProofs.Lemmas.RankedPairs
namespace VL.Condorcet
open VL Relation

/-- one step of the `for` loop of `_is_path` -/
def sweepStep (sink : Cand) (st : List Cand × Bool) (e : Pair) : List Cand × Bool :=
  if st.2 then st
  else if st.1.contains e.1 && !st.1.contains e.2 then (e.2 :: st.1, e.2 == sink)
  else st

theorem pathSweep_eq (pairs : List Pair) (sink : Cand) (visited : List Cand) :
    pathSweep pairs sink visited = pairs.foldl (sweepStep sink) (visited, false) := rfl

theorem sweepFold_length_le (sink : Cand) (l : List Pair) (st : List Cand × Bool) :
    st.1.length ≤ (l.foldl (sweepStep sink) st).1.length := by
  induction l generalizing st with
  | nil => exact le_refl _
  | cons e es ih =>
    rw [List.foldl_cons]
    refine le_trans ?_ (ih _)
    unfold sweepStep
    split
    · exact le_refl _
    · split
      · simp
      · exact le_refl _

theorem sweepFold_mem (sink : Cand) (l : List Pair) (st : List Cand × Bool) {x : Cand} (hx : x ∈ st.1) :
    x ∈ (l.foldl (sweepStep sink) st).1 := by
  induction l generalizing st with
  | nil => exact hx
  | cons e es ih =>
    rw [List.foldl_cons]
    apply ih
    unfold sweepStep
    split
    · exact hx
    · split
      · exact List.mem_cons_of_mem _ hx
      · exact hx

/-- a sweep that neither finds the sink nor adds a node leaves `visited` closed under the pairs -/
theorem sweepFold_closed (sink : Cand) (l : List Pair) (st : List Cand × Bool) (hst : st.2 = false)
    (hf : (l.foldl (sweepStep sink) st).2 = false)
    (hlen : (l.foldl (sweepStep sink) st).1.length = st.1.length) :
    ∀ e ∈ l, e.1 ∈ st.1 → e.2 ∈ st.1 := by
  induction l generalizing st with
  | nil => simp
  | cons e es ih =>
    rw [List.foldl_cons] at hf hlen
    by_cases hc : (st.1.contains e.1 && !st.1.contains e.2) = true
    · exfalso
      have hstep : sweepStep sink st e = (e.2 :: st.1, e.2 == sink) := by
        unfold sweepStep; rw [hst]; simp only [Bool.false_eq_true, if_false]; rw [if_pos hc]
      rw [hstep] at hlen
      have := sweepFold_length_le sink es (e.2 :: st.1, e.2 == sink)
      simp only [List.length_cons] at this
      omega
    · have hstep : sweepStep sink st e = st := by
        unfold sweepStep; rw [hst]; simp only [Bool.false_eq_true, if_false]; rw [if_neg hc]
      rw [hstep] at hf hlen
      intro e' he'
      rcases List.mem_cons.1 he' with rfl | h
      · intro h1
        simp only [Bool.and_eq_true, List.contains_iff_mem, Bool.not_eq_true', not_and] at hc
        have := hc h1
        cases hcc : st.1.contains e'.2 with
        | true => exact List.contains_iff_mem.1 hcc
        | false => exact absurd hcc this
      · exact ih st hst hf hlen e' h

/-- invariant of the visited set: no duplicates, only the source and targets of pairs, and the sink is in
    it only once it has been found -/
structure SweepInv (pairs : List Pair) (source sink : Cand) (st : List Cand × Bool) : Prop where
  nodup : st.1.Nodup
  sub : ∀ x ∈ st.1, x = source ∨ x ∈ pairs.map (·.2)
  sink_out : st.2 = false → sink ∉ st.1

theorem sweepFold_inv {pairs : List Pair} {source sink : Cand} (l : List Pair) (hl : ∀ e ∈ l, e ∈ pairs)
    (st : List Cand × Bool) (h : SweepInv pairs source sink st) :
    SweepInv pairs source sink (l.foldl (sweepStep sink) st) := by
  induction l generalizing st with
  | nil => exact h
  | cons e es ih =>
    rw [List.foldl_cons]
    apply ih (fun e' he' => hl e' (List.mem_cons_of_mem _ he'))
    unfold sweepStep
    split
    · exact h
    · split
      · rename_i hc
        simp only [Bool.and_eq_true, List.contains_iff_mem, Bool.not_eq_true'] at hc
        have hnot : e.2 ∉ st.1 := by
          intro hm
          have := List.contains_iff_mem.2 hm
          rw [hc.2] at this
          exact Bool.false_ne_true this
        refine ⟨List.nodup_cons.2 ⟨hnot, h.nodup⟩, ?_, ?_⟩
        · intro x hx
          rcases List.mem_cons.1 hx with rfl | hx'
          · exact Or.inr (List.mem_map.2 ⟨e, hl e (by simp), rfl⟩)
          · exact h.sub x hx'
        · intro hf
          simp only [beq_eq_false_iff_ne, ne_eq] at hf
          intro hm
          rcases List.mem_cons.1 hm with heq | hm'
          · exact hf heq.symm
          · rename_i hnf
            exact h.sink_out (by simpa using hnf) hm'
      · exact h

theorem visited_length_le {pairs : List Pair} {source sink : Cand} {st : List Cand × Bool}
    (h : SweepInv pairs source sink st) : st.1.length ≤ pairs.length + 1 := by
  have hsub : st.1.Subperm (source :: pairs.map (·.2)) := by
    apply List.subperm_of_subset h.nodup
    intro x hx
    rcases h.sub x hx with rfl | h'
    · simp
    · exact List.mem_cons_of_mem _ h'
  have := hsub.length_le
  simpa using this

/-- **completeness of `_is_path`**: a chain of pairs from `source` to `sink` is found -/
theorem isPathFuel_complete {pairs : List Pair} {source sink : Cand}
    (hpath : TransGen (fun a b => (a, b) ∈ pairs) source sink) :
    ∀ (f : Nat) (visited : List Cand), SweepInv pairs source sink (visited, false) → source ∈ visited →
      pairs.length + 3 ≤ f + visited.length → isPathFuel pairs sink f visited = true := by
  intro f
  induction f with
  | zero =>
    intro visited hinv _ hfuel
    have := visited_length_le hinv
    simp only at this
    omega
  | succ f ih =>
    intro visited hinv hsrc hfuel
    unfold isPathFuel
    simp only
    rw [pathSweep_eq]
    have hinv' := sweepFold_inv (source := source) pairs (fun e he => he) (visited, false) hinv
    cases hfound : (pairs.foldl (sweepStep sink) (visited, false)).2 with
    | true => simp
    | false =>
      simp only [Bool.false_eq_true, if_false]
      by_cases hlen : (pairs.foldl (sweepStep sink) (visited, false)).1.length = visited.length
      · exfalso
        have hclosed := sweepFold_closed sink pairs (visited, false) rfl hfound hlen
        have hreach : ∀ x, TransGen (fun a b => (a, b) ∈ pairs) source x → x ∈ visited := by
          intro x hx
          induction hx with
          | single h => exact hclosed _ h hsrc
          | tail _ h ih2 => exact hclosed _ h ih2
        exact hinv.sink_out rfl (hreach sink hpath)
      · rw [if_neg hlen]
        have hge := sweepFold_length_le sink pairs (visited, false)
        simp only at hge
        apply ih
        · have : (pairs.foldl (sweepStep sink) (visited, false)) =
              ((pairs.foldl (sweepStep sink) (visited, false)).1, false) := Prod.ext rfl hfound
          rw [← this]; exact hinv'
        · exact sweepFold_mem sink pairs (visited, false) hsrc
        · omega

theorem isPath_complete {pairs : List Pair} {source sink : Cand} (hne : source ≠ sink)
    (hpath : TransGen (fun a b => (a, b) ∈ pairs) source sink) : isPath pairs source sink = true := by
  unfold isPath
  apply isPathFuel_complete hpath
  · exact ⟨by simp, by simp, fun _ => by simpa using fun h : sink = source => hne h.symm⟩
  · simp
  · simp only [List.length_singleton]; omega

/-! ### adding a pair without a return path keeps the graph acyclic -/

theorem transGen_add_edge {E : Cand → Cand → Prop} {a b x y : Cand}
    (h : TransGen (fun u w => E u w ∨ (u = a ∧ w = b)) x y) :
    TransGen E x y ∨ (ReflTransGen E x a ∧ ReflTransGen E b y) := by
  induction h with
  | single h =>
    rcases h with h | ⟨rfl, rfl⟩
    · exact Or.inl (TransGen.single h)
    · exact Or.inr ⟨ReflTransGen.refl, ReflTransGen.refl⟩
  | tail _ h ih =>
    rcases ih with ih | ⟨ih1, ih2⟩
    · rcases h with h | ⟨rfl, rfl⟩
      · exact Or.inl (TransGen.tail ih h)
      · exact Or.inr ⟨ih.to_reflTransGen, ReflTransGen.refl⟩
    · rcases h with h | ⟨rfl, rfl⟩
      · exact Or.inr ⟨ih1, ReflTransGen.tail ih2 h⟩
      · exact Or.inr ⟨ih1, ReflTransGen.refl⟩

/-- no candidate reaches itself through the pairs -/
def Acyclic (pairs : List Pair) : Prop := ∀ x, ¬ TransGen (fun a b => (a, b) ∈ pairs) x x

theorem acyclic_append {locked : List Pair} {p : Pair} (hac : Acyclic locked) (hne : p.1 ≠ p.2)
    (hno : ¬ TransGen (fun a b => (a, b) ∈ locked) p.2 p.1) : Acyclic (locked ++ [p]) := by
  intro x hx
  have hx' : TransGen (fun u w => (u, w) ∈ locked ∨ (u = p.1 ∧ w = p.2)) x x := by
    refine TransGen.mono ?_ x x hx
    intro u w huw
    rcases List.mem_append.1 huw with h | h
    · exact Or.inl h
    · simp only [List.mem_singleton] at h
      exact Or.inr ⟨by rw [← h], by rw [← h]⟩
  rcases transGen_add_edge hx' with h | ⟨h1, h2⟩
  · exact hac x h
  · have := h2.trans h1
    rcases reflTransGen_iff_eq_or_transGen.1 this with h | h
    · exact hne h
    · exact hno h

/-- **`_lock_pairs` never closes a cycle** -/
theorem lockPairs_acyclic' {pairs : List Pair} (hself : ∀ p ∈ pairs, p.1 ≠ p.2) : Acyclic (lockPairs pairs) := by
  unfold lockPairs
  apply foldl_preserves Acyclic
  · intro x hx
    cases hx with
    | single h => simp at h
    | tail _ h => simp at h
  · intro locked p hp hac
    split
    · rename_i hc
      apply acyclic_append hac (hself p hp)
      intro hpath
      have := isPath_complete (fun h => hself p hp h.symm) hpath
      rw [this] at hc
      simp at hc
    · exact hac

/-! ### soundness of `_is_path` -/

structure SweepSound (pairs : List Pair) (source sink : Cand) (st : List Cand × Bool) : Prop where
  reach : ∀ x ∈ st.1, x = source ∨ TransGen (fun a b => (a, b) ∈ pairs) source x
  found : st.2 = true → TransGen (fun a b => (a, b) ∈ pairs) source sink

theorem sweepFold_sound {pairs : List Pair} {source sink : Cand} (l : List Pair) (hl : ∀ e ∈ l, e ∈ pairs)
    (st : List Cand × Bool) (h : SweepSound pairs source sink st) :
    SweepSound pairs source sink (l.foldl (sweepStep sink) st) := by
  induction l generalizing st with
  | nil => exact h
  | cons e es ih =>
    rw [List.foldl_cons]
    apply ih (fun e' he' => hl e' (List.mem_cons_of_mem _ he'))
    unfold sweepStep
    split
    · exact h
    · split
      · rename_i hc
        simp only [Bool.and_eq_true, List.contains_iff_mem, Bool.not_eq_true'] at hc
        have he : (e.1, e.2) ∈ pairs := hl e (by simp)
        have hreach2 : TransGen (fun a b => (a, b) ∈ pairs) source e.2 := by
          rcases h.reach e.1 hc.1 with h1 | h1
          · rw [← h1]; exact TransGen.single he
          · exact TransGen.tail h1 he
        refine ⟨?_, ?_⟩
        · intro x hx
          rcases List.mem_cons.1 hx with rfl | hx'
          · exact Or.inr hreach2
          · exact h.reach x hx'
        · intro hf
          simp only [beq_iff_eq] at hf
          rw [← hf]; exact hreach2
      · exact h

theorem isPathFuel_sound {pairs : List Pair} {source sink : Cand} :
    ∀ (f : Nat) (visited : List Cand), SweepSound pairs source sink (visited, false) →
      isPathFuel pairs sink f visited = true → TransGen (fun a b => (a, b) ∈ pairs) source sink := by
  intro f
  induction f with
  | zero => intro visited _ h; simp [isPathFuel] at h
  | succ f ih =>
    intro visited hs h
    unfold isPathFuel at h
    simp only at h
    rw [pathSweep_eq] at h
    have hs' := sweepFold_sound (source := source) pairs (fun e he => he) (visited, false) hs
    cases hfound : (pairs.foldl (sweepStep sink) (visited, false)).2 with
    | true => exact hs'.found hfound
    | false =>
      rw [hfound] at h
      simp only [Bool.false_eq_true, if_false] at h
      split at h
      · simp at h
      · apply ih _ _ h
        exact ⟨hs'.reach, by simp⟩

/-- **soundness of `_is_path`**: it answers True only when a chain of pairs leads from source to sink -/
theorem isPath_sound {pairs : List Pair} {source sink : Cand} (h : isPath pairs source sink = true) :
    TransGen (fun a b => (a, b) ∈ pairs) source sink := by
  unfold isPath at h
  apply isPathFuel_sound _ _ _ h
  exact ⟨by simp, by simp⟩

/-! ### `_lock_pairs` along a split of its input -/

def lockStep (locked : List Pair) (p : Pair) : List Pair :=
  if !isPath locked p.2 p.1 then locked ++ [p] else locked

theorem lockPairs_eq (pairs : List Pair) : lockPairs pairs = pairs.foldl lockStep [] := rfl

theorem lockFold_mono (l : List Pair) (acc : List Pair) {x : Pair} (hx : x ∈ acc) : x ∈ l.foldl lockStep acc := by
  induction l generalizing acc with
  | nil => exact hx
  | cons p ps ih =>
    rw [List.foldl_cons]
    apply ih
    unfold lockStep
    split
    · exact List.mem_append_left _ hx
    · exact hx

theorem lockFold_sub (l : List Pair) (acc : List Pair) {x : Pair} (hx : x ∈ l.foldl lockStep acc) : x ∈ acc ∨ x ∈ l := by
  induction l generalizing acc with
  | nil => exact Or.inl hx
  | cons p ps ih =>
    rw [List.foldl_cons] at hx
    rcases ih _ hx with h | h
    · unfold lockStep at h
      split at h
      · rcases List.mem_append.1 h with h' | h'
        · exact Or.inl h'
        · simp only [List.mem_singleton] at h'; exact Or.inr (by simp [h'])
      · exact Or.inl h
    · exact Or.inr (List.mem_cons_of_mem _ h)

/-- a pair that is not locked in the end was refused because the pairs locked before it already lead
    from its lower to its upper candidate -/
theorem lockPairs_refused {pre post : List Pair} {p : Pair} (hnot : p ∉ lockPairs (pre ++ p :: post)) :
    TransGen (fun a b => (a, b) ∈ lockPairs pre) p.2 p.1 ∧ ∀ e ∈ lockPairs pre, e ∈ pre := by
  rw [lockPairs_eq, List.foldl_append, List.foldl_cons] at hnot
  refine ⟨?_, fun e he => ?_⟩
  · by_cases hp : isPath (lockPairs pre) p.2 p.1 = true
    · exact isPath_sound hp
    · exfalso
      apply hnot
      apply lockFold_mono
      rw [← lockPairs_eq]
      unfold lockStep
      simp only [Bool.not_eq_true] at hp
      rw [hp]
      simp
  · rw [lockPairs_eq] at he
    rcases lockFold_sub _ _ he with h | h
    · simp at h
    · exact h

/-- a chain from outside a set into it crosses the border somewhere -/
theorem transGen_crossing {E : Cand → Cand → Prop} {S : Cand → Prop} {a b : Cand} (h : TransGen E a b)
    (ha : ¬ S a) (hb : S b) : ∃ o s, E o s ∧ ¬ S o ∧ S s := by
  induction h with
  | single h => exact ⟨_, _, h, ha, hb⟩
  | @tail m c _ hmc ih =>
    by_cases hm : S m
    · exact ih hm
    · exact ⟨m, c, hmc, hm, hb⟩

/-- the first place of `_build_ranking`, when it answers, has no locked defeat -/
theorem buildRanking_first {locked : List Pair} {r : List Cand} (h : buildRanking locked = .ok r) :
    ∃ c, r.head? = some c ∧ (∀ e ∈ locked, e.2 ≠ c) ∧ c ∈ locked.map (·.1) := by
  unfold buildRanking at h
  cases hb : buildLoop (locked.length + 1) locked [] with
  | error e => rw [hb] at h; simp [bind, Except.bind] at h
  | ok ranking =>
    rw [hb] at h
    simp only [bind, Except.bind] at h
    unfold buildLoop at hb
    cases hne : locked.isEmpty with
    | true =>
      have hnil : locked = [] := List.isEmpty_iff.1 hne
      subst hnil
      simp only [List.isEmpty_nil, if_true, Except.ok.injEq] at hb
      subst hb
      simp at h
    | false =>
      simp only [hne, Bool.false_eq_true, if_false] at hb
      split at hb
      · rename_i w' hwin
        have hw : w' ∈ uniq ((locked.map (·.1)).filter (fun c => !(locked.map (·.2)).contains c)) := by
          rw [hwin]; simp
        rw [mem_uniq, List.mem_filter] at hw
        have hpre := buildLoop_prefix _ _ _ _ hb
        simp only [List.nil_append] at hpre
        obtain ⟨t, rfl⟩ := hpre
        refine ⟨w', ?_, ?_, hw.1⟩
        · split at h
          · simp only [Except.ok.injEq] at h; subst h; rfl
          · simp at h
        · intro e he hew
          have : (locked.map (·.2)).contains w' = true :=
            List.contains_iff_mem.2 (List.mem_map.2 ⟨e, he, hew⟩)
          have h2 := hw.2
          rw [this] at h2
          simp at h2
      · simp at hb

/-! ### ranked pairs is Smith-efficient (all three win scorers) -/

theorem exists_max_key {α : Type} (f : α → Rat) : ∀ (l : List α), l ≠ [] → ∃ a ∈ l, ∀ b ∈ l, f b ≤ f a := by
  intro l
  induction l with
  | nil => intro h; exact absurd rfl h
  | cons x xs ih =>
    intro _
    by_cases hxs : xs = []
    · subst hxs; exact ⟨x, by simp, by simp⟩
    · obtain ⟨a, ha, hmax⟩ := ih hxs
      by_cases hle : f a ≤ f x
      · refine ⟨x, by simp, ?_⟩
        intro b hb
        rcases List.mem_cons.1 hb with rfl | hb'
        · exact le_refl _
        · exact le_trans (hmax b hb') hle
      · refine ⟨a, List.mem_cons_of_mem _ ha, ?_⟩
        intro b hb
        rcases List.mem_cons.1 hb with rfl | hb'
        · exact le_of_lt (not_le.1 hle)
        · exact hmax b hb'

/-- the sort key of a won pair is strictly above that of the reverse pair (all three scorers) -/
theorem key_lt_of_beats {v : Pairwise} (hwf : WF v) (sc : Scorer) {a b : Cand} (hb : Beats v a b)
    (hba : (b, a) ∈ v.map (·.1)) :
    (a, b) ∈ v.map (·.1) ∧ pget (scorePairs sc v) (b, a) < pget (scorePairs sc v) (a, b) := by
  have hpos : 0 < pget v (a, b) := lt_of_le_of_lt (pget_nonneg hwf _) hb
  have hab : (a, b) ∈ v.map (·.1) := List.mem_map.2 ⟨_, pget_pos_mem hpos, rfl⟩
  refine ⟨hab, ?_⟩
  rw [pget_scorePairs hwf.1 sc hba, pget_scorePairs hwf.1 sc hab]
  unfold Beats at hb
  have hnn := pget_nonneg hwf (b, a)
  cases sc with
  | winningVotes =>
    simp only [scoreOf]
    rw [if_neg (not_lt.2 (le_of_lt hb)), if_pos hb]
    linarith
  | margins => simp only [scoreOf]; linarith
  | pairwiseOpposition => simp only [scoreOf]; exact hb

/-- **no pair from outside a dominating set into it is ever locked** -/
theorem no_crossing_locked {v : Pairwise} (hwf : WF v) (sc : Scorer) {S : Cand → Prop} [DecidablePred S]
    (hS : Graph.Dominating (candidates v) (Beats v) S) :
    let s2 := sortDescBy (pget (scorePairs sc v)) (sortDescBy (pget v) (v.map (·.1)))
    ∀ e ∈ lockPairs s2, ¬ (¬ S e.1 ∧ S e.2) := by
  intro s2
  have hperm : s2.Perm (v.map (·.1)) := (sortDescBy_perm _ _).trans (sortDescBy_perm _ _)
  have hsorted : s2.Pairwise (fun a b => pget (scorePairs sc v) b ≤ pget (scorePairs sc v) a) :=
    sortDescBy_sorted (pget (scorePairs sc v)) (sortDescBy (pget v) (v.map (·.1)))
  have hkey : ∀ p, p ∈ s2 ↔ p ∈ v.map (·.1) := fun p => hperm.mem_iff
  have hself : ∀ p ∈ s2, p.1 ≠ p.2 := by
    intro p hp
    obtain ⟨e, he, rfl⟩ := List.mem_map.1 ((hkey p).1 hp)
    exact hwf.2.1 e he
  have hlocked_in : ∀ e ∈ lockPairs s2, e ∈ s2 := by
    intro e he
    rw [lockPairs_eq] at he
    rcases lockFold_sub _ _ he with h' | h'
    · simp at h'
    · exact h'
  by_contra hex
  simp only [not_forall, not_not] at hex
  -- the locked crossing pairs; take one with maximal key
  have hne : (lockPairs s2).filter (fun e => decide (¬ S e.1 ∧ S e.2)) ≠ [] := by
    obtain ⟨e, he, hcross⟩ := hex
    intro hnil
    have : e ∈ (lockPairs s2).filter (fun e => decide (¬ S e.1 ∧ S e.2)) :=
      List.mem_filter.2 ⟨he, by simpa using hcross⟩
    rw [hnil] at this
    simp at this
  obtain ⟨e, he, hmax⟩ := exists_max_key (pget (scorePairs sc v)) _ hne
  obtain ⟨hel, hecross⟩ := List.mem_filter.1 he
  simp only [decide_eq_true_eq] at hecross
  obtain ⟨o, s'⟩ := e
  simp only at hecross
  have hos_key : (o, s') ∈ v.map (·.1) := (hkey _).1 (hlocked_in _ hel)
  have hoc : o ∈ candidates v := by
    obtain ⟨e', he', hee⟩ := List.mem_map.1 hos_key
    have := fst_mem_candidates he'
    rw [hee] at this
    exact this
  have hbeat : Beats v s' o := hS.2 s' o hecross.2 hoc hecross.1
  obtain ⟨hso_key, hklt⟩ := key_lt_of_beats hwf sc hbeat hos_key
  -- (s', o) is not locked: together with (o, s') it would be a cycle
  have hnotlocked : (s', o) ∉ lockPairs s2 := by
    intro hl
    have hac := lockPairs_acyclic' hself
    apply hac s'
    exact TransGen.tail (TransGen.single hl) hel
  obtain ⟨pre, post, hsplit⟩ := List.append_of_mem ((hkey _).2 hso_key)
  rw [hsplit] at hnotlocked
  obtain ⟨hpath, hsub⟩ := lockPairs_refused hnotlocked
  obtain ⟨o2, t2, hedge, ho2, ht2⟩ := transGen_crossing (S := S) hpath hecross.1 hecross.2
  have hpre : (o2, t2) ∈ pre := hsub _ hedge
  have hfinal : (o2, t2) ∈ lockPairs s2 := by
    rw [hsplit, lockPairs_eq, List.foldl_append]
    apply lockFold_mono
    rw [← lockPairs_eq]
    exact hedge
  have hge : pget (scorePairs sc v) (s', o) ≤ pget (scorePairs sc v) (o2, t2) := by
    rw [hsplit] at hsorted
    exact (List.pairwise_append.1 hsorted).2.2 (o2, t2) hpre (s', o) (by simp)
  have hle := hmax (o2, t2) (List.mem_filter.2 ⟨hfinal, by simpa using ⟨ho2, ht2⟩⟩)
  linarith

theorem rankedPairs_first_in_smith {v : Pairwise} (hwf : WF v) (sc : Scorer)
    {n : Nat} (hn : 1 ≤ n) {r : List Slot} (h : rankedPairs sc v n = .ok r) :
    ∃ c, r.head? = some (Slot.cand c) ∧ c ∈ smithSet v := by
  have hdom : Graph.Dominating (candidates v) (Beats v) (fun x => x ∈ smithSet v) := by
    have : (fun x => x ∈ smithSet v) = Graph.SmithReach (candidates v) (Beats v) :=
      funext fun x => propext (mem_smithSet hwf x)
    rw [this]; exact Graph.smithReach_dominating
  have hnocross := no_crossing_locked hwf sc hdom
  unfold rankedPairs at h
  simp only [bind, Except.bind] at h
  set s2 := sortDescBy (pget (scorePairs sc v)) (sortDescBy (pget v) (v.map (·.1))) with hs2
  have hperm : s2.Perm (v.map (·.1)) := (sortDescBy_perm _ _).trans (sortDescBy_perm _ _)
  have hkey : ∀ p, p ∈ s2 ↔ p ∈ v.map (·.1) := fun p => hperm.mem_iff
  cases hb : buildRanking (lockPairs s2) with
  | error e => rw [hb] at h; simp at h
  | ok ranking =>
    rw [hb] at h
    simp only [Except.ok.injEq] at h
    obtain ⟨c, hhead, hnoin, hcfirst⟩ := buildRanking_first hb
    have hr : r.head? = some (Slot.cand c) := by
      cases ranking with
      | nil => simp at hhead
      | cons a rest =>
        simp only [List.head?_cons, Option.some.injEq] at hhead
        subst hhead
        obtain ⟨k, rfl⟩ : ∃ k, n = k + 1 := ⟨n - 1, by omega⟩
        rw [← h]; rfl
    refine ⟨c, hr, ?_⟩
    obtain ⟨ec, hec, hec1⟩ := List.mem_map.1 hcfirst
    have hlocked_sub : ∀ e ∈ lockPairs s2, e ∈ v.map (·.1) := by
      intro e he
      rw [lockPairs_eq] at he
      rcases lockFold_sub _ _ he with h' | h'
      · simp at h'
      · exact (hkey e).1 h'
    have hcc : c ∈ candidates v := by
      obtain ⟨e, he, hee⟩ := List.mem_map.1 (hlocked_sub ec hec)
      have := fst_mem_candidates he
      rw [hee, hec1] at this
      exact this
    by_contra hnot
    obtain ⟨s, hs⟩ := Graph.smithReach_nonempty (cands := candidates v) (B := Beats v)
      (fun _ _ h => Beats.asymm h) (List.ne_nil_of_mem hcc)
    have hs' : s ∈ smithSet v := (mem_smithSet hwf s).2 hs
    have hbeat : Beats v s c := hdom.2 s c hs' hcc hnot
    have hpos : 0 < pget v (s, c) := lt_of_le_of_lt (pget_nonneg hwf _) hbeat
    have hsc_key : (s, c) ∈ v.map (·.1) := List.mem_map.2 ⟨_, pget_pos_mem hpos, rfl⟩
    obtain ⟨pre, post, hsplit⟩ := List.append_of_mem ((hkey _).2 hsc_key)
    have hnotlocked : (s, c) ∉ lockPairs (pre ++ (s, c) :: post) := by
      rw [← hsplit]
      intro hl
      exact hnoin _ hl rfl
    obtain ⟨hpath, _⟩ := lockPairs_refused hnotlocked
    obtain ⟨o, s', hedge, ho, hs1⟩ := transGen_crossing (S := fun x => x ∈ smithSet v) hpath hnot hs'
    have hfinal : (o, s') ∈ lockPairs s2 := by
      rw [hsplit, lockPairs_eq, List.foldl_append]
      apply lockFold_mono
      rw [← lockPairs_eq]
      exact hedge
    exact hnocross _ hfinal ⟨ho, hs1⟩

end VL.Condorcet
