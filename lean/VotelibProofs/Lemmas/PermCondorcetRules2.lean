/-
  C10: the Condorcet family on ranked profiles, part 2 — Kemeny-Young and ranked pairs (ballot order), and renaming
  equivariance of every evaluator of the family as called on a ranked profile: the outcome for the renamed profile is the
  renamed outcome, up to the order of equally placed winners / tie members (`SlotsEquiv`), because the pairwise dict of the
  renamed profile is the renamed dict only up to insertion order.
-/
import VotelibProofs.Lemmas.PermCondorcetRules
import VotelibProofs.Lemmas.RenameCondorcetConvert
import VotelibProofs.Lemmas.PermKemeny
import VotelibProofs.Lemmas.PermRankedPairs
namespace VL.Perm
open VL VL.Convert VL.C10 VL.PreConv

/-- **Kemeny-Young on a ranked profile: ballot-order independence** — the very same answer -/
theorem kemenyRule_perm {p₁ p₂ : RProfile} (h : p₁.Perm p₂) (n : Nat) :
    condorcetRule Condorcet.kemenyYoung p₁ n = condorcetRule Condorcet.kemenyYoung p₂ n :=
  kemenyYoung_perm (rankedToCondorcet_perm true h) (condorcetDict_nodup true p₁) n

/-- **Ranked pairs on a ranked profile: ballot-order independence** on profiles whose pairs are separated by their
    (score, count) sort keys — the property's own restriction to pairwise distinct strengths -/
theorem rankedPairsRule_perm (sc : Condorcet.Scorer) {p₁ p₂ : RProfile} (h : p₁.Perm p₂)
    (hd : RPDistinct sc (rankedToCondorcet true p₁)) (n : Nat) :
    condorcetRule (Condorcet.rankedPairs sc) p₁ n = condorcetRule (Condorcet.rankedPairs sc) p₂ n :=
  rankedPairs_perm (rankedToCondorcet_perm true h) sc hd n

section
variable (σ : Cand → Cand) (hσ : Function.Injective σ)
include hσ

theorem nodup_renPairwise {v : Condorcet.Pairwise} (hn : (v.map (·.1)).Nodup) : ((renPairwise σ v).map (·.1)).Nodup := by
  have : (renPairwise σ v).map (·.1) = (v.map (·.1)).map (renPair σ) := by
    unfold renPairwise; rw [List.map_map, List.map_map]; rfl
  rw [this]
  exact hn.map (renPair_inj σ hσ)

/-- **Copeland (first order) on a ranked profile: renaming equivariance** -/
theorem copelandRule_ren (p : RProfile) (hb : ∀ bw ∈ p, (ballotCands bw.1).Nodup) (n : Nat) :
    SlotsEquiv (condorcetRule (Condorcet.copeland false) (renRProfile σ p) n)
      ((condorcetRule (Condorcet.copeland false) p n).map (renSlot σ)) := by
  unfold condorcetRule
  rw [← copeland_false_ren σ hσ]
  exact copeland_perm (rankedToCondorcet_ren σ hσ true p hb) (condorcetDict_nodup true _) false n

/-- **Minimax on a ranked profile: renaming equivariance** -/
theorem minimaxRule_ren (sc : Condorcet.Scorer) (p : RProfile) (hb : ∀ bw ∈ p, (ballotCands bw.1).Nodup) (n : Nat) :
    SlotsEquiv (condorcetRule (Condorcet.minimax sc) (renRProfile σ p) n)
      ((condorcetRule (Condorcet.minimax sc) p n).map (renSlot σ)) := by
  unfold condorcetRule
  rw [← minimax_ren σ hσ]
  exact minimax_perm (rankedToCondorcet_ren σ hσ true p hb) (condorcetDict_nodup true _) sc n

/-- **Schulze on a ranked profile: renaming equivariance** (duplicate-free ballots, non-negative weights) -/
theorem schulzeRule_ren (p : RProfile) (hb : ∀ bw ∈ p, (ballotCands bw.1).Nodup) (hw : ∀ bw ∈ p, 0 ≤ bw.2) (n : Nat) :
    SlotsEquiv (condorcetRule Condorcet.schulze (renRProfile σ p) n)
      ((condorcetRule Condorcet.schulze p n).map (renSlot σ)) := by
  unfold condorcetRule
  rw [← schulze_ren σ hσ]
  refine schulze_perm (rankedToCondorcet_ren σ hσ true p hb) (condorcetDict_wf true _ ?_ ?_) n
  · intro bw' hbw'
    obtain ⟨bw, hbw, rfl⟩ := List.mem_map.1 hbw'
    exact nodup_ballotCands_ren σ hσ (hb bw hbw)
  · intro bw' hbw'
    obtain ⟨bw, hbw, rfl⟩ := List.mem_map.1 hbw'
    exact hw bw hbw

/-- **Condorcet winner of a ranked profile: renaming equivariance** — the renamed answer -/
theorem condorcetWinnerRule_ren (p : RProfile) (hb : ∀ bw ∈ p, (ballotCands bw.1).Nodup) :
    condorcetSeatless Condorcet.condorcetWinner (renRProfile σ p) = (condorcetSeatless Condorcet.condorcetWinner p).map σ := by
  unfold condorcetSeatless
  rw [← condorcetWinner_ren σ hσ]
  exact condorcetWinner_perm (rankedToCondorcet_ren σ hσ true p hb) (condorcetDict_nodup true _)

/-- **Smith set of a ranked profile: renaming equivariance** — the renamed set -/
theorem smithRule_ren (p : RProfile) (hb : ∀ bw ∈ p, (ballotCands bw.1).Nodup) :
    (condorcetSeatless Condorcet.smithSet (renRProfile σ p)).Perm ((condorcetSeatless Condorcet.smithSet p).map σ) := by
  unfold condorcetSeatless
  rw [← smithSet_ren σ hσ]
  exact smithSet_perm (rankedToCondorcet_ren σ hσ true p hb) (condorcetDict_nodup true _)

/-- **Schwartz set of a ranked profile: renaming equivariance** — the renamed set -/
theorem schwartzRule_ren (p : RProfile) (hb : ∀ bw ∈ p, (ballotCands bw.1).Nodup) :
    (condorcetSeatless Condorcet.schwartzSet (renRProfile σ p)).Perm ((condorcetSeatless Condorcet.schwartzSet p).map σ) := by
  unfold condorcetSeatless
  rw [← schwartzSet_ren σ hσ]
  exact schwartzSet_perm (rankedToCondorcet_ren σ hσ true p hb) (condorcetDict_nodup true _)

/-- **Kemeny-Young on a ranked profile: renaming equivariance** — the renamed answer -/
theorem kemenyRule_ren (p : RProfile) (hb : ∀ bw ∈ p, (ballotCands bw.1).Nodup) (n : Nat) :
    condorcetRule Condorcet.kemenyYoung (renRProfile σ p) n =
      (condorcetRule Condorcet.kemenyYoung p n).map (fun r => r.map (renSlot σ)) := by
  unfold condorcetRule
  rw [← kemenyYoung_ren σ hσ]
  exact kemenyYoung_perm (rankedToCondorcet_ren σ hσ true p hb) (condorcetDict_nodup true _) n

end

end VL.Perm
