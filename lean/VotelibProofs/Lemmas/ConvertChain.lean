/-
  C13 helper lemmas: converters that are linear on dictionaries, typed chains of them.
-/
import VotelibProofs.Lemmas.ConvertMisc
namespace VL.Convert
open VL

/-- two profiles that are the same function ballot -> weight -/
def FunEq {β : Type} [DecidableEq β] (p q : Dict β) : Prop := ∀ b, toFun p b = toFun q b

/-- `F` is linear on dictionaries: it maps dicts to dicts, only sees its input as a function
    ballot -> weight, and the conversion of the dict `A + B` is the sum of the conversions -/
structure LinearD {β γ : Type} [DecidableEq β] [DecidableEq γ] (F : Dict β → Dict γ) : Prop where
  dict : ∀ p, (dkeys p).Nodup → (dkeys (F p)).Nodup
  congr : ∀ p q, (dkeys p).Nodup → (dkeys q).Nodup → FunEq p q → FunEq (F p) (F q)
  add : ∀ p q g, (dkeys p).Nodup → (dkeys q).Nodup →
    toFun (F (mergeDict (p ++ q))) g = toFun (F p) g + toFun (F q) g

section
variable {β κ γ : Type} [DecidableEq β] [DecidableEq κ] [DecidableEq γ]

/-- every sum-of-images converter whose output is a dict is linear -/
theorem SumOfImages.linearD {X : Dict β → Dict κ} {img : β → κ → Rat} (h : SumOfImages X img)
    (hd : ∀ p, (dkeys (X p)).Nodup) : LinearD X :=
  ⟨fun p _ => hd p, fun _ _ _ _ hpq k => h.congr hpq k, fun p q g _ _ => h.additive_merged p q g⟩

theorem LinearD.id : LinearD (fun p : Dict β => p) :=
  ⟨fun _ h => h, fun _ _ _ _ h => h, fun p q g _ _ => by rw [toFun_mergeDict, toFun_append]⟩

/-- the composition of two linear converters is linear: nothing is lost or doubled between the stages -/
theorem LinearD.comp {F : Dict β → Dict κ} {G : Dict κ → Dict γ} (hF : LinearD F) (hG : LinearD G) :
    LinearD (fun p => G (F p)) := by
  refine ⟨fun p hp => hG.dict _ (hF.dict p hp), fun p q hp hq hpq => hG.congr _ _ (hF.dict p hp) (hF.dict q hq)
    (hF.congr p q hp hq hpq), fun p q g hp hq => ?_⟩
  have h1 : FunEq (F (mergeDict (p ++ q))) (mergeDict (F p ++ F q)) := by
    intro k
    rw [hF.add p q k hp hq, toFun_mergeDict, toFun_append]
  rw [hG.congr _ _ (hF.dict _ (nodup_mergeDict _)) (nodup_mergeDict _) h1 g]
  exact hG.add _ _ g (hF.dict p hp) (hF.dict q hq)

/-- InvertedSimpleVotes is linear on dictionaries -/
theorem invertedSimple_linearD : LinearD (invertedSimple (κ := β)) := by
  refine ⟨fun p hp => ?_, fun p q hp hq hpq k => ?_, fun p q g hp hq => ?_⟩
  · rw [invertedSimple_eq hp]
    have : dkeys (p.map (fun cw => (cw.1, -cw.2))) = dkeys p := by unfold dkeys; rw [List.map_map]; rfl
    rw [this]; exact hp
  · rw [invertedSimple_eq hp, invertedSimple_eq hq, toFun_map_neg, toFun_map_neg, hpq]
  · rw [invertedSimple_eq (nodup_mergeDict _), invertedSimple_eq hp, invertedSimple_eq hq, toFun_map_neg,
      toFun_map_neg, toFun_map_neg, toFun_mergeDict, toFun_append]; ring
end

/-- a vote-key type together with its decidable equality (so that a chain can change key types) -/
structure KeyType where
  T : Type
  [dec : DecidableEq T]

attribute [instance] KeyType.dec

/-- a typed chain of converters (the type of the intermediate vote dictionaries may change at every link) -/
inductive LinChain : KeyType → KeyType → Type 1 where
  | nil {β : KeyType} : LinChain β β
  | cons {β κ γ : KeyType} (F : Dict β.T → Dict κ.T) (rest : LinChain κ γ) : LinChain β γ

/-- `Chain(converters).convert` for a typed chain -/
def LinChain.run : {β γ : KeyType} → LinChain β γ → Dict β.T → Dict γ.T
  | _, _, .nil, p => p
  | _, _, .cons F rest, p => rest.run (F p)

/-- every link is linear on dictionaries -/
def LinChain.AllLinear : {β γ : KeyType} → LinChain β γ → Prop
  | _, _, .nil => True
  | _, _, .cons F rest => LinearD F ∧ rest.AllLinear

/-- **general chain additivity**, by induction over the chain: a chain of linear converters is linear -/
theorem LinChain.linear {β γ : KeyType} (c : LinChain β γ) (h : c.AllLinear) : LinearD c.run := by
  induction c with
  | nil => exact LinearD.id
  | cons F rest ih =>
    obtain ⟨hF, hr⟩ := h
    exact hF.comp (ih hr)

theorem LinChain.additive {β γ : KeyType} (c : LinChain β γ) (h : c.AllLinear)
    (p q : Dict β.T) (hp : (dkeys p).Nodup) (hq : (dkeys q).Nodup) (g : γ.T) :
    toFun (c.run (mergeDict (p ++ q))) g = toFun (c.run p) g + toFun (c.run q) g :=
  (c.linear h).add p q g hp hq

end VL.Convert
