/-
  C10: the symmetric-candidates corollary for Baldwin (see PermSymmetric.lean).
-/
import VotelibProofs.Lemmas.PermSymmetric
import VotelibProofs.Lemmas.PermBaldwin
namespace VL.Perm
open VL VL.Convert VL.C10 VL.ShapeSeq

/-- **Symmetric candidates under Baldwin**: if renaming by σ only reorders the ballots, `c` and `σ c` are both elected or
    both not, and both in the reported tie or both not -/
theorem baldwin_symmetric (σ : Cand → Cand) (hσ : Function.Injective σ) (p : RProfile) (hwf : C08.RankedWF p)
    (hsym : p.Perm (renRProfile σ p)) (n : Nat) (r : List Slot) (hr : baldwin p n = .ok r) (c : Cand) :
    (Elected (σ c) r ↔ Elected c r) ∧ (InTie (σ c) r ↔ InTie c r) := by
  have h1 := baldwin_perm hsym hwf n
  have h2 := baldwin_ren σ hσ p hwf n
  rw [hr] at h1 h2
  cases hr' : baldwin (renRProfile σ p) n with
  | error e => rw [hr'] at h1; exact h1.elim
  | ok r' =>
    rw [hr'] at h1 h2
    exact symmetric_of_chain σ hσ (slotsEquiv_symm h1) h2 c

end VL.Perm
