/-
  C17 helper lemmas: the generated rank scorers (Borda, Dowdall, Geometric, ModifiedBorda, FixedTop) hand out
  non-increasing, non-negative score sequences that satisfy `ScorerMono`.
-/
import VotelibProofs.Lemmas.MonoProfile
import Mathlib.Algebra.Order.Field.Basic
import Mathlib.Tactic.Positivity
namespace VL.Mono
open VL VL.Convert

theorem getD_map_range' (f : Nat → Rat) (n j : Nat) : ((List.range n).map f).getD j 0 = if j < n then f j else 0 := by
  split
  · rename_i h; exact getD_map_range f n j h
  · rename_i h
    rw [List.getD_eq_getElem?_getD, List.getElem?_eq_none (by simp; omega)]; rfl

/-- score sequences that do not depend on the number of places (up to `N` places) -/
theorem mono_of_prefix (S : Nat → Nat → Rat) (g : Nat → Rat) (N : Nat)
    (h1 : ∀ n j, n ≤ N → j < n → S n j = g j)
    (hanti : ∀ n j, j + 1 < n → S n (j + 1) ≤ S n j) (hnn : ∀ n j, j < n → 0 ≤ S n j) : ScorerMono S N := by
  refine ⟨hanti, hnn, fun n hn => ⟨0, le_refl _, ?_, ?_, ?_, ?_⟩⟩
  · intro j hj
    rw [h1 (n + 1) j (by omega) (by omega), h1 n j (by omega) hj]; simp
  · intro j hj
    have := hanti (n + 1) j (by omega)
    rw [h1 (n + 1) j (by omega) (by omega), ← h1 n j (by omega) hj] at this
    exact this
  · intro i r hir hr
    have := anti_le_of hanti (n := n + 1) hir (by omega)
    rw [h1 (n + 1) r (by omega) (by omega), ← h1 n r (by omega) hr] at this
    simpa using this
  · intro i hi
    exact hnn (n + 1) i (by omega)

/-! ### closed forms -/

theorem scorerFn_dowdall (nC n j : Nat) :
    scorerFn .dowdall nC n j = if j < n then (1 : Rat) / ((j : Rat) + 1) else 0 := by
  unfold scorerFn scorerList
  simp only [Scorer.scores, Gen.RankScore.dowdall_scores]
  rw [getD_map_range']
  split <;> simp

theorem scorerFn_geometric (base nC n j : Nat) (hb : 1 ≤ base) :
    scorerFn (.geometric base) nC n j = if j < n then (1 : Rat) / ((base : Rat) ^ j) else 0 := by
  unfold scorerFn scorerList
  simp only [Scorer.scores, Gen.RankScore.geometric_scores]
  rw [if_neg (by omega)]
  simp only
  rw [getD_map_range']
  split <;> simp

theorem scorerFn_modifiedBorda (nC n j : Nat) :
    scorerFn .modifiedBorda nC n j = if j < n then (n : Rat) - (j : Rat) else 0 := by
  unfold scorerFn scorerList
  simp only [Scorer.scores, Gen.RankScore.modified_borda_scores]
  rw [getD_map_range']
  split <;> simp

theorem scorerFn_fixedTop (top : Int) (nC n j : Nat) :
    scorerFn (.fixedTop top) nC n j = if j < n then Py.pyMax ((top : Rat) - (j : Rat)) 0 else 0 := by
  unfold scorerFn scorerList
  simp only [Scorer.scores, Gen.RankScore.fixed_top_scores]
  rw [getD_map_range']
  split <;> simp

theorem scorerFn_borda (base : Int) (nC n j : Nat) :
    scorerFn (.borda base) nC n j = if n ≤ nC ∧ j < n then (nC : Rat) + (base : Rat) - 1 - (j : Rat) else 0 := by
  unfold scorerFn scorerList
  simp only [Scorer.scores]
  by_cases hn : n > nC
  · rw [if_pos hn, if_neg (by omega)]; rfl
  · rw [if_neg hn]
    simp only
    by_cases hj : j < n
    · rw [selectPadded_getD _ _ _ hj, if_pos ⟨by omega, hj⟩]
      simp only [Gen.RankScore.borda_scores]
      rw [getD_map_range', if_pos (by omega)]
      push_cast; ring
    · rw [if_neg (by omega), List.getD_eq_getElem?_getD, List.getElem?_eq_none (by rw [selectPadded_length]; omega)]; rfl

/-! ### the five scorers -/

theorem dowdall_mono (nC N : Nat) : ScorerMono (scorerFn .dowdall nC) N := by
  apply mono_of_prefix _ (fun j => (1 : Rat) / ((j : Rat) + 1)) N
  · intro n j _ hj; rw [scorerFn_dowdall, if_pos hj]
  · intro n j hj
    rw [scorerFn_dowdall, scorerFn_dowdall, if_pos hj, if_pos (by omega)]
    apply one_div_le_one_div_of_le (by positivity)
    push_cast; linarith
  · intro n j hj; rw [scorerFn_dowdall, if_pos hj]; positivity

theorem geometric_mono (base nC N : Nat) (hb : 1 ≤ base) : ScorerMono (scorerFn (.geometric base) nC) N := by
  have hb' : (1 : Rat) ≤ (base : Rat) := by exact_mod_cast hb
  apply mono_of_prefix _ (fun j => (1 : Rat) / ((base : Rat) ^ j)) N
  · intro n j _ hj; rw [scorerFn_geometric _ _ _ _ hb, if_pos hj]
  · intro n j hj
    rw [scorerFn_geometric _ _ _ _ hb, scorerFn_geometric _ _ _ _ hb, if_pos hj, if_pos (by omega)]
    apply one_div_le_one_div_of_le (by positivity)
    rw [pow_succ]
    nlinarith [pow_pos (lt_of_lt_of_le one_pos hb') j]
  · intro n j hj; rw [scorerFn_geometric _ _ _ _ hb, if_pos hj]; positivity

theorem pyMax_zero_nonneg (x : Rat) : 0 ≤ Py.pyMax x 0 := by
  unfold Py.pyMax; split <;> [exact le_refl _; (rename_i h; exact not_lt.mp h)]

theorem pyMax_zero_mono {x y : Rat} (h : x ≤ y) : Py.pyMax x 0 ≤ Py.pyMax y 0 := by
  unfold Py.pyMax
  split <;> split <;> rename_i h1 h2
  · exact le_refl _
  · exact not_lt.mp h2
  · exact absurd (lt_of_le_of_lt h h2) h1
  · exact h

theorem fixedTop_mono (top : Int) (nC N : Nat) : ScorerMono (scorerFn (.fixedTop top) nC) N := by
  apply mono_of_prefix _ (fun j => Py.pyMax ((top : Rat) - (j : Rat)) 0) N
  · intro n j _ hj; rw [scorerFn_fixedTop, if_pos hj]
  · intro n j hj
    rw [scorerFn_fixedTop, scorerFn_fixedTop, if_pos hj, if_pos (by omega)]
    apply pyMax_zero_mono
    push_cast; linarith
  · intro n j hj; rw [scorerFn_fixedTop, if_pos hj]; exact pyMax_zero_nonneg _

theorem borda_mono (base : Int) (hb : 0 ≤ base) (nC : Nat) : ScorerMono (scorerFn (.borda base) nC) nC := by
  have hb' : (0 : Rat) ≤ (base : Rat) := by exact_mod_cast hb
  apply mono_of_prefix _ (fun j => (nC : Rat) + (base : Rat) - 1 - (j : Rat)) nC
  · intro n j hn hj; rw [scorerFn_borda, if_pos ⟨hn, hj⟩]
  · intro n j hj
    rw [scorerFn_borda, scorerFn_borda]
    by_cases hn : n ≤ nC
    · rw [if_pos ⟨hn, hj⟩, if_pos ⟨hn, by omega⟩]; push_cast; linarith
    · rw [if_neg (fun h => hn h.1), if_neg (fun h => hn h.1)]
  · intro n j hj
    rw [scorerFn_borda]
    by_cases hn : n ≤ nC
    · rw [if_pos ⟨hn, hj⟩]
      have : (j : Rat) + 1 ≤ (nC : Rat) := by exact_mod_cast (by omega : j + 1 ≤ nC)
      linarith
    · rw [if_neg (fun h => hn h.1)]

theorem modifiedBorda_mono (nC N : Nat) : ScorerMono (scorerFn .modifiedBorda nC) N := by
  refine ⟨?_, ?_, fun n _ => ⟨1, by norm_num, ?_, ?_, ?_, ?_⟩⟩
  · intro n j hj
    rw [scorerFn_modifiedBorda, scorerFn_modifiedBorda, if_pos hj, if_pos (by omega)]; push_cast; linarith
  · intro n j hj
    rw [scorerFn_modifiedBorda, if_pos hj]
    have : (j : Rat) ≤ (n : Rat) := by exact_mod_cast (by omega : j ≤ n)
    linarith
  · intro j hj
    rw [scorerFn_modifiedBorda, scorerFn_modifiedBorda, if_pos hj, if_pos (by omega)]; push_cast; linarith
  · intro j hj
    rw [scorerFn_modifiedBorda, scorerFn_modifiedBorda, if_pos hj, if_pos (by omega)]; push_cast; linarith
  · intro i r hir hr
    rw [scorerFn_modifiedBorda, scorerFn_modifiedBorda, if_pos hr, if_pos (by omega)]
    have : (i : Rat) ≤ (r : Rat) := by exact_mod_cast hir
    push_cast; linarith
  · intro i hi
    rw [scorerFn_modifiedBorda, if_pos (by omega)]
    have : (i : Rat) ≤ (n : Rat) := by exact_mod_cast hi
    push_cast; linarith

/-! ### SequenceBased -/

theorem scorerFn_sequence (seq : List Rat) (nC n j : Nat) :
    scorerFn (.sequence seq) nC n j = if j < n then seq.getD j 0 else 0 := by
  unfold scorerFn scorerList
  simp only [Scorer.scores]
  by_cases hj : j < n
  · rw [if_pos hj, selectPadded_getD _ _ _ hj]
  · rw [if_neg hj, List.getD_eq_getElem?_getD, List.getElem?_eq_none (by rw [selectPadded_length]; omega)]; rfl

/-- a sequence of scores that never increases and is never negative -/
def SeqOK (seq : List Rat) : Prop := seq.Pairwise (fun a b => b ≤ a) ∧ ∀ x ∈ seq, 0 ≤ x

instance (seq : List Rat) : Decidable (SeqOK seq) := by unfold SeqOK; infer_instance

theorem seq_getD_nonneg {seq : List Rat} (h : SeqOK seq) (j : Nat) : 0 ≤ seq.getD j 0 := by
  rw [List.getD_eq_getElem?_getD]
  cases hj : seq[j]? with
  | none => simp
  | some x => simp only [Option.getD_some]; exact h.2 x (List.mem_of_getElem? hj)

theorem seq_getD_anti {seq : List Rat} (h : SeqOK seq) (j : Nat) : seq.getD (j + 1) 0 ≤ seq.getD j 0 := by
  by_cases hj : j + 1 < seq.length
  · rw [List.getD_eq_getElem?_getD, List.getD_eq_getElem?_getD, List.getElem?_eq_getElem hj,
      List.getElem?_eq_getElem (by omega : j < seq.length)]
    simp only [Option.getD_some]
    exact List.pairwise_iff_getElem.mp h.1 j (j + 1) (by omega) hj (by omega)
  · have : seq.getD (j + 1) 0 = 0 := by
      rw [List.getD_eq_getElem?_getD, List.getElem?_eq_none (by omega)]; rfl
    rw [this]; exact seq_getD_nonneg h j

theorem sequence_mono (seq : List Rat) (h : SeqOK seq) (nC N : Nat) : ScorerMono (scorerFn (.sequence seq) nC) N := by
  apply mono_of_prefix _ (fun j => seq.getD j 0) N
  · intro n j _ hj; rw [scorerFn_sequence, if_pos hj]
  · intro n j hj
    rw [scorerFn_sequence, scorerFn_sequence, if_pos hj, if_pos (by omega)]
    exact seq_getD_anti h j
  · intro n j hj; rw [scorerFn_sequence, if_pos hj]; exact seq_getD_nonneg h j

/-! ### acceptance -/

theorem accepts_of (sc : Scorer) (hg : sc ≠ .geometric 0) : Accepts sc := by
  intro nCand n hn
  exact Scorer.scores_ok sc nCand n (fun _ _ => hn) (fun h => absurd h hg)

end VL.Mono
