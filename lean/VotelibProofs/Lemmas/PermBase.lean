/-
  C10 — shared vocabulary of the order and name independence proofs:
  the equivalence `SlotsEquiv` on selection results (forgets exactly the order of the individually elected candidates and
  the order in which a tie lists its members), its lifting to `Except`, and the two facts everything else rests on:
  `getNBest` maps permuted dictionaries to equivalent results and commutes with every renaming.
-/
import VotelibProofs.Props.C09
import VotelibProofs.Lemmas.HARename
namespace VL.C10
open VL

/-- two selection results that agree up to the order of the individually elected candidates and the order in which a
    tie lists its members: same elected set, same tie (as a set), same number of seats carried by the tie -/
def SlotsEquiv (r₁ r₂ : List Slot) : Prop :=
  ∃ (e₁ e₂ T₁ T₂ : List Cand) (m : Nat),
    r₁ = e₁.map Slot.cand ++ List.replicate m (Slot.tie T₁) ∧
    r₂ = e₂.map Slot.cand ++ List.replicate m (Slot.tie T₂) ∧ e₁.Perm e₂ ∧ T₁.Perm T₂

/-- `SlotsEquiv` lifted to results that may be an exception: the same exception, or equivalent results -/
def ExceptEquiv {α : Type} (R : α → α → Prop) : Except Err α → Except Err α → Prop
  | .ok a, .ok b => R a b
  | .error e, .error f => e = f
  | _, _ => False

def renSlot (σ : Cand → Cand) : Slot → Slot
  | .cand c => .cand (σ c)
  | .tie T => .tie (T.map σ)

end VL.C10

namespace VL.Perm
open VL VL.C10

theorem cntGt_perm {v₁ v₂ : Votes} (h : v₁.Perm v₂) (t : Rat) : cntGt v₁ t = cntGt v₂ t := (h.filter _).length_eq
theorem cntGe_perm {v₁ v₂ : Votes} (h : v₁.Perm v₂) (t : Rat) : cntGe v₁ t = cntGe v₂ t := (h.filter _).length_eq

theorem isNth_perm {v₁ v₂ : Votes} (h : v₁.Perm v₂) {n : Nat} {t : Rat} (ht : IsNth v₁ n t) : IsNth v₂ n t := by
  obtain ⟨⟨p, hp, hpt⟩, h1, h2⟩ := ht
  exact ⟨⟨p, h.mem_iff.mp hp, hpt⟩, by rw [← cntGt_perm h]; exact h1, by rw [← cntGe_perm h]; exact h2⟩

theorem sortDesc_perm_of_perm {v₁ v₂ : Votes} (h : v₁.Perm v₂) : (sortDesc v₁).Perm (sortDesc v₂) :=
  ((sortDesc_perm v₁).trans h).trans (sortDesc_perm v₂).symm

theorem aboveSorted_perm {v₁ v₂ : Votes} (h : v₁.Perm v₂) (t : Rat) : (aboveSorted v₁ t).Perm (aboveSorted v₂ t) := by
  unfold aboveSorted
  exact (sortDesc_perm_of_perm h).filter _

theorem level_perm {v₁ v₂ : Votes} (h : v₁.Perm v₂) (t : Rat) : (level v₁ t).Perm (level v₂ t) := by
  unfold level
  exact (h.filter _).map _

theorem slotsEquiv_refl (r : List Slot) (h : ∃ (e T : List Cand) (m : Nat), r = e.map Slot.cand ++ List.replicate m (Slot.tie T)) :
    SlotsEquiv r r := by
  obtain ⟨e, T, m, hr⟩ := h
  exact ⟨e, e, T, T, m, hr, hr, List.Perm.refl _, List.Perm.refl _⟩

theorem slotsEquiv_symm {r₁ r₂ : List Slot} (h : SlotsEquiv r₁ r₂) : SlotsEquiv r₂ r₁ := by
  obtain ⟨e₁, e₂, T₁, T₂, m, h1, h2, he, hT⟩ := h
  exact ⟨e₂, e₁, T₂, T₁, m, h2, h1, he.symm, hT.symm⟩

theorem getNBest_zero (votes : Votes) : getNBest votes 0 = [] := by
  unfold getNBest
  simp only
  split
  · rename_i h
    have h0 : 0 < (sortDesc votes).length := h
    have e : (sortDesc votes)[0 - 1]? = some ((sortDesc votes)[0]) := List.getElem?_eq_getElem h0
    rw [e]
    simp
  · rename_i h
    have : (sortDesc votes) = [] := by
      cases hs : sortDesc votes with
      | nil => rfl
      | cons a b => rw [hs] at h; simp at h
    rw [this]; rfl

/-- `getNBest` on permuted dictionaries: equivalent results, for every number of seats -/
theorem getNBest_perm (v₁ v₂ : Votes) (h : v₁.Perm v₂) (n : Nat) :
    SlotsEquiv (getNBest v₁ n) (getNBest v₂ n) := by
  rcases Nat.eq_zero_or_pos n with h0 | h1
  · subst h0
    rw [getNBest_zero, getNBest_zero]
    exact ⟨[], [], [], [], 0, rfl, rfl, List.Perm.refl _, List.Perm.refl _⟩
  have hlen := h.length_eq
  rcases Nat.lt_or_ge n v₁.length with hlt | hge
  · obtain ⟨t, ht⟩ := nth_exists v₁ n h1 (Nat.le_of_lt hlt)
    have ht2 := isNth_perm h ht
    have hlt2 : n < v₂.length := by omega
    rcases Nat.lt_or_ge n (cntGe v₁ t) with hno | hfit
    · have hno2 : n < cntGe v₂ t := by rw [← cntGe_perm h]; exact hno
      refine ⟨(aboveSorted v₁ t).map (·.1), (aboveSorted v₂ t).map (·.1), level v₁ t, level v₂ t, n - cntGt v₁ t, ?_, ?_,
        (aboveSorted_perm h t).map _, level_perm h t⟩
      · rw [C09.getNBest_tie v₁ n h1 hlt t ht hno, List.map_map]; rfl
      · rw [C09.getNBest_tie v₂ n h1 hlt2 t ht2 hno2, List.map_map, cntGt_perm h]; rfl
    · have hfit2 : cntGe v₂ t ≤ n := by rw [← cntGe_perm h]; exact hfit
      refine ⟨(aboveSorted v₁ t).map (·.1) ++ level v₁ t, (aboveSorted v₂ t).map (·.1) ++ level v₂ t, [], [], 0, ?_, ?_,
        ((aboveSorted_perm h t).map _).append (level_perm h t), List.Perm.refl _⟩
      · rw [C09.getNBest_fits v₁ n h1 hlt t ht hfit]; simp [List.map_append, List.map_map, Function.comp_def]
      · rw [C09.getNBest_fits v₂ n h1 hlt2 t ht2 hfit2]; simp [List.map_append, List.map_map, Function.comp_def]
  · refine ⟨(sortDesc v₁).map (·.1), (sortDesc v₂).map (·.1), [], [], 0, ?_, ?_,
      (sortDesc_perm_of_perm h).map _, List.Perm.refl _⟩
    · rw [getNBest_all v₁ n hge]; simp [List.map_map, Function.comp_def]
    · rw [getNBest_all v₂ n (by omega)]; simp [List.map_map, Function.comp_def]

theorem insertDesc_ren (σ : Cand → Cand) (x : Cand × Rat) (l : Votes) :
    insertDesc (σ x.1, x.2) (renVotes σ l) = renVotes σ (insertDesc x l) := by
  unfold renVotes
  induction l with
  | nil => simp [insertDesc]
  | cons y ys ih =>
    simp only [List.map_cons, insertDesc]
    by_cases hlt : x.2 < y.2
    · rw [if_pos hlt, if_pos hlt, ih]; rfl
    · rw [if_neg hlt, if_neg hlt]; rfl

theorem sortDesc_ren (σ : Cand → Cand) (l : Votes) : sortDesc (renVotes σ l) = renVotes σ (sortDesc l) := by
  induction l with
  | nil => rfl
  | cons x xs ih =>
    have : renVotes σ (x :: xs) = (σ x.1, x.2) :: renVotes σ xs := rfl
    rw [this]
    simp only [sortDesc]
    rw [ih, insertDesc_ren]

/-- `getNBest` commutes with every renaming (keys are never compared) -/
theorem getNBest_rename (σ : Cand → Cand) (votes : Votes) (n : Nat) :
    getNBest (renVotes σ votes) n = (getNBest votes n).map (renSlot σ) := by
  unfold getNBest
  simp only [sortDesc_ren]
  unfold renVotes
  simp only [List.length_map, List.getElem?_map]
  split
  · cases h1 : (sortDesc votes)[n-1]? <;> cases h2 : (sortDesc votes)[n]? <;> simp only [Option.map, List.map_nil]
    split
    · simp only [List.filter_map, List.takeWhile_map, List.map_map, List.length_map, ← List.map_take,
        Function.comp_def, List.map_append, List.map_replicate, renSlot]
    · simp only [← List.map_take, List.map_map, Function.comp_def, renSlot]
  · simp only [List.map_map, Function.comp_def, renSlot]

/-- `sum(votes.values())` as a list sum -/
theorem sumVals_eq_sum (votes : Votes) : sumVals votes = (votes.map (·.2)).sum := by
  unfold sumVals
  have : ∀ (a : Rat) (l : Votes), l.foldl (fun acc p => acc + p.2) a = a + (l.map (·.2)).sum := by
    intro a l
    induction l generalizing a with
    | nil => simp
    | cons x xs ih => simp only [List.foldl_cons, List.map_cons, List.sum_cons]; rw [ih, add_assoc]
  rw [this, zero_add]

theorem sumVals_perm {v₁ v₂ : Votes} (h : v₁.Perm v₂) : sumVals v₁ = sumVals v₂ := by
  rw [sumVals_eq_sum, sumVals_eq_sum]; exact (h.map _).sum_eq

theorem sumVals_ren (σ : Cand → Cand) (v : Votes) : sumVals (renVotes σ v) = sumVals v := by
  rw [sumVals_eq_sum, sumVals_eq_sum]; unfold renVotes; rw [List.map_map]; rfl

end VL.Perm
