/-
  C10 — candidate-name independence of `PreferenceAddition` with `split_equal_rankings=True`.

  1. closed form of `_decouple_equal_rankings`: the ballots without a shared rank, plus all the variant additions
     (`decouple_closed`);
  2. `permsLex` (itertools.permutations) enumerates every permutation of a duplicate-free list exactly once, so permuting
     the members of a shared rank permutes the list of variants (`variants_req`);
  3. hence `decouple (renRProfile σ p)` is the exactly renamed `decouple p` up to insertion order, and the loop theorem of
     RenameBucklin.lean applies.
-/
import VotelibProofs.Lemmas.RenameBucklin
namespace VL.Perm.Buck
open VL VL.Convert VL.ShapeSeq VL.C10 VL.Perm.Stv

/-! ### closed form of the decoupling -/

def delKeys (nv : RProfile) (ks : List Ballot) : RProfile := ks.foldl delKey nv

def sharedPart (l : RProfile) : RProfile := l.filter (fun e => e.1.any isShared)

def reqsOf (l : RProfile) : List (Ballot × Rat) := (sharedPart l).flatMap dReqs

theorem delKeys_addAllTo {reqs : List (Ballot × Rat)} {ks : List Ballot} (h : ∀ k ∈ ks, k ∉ reqs.map (·.1))
    (d : RProfile) : delKeys (addAllTo d reqs) ks = addAllTo (delKeys d ks) reqs := by
  unfold delKeys
  induction ks generalizing d with
  | nil => rfl
  | cons k ks ih =>
    rw [List.foldl_cons, List.foldl_cons, delKey_addAllTo (h k List.mem_cons_self)]
    exact ih (fun k' hk' => h k' (List.mem_cons_of_mem _ hk')) _

theorem foldl_dStep_eq (l nv : RProfile) :
    l.foldl dStep nv = addAllTo (delKeys nv ((sharedPart l).map (·.1))) (reqsOf l) := by
  induction l generalizing nv with
  | nil => rfl
  | cons x xs ih =>
    rw [List.foldl_cons, ih]
    by_cases hx : x.1.any isShared = true
    · have hs : sharedPart (x :: xs) = x :: sharedPart xs := by unfold sharedPart; rw [List.filter_cons, if_pos hx]
      have hr : reqsOf (x :: xs) = dReqs x ++ reqsOf xs := by unfold reqsOf; rw [hs, List.flatMap_cons]
      rw [hs, hr, addAllTo_append]
      unfold dStep
      rw [if_pos hx, delKeys_addAllTo]
      · rfl
      · intro k hk
        obtain ⟨e, he, rfl⟩ := List.mem_map.mp hk
        exact shared_not_in_dReqs (List.mem_filter.mp he).2 x
    · have hs : sharedPart (x :: xs) = sharedPart xs := by unfold sharedPart; rw [List.filter_cons, if_neg hx]
      have hr : reqsOf (x :: xs) = reqsOf xs := by unfold reqsOf; rw [hs]
      rw [hs, hr]
      unfold dStep
      rw [if_neg hx]

theorem delKeys_eq_filter (nv : RProfile) (ks : List Ballot) :
    delKeys nv ks = nv.filter (fun e => decide (e.1 ∉ ks)) := by
  unfold delKeys
  induction ks generalizing nv with
  | nil => simp
  | cons k ks ih =>
    rw [List.foldl_cons, ih]
    unfold delKey
    rw [List.filter_filter]
    apply List.filter_congr
    intro e _
    simp only [List.mem_cons, not_or, ne_eq, Bool.decide_and, Bool.and_comm]

/-- **closed form**: `_decouple_equal_rankings` keeps the ballots without a shared rank and adds every variant's share -/
theorem decouple_closed (p : RProfile) :
    decouple p = addAllTo (p.filter (fun e => !(e.1.any isShared))) (reqsOf p) := by
  rw [decouple_eq, foldl_dStep_eq, delKeys_eq_filter]
  congr 1
  apply List.filter_congr
  intro e he
  by_cases hs : e.1.any isShared = true
  · have : e.1 ∈ (sharedPart p).map (·.1) := List.mem_map.mpr ⟨e, List.mem_filter.mpr ⟨he, hs⟩, rfl⟩
    simp [this, hs]
  · have : e.1 ∉ (sharedPart p).map (·.1) := by
      intro hm
      obtain ⟨e', he', heq⟩ := List.mem_map.mp hm
      exact hs (heq ▸ (List.mem_filter.mp he').2)
    simp [this, hs]

/-! ### exact renaming of ballots (injective) -/

def exactItem (σ : Cand → Cand) : RankItem → RankItem
  | .one c => .one (σ c)
  | .shared cs => .shared (cs.map σ)

def exactB (σ : Cand → Cand) (b : Ballot) : Ballot := b.map (exactItem σ)

def mapKeys {κ κ' : Type} (φ : κ → κ') (d : Dict κ) : Dict κ' := d.map (fun e => (φ e.1, e.2))

variable {σ : Cand → Cand}

theorem exactItem_injective (hσ : Function.Injective σ) : Function.Injective (exactItem σ) := by
  intro x y h
  cases x <;> cases y <;> simp only [exactItem, RankItem.one.injEq, RankItem.shared.injEq, reduceCtorEq] at h
  · rw [hσ h]
  · rw [List.map_injective_iff.mpr hσ h]

theorem exactB_injective (hσ : Function.Injective σ) : Function.Injective (exactB σ) :=
  List.map_injective_iff.mpr (exactItem_injective hσ)

theorem renBallot_noShared {b : Ballot} (h : b.any isShared = false) : renBallot σ b = exactB σ b := by
  unfold renBallot exactB
  apply List.map_congr_left
  intro it hit
  cases it with
  | one c => rfl
  | shared cs =>
    have := List.any_eq_false.mp h _ hit
    simp [isShared] at this

theorem isShared_renItem (σ : Cand → Cand) (it : RankItem) : isShared (renItem σ it) = isShared it := by
  cases it <;> rfl

theorem anyShared_renBallot (σ : Cand → Cand) (b : Ballot) : (renBallot σ b).any isShared = b.any isShared := by
  unfold renBallot
  rw [List.any_map]
  congr 1
  funext it
  exact isShared_renItem σ it

section MapKeys
variable {κ κ' : Type} [DecidableEq κ] [DecidableEq κ']

theorem addTo_mapKeys {φ : κ → κ'} (hφ : Function.Injective φ) (d : Dict κ) (k : κ) (v : Rat) :
    addTo (mapKeys φ d) (φ k) v = mapKeys φ (addTo d k v) := by
  induction d with
  | nil => rfl
  | cons e es ih =>
    obtain ⟨k', v'⟩ := e
    have hc : mapKeys φ ((k', v') :: es) = (φ k', v') :: mapKeys φ es := rfl
    rw [hc]
    simp only [addTo]
    by_cases h : k' = k
    · rw [if_pos h, if_pos (by rw [h])]; rfl
    · rw [if_neg h, if_neg (fun e => h (hφ e)), ih]; rfl

theorem addAllTo_mapKeys {φ : κ → κ'} (hφ : Function.Injective φ) (d : Dict κ) (reqs : List (κ × Rat)) :
    addAllTo (mapKeys φ d) (reqs.map (fun r => (φ r.1, r.2))) = mapKeys φ (addAllTo d reqs) := by
  unfold addAllTo
  induction reqs generalizing d with
  | nil => rfl
  | cons r rs ih =>
    simp only [List.map_cons, List.foldl_cons]
    have : addReq (mapKeys φ d) (φ r.1, r.2) = mapKeys φ (addReq d r) := addTo_mapKeys hφ d r.1 r.2
    rw [this, ih]

end MapKeys

/-! ### `itertools.permutations` -/

theorem picks_fst {α : Type} (l : List α) : (picks l).map (·.1) = l := by
  induction l with
  | nil => rfl
  | cons x xs ih =>
    simp only [picks, List.map_cons, List.map_map]
    congr 1

theorem picks_perm {α : Type} {l : List α} {x : α} {r : List α} (h : (x, r) ∈ picks l) : (x :: r).Perm l := by
  induction l generalizing x r with
  | nil => simp [picks] at h
  | cons y ys ih =>
    simp only [picks, List.mem_cons, List.mem_map] at h
    rcases h with h | ⟨yr, hyr, he⟩
    · injection h with h1 h2; subst h1; subst h2; exact List.Perm.refl _
    · injection he with h1 h2
      subst h1; subst h2
      exact (List.Perm.swap _ _ _).trans ((ih hyr).cons y)

theorem picks_exists {α : Type} {l : List α} {x : α} (h : x ∈ l) : ∃ r, (x, r) ∈ picks l := by
  have : x ∈ (picks l).map (·.1) := by rw [picks_fst]; exact h
  obtain ⟨xr, hxr, rfl⟩ := List.mem_map.mp this
  exact ⟨xr.2, hxr⟩

theorem mem_permsLexAux_iff (f : Nat) : ∀ (l q : List Cand), l.length = f → (q ∈ permsLexAux f l ↔ q.Perm l) := by
  induction f with
  | zero =>
    intro l q hl
    have : l = [] := List.length_eq_zero_iff.mp hl
    subst this
    simp [permsLexAux]
  | succ f ih =>
    intro l q hl
    cases l with
    | nil => simp at hl
    | cons a l' =>
      simp only [permsLexAux, List.mem_flatMap, List.mem_map]
      constructor
      · rintro ⟨xr, hxr, q', hq', rfl⟩
        have hp := picks_perm hxr
        have hlen : xr.2.length = f := by
          have := hp.length_eq
          simp only [List.length_cons] at this hl
          omega
        exact ((ih xr.2 q' hlen).mp hq').cons xr.1 |>.trans hp
      · intro hq
        cases q with
        | nil => exact absurd hq.length_eq (by simp)
        | cons x q' =>
          have hx : x ∈ a :: l' := hq.mem_iff.mp List.mem_cons_self
          obtain ⟨r, hr⟩ := picks_exists hx
          have hp := picks_perm hr
          have hlen : r.length = f := by
            have := hp.length_eq
            simp only [List.length_cons] at this hl
            omega
          have hq' : q'.Perm r := (List.perm_cons x).mp (hq.trans hp.symm)
          exact ⟨(x, r), hr, q', (ih r q' hlen).mpr hq', rfl⟩

theorem nodup_permsLexAux (f : Nat) : ∀ l : List Cand, l.length = f → l.Nodup → (permsLexAux f l).Nodup := by
  induction f with
  | zero => intro l _ _; simp [permsLexAux]
  | succ f ih =>
    intro l hl hnd
    cases l with
    | nil => simp at hl
    | cons a l' =>
      simp only [permsLexAux]
      rw [List.nodup_flatMap]
      constructor
      · intro xr hxr
        have hp := picks_perm hxr
        have hlen : xr.2.length = f := by
          have := hp.length_eq
          simp only [List.length_cons] at this hl
          omega
        have hr : xr.2.Nodup := (List.nodup_cons.mp (hp.nodup_iff.mpr hnd)).2
        exact (ih xr.2 hlen hr).map (fun _ _ e => by injection e)
      · have hfst : ((picks (a :: l')).map (·.1)).Nodup := by rw [picks_fst]; exact hnd
        have hpw : (picks (a :: l')).Pairwise (fun x y => x.1 ≠ y.1) := List.pairwise_map.mp hfst
        refine hpw.imp ?_
        intro x y hxy
        simp only [Function.onFun]
        rw [List.disjoint_left]
        intro q hq1 hq2
        obtain ⟨q1, _, rfl⟩ := List.mem_map.mp hq1
        obtain ⟨q2, _, e⟩ := List.mem_map.mp hq2
        injection e with e1 _
        exact hxy e1.symm

theorem permsLex_perm {l₁ l₂ : List Cand} (h : l₁.Perm l₂) (hn : l₁.Nodup) : (permsLex l₁).Perm (permsLex l₂) := by
  unfold permsLex
  refine (List.perm_ext_iff_of_nodup (nodup_permsLexAux _ l₁ rfl hn)
    (nodup_permsLexAux _ l₂ rfl (h.nodup_iff.mp hn))).mpr (fun q => ?_)
  rw [mem_permsLexAux_iff _ l₁ q rfl, mem_permsLexAux_iff _ l₂ q rfl]
  exact ⟨fun hq => hq.trans h, fun hq => hq.trans h.symm⟩

theorem picks_map {α β : Type} (g : α → β) (l : List α) :
    picks (l.map g) = (picks l).map (fun xr => (g xr.1, xr.2.map g)) := by
  induction l with
  | nil => rfl
  | cons x xs ih =>
    simp only [List.map_cons, picks, ih, List.map_map]
    congr 1

theorem permsLexAux_map (σ : Cand → Cand) (f : Nat) : ∀ l : List Cand,
    permsLexAux f (l.map σ) = (permsLexAux f l).map (List.map σ) := by
  induction f with
  | zero => intro l; rfl
  | succ f ih =>
    intro l
    cases l with
    | nil => rfl
    | cons a l' =>
      simp only [List.map_cons, permsLexAux]
      rw [← List.map_cons, picks_map, List.flatMap_map, List.map_flatMap]
      congr 1
      funext xr
      simp only [ih, List.map_map]
      rfl

theorem permsLex_map (σ : Cand → Cand) (l : List Cand) : permsLex (l.map σ) = (permsLex l).map (List.map σ) := by
  unfold permsLex
  rw [List.length_map, permsLexAux_map]

/-! ### `itertools.product` -/

theorem product_perm {α : Type} : ∀ {fs fs' : List (List α)}, List.Forall₂ List.Perm fs fs' →
    (product fs).Perm (product fs') := by
  intro fs fs' h
  induction h with
  | nil => exact List.Perm.refl _
  | cons hf _ ih =>
    simp only [product]
    refine (hf.flatMap_right _).trans ?_
    apply List.Perm.flatMap_left
    intro x _
    exact ih.map _

theorem product_map {α β : Type} (g : α → β) (fs : List (List α)) :
    product (fs.map (List.map g)) = (product fs).map (List.map g) := by
  induction fs with
  | nil => rfl
  | cons f rest ih =>
    simp only [List.map_cons, product, ih, List.flatMap_map, List.map_flatMap, List.map_map]
    rfl

/-! ### a renamed ballot whose shared ranks list their members in another order -/

inductive REq (σ : Cand → Cand) : Ballot → Ballot → Prop
  | nil : REq σ [] []
  | one (c : Cand) {r' r : Ballot} : REq σ r' r → REq σ (.one (σ c) :: r') (.one c :: r)
  | shared {cs' cs : List Cand} {r' r : Ballot} : cs'.Perm (cs.map σ) → cs.Nodup → REq σ r' r →
      REq σ (.shared cs' :: r') (.shared cs :: r)

theorem rEq_renBallot (hσ : Function.Injective σ) {b : Ballot} (hb : ∀ it ∈ b, it.cands.Nodup) :
    REq σ (renBallot σ b) b := by
  induction b with
  | nil => exact .nil
  | cons it rest ih =>
    have hrest := ih (fun it' h => hb it' (List.mem_cons_of_mem _ h))
    cases it with
    | one c => exact .one c hrest
    | shared cs =>
      have hcs : cs.Nodup := hb (.shared cs) List.mem_cons_self
      exact .shared (renSet_perm σ hσ hcs) hcs hrest

/-- the factors of the product, and the indices of the shared ranks -/
theorem sharedRanks_rEq (hσ : Function.Injective σ) {b' b : Ballot} (h : REq σ b' b) : ∀ i : Nat,
    (sharedRanks i b').map (·.1) = (sharedRanks i b).map (·.1) ∧
    List.Forall₂ List.Perm ((sharedRanks i b').map (fun ir => permsLex ir.2))
      (((sharedRanks i b).map (fun ir => permsLex ir.2)).map (List.map (List.map σ))) := by
  induction h with
  | nil => intro i; exact ⟨rfl, .nil⟩
  | one c _ ih => intro i; simp only [sharedRanks]; exact ih (i + 1)
  | shared hcs hnd _ ih =>
    intro i
    simp only [sharedRanks, List.map_cons]
    obtain ⟨h1, h2⟩ := ih (i + 1)
    refine ⟨by rw [h1], .cons ?_ h2⟩
    rw [← permsLex_map]
    exact permsLex_perm hcs (hcs.nodup_iff.mpr (hnd.map hσ))

theorem exactB_append (σ : Cand → Cand) (a b : Ballot) : exactB σ (a ++ b) = exactB σ a ++ exactB σ b := by
  unfold exactB; rw [List.map_append]

theorem exactB_ones (σ : Cand → Cand) (v : List Cand) : exactB σ (v.map RankItem.one) = (v.map σ).map RankItem.one := by
  unfold exactB; rw [List.map_map, List.map_map]; rfl

theorem substitute_rEq {suffix' suffix : Ballot} (h : REq σ suffix' suffix) :
    ∀ (pre : Ballot) (i₀ : Nat) (off : Int) (vs : List (List Cand)),
      (pre.length : Int) = (i₀ : Int) + off → vs.length = (sharedRanks i₀ suffix).length →
      substitute (exactB σ pre ++ suffix') off (((sharedRanks i₀ suffix').map (·.1)).zip (vs.map (List.map σ))) =
        exactB σ (substitute (pre ++ suffix) off (((sharedRanks i₀ suffix).map (·.1)).zip vs)) := by
  induction h with
  | nil =>
    intro pre i₀ off vs _ _
    simp [sharedRanks, substitute]
  | @one c r' r _ ih =>
    intro pre i₀ off vs hlen hvs
    have e' : exactB σ pre ++ RankItem.one (σ c) :: r' = exactB σ (pre ++ [RankItem.one c]) ++ r' := by
      rw [exactB_append]; simp [exactB, exactItem]
    have e : pre ++ RankItem.one c :: r = (pre ++ [RankItem.one c]) ++ r := by simp
    simp only [sharedRanks] at hvs ⊢
    rw [e', e]
    apply ih (pre ++ [RankItem.one c]) (i₀ + 1) off vs
    · rw [List.length_append, List.length_singleton, Nat.cast_add, Nat.cast_add, Nat.cast_one, hlen]; ring
    · exact hvs
  | @shared cs' cs r' r hcs hnd _ ih =>
    intro pre i₀ off vs hlen hvs
    simp only [sharedRanks, List.length_cons] at hvs
    cases vs with
    | nil => simp at hvs
    | cons v vs' =>
      simp only [sharedRanks, List.map_cons, List.zip_cons_cons, substitute]
      have hk : ((i₀ : Int) + off).toNat = pre.length := by omega
      have hk' : ((i₀ : Int) + off).toNat = (exactB σ pre).length := by rw [hk]; simp [exactB]
      have htake' : List.take (exactB σ pre).length (exactB σ pre ++ RankItem.shared cs' :: r') = exactB σ pre := by simp
      have hdrop' : List.drop ((exactB σ pre).length + 1) (exactB σ pre ++ RankItem.shared cs' :: r') = r' := by simp
      have htake : List.take pre.length (pre ++ RankItem.shared cs :: r) = pre := by simp
      have hdrop : List.drop (pre.length + 1) (pre ++ RankItem.shared cs :: r) = r := by simp
      rw [hk', htake', hdrop', ← hk', hk, htake, hdrop, ← exactB_ones, ← exactB_append, List.length_map]
      apply ih (pre ++ v.map RankItem.one) (i₀ + 1) (off + (v.length : Int) - 1) vs'
      · rw [List.length_append, List.length_map, Nat.cast_add, Nat.cast_add, Nat.cast_one, hlen]; ring
      · simp only [List.length_cons] at hvs; omega

/-- the variants of the renamed ballot are the renamed variants, enumerated in another order -/
theorem variants_rEq (hσ : Function.Injective σ) {b' b : Ballot} (h : REq σ b' b) :
    (variants b').Perm ((variants b).map (exactB σ)) := by
  obtain ⟨h1, h2⟩ := sharedRanks_rEq hσ h 0
  unfold variants
  simp only
  rw [List.map_map]
  have hcongr : ∀ t ∈ product ((sharedRanks 0 b).map (fun ir => permsLex ir.2)),
      (exactB σ ∘ fun variant => substitute b 0 (((sharedRanks 0 b).map (·.1)).zip variant)) t =
        ((fun variant => substitute b' 0 (((sharedRanks 0 b').map (·.1)).zip variant)) ∘ List.map (List.map σ)) t := by
    intro t ht
    have hl := product_length _ t ht
    rw [List.length_map] at hl
    have := substitute_rEq h [] 0 0 t (by simp) hl
    simp only [exactB, List.map_nil, List.nil_append] at this
    simp only [Function.comp, exactB]
    exact this.symm
  rw [List.map_congr_left hcongr, ← List.map_map, ← product_map]
  exact (product_perm h2).map _

theorem dReqs_rEq (hσ : Function.Injective σ) {b' b : Ballot} (h : REq σ b' b) (w : Rat) :
    (dReqs (b', w)).Perm ((dReqs (b, w)).map (fun r => (exactB σ r.1, r.2))) := by
  have hv := variants_rEq hσ h
  unfold dReqs
  simp only
  have hl : (variants b').length = (variants b).length := by rw [hv.length_eq, List.length_map]
  rw [hl, List.map_map]
  have := hv.map (fun v => (v, w / ((variants b).length : Rat)))
  rw [List.map_map] at this
  exact this

/-! ### the decoupled renamed profile -/

theorem decouple_ren (hσ : Function.Injective σ) {p : RProfile} (hwf : RankedWF p)
    (hn : ((renRProfile σ p).map (·.1)).Nodup) :
    VRel (decouple (renRProfile σ p)) (mapKeys (exactB σ) (decouple p)) := by
  rw [decouple_closed, decouple_closed, ← addAllTo_mapKeys (exactB_injective hσ)]
  have hbase : (renRProfile σ p).filter (fun e => !(e.1.any isShared)) =
      mapKeys (exactB σ) (p.filter (fun e => !(e.1.any isShared))) := by
    unfold renRProfile mapKeys
    rw [List.filter_map]
    have hq : ((fun e : Ballot × Rat => !(e.1.any isShared)) ∘ fun bw : Ballot × Rat => (renBallot σ bw.1, bw.2)) =
        (fun e => !(e.1.any isShared)) := by
      funext e; simp only [Function.comp, anyShared_renBallot]
    rw [hq]
    apply List.map_congr_left
    intro e he
    have := (List.mem_filter.mp he).2
    simp only [Bool.not_eq_true'] at this
    rw [renBallot_noShared this]
  have hreqs : (reqsOf (renRProfile σ p)).Perm ((reqsOf p).map (fun r => (exactB σ r.1, r.2))) := by
    unfold reqsOf sharedPart renRProfile
    rw [List.filter_map, List.flatMap_map, List.map_flatMap]
    have hq : ((fun e : Ballot × Rat => e.1.any isShared) ∘ fun bw : Ballot × Rat => (renBallot σ bw.1, bw.2)) =
        (fun e => e.1.any isShared) := by
      funext e; simp only [Function.comp, anyShared_renBallot]
    rw [hq]
    apply List.Perm.flatMap_left
    intro bw hbw
    exact dReqs_rEq hσ (rEq_renBallot hσ (hwf bw (List.mem_filter.mp hbw).1)) bw.2
  refine addAllTo_perm hreqs ?_
  rw [← hbase]
  exact DRel.refl_of_nodup (List.Nodup.sublist (List.Sublist.map _ List.filter_sublist) hn)

theorem exactItem_cands (σ : Cand → Cand) (it : RankItem) : (exactItem σ it).cands = it.cands.map σ := by
  cases it <;> rfl

theorem reqAgree_exact (v : RProfile) : ReqAgree σ (mapKeys (exactB σ) v) v := by
  intro w i e' e he
  unfold roundReqs mapKeys
  rw [List.flatMap_map, List.map_flatMap]
  apply List.Perm.flatMap_left
  intro bw _
  simp only [exactB, List.getElem?_map]
  cases bw.1[i]? with
  | none => exact List.Perm.refl _
  | some it =>
    simp only [Option.map_some, List.map_map, exactItem_cands, List.filter_map]
    have hq : ((fun c => decide (Slot.cand c ∉ e')) ∘ σ) = (fun c => decide (Slot.cand c ∉ e)) := by
      funext x
      exact decide_eq_decide.mpr (not_congr (he x))
    rw [hq]
    exact List.Perm.of_eq (List.map_congr_left (fun _ _ => rfl))

theorem sumValues_mapKeys {κ κ' : Type} (φ : κ → κ') (d : Dict κ) : sumValues (mapKeys φ d) = sumValues d := by
  unfold sumValues mapKeys
  rw [List.foldl_map]

theorem maxLen_exact (σ : Cand → Cand) (p : RProfile) : maxLen (mapKeys (exactB σ) p) = maxLen p := by
  unfold maxLen mapKeys
  rw [List.foldl_map]
  congr 1
  funext m bw
  simp [exactB]

theorem isEmpty_mapKeys {κ κ' : Type} (φ : κ → κ') (d : Dict κ) : (mapKeys φ d).isEmpty = d.isEmpty := by
  cases d <;> rfl

end VL.Perm.Buck

namespace VL.Perm
open VL VL.Convert VL.ShapeSeq VL.C10 VL.Perm.Buck VL.Perm.Stv

/-- `_decouple_equal_rankings` commutes with the renaming up to insertion order: the decoupled renamed profile holds
    exactly the renamed ballots of the decoupled profile (which contain no shared rank) with the same weights -/
theorem decouple_rename {σ : Cand → Cand} (hσ : Function.Injective σ) {p : RProfile} (hwf : RankedWF p)
    (hn : ((renRProfile σ p).map (·.1)).Nodup) :
    (decouple (renRProfile σ p)).Perm (renRProfile σ (decouple p)) := by
  have h := DRel.perm (decouple_ren hσ hwf hn)
  refine h.trans ?_
  -- on ballots without a shared rank the two renamings agree
  have hno : ∀ e ∈ decouple p, e.1.any isShared = false := by
    intro e he
    rw [decouple_closed] at he
    have key : ∀ (reqs : List (Ballot × Rat)) (d : RProfile), (∀ r ∈ reqs, r.1.any isShared = false) →
        (∀ x ∈ d, x.1.any isShared = false) → ∀ x ∈ addAllTo d reqs, x.1.any isShared = false := by
      intro reqs
      induction reqs with
      | nil => intro d _ hd; exact hd
      | cons r rs ih =>
        intro d hr hd
        have e1 : addAllTo d (r :: rs) = addAllTo (addReq d r) rs := rfl
        rw [e1]
        apply ih _ (fun r' h' => hr r' (List.mem_cons_of_mem _ h'))
        intro x hx
        have hk : x.1 ∈ dkeys (addTo d r.1 r.2) := List.mem_map.mpr ⟨x, hx, rfl⟩
        rcases (mem_dkeys_addTo d r.1 r.2 x.1).mp hk with h1 | h1
        · obtain ⟨y, hy, hyx⟩ := List.mem_map.mp h1
          rw [← hyx]; exact hd y hy
        · rw [h1]; exact hr r List.mem_cons_self
    refine key _ _ ?_ ?_ e he
    · intro r hr
      unfold reqsOf at hr
      obtain ⟨bw, _, hr'⟩ := List.mem_flatMap.mp hr
      unfold dReqs at hr'
      obtain ⟨v, hv, rfl⟩ := List.mem_map.mp hr'
      exact variants_noShared hv
    · intro x hx
      have := (List.mem_filter.mp hx).2
      simpa using this
  have : mapKeys (exactB σ) (decouple p) = renRProfile σ (decouple p) := by
    unfold mapKeys renRProfile
    apply List.map_congr_left
    intro e he
    rw [renBallot_noShared (hno e he)]
  rw [this]

/-- **Candidate-name independence of `PreferenceAddition` with decoupling** (`split_equal_rankings=True`): for every
    injective renaming whose renamed ballots are still distinct, shared ranks listing each member once. -/
theorem preferenceAddition_split_rename {σ : Cand → Cand} (hσ : Function.Injective σ) (coef : Nat → Rat)
    {p : RProfile} (hwf : RankedWF p) (hn : ((renRProfile σ p).map (·.1)).Nodup) (n : Nat) :
    ExceptEquiv (fun r' r => SlotsEquiv r' (r.map (renSlot σ)))
      (preferenceAddition coef true (renRProfile σ p) n) (preferenceAddition coef true p n) := by
  unfold preferenceAddition
  have hv := DRel.perm (decouple_ren hσ hwf hn)
  refine paCore_ren hσ coef (reqAgree_of_perm hv (reqAgree_exact _)) ?_ ?_ ?_ n
  · rw [isEmpty_perm hv, isEmpty_mapKeys]
  · rw [sumValues_perm hv, sumValues_mapKeys]
  · rw [maxLen_perm hv, maxLen_exact]

/-- **Candidate-name independence of `PreferenceAddition`** (Bucklin / Oklahoma / any coefficients, with or without
    `split_equal_rankings`, any number of seats): the run on the renamed profile gives the same exception or the renamed
    result up to `SlotsEquiv`. -/
theorem preferenceAddition_rename {σ : Cand → Cand} (hσ : Function.Injective σ) (coef : Nat → Rat) (split : Bool)
    {p : RProfile} (hwf : RankedWF p) (hn : ((renRProfile σ p).map (·.1)).Nodup) (n : Nat) :
    ExceptEquiv (fun r' r => SlotsEquiv r' (r.map (renSlot σ)))
      (preferenceAddition coef split (renRProfile σ p) n) (preferenceAddition coef split p n) := by
  cases split with
  | false => exact preferenceAddition_nosplit_rename hσ coef hwf n
  | true => exact preferenceAddition_split_rename hσ coef hwf hn n

/-- the decidable hypotheses of `preferenceAddition_rename` on a concrete profile with a shared rank (`σ = Nat.succ` is
    injective: `Nat.succ_injective`), and the two runs: the renamed result -/
example :
    RankedWF [([.shared [0, 1], .one 2], 2), ([.one 2, .one 0], 1), ([.one 1], 1)] ∧
    ((renRProfile Nat.succ [([.shared [0, 1], .one 2], 2), ([.one 2, .one 0], 1), ([.one 1], 1)]).map (·.1)).Nodup ∧
    preferenceAddition coefBucklin true
      (renRProfile Nat.succ [([.shared [0, 1], .one 2], 2), ([.one 2, .one 0], 1), ([.one 1], 1)]) 1
      = .ok [Slot.tie [2, 1]] ∧
    preferenceAddition coefBucklin true [([.shared [0, 1], .one 2], 2), ([.one 2, .one 0], 1), ([.one 1], 1)] 1
      = .ok [Slot.tie [1, 0]] := by
  refine ⟨by decide, by decide +kernel, by decide +kernel, by decide +kernel⟩

end VL.Perm
