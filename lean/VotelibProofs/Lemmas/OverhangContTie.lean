/-
  Continuation of a highest-averages run from a sub-allocation when the from-scratch distribution reports a tie.
-/
import VotelibProofs.Lemmas.OverhangCont
namespace VL.OH
open VL HACfg

/-- what a reported tie of a highest-averages run looks like -/
theorem tie_facts (cfg : HACfg) (h : CfgOK cfg) (hpos : 0 < tieSeats (haRun cfg)) :
    ∃ T q, (haRun cfg).tie = some (T, tieSeats (haRun cfg)) ∧ T.Nodup ∧ tieSeats (haRun cfg) < T.length ∧
      (∀ c, c ∈ T ↔ Elig0 cfg c ∧ C01.finalTot cfg c < cfg.capOf c ∧ cfg.quot c (C01.finalTot cfg c) = q) ∧
      (∀ c, Elig0 cfg c → C01.finalTot cfg c < cfg.capOf c → cfg.quot c (C01.finalTot cfg c) ≤ q) := by
  unfold tieSeats at hpos ⊢
  cases ht : (haRun cfg).tie with
  | none => rw [ht] at hpos; simp at hpos
  | some Tm =>
    obtain ⟨T, m⟩ := Tm
    simp only
    obtain ⟨_, hlt, _, q, h1, h2⟩ := C01.ha_tie cfg h T m ht
    have hi := haRun_inv cfg h
    obtain ⟨_, _, _, q', _, hTeq⟩ := hi.tie_ok T m ht
    have hTnd : T.Nodup := by rw [hTeq]; exact batch_nodup hi.pool_nd q'
    exact ⟨T, q, rfl, hTnd, hlt, h1, h2⟩

theorem length_le_sum_of_pos (L T : List Cand) (hL : L.Nodup) (hT : T.Nodup) (hsub : ∀ t ∈ T, t ∈ L) (g : Cand → Nat)
    (hg : ∀ t ∈ T, 1 ≤ g t) : T.length ≤ (L.map g).sum := by
  have h1 : ((L.filter (fun c => decide (c ∈ T))).map g).sum ≤ (L.map g).sum := by
    clear hsub hL
    induction L with
    | nil => simp
    | cons x xs ih =>
      by_cases hx : x ∈ T <;> simp [List.filter_cons, hx] <;> omega
  have hperm : (L.filter (fun c => decide (c ∈ T))).Perm T := by
    rw [List.perm_ext_iff_of_nodup (hL.filter _) hT]
    intro c
    simp only [List.mem_filter, decide_eq_true_eq]
    exact ⟨fun h => h.2, fun h => ⟨hsub c h, h⟩⟩
  rw [(hperm.map _).sum_eq] at h1
  have : (T.map (fun _ => 1)).sum ≤ (T.map g).sum := List.sum_le_sum (fun t ht => hg t ht)
  have h2 : (T.map (fun _ => 1)).sum = T.length := by simp
  omega

/-- **Continuation from a sub-allocation, ties allowed.**  As `ha_continue`, but the from-scratch distribution may
    report a tie: the continued run then reports a tie with the same number of seats and the same members. -/
theorem ha_continue_tie (div : Nat → Rat) (hd : (∀ k, 0 < div k) ∧ StrictMono div) (votes : Votes)
    (hv : ∀ p ∈ votes, 0 < p.2) (hn : (keys votes).Nodup) (N : Nat) (hN : 0 < N) (prev : Seats)
    (hpn : (prev.map (·.1)).Nodup) (hpool : (haInit (cfgP div votes N prev)).pool ≠ [])
    (hle : ∀ c, natLookup prev c 0 ≤ haSeats (cfgH div votes N) c) :
    (∀ c, natLookup prev c 0 + haSeats (cfgP div votes N prev) c = haSeats (cfgH div votes N) c) ∧
    tieSeats (haRun (cfgP div votes N prev)) = tieSeats (haRun (cfgH div votes N)) ∧
    (∀ T0 m0 TP mP, (haRun (cfgH div votes N)).tie = some (T0, m0) → (haRun (cfgP div votes N prev)).tie = some (TP, mP) →
      ∀ c, c ∈ TP ↔ c ∈ T0) := by
  set c0 := cfgH div votes N with hc0
  set cp := cfgP div votes N prev with hcp
  have hv0 : ∀ p ∈ votes, 0 ≤ p.2 := fun p hp => le_of_lt (hv p hp)
  have hok0 : CfgOK c0 := C01.cfgOK_of_divisor c0 hd hv0 hn
  have hokp : CfgOK cp := C01.cfgOK_of_divisor cp hd hv0 hn
  have hne : votes ≠ [] := by
    intro h0
    apply hpool
    simp [hcp, cfgP, haInit, h0]
  let f : Cand → Nat := haSeats c0
  let a : Cand → Nat := fun c => natLookup prev c 0 + haSeats cp c
  let L := haCands cp
  have hLnd : L.Nodup := haCands_nodup cp
  have hLmem : ∀ c, c ∈ L ↔ c ∈ prev.map (·.1) ∨ c ∈ keys votes := by
    intro c
    show c ∈ dedupC (prev.map (·.1) ++ votes.map (·.1)) ↔ _
    rw [mem_dedupC, List.mem_append]; rfl
  -- Σ_L f = N
  have hf0 : ∀ c, c ∉ keys votes → f c = 0 := by
    intro c hc
    by_contra hne0
    exact hc (C01.ha_only_voted c0 hok0 c (Nat.pos_of_ne_zero hne0))
  have hsumf : (L.map f).sum + tieSeats (haRun c0) = N := by
    have h1 := ha_fills c0 hok0 rfl (by simp [sumSeats, hc0, cfgH]) (cfgH_pool_ne div hd.1 votes hne N hN)
    rw [sumDist_haResult] at h1
    have h2 : (L.map f).sum = ((haCands c0).map f).sum := by
      apply sum_eq_of_support L (haCands c0) hLnd (haCands_nodup c0)
      · intro c hc
        have : c ∈ keys votes := by
          have : c ∈ dedupC (keys votes) := hc
          exact mem_dedupC.mp this
        exact (hLmem c).mpr (Or.inr this)
      · intro c _ hc
        apply hf0
        intro hk
        exact hc (mem_haCands_of_key hk)
    have h1' : 0 + (((haCands c0).map f).sum + tieSeats (haRun c0)) = N := h1
    rw [h2]; omega
  -- Σ prev = Σ_L prevOf ≤ N
  have hsumprev : sumSeats prev = (L.map (fun c => natLookup prev c 0)).sum := by
    rw [sumSeats_eq_lookup prev hpn]
    symm
    apply sum_eq_of_support L (prev.map (·.1)) hLnd hpn
    · intro c hc; exact (hLmem c).mpr (Or.inl hc)
    · intro c _ hc; exact natLookup_zero_of_not_mem prev c hc
  have hprevle : sumSeats prev ≤ N := by
    have : (L.map (fun c => natLookup prev c 0)).sum ≤ (L.map f).sum := List.sum_le_sum (fun c _ => hle c)
    rw [hsumprev]; omega
  -- Σ_L a + tieSeats = N
  have hsuma : (L.map a).sum + tieSeats (haRun cp) = N := by
    have h1 := ha_fills cp hokp rfl hprevle hpool
    rw [sumDist_haResult] at h1
    have hsplit : (L.map a).sum = (L.map (fun c => natLookup prev c 0)).sum + (L.map (haSeats cp)).sum := by
      show (L.map (fun c => natLookup prev c 0 + haSeats cp c)).sum = _
      exact List.sum_map_add
    have hpp : sumSeats cp.prev = sumSeats prev := rfl
    have hnp : cp.n = N := rfl
    rw [hsplit, ← hsumprev]
    show sumSeats prev + ((haCands cp).map (haSeats cp)).sum + tieSeats (haRun cp) = N
    omega
  have hprevOf : ∀ c, cp.prevOf c = natLookup prev c 0 := fun c => rfl
  have hcapp : ∀ c, cp.capOf c = N := fun c => rfl
  have hcap0 : ∀ c, c0.capOf c = N := fun c => rfl
  have hprev0 : ∀ c, c0.prevOf c = 0 := fun c => rfl
  have hquot : ∀ c k, cp.quot c k = c0.quot c k := fun c k => rfl
  have hfN : ∀ c, f c ≤ N := by
    intro c
    by_cases hc : c ∈ L
    · have : f c ≤ (L.map f).sum := List.single_le_sum (by simp) _ (List.mem_map.mpr ⟨c, hc, rfl⟩)
      omega
    · have : f c = 0 := hf0 c (fun hk => hc ((hLmem c).mpr (Or.inr hk)))
      omega
  have hinL : ∀ c, 0 < a c → c ∈ L := by
    intro c hpos
    rw [hLmem]
    by_cases hp : 0 < natLookup prev c 0
    · left
      by_contra hnot
      rw [natLookup_zero_of_not_mem prev c hnot] at hp
      exact Nat.lt_irrefl 0 hp
    · right
      have : 0 < haSeats cp c := by
        change 0 < natLookup prev c 0 + haSeats cp c at hpos
        omega
      exact C01.ha_only_voted cp hokp c this
  have haN : ∀ c, c ∈ L → a c ≤ N := by
    intro c hc
    have : a c ≤ (L.map a).sum := List.single_le_sum (by simp) _ (List.mem_map.mpr ⟨c, hc, rfl⟩)
    omega
  have hfL : ∀ c, 0 < f c → c ∈ L := by
    intro c hpos
    rw [hLmem]; right
    by_contra hnk
    have := hf0 c hnk
    omega
  have hft0 : ∀ c, C01.finalTot c0 c = f c := by
    intro c; rw [C01.finalTot_eq c0 hok0, hprev0, Nat.zero_add]
  have hftp : ∀ c, C01.finalTot cp c = a c := by
    intro c; rw [C01.finalTot_eq cp hokp, hprevOf]
  -- a seat held in the continued run beyond the from-scratch total, against a party short of its total
  have hcross : ∀ c c', f c < a c → a c' < f c' → False := by
    intro c c' hgt' hc'lt
    have hcL : c ∈ L := hinL c (by omega)
    have hgain : 0 < haSeats cp c := by
      have := hle c
      change f c < natLookup prev c 0 + haSeats cp c at hgt'
      change natLookup prev c 0 ≤ f c at this
      omega
    have hck : c ∈ keys votes := C01.ha_only_voted cp hokp c hgain
    have hc'k : c' ∈ keys votes := by
      by_contra hnk
      have := hf0 c' hnk
      omega
    have h1 : cp.quot c' (a c') ≤ cp.quot c (a c - 1) := by
      have hel : Elig0 cp c' := ⟨hc'k, by
        rw [hprevOf, hcapp]
        have := hfN c'
        change natLookup prev c' 0 + haSeats cp c' < f c' at hc'lt
        omega⟩
      have hroom : cp.prevOf c' + haSeats cp c' < cp.capOf c' := by
        rw [hprevOf, hcapp]
        have := hfN c'
        change natLookup prev c' 0 + haSeats cp c' < f c' at hc'lt
        omega
      have := C01.ha_optimal cp hokp c' hel hroom c (a c - 1)
        (by rw [hprevOf]; have := hle c; show natLookup prev c 0 ≤ natLookup prev c 0 + haSeats cp c - 1; omega)
        (by rw [hprevOf]; show natLookup prev c 0 + haSeats cp c - 1 < natLookup prev c 0 + haSeats cp c; omega)
      rw [hprevOf] at this
      exact this
    have h2 : c0.quot c (f c) < c0.quot c' (f c' - 1) := by
      have hel : Elig0 c0 c := ⟨hck, by rw [hprev0, hcap0]; exact hN⟩
      have hroom : c0.prevOf c + haSeats c0 c < c0.capOf c := by
        rw [hprev0, hcap0, Nat.zero_add]
        have h3 := haN c hcL
        show f c < N
        omega
      have := C01.ha_strict_separation c0 hd hv hn c hel hroom c' (f c' - 1)
        (by rw [hprev0]; omega) (by rw [hprev0, Nat.zero_add]; show f c' - 1 < f c'; omega)
      rw [hprev0, Nat.zero_add] at this
      exact this
    have h3 : cp.quot c (a c - 1) ≤ cp.quot c (f c) := quot_anti_le hokp c (by omega)
    have h4 : c0.quot c' (f c' - 1) ≤ c0.quot c' (a c') := quot_anti_le hok0 c' (by omega)
    simp only [hquot] at h1 h3
    linarith
  -- Claim A: a ≤ f pointwise
  have hA : ∀ c, a c ≤ f c := by
    intro c
    by_contra hgt
    have hgt' : f c < a c := Nat.lt_of_not_ge hgt
    have hcL : c ∈ L := hinL c (by omega)
    have hall : ∀ c' ∈ L, f c' ≤ a c' := fun c' _ => Nat.le_of_not_gt (fun h => hcross c c' hgt' h)
    have hsumlt := sum_lt_of_le_of_lt L f a hall c hcL hgt'
    have hm0pos : 0 < tieSeats (haRun c0) := by omega
    obtain ⟨T, q, _, hTnd, hTlen, hTmem, hTmax⟩ := tie_facts c0 hok0 hm0pos
    have hgain : 0 < haSeats cp c := by
      have := hle c
      change f c < natLookup prev c 0 + haSeats cp c at hgt'
      change natLookup prev c 0 ≤ f c at this
      omega
    have hck : c ∈ keys votes := C01.ha_only_voted cp hokp c hgain
    -- c waits in the from-scratch run
    have hcq : c0.quot c (f c) ≤ q := by
      have hel : Elig0 c0 c := ⟨hck, by rw [hprev0, hcap0]; exact hN⟩
      have := hTmax c hel (by rw [hft0, hcap0]; have := haN c hcL; omega)
      rw [hft0] at this
      exact this
    -- every member of the tie holds more in the continued run
    have hTL : ∀ t ∈ T, t ∈ L := fun t ht => (hLmem t).mpr (Or.inr ((hTmem t).mp ht).1.1)
    have hmore : ∀ t ∈ T, 1 ≤ a t - f t := by
      intro t htT
      by_contra hnot
      have hat : a t = f t := by have := hall t (hTL t htT); omega
      obtain ⟨helt, hroomt, hqt⟩ := (hTmem t).mp htT
      rw [hft0, hcap0] at hroomt
      rw [hft0] at hqt
      have helP : Elig0 cp t := ⟨helt.1, by
        rw [hprevOf, hcapp]
        have := hle t
        change natLookup prev t 0 ≤ f t at this
        omega⟩
      have hroomP : cp.prevOf t + haSeats cp t < cp.capOf t := by
        rw [hprevOf, hcapp]
        change a t < N
        omega
      have hsep := C01.ha_strict_separation cp hd hv hn t helP hroomP c (a c - 1)
        (by rw [hprevOf]; have := hle c; show natLookup prev c 0 ≤ natLookup prev c 0 + haSeats cp c - 1; omega)
        (by rw [hprevOf]; show natLookup prev c 0 + haSeats cp c - 1 < natLookup prev c 0 + haSeats cp c; omega)
      rw [hprevOf] at hsep
      have hsep' : cp.quot t (a t) < cp.quot c (a c - 1) := hsep
      have h3 : cp.quot c (a c - 1) ≤ cp.quot c (f c) := quot_anti_le hokp c (by omega)
      simp only [hquot] at hsep' h3
      rw [hat] at hsep'
      linarith
    have hlen := length_le_sum_of_pos L T hLnd hTnd hTL (fun c => a c - f c) hmore
    have hdiff : (L.map (fun c => a c - f c)).sum + (L.map f).sum = (L.map a).sum := by
      rw [← List.sum_map_add]
      apply congrArg
      apply List.map_congr_left
      intro c' hc'
      have := hall c' hc'
      omega
    omega
  -- Claim B: equality
  have hB : ∀ c, a c = f c := by
    intro c
    by_contra hne'
    have hlt : a c < f c := lt_of_le_of_ne (hA c) hne'
    have hcL : c ∈ L := hfL c (by omega)
    have hsumlt := sum_lt_of_le_of_lt L a f (fun c' _ => hA c') c hcL hlt
    have hmPpos : 0 < tieSeats (haRun cp) := by omega
    obtain ⟨T, q, _, hTnd, hTlen, hTmem, hTmax⟩ := tie_facts cp hokp hmPpos
    have hck : c ∈ keys votes := by
      by_contra hnk
      have := hf0 c hnk
      omega
    have hfc := hfN c
    -- c waits in the continued run
    have hcq : cp.quot c (a c) ≤ q := by
      have hel : Elig0 cp c := ⟨hck, by rw [hprevOf, hcapp]; change natLookup prev c 0 + haSeats cp c < f c at hlt; omega⟩
      have := hTmax c hel (by rw [hftp, hcapp]; omega)
      rw [hftp] at this
      exact this
    have hTL : ∀ t ∈ T, t ∈ L := fun t ht => (hLmem t).mpr (Or.inr ((hTmem t).mp ht).1.1)
    have hshort : ∀ t ∈ T, 1 ≤ f t - a t := by
      intro t htT
      by_contra hnot
      have hat : a t = f t := by have := hA t; omega
      obtain ⟨helt, hroomt, hqt⟩ := (hTmem t).mp htT
      rw [hftp, hcapp] at hroomt
      rw [hftp] at hqt
      have hel0 : Elig0 c0 t := ⟨helt.1, by rw [hprev0, hcap0]; exact hN⟩
      have hroom0 : c0.prevOf t + haSeats c0 t < c0.capOf t := by
        rw [hprev0, hcap0, Nat.zero_add]
        show f t < N
        omega
      have hsep := C01.ha_strict_separation c0 hd hv hn t hel0 hroom0 c (f c - 1)
        (by rw [hprev0]; omega) (by rw [hprev0, Nat.zero_add]; show f c - 1 < f c; omega)
      rw [hprev0, Nat.zero_add] at hsep
      have hsep' : c0.quot t (f t) < c0.quot c (f c - 1) := hsep
      have h4 : c0.quot c (f c - 1) ≤ c0.quot c (a c) := quot_anti_le hok0 c (by omega)
      simp only [hquot] at hcq hqt
      rw [hat] at hqt
      linarith
    have hlen := length_le_sum_of_pos L T hLnd hTnd hTL (fun c => f c - a c) hshort
    have hdiff : (L.map (fun c => f c - a c)).sum + (L.map a).sum = (L.map f).sum := by
      rw [← List.sum_map_add]
      apply congrArg
      apply List.map_congr_left
      intro c' _
      have := hA c'
      omega
    omega
  have hsumeq : (L.map a).sum = (L.map f).sum := by
    apply congrArg
    apply List.map_congr_left
    intro c _; exact hB c
  have hties : tieSeats (haRun cp) = tieSeats (haRun c0) := by omega
  refine ⟨hB, hties, ?_⟩
  intro T0 m0 TP mP ht0 htP c
  have hm0 : tieSeats (haRun c0) = m0 := by unfold tieSeats; rw [ht0]
  have hmP : tieSeats (haRun cp) = mP := by unfold tieSeats; rw [htP]
  obtain ⟨hm0pos, hlt0, _, q0, hmem0, hmax0⟩ := C01.ha_tie c0 hok0 T0 m0 ht0
  obtain ⟨hmPpos, hltP, _, qP, hmemP, hmaxP⟩ := C01.ha_tie cp hokp TP mP htP
  -- the two cut values coincide
  have hwait : ∀ t, (Elig0 c0 t ∧ C01.finalTot c0 t < c0.capOf t) ↔ (Elig0 cp t ∧ C01.finalTot cp t < cp.capOf t) := by
    intro t
    rw [hft0, hftp, hcap0, hcapp, hB t]
    constructor
    · rintro ⟨he, hr⟩
      exact ⟨⟨he.1, by rw [hprevOf, hcapp]; have := hle t; change natLookup prev t 0 ≤ f t at this; omega⟩, hr⟩
    · rintro ⟨he, hr⟩
      exact ⟨⟨he.1, by rw [hprev0, hcap0]; exact hN⟩, hr⟩
  have hqval : ∀ t, cp.quot t (C01.finalTot cp t) = c0.quot t (C01.finalTot c0 t) := by
    intro t; rw [hft0, hftp, hB t]; rfl
  have hq : q0 = qP := by
    have hne0 : T0 ≠ [] := by intro h; rw [h] at hlt0; simp at hlt0
    have hneP : TP ≠ [] := by intro h; rw [h] at hltP; simp at hltP
    obtain ⟨t0, ht0m⟩ := List.exists_mem_of_ne_nil _ hne0
    obtain ⟨tP, htPm⟩ := List.exists_mem_of_ne_nil _ hneP
    obtain ⟨he0, hr0, hq0⟩ := (hmem0 t0).mp ht0m
    obtain ⟨heP, hrP, hqP⟩ := (hmemP tP).mp htPm
    have h1 := hmaxP t0 ((hwait t0).mp ⟨he0, hr0⟩).1 ((hwait t0).mp ⟨he0, hr0⟩).2
    have h2 := hmax0 tP ((hwait tP).mpr ⟨heP, hrP⟩).1 ((hwait tP).mpr ⟨heP, hrP⟩).2
    rw [hqval] at h1
    rw [← hqval] at h2
    rw [hq0] at h1
    rw [hqP] at h2
    exact le_antisymm h1 h2
  rw [hmemP c, hmem0 c, hq]
  constructor
  · rintro ⟨he, hr, hqc⟩
    obtain ⟨he', hr'⟩ := (hwait c).mpr ⟨he, hr⟩
    exact ⟨he', hr', by rw [← hqval]; exact hqc⟩
  · rintro ⟨he, hr, hqc⟩
    obtain ⟨he', hr'⟩ := (hwait c).mp ⟨he, hr⟩
    exact ⟨he', hr', by rw [hqval]; exact hqc⟩

end VL.OH
