/-
  vldriver — line protocol: one JSON request per line on stdin, one JSON answer per line on stdout.
  {"op": "...", ...}  ->  result | {"err": "..."} | {"driver_error": "..."}
-/
import VotelibDriver
open Lean VL.Drv

def handlers : List (String → Json → Option (Except String Json)) :=
  [C09.handle]

def dispatch (j : Json) : Except String Json := do
  let op ← j.getObjValAs? String "op"
  let rec go : List (String → Json → Option (Except String Json)) → Except String Json
    | [] => throw s!"bad-op {op}"
    | h :: hs => match h op j with
      | some r => r
      | none => go hs
  go handlers

partial def loop (h : IO.FS.Stream) (out : IO.FS.Stream) : IO Unit := do
  let line ← h.getLine
  if line.isEmpty then return ()
  let ans := match Json.parse line >>= dispatch with
    | .ok j => j.compress
    | .error e => (Json.mkObj [("driver_error", Json.str e)]).compress
  out.putStrLn ans
  loop h out

def main : IO Unit := do
  let out ← IO.getStdout
  loop (← IO.getStdin) out
  out.flush
