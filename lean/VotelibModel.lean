import VotelibModel.Core
import VotelibModel.Py
import VotelibModel.Gen.Divisor
import VotelibModel.Gen.Quota
import VotelibModel.Gen.RankScore
import VotelibModel.Simple
