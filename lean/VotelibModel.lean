import VotelibModel.Core
import VotelibModel.Gen.Divisor
import VotelibModel.Gen.Quota
import VotelibModel.Gen.RankScore
import VotelibModel.Py
import VotelibModel.Simple
