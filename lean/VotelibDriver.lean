import VotelibDriver.Json
import VotelibDriver.C09
