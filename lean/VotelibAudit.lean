/-
  `#audit_ns NS` prints one JSON line per theorem in namespace NS with the axioms it depends on.
-/
import Lean
open Lean Elab Command

elab "#audit_ns " ns:ident : command => do
  let env ← getEnv
  let pre := ns.getId
  for (n, ci) in env.constants.toList do
    if pre.isPrefixOf n && !n.isInternal then
      match ci with
      | .thmInfo _ =>
        let axs ← liftCoreM (collectAxioms n)
        IO.println (Json.mkObj [("theorem", toJson n.toString),
          ("axioms", toJson (axs.map (·.toString)))]).compress
      | _ => pure ()
