#!/usr/bin/env python3
"""LevelOverhangByConstituency.calculate does not terminate when a constituency result contains a Tie.

Run:  PYTHONPATH=/repo python3 nonterminating_level_overhang.py     (exit 0 = the call returned within 20 s, 1 = it did not)

Mechanism (core.py, LevelOverhangByConstituency.calculate): in BOTH districts A and B are level on the only seat, so the
per-constituency evaluation returns {Tie({A, B}): 1} twice.  The Tie object is treated like a party: VoteTotals sums the two
into `lowest_allowed[Tie({A, B})] = 2`, a floor the overall result must reach.  The overall evaluation of the summed votes
{A: 2, B: 2} can leave at most ONE seat tied between A and B (odd house sizes; none for even ones), so
`prop_result.get(Tie({A, B}), 0) < 2` holds for every house size and the loop
    while any(prop_result.get(party, 0) < minimum ...): adj_count += 1
never ends: the house size `adj_count` grows without bound (each iteration re-runs the overall evaluator).  The same
happens whenever the constituency results contain a tie that the overall result does not reproduce with the same count
(e.g. votes {'d0': {'c0': 6, 'c1': 20}, 'd1': {'c0': 4, 'c1': 4}, 'd2': {'c0': 1, 'c1': 3}}, 3 seats).
"""
import signal
import sys

import votelib.evaluate.core as core
import votelib.evaluate.proportional as prop


class Spy(prop.HighestAverages):
    """the overall evaluator, reporting the house size it is asked for every 1000 calls"""
    calls = 0

    def evaluate(self, votes, n_seats, **kwargs):
        result = super().evaluate(votes, n_seats, **kwargs)
        Spy.calls += 1
        if Spy.calls <= 3 or Spy.calls % 1000 == 0:
            print(f'overall evaluation #{Spy.calls}: house size {n_seats}, votes {votes} -> {result}', flush=True)
        return result


def main():
    calculator = core.LevelOverhangByConstituency(
        constituency_evaluator=core.ByConstituency(prop.HighestAverages('d_hondt')),
        overall_evaluator=Spy('d_hondt'),
    )
    votes = {'d0': {'A': 1, 'B': 1}, 'd1': {'A': 1, 'B': 1}}
    print('per constituency:', core.ByConstituency(prop.HighestAverages('d_hondt')).evaluate(votes, 1))

    def alarm(signum, frame):
        raise TimeoutError

    signal.signal(signal.SIGALRM, alarm)
    signal.alarm(20)
    try:
        adjustment = calculator.calculate(votes, 1, prev_gains={})
    except TimeoutError:
        print(f'NOT TERMINATED after 20 s: {Spy.calls} overall evaluations, house size still growing')
        return 1
    finally:
        signal.alarm(0)
    print('returned', adjustment)
    return 0


if __name__ == '__main__':
    sys.exit(main())
