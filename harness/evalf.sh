#!/bin/sh
# usage: evalf.sh id check1 [check2...]
id=$1; shift
cd /verif
/venv/bin/python harness/seeded_eval.py /tmp/seed/$id $id "$@" 2>&1 | grep "caught by\|confirmed" | tr '\n' ' '
python3 -c "
import json; m=json.load(open('/verif/seeded/$id/meta.json')); print('| $id replay:', m.get('caught_with_replay'), '| has note:', bool(m.get('change')))"
