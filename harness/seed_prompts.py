#!/usr/bin/env python3
"""Make the prompts of the next round of seeded changes from those of the previous round:
   usage: seed_prompts.py <prev letter> <new letter>   (e.g. h i)
   The list of changes already used for a property is extended by the previous round's change (seeded/<id><prev>/meta.json)."""
import json, os, sys
prev, new = sys.argv[1], sys.argv[2]
root = os.path.dirname(os.path.dirname(os.path.abspath(__file__)))
src, dst = f'{root}/seeded/_prompts_{prev}', f'{root}/seeded/_prompts_{new}'
os.makedirs(dst, exist_ok=True)
for fn in sorted(os.listdir(src)):
    pid = fn[:3]
    text = open(f'{src}/{fn}').read()
    meta = f'{root}/seeded/{pid}{prev}/meta.json'
    marker = '\n\nThis is a later round'
    if os.path.exists(meta) and marker in text:
        m = json.load(open(meta))
        if m.get('change'):
            line = f"- {m['change'][:200]} (needs: {m.get('needs', '')[:160]})"
            text = text.replace(marker, '\n' + line + marker, 1)
    text = text.replace(f'{pid}{prev}', f'{pid}{new}')
    open(f'{dst}/{pid}.txt', 'w').write(text)
print('written', dst)
