#!/usr/bin/env python3
"""Evaluate a seeded change:  seeded_eval.py <worktree> <seed-id> <property> [<other property checks to run>...]
   1. confirms in the worktree: patch applied, suite passes, demo.py fails; on the unchanged tree demo.py passes
   2. runs ./check <prop> with VOTELIB_REPO=<worktree> (patched) for each given property, records exit code + VIOLATION lines
   3. copies patch.diff + demo.py + meta.json to /verif/seeded/<seed-id>/ and restores the generated Lean files"""
import os, sys, json, subprocess, shutil
wt, sid, prop = sys.argv[1], sys.argv[2], sys.argv[3]
checks = sys.argv[3:]
VERIF = '/verif'
def sh(cmd, cwd=None, env=None, timeout=3600):
    p = subprocess.run(cmd, shell=True, cwd=cwd, env=env, stdout=subprocess.PIPE, stderr=subprocess.STDOUT, text=True, timeout=timeout)
    return p.returncode, p.stdout
env = dict(os.environ, PYTHONPATH=wt)
meta = {'property': prop, 'worktree': wt, 'ran': []}
rc, out = sh('git diff --stat', cwd=wt); meta['diffstat'] = out.strip()
rc, out = sh('/venv/bin/python -m pytest -q -p no:cacheprovider 2>&1 | tail -1', cwd=wt, env=env); meta['suite_patched'] = out.strip()
rc1, out1 = sh('/venv/bin/python demo.py', cwd=wt, env=env); meta['demo_patched_rc'] = rc1; meta['demo_patched_tail'] = out1[-400:]
# unchanged tree: run demo against /repo
# (no `git stash`: the stash is shared between all worktrees of a repository and collides with parallel work)
sh('git diff > /tmp/seed/.%s.eval.diff && git apply -R /tmp/seed/.%s.eval.diff' % (sid, sid), cwd=wt)
rc0, out0 = sh('/venv/bin/python demo.py', cwd=wt, env=env); meta['demo_unchanged_rc'] = rc0
sh('git apply /tmp/seed/.%s.eval.diff && rm -f /tmp/seed/.%s.eval.diff' % (sid, sid), cwd=wt)
ok = ' passed' in meta['suite_patched'] and 'failed' not in meta['suite_patched'] and rc1 != 0 and rc0 == 0
meta['confirmed'] = ok
print('confirmed:', ok, meta['suite_patched'], 'demo patched rc', rc1, 'demo unchanged rc', rc0)
for c in checks:
    rc, out = sh(f'./check {c} --tier quick', cwd=VERIF, env=dict(os.environ, VOTELIB_REPO=wt))
    viol = [l for l in out.split('\n') if l.startswith('VIOLATION')]
    last = out.strip().split('\n')[-1]
    meta['ran'].append({'check': c, 'exit': rc, 'violations': viol[:5], 'summary': last[:300]})
    print(c, 'exit', rc, viol[:2], last[:200])
# restore generated files + evidence from the real repo
for c in checks:
    sh(f'./check {c} --tier quick', cwd=VERIF)
d = os.path.join(VERIF, 'seeded', sid)
os.makedirs(d, exist_ok=True)
shutil.copy(os.path.join(wt, 'patch.diff'), d)
shutil.copy(os.path.join(wt, 'demo.py'), d)
meta['caught_by'] = [r['check'] for r in meta['ran'] if r['exit'] == 1 and r['violations']]
meta['caught_with_replay'] = [r['check'] for r in meta['ran'] if r['exit'] == 1 and any('no-failing-input-found' not in v for v in r['violations'])]
old_path = os.path.join(d, 'meta.json')
if os.path.exists(old_path):                      # a re-evaluation keeps the hand-written description and history
    try:
        old = json.load(open(old_path))
        for k in ('change', 'what', 'needs', 'history'):
            if k in old and k not in meta:
                meta[k] = old[k]
    except Exception:
        pass
note = os.path.join(wt, 'meta_note.json')           # optional: written by the author of the change
if os.path.exists(note):
    try:
        for k, v in json.load(open(note)).items():
            meta.setdefault(k, v)
    except Exception:
        pass
json.dump(meta, open(os.path.join(d, 'meta.json'), 'w'), indent=1)
print('caught by:', meta['caught_by'])
