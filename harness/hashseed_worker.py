#!/usr/bin/env python3
"""Evaluates (family, profile, n) cases read as JSON lines from stdin under the interpreter's PYTHONHASHSEED and
prints one canonical outcome per line.  Used by C10 to sample hash-seed independence."""
import sys, os, json
sys.path.insert(0, os.path.dirname(os.path.abspath(__file__)))
sys.path.insert(0, os.environ.get('VOTELIB_REPO', '/repo'))
from common import Names, canon   # noqa
import families as fam_mod        # noqa

F = {f.name: f for f in fam_mod.families()}
for line in sys.stdin:
    c = json.loads(line)
    names = Names(c['names']) if c.get('names') else Names(prefix='cand')
    r = fam_mod.run_family(F[c['family']], c['prof'], c['n'], names)
    print(json.dumps(canon(r)), flush=True)
